import Mathlib.Algebra.BigOperators.Intervals
import Mathlib.Algebra.BigOperators.Ring.Finset
import Mathlib.Algebra.Field.Basic
import Mathlib.Data.Complex.Basic
import Mathlib.Analysis.SpecialFunctions.Complex.Log
import Mathlib.Tactic.Ring
import Mathlib.Tactic.Linarith
import Mathlib.Tactic.LinearCombination
import Mathlib.Tactic.NormNum
import HcipyVerif.Model.ZoomN
import HcipyVerif.Model.Mft
import HcipyVerif.Lemmas.Czt
import HcipyVerif.Lemmas.FftPipeline
import HcipyVerif.Lemmas.FftPipelineN
import HcipyVerif.Lemmas.Mft
import HcipyVerif.Lemmas.FourierC02

/-!
# ZoomFastFourierTransform: branch independence, `n` axes with weights, agreement of the
# implementations

* `zoom_eq_sum_branch` (+ `zoom_eq_sum_branch_exp`): one axis of the Zoom FFT evaluates the defining
  sum for **every** representative `ω'`, `α'` of `w = exp(-iΔδ)`, `a = exp(i·u0·δ)` (numpy's
  principal-branch power `w**(k²/2)` uses `ω' ≡ -Δδ (mod 2π)`, not necessarily `-Δδ` itself).
* `zoomN_eq_sumN`, `zoomN_backward_eq_sumN`: the axis loop of `forward` / `backward` including the
  per-point weights evaluates the `n`-D defining sum (induction over the axis list).
* `fft_eq_mft`, `mft_eq_zoom`, `fft_eq_zoom` (abstract characters) and `implementations_agree`
  (`Complex.exp`): FastFourierTransform, MatrixFourierTransform, ZoomFastFourierTransform and the
  naive sum agree on a consistent FFT axis.
* `mft_eq_zoom_2d`: 2-D MatrixFourierTransform = 2-axis ZoomFFT on regular separated grids.
* `zoomN_branch_eq_sumN`: the `n`-axis loop run with arbitrary admissible branches per axis.
* `fftN_eq_zoomN`, `implementations_agree_nd`: `n`-axis FFT = `n`-axis ZoomFFT = `n`-D sum.
-/
set_option linter.unusedSimpArgs false
set_option linter.unusedVariables false
set_option linter.unusedSectionVars false

namespace HcipyVerif.Fft
open Finset

/-! ## 0. The chirp parameters of an axis (what the driver op `C01 zoomchirp` prints) -/

section chirp
variable {K C : Type} [Field K] [Field C]

/-- `zoomAxis` runs the Bluestein pipeline with exactly the parameters `zoomChirp` of its axis -/
theorem zoomAxis_chirp (n m nfft : ℕ) (E : K → C) (x0 δ u0 Δ : K) (f : ℕ → C) (k : ℕ) :
    zoomAxis n m nfft E x0 δ u0 Δ f k
      = cztBluestein n m nfft E (zoomChirp δ u0 Δ).1 (zoomChirp δ u0 Δ).2 f k
          * E (-((u0 + (k : K) * Δ) * x0)) := rfl

/-- `zoomAxisInv` runs it with `zoomChirpInv` and the conjugate character -/
theorem zoomAxisInv_chirp (n m nfftInv : ℕ) (E : K → C) (x0 δ u0 Δ : K) (F : ℕ → C) (j : ℕ) :
    zoomAxisInv E n m nfftInv x0 δ u0 Δ F j
      = cztBluestein m n nfftInv (fun r => E (-r)) (zoomChirpInv x0 δ Δ).1 (zoomChirpInv x0 δ Δ).2 F j
          * E (-(-((x0 + (j : K) * δ) * u0))) := rfl

end chirp

/-! ## 1. The branch of `w**(k²/2)` and `a**(-k)` -/

section branch
variable {K C : Type} [Field K] [Field C]

/-- **Zoom FFT, one axis, any branch**: the code computes `wk2 = w**(k²/2)` and `a**(-k)` from the
complex numbers `w = exp(-iΔδ)`, `a = exp(i·u0·δ)`, i.e. with *some* representatives `ω'`, `α'`
such that `E ω' = E (-(Δδ))`, `E α' = E (u0·δ)` (principal branch: `ω' ∈ (-π, π]`).  For every such
pair the Bluestein pipeline times the shift is the defining Fourier sum on the output grid. -/
theorem zoom_eq_sum_branch {E : K → C} (hE : IsChar E) (h2 : (2 : K) ≠ 0) (n m nfft : ℕ)
    (hn : 0 < n) (hnfft : n + m - 1 ≤ nfft) (x0 δ u0 Δ ω' α' : K)
    (hω : E ω' = E (-(Δ * δ))) (hα : E α' = E (u0 * δ)) (f : ℕ → C) (k : ℕ) (hk : k < m) :
    cztBluestein n m nfft E ω' α' f k * E (-((u0 + (k : K) * Δ) * x0))
      = zoomSum n E x0 δ u0 Δ f k := by
  rw [czt_eq_sum hE h2 n m nfft hn hnfft ω' α' f k hk,
    cztSum_congr hE n ω' (-(Δ * δ)) α' (u0 * δ) hω hα f k]
  exact cztSum_shift_eq_zoomSum hE n x0 δ u0 Δ f k

/-- the model's `zoomAxis` (representatives `-(Δδ)`, `u0·δ`) and the pipeline with any other
representatives of the same `w`, `a` have the same value -/
theorem zoomAxis_eq_branch {E : K → C} (hE : IsChar E) (h2 : (2 : K) ≠ 0) (n m nfft : ℕ)
    (hn : 0 < n) (hnfft : n + m - 1 ≤ nfft) (x0 δ u0 Δ ω' α' : K)
    (hω : E ω' = E (-(Δ * δ))) (hα : E α' = E (u0 * δ)) (f : ℕ → C) (k : ℕ) (hk : k < m) :
    cztBluestein n m nfft E ω' α' f k * E (-((u0 + (k : K) * Δ) * x0))
      = zoomAxis n m nfft E x0 δ u0 Δ f k := by
  rw [zoom_eq_sum_branch hE h2 n m nfft hn hnfft x0 δ u0 Δ ω' α' hω hα f k hk,
    zoom_axis_eq_sum hE h2 n m nfft hn hnfft x0 δ u0 Δ f k hk]

end branch

/-- `exp(i·(r + 2π·n)) = exp(i·r)` for integer `n` -/
theorem expE_add_two_pi_int (r : ℝ) (n : ℤ) : expE (r + 2 * Real.pi * (n : ℝ)) = expE r := by
  unfold expE
  have : (((r + 2 * Real.pi * (n : ℝ) : ℝ) : ℂ) * Complex.I)
      = (r : ℂ) * Complex.I + (n : ℂ) * (2 * Real.pi * Complex.I) := by
    push_cast; ring
  rw [this, Complex.exp_add, Complex.exp_int_mul_two_pi_mul_I, mul_one]

/-- **Zoom FFT, one axis, `Complex.exp`, every branch**: with `ω' = -Δδ + 2π·nω`,
`α' = u0·δ + 2π·nα` for arbitrary integers `nω`, `nα` (in particular the principal values that
numpy's `w**(k²/2)` uses) the pipeline evaluates `Σ_i f_i·exp(-i·u_k·x_i)`. -/
theorem zoom_eq_sum_branch_exp (n m nfft : ℕ) (hn : 0 < n) (hnfft : n + m - 1 ≤ nfft)
    (x0 δ u0 Δ : ℝ) (nω nα : ℤ) (f : ℕ → ℂ) (k : ℕ) (hk : k < m) :
    cztBluestein n m nfft expE (-(Δ * δ) + 2 * Real.pi * (nω : ℝ)) (u0 * δ + 2 * Real.pi * (nα : ℝ))
        f k * expE (-((u0 + (k : ℝ) * Δ) * x0))
      = ∑ i ∈ range n, f i *
          Complex.exp (-(Complex.I * (((u0 + (k : ℝ) * Δ : ℝ) : ℂ) * ((x0 + (i : ℝ) * δ : ℝ) : ℂ)))) := by
  rw [zoom_eq_sum_branch expE_isChar two_ne_zero n m nfft hn hnfft x0 δ u0 Δ _ _
    (expE_add_two_pi_int _ nω) (expE_add_two_pi_int _ nα) f k hk]
  simp only [zoomSum, sumRange_eq]
  apply Finset.sum_congr rfl
  intro i _
  congr 1
  unfold expE
  congr 1
  push_cast
  ring

/-- satisfiability of the branch hypotheses with a representative different from `-(Δδ)`:
`Δδ = 4 > π`, principal value `-4 + 2π` -/
example : ∃ ω' : ℝ, ω' ≠ -(4 * 1) ∧ expE ω' = expE (-(4 * 1)) :=
  ⟨-(4 * 1) + 2 * Real.pi * ((1 : ℤ) : ℝ), by intro h; simp at h, expE_add_two_pi_int _ 1⟩

/-! ## 2. `n` axes, with the weights -/

section loopN
variable {K C : Type} [Field K] [Field C] {E : K → C}

/-- `zoomAxis … f k` only reads `f i` for `i < n` (the zero padding `fft(x * Awk2, nfft)`). -/
theorem zoomAxis_congr (n m nfft : ℕ) (x0 δ u0 Δ : K) (f f' : ℕ → C)
    (hff : ∀ i, i < n → f i = f' i) (k : ℕ) :
    zoomAxis n m nfft E x0 δ u0 Δ f k = zoomAxis n m nfft E x0 δ u0 Δ f' k := by
  unfold zoomAxis cztBluestein circConv
  congr 3
  funext r
  congr 1
  unfold padEnd
  by_cases hr : r < n
  · rw [if_pos hr, if_pos hr]
    show f r * _ = f' r * _
    rw [hff r hr]
  · rw [if_neg hr, if_neg hr]

theorem zoomLoopN_nil (f : List ℕ → C) (ks : List ℕ) : zoomLoopN E [] f ks = f [] := by
  cases ks <;> rfl

theorem zoomLoopInvN_nil (F : List ℕ → C) (js : List ℕ) : zoomLoopInvN E [] F js = F [] := by
  cases js <;> rfl

theorem dotUX_nil (ks js : List ℕ) : dotUX ([] : List (ZAx K)) ks js = 0 := by
  cases ks <;> cases js <;> rfl

/-- the axis loop of `forward` (any input array `g`) evaluates the `n`-D sum -/
theorem zoomLoopN_eq_sumOverN (hE : IsChar E) (h2 : (2 : K) ≠ 0) (axs : List (ZAx K))
    (haxs : ∀ a ∈ axs, 0 < a.n ∧ a.n + a.m - 1 ≤ a.nfft)
    (g : List ℕ → C) (ks : List ℕ) (hks : List.Forall₂ (fun k a => k < a.m) ks axs) :
    zoomLoopN E axs g ks
      = sumOverN (axs.map fun a => a.n) fun js => g js * E (-(dotUX axs ks js)) := by
  induction axs generalizing g ks with
  | nil =>
    rw [zoomLoopN_nil]
    simp [sumOverN, dotUX_nil, hE.zero]
  | cons a as ih =>
    cases hks with
    | cons hk hks' =>
      rename_i k ks'
      obtain ⟨hn, hnfft⟩ := haxs a (List.mem_cons_self ..)
      have haxs' : ∀ a' ∈ as, 0 < a'.n ∧ a'.n + a'.m - 1 ≤ a'.nfft :=
        fun a' ha' => haxs a' (List.mem_cons_of_mem _ ha')
      show zoomAxis a.n a.m a.nfft E a.x0 a.δ a.u0 a.Δ
          (fun i => zoomLoopN E as (fun idx => g (i :: idx)) ks') k = _
      rw [zoom_axis_eq_sum hE h2 a.n a.m a.nfft hn hnfft a.x0 a.δ a.u0 a.Δ _ k hk]
      simp only [zoomSum, List.map_cons, sumOverN]
      congr 1
      funext i
      rw [ih haxs' _ _ hks', ← sumOverN_mul_right]
      congr 1
      funext idx
      simp only [dotUX]
      rw [mul_assoc, ← hE.add]
      congr 2
      ring

/-- the axis loop of `backward` (any input array `G`) evaluates the `n`-D sum -/
theorem zoomLoopInvN_eq_sumOverN (hE : IsChar E) (h2 : (2 : K) ≠ 0) (axs : List (ZAx K))
    (haxs : ∀ a ∈ axs, 0 < a.m ∧ a.m + a.n - 1 ≤ a.nfftInv)
    (G : List ℕ → C) (js : List ℕ) (hjs : List.Forall₂ (fun j a => j < a.n) js axs) :
    zoomLoopInvN E axs G js
      = sumOverN (axs.map fun a => a.m) fun ks => G ks * E (dotUX axs ks js) := by
  induction axs generalizing G js with
  | nil =>
    rw [zoomLoopInvN_nil]
    simp [sumOverN, dotUX_nil, hE.zero]
  | cons a as ih =>
    cases hjs with
    | cons hj hjs' =>
      rename_i j js'
      obtain ⟨hm, hnfft⟩ := haxs a (List.mem_cons_self ..)
      have haxs' : ∀ a' ∈ as, 0 < a'.m ∧ a'.m + a'.n - 1 ≤ a'.nfftInv :=
        fun a' ha' => haxs a' (List.mem_cons_of_mem _ ha')
      show zoomAxis a.m a.n a.nfftInv (fun r => E (-r)) a.u0 a.Δ a.x0 a.δ
          (fun k => zoomLoopInvN E as (fun idx => G (k :: idx)) js') j = _
      rw [zoom_axis_backward_eq_sum hE h2 a.m a.n a.nfftInv hm hnfft a.x0 a.δ a.u0 a.Δ _ j hj]
      simp only [List.map_cons, sumOverN, sumRange_eq]
      apply Finset.sum_congr rfl
      intro k _
      rw [ih haxs' _ _ hjs', ← sumOverN_mul_right]
      congr 1
      funext idx
      simp only [dotUX]
      rw [mul_assoc, ← hE.add]
      congr 2
      ring

/-- **`ZoomFastFourierTransform.forward` on `n` axes, including the input weights**:
`(field * input_weights)` through the axis loop (`czt(f) * shift` on every axis) evaluates
`Σ_js f(js)·w(js)·exp(-i·u_ks·x_js)`, `u_ks·x_js = Σ_i (u0_i + k_i·Δ_i)(x0_i + j_i·δ_i)`, for every
list of axes, every `nfft_i ≥ n_i + m_i - 1` and every in-range output index list. -/
theorem zoomN_eq_sumN (hE : IsChar E) (h2 : (2 : K) ≠ 0) (axs : List (ZAx K))
    (haxs : ∀ a ∈ axs, 0 < a.n ∧ a.n + a.m - 1 ≤ a.nfft)
    (w f : List ℕ → C) (ks : List ℕ) (hks : List.Forall₂ (fun k a => k < a.m) ks axs) :
    zoomForwardN E axs w f ks = zoomSumForwardN E axs w f ks :=
  zoomLoopN_eq_sumOverN hE h2 axs haxs _ ks hks

/-- **`ZoomFastFourierTransform.backward` on `n` axes, including the output weights**:
`(field * output_weights)` through the inverse loop evaluates
`Σ_ks F(ks)·wOut(ks)·exp(+i·u_ks·x_js)` (`wOut = output_grid.weights/(2π)^n`). -/
theorem zoomN_backward_eq_sumN (hE : IsChar E) (h2 : (2 : K) ≠ 0) (axs : List (ZAx K))
    (haxs : ∀ a ∈ axs, 0 < a.m ∧ a.m + a.n - 1 ≤ a.nfftInv)
    (wOut F : List ℕ → C) (js : List ℕ) (hjs : List.Forall₂ (fun j a => j < a.n) js axs) :
    zoomBackwardN E axs wOut F js = zoomSumBackwardN E axs wOut F js :=
  zoomLoopInvN_eq_sumOverN hE h2 axs haxs _ js hjs

/-- The axis loop of `forward` **as the code runs it**: on axis `i` the Bluestein pipeline is run
with the representatives `(ω'_i, α'_i)` that numpy's powers `w**(k²/2)`, `a**(-k)` actually use
(second and third component of the list entries), not with the model's `-(Δδ)`, `u0·δ`. -/
def zoomLoopBranchN (E : K → C) : List (ZAx K × K × K) → (List ℕ → C) → List ℕ → C
  | [], f, _ => f []
  | (a, ω', α') :: as, f, k :: ks =>
      cztBluestein a.n a.m a.nfft E ω' α'
          (fun i => zoomLoopBranchN E as (fun idx => f (i :: idx)) ks) k
        * E (-((a.u0 + (k : K) * a.Δ) * a.x0))
  | _ :: _, _, [] => 0

/-- the loop with arbitrary admissible branches has the same value as the model's `zoomLoopN` -/
theorem zoomLoopBranchN_eq_zoomLoopN (hE : IsChar E) (h2 : (2 : K) ≠ 0)
    (axs : List (ZAx K × K × K))
    (haxs : ∀ p ∈ axs, 0 < p.1.n ∧ p.1.n + p.1.m - 1 ≤ p.1.nfft ∧
      E p.2.1 = E (-(p.1.Δ * p.1.δ)) ∧ E p.2.2 = E (p.1.u0 * p.1.δ))
    (g : List ℕ → C) (ks : List ℕ) (hks : List.Forall₂ (fun k p => k < p.1.m) ks axs) :
    zoomLoopBranchN E axs g ks = zoomLoopN E (axs.map Prod.fst) g ks := by
  induction axs generalizing g ks with
  | nil => cases ks <;> rfl
  | cons p as ih =>
    cases hks with
    | cons hk hks' =>
      rename_i k ks'
      obtain ⟨a, ω', α'⟩ := p
      obtain ⟨hn, hnfft, hω, hα⟩ := haxs (a, ω', α') (List.mem_cons_self ..)
      have haxs' : ∀ p ∈ as, 0 < p.1.n ∧ p.1.n + p.1.m - 1 ≤ p.1.nfft ∧
          E p.2.1 = E (-(p.1.Δ * p.1.δ)) ∧ E p.2.2 = E (p.1.u0 * p.1.δ) :=
        fun p hp => haxs p (List.mem_cons_of_mem _ hp)
      show cztBluestein a.n a.m a.nfft E ω' α'
            (fun i => zoomLoopBranchN E as (fun idx => g (i :: idx)) ks') k
          * E (-((a.u0 + (k : K) * a.Δ) * a.x0))
        = zoomAxis a.n a.m a.nfft E a.x0 a.δ a.u0 a.Δ
            (fun i => zoomLoopN E (as.map Prod.fst) (fun idx => g (i :: idx)) ks') k
      rw [zoomAxis_eq_branch hE h2 a.n a.m a.nfft hn hnfft a.x0 a.δ a.u0 a.Δ ω' α' hω hα _ k hk]
      congr 1
      funext i
      exact ih haxs' _ _ hks'

/-- **`ZoomFastFourierTransform.forward` on `n` axes, weights included, any branch**: whatever
representatives `ω'_i ≡ -(Δ_i δ_i)`, `α'_i ≡ u0_i δ_i` (mod the period of `E`) the powers
`w**(k²/2)`, `a**(-k)` are computed with, the loop evaluates the `n`-D defining sum. -/
theorem zoomN_branch_eq_sumN (hE : IsChar E) (h2 : (2 : K) ≠ 0) (axs : List (ZAx K × K × K))
    (haxs : ∀ p ∈ axs, 0 < p.1.n ∧ p.1.n + p.1.m - 1 ≤ p.1.nfft ∧
      E p.2.1 = E (-(p.1.Δ * p.1.δ)) ∧ E p.2.2 = E (p.1.u0 * p.1.δ))
    (w f : List ℕ → C) (ks : List ℕ) (hks : List.Forall₂ (fun k p => k < p.1.m) ks axs) :
    zoomLoopBranchN E axs (fun js => f js * w js) ks
      = zoomSumForwardN E (axs.map Prod.fst) w f ks := by
  rw [zoomLoopBranchN_eq_zoomLoopN hE h2 axs haxs _ ks hks]
  refine zoomN_eq_sumN hE h2 (axs.map Prod.fst) ?_ w f ks ?_
  · intro a ha
    obtain ⟨p, hp, rfl⟩ := List.mem_map.mp ha
    exact ⟨(haxs p hp).1, (haxs p hp).2.1⟩
  · exact List.forall₂_map_right_iff.mpr hks

end loopN

/-- satisfiability of the hypothesis bundle of `zoomN_branch_eq_sumN` with a non-trivial branch:
one axis with `Δδ = 4 > π`, representative `ω' = -4 + 2π` -/
example : ∃ (axs : List (ZAx ℝ × ℝ × ℝ)) (ks : List ℕ),
    (∀ p ∈ axs, 0 < p.1.n ∧ p.1.n + p.1.m - 1 ≤ p.1.nfft ∧
      expE p.2.1 = expE (-(p.1.Δ * p.1.δ)) ∧ expE p.2.2 = expE (p.1.u0 * p.1.δ)) ∧
    List.Forall₂ (fun k p => k < p.1.m) ks axs :=
  ⟨[(⟨2, 3, 4, 4, 0, 1, 0, 4⟩, -(4 * 1) + 2 * Real.pi * ((1 : ℤ) : ℝ), 0 * 1)], [2], by
    intro p hp
    simp only [List.mem_cons, List.not_mem_nil, or_false] at hp
    subst hp
    exact ⟨by norm_num, by norm_num, expE_add_two_pi_int _ 1, rfl⟩,
    List.Forall₂.cons (by norm_num) List.Forall₂.nil⟩

/-- satisfiability of the hypothesis bundles of `zoomN_eq_sumN` / `zoomN_backward_eq_sumN`:
two axes `(n, m, nfft, nfftInv) = (2, 3, 4, 4)` and `(3, 2, 5, 4)` -/
example : ∃ (axs : List (ZAx ℝ)) (ks js : List ℕ),
    (∀ a ∈ axs, 0 < a.n ∧ a.n + a.m - 1 ≤ a.nfft) ∧
    (∀ a ∈ axs, 0 < a.m ∧ a.m + a.n - 1 ≤ a.nfftInv) ∧
    List.Forall₂ (fun k a => k < a.m) ks axs ∧ List.Forall₂ (fun j a => j < a.n) js axs :=
  ⟨[⟨2, 3, 4, 4, 0, 1, 0, 1⟩, ⟨3, 2, 5, 4, -1, 1 / 2, 0, 1⟩], [2, 1], [1, 2],
    by simp, by simp,
    List.Forall₂.cons (by norm_num) (List.Forall₂.cons (by norm_num) List.Forall₂.nil),
    List.Forall₂.cons (by norm_num) (List.Forall₂.cons (by norm_num) List.Forall₂.nil)⟩

/-! ## 3. Agreement of the implementations on one axis -/

section agree
variable {K C : Type} [Field K] [Field C] {T E : K → C}

/-- **MatrixFourierTransform (1-D) = ZoomFastFourierTransform (one axis)** on arbitrary regular
grids `x_i = x0 + i·δ` (`n` samples), `u_k = u0 + k·Δ` (`m` samples), for both weight branches
(`w.get` is the broadcast weights array) and every `nfft ≥ n + m - 1`. -/
theorem mft_eq_zoom (hE : IsChar E) (h2 : (2 : K) ≠ 0) (n m nfft : ℕ) (hn : 0 < n)
    (hnfft : n + m - 1 ≤ nfft) (x0 δ u0 Δ : K) (w : Weights C) (f : ℕ → C) (k : ℕ) (hk : k < m) :
    mftForward1 E n (fun i => x0 + (i : K) * δ) (fun k => u0 + (k : K) * Δ) w f k
      = zoomAxis n m nfft E x0 δ u0 Δ (fun j => f j * w.get j) k := by
  rw [mft_forward_eq_sum_1d, zoom_axis_eq_sum hE h2 n m nfft hn hnfft x0 δ u0 Δ _ k hk]
  simp only [zoomSum, sumRange_eq]

/-- the scalar-weights branch of `mft_eq_zoom` -/
theorem mft_eq_zoom_scalar (hE : IsChar E) (h2 : (2 : K) ≠ 0) (n m nfft : ℕ) (hn : 0 < n)
    (hnfft : n + m - 1 ≤ nfft) (x0 δ u0 Δ : K) (w : C) (f : ℕ → C) (k : ℕ) (hk : k < m) :
    mftForward1 E n (fun i => x0 + (i : K) * δ) (fun k => u0 + (k : K) * Δ) (.scalar w) f k
      = zoomAxis n m nfft E x0 δ u0 Δ (fun j => f j * w) k :=
  mft_eq_zoom hE h2 n m nfft hn hnfft x0 δ u0 Δ (.scalar w) f k hk

/-- **FastFourierTransform = MatrixFourierTransform (1-D)** on a consistent FFT axis.  `τ` is the
number with `T t = E (τ·t)` (`τ = 2π`); the output coordinates are `u_k = τ·a_k + s`. -/
theorem fft_eq_mft (hT : IsChar T) (hE : IsChar E) (hper : ∀ n : ℤ, T (n : K) = 1) (τ : K)
    (hTE : ∀ t, T t = E (τ * t)) (g : Cfg K C) (hN : g.N ≤ g.M) (hMo : g.Mo ≤ g.M)
    (hcons : g.dT * (g.M : K) * g.δ = 1) (f : ℕ → C) (k : ℕ) (hk : k < g.Mo) :
    fastForward T E g f k
      = mftForward1 E g.N g.x (fun k => τ * g.a k + g.s) (.scalar g.w) f k := by
  rw [fastForward_eq_sumForward hT hE hper g hN hMo hcons f k hk, mft_forward_eq_sum_1d]
  simp only [sumForward, sumRange_eq, Weights.get]
  apply Finset.sum_congr rfl
  intro j _
  rw [hTE, ← hE.add]
  congr 2
  ring

/-- the FFT output grid is regular: `τ·a_k + s = (τ·a_0 + s) + k·(τ·dT)` -/
theorem Cfg.u_regular (g : Cfg K C) (τ : K) (k : ℕ) :
    τ * g.a k + g.s = (τ * g.a 0 + g.s) + (k : K) * (τ * g.dT) := by
  unfold Cfg.a
  rw [Nat.cast_zero]
  ring

/-- **FastFourierTransform = ZoomFastFourierTransform (one axis)** on a consistent FFT axis: the
zoom axis on the input grid `(z, δ)` and the FFT's own output grid (zero `u_0 = τ·a_0 + s`, spacing
`τ·dT`), applied to `field * weights`, for every `nfft ≥ N + Mo - 1`. -/
theorem fft_eq_zoom (hT : IsChar T) (hE : IsChar E) (hper : ∀ n : ℤ, T (n : K) = 1) (τ : K)
    (hTE : ∀ t, T t = E (τ * t)) (h2 : (2 : K) ≠ 0) (g : Cfg K C) (hN0 : 0 < g.N) (hN : g.N ≤ g.M)
    (hMo : g.Mo ≤ g.M) (hcons : g.dT * (g.M : K) * g.δ = 1) (nfft : ℕ)
    (hnfft : g.N + g.Mo - 1 ≤ nfft) (f : ℕ → C) (k : ℕ) (hk : k < g.Mo) :
    fastForward T E g f k
      = zoomAxis g.N g.Mo nfft E g.z g.δ (τ * g.a 0 + g.s) (τ * g.dT) (fun j => f j * g.w) k := by
  rw [fft_eq_mft hT hE hper τ hTE g hN hMo hcons f k hk,
    ← mft_eq_zoom_scalar hE h2 g.N g.Mo nfft hN0 hnfft g.z g.δ (τ * g.a 0 + g.s) (τ * g.dT) g.w f k hk]
  have hu : (fun k => τ * g.a k + g.s) = fun k : ℕ => (τ * g.a 0 + g.s) + (k : K) * (τ * g.dT) :=
    funext fun k => g.u_regular τ k
  rw [hu]
  rfl

end agree

/-- `exp(2πi·t) = exp(i·(2π·t))` -/
theorem expT_eq_expE (t : ℝ) : expT t = expE (2 * Real.pi * t) := by
  unfold expT expE
  congr 1
  push_cast
  ring

/-- **The implementations agree** (`Complex.exp`, one axis).  On a consistent FFT axis
(`N ≤ M`, `Mo ≤ M`, `dT·M·δ = 1`, `0 < N`), with output coordinates `u_k = 2π·a_k + s`, for every
in-range output sample `k` and every `nfft ≥ N + Mo - 1`:
`FastFourierTransform.forward` = `MatrixFourierTransform.forward` (1-D, scalar weights, same grids)
= `ZoomFastFourierTransform.forward` (one axis, on `field * weights`)
= the naive transform `Σ_j f_j·w·exp(-i·u_k·x_j)`. -/
theorem implementations_agree (g : Cfg ℝ ℂ) (hN0 : 0 < g.N) (hN : g.N ≤ g.M) (hMo : g.Mo ≤ g.M)
    (hcons : g.dT * (g.M : ℝ) * g.δ = 1) (nfft : ℕ) (hnfft : g.N + g.Mo - 1 ≤ nfft)
    (f : ℕ → ℂ) (k : ℕ) (hk : k < g.Mo) :
    fastForward expT expE g f k
        = mftForward1 expE g.N g.x (fun k => 2 * Real.pi * g.a k + g.s) (.scalar g.w) f k
    ∧ fastForward expT expE g f k
        = zoomAxis g.N g.Mo nfft expE g.z g.δ (2 * Real.pi * g.a 0 + g.s) (2 * Real.pi * g.dT)
            (fun j => f j * g.w) k
    ∧ fastForward expT expE g f k
        = ∑ j ∈ range g.N, f j * g.w *
            Complex.exp (-(Complex.I * (((2 * Real.pi * g.a k + g.s : ℝ) : ℂ) * ((g.x j : ℝ) : ℂ)))) := by
  refine ⟨fft_eq_mft expT_isChar expE_isChar expT_period _ expT_eq_expE g hN hMo hcons f k hk,
    fft_eq_zoom expT_isChar expE_isChar expT_period _ expT_eq_expE two_ne_zero g hN0 hN hMo hcons
      nfft hnfft f k hk, ?_⟩
  rw [fft_eq_mft expT_isChar expE_isChar expT_period _ expT_eq_expE g hN hMo hcons f k hk,
    mft_forward_eq_sum_1d]
  apply Finset.sum_congr rfl
  intro j _
  simp only [Weights.get]
  congr 1
  unfold expE
  congr 1
  push_cast
  ring

/-- satisfiability of the hypothesis bundle of `implementations_agree`
(`N = 2, M = 4, Mo = 3, δ = dT = 1/2, nfft = 4`) -/
example : ∃ (g : Cfg ℝ ℂ) (nfft k : ℕ), 0 < g.N ∧ g.N ≤ g.M ∧ g.Mo ≤ g.M ∧
    g.dT * (g.M : ℝ) * g.δ = 1 ∧ g.N + g.Mo - 1 ≤ nfft ∧ k < g.Mo :=
  ⟨{ N := 2, M := 4, Mo := 3, δ := 1 / 2, z := 0, dT := 1 / 2, s := 0, w := 1, emu := false },
    4, 2, by norm_num, by norm_num, by norm_num, by norm_num, by norm_num, by norm_num⟩

/-! ## 4. Two axes: MatrixFourierTransform = ZoomFastFourierTransform -/

section agree2
variable {K C : Type} [Field K] [Field C] {E : K → C}

/-- a flat C-ordered `(·, Nx)` array as a function of the index list `[iy, ix]` -/
def flat2 (Nx : ℕ) (f : ℕ → C) (l : List ℕ) : C := f (l.getD 0 0 * Nx + l.getD 1 0)

theorem flat2_pair (Nx : ℕ) (f : ℕ → C) (iy ix : ℕ) : flat2 Nx f [iy, ix] = f (iy * Nx + ix) := rfl

/-- **MatrixFourierTransform (2-D) = ZoomFastFourierTransform (2 axes)** on regular separated
grids: the axis list is `[ay, ax]` (shape order), the flat input index is `iy·Nx + ix`, the flat
output index `iv·Nu + iu`; both weight branches of the MFT (`w.get` = broadcast weights). -/
theorem mft_eq_zoom_2d (hE : IsChar E) (h2 : (2 : K) ≠ 0) (ay ax : ZAx K)
    (hy : 0 < ay.n ∧ ay.n + ay.m - 1 ≤ ay.nfft) (hx : 0 < ax.n ∧ ax.n + ax.m - 1 ≤ ax.nfft)
    (w : Weights C) (f : ℕ → C) (iv iu : ℕ) (hiv : iv < ay.m) (hiu : iu < ax.m) :
    mftForward E ax.n ay.n ax.m ay.m (fun i => ax.x0 + (i : K) * ax.δ) (fun i => ay.x0 + (i : K) * ay.δ)
        (fun k => ax.u0 + (k : K) * ax.Δ) (fun k => ay.u0 + (k : K) * ay.Δ) w f (iv * ax.m + iu)
      = zoomForwardN E [ay, ax] (flat2 ax.n w.get) (flat2 ax.n f) [iv, iu] := by
  have haxs : ∀ a ∈ [ay, ax], 0 < a.n ∧ a.n + a.m - 1 ≤ a.nfft := by
    intro a ha
    simp only [List.mem_cons, List.not_mem_nil, or_false] at ha
    rcases ha with rfl | rfl
    · exact hy
    · exact hx
  rw [zoomN_eq_sumN hE h2 [ay, ax] haxs _ _ [iv, iu]
      (List.Forall₂.cons hiv (List.Forall₂.cons hiu List.Forall₂.nil)),
    mft_forward_eq_sum_2d_get hE _ _ _ _ _ _ _ _ w f hiu]
  simp only [zoomSumForwardN, List.map_cons, List.map_nil, sumOverN, sumRange_eq, flat2_pair, dotUX]
  apply Finset.sum_congr rfl
  intro iy _
  apply Finset.sum_congr rfl
  intro ix _
  congr 2
  ring

end agree2

/-! ## 5. `n` axes: FastFourierTransform = ZoomFastFourierTransform -/

section agreeN
variable {K C : Type} [Field K] [Field C] {T E : K → C}

/-- the zoom axis that belongs to an FFT axis: same input grid `(z, δ)`, the FFT's own output grid
(zero `τ·a_0 + s`, spacing `τ·dT`, `τ = 2π`), CZT lengths `nf g` (forward and inverse) -/
def Cfg.toZAx (τ : K) (nf : Cfg K C → ℕ) (g : Cfg K C) : ZAx K :=
  ⟨g.N, g.Mo, nf g, nf g, g.z, g.δ, τ * g.a 0 + g.s, τ * g.dT⟩

/-- the `n`-D phase of the FFT theorems (turns part and radians part) is the phase of the zoom
theorems on the corresponding axes -/
theorem phaseN_eq (hE : IsChar E) (τ : K) (hTE : ∀ t, T t = E (τ * t)) (nf : Cfg K C → ℕ)
    (gs : List (Cfg K C)) (ks : List ℕ) (hks : List.Forall₂ (fun k g => k < g.Mo) ks gs)
    (js : List ℕ) :
    T (-(dotA gs ks js)) * E (-(dotS gs js)) = E (-(dotUX (gs.map (Cfg.toZAx τ nf)) ks js)) := by
  rw [hTE, ← hE.add]
  congr 1
  induction gs generalizing ks js with
  | nil => cases ks <;> cases js <;> simp [dotA, dotS, dotUX]
  | cons g gs ih =>
    cases hks with
    | cons hk hks' =>
      rename_i k ks'
      cases js with
      | nil => simp [dotA, dotS, dotUX]
      | cons j js' =>
        have := ih ks' hks' js'
        simp only [dotA, dotS, dotUX, List.map_cons, Cfg.toZAx] at this ⊢
        unfold Cfg.a Cfg.x
        rw [Nat.cast_zero]
        linear_combination this

/-- **FastFourierTransform = ZoomFastFourierTransform on `n` axes** (both iterated over the axes):
on consistent FFT axes the FFT pipeline and the zoom loop on the same grids, fed with
`field * weights` (`weights = Π w_i`), give the same output samples. -/
theorem fftN_eq_zoomN (hT : IsChar T) (hE : IsChar E) (hper : ∀ n : ℤ, T (n : K) = 1) (τ : K)
    (hTE : ∀ t, T t = E (τ * t)) (h2 : (2 : K) ≠ 0) (nf : Cfg K C → ℕ) (gs : List (Cfg K C))
    (hgs : ∀ g ∈ gs, 0 < g.N ∧ g.N ≤ g.M ∧ g.Mo ≤ g.M ∧ g.dT * (g.M : K) * g.δ = 1 ∧
      g.N + g.Mo - 1 ≤ nf g)
    (f : List ℕ → C) (ks : List ℕ) (hks : List.Forall₂ (fun k g => k < g.Mo) ks gs) :
    fastForwardN T E gs f ks
      = zoomForwardN E (gs.map (Cfg.toZAx τ nf)) (fun _ => weightN gs) f ks := by
  rw [fastForwardN_eq_sumForwardN hT hE hper gs
      (fun g hg => ⟨(hgs g hg).2.1, (hgs g hg).2.2.1, (hgs g hg).2.2.2.1⟩) f ks hks,
    zoomN_eq_sumN hE h2 (gs.map (Cfg.toZAx τ nf)) ?_ _ f ks (List.forall₂_map_right_iff.mpr hks)]
  · unfold sumForwardN zoomSumForwardN
    rw [List.map_map]
    congr 1
    funext js
    rw [phaseN_eq hE τ hTE nf gs ks hks js]
  · intro a ha
    obtain ⟨g, hg, rfl⟩ := List.mem_map.mp ha
    exact ⟨(hgs g hg).1, (hgs g hg).2.2.2.2⟩

end agreeN

/-- **The implementations agree on `n` axes** (`Complex.exp`): `FastFourierTransform.forward`
= `ZoomFastFourierTransform.forward` on the same grids = the `n`-D defining sum. -/
theorem implementations_agree_nd (nf : Cfg ℝ ℂ → ℕ) (gs : List (Cfg ℝ ℂ))
    (hgs : ∀ g ∈ gs, 0 < g.N ∧ g.N ≤ g.M ∧ g.Mo ≤ g.M ∧ g.dT * (g.M : ℝ) * g.δ = 1 ∧
      g.N + g.Mo - 1 ≤ nf g)
    (f : List ℕ → ℂ) (ks : List ℕ) (hks : List.Forall₂ (fun k g => k < g.Mo) ks gs) :
    fastForwardN expT expE gs f ks
        = zoomForwardN expE (gs.map (Cfg.toZAx (2 * Real.pi) nf)) (fun _ => weightN gs) f ks
    ∧ fastForwardN expT expE gs f ks = sumForwardN expT expE gs f ks :=
  ⟨fftN_eq_zoomN expT_isChar expE_isChar expT_period _ expT_eq_expE two_ne_zero nf gs hgs f ks hks,
    fastForwardN_eq_sumForwardN expT_isChar expE_isChar expT_period gs
      (fun g hg => ⟨(hgs g hg).2.1, (hgs g hg).2.2.1, (hgs g hg).2.2.2.1⟩) f ks hks⟩

/-- satisfiability of the hypothesis bundle of `fftN_eq_zoomN` / `implementations_agree_nd`:
two copies of the axis `N = 2, M = 4, Mo = 3, δ = dT = 1/2`, `nfft = 4` -/
example : ∃ (nf : Cfg ℝ ℂ → ℕ) (gs : List (Cfg ℝ ℂ)) (ks : List ℕ),
    (∀ g ∈ gs, 0 < g.N ∧ g.N ≤ g.M ∧ g.Mo ≤ g.M ∧ g.dT * (g.M : ℝ) * g.δ = 1 ∧
      g.N + g.Mo - 1 ≤ nf g) ∧ List.Forall₂ (fun k g => k < g.Mo) ks gs :=
  ⟨fun _ => 4,
    [{ N := 2, M := 4, Mo := 3, δ := 1 / 2, z := 0, dT := 1 / 2, s := 0, w := 1, emu := false },
     { N := 2, M := 4, Mo := 3, δ := 1 / 2, z := 0, dT := 1 / 2, s := 0, w := 1, emu := false }],
    [2, 0], by
      intro g hg
      simp only [List.mem_cons, List.not_mem_nil, or_false, or_self] at hg
      subst hg
      norm_num,
    List.Forall₂.cons (by norm_num) (List.Forall₂.cons (by norm_num) List.Forall₂.nil)⟩

end HcipyVerif.Fft
