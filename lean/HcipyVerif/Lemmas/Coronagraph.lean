import HcipyVerif.Model.Coronagraph
import Mathlib.Algebra.BigOperators.Fin
import Mathlib.Algebra.BigOperators.Ring.Finset
import Mathlib.Algebra.Order.BigOperators.Ring.Finset
import Mathlib.Algebra.Module.Pi
import Mathlib.Algebra.Order.Field.Basic
import Mathlib.LinearAlgebra.Span.Basic
import Mathlib.Tactic.Ring
import Mathlib.Tactic.Linarith
import Mathlib.Tactic.FieldSimp
import Mathlib.Tactic.Positivity
import Mathlib.Algebra.Order.Field.Rat
import Mathlib.Algebra.Order.Floor.Ring
import Mathlib.Data.Rat.Floor
import Mathlib.Analysis.InnerProductSpace.Orthonormal

/-!
# Helper lemmas for C09

The theory is developed for functions `Fin n → K` with Mathlib's pointwise module structure
(`stepF`, `residualF`, `gsAuxF`: the mathematical Gram–Schmidt), and the executable model on
`Vector K n` is shown to refine it through `toFn`.
-/
set_option linter.unusedSimpArgs false
set_option linter.unusedVariables false
set_option linter.unusedSectionVars false

namespace HcipyVerif.Coronagraph

open Finset

/-! ## the bilinear form -/
section Ring
variable {K : Type} [CommRing K] {n : ℕ}

/-- `Σ_i u_i v_i`. -/
def ip (u v : Fin n → K) : K := ∑ i, u i * v i

theorem ip_comm (u v : Fin n → K) : ip u v = ip v u := by
  unfold ip; exact Finset.sum_congr rfl fun i _ => mul_comm _ _

theorem ip_add_right (u v w : Fin n → K) : ip u (v + w) = ip u v + ip u w := by
  unfold ip; rw [← Finset.sum_add_distrib]; exact Finset.sum_congr rfl fun i _ => by simp [mul_add]

theorem ip_sub_right (u v w : Fin n → K) : ip u (v - w) = ip u v - ip u w := by
  unfold ip; rw [← Finset.sum_sub_distrib]; exact Finset.sum_congr rfl fun i _ => by simp [mul_sub]

theorem ip_smul_right (u v : Fin n → K) (c : K) : ip u (c • v) = c * ip u v := by
  unfold ip; rw [Finset.mul_sum]; exact Finset.sum_congr rfl fun i _ => by simp; ring

theorem ip_zero_right (u : Fin n → K) : ip u 0 = 0 := by
  unfold ip; simp

theorem ip_add_left (u v w : Fin n → K) : ip (u + v) w = ip u w + ip v w := by
  rw [ip_comm, ip_add_right, ip_comm w u, ip_comm w v]

theorem ip_sub_left (u v w : Fin n → K) : ip (u - v) w = ip u w - ip v w := by
  rw [ip_comm, ip_sub_right, ip_comm w u, ip_comm w v]

theorem ip_smul_left (u v : Fin n → K) (c : K) : ip (c • u) v = c * ip u v := by
  rw [ip_comm, ip_smul_right, ip_comm]

/-- Components of a `Vector` as a function. -/
def toFn (v : Vector K n) : Fin n → K := fun i => v[i]

theorem toFn_injective : Function.Injective (toFn (K := K) (n := n)) := by
  intro u v h
  apply Vector.ext
  intro i hi
  have := congrFun h ⟨i, hi⟩
  simpa [toFn] using this

@[simp] theorem toFn_ofFn (f : Fin n → K) : toFn (Vector.ofFn f) = f := by
  funext i; simp [toFn]

theorem foldl_eq_sum (n : ℕ) (g : Fin n → K) :
    Fin.foldl n (fun acc i => acc + g i) 0 = ∑ i, g i := by
  induction n with
  | zero => simp [Fin.foldl_zero]
  | succ m ih =>
    rw [Fin.foldl_succ_last, Fin.sum_univ_castSucc, ← ih]

theorem dot_eq_ip (u v : Vector K n) : dot u v = ip (toFn u) (toFn v) := by
  unfold dot ip
  exact foldl_eq_sum n fun i => u[i] * v[i]

theorem toFn_zeroVec : toFn (zeroVec K n) = 0 := by
  unfold zeroVec; rw [toFn_ofFn]; rfl

theorem dot_zeroVec (r : Vector K n) : dot r (zeroVec K n) = 0 := by
  rw [dot_eq_ip, toFn_zeroVec]
  exact ip_zero_right _

theorem matVec_zeroVec {m : ℕ} (B : Vector (Vector K m) n) : matVec B (zeroVec K m) = zeroVec K n := by
  unfold matVec
  simp only [dot_zeroVec]
  rfl

end Ring

/-! ## Gram–Schmidt on functions -/
section Field
variable {K : Type} [Field K] {n : ℕ}

/-- Remove the component along `u`. -/
def stepF (u x : Fin n → K) : Fin n → K := x - (ip u x / ip u u) • u

def residualF : List (Fin n → K) → (Fin n → K) → (Fin n → K)
  | [], x => x
  | u :: us, x => residualF us (stepF u x)

def gsAuxF : List (Fin n → K) → List (Fin n → K) → List (Fin n → K)
  | acc, [] => acc
  | acc, f :: fs => gsAuxF (acc ++ [residualF acc f]) fs

def perfectF (ms : List (Fin n → K)) (x : Fin n → K) : Fin n → K := residualF (gsAuxF [] ms) x

theorem stepF_add (u x y : Fin n → K) : stepF u (x + y) = stepF u x + stepF u y := by
  unfold stepF; rw [ip_add_right, add_div, add_smul, add_sub_add_comm]

theorem stepF_smul (u x : Fin n → K) (c : K) : stepF u (c • x) = c • stepF u x := by
  unfold stepF; rw [ip_smul_right, smul_sub, smul_smul, mul_div_assoc]

theorem stepF_zero (u : Fin n → K) : stepF u 0 = 0 := by
  unfold stepF; rw [ip_zero_right]; simp

theorem residualF_add (us : List (Fin n → K)) (x y : Fin n → K) :
    residualF us (x + y) = residualF us x + residualF us y := by
  induction us generalizing x y with
  | nil => rfl
  | cons u t ih => simp only [residualF]; rw [stepF_add, ih]

theorem residualF_smul (us : List (Fin n → K)) (x : Fin n → K) (c : K) :
    residualF us (c • x) = c • residualF us x := by
  induction us generalizing x with
  | nil => rfl
  | cons u t ih => simp only [residualF]; rw [stepF_smul, ih]

theorem residualF_zero (us : List (Fin n → K)) : residualF us (0 : Fin n → K) = 0 := by
  induction us with
  | nil => rfl
  | cons u t ih => simp only [residualF]; rw [stepF_zero, ih]

theorem residualF_append (a b : List (Fin n → K)) (x : Fin n → K) :
    residualF (a ++ b) x = residualF b (residualF a x) := by
  induction a generalizing x with
  | nil => rfl
  | cons u t ih => simp only [List.cons_append, residualF]; rw [ih]

theorem gsAuxF_prefix (acc fs : List (Fin n → K)) : ∃ t, gsAuxF acc fs = acc ++ t := by
  induction fs generalizing acc with
  | nil => exact ⟨[], by simp [gsAuxF]⟩
  | cons f t ih =>
    obtain ⟨t', ht'⟩ := ih (acc ++ [residualF acc f])
    exact ⟨residualF acc f :: t', by simp only [gsAuxF]; rw [ht']; simp⟩

theorem stepF_of_orth (u x : Fin n → K) (h : ip u x = 0) : stepF u x = x := by
  unfold stepF; rw [h]; simp

theorem ip_stepF_of_orth (v u x : Fin n → K) (hx : ip v x = 0) (hu : ip v u = 0) :
    ip v (stepF u x) = 0 := by
  unfold stepF; rw [ip_sub_right, ip_smul_right, hx, hu]; simp

theorem residualF_orth_keep (us : List (Fin n → K)) (v x : Fin n → K)
    (hus : ∀ u ∈ us, ip v u = 0) (hx : ip v x = 0) : ip v (residualF us x) = 0 := by
  induction us generalizing x with
  | nil => exact hx
  | cons u t ih =>
    simp only [residualF]
    exact ih _ (fun w hw => hus w (List.mem_cons_of_mem _ hw))
      (ip_stepF_of_orth v u x hx (hus u List.mem_cons_self))

theorem residualF_fixed (us : List (Fin n → K)) (x : Fin n → K) (h : ∀ u ∈ us, ip u x = 0) :
    residualF us x = x := by
  induction us with
  | nil => rfl
  | cons u t ih =>
    simp only [residualF]
    rw [stepF_of_orth u x (h u List.mem_cons_self)]
    exact ih fun w hw => h w (List.mem_cons_of_mem _ hw)

end Field

/-! ## ordered fields: the form is positive definite -/
section Ordered
variable {K : Type} [Field K] [LinearOrder K] [IsStrictOrderedRing K] {n : ℕ}

theorem ip_self_nonneg (u : Fin n → K) : 0 ≤ ip u u :=
  Finset.sum_nonneg fun i _ => mul_self_nonneg (u i)

theorem ip_self_eq_zero {u : Fin n → K} (h : ip u u = 0) : u = 0 := by
  funext i
  have := (Finset.sum_eq_zero_iff_of_nonneg (fun i _ => mul_self_nonneg (u i))).1 h i (Finset.mem_univ i)
  exact mul_self_eq_zero.1 this

theorem stepF_self (u : Fin n → K) : stepF u u = 0 := by
  by_cases h : ip u u = 0
  · rw [ip_self_eq_zero h]; exact stepF_zero 0
  · unfold stepF; rw [div_self h, one_smul, sub_self]

theorem ip_stepF_self (u x : Fin n → K) : ip u (stepF u x) = 0 := by
  by_cases h : ip u u = 0
  · rw [ip_self_eq_zero h]; unfold ip; simp
  · unfold stepF; rw [ip_sub_right, ip_smul_right, div_mul_cancel₀ _ h, sub_self]

theorem ip_stepF_le (u x : Fin n → K) : ip (stepF u x) (stepF u x) ≤ ip x x := by
  by_cases h : ip u u = 0
  · have : stepF u x = x := by unfold stepF; rw [h]; simp
    rw [this]
  · have hpos : 0 < ip u u := lt_of_le_of_ne (ip_self_nonneg u) (Ne.symm h)
    have key : ip (stepF u x) (stepF u x) = ip x x - ip u x ^ 2 / ip u u := by
      unfold stepF
      rw [ip_sub_left, ip_sub_right, ip_sub_right, ip_smul_left, ip_smul_left, ip_smul_right,
        ip_smul_right, ip_comm x u]
      field_simp
      ring
    rw [key]
    have : 0 ≤ ip u x ^ 2 / ip u u := div_nonneg (sq_nonneg _) hpos.le
    linarith

theorem residualF_power_le (us : List (Fin n → K)) (x : Fin n → K) :
    ip (residualF us x) (residualF us x) ≤ ip x x := by
  induction us generalizing x with
  | nil => exact le_refl _
  | cons u t ih => simp only [residualF]; exact le_trans (ih _) (ip_stepF_le u x)

/-- Every mode is annihilated: after the vectors found before it the residual `r` is left, `r`
itself is the next vector, and `stepF r r = 0`. -/
theorem residualF_gsAuxF_mem (acc fs : List (Fin n → K)) (f : Fin n → K) (hf : f ∈ fs) :
    residualF (gsAuxF acc fs) f = 0 := by
  induction fs generalizing acc with
  | nil => cases hf
  | cons g t ih =>
    simp only [gsAuxF]
    rcases List.mem_cons.1 hf with rfl | hmem
    · obtain ⟨t', ht'⟩ := gsAuxF_prefix (acc ++ [residualF acc f]) t
      rw [ht', residualF_append, residualF_append]
      simp only [residualF]
      rw [stepF_self, residualF_zero]
    · exact ih _ hmem

/-- Orthogonality relation used for the Gram–Schmidt output. -/
def Orth (u v : Fin n → K) : Prop := ip u v = 0

theorem residualF_orth (us : List (Fin n → K)) (x : Fin n → K) (hp : us.Pairwise Orth) :
    ∀ u ∈ us, ip u (residualF us x) = 0 := by
  induction us generalizing x with
  | nil => intro u hu; cases hu
  | cons w t ih =>
    intro u hu
    simp only [residualF]
    rw [List.pairwise_cons] at hp
    rcases List.mem_cons.1 hu with rfl | hmem
    · exact residualF_orth_keep t u _ (fun v hv => hp.1 v hv) (ip_stepF_self u x)
    · exact ih _ hp.2 u hmem

theorem gsAuxF_pairwise (acc fs : List (Fin n → K)) (hp : acc.Pairwise Orth) :
    (gsAuxF acc fs).Pairwise Orth := by
  induction fs generalizing acc with
  | nil => exact hp
  | cons f t ih =>
    simp only [gsAuxF]
    apply ih
    rw [List.pairwise_append]
    refine ⟨hp, List.pairwise_singleton _ _, ?_⟩
    intro a ha b hb
    rw [List.mem_singleton] at hb
    subst hb
    exact residualF_orth acc f hp a ha

theorem perfectF_mem (ms : List (Fin n → K)) (f : Fin n → K) (hf : f ∈ ms) : perfectF ms f = 0 :=
  residualF_gsAuxF_mem [] ms f hf

theorem perfectF_span (ms : List (Fin n → K)) (x : Fin n → K)
    (hx : x ∈ Submodule.span K {f | f ∈ ms}) : perfectF ms x = 0 := by
  induction hx using Submodule.span_induction with
  | mem f hf => exact perfectF_mem ms f hf
  | zero => exact residualF_zero _
  | add a b _ _ ha hb => unfold perfectF at *; rw [residualF_add, ha, hb, add_zero]
  | smul c a _ ha => unfold perfectF at *; rw [residualF_smul, ha, smul_zero]

theorem perfectF_idem (ms : List (Fin n → K)) (x : Fin n → K) :
    perfectF ms (perfectF ms x) = perfectF ms x := by
  unfold perfectF
  exact residualF_fixed _ _ (residualF_orth _ x (gsAuxF_pairwise [] ms List.Pairwise.nil))

theorem perfectF_power_le (ms : List (Fin n → K)) (x : Fin n → K) :
    ip (perfectF ms x) (perfectF ms x) ≤ ip x x := residualF_power_le _ x

/-! ## the executable model refines the function-level definitions -/

theorem toFn_step (u x : Vector K n) : toFn (step u x) = stepF (toFn u) (toFn x) := by
  unfold step stepF
  simp only [toFn_ofFn, dot_eq_ip]
  funext i
  simp [toFn]

theorem toFn_residual (us : List (Vector K n)) (x : Vector K n) :
    toFn (residual us x) = residualF (us.map toFn) (toFn x) := by
  induction us generalizing x with
  | nil => rfl
  | cons u t ih => simp only [residual, List.map_cons, residualF]; rw [ih, toFn_step]

theorem map_gsAux (acc fs : List (Vector K n)) :
    (gsAux acc fs).map toFn = gsAuxF (acc.map toFn) (fs.map toFn) := by
  induction fs generalizing acc with
  | nil => rfl
  | cons f t ih =>
    simp only [gsAux, List.map_cons, gsAuxF]
    rw [ih, List.map_append, List.map_cons, List.map_nil, toFn_residual]

theorem toFn_perfect (ms : List (Vector K n)) (x : Vector K n) :
    toFn (perfect ms x) = perfectF (ms.map toFn) (toFn x) := by
  unfold perfect gs perfectF
  rw [toFn_residual, map_gsAux]; rfl

theorem toFn_mode (a x y : Vector K n) (e : ℕ × ℕ) :
    toFn (mode a x y e) = fun i => toFn a i * toFn x i ^ e.1 * toFn y i ^ e.2 := by
  unfold mode; rw [toFn_ofFn]; rfl

end Ordered

/-! ## mode bookkeeping -/

theorem list_sum_map_range (f : ℕ → ℕ) (h : ℕ) :
    ((List.range h).map f).sum = ∑ i ∈ Finset.range h, f i := by
  induction h with
  | zero => simp
  | succ k ih => rw [List.range_succ, List.map_append, List.sum_append, ih, Finset.sum_range_succ]; simp

theorem modeCount_eq_sum (order : ℕ) : modeCount order = ∑ i ∈ Finset.range (order / 2), (i + 1) := by
  unfold modeCount modeExps
  rw [List.length_flatMap]
  simp only [List.length_map, List.length_range]
  exact list_sum_map_range (fun i => i + 1) _

theorem two_mul_sum_succ (h : ℕ) : 2 * ∑ i ∈ Finset.range h, (i + 1) = h * (h + 1) := by
  induction h with
  | zero => simp
  | succ k ih => rw [Finset.sum_range_succ, mul_add, ih]; ring

theorem mem_modeExps {order j k : ℕ} (h : j + k < order / 2) : (j, k) ∈ modeExps order := by
  unfold modeExps
  rw [List.mem_flatMap]
  refine ⟨j + k, List.mem_range.2 h, ?_⟩
  rw [List.mem_map]
  exact ⟨j, List.mem_range.2 (by omega), by simp⟩

/-! ## the same operator for an arbitrary orthonormal family in an inner-product space -/
section Abstract
variable {𝕜 E ι : Type*} [RCLike 𝕜] [NormedAddCommGroup E] [InnerProductSpace 𝕜 E] [Fintype ι]

/-- `E ↦ E − T T⁺ E` when the columns `v i` of `T` are orthonormal (`T⁺ = Tᴴ`). -/
noncomputable def projectOut (v : ι → E) (x : E) : E := x - ∑ i, inner 𝕜 (v i) x • v i

theorem inner_projectOut {v : ι → E} (hv : Orthonormal 𝕜 v) (x : E) (j : ι) :
    inner 𝕜 (v j) (projectOut (𝕜 := 𝕜) v x) = 0 := by
  unfold projectOut
  rw [inner_sub_right, hv.inner_right_fintype, sub_self]

/-! Free-standing background (moved here from `Properties/C09.lean` in round 5: pure mathematics about
`projectOut`, a specification no driver runs; the executed counterparts are `perfect_*`, `gs_orthogonal`,
`perfect_eq_orthogonal_projector` and `perfectMat_*`). -/

theorem orthonormal_nulls_span {v : ι → E} (hv : Orthonormal 𝕜 v) (x : E)
    (hx : x ∈ Submodule.span 𝕜 (Set.range v)) : projectOut (𝕜 := 𝕜) v x = 0 := by
  obtain ⟨c, rfl⟩ := (Submodule.mem_span_range_iff_exists_fun 𝕜).1 hx
  unfold projectOut
  simp only [hv.inner_right_fintype, sub_self]

theorem orthonormal_idempotent {v : ι → E} (hv : Orthonormal 𝕜 v) (x : E) :
    projectOut (𝕜 := 𝕜) v (projectOut (𝕜 := 𝕜) v x) = projectOut (𝕜 := 𝕜) v x := by
  have h : ∀ i, inner 𝕜 (v i) (projectOut (𝕜 := 𝕜) v x) = 0 := inner_projectOut hv x
  generalize projectOut (𝕜 := 𝕜) v x = r at h ⊢
  unfold projectOut
  simp only [h, zero_smul, Finset.sum_const_zero, sub_zero]

theorem orthonormal_power_le {v : ι → E} (hv : Orthonormal 𝕜 v) (x : E) :
    ‖projectOut (𝕜 := 𝕜) v x‖ ≤ ‖x‖ := by
  set r := projectOut (𝕜 := 𝕜) v x with hr
  set y := ∑ i, inner 𝕜 (v i) x • v i with hy
  have hxy : x = y + r := by rw [hr]; unfold projectOut; rw [← hy]; abel
  have horth : inner 𝕜 y r = 0 := by
    rw [hy, sum_inner]
    apply Finset.sum_eq_zero
    intro i _
    rw [inner_smul_left, hr, inner_projectOut hv, mul_zero]
  have hp := norm_add_sq_eq_norm_sq_add_norm_sq_of_inner_eq_zero y r horth
  rw [← hxy] at hp
  have h1 : ‖r‖ * ‖r‖ ≤ ‖x‖ * ‖x‖ := by nlinarith [mul_self_nonneg ‖y‖]
  by_contra hlt
  push Not at hlt
  nlinarith [norm_nonneg r, norm_nonneg x]

end Abstract

/-! ## multi-scale bookkeeping -/

theorem rat_floor_eq (a : ℚ) : a.floor = ⌊a⌋ := rfl

theorem levelSearch_spec (half s : ℚ) : ∀ (fuel k0 : ℕ),
    levelSearch half s fuel k0 (s ^ k0) < k0 + fuel →
    half ≤ s ^ (levelSearch half s fuel k0 (s ^ k0)) ∧
    ∀ j, k0 ≤ j → j < levelSearch half s fuel k0 (s ^ k0) → s ^ j < half := by
  intro fuel
  induction fuel with
  | zero => intro k0 h; simp [levelSearch] at h
  | succ f ih =>
    intro k0 h
    unfold levelSearch at h ⊢
    by_cases hc : half ≤ s ^ k0
    · rw [if_pos hc] at h ⊢
      exact ⟨hc, fun j h1 h2 => absurd h2 (by omega)⟩
    · rw [if_neg hc] at h ⊢
      rw [← pow_succ] at h ⊢
      obtain ⟨h1, h2⟩ := ih (k0 + 1) (by omega)
      refine ⟨h1, fun j hj1 hj2 => ?_⟩
      rcases Nat.eq_or_lt_of_le hj1 with rfl | hlt
      · exact lt_of_not_ge hc
      · exact h2 j hlt hj2

/-- floor of a natural plus one half -/
theorem floor_nat_add_half (L : ℕ) : ((L : ℚ) + 1 / 2).floor.toNat = L := by
  rw [rat_floor_eq]
  have : ⌊(L : ℚ) + 1 / 2⌋ = (L : ℤ) := by
    rw [Int.floor_eq_iff]; constructor <;> push_cast <;> linarith
  rw [this]; simp

theorem floor_natCast' (L : ℕ) : ((L : ℚ)).floor.toNat = L := by
  rw [rat_floor_eq]; simp

theorem qLevel_pos (s : ℚ) (hs : 0 < s) (i : ℕ) : 0 < qLevel s i := by
  unfold qLevel; positivity

theorem dimsLevel_succ (p : MSParams) (i : ℕ) (hs : 0 < p.s) :
    dimsLevel p (i + 1) = (levelPix p, levelPix p) := by
  have hq := (qLevel_pos p.s hs (i + 1)).ne'
  have key : 2 * (((levelPix p : ℚ) + 1 / 2) / (2 * qLevel p.s (i + 1))) * qLevel p.s (i + 1)
      = (levelPix p : ℚ) + 1 / 2 := by field_simp
  unfold dimsLevel numAiry
  simp only [key, floor_nat_add_half]

theorem dimsLevel_zero (p : MSParams) : dimsLevel p 0 = (2 * p.ny, 2 * p.nx) := by
  unfold dimsLevel numAiry qLevel
  have h1 : 2 * ((p.ny : ℚ) / 2) * (2 * p.s ^ 0) = ((2 * p.ny : ℕ) : ℚ) := by push_cast; ring
  have h2 : 2 * ((p.nx : ℚ) / 2) * (2 * p.s ^ 0) = ((2 * p.nx : ℕ) : ℚ) := by push_cast; ring
  simp only [h1, h2, floor_natCast']

theorem padWindow_square (d w : ℕ) (hw : 2 ≤ w) :
    padWindow (d, d) w =
      if w ≤ d ∧ (d - w) % 2 = 0 then .ok ((d - w) / 2) ((d - w) / 2) else .raises := by
  unfold padWindow
  by_cases hwd : w ≤ d
  · have hb : ((d : ℤ) - w) / 2 = (((d - w) / 2 : ℕ) : ℤ) := by omega
    simp only [hb]
    have hnn : ¬ ((((d - w) / 2 : ℕ) : ℤ) < 0 ∨ (((d - w) / 2 : ℕ) : ℤ) < 0) := by omega
    simp only [hnn, if_false, Int.toNat_natCast]
    by_cases hev : (d - w) % 2 = 0
    · have htot : w + (d - w) / 2 + (d - w) / 2 = d := by omega
      simp [htot, hwd, hev]
    · have htot : w + (d - w) / 2 + (d - w) / 2 = d - 1 := by omega
      have hd : 0 < d := by omega
      have h1 : ¬ ((d - 1) * (d - 1) = d * d) := by
        intro h
        have := Nat.mul_self_inj.1 h
        omega
      have h2 : ¬ ((d - 1) * (d - 1) = 1) := by
        intro h
        have : (d - 1) * (d - 1) = 1 * 1 := by simpa using h
        have := Nat.mul_self_inj.1 this
        omega
      simp [htot, hwd, hev, h1, h2]
  · have hb : ((d : ℤ) - w) / 2 < 0 := by omega
    simp [hb, hwd]

end HcipyVerif.Coronagraph
