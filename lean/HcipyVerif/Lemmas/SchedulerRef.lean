import HcipyVerif.Model.SchedulerRef
import HcipyVerif.Lemmas.Scheduler
import HcipyVerif.Lemmas.SchedulerStrong

/-! Helper lemmas for the round-5 theorems of C20: the reference machine, splitting a run at the
point where the fuel ran out, counting executed callbacks against the fuel. -/
set_option linter.unusedSimpArgs false
set_option linter.unusedVariables false

namespace HcipyVerif.Scheduler

/-- does the op read cell `c`? -/
def ROp.reads (c : Nat) : ROp → Bool
  | .add (.ref c') _ => c' = c
  | .evolve (.ref c') => c' = c
  | _ => false

theorem refresh_nil (cells : Nat → Rat) (q : List Entry) : refresh [] cells q = q := by
  unfold refresh
  induction q with
  | nil => rfl
  | cons x xs ih => simp [List.find?] at ih ⊢

theorem refreshH_nil (w : World) (h : w.refs = []) : refreshH w = w.h := by
  unfold refreshH
  rw [h, refresh_nil]

theorem stepG_copy_refs (kids : Entry → List (Rat × Nat)) (fuel : Nat) (w : World) (op : ROp) :
    (stepG .copy kids fuel w op).refs = w.refs := by
  cases op with
  | add a id => cases a <;> rfl
  | evolve a => rfl
  | mutate c x => rfl

theorem stepG_copy_h (kids : Entry → List (Rat × Nat)) (fuel : Nat) (w : World) (hw : w.refs = []) :
    ∀ op, (stepG .copy kids fuel w op).h =
      match op with
      | .add a id => stepOp kids fuel w.h (.add (deref w.cells a) id)
      | .evolve a => stepOp kids fuel w.h (.evolve (deref w.cells a))
      | .mutate _ _ => w.h := by
  intro op
  cases op with
  | add a id => simp only [stepG, refreshH_nil w hw]
  | evolve a => simp only [stepG, refreshH_nil w hw]
  | mutate c x => rfl

theorem resolve_congr (c : Nat) (ops : List ROp) :
    ∀ (c₁ c₂ : Nat → Rat), (∀ j, j ≠ c → c₁ j = c₂ j) → (∀ op ∈ ops, op.reads c = false) →
      resolve c₁ ops = resolve c₂ ops := by
  induction ops with
  | nil => intros; rfl
  | cons op ops ih =>
    intro c₁ c₂ hc hr
    have hr' : ∀ op ∈ ops, op.reads c = false := fun o ho => hr o (List.mem_cons_of_mem _ ho)
    have h0 := hr op (List.mem_cons_self ..)
    cases op with
    | add a id =>
      cases a with
      | val x => simp only [resolve, deref]; rw [ih c₁ c₂ hc hr']
      | ref c' =>
        have : c' ≠ c := by simpa [ROp.reads] using h0
        simp only [resolve, deref]; rw [ih c₁ c₂ hc hr', hc c' this]
    | evolve a =>
      cases a with
      | val x => simp only [resolve, deref]; rw [ih c₁ c₂ hc hr']
      | ref c' =>
        have : c' ≠ c := by simpa [ROp.reads] using h0
        simp only [resolve, deref]; rw [ih c₁ c₂ hc hr', hc c' this]
    | mutate d y =>
      simp only [resolve]
      apply ih _ _ _ hr'
      intro j hj
      unfold setCell
      split
      · rfl
      · exact hc j hj

theorem Run.ext' {a b : Run} (h1 : a.status = b.status) (h2 : a.s = b.s) (h3 : a.trace = b.trace) :
    a = b := by
  cases a; cases b; simp_all

/-- A run that ran out of fuel after `n` iterations, continued with `m` more, is the run on `n + m`. -/
theorem loop_split' (kids : Entry → List (Rat × Nat)) (T : Rat) (n m : Nat) (s : Sys)
    (h : (loop kids T n s).status = .outOfFuel) :
    loop kids T (n + m) s =
      { loop kids T m (loop kids T n s).s with
        trace := (loop kids T n s).trace ++ (loop kids T m (loop kids T n s).s).trace } := by
  induction n generalizing s with
  | zero => simp [loop]
  | succ n ih =>
    match hq : s.queue with
    | [] => rw [loop_stop (Or.inl hq)] at h; simp at h
    | e :: rest =>
      by_cases ht : e.time < T
      · have e1 : n + 1 + m = (n + m) + 1 := by omega
        rw [loop_cons_status hq ht] at h
        have := ih (next kids s e rest) h
        rw [e1]
        apply Run.ext'
        · simp only [loop_cons_status hq ht, loop_cons_s hq ht, this]
        · simp only [loop_cons_s hq ht, this]
        · simp only [loop_cons_trace hq ht, loop_cons_s hq ht, this, List.append_assoc,
            List.cons_append]
      · rw [loop_stop (Or.inr ⟨e, rest, hq, ht⟩)] at h; simp at h

/-- a run that returns executed fewer callbacks than it had fuel -/
theorem fired_length_lt_fuel (kids : Entry → List (Rat × Nat)) (T : Rat) (fuel : Nat) (s : Sys)
    (hok : (loop kids T fuel s).status = .ok) : (fired (loop kids T fuel s).trace).length < fuel := by
  induction fuel generalizing s with
  | zero => simp [loop] at hok
  | succ fuel ih =>
    match hq : s.queue with
    | [] =>
      rw [loop_stop (Or.inl hq)]
      unfold advance; split <;> simp [fired]
    | e :: rest =>
      by_cases ht : e.time < T
      · rw [loop_cons_status hq ht] at hok
        have := ih (next kids s e rest) hok
        rw [loop_cons_trace hq ht, fired_append]
        have ha : fired (advance { s with queue := rest } (e.time - s.t)).2 = [] := by
          unfold advance; split <;> simp [fired]
        simp only [ha, fired, List.nil_append, List.length_cons]
        omega
      · rw [loop_stop (Or.inr ⟨e, rest, hq, ht⟩)]
        unfold advance; split <;> simp [fired]

/-- a run that ran out of fuel executed exactly as many callbacks as it had fuel -/
theorem fired_length_eq_fuel (kids : Entry → List (Rat × Nat)) (T : Rat) (fuel : Nat) (s : Sys)
    (h : (loop kids T fuel s).status = .outOfFuel) : (fired (loop kids T fuel s).trace).length = fuel := by
  induction fuel generalizing s with
  | zero => simp [loop, fired]
  | succ fuel ih =>
    match hq : s.queue with
    | [] => rw [loop_stop (Or.inl hq)] at h; simp at h
    | e :: rest =>
      by_cases ht : e.time < T
      · rw [loop_cons_status hq ht] at h
        have := ih (next kids s e rest) h
        rw [loop_cons_trace hq ht, fired_append]
        have ha : fired (advance { s with queue := rest } (e.time - s.t)).2 = [] := by
          unfold advance; split <;> simp [fired]
        simp only [ha, fired, List.nil_append, List.length_cons]
        omega
      · rw [loop_stop (Or.inr ⟨e, rest, hq, ht⟩)] at h; simp at h

theorem fired_advance (s : Sys) (dt : Rat) : fired (advance s dt).2 = [] := by
  unfold advance; split <;> simp [fired]

/-- without raising callbacks `loopX` is `loop` -/
theorem loopX_no_raise' (kids : Entry → List (Rat × Nat)) (T : Rat) (fuel : Nat) (s : Sys) :
    loopX kids (fun _ => false) T fuel s = ⟨loop kids T fuel s, none⟩ := by
  induction fuel generalizing s with
  | zero => simp [loopX, loop]
  | succ fuel ih =>
    match hq : s.queue with
    | [] => simp only [loopX, loop, hq]
    | e :: rest =>
      by_cases ht : e.time < T
      · simp only [loopX, loop, hq, ht, if_true, ih, Bool.false_eq_true, if_false]
      · simp only [loopX, loop, hq, ht, if_false]

/-- the entry reported as raising does raise -/
theorem loopX_raisedAt_raises (kids : Entry → List (Rat × Nat)) (raises : Entry → Bool) (T : Rat)
    (fuel : Nat) (s : Sys) (e : Entry) (h : (loopX kids raises T fuel s).raisedAt = some e) :
    raises e = true := by
  induction fuel generalizing s with
  | zero => simp [loopX] at h
  | succ fuel ih =>
    match hq : s.queue with
    | [] => simp [loopX, hq] at h
    | x :: rest =>
      by_cases ht : x.time < T
      · by_cases hr : raises x = true
        · simp only [loopX, hq, ht, if_true, hr] at h
          cases h; exact hr
        · simp only [loopX, hq, ht, if_true, hr, Bool.false_eq_true, if_false] at h
          exact ih _ h
      · simp [loopX, hq, ht] at h

/-- **The run up to a raising callback is the run of `loop` out of fuel at that callback**, with the
raising callback doing nothing: fuel = number of callbacks called. -/
theorem loopX_raise_eq_loop' (kids : Entry → List (Rat × Nat)) (raises : Entry → Bool) (T : Rat)
    (fuel : Nat) (s : Sys) (e : Entry) (h : (loopX kids raises T fuel s).raisedAt = some e) :
    (loopX kids raises T fuel s).run =
      loop (kidsExcept kids e) T (fired (loopX kids raises T fuel s).run.trace).length s := by
  have hre := loopX_raisedAt_raises kids raises T fuel s e h
  induction fuel generalizing s with
  | zero => simp [loopX] at h
  | succ fuel ih =>
    match hq : s.queue with
    | [] => simp [loopX, hq] at h
    | x :: rest =>
      by_cases ht : x.time < T
      · by_cases hr : raises x = true
        · simp only [loopX, hq, ht, if_true, hr] at h ⊢
          cases h
          have hl : (fired ((advance { s with queue := rest } (e.time - s.t)).2 ++
              [Event.fire e (advance { s with queue := rest } (e.time - s.t)).1.t])).length = 1 := by
            rw [fired_append, fired_advance]; simp [fired]
          rw [hl]
          apply Run.ext'
          · rw [loop_cons_status hq ht]; simp [loop]
          · rw [loop_cons_s hq ht]; simp [loop, next, kidsExcept, addAll]
          · rw [loop_cons_trace hq ht]; simp [loop]
        · have hx : x ≠ e := by rintro rfl; exact hr hre
          simp only [loopX, hq, ht, if_true, hr, Bool.false_eq_true, if_false] at h ⊢
          have := ih _ h
          have hl : (fired ((advance { s with queue := rest } (x.time - s.t)).2 ++
              Event.fire x (advance { s with queue := rest } (x.time - s.t)).1.t ::
                (loopX kids raises T fuel (addAll (advance { s with queue := rest } (x.time - s.t)).1 (kids x))).run.trace)).length =
              (fired (loopX kids raises T fuel (addAll (advance { s with queue := rest } (x.time - s.t)).1 (kids x))).run.trace).length + 1 := by
            rw [fired_append, fired_advance]; simp [fired]
          rw [hl]
          have hk : kidsExcept kids e x = kids x := by simp [kidsExcept, hx]
          apply Run.ext'
          · rw [loop_cons_status hq ht]; simp only [next, hk]; rw [← this]
          · rw [loop_cons_s hq ht]; simp only [next, hk]; rw [← this]
          · rw [loop_cons_trace hq ht]; simp only [next, hk]; rw [← this]
      · simp [loopX, hq, ht] at h

/-! ### Re-entrant `evolve_until` (`loopR`, round 6) -/

theorem eps_nonneg' : (0 : Rat) ≤ eps := by unfold eps; norm_num

theorem loopR_plain' (kids : Entry → List (Rat × Nat)) (T : Rat) (fuel : Nat) (s : Sys) :
    loopR (plainBody kids) T fuel s = loop kids T fuel s := by
  induction fuel generalizing s with
  | zero => simp [loopR, loop]
  | succ fuel ih =>
    match hq : s.queue with
    | [] => simp only [loopR, loop, hq]
    | e :: rest =>
      by_cases ht : e.time < T
      · simp only [loopR, loop, hq, ht, if_true, plainBody, addAll, ih]
      · simp only [loopR, loop, hq, ht, if_false]

theorem advance_le_of_le (s : Sys) (τ B : Rat) (h1 : s.t ≤ B) (h2 : τ ≤ B) :
    (advance s (τ - s.t)).1.t ≤ B := by
  unfold advance; split
  · simp; exact h2
  · exact h1

theorem advance_ge_sub_eps (s : Sys) (τ : Rat) : τ - eps ≤ (advance s (τ - s.t)).1.t := by
  unfold advance; split
  · have := eps_nonneg'; simp; linarith
  · rename_i h; simp at h ⊢; linarith

theorem loopR_tiles' (acts : Entry → Body) (T : Rat) (fuel : Nat) (s : Sys) :
    sumDt (loopR acts T fuel s).trace = (loopR acts T fuel s).s.t - s.t := by
  induction fuel generalizing s T with
  | zero => simp [loopR, sumDt]
  | succ fuel ih =>
    match hq : s.queue with
    | [] => simp only [loopR, hq]; exact advance_sumDt s _
    | e :: rest =>
      by_cases ht : e.time < T
      · have ha := advance_sumDt { s with queue := rest } (e.time - s.t)
        simp only at ha
        cases hn : (acts e).nested with
        | none =>
          simp only [loopR, hq, ht, if_true, hn, sumDt_append, sumDt, ih, addAll_t]
          linarith
        | some T2 =>
          by_cases hb : T2 < (advance { s with queue := rest } (e.time - s.t)).1.t
          · simp only [loopR, hq, ht, if_true, hn, hb, sumDt_append, sumDt, addAll_t]
            linarith
          · by_cases hok : (loopR acts T2 fuel (addAll (advance { s with queue := rest } (e.time - s.t)).1 (acts e).pre)).status = .ok
            · simp only [loopR, hq, ht, if_true, hn, hb, if_false, hok, sumDt_append, sumDt, ih, addAll_t]
              linarith
            · simp only [loopR, hq, ht, if_true, hn, hb, if_false, hok, sumDt_append, sumDt, ih, addAll_t]
              linarith
      · simp only [loopR, hq, ht, if_false]; exact advance_sumDt s _

theorem loopR_clock_ge' (acts : Entry → Body) (T : Rat) (fuel : Nat) (s : Sys)
    (h : (loopR acts T fuel s).status = .ok) : T - eps ≤ (loopR acts T fuel s).s.t := by
  induction fuel generalizing s T with
  | zero => simp [loopR] at h
  | succ fuel ih =>
    match hq : s.queue with
    | [] => simp only [loopR, hq]; exact advance_ge_sub_eps s T
    | e :: rest =>
      by_cases ht : e.time < T
      · cases hn : (acts e).nested with
        | none =>
          simp only [loopR, hq, ht, if_true, hn] at h ⊢
          exact ih _ _ h
        | some T2 =>
          by_cases hb : T2 < (advance { s with queue := rest } (e.time - s.t)).1.t
          · simp [loopR, hq, ht, hn, hb, addAll_t] at h
          · by_cases hok : (loopR acts T2 fuel (addAll (advance { s with queue := rest } (e.time - s.t)).1 (acts e).pre)).status = .ok
            · simp only [loopR, hq, ht, if_true, hn, addAll_t, hb, if_false, hok] at h ⊢
              exact ih _ _ h
            · simp only [loopR, hq, ht, if_true, hn, addAll_t, hb, if_false, hok] at h
      · simp only [loopR, hq, ht, if_false]; exact advance_ge_sub_eps s T

theorem loopR_clock_le' (acts : Entry → Body) (B : Rat)
    (hB : ∀ e T2, (acts e).nested = some T2 → T2 ≤ B) (T : Rat) (fuel : Nat) (s : Sys)
    (hT : T ≤ B) (hs : s.t ≤ B) : (loopR acts T fuel s).s.t ≤ B := by
  induction fuel generalizing s T with
  | zero => simpa [loopR] using hs
  | succ fuel ih =>
    match hq : s.queue with
    | [] => simp only [loopR, hq]; exact advance_le_of_le s T B hs hT
    | e :: rest =>
      by_cases ht : e.time < T
      · have ha : (advance { s with queue := rest } (e.time - s.t)).1.t ≤ B :=
          advance_le_of_le { s with queue := rest } e.time B hs (by linarith)
        cases hn : (acts e).nested with
        | none =>
          simp only [loopR, hq, ht, if_true, hn]
          exact ih _ _ hT (by simpa only [addAll_t] using ha)
        | some T2 =>
          have h2 := hB e T2 hn
          by_cases hb : T2 < (advance { s with queue := rest } (e.time - s.t)).1.t
          · simp only [loopR, hq, ht, if_true, hn, hb, addAll_t]; exact ha
          · have hnn := ih T2 (addAll (advance { s with queue := rest } (e.time - s.t)).1 (acts e).pre) h2
              (by simpa only [addAll_t] using ha)
            by_cases hok : (loopR acts T2 fuel (addAll (advance { s with queue := rest } (e.time - s.t)).1 (acts e).pre)).status = .ok
            · simp only [loopR, hq, ht, if_true, hn, addAll_t, hb, if_false, hok]
              exact ih _ _ hT (by simpa only [addAll_t] using hnn)
            · simp only [loopR, hq, ht, if_true, hn, addAll_t, hb, if_false, hok]
              exact hnn
      · simp only [loopR, hq, ht, if_false]; exact advance_le_of_le s T B hs hT

/-! ### Raising at once with clock-reading callbacks (`loopXC`, round 6) -/

theorem loopXC_entry_only' (kids : Entry → List (Rat × Nat)) (raises : Entry → Bool) (T : Rat)
    (fuel : Nat) (s : Sys) : loopXC (fun _ => kids) raises T fuel s = loopX kids raises T fuel s := by
  induction fuel generalizing s with
  | zero => simp [loopXC, loopX]
  | succ fuel ih =>
    match hq : s.queue with
    | [] => simp only [loopXC, loopX, hq]
    | e :: rest =>
      by_cases ht : e.time < T
      · simp only [loopXC, loopX, hq, ht, if_true, ih]
      · simp only [loopXC, loopX, hq, ht, if_false]

theorem loopXC_raisedAt_raises (kidsC : Rat → Entry → List (Rat × Nat)) (raises : Entry → Bool) (T : Rat)
    (fuel : Nat) (s : Sys) (e : Entry) (h : (loopXC kidsC raises T fuel s).raisedAt = some e) :
    raises e = true := by
  induction fuel generalizing s with
  | zero => simp [loopXC] at h
  | succ fuel ih =>
    match hq : s.queue with
    | [] => simp [loopXC, hq] at h
    | x :: rest =>
      by_cases ht : x.time < T
      · by_cases hr : raises x = true
        · simp only [loopXC, hq, ht, if_true, hr] at h
          cases h; exact hr
        · simp only [loopXC, hq, ht, if_true, hr, Bool.false_eq_true, if_false] at h
          exact ih _ h
      · simp [loopXC, hq, ht] at h

theorem loopXC_raise_eq_loopC' (kidsC : Rat → Entry → List (Rat × Nat)) (raises : Entry → Bool) (T : Rat)
    (fuel : Nat) (s : Sys) (e : Entry) (h : (loopXC kidsC raises T fuel s).raisedAt = some e) :
    (loopXC kidsC raises T fuel s).run =
      loopC (kidsExceptC kidsC e) T (fired (loopXC kidsC raises T fuel s).run.trace).length s := by
  have hre := loopXC_raisedAt_raises kidsC raises T fuel s e h
  induction fuel generalizing s with
  | zero => simp [loopXC] at h
  | succ fuel ih =>
    match hq : s.queue with
    | [] => simp [loopXC, hq] at h
    | x :: rest =>
      by_cases ht : x.time < T
      · by_cases hr : raises x = true
        · simp only [loopXC, hq, ht, if_true, hr] at h ⊢
          cases h
          have hl : (fired ((advance { s with queue := rest } (e.time - s.t)).2 ++
              [Event.fire e (advance { s with queue := rest } (e.time - s.t)).1.t])).length = 1 := by
            rw [fired_append, fired_advance]; simp [fired]
          rw [hl]
          simp [loopC, hq, ht, kidsExceptC, addAll]
        · have hx : x ≠ e := by rintro rfl; exact hr hre
          simp only [loopXC, hq, ht, if_true, hr, Bool.false_eq_true, if_false] at h ⊢
          have := ih _ h
          have hl : (fired ((advance { s with queue := rest } (x.time - s.t)).2 ++
              Event.fire x (advance { s with queue := rest } (x.time - s.t)).1.t ::
                (loopXC kidsC raises T fuel (addAll (advance { s with queue := rest } (x.time - s.t)).1 (kidsC (advance { s with queue := rest } (x.time - s.t)).1.t x))).run.trace)).length =
              (fired (loopXC kidsC raises T fuel (addAll (advance { s with queue := rest } (x.time - s.t)).1 (kidsC (advance { s with queue := rest } (x.time - s.t)).1.t x))).run.trace).length + 1 := by
            rw [fired_append, fired_advance]; simp [fired]
          rw [hl]
          have hk : ∀ clk, kidsExceptC kidsC e clk x = kidsC clk x := by intro clk; simp [kidsExceptC, hx]
          simp only [loopC, hq, ht, if_true, hk]
          rw [← this]
      · simp [loopXC, hq, ht] at h

end HcipyVerif.Scheduler
