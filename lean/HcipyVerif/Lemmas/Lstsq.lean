import HcipyVerif.Lemmas.ModeBasis
import Mathlib.Algebra.Order.Field.Basic
import Mathlib.Algebra.Order.BigOperators.Group.List
import Mathlib.Data.Complex.Basic

/-! Helper lemmas for the least-squares clause of C14. -/
set_option linter.unusedSimpArgs false
set_option linter.unusedVariables false
set_option linter.unusedSectionVars false

namespace HcipyVerif.ModeBasis

section
variable {K R : Type} [CommRing K] [Field R] [LinearOrder R] [IsStrictOrderedRing R]

/-- `Σ N((u − v)ᵢ)`: the squared residual norm for a "squared modulus" `N` -/
def resid (N : K → R) (u v : List K) : R := ((List.zipWith (· - ·) u v).map N).sum

theorem sum_nonneg_le_zero (l : List R) (h : ∀ x ∈ l, 0 ≤ x) (hs : l.sum ≤ 0) : ∀ x ∈ l, x = 0 := by
  induction l with
  | nil => simp
  | cons a l ih =>
    rw [List.sum_cons] at hs
    have ha : 0 ≤ a := h a (by simp)
    have hl : 0 ≤ l.sum := List.sum_nonneg fun x hx => h x (by simp [hx])
    have ha0 : a = 0 := by linarith
    intro x hx
    rcases List.mem_cons.mp hx with rfl | hx
    · exact ha0
    · exact ih (fun y hy => h y (by simp [hy])) (by linarith) x hx

theorem resid_self (N : K → R) (hN0 : N 0 = 0) (u : List K) : resid N u u = 0 := by
  unfold resid
  induction u with
  | nil => simp
  | cons a u ih => simp [List.zipWith_cons_cons, hN0]

theorem eq_of_zipWith_sub_zero (u v : List K) (hl : u.length = v.length)
    (h : ∀ z ∈ List.zipWith (· - ·) u v, z = 0) : u = v := by
  induction u generalizing v with
  | nil => cases v with
    | nil => rfl
    | cons b v => simp at hl
  | cons a u ih =>
    cases v with
    | nil => simp at hl
    | cons b v =>
      simp only [List.zipWith_cons_cons, List.mem_cons, forall_eq_or_imp] at h
      have : a = b := sub_eq_zero.mp h.1
      rw [this, ih v (by simpa using hl) h.2]

/-- **Least squares recovers the coefficients of independent modes** (generic form).
`f` is the linear-combination map of the basis, `N` the squared modulus of the scalar field.
If `f` is injective on coefficient vectors of length `n`, every minimiser of `‖f x − f c‖²`
over vectors of length `n` is `c` itself. -/
theorem lstsq_recovers_gen (N : K → R) (hN0 : N 0 = 0) (hNn : ∀ z, 0 ≤ N z) (hNz : ∀ z, N z = 0 → z = 0)
    (f : List K → List K) (hlen : ∀ x y, (f x).length = (f y).length) (n : Nat)
    (hinj : ∀ x y, x.length = n → y.length = n → f x = f y → x = y)
    (c x : List K) (hc : c.length = n) (hx : x.length = n)
    (hmin : ∀ y, y.length = n → resid N (f x) (f c) ≤ resid N (f y) (f c)) : x = c := by
  have h0 := hmin c hc
  rw [resid_self N hN0] at h0
  have hz := sum_nonneg_le_zero _ (by
    intro t ht
    obtain ⟨z, _, rfl⟩ := List.mem_map.mp ht
    exact hNn z) h0
  apply hinj x c hx hc
  apply eq_of_zipWith_sub_zero _ _ (hlen x c)
  intro z hzm
  exact hNz z (hz (N z) (List.mem_map_of_mem hzm))
end

theorem linComb_length {K : Type} [Zero K] [Add K] [Mul K] (b : Basis K) (hb : WF b) (c : List K) :
    (linComb b c).length = b.npix := by
  cases b with
  | dense n m rows => simp [linComb, matvec, hb.1, Basis.npix]
  | sparse n m cols => simp [linComb, Basis.npix]

end HcipyVerif.ModeBasis
