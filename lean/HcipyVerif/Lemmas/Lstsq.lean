import HcipyVerif.Lemmas.ModeBasis
import Mathlib.Algebra.Order.Field.Basic
import Mathlib.Algebra.Order.BigOperators.Group.List
import Mathlib.Data.Complex.Basic
import Mathlib.Algebra.Order.BigOperators.Group.Finset
import Mathlib.Algebra.BigOperators.Ring.Finset
import Mathlib.Algebra.BigOperators.Intervals
import Mathlib.Tactic.Ring
import Mathlib.Tactic.Linarith

/-! Helper lemmas for the least-squares clause of C14. -/
set_option linter.unusedSimpArgs false
set_option linter.unusedVariables false
set_option linter.unusedSectionVars false

namespace HcipyVerif.ModeBasis

section
variable {K R : Type} [CommRing K] [Field R] [LinearOrder R] [IsStrictOrderedRing R]

/-- `Σ N((u − v)ᵢ)`: the squared residual norm for a "squared modulus" `N` -/
def resid (N : K → R) (u v : List K) : R := ((List.zipWith (· - ·) u v).map N).sum

theorem sum_nonneg_le_zero (l : List R) (h : ∀ x ∈ l, 0 ≤ x) (hs : l.sum ≤ 0) : ∀ x ∈ l, x = 0 := by
  induction l with
  | nil => simp
  | cons a l ih =>
    rw [List.sum_cons] at hs
    have ha : 0 ≤ a := h a (by simp)
    have hl : 0 ≤ l.sum := List.sum_nonneg fun x hx => h x (by simp [hx])
    have ha0 : a = 0 := by linarith
    intro x hx
    rcases List.mem_cons.mp hx with rfl | hx
    · exact ha0
    · exact ih (fun y hy => h y (by simp [hy])) (by linarith) x hx

theorem resid_self (N : K → R) (hN0 : N 0 = 0) (u : List K) : resid N u u = 0 := by
  unfold resid
  induction u with
  | nil => simp
  | cons a u ih => simp [List.zipWith_cons_cons, hN0]

theorem eq_of_zipWith_sub_zero (u v : List K) (hl : u.length = v.length)
    (h : ∀ z ∈ List.zipWith (· - ·) u v, z = 0) : u = v := by
  induction u generalizing v with
  | nil => cases v with
    | nil => rfl
    | cons b v => simp at hl
  | cons a u ih =>
    cases v with
    | nil => simp at hl
    | cons b v =>
      simp only [List.zipWith_cons_cons, List.mem_cons, forall_eq_or_imp] at h
      have : a = b := sub_eq_zero.mp h.1
      rw [this, ih v (by simpa using hl) h.2]

/-- **Least squares recovers the coefficients of independent modes** (generic form).
`f` is the linear-combination map of the basis, `N` the squared modulus of the scalar field.
If `f` is injective on coefficient vectors of length `n`, every minimiser of `‖f x − f c‖²`
over vectors of length `n` is `c` itself. -/
theorem lstsq_recovers_gen (N : K → R) (hN0 : N 0 = 0) (hNn : ∀ z, 0 ≤ N z) (hNz : ∀ z, N z = 0 → z = 0)
    (f : List K → List K) (hlen : ∀ x y, (f x).length = (f y).length) (n : Nat)
    (hinj : ∀ x y, x.length = n → y.length = n → f x = f y → x = y)
    (c x : List K) (hc : c.length = n) (hx : x.length = n)
    (hmin : ∀ y, y.length = n → resid N (f x) (f c) ≤ resid N (f y) (f c)) : x = c := by
  have h0 := hmin c hc
  rw [resid_self N hN0] at h0
  have hz := sum_nonneg_le_zero _ (by
    intro t ht
    obtain ⟨z, _, rfl⟩ := List.mem_map.mp ht
    exact hNn z) h0
  apply hinj x c hx hc
  apply eq_of_zipWith_sub_zero _ _ (hlen x c)
  intro z hzm
  exact hNz z (hz (N z) (List.mem_map_of_mem hzm))
end

theorem linComb_length {K : Type} [Zero K] [Add K] [Mul K] (b : Basis K) (hb : WF b) (c : List K) :
    (linComb b c).length = b.npix := by
  cases b with
  | dense n m rows => simp [linComb, matvec, hb.1, Basis.npix]
  | sparse n m cols => simp [linComb, Basis.npix]


/-! ## A solution of the normal equations minimises the residual

The list-level definitions (`linComb`, `normalResidual`, `resid`) are first rewritten as finite
sums over index ranges; the minimisation itself is the usual Pythagoras argument
`‖r + d‖² = ‖r‖² + ‖d‖² + 2 Re⟨d, r⟩` with `⟨A w, r⟩ = ⟨w, Aᴴ r⟩ = 0`. -/

open Finset in
/-- the core over index functions; `conj`/`re`/`N` abstract the scalar field (`id`/`id`/`z²` for a
real field, complex conjugation/`Re`/`|z|²` for ℂ) -/
theorem fin_normal_min {K R : Type} [CommRing K] [Field R] [LinearOrder R] [IsStrictOrderedRing R]
    (conj : K →+* K) (re : K →+ R) (N : K → R)
    (hN : ∀ a b, N (a + b) = N a + N b + 2 * re (conj b * a)) (hNn : ∀ z, 0 ≤ N z)
    (n m : Nat) (A : Nat → Nat → K) (xs zs ys : Nat → K)
    (h : ∀ j ∈ range m, ∑ i ∈ range n, conj (A i j) * ((∑ j ∈ range m, A i j * xs j) - ys i) = 0) :
    ∑ i ∈ range n, N ((∑ j ∈ range m, A i j * xs j) - ys i) ≤
    ∑ i ∈ range n, N ((∑ j ∈ range m, A i j * zs j) - ys i) := by
  set r : Nat → K := fun i => (∑ j ∈ range m, A i j * xs j) - ys i with hr
  set d : Nat → K := fun i => ∑ j ∈ range m, A i j * (zs j - xs j) with hd
  have hz : ∀ i, (∑ j ∈ range m, A i j * zs j) - ys i = r i + d i := by
    intro i
    simp only [hr, hd, mul_sub, Finset.sum_sub_distrib]
    ring
  have hcross : ∑ i ∈ range n, conj (d i) * r i = 0 := by
    simp only [hd, map_sum, map_mul, Finset.sum_mul]
    rw [Finset.sum_comm]
    apply Finset.sum_eq_zero
    intro j hj
    have := h j hj
    calc ∑ i ∈ range n, conj (A i j) * conj (zs j - xs j) * r i
        = conj (zs j - xs j) * ∑ i ∈ range n, conj (A i j) * r i := by
          rw [Finset.mul_sum]; apply Finset.sum_congr rfl; intro i _; ring
      _ = 0 := by rw [this, mul_zero]
  have hsum : ∑ i ∈ range n, N (r i + d i) =
      ∑ i ∈ range n, N (r i) + ∑ i ∈ range n, N (d i) := by
    simp only [hN, Finset.sum_add_distrib]
    rw [← Finset.mul_sum, ← map_sum, hcross, map_zero, mul_zero, add_zero]
  simp only [hz]
  rw [hsum]
  have : 0 ≤ ∑ i ∈ range n, N (d i) := Finset.sum_nonneg fun i _ => hNn _
  linarith

theorem sum_map_range {M : Type} [AddCommMonoid M] (n : Nat) (f : Nat → M) :
    ((List.range n).map f).sum = ∑ i ∈ Finset.range n, f i := by
  induction n with
  | zero => simp
  | succ n ih => rw [List.range_succ, List.map_append, List.sum_append, ih, Finset.sum_range_succ]; simp

theorem list_eq_range_getD {α} (l : List α) (d : α) : l = (List.range l.length).map (l.getD · d) := by
  have := map_eq_range_map_getD l d id
  simpa using this

theorem zipWith_range {α β γ} (n : Nat) (f : α → β → γ) (g : Nat → α) (x : List β) (d : β) (hx : x.length = n) :
    List.zipWith f ((List.range n).map g) x = (List.range n).map fun i => f (g i) (x.getD i d) := by
  conv_lhs => rw [list_eq_range_getD x d, hx]
  rw [List.zipWith_map, List.zipWith_self]

section
variable {K : Type} [CommSemiring K]

theorem dot_range_list (n : Nat) (f : Nat → K) (x : List K) (hx : x.length = n) :
    dot ((List.range n).map f) x = ∑ i ∈ Finset.range n, f i * x.getD i 0 := by
  unfold dot
  rw [zipWith_range n _ f x 0 hx, sum_map_range]

theorem linComb_fn (b : Basis K) (hb : WF b) (x : List K) (hx : x.length = b.nmodes) :
    linComb b x = (List.range b.npix).map fun i => ∑ j ∈ Finset.range b.nmodes, ent b i j * x.getD j 0 := by
  rw [linComb_eq b hb]
  unfold toDense table matvec
  rw [List.map_map]
  apply List.map_congr_left
  intro i _
  exact dot_range_list _ _ _ hx
end

section
variable {K : Type} [CommRing K]

theorem normalResidual_fn (conj : K → K) (b : Basis K) (x y : List K) (hx : x.length = b.nmodes)
    (hy : y.length = b.npix) :
    normalResidual conj b x y = (List.range b.nmodes).map fun j =>
      ∑ i ∈ Finset.range b.npix, conj (ent b i j) *
        ((∑ j' ∈ Finset.range b.nmodes, ent b i j' * x.getD j' 0) - y.getD i 0) := by
  unfold normalResidual adjRows column matvec toDense table
  rw [List.map_map, List.map_map]
  apply List.map_congr_left
  intro j _
  simp only [Function.comp]
  rw [zipWith_range b.npix _ _ y 0 hy, List.map_map]
  rw [dot_range_list _ _ _ (by simp)]
  apply Finset.sum_congr rfl
  intro i hi
  simp only [Function.comp]
  rw [getD_map_range _ _ _ _ (Finset.mem_range.mp hi), dot_range_list _ _ _ hx]

theorem resid_fn {R : Type} [Field R] [LinearOrder R] [IsStrictOrderedRing R] (N : K → R) (n : Nat)
    (U : Nat → K) (y : List K) (hy : y.length = n) :
    resid N ((List.range n).map U) y = ∑ i ∈ Finset.range n, N (U i - y.getD i 0) := by
  unfold resid
  rw [zipWith_range n _ U y 0 hy, List.map_map, sum_map_range]
  rfl
end

section
variable {K R : Type} [CommRing K] [Field R] [LinearOrder R] [IsStrictOrderedRing R]

/-- **A solution of the normal equations `Aᴴ (A x − y) = 0` minimises `‖A z − y‖²`** (generic
scalar; every storage form). -/
theorem normal_eq_minimises_gen (conj : K →+* K) (re : K →+ R) (N : K → R)
    (hN : ∀ a b, N (a + b) = N a + N b + 2 * re (conj b * a)) (hNn : ∀ z, 0 ≤ N z)
    (b : Basis K) (hb : WF b) (x y : List K) (hx : x.length = b.nmodes) (hy : y.length = b.npix)
    (h : ∀ t ∈ normalResidual conj b x y, t = 0) (z : List K) (hz : z.length = b.nmodes) :
    resid N (linComb b x) y ≤ resid N (linComb b z) y := by
  rw [linComb_fn b hb x hx, linComb_fn b hb z hz, resid_fn N _ _ y hy, resid_fn N _ _ y hy]
  apply fin_normal_min conj re N hN hNn
  intro j hj
  apply h
  rw [normalResidual_fn conj b x y hx hy]
  exact List.mem_map.mpr ⟨j, List.mem_range.mpr (Finset.mem_range.mp hj), rfl⟩
end

end HcipyVerif.ModeBasis
