import HcipyVerif.Model.Effects
import Mathlib.Tactic.Common

/-!
Soundness invariant of the C06 effect checker: the abstract state over-approximates (for buffer
sharing) and tracks exactly (for object identity) what the concrete store looks like, and the
input object / input buffer only differ from the original in the attributes listed as dirty.
-/
set_option linter.unusedSimpArgs false
set_option linter.unusedVariables false
set_option linter.unusedSectionVars false
set_option linter.unusedTactic false
set_option linter.unreachableTactic false
set_option linter.unnecessarySeqFocus false

namespace HcipyVerif.Effects

theorem upd_same {α} (f : Nat → α) (k : Nat) (v : α) : upd f k v k = v := by simp [upd]
theorem upd_ne {α} (f : Nat → α) {k i : Nat} (v : α) (h : i ≠ k) : upd f k v i = f i := by simp [upd, h]

theorem Obj.get_set_same (o : Obj) (a : Attr) (v : Int) : (o.set a v).get a = v := by
  cases a <;> rfl
theorem Obj.get_set_ne (o : Obj) {a b : Attr} (v : Int) (h : b ≠ a) : (o.set a v).get b = o.get b := by
  cases a <;> cases b <;> first | rfl | exact absurd rfl h
theorem Obj.buf_set (o : Obj) (a : Attr) (v : Int) : (o.set a v).buf = o.buf := by
  cases a <;> rfl
theorem InVal.obj_get (v : InVal) (a : Attr) : v.obj.get a = v.get a := by cases a <;> rfl

theorem Obj.ext_get {o o' : Obj} (hb : o.buf = o'.buf) (h : ∀ a, o.get a = o'.get a) : o = o' := by
  cases o; cases o'
  have h1 := h .wavelength; have h2 := h .stokes; have h3 := h .grid
  simp only [Obj.get] at h1 h2 h3
  simp_all

/-- The invariant linking the abstract state `A`, the concrete store `c` and the original input `v`. -/
structure Inv (v : InVal) (A : Abs) (c : St) : Prop where
  nObj : 1 ≤ c.nObj
  nBuf : 1 ≤ c.nBuf
  envLt : ∀ x, c.env x < c.nObj
  isIn : ∀ x, A.isIn x = true ↔ c.env x = 0
  shares : ∀ x, (c.objs (c.env x)).buf = 0 → A.shares x = true
  buf0 : c.bufs 0 = v.field
  obj0buf : (c.objs 0).buf = 0
  obj0 : ∀ a, a ∉ A.dirty → (c.objs 0).get a = v.get a
  slots : ∀ s a, A.slots s = some a → c.slots s = v.get a

theorem inv_init (v : InVal) : Inv v Abs.init (init v) := by
  refine ⟨by simp [init], by simp [init], by simp [init], by simp [init, Abs.init], by simp [init, Abs.init],
    by simp [init], by simp [init, InVal.obj], ?_, by simp [Abs.init]⟩
  intro a _
  simp [init, InVal.obj_get]

/-- One instruction accepted by the checker preserves the invariant. -/
theorem step_inv (sem : Nat → List Int → Int) (v : InVal) (A A' : Abs) (c : St) (i : Instr)
    (h : Inv v A c) (hc : checkStep A i = some A') : Inv v A' (step sem c i) := by
  have hn0 : c.nObj ≠ 0 := by have := h.nObj; omega
  have hb0 : c.nBuf ≠ 0 := by have := h.nBuf; omega
  cases i with
  | copy d s =>
    simp only [checkStep, Option.some.injEq] at hc; subst hc
    refine ⟨by simp [step] <;> omega, by simp [step] <;> omega, ?_, ?_, ?_, ?_, ?_, ?_, h.slots⟩
    · intro x; simp only [step, upd]; split
      · omega
      · have := h.envLt x; omega
    · intro x; simp only [step, upd]; split
      · simp [hn0]
      · exact h.isIn x
    · intro x; simp only [step, upd]
      by_cases hx : x = d
      · simp [hx, hb0]
      · simp only [hx, if_false]
        have hlt := h.envLt x
        have : c.env x ≠ c.nObj := by omega
        simp only [this, if_false]
        exact h.shares x
    · simp [step, upd, Ne.symm hb0, h.buf0]
    · simp [step, upd, Ne.symm hn0, h.obj0buf]
    · intro a ha; simp only [step, upd, Ne.symm hn0, if_false]; exact h.obj0 a ha
  | wrap d s =>
    simp only [checkStep, Option.some.injEq] at hc; subst hc
    refine ⟨by simp [step] <;> omega, by simp [step] <;> omega, ?_, ?_, ?_, ?_, ?_, ?_, h.slots⟩
    · intro x; simp only [step, upd]; split
      · omega
      · have := h.envLt x; omega
    · intro x; simp only [step, upd]; split
      · simp [hn0]
      · exact h.isIn x
    · intro x; simp only [step, upd]
      by_cases hx : x = d
      · simp only [hx, if_true]
        intro hb; exact h.shares s hb
      · simp only [hx, if_false]
        have hlt := h.envLt x
        have : c.env x ≠ c.nObj := by omega
        simp only [this, if_false]
        exact h.shares x
    · simp [step, h.buf0]
    · simp [step, upd, Ne.symm hn0, h.obj0buf]
    · intro a ha; simp only [step, upd, Ne.symm hn0, if_false]; exact h.obj0 a ha
  | newFrom d op args like =>
    simp only [checkStep, Option.some.injEq] at hc; subst hc
    refine ⟨by simp [step] <;> omega, by simp [step] <;> omega, ?_, ?_, ?_, ?_, ?_, ?_, h.slots⟩
    · intro x; simp only [step, upd]; split
      · omega
      · have := h.envLt x; omega
    · intro x; simp only [step, upd]; split
      · simp [hn0]
      · exact h.isIn x
    · intro x; simp only [step, upd]
      by_cases hx : x = d
      · simp [hx, hb0]
      · simp only [hx, if_false]
        have hlt := h.envLt x
        have : c.env x ≠ c.nObj := by omega
        simp only [this, if_false]
        exact h.shares x
    · simp [step, upd, Ne.symm hb0, h.buf0]
    · simp [step, upd, Ne.symm hn0, h.obj0buf]
    · intro a ha; simp only [step, upd, Ne.symm hn0, if_false]; exact h.obj0 a ha
  | bind d s =>
    simp only [checkStep, Option.some.injEq] at hc; subst hc
    refine ⟨h.nObj, h.nBuf, ?_, ?_, ?_, h.buf0, h.obj0buf, h.obj0, h.slots⟩
    · intro x; simp only [step, upd]; split
      · exact h.envLt s
      · exact h.envLt x
    · intro x; simp only [step, upd]; split
      · exact h.isIn s
      · exact h.isIn x
    · intro x; simp only [step, upd]; split
      · exact h.shares s
      · exact h.shares x
  | inplace op t args =>
    simp only [checkStep] at hc
    split at hc
    · simp at hc
    · rename_i hs
      simp only [Option.some.injEq] at hc; subst hc
      have hbt : bufOf c t ≠ 0 := by
        intro hb; exact hs (h.shares t hb)
      refine ⟨h.nObj, h.nBuf, h.envLt, h.isIn, h.shares, ?_, h.obj0buf, h.obj0, h.slots⟩
      simp [step, upd, Ne.symm hbt, h.buf0]
  | setFieldNew t op args =>
    simp only [checkStep] at hc
    split at hc
    · simp at hc
    · rename_i hs
      simp only [Option.some.injEq] at hc; subst hc
      have het : c.env t ≠ 0 := by
        intro he; exact hs ((h.isIn t).mpr he)
      refine ⟨h.nObj, by simp [step] <;> omega, h.envLt, h.isIn, ?_, ?_, ?_, ?_, h.slots⟩
      · intro x; simp only [step, upd]
        by_cases hx : x = t
        · simp [hx, hb0]
        · simp only [hx, if_false]
          by_cases he : c.env x = c.env t
          · simp [he, hb0]
          · simp only [he, if_false]; exact h.shares x
      · simp [step, upd, Ne.symm hb0, h.buf0]
      · simp [step, upd, Ne.symm het, h.obj0buf]
      · intro a ha; simp only [step, upd, Ne.symm het, if_false]; exact h.obj0 a ha
  | saveAttr slot s a =>
    simp only [checkStep, Option.some.injEq] at hc; subst hc
    refine ⟨h.nObj, h.nBuf, h.envLt, h.isIn, h.shares, h.buf0, h.obj0buf, h.obj0, ?_⟩
    intro s' a' hs'
    simp only [step, upd] at hs' ⊢
    by_cases hx : s' = slot
    · simp only [hx, if_true] at hs' ⊢
      split at hs'
      · rename_i hcond
        simp only [Option.some.injEq] at hs'; subst hs'
        simp only [Bool.and_eq_true, Bool.not_eq_true', List.contains_eq_mem, decide_eq_false_iff_not] at hcond
        have he : c.env s = 0 := (h.isIn s).mp hcond.1
        rw [he]
        exact h.obj0 a (by simpa using hcond.2)
      · simp at hs'
    · simp only [hx, if_false] at hs' ⊢
      exact h.slots s' a' hs'
  | setAttrConst t a val =>
    simp only [checkStep, Option.some.injEq] at hc; subst hc
    by_cases hin : A.isIn t = true
    · have he : c.env t = 0 := (h.isIn t).mp hin
      simp only [hin, if_true]
      refine ⟨h.nObj, h.nBuf, h.envLt, h.isIn, ?_, h.buf0, ?_, ?_, h.slots⟩
      · intro x; simp only [step, upd, he]
        by_cases hx : c.env x = 0
        · simp only [hx, if_true, Obj.buf_set]; intro hb; exact h.shares x (by rw [hx]; exact hb)
        · simp only [hx, if_false]; exact h.shares x
      · simp [step, upd, he, Obj.buf_set, h.obj0buf]
      · intro a' ha'
        simp only [List.mem_cons, not_or] at ha'
        simp only [step, upd, he, if_true]
        rw [Obj.get_set_ne _ _ ha'.1]
        exact h.obj0 a' ha'.2
    · have he : c.env t ≠ 0 := fun he => hin ((h.isIn t).mpr he)
      simp only [hin, if_false]
      refine ⟨h.nObj, h.nBuf, h.envLt, h.isIn, ?_, h.buf0, ?_, ?_, h.slots⟩
      · intro x; simp only [step, upd]
        by_cases hx : c.env x = c.env t
        · simp only [hx, if_true, Obj.buf_set]; intro hb; exact h.shares x (by rw [hx]; exact hb)
        · simp only [hx, if_false]; exact h.shares x
      · simp [step, upd, Ne.symm he, h.obj0buf]
      · intro a' ha'; simp only [step, upd, Ne.symm he, if_false]; exact h.obj0 a' ha'
  | setAttrSlot t a slot =>
    simp only [checkStep, Option.some.injEq] at hc; subst hc
    by_cases hin : A.isIn t = true
    · have he : c.env t = 0 := (h.isIn t).mp hin
      simp only [hin, if_true]
      have hshares : ∀ x, ((step sem c (.setAttrSlot t a slot)).objs ((step sem c (.setAttrSlot t a slot)).env x)).buf = 0 →
          A.shares x = true := by
        intro x; simp only [step, upd, he]
        by_cases hx : c.env x = 0
        · simp only [hx, if_true, Obj.buf_set]; intro hb; exact h.shares x (by rw [hx]; exact hb)
        · simp only [hx, if_false]; exact h.shares x
      have hbuf : ((step sem c (.setAttrSlot t a slot)).objs 0).buf = 0 := by
        simp [step, upd, he, Obj.buf_set, h.obj0buf]
      by_cases hsl : A.slots slot = some a
      · simp only [hsl, if_true]
        refine ⟨h.nObj, h.nBuf, h.envLt, h.isIn, hshares, h.buf0, hbuf, ?_, h.slots⟩
        intro a' ha'
        simp only [step, upd, he, if_true]
        by_cases haa : a' = a
        · subst haa; rw [Obj.get_set_same]; exact h.slots slot a' hsl
        · rw [Obj.get_set_ne _ _ haa]
          apply h.obj0
          intro hmem
          apply ha'
          simp only [List.mem_filter, decide_eq_true_eq]
          exact ⟨hmem, haa⟩
      · simp only [hsl, if_false]
        refine ⟨h.nObj, h.nBuf, h.envLt, h.isIn, hshares, h.buf0, hbuf, ?_, h.slots⟩
        intro a' ha'
        simp only [List.mem_cons, not_or] at ha'
        simp only [step, upd, he, if_true]
        rw [Obj.get_set_ne _ _ ha'.1]
        exact h.obj0 a' ha'.2
    · have he : c.env t ≠ 0 := fun he => hin ((h.isIn t).mpr he)
      simp only [hin, if_false]
      refine ⟨h.nObj, h.nBuf, h.envLt, h.isIn, ?_, h.buf0, ?_, ?_, h.slots⟩
      · intro x; simp only [step, upd]
        by_cases hx : c.env x = c.env t
        · simp only [hx, if_true, Obj.buf_set]; intro hb; exact h.shares x (by rw [hx]; exact hb)
        · simp only [hx, if_false]; exact h.shares x
      · simp [step, upd, Ne.symm he, h.obj0buf]
      · intro a' ha'; simp only [step, upd, Ne.symm he, if_false]; exact h.obj0 a' ha'

  | inplaceAttr op t a =>
    simp only [checkStep, Option.some.injEq] at hc; subst hc
    exact h
  | copyAttr t a =>
    simp only [checkStep, Option.some.injEq] at hc; subst hc
    exact h

/-- A whole instruction list accepted by the checker preserves the invariant. -/
theorem exec_inv (sem : Nat → List Int → Int) (v : InVal) (p : List Instr) :
    ∀ (A A' : Abs) (c : St), Inv v A c → check p A = some A' → Inv v A' (exec sem c p) := by
  induction p with
  | nil =>
    intro A A' c h hc
    simp only [check, Option.some.injEq] at hc; subst hc
    simpa [exec] using h
  | cons i p ih =>
    intro A A' c h hc
    simp only [check] at hc
    cases hs : checkStep A i with
    | none => simp [hs] at hc
    | some A1 =>
      simp only [hs] at hc
      have := ih A1 A' (step sem c i) (step_inv sem v A A1 c i h hs) hc
      simpa [exec] using this


/-! ## Element-internal cells: memo invariant and the two-run simulation -/

theorem evalI_congr (S : ISem) (allowed : List Atom) (e : IExpr) (h : closedOver allowed e = true)
    (ρ ρ' : Atom → Int) (hρ : ∀ a ∈ allowed, ρ a = ρ' a) (f f' : Int) (l l' : Nat → Int) :
    evalI S ρ f l e = evalI S ρ' f' l' e := by
  induction e with
  | atom a =>
    simp only [closedOver, List.contains_eq_mem, decide_eq_true_eq] at h
    simp [evalI, hρ a h]
  | field => simp [closedOver] at h
  | loc r => simp [closedOver] at h
  | op1 g a ih =>
    simp only [closedOver] at h
    simp [evalI, ih h]
  | op2 g a b iha ihb =>
    simp only [closedOver, Bool.and_eq_true] at h
    simp [evalI, iha h.1, ihb h.2]

/-- Every entry of every memo cell holds the cell's specification evaluated at some environment that
has the entry's tag as key. -/
def MemoInv (S : ISem) (p : IProg) (cells : Nat → Entries) : Prop :=
  ∀ c tag val, (tag, val) ∈ cells c →
    ∃ ρ' : Atom → Int, (p.keyAtoms c).map ρ' = tag ∧ val = evalI S ρ' 0 (fun _ => 0) (p.spec c)

theorem memoInv_fresh (S : ISem) (p : IProg) : MemoInv S p (fun _ => []) := by
  intro c tag val h; simp at h

theorem lookup_some_mem {tag : List Int} {l : Entries} {v : Int} (h : lookup tag l = some v) : (tag, v) ∈ l := by
  induction l with
  | nil => simp [lookup] at h
  | cons e rest ih =>
    obtain ⟨t, w⟩ := e
    simp only [lookup] at h
    split at h
    · rename_i ht; simp only [Option.some.injEq] at h; subst h; subst ht; simp
    · exact List.mem_cons_of_mem _ (ih h)

theorem lookup_cons_self (tag : List Int) (v : Int) (l : Entries) : lookup tag ((tag, v) :: l) = some v := by
  simp [lookup]

theorem mem_insertEntry {cap : Nat} {tag : List Int} {v : Int} {l : Entries} {e : List Int × Int}
    (h : e ∈ insertEntry cap tag v l) : e = (tag, v) ∨ e ∈ l := by
  have h1 := List.mem_of_mem_take h
  simp only [List.mem_cons, List.mem_filter] at h1
  rcases h1 with h1 | h1
  · exact Or.inl h1
  · exact Or.inr h1.1

/-- Under the invariant a keyed read yields the specification at the *current* key, hit or miss. -/
theorem stepI_memoRead (S : ISem) (p : IProg) (ρ : Atom → Int) (fld : Int) (c : IRun) (r k : Nat)
    (hinv : MemoInv S p c.cells) (hcl : closedOver (p.keyAtoms k) (p.spec k) = true) :
    stepI S p ρ fld c (.memoRead r k (p.spec k))
      = { c with loc := upd c.loc r (evalI S ρ fld c.loc (p.spec k)) } := by
  simp only [stepI]
  cases hc : lookup ((p.keyAtoms k).map ρ) (c.cells k) with
  | none => rfl
  | some val =>
    simp only
    obtain ⟨ρ', hmap, hval⟩ := hinv k _ val (lookup_some_mem hc)
    have hagree : ∀ a ∈ p.keyAtoms k, ρ' a = ρ a := List.map_inj_left.mp hmap
    rw [hval, evalI_congr S (p.keyAtoms k) (p.spec k) hcl ρ' ρ hagree 0 fld (fun _ => 0) c.loc]

/-- Two runs of an accepted body from stores that both satisfy the invariant, with equal locals and
equal contents of the scratch buffers written so far, end with equal locals, and both stores still
satisfy the invariant. -/
theorem sim (S : ISem) (p : IProg) (ρ : Atom → Int) (fld : Int) (body : List IInstr) :
    ∀ (w : List Nat) (c1 c2 : IRun), checkI p body w = true →
      c1.loc = c2.loc → (∀ b ∈ w, c1.scratch b = c2.scratch b) →
      MemoInv S p c1.cells → MemoInv S p c2.cells →
      (execI S p ρ fld c1 body).loc = (execI S p ρ fld c2 body).loc ∧
      MemoInv S p (execI S p ρ fld c1 body).cells ∧ MemoInv S p (execI S p ρ fld c2 body).cells := by
  induction body with
  | nil => intro w c1 c2 _ hl _ h1 h2; exact ⟨hl, h1, h2⟩
  | cons i rest ih =>
    intro w c1 c2 hck hl hs h1 h2
    simp only [execI, List.foldl_cons] at ih ⊢
    cases i with
    | letE r e =>
      simp only [checkI] at hck
      apply ih w _ _ hck
      · simp [stepI, hl]
      · simpa [stepI] using hs
      · simpa [stepI] using h1
      · simpa [stepI] using h2
    | memoFill k e =>
      simp only [checkI, Bool.and_eq_true, beq_iff_eq] at hck
      obtain ⟨⟨he, hcl⟩, hrest⟩ := hck
      subst he
      have fillInv : ∀ c : IRun, MemoInv S p c.cells →
          MemoInv S p (stepI S p ρ fld c (.memoFill k (p.spec k))).cells := by
        intro c hc k' tag val hcell
        simp only [stepI, upd] at hcell
        split at hcell
        · rename_i hk
          subst hk
          rcases mem_insertEntry hcell with hnew | hold
          · simp only [Prod.mk.injEq] at hnew
            refine ⟨ρ, hnew.1.symm, ?_⟩
            rw [hnew.2]
            exact evalI_congr S (p.keyAtoms k') (p.spec k') hcl ρ ρ (fun _ _ => rfl) fld 0 c.loc (fun _ => 0)
          · exact hc k' tag val hold
        · exact hc k' tag val hcell
      apply ih w _ _ hrest
      · simpa [stepI] using hl
      · simpa [stepI] using hs
      · exact fillInv c1 h1
      · exact fillInv c2 h2
    | memoRead r k fb =>
      simp only [checkI, Bool.and_eq_true, beq_iff_eq] at hck
      obtain ⟨⟨he, hcl⟩, hrest⟩ := hck
      subst he
      rw [stepI_memoRead S p ρ fld c1 r k h1 hcl, stepI_memoRead S p ρ fld c2 r k h2 hcl]
      apply ih w _ _ hrest
      · simp [hl]
      · simpa using hs
      · simpa using h1
      · simpa using h2
    | cellUpdate k e => simp [checkI] at hck
    | rawRead r k => simp [checkI] at hck
    | scratchWrite b e =>
      simp only [checkI] at hck
      apply ih (b :: w) _ _ hck
      · simpa [stepI] using hl
      · intro b' hb'
        simp only [stepI, upd]
        by_cases hbb : b' = b
        · simp [hbb, hl]
        · simp only [hbb, if_false]
          exact hs b' (by simpa [hbb] using hb')
      · simpa [stepI] using h1
      · simpa [stepI] using h2
    | scratchRead r b =>
      simp only [checkI, Bool.and_eq_true, List.contains_eq_mem, decide_eq_true_eq] at hck
      apply ih w _ _ hck.2
      · simp [stepI, hl, hs b hck.1]
      · simpa [stepI] using hs
      · simpa [stepI] using h1
      · simpa [stepI] using h2

/-- A call of an accepted program keeps the invariant. -/
theorem callI_inv (S : ISem) (p : IProg) (hs : safeInternal p = true) (E : EState) (v : InVal)
    (h : MemoInv S p E.cells) : MemoInv S p (callI S p E v).2.cells := by
  have := sim S p (atomEnv E.params v) v.field p.body [] ⟨E.cells, E.scratch, fun _ => 0⟩
    ⟨E.cells, E.scratch, fun _ => 0⟩ hs rfl (fun _ _ => rfl) h h
  exact this.2.1

theorem callI_params (S : ISem) (p : IProg) (E : EState) (v : InVal) : (callI S p E v).2.params = E.params := rfl

/-- Histories (calls and parameter changes) keep the invariant. -/
theorem runHistory_inv (S : ISem) (p : IProg) (hs : safeInternal p = true) (h : List Event) :
    ∀ E : EState, MemoInv S p E.cells → MemoInv S p (runHistory S p E h).cells := by
  induction h with
  | nil => intro E hE; exact hE
  | cons e rest ih =>
    intro E hE
    simp only [runHistory, List.foldl_cons]
    apply ih
    cases e with
    | call v => exact callI_inv S p hs E v hE
    | setParam i x => exact hE

/-- Two elements with the same parameters whose cells both satisfy the invariant answer alike. -/
theorem callI_result_eq (S : ISem) (p : IProg) (hs : safeInternal p = true) (E1 E2 : EState) (v : InVal)
    (hp : E1.params = E2.params) (h1 : MemoInv S p E1.cells) (h2 : MemoInv S p E2.cells) :
    (callI S p E1 v).1 = (callI S p E2 v).1 := by
  have := sim S p (atomEnv E1.params v) v.field p.body [] ⟨E1.cells, E1.scratch, fun _ => 0⟩
    ⟨E2.cells, E2.scratch, fun _ => 0⟩ hs rfl (fun _ h => by simp at h) h1 h2
  simp only [callI, ← hp]
  rw [this.1]


/-! ## Programs with a loop -/

theorem check_append (p q : List Instr) (A : Abs) :
    check (p ++ q) A = (check p A).bind (check q) := by
  induction p generalizing A with
  | nil => rfl
  | cons i p ih =>
    simp only [List.cons_append, check]
    cases checkStep A i with
    | none => rfl
    | some A' => exact ih A'

theorem rounds_succ (n : Nat) (b : List Instr) : rounds (n + 1) b = b ++ rounds n b := by
  simp [rounds, List.replicate_succ]

theorem check_rounds (body : List Instr) (A : Abs) (h : check body A = some A) :
    ∀ n, check (rounds n body) A = some A := by
  intro n
  induction n with
  | zero => rfl
  | succ n ih => rw [rounds_succ, check_append, h]; exact ih

theorem unroll_succ_body (L : LoopProg) (k : Nat) :
    (L.unroll (k + 1)).body = (L.pre ++ L.body) ++ (rounds k L.body ++ L.post) := by
  simp [LoopProg.unroll, rounds_succ, List.append_assoc]

theorem loop_safe (L : LoopProg) (h0 : safe (L.unroll 0) = true) (h1 : safe (L.unroll 1) = true) (hf : L.Fix) :
    ∀ n, safe (L.unroll n) = true := by
  intro n
  cases n with
  | zero => exact h0
  | succ m =>
    -- one round does not fail
    have hsome : ∃ A, check (L.pre ++ L.body) Abs.init = some A := by
      cases hc : check (L.pre ++ L.body) Abs.init with
      | some A => exact ⟨A, rfl⟩
      | none =>
        exfalso
        have : check (L.unroll 1).body Abs.init = none := by
          rw [unroll_succ_body, check_append, hc]; rfl
        simp [safe, this] at h1
    obtain ⟨A, hA⟩ := hsome
    have hst : stateAfter (L.pre ++ L.body) = A := by simp [stateAfter, hA]
    have hfA : check L.body A = some A := by rw [LoopProg.Fix, hst] at hf; exact hf
    have body_eq : ∀ k, check (L.unroll (k + 1)).body Abs.init = check L.post A := by
      intro k
      rw [unroll_succ_body, check_append, hA]
      simp only [Option.bind]
      rw [check_append, check_rounds L.body A hfA k]
      rfl
    have e1 := body_eq 0
    have em := body_eq m
    unfold safe at h1 ⊢
    rw [em]; rw [e1] at h1; exact h1

theorem viewList_append (a : Attr) (p q : List Instr) :
    viewList a (p ++ q) = match viewList a p, viewList a q with
      | some x, some y => some (x ++ y)
      | _, _ => none := by
  induction p with
  | nil => simp [viewList]; cases viewList a q <;> rfl
  | cons i p ih =>
    simp only [List.cons_append, viewList, ih]
    cases viewInstr a i <;> cases viewList a p <;> cases viewList a q <;> simp

theorem viewList_rounds (a : Attr) (b vb : List Instr) (h : viewList a b = some vb) :
    ∀ n, viewList a (rounds n b) = some (rounds n vb) := by
  intro n
  induction n with
  | zero => rfl
  | succ n ih => rw [rounds_succ, rounds_succ, viewList_append, h, ih]

theorem viewProg_unroll (a : Attr) (L L' : LoopProg) (h : L.view a = some L') (n : Nat) :
    viewProg a (L.unroll n) = some (L'.unroll n) := by
  unfold LoopProg.view at h
  cases hp : viewList a L.pre with
  | none => simp [hp] at h
  | some vp =>
    cases hb : viewList a L.body with
    | none => simp [hp, hb] at h
    | some vb =>
      cases hq : viewList a L.post with
      | none => simp [hp, hb, hq] at h
      | some vq =>
        simp only [hp, hb, hq, Option.some.injEq] at h
        subst h
        simp [viewProg, LoopProg.unroll, viewList_append, hp, hq, viewList_rounds a _ _ hb n]



theorem loop_safeAttr (a : Attr) (L : LoopProg) (hf : L.FixAll)
    (hb : (match L.view a with | some L' => L'.base | none => false) = true) (n : Nat) :
    safeAttr a (L.unroll n) = true := by
  cases hv : L.view a with
  | none => simp [hv] at hb
  | some L' =>
    simp only [hv, LoopProg.base, Bool.and_eq_true] at hb
    simp only [safeAttr, viewProg_unroll a L L' hv n]
    exact loop_safe L' hb.1 hb.2 (hf.2 a L' hv) n

theorem loop_safeAll (L : LoopProg) (hb : L.baseAll = true) (hf : L.FixAll) (n : Nat) :
    safeAll (L.unroll n) = true := by
  simp only [LoopProg.baseAll, List.all_cons, List.all_nil, Bool.and_true, Bool.and_eq_true, LoopProg.base] at hb
  obtain ⟨⟨h0, h1⟩, hg, hs⟩ := hb
  simp only [safeAll, Bool.and_eq_true]
  exact ⟨⟨loop_safe L h0 h1 hf.1 n, loop_safeAttr .grid L hf hg n⟩, loop_safeAttr .stokes L hf hs n⟩


end HcipyVerif.Effects
