import Mathlib.Algebra.BigOperators.Intervals
import Mathlib.Algebra.BigOperators.Ring.Finset
import Mathlib.Algebra.Field.Basic
import Mathlib.Tactic.Ring
import Mathlib.Tactic.Linarith
import Mathlib.Tactic.FieldSimp
import Mathlib.Data.Int.ModEq
import Mathlib.Data.Nat.ModEq
import HcipyVerif.Model.Czt
import HcipyVerif.Lemmas.FftIndex
import HcipyVerif.Lemmas.FftChar

/-!
# Bluestein's identity for `ChirpZTransform` and the Zoom FFT axis theorem

* `czt_eq_sum`       : the Bluestein pipeline equals the defining CZT sum, for every
  `nfft ≥ n + m - 1` (no wrap-around) and every character `W`.
* `circ_conv_theorem`: `ifft(fft y · fft v) = circConv y v` from the DFT specification, for a
  primitive `nfft`-periodic character.
* `zoom_axis_eq_sum` : with `w, a, shift` as in `_compute_shifts_and_weights`, one axis of the
  Zoom FFT evaluates `Σ_i f_i·exp(-i·u_k·x_i)`.
-/
set_option linter.unusedSimpArgs false
set_option linter.unusedVariables false

namespace HcipyVerif.Fft
open Finset

section czt
variable {K C : Type} [Field K] [Field C]

/-- The kernel entry hit by output `k` and input `r`: the lag is `k - r`. -/
theorem cztKernel_at (n m : ℕ) (g : ℕ → C) (k r : ℕ) (hk : k < m) (hr : r < n) :
    cztKernel n m g (n - 1 + k - r) = if k < r then g (r - k) else g (k - r) := by
  unfold cztKernel
  have h1 : n - 1 + k - r < n + m - 1 := by omega
  rw [if_pos h1]
  by_cases h : k < r
  · have h2 : n - 1 + k - r + 1 < n := by omega
    rw [if_pos h2, if_pos h]
    congr 1; omega
  · have h2 : ¬ (n - 1 + k - r + 1 < n) := by omega
    rw [if_neg h2, if_neg h]
    congr 1; omega

/-- Bluestein's exponent identity `i²/2 - (k-i)²/2 + k²/2 = i·k` at the level of the character. -/
theorem bluestein_phase {W : K → C} (hW : IsChar W) (h2 : (2 : K) ≠ 0) (ω : K) (i k : K) :
    W (ω * (i * i) / 2) * (W (ω * ((k - i) * (k - i)) / 2))⁻¹ * W (ω * (k * k) / 2)
      = W (ω * i * k) := by
  rw [hW.inv, ← hW.add, ← hW.add]
  congr 1
  field_simp
  ring

/-- **Bluestein's identity** (`ChirpZTransform.__call__`, one axis): for every `0 < n`, every
`nfft ≥ n + m - 1` and every `k < m` the pipeline equals the defining sum
`Σ_{i<n} x_i·a^{-i}·w^{i·k}`. -/
theorem czt_eq_sum {W : K → C} (hW : IsChar W) (h2 : (2 : K) ≠ 0) (n m nfft : ℕ) (hn : 0 < n)
    (hnfft : n + m - 1 ≤ nfft) (ω α : K) (x : ℕ → C) (k : ℕ) (hk : k < m) :
    cztBluestein n m nfft W ω α x k = cztSum n W ω α x k := by
  simp only [cztBluestein, cztSum, circConv, sumRange_eq]
  have hnn : n ≤ nfft := by omega
  -- drop the zero padding
  have hsub : ∑ r ∈ range nfft, padEnd n (fun i => x i * cztAwk2 W ω α i) r
        * cztKernel n m (fun i => (cztWk2 W ω i)⁻¹) ((n - 1 + k + nfft - r) % nfft)
      = ∑ r ∈ range n, padEnd n (fun i => x i * cztAwk2 W ω α i) r
        * cztKernel n m (fun i => (cztWk2 W ω i)⁻¹) ((n - 1 + k + nfft - r) % nfft) := by
    symm
    apply Finset.sum_subset (range_subset_range.mpr hnn)
    intro r _ hr
    have hr' : ¬ r < n := by simpa using hr
    unfold padEnd
    rw [if_neg hr', zero_mul]
  rw [hsub, Finset.sum_mul]
  apply Finset.sum_congr rfl
  intro r hr
  have hr := mem_range.mp hr
  have hidx : (n - 1 + k + nfft - r) % nfft = n - 1 + k - r := by
    have e : n - 1 + k + nfft - r = (n - 1 + k - r) + nfft := by omega
    rw [e, Nat.add_mod_right, Nat.mod_eq_of_lt (by omega)]
  rw [hidx, cztKernel_at n m _ k r hk hr]
  unfold padEnd cztAwk2 cztWk2
  rw [if_pos hr]
  have key : ∀ d : ℕ, ((d : K) = (k : K) - (r : K) ∨ (d : K) = (r : K) - (k : K)) →
      x r * (W (-(α * (r : K))) * W (ω * ((r * r : ℕ) : K) / ((2 : ℕ) : K)))
        * (W (ω * ((d * d : ℕ) : K) / ((2 : ℕ) : K)))⁻¹ * W (ω * ((k * k : ℕ) : K) / ((2 : ℕ) : K))
      = x r * W (-(α * (r : K))) * W (ω * (r : K) * (k : K)) := by
    intro d hd
    have hb := bluestein_phase hW h2 ω (r : K) (k : K)
    have hdd : ((d * d : ℕ) : K) = ((k : K) - r) * ((k : K) - r) := by
      rw [Nat.cast_mul]
      rcases hd with hd | hd
      · rw [hd]
      · rw [hd]; ring
    rw [hdd]
    simp only [Nat.cast_mul, Nat.cast_ofNat]
    rw [← hb]
    ring
  by_cases h : k < r
  · rw [if_pos h]
    exact key (r - k) (Or.inr (Nat.cast_sub (le_of_lt h)))
  · rw [if_neg h]
    exact key (k - r) (Or.inl (Nat.cast_sub (by omega)))

/-- Integer powers: `W (ω·j) = (W ω)^j`. -/
theorem IsChar.mul_nat {W : K → C} (hW : IsChar W) (ω : K) (j : ℕ) : W (ω * (j : K)) = W ω ^ j := by
  induction j with
  | zero => simp [hW.zero]
  | succ j ih =>
    rw [Nat.cast_succ, mul_add, mul_one, hW.add, ih, pow_succ]

/-- The defining sum only depends on `w = W ω` and `a = W α` (not on the representatives `ω, α`):
this is what makes the principal-branch choice in `w**(k²/2)` harmless. -/
theorem cztSum_congr {W : K → C} (hW : IsChar W) (n : ℕ) (ω ω' α α' : K) (hω : W ω = W ω')
    (hα : W α = W α') (x : ℕ → C) (k : ℕ) :
    cztSum n W ω α x k = cztSum n W ω' α' x k := by
  simp only [cztSum, sumRange_eq]
  apply Finset.sum_congr rfl
  intro i _
  have e1 : W (ω * (i : K) * (k : K)) = W (ω' * (i : K) * (k : K)) := by
    have : ∀ o : K, o * (i : K) * (k : K) = o * ((i * k : ℕ) : K) := by
      intro o; rw [Nat.cast_mul]; ring
    rw [this, this, hW.mul_nat, hW.mul_nat, hω]
  have e2 : W (-(α * (i : K))) = W (-(α' * (i : K))) := by
    rw [← hW.inv, ← hW.inv, hW.mul_nat, hW.mul_nat, hα]
  rw [e1, e2]

/-- **Zoom FFT, one axis**: with `w = E(-(Δ·δ))`, `a = E(u0·δ)`, `shift_k = E(-(u_k·x0))`
(`_compute_shifts_and_weights`) the CZT defining sum times the shift is the Fourier sum
`Σ_i f_i·E(-(u_k·x_i))`, `x_i = x0 + i·δ`, `u_k = u0 + k·Δ`. -/
theorem cztSum_shift_eq_zoomSum {E : K → C} (hE : IsChar E) (n : ℕ) (x0 δ u0 Δ : K)
    (f : ℕ → C) (k : ℕ) :
    cztSum n E (-(Δ * δ)) (u0 * δ) f k * E (-((u0 + (k : K) * Δ) * x0))
      = zoomSum n E x0 δ u0 Δ f k := by
  simp only [cztSum, zoomSum, sumRange_eq]
  rw [Finset.sum_mul]
  apply Finset.sum_congr rfl
  intro i _
  rw [mul_assoc, mul_assoc, ← hE.add, ← hE.add]
  congr 2
  ring

/-- **Zoom FFT, one axis, full pipeline**: `czt(f) * shift` (Bluestein with any
`nfft ≥ n + m - 1`) evaluates the defining Fourier sum on the output grid. -/
theorem zoom_axis_eq_sum {E : K → C} (hE : IsChar E) (h2 : (2 : K) ≠ 0) (n m nfft : ℕ) (hn : 0 < n)
    (hnfft : n + m - 1 ≤ nfft) (x0 δ u0 Δ : K) (f : ℕ → C) (k : ℕ) (hk : k < m) :
    zoomAxis n m nfft E x0 δ u0 Δ f k = zoomSum n E x0 δ u0 Δ f k := by
  unfold zoomAxis
  rw [czt_eq_sum hE h2 n m nfft hn hnfft _ _ f k hk]
  exact cztSum_shift_eq_zoomSum hE n x0 δ u0 Δ f k

/-- `r ↦ E (-r)` is again a character (`exp(-i·r)`); used for the backward transform. -/
theorem IsChar.comp_neg {E : K → C} (hE : IsChar E) : IsChar (fun r => E (-r)) :=
  ⟨fun a b => by show E (-(a + b)) = E (-a) * E (-b); rw [neg_add, hE.add],
   by show E (-0) = 1; rw [neg_zero, hE.zero]⟩

/-- **Zoom FFT, backward, one axis**: `inv_czt(F) * inv_shift` with `inv_w = exp(i·δ·Δ)`,
`inv_a = exp(-i·x0·Δ)`, `inv_shift_j = exp(i·x_j·u0)` is the forward axis with the two grids
swapped and the conjugate character; it evaluates `Σ_k F_k·exp(+i·u_k·x_j)`
(`n` = number of `u` samples, `m` = number of `x` samples). -/
theorem zoom_axis_backward_eq_sum {E : K → C} (hE : IsChar E) (h2 : (2 : K) ≠ 0) (n m nfft : ℕ)
    (hn : 0 < n) (hnfft : n + m - 1 ≤ nfft) (x0 δ u0 Δ : K) (F : ℕ → C) (j : ℕ) (hj : j < m) :
    zoomAxis n m nfft (fun r => E (-r)) u0 Δ x0 δ F j
      = ∑ k ∈ range n, F k * E ((u0 + (k : K) * Δ) * (x0 + (j : K) * δ)) := by
  rw [zoom_axis_eq_sum hE.comp_neg h2 n m nfft hn hnfft u0 Δ x0 δ F j hj]
  simp only [zoomSum, sumRange_eq]
  apply Finset.sum_congr rfl
  intro k _
  congr 2
  ring

end czt

section conv
variable {C : Type} [Field C]

/-- **Convolution theorem** justifying the `circConv` specification: with the DFT specification
`dft` for `fft` (kernel `χ`) and for `ifft` (kernel `χ(-·)`, factor `1/N`), and a *primitive*
`N`-periodic character (`horth`: `Σ_{q<N} χ(q·d) = N` if `N ∣ d`, else `0`),
`ifft(fft y · fft v)[t] = Σ_{r<N} y r · v ((t - r) mod N)`. -/
theorem circ_conv_theorem {N : ℕ} (c : PChar C N) (hN : 0 < N) (hNC : (N : C) ≠ 0)
    (horth : ∀ d : ℤ, ∑ q ∈ range N, c.χ ((q : ℤ) * d) = if (N : ℤ) ∣ d then (N : C) else 0)
    (y v : ℕ → C) (t : ℕ) :
    (N : C)⁻¹ * dft N (fun n => c.χ (-n)) (fun q => dft N c.χ y q * dft N c.χ v q) t
      = circConv N y v t := by
  simp only [dft, circConv, sumRange_eq]
  have hq : ∀ q ∈ range N,
      (∑ p ∈ range N, y p * c.χ ((p : ℤ) * (q : ℤ))) * (∑ s ∈ range N, v s * c.χ ((s : ℤ) * (q : ℤ)))
        * c.χ (-((q : ℤ) * (t : ℤ)))
      = ∑ p ∈ range N, ∑ s ∈ range N, y p * v s * c.χ ((q : ℤ) * ((p : ℤ) + s - t)) := by
    intro q _
    rw [Finset.sum_mul_sum, Finset.sum_mul]
    apply Finset.sum_congr rfl; intro p _
    rw [Finset.sum_mul]
    apply Finset.sum_congr rfl; intro s _
    have : (q : ℤ) * ((p : ℤ) + s - t) = (p : ℤ) * q + ((s : ℤ) * q + -((q : ℤ) * t)) := by ring
    rw [this, c.add, c.add]; ring
  rw [Finset.sum_congr rfl hq, Finset.sum_comm]
  have hp : ∀ p ∈ range N,
      ∑ q ∈ range N, ∑ s ∈ range N, y p * v s * c.χ ((q : ℤ) * ((p : ℤ) + s - t))
        = y p * v ((t + N - p) % N) * (N : C) := by
    intro p hp
    have hpN := mem_range.mp hp
    rw [Finset.sum_comm]
    have hs : ∀ s ∈ range N, ∑ q ∈ range N, y p * v s * c.χ ((q : ℤ) * ((p : ℤ) + s - t))
        = y p * v s * (if (N : ℤ) ∣ ((p : ℤ) + s - t) then (N : C) else 0) := by
      intro s _; rw [← Finset.mul_sum, horth]
    rw [Finset.sum_congr rfl hs]
    have hdiv : (N : ℤ) ∣ ((p : ℤ) + ((t + N - p) % N : ℕ) - t) := by
      have h' : N * ((t + N - p) / N) + (t + N - p) % N + p = t + N := by
        have := Nat.div_add_mod (t + N - p) N; omega
      have hz : (N : ℤ) * (((t + N - p) / N : ℕ) : ℤ) + (((t + N - p) % N : ℕ) : ℤ) + p = t + N := by
        exact_mod_cast h'
      exact ⟨1 - (((t + N - p) / N : ℕ) : ℤ), by linear_combination hz⟩
    rw [Finset.sum_eq_single ((t + N - p) % N)]
    · rw [if_pos hdiv]
    · intro s hs hne
      have hsN := mem_range.mp hs
      rw [if_neg, mul_zero]
      intro hdvd
      apply hne
      have hlt : (t + N - p) % N < N := Nat.mod_lt _ hN
      have hd : (N : ℤ) ∣ ((s : ℤ) - ((t + N - p) % N : ℕ)) := by
        have := Int.dvd_sub hdvd hdiv
        have e : ((p : ℤ) + s - t) - ((p : ℤ) + ((t + N - p) % N : ℕ) - t)
            = (s : ℤ) - ((t + N - p) % N : ℕ) := by ring
        rwa [e] at this
      have h0 := Int.eq_zero_of_abs_lt_dvd hd (by rw [abs_lt]; constructor <;> omega)
      omega
    · intro h; exact absurd (mem_range.mpr (Nat.mod_lt _ hN)) h
  rw [Finset.sum_congr rfl hp, ← Finset.sum_mul]
  field_simp

/-- Bluestein's identity with `fft`/`ifft` given by their DFT specification (primitive
`nfft`-periodic kernel) rather than by the circular-convolution specification. -/
theorem czt_fft_eq_sum {K : Type} [Field K] {W : K → C} (hW : IsChar W) (h2 : (2 : K) ≠ 0)
    (n m nfft : ℕ) (hn : 0 < n) (hnfft : n + m - 1 ≤ nfft) (c : PChar C nfft)
    (hNC : (nfft : C) ≠ 0)
    (horth : ∀ d : ℤ, ∑ q ∈ range nfft, c.χ ((q : ℤ) * d) = if (nfft : ℤ) ∣ d then (nfft : C) else 0)
    (ω α : K) (x : ℕ → C) (k : ℕ) (hk : k < m) :
    cztBluesteinFft n m nfft c.χ W ω α x k = cztSum n W ω α x k := by
  rw [← czt_eq_sum hW h2 n m nfft hn hnfft ω α x k hk]
  unfold cztBluesteinFft cztBluestein
  rw [circ_conv_theorem c (by omega) hNC horth]

end conv

end HcipyVerif.Fft

