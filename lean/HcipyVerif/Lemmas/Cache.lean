import HcipyVerif.Model.Cache
import Mathlib.Data.Finset.Card
import Mathlib.Data.Nat.Pairing
import Mathlib.Data.Finset.Basic
import Mathlib.Data.Finset.Lattice.Lemmas

/-! Helper lemmas and invariants for the instance-cache model (C05). -/

set_option linter.unusedSimpArgs false
set_option linter.unusedVariables false

namespace HcipyVerif.Cache

/-! ### Invariants -/

/-- The declared dependencies of the element are truthful: two requests with the same request key
lead to the same instance key.  It holds for every element that is wavelength dependent or not
grid dependent (`truthful_of_deps`), i.e. for every shipped element; for a grid-dependent,
wavelength-independent element it says that the grid functions ignore the wavelength. -/
def Truthful (e : Elem) : Prop :=
  ∀ ver i o w i2 o2 w2 k, reqKey e i o w = some k → reqKey e i2 o2 w2 = some k →
    fullKey e ver i o w = fullKey e ver i2 o2 w2

/-- Soundness of the cache: every entry `(k, v)` holds an instance of the current parameter
version, and every request whose key is `k` must be answered by an instance made for `v.key`. -/
def Sound (e : Elem) (s : St) : Prop :=
  ∀ p ∈ s.cache, p.2.ver = s.ver ∧
    ∀ i o w, reqKey e i o w = some p.1 → fullKey e s.ver i o w = some p.2.key

/-- Accounting: `_num_in_cache` is the number of distinct live instance objects, it never exceeds
`max_in_cache`, and identities are fresh. -/
def Acc (e : Elem) (s : St) : Prop :=
  s.num = (s.cache.map (·.2.id)).toFinset.card ∧ s.num ≤ e.maxN ∧ ∀ p ∈ s.cache, p.2.id < s.next

/-- First entries appear in creation order: the list of identities is built by appending either an
identity that is already present (an alias) or one larger than all present (a new instance). -/
inductive FirstSorted : List Nat → Prop
  | nil : FirstSorted []
  | old (l : List Nat) (x : Nat) : FirstSorted l → x ∈ l → FirstSorted (l ++ [x])
  | new (l : List Nat) (x : Nat) : FirstSorted l → (∀ y ∈ l, y < x) → FirstSorted (l ++ [x])

/-- The dict is ordered oldest instance first. -/
def Fifo (s : St) : Prop := FirstSorted (s.cache.map (·.2.id))

/-! ### Lists / dict operations -/

theorem lookup_mem {cache : List (Key × Inst)} {k : Key} {v : Inst} (h : lookup cache k = some v) :
    (k, v) ∈ cache := by
  unfold lookup at h
  cases hf : cache.find? (fun p => decide (p.1 = k)) with
  | none => simp [hf] at h
  | some p =>
    simp [hf] at h
    have hm := List.mem_of_find?_eq_some hf
    have hp := List.find?_some hf
    simp at hp
    cases p with
    | mk a b => simp at hp h; subst hp; subst h; exact hm

theorem lookup_none {cache : List (Key × Inst)} {k : Key} (h : lookup cache k = none) :
    ∀ p ∈ cache, p.1 ≠ k := by
  unfold lookup at h
  simp only [Option.map_eq_none_iff] at h
  intro p hp
  have := List.find?_eq_none.mp h p hp
  simpa using this

theorem assign_of_lookup_none {cache : List (Key × Inst)} {k : Key} (v : Inst)
    (h : lookup cache k = none) : assign cache k v = cache ++ [(k, v)] := by
  unfold assign
  have hn := lookup_none h
  have : cache.any (fun p => decide (p.1 = k)) = false := by
    simp only [List.any_eq_false]
    intro p hp
    simpa using hn p hp
  simp [this]

theorem lookup_append_none {cache : List (Key × Inst)} {k k' : Key} (v : Inst)
    (h : lookup cache k = none) (hk : k' ≠ k) : lookup (cache ++ [(k', v)]) k = none := by
  unfold lookup at *
  simp only [Option.map_eq_none_iff] at *
  rw [List.find?_append, h]
  simp [hk]

/-- Registration of a new instance under `[full key, request key]` when neither is present. -/
theorem register_eq {c : List (Key × Inst)} {k1 k2 : Key} (inst : Inst)
    (h1 : lookup c k1 = none) (h2 : lookup c k2 = none) :
    [k2, k1].foldl (fun c k => assign c k inst) c
      = c ++ (if k1 = k2 then [(k2, inst)] else [(k2, inst), (k1, inst)]) := by
  simp only [List.foldl_cons, List.foldl_nil]
  rw [assign_of_lookup_none inst h2]
  by_cases hk : k1 = k2
  · subst hk
    simp only [if_true]
    unfold assign
    have hn := lookup_none h1
    have hany : (c ++ [(k1, inst)]).any (fun p => decide (p.1 = k1)) = true := by simp
    rw [if_pos hany]
    rw [List.map_append]
    congr 1
    · conv => rhs; rw [← List.map_id c]
      apply List.map_congr_left
      intro p hp
      have := hn p hp
      simp [this]
    · simp
  · simp only [if_neg hk]
    have h1' : lookup (c ++ [(k2, inst)]) k1 = none := lookup_append_none inst h1 (Ne.symm hk)
    rw [assign_of_lookup_none inst h1']
    simp

/-! ### Keys -/

theorem resolve_idem (e : Elem) (ver : Nat) (i o : Option GridId) (w : Option WlKey) :
    resolve e ver (resolve e ver i o w).1 (resolve e ver i o w).2 w = resolve e ver i o w := by
  cases i with
  | none =>
    cases o with
    | none => simp [resolve]
    | some b =>
      cases h : e.getIn ver w b <;> simp [resolve, h]
  | some a =>
    cases o with
    | none =>
      cases h : e.getOut ver w a <;> simp [resolve, h]
    | some b => simp [resolve]

theorem fullKey_idem (e : Elem) (ver : Nat) (i o : Option GridId) (w : Option WlKey) :
    fullKey e ver (resolve e ver i o w).1 (resolve e ver i o w).2 w = fullKey e ver i o w := by
  unfold fullKey
  rw [resolve_idem]

/-- The second `_get_cache_keys` call cannot raise when the first did not. -/
theorem fullKey_isSome_of_reqKey {e : Elem} {i o : Option GridId} {w : Option WlKey} {k : Key}
    (ver : Nat) (h : reqKey e i o w = some k) : ∃ k2, fullKey e ver i o w = some k2 := by
  unfold fullKey
  unfold reqKey at *
  cases hg : e.gridDep <;> cases hw : e.wlDep <;> cases w <;> cases i <;> cases o <;>
    simp_all [resolve]

/-- For a grid- and wavelength-dependent element the request key *is* the request. -/
theorem reqKey_eq_of_deps {e : Elem} {i o : Option GridId} {w : Option WlKey} {k : Key}
    (hg : e.gridDep = true) (hw : e.wlDep = true) (h : reqKey e i o w = some k) :
    k.i = i ∧ k.o = o ∧ k.w = w := by
  unfold reqKey at h
  simp only [hg, hw, if_true] at h
  cases w <;> cases i <;> cases o <;> simp at h <;> (subst h; exact ⟨rfl, rfl, rfl⟩)

/-- Every element that is wavelength dependent, or not grid dependent, is truthful. -/
theorem truthful_of_deps (e : Elem) (h : e.wlDep = true ∨ e.gridDep = false) : Truthful e := by
  intro ver i o w i2 o2 w2 k h1 h2
  cases hg : e.gridDep with
  | false =>
    -- the key never mentions a grid
    unfold fullKey
    unfold reqKey at *
    simp only [hg] at *
    cases hw : e.wlDep <;> cases w <;> cases w2 <;> simp_all
  | true =>
    have hw : e.wlDep = true := by
      rcases h with h | h
      · exact h
      · rw [hg] at h; cases h
    -- the request key determines the request
    obtain ⟨a1, b1, c1⟩ := reqKey_eq_of_deps hg hw h1
    obtain ⟨a2, b2, c2⟩ := reqKey_eq_of_deps hg hw h2
    subst a1 b1 c1
    rw [← a2, ← b2, ← c2]

/-! ### Eviction -/

theorem evict_ok {e : Elem} {s s' : St} (h : evict e s = .ok s') :
    s'.ver = s.ver ∧ s'.next = s.next ∧ (∀ p ∈ s'.cache, p ∈ s.cache) := by
  unfold evict at h
  split at h
  · split at h
    · cases h
    · rename_i k0 v0 rest hc
      cases h
      refine ⟨rfl, rfl, ?_⟩
      intro p hp
      rw [hc]
      exact List.mem_cons_of_mem _ (List.mem_of_mem_filter hp)
  · cases h
    exact ⟨rfl, rfl, fun p hp => hp⟩

theorem ids_filter_erase (v : Nat) (rest : List (Key × Inst)) :
    ((rest.filter (fun p => p.2.id != v)).map (·.2.id)).toFinset
      = ((rest.map (·.2.id)).toFinset).erase v := by
  ext x
  simp only [List.mem_toFinset, List.mem_map, List.mem_filter, Finset.mem_erase]
  constructor
  · rintro ⟨p, ⟨hp, hne⟩, rfl⟩
    exact ⟨by simpa using hne, p, hp, rfl⟩
  · rintro ⟨hne, p, hp, rfl⟩
    exact ⟨p, ⟨hp, by simpa using hne⟩, rfl⟩

/-- With the accounting invariant (and `max_in_cache ≥ 1`) eviction never meets an empty dict, and
it leaves room for one more instance. -/
theorem evict_acc {e : Elem} {s : St} (hmax : 1 ≤ e.maxN) (ha : Acc e s) :
    ∃ s', evict e s = .ok s' ∧ Acc e s' ∧ s'.num < e.maxN := by
  obtain ⟨hnum, hle, hid⟩ := ha
  unfold evict
  by_cases hfull : s.num = e.maxN
  · rw [if_pos hfull]
    cases hc : s.cache with
    | nil =>
      rw [hc] at hnum
      simp at hnum
      omega
    | cons p rest =>
      obtain ⟨k0, v0⟩ := p
      refine ⟨_, rfl, ⟨?_, ?_, ?_⟩, ?_⟩
      · show s.num - 1 = _
        rw [ids_filter_erase]
        rw [hc] at hnum
        simp only [List.map_cons, List.toFinset_cons] at hnum
        by_cases hmem : v0.id ∈ (rest.map (·.2.id)).toFinset
        · rw [Finset.insert_eq_of_mem hmem] at hnum
          rw [Finset.card_erase_of_mem hmem, hnum]
        · rw [Finset.card_insert_of_notMem hmem] at hnum
          rw [Finset.erase_eq_of_notMem hmem, hnum]
          simp
      · show s.num - 1 ≤ e.maxN
        omega
      · intro p hp
        apply hid
        rw [hc]
        exact List.mem_cons_of_mem _ (List.mem_of_mem_filter hp)
      · show s.num - 1 < e.maxN
        omega
  · rw [if_neg hfull]
    exact ⟨s, rfl, ⟨hnum, hle, hid⟩, by omega⟩

/-! ### One request -/

/-- Case analysis of `get_instance_data` (repaired). -/
theorem getInstanceDataHow_cases {e : Elem} {s s' : St} {i o : Option GridId} {w : Option WlKey}
    {v : Inst} {how : How} (h : getInstanceDataHow e s i o w = .ok (s', v, how)) :
    ∃ k1 k2, reqKey e i o w = some k1 ∧ fullKey e s.ver i o w = some k2 ∧
      ((how = .hitRequest ∧ s' = s ∧ lookup s.cache k1 = some v) ∨
       (how = .hitFull ∧ lookup s.cache k1 = none ∧ lookup s.cache k2 = some v ∧
          s' = { s with cache := s.cache ++ [(k1, v)] }) ∨
       (how = .created ∧ lookup s.cache k1 = none ∧ lookup s.cache k2 = none ∧
          v = ⟨k2, s.ver, s.next⟩ ∧
          ∃ se, evict e s = .ok se ∧
            s' = { se with
                   cache := se.cache ++ (if k1 = k2 then [(k2, v)] else [(k2, v), (k1, v)]),
                   num := se.num + 1, next := s.next + 1 })) := by
  unfold getInstanceDataHow at h
  split at h
  · cases h
  · rename_i k1 hk1
    obtain ⟨k2', hk2'⟩ := fullKey_isSome_of_reqKey s.ver hk1
    split at h
    · rename_i v1 hl1
      cases h
      exact ⟨k1, k2', hk1, hk2', Or.inl ⟨rfl, rfl, hl1⟩⟩
    · rename_i hl1
      split at h
      · cases h
      · rename_i k2 hk2
        split at h
        · rename_i v2 hl2
          cases h
          refine ⟨k1, k2, hk1, hk2, Or.inr (Or.inl ⟨rfl, hl1, hl2, ?_⟩)⟩
          rw [assign_of_lookup_none _ hl1]
        · rename_i hl2
          unfold addToCache at h
          split at h
          · cases h
          · rename_i se hev
            simp only at h
            cases h
            refine ⟨k1, k2, hk1, hk2, Or.inr (Or.inr ⟨rfl, hl1, hl2, rfl, se, hev, ?_⟩)⟩
            obtain ⟨_, _, hsub⟩ := evict_ok hev
            have h1 : lookup se.cache k1 = none := by
              unfold lookup; simp only [Option.map_eq_none_iff]
              apply List.find?_eq_none.mpr
              intro p hp
              have := lookup_none hl1 p (hsub p hp)
              simpa using this
            have h2 : lookup se.cache k2 = none := by
              unfold lookup; simp only [Option.map_eq_none_iff]
              apply List.find?_eq_none.mpr
              intro p hp
              have := lookup_none hl2 p (hsub p hp)
              simpa using this
            rw [register_eq _ h1 h2]

/-- The request fails exactly when `_get_cache_keys` raises for the request itself, provided the
accounting invariant holds (no `KeyError`). -/
theorem getInstanceDataHow_total {e : Elem} {s : St} (hmax : 1 ≤ e.maxN) (ha : Acc e s)
    (i o : Option GridId) (w : Option WlKey) :
    (reqKey e i o w = none ∧ getInstanceDataHow e s i o w = .error .value) ∨
    (∃ r, getInstanceDataHow e s i o w = .ok r) := by
  unfold getInstanceDataHow
  cases hk1 : reqKey e i o w with
  | none => left; exact ⟨rfl, rfl⟩
  | some k1 =>
    right
    simp only
    cases hl1 : lookup s.cache k1 with
    | some v => exact ⟨_, rfl⟩
    | none =>
      obtain ⟨k2, hk2⟩ := fullKey_isSome_of_reqKey s.ver hk1
      simp only [hk2]
      cases hl2 : lookup s.cache k2 with
      | some v => exact ⟨_, rfl⟩
      | none =>
        obtain ⟨se, hev, _, _⟩ := evict_acc hmax ha
        simp only [addToCache, hev]
        exact ⟨_, rfl⟩

/-- **Soundness step**: whatever eviction removes, the instance handed out was made for the key
this request resolves to, with the current parameters, and the cache stays sound. -/
theorem getInstanceDataHow_sound {e : Elem} (hT : Truthful e) {s s' : St}
    {i o : Option GridId} {w : Option WlKey} {v : Inst} {how : How} (hs : Sound e s)
    (h : getInstanceDataHow e s i o w = .ok (s', v, how)) :
    fullKey e s.ver i o w = some v.key ∧ v.ver = s.ver ∧ s'.ver = s.ver ∧ Sound e s' := by
  obtain ⟨k1, k2, hk1, hk2, hcase⟩ := getInstanceDataHow_cases h
  -- the resolved request has request key k2 and resolves to k2
  have hk2req : reqKey e (resolve e s.ver i o w).1 (resolve e s.ver i o w).2 w = some k2 := hk2
  have hk2full : fullKey e s.ver (resolve e s.ver i o w).1 (resolve e s.ver i o w).2 w = some k2 := by
    rw [fullKey_idem]; exact hk2
  rcases hcase with ⟨_, rfl, hl⟩ | ⟨_, hl1, hl2, rfl⟩ | ⟨_, hl1, hl2, rfl, se, hev, rfl⟩
  · have hm := lookup_mem hl
    obtain ⟨hv, hreq⟩ := hs _ hm
    exact ⟨hreq i o w hk1, hv, rfl, hs⟩
  · have hm := lookup_mem hl2
    obtain ⟨hv, hreq⟩ := hs _ hm
    have hvk : some k2 = some v.key := by
      rw [← hk2full]; exact hreq _ _ _ hk2req
    have hvk' : v.key = k2 := by simpa using hvk.symm
    refine ⟨by rw [hk2, hvk'], hv, rfl, ?_⟩
    intro p hp
    simp only [List.mem_append, List.mem_singleton] at hp
    rcases hp with hp | rfl
    · exact hs p hp
    · refine ⟨hv, ?_⟩
      intro i' o' w' hreq'
      show fullKey e s.ver i' o' w' = some v.key
      rw [hT s.ver i' o' w' i o w k1 hreq' hk1, hk2, hvk']
  · obtain ⟨hver, hnext, hsub⟩ := evict_ok hev
    refine ⟨hk2, rfl, hver, ?_⟩
    intro p hp
    simp only [List.mem_append] at hp
    show p.2.ver = se.ver ∧ ∀ i' o' w', reqKey e i' o' w' = some p.1 →
      fullKey e se.ver i' o' w' = some p.2.key
    rw [hver]
    rcases hp with hp | hp
    · exact hs p (hsub p hp)
    · have hp' : p = (k2, ⟨k2, s.ver, s.next⟩) ∨ p = (k1, ⟨k2, s.ver, s.next⟩) := by
        split at hp
        · simp at hp; left; exact hp
        · simp at hp; exact hp
      rcases hp' with rfl | rfl
      · refine ⟨rfl, ?_⟩
        intro i' o' w' hreq'
        show fullKey e s.ver i' o' w' = some k2
        rw [hT s.ver i' o' w' _ _ w k2 hreq' hk2req, hk2full]
      · refine ⟨rfl, ?_⟩
        intro i' o' w' hreq'
        show fullKey e s.ver i' o' w' = some k2
        rw [hT s.ver i' o' w' i o w k1 hreq' hk1, hk2]

/-- **Accounting step**. -/
theorem getInstanceDataHow_acc {e : Elem} (hmax : 1 ≤ e.maxN) {s s' : St}
    {i o : Option GridId} {w : Option WlKey} {v : Inst} {how : How} (ha : Acc e s)
    (h : getInstanceDataHow e s i o w = .ok (s', v, how)) : Acc e s' := by
  obtain ⟨k1, k2, hk1, hk2, hcase⟩ := getInstanceDataHow_cases h
  rcases hcase with ⟨_, rfl, hl⟩ | ⟨_, hl1, hl2, rfl⟩ | ⟨_, hl1, hl2, rfl, se, hev, rfl⟩
  · exact ha
  · obtain ⟨hnum, hle, hid⟩ := ha
    have hm := lookup_mem hl2
    refine ⟨?_, hle, ?_⟩
    · show s.num = _
      rw [hnum]
      congr 1
      simp only [List.map_append, List.toFinset_append, List.map_cons, List.map_nil,
        List.toFinset_cons, List.toFinset_nil]
      have : v.id ∈ (s.cache.map (·.2.id)).toFinset := by
        simp only [List.mem_toFinset, List.mem_map]
        exact ⟨(k2, v), hm, rfl⟩
      simp [Finset.union_eq_left.mpr, this]
    · intro p hp
      simp only [List.mem_append, List.mem_singleton] at hp
      rcases hp with hp | rfl
      · exact hid p hp
      · exact hid (k2, v) hm
  · obtain ⟨se', hev', ⟨hnum, hle, hid⟩, hlt⟩ := evict_acc hmax ha
    rw [hev] at hev'
    cases hev'
    obtain ⟨hver, hnext, hsub⟩ := evict_ok hev
    have hfresh : s.next ∉ (se.cache.map (·.2.id)).toFinset := by
      simp only [List.mem_toFinset, List.mem_map, not_exists, not_and]
      intro p hp hpe
      have := hid p hp
      rw [hnext] at this
      omega
    refine ⟨?_, ?_, ?_⟩
    · show se.num + 1 = _
      rw [hnum, ← Finset.card_insert_of_notMem hfresh]
      congr 1
      by_cases hk : k1 = k2
      · simp [hk, List.toFinset_append, Finset.union_comm]
      · simp [hk, List.toFinset_append, Finset.union_comm]
    · show se.num + 1 ≤ e.maxN
      omega
    · intro p hp
      show p.2.id < s.next + 1
      simp only [List.mem_append] at hp
      rcases hp with hp | hp
      · have := hid p hp
        rw [hnext] at this
        omega
      · have : p.2.id = s.next := by
          split at hp
          · simp at hp; rw [hp]
          · simp at hp; rcases hp with rfl | rfl <;> rfl
        omega

/-! ### FIFO order -/

theorem FirstSorted.head_le {l : List Nat} (h : FirstSorted l) :
    ∀ x t, l = x :: t → ∀ y ∈ l, x ≤ y := by
  induction h with
  | nil => intro x t hl; cases hl
  | old l z hfs hz ih =>
    intro x t hl y hy
    cases l with
    | nil => cases hz
    | cons a l' =>
      simp only [List.cons_append, List.cons.injEq] at hl
      obtain ⟨rfl, _⟩ := hl
      have := ih a l' rfl
      simp only [List.mem_append, List.mem_singleton] at hy
      rcases hy with hy | rfl
      · exact this y hy
      · exact this y hz
  | new l z hfs hz ih =>
    intro x t hl y hy
    cases l with
    | nil =>
      simp at hl
      obtain ⟨rfl, _⟩ := hl
      simp at hy; omega
    | cons a l' =>
      simp only [List.cons_append, List.cons.injEq] at hl
      obtain ⟨rfl, _⟩ := hl
      have := ih a l' rfl
      simp only [List.mem_append, List.mem_singleton] at hy
      rcases hy with hy | rfl
      · exact this y hy
      · exact Nat.le_of_lt (hz a (by simp))

theorem FirstSorted.filter_ne {l : List Nat} (h : FirstSorted l) (z : Nat) :
    FirstSorted (l.filter (fun y => y != z)) := by
  induction h with
  | nil => exact .nil
  | old l x hfs hx ih =>
    rw [List.filter_append]
    by_cases hxz : x = z
    · subst hxz; simpa using ih
    · have : [x].filter (fun y => y != z) = [x] := by simp [hxz]
      rw [this]
      exact .old _ _ ih (by simp [List.mem_filter, hx, hxz])
  | new l x hfs hx ih =>
    rw [List.filter_append]
    by_cases hxz : x = z
    · subst hxz; simpa using ih
    · have : [x].filter (fun y => y != z) = [x] := by simp [hxz]
      rw [this]
      exact .new _ _ ih (fun y hy => hx y (List.mem_of_mem_filter hy))

theorem map_filter_id (v : Nat) (rest : List (Key × Inst)) :
    (rest.filter (fun p => p.2.id != v)).map (·.2.id)
      = (rest.map (·.2.id)).filter (fun y => y != v) := by
  induction rest with
  | nil => rfl
  | cons p rest ih =>
    by_cases h : p.2.id = v <;> simp [List.filter_cons, h, ih]

theorem evict_fifo {e : Elem} {s s' : St} (hf : Fifo s) (h : evict e s = .ok s') : Fifo s' := by
  unfold evict at h
  split at h
  · split at h
    · cases h
    · rename_i k0 v0 rest hc
      cases h
      show FirstSorted ((rest.filter (fun p => p.2.id != v0.id)).map (·.2.id))
      have : FirstSorted ((s.cache.map (·.2.id)).filter (fun y => y != v0.id)) := hf.filter_ne v0.id
      rw [hc] at this
      simpa [map_filter_id] using this
  · cases h; exact hf

/-- **FIFO step**: requests keep the dict ordered oldest instance first. -/
theorem getInstanceDataHow_fifo {e : Elem} {s s' : St}
    {i o : Option GridId} {w : Option WlKey} {v : Inst} {how : How} (ha : Acc e s) (hf : Fifo s)
    (h : getInstanceDataHow e s i o w = .ok (s', v, how)) : Fifo s' := by
  obtain ⟨k1, k2, hk1, hk2, hcase⟩ := getInstanceDataHow_cases h
  rcases hcase with ⟨_, rfl, hl⟩ | ⟨_, hl1, hl2, rfl⟩ | ⟨_, hl1, hl2, rfl, se, hev, rfl⟩
  · exact hf
  · show FirstSorted ((s.cache ++ [(k1, v)]).map (·.2.id))
    rw [List.map_append]
    exact .old _ _ hf (List.mem_map.mpr ⟨(k2, v), lookup_mem hl2, rfl⟩)
  · have hfe := evict_fifo hf hev
    obtain ⟨hver, hnext, hsub⟩ := evict_ok hev
    have hlt : ∀ y ∈ se.cache.map (·.2.id), y < s.next := by
      intro y hy
      obtain ⟨p, hp, rfl⟩ := List.mem_map.mp hy
      exact ha.2.2 p (hsub p hp)
    show FirstSorted ((se.cache ++ _).map (·.2.id))
    rw [List.map_append]
    by_cases hk : k1 = k2
    · simp only [hk, if_true, List.map_cons, List.map_nil]
      exact .new _ _ hfe hlt
    · simp only [hk, if_false, List.map_cons, List.map_nil]
      have : se.cache.map (·.2.id) ++ [s.next, s.next] = (se.cache.map (·.2.id) ++ [s.next]) ++ [s.next] := by simp
      rw [this]
      exact .old _ _ (.new _ _ hfe hlt) (by simp)

/-! ### `step` -/

theorem step_req_ok {e : Elem} {s s' : St} {i o : Option GridId} {w : Option WlKey} {v : Inst}
    (h : getInstanceData e s i o w = .ok (s', v)) :
    step e s (.req i o w) = (s', .inst v.key v.ver) := by
  simp only [step, h]

theorem step_req_err {e : Elem} {s : St} {i o : Option GridId} {w : Option WlKey} {err : Err}
    (h : getInstanceData e s i o w = .error err) :
    step e s (.req i o w) = (s, .error err) := by
  simp only [step, h]

theorem getInstanceData_ok_iff {e : Elem} {s s' : St} {i o : Option GridId} {w : Option WlKey}
    {v : Inst} :
    getInstanceData e s i o w = .ok (s', v) ↔ ∃ how, getInstanceDataHow e s i o w = .ok (s', v, how) := by
  unfold getInstanceData
  constructor
  · intro h
    split at h
    · cases h
    · rename_i s1 v1 how heq
      cases h
      exact ⟨how, heq⟩
  · rintro ⟨how, h⟩
    rw [h]


/-! ### Objects with hidden state, generically -/

/-- Calls on one shared object, threading its hidden state. -/
def runObj {σ X Y : Type} (call : σ → X → σ × Y) : σ → List X → List Y
  | _, [] => []
  | s, x :: xs => (call s x).2 :: runObj call (call s x).1 xs

/-- History independence of an object with hidden state: if some invariant `Ok` is kept by every call
and under it a call answers what a fresh object answers, then every history is answered call by call
as by fresh objects.  (Helper; used for the zoom FFT.) -/
theorem hidden_state_history_transparent {σ X Y : Type} (call : σ → X → σ × Y) (Ok : σ → Prop)
    (fresh : σ) (h : ∀ s x, Ok s → Ok (call s x).1 ∧ (call s x).2 = (call fresh x).2) (xs : List X) :
    ∀ s, Ok s → runObj call s xs = xs.map (fun x => (call fresh x).2) := by
  induction xs with
  | nil => intro s _; rfl
  | cons x xs ih =>
    intro s hs
    obtain ⟨h1, h2⟩ := h s x hs
    simp only [runObj, List.map_cons]
    rw [h2, ih _ h1]

/-! ### The pairing behind `gridKey` -/

theorem pair_eq_natPair (a b : Nat) : pair a b = Nat.pair a b := rfl

theorem pair_injective {a b c d : Nat} (h : pair a b = pair c d) : a = c ∧ b = d := by
  rw [pair_eq_natPair, pair_eq_natPair] at h
  exact Nat.pair_eq_pair.mp h

theorem gridKey_injective {g1 g2 : Grid} (h : gridKey g1 = gridKey g2) : g1 = g2 := by
  cases g1; cases g2
  obtain ⟨h1, h2⟩ := pair_injective h
  simp_all

end HcipyVerif.Cache
