import Mathlib.Analysis.SpecialFunctions.Log.Basic
import Mathlib.Algebra.Order.Round
import Mathlib.Tactic.Linarith
import Mathlib.Tactic.NormNum
import Mathlib.Data.Rat.Cast.Order
import HcipyVerif.Model.Cache

/-!
# The wavelength part of an instance-cache key, over ℝ

`AgnosticOpticalElement._get_cache_keys` computes
`wavelength_key = int(np.round(np.log(wavelength) / np.log(1 + 1e-9)))`.
The model is `wlKey r b lam = r (log lam / log b)` where `b` is the base (`1 + 1e-9`; the code uses the
*double* nearest to it, hence the theorems are proved for every base in
`[1 + 1e-9/2, 1 + 2e-9]`) and `r : ℝ → ℤ` is any round-to-nearest function (`np.round` breaks ties to
even, Mathlib's `round` breaks them upwards; both satisfy `Nearest`).
-/

set_option linter.unusedSimpArgs false
set_option linter.unusedVariables false

namespace HcipyVerif.WavelengthKey
open Real

/-- `r` returns a nearest integer (any tie-breaking rule). -/
def Nearest (r : ℝ → ℤ) : Prop := ∀ x : ℝ, |x - (r x : ℝ)| ≤ 1 / 2

theorem nearest_round : Nearest (round : ℝ → ℤ) := fun x => abs_sub_round x

/-- `int(round(log(wavelength) / log(base)))`. -/
noncomputable def wlKey (r : ℝ → ℤ) (b lam : ℝ) : ℤ := r (Real.log lam / Real.log b)

/-- Admissible bases: within a factor two of `1e-9` above one (the exact `1 + 1e-9` and its double). -/
def BaseOk (b : ℝ) : Prop := 1 + 1 / (2 * 10 ^ 9) ≤ b ∧ b ≤ 1 + 2 / 10 ^ 9

theorem baseOk_exact : BaseOk (1 + 1 / 10 ^ 9) := by
  constructor <;> norm_num

/-- The double nearest to `1 + 1e-9`, `1 + 4503600·2⁻⁵²`, is an admissible base. -/
theorem base_double_ok : BaseOk (1 + 4503600 / 2 ^ 52) := by
  constructor <;> norm_num

theorem log_base_pos {b : ℝ} (hb : BaseOk b) : 0 < Real.log b :=
  Real.log_pos (by have := hb.1; norm_num at this ⊢; linarith)

theorem log_base_le {b : ℝ} (hb : BaseOk b) : Real.log b ≤ 2 / 10 ^ 9 := by
  have hpos : 0 < b := by have := hb.1; norm_num at this; linarith
  have := Real.log_le_sub_one_of_pos hpos
  linarith [hb.2]

theorem log_base_ge {b : ℝ} (hb : BaseOk b) : 4 / 10 ^ 10 ≤ Real.log b := by
  have hpos : 0 < b := by have := hb.1; norm_num at this; linarith
  have h1 := Real.one_sub_inv_le_log_of_pos hpos
  have hb1 : (1 + 1 / (2 * 10 ^ 9) : ℝ) ≤ b := hb.1
  have hinv : b⁻¹ ≤ (1 + 1 / (2 * 10 ^ 9) : ℝ)⁻¹ := inv_anti₀ (by norm_num) hb1
  have : (1 : ℝ) - (1 + 1 / (2 * 10 ^ 9))⁻¹ ≥ 4 / 10 ^ 10 := by norm_num
  linarith

/-- Rounded values of two reals differ by at least their distance minus one. -/
theorem nearest_sub_ge {r : ℝ → ℤ} (hr : Nearest r) (x y : ℝ) :
    y - x - 1 ≤ ((r y : ℝ) - (r x : ℝ)) := by
  have hx := abs_le.mp (hr x)
  have hy := abs_le.mp (hr y)
  linarith [hx.1, hx.2, hy.1, hy.2]

theorem nearest_sub_le {r : ℝ → ℤ} (hr : Nearest r) (x y : ℝ) :
    ((r y : ℝ) - (r x : ℝ)) ≤ y - x + 1 := by
  have hx := abs_le.mp (hr x)
  have hy := abs_le.mp (hr y)
  linarith [hx.1, hx.2, hy.1, hy.2]

/-- Quotient of logs: the scaled log-distance of two wavelengths. -/
theorem scaled_sub {b l1 l2 : ℝ} (h1 : 0 < l1) (h2 : 0 < l2) :
    Real.log l2 / Real.log b - Real.log l1 / Real.log b = Real.log (l2 / l1) / Real.log b := by
  rw [Real.log_div (ne_of_gt h2) (ne_of_gt h1), sub_div]

/-- **Separation.** Two positive wavelengths at least a relative `1e-6` apart get keys that differ by
at least 498 — in particular different keys, so they never share a cached instance. -/
theorem wavelength_key_separates_base {r : ℝ → ℤ} (hr : Nearest r) {b : ℝ} (hb : BaseOk b)
    {l1 l2 : ℝ} (h1 : 0 < l1) (h : l1 * (1 + 1 / 10 ^ 6) ≤ l2) :
    wlKey r b l1 + 498 ≤ wlKey r b l2 := by
  have h2 : 0 < l2 := lt_of_lt_of_le (by positivity) h
  have hc := log_base_pos hb
  have hcle := log_base_le hb
  -- log (l2 / l1) ≥ log (1 + 1e-6) ≥ 1 - (1 + 1e-6)⁻¹
  have hratio : (1 + 1 / 10 ^ 6 : ℝ) ≤ l2 / l1 := by
    rw [le_div_iff₀ h1]; linarith
  have hlog : Real.log (1 + 1 / 10 ^ 6 : ℝ) ≤ Real.log (l2 / l1) :=
    Real.log_le_log (by norm_num) hratio
  have h6 := Real.one_sub_inv_le_log_of_pos (x := (1 + 1 / 10 ^ 6 : ℝ)) (by norm_num)
  have h6' : (999 : ℝ) * (2 / 10 ^ 9) / 2 ≤ 1 - (1 + 1 / 10 ^ 6 : ℝ)⁻¹ := by norm_num
  -- the scaled distance is at least 499
  have hdist : (499 : ℝ) ≤ Real.log (l2 / l1) / Real.log b := by
    rw [le_div_iff₀ hc]
    nlinarith
  have hsub := nearest_sub_ge hr (Real.log l1 / Real.log b) (Real.log l2 / Real.log b)
  rw [scaled_sub h1 h2] at hsub
  have : ((wlKey r b l1 : ℝ) + 498) ≤ (wlKey r b l2 : ℝ) := by
    unfold wlKey; linarith
  exact_mod_cast this

/-- **Stability.** Wavelengths within a relative `1e-10` of each other get keys that differ by at most
one (the cache coalesces them into the same or into neighbouring entries). -/
theorem wavelength_key_stable_base {r : ℝ → ℤ} (hr : Nearest r) {b : ℝ} (hb : BaseOk b)
    {l1 l2 : ℝ} (h1 : 0 < l1) (hle : l1 ≤ l2) (h : l2 ≤ l1 * (1 + 1 / 10 ^ 10)) :
    |wlKey r b l2 - wlKey r b l1| ≤ 1 := by
  have h2 : 0 < l2 := lt_of_lt_of_le h1 hle
  have hc := log_base_pos hb
  have hcge := log_base_ge hb
  have hratio1 : (1 : ℝ) ≤ l2 / l1 := by rw [le_div_iff₀ h1]; linarith
  have hratio2 : l2 / l1 ≤ (1 + 1 / 10 ^ 10 : ℝ) := by rw [div_le_iff₀ h1]; linarith
  have hpos : 0 < l2 / l1 := by positivity
  have hlog0 : 0 ≤ Real.log (l2 / l1) := Real.log_nonneg hratio1
  have hlog1 : Real.log (l2 / l1) ≤ 1 / 10 ^ 10 := by
    have := Real.log_le_sub_one_of_pos hpos
    linarith
  have hd0 : 0 ≤ Real.log (l2 / l1) / Real.log b := div_nonneg hlog0 (le_of_lt hc)
  have hd1 : Real.log (l2 / l1) / Real.log b ≤ 1 / 4 := by
    rw [div_le_iff₀ hc]
    nlinarith
  have hlo := nearest_sub_ge hr (Real.log l1 / Real.log b) (Real.log l2 / Real.log b)
  have hhi := nearest_sub_le hr (Real.log l1 / Real.log b) (Real.log l2 / Real.log b)
  rw [scaled_sub h1 h2] at hlo hhi
  have hlt : ((wlKey r b l2 : ℝ) - (wlKey r b l1 : ℝ)) < 2 := by unfold wlKey; linarith
  have hgt : (-2 : ℝ) < ((wlKey r b l2 : ℝ) - (wlKey r b l1 : ℝ)) := by unfold wlKey; linarith
  have hlt' : wlKey r b l2 - wlKey r b l1 < 2 := by exact_mod_cast hlt
  have hgt' : -2 < wlKey r b l2 - wlKey r b l1 := by exact_mod_cast hgt
  rw [abs_le]
  constructor <;> omega

/-- **What sharing a key means.** Two positive wavelengths with the same key are within one factor
`base` (relative `1e-9`) of each other. -/
theorem wavelength_key_shared_close_base {r : ℝ → ℤ} (hr : Nearest r) {b : ℝ} (hb : BaseOk b)
    {l1 l2 : ℝ} (h1 : 0 < l1) (h2 : 0 < l2) (h : wlKey r b l1 = wlKey r b l2) :
    l2 ≤ l1 * b := by
  have hc := log_base_pos hb
  have hbpos : 0 < b := by have := hb.1; norm_num at this; linarith
  have hsub := nearest_sub_ge hr (Real.log l1 / Real.log b) (Real.log l2 / Real.log b)
  have hk : (wlKey r b l1 : ℝ) = (wlKey r b l2 : ℝ) := by exact_mod_cast h
  unfold wlKey at hk
  rw [scaled_sub h1 h2] at hsub
  have hd : Real.log (l2 / l1) / Real.log b ≤ 1 := by linarith
  have hl : Real.log (l2 / l1) ≤ Real.log b := by
    rw [div_le_iff₀ hc] at hd; linarith
  have hpos : 0 < l2 / l1 := by positivity
  have : l2 / l1 ≤ b := (Real.log_le_log_iff hpos hbpos).mp hl
  rw [div_le_iff₀ h1] at this
  linarith

/-- **Enclosure of a key difference** over ℝ, from `1 − 1/x ≤ log x ≤ x − 1` only. -/
theorem key_diff_bounds_real {r : ℝ → ℤ} (hr : Nearest r) {b l1 l2 : ℝ} (hb : 1 < b) (h1 : 0 < l1)
    (hle : l1 ≤ l2) :
    (1 - l1 / l2) / (b - 1) - 1 ≤ (wlKey r b l2 : ℝ) - (wlKey r b l1 : ℝ) ∧
      (wlKey r b l2 : ℝ) - (wlKey r b l1 : ℝ) ≤ (l2 / l1 - 1) / (1 - 1 / b) + 1 := by
  have h2 : 0 < l2 := lt_of_lt_of_le h1 hle
  have hbpos : 0 < b := by linarith
  have hc : 0 < Real.log b := Real.log_pos hb
  have hρ : 0 < l2 / l1 := by positivity
  have hlo := Real.one_sub_inv_le_log_of_pos hρ
  rw [inv_div] at hlo
  have hhi := Real.log_le_sub_one_of_pos hρ
  have hblo := Real.one_sub_inv_le_log_of_pos hbpos
  have hbhi := Real.log_le_sub_one_of_pos hbpos
  have hq : l1 / l2 ≤ 1 := (div_le_one h2).mpr hle
  have hρ1 : 1 ≤ l2 / l1 := (one_le_div h1).mpr hle
  have hL0 : 0 ≤ Real.log (l2 / l1) := Real.log_nonneg hρ1
  have hb1 : 0 < b - 1 := by linarith
  have hinv : b⁻¹ < 1 := inv_lt_one_of_one_lt₀ hb
  have hb2 : 0 < 1 - 1 / b := by rw [one_div]; linarith
  have hblo' : 1 - 1 / b ≤ Real.log b := by rw [one_div]; exact hblo
  have lower : (1 - l1 / l2) / (b - 1) ≤ Real.log (l2 / l1) / Real.log b := by
    rw [div_le_div_iff₀ hb1 hc]
    have hA : 0 ≤ 1 - l1 / l2 := by linarith
    nlinarith [mul_le_mul_of_nonneg_left hbhi hA, mul_le_mul_of_nonneg_right hlo (le_of_lt hb1)]
  have upper : Real.log (l2 / l1) / Real.log b ≤ (l2 / l1 - 1) / (1 - 1 / b) := by
    rw [div_le_div_iff₀ hc hb2]
    nlinarith [mul_le_mul_of_nonneg_left hblo' hL0, mul_le_mul_of_nonneg_right hhi (le_of_lt hc)]
  have s1 := nearest_sub_ge hr (Real.log l1 / Real.log b) (Real.log l2 / Real.log b)
  have s2 := nearest_sub_le hr (Real.log l1 / Real.log b) (Real.log l2 / Real.log b)
  rw [scaled_sub h1 h2] at s1 s2
  unfold wlKey
  constructor <;> linarith

open HcipyVerif.Cache in
theorem wlBase_cast : ((wlBase : ℚ) : ℝ) = 1 + 4503600 / 2 ^ 52 := by
  unfold wlBase; push_cast; ring

open HcipyVerif.Cache in
/-- The executed rational bounds enclose the key difference of the ℝ model at the double base. -/
theorem key_diff_bounds_rat {r : ℝ → ℤ} (hr : Nearest r) {l1 l2 : ℚ} (h1 : 0 < l1) (hle : l1 ≤ l2) :
    (((wlKeyDiffBounds l1 l2).1 : ℚ) : ℝ) ≤
        (wlKey r ((wlBase : ℚ) : ℝ) (l2 : ℝ) : ℝ) - (wlKey r ((wlBase : ℚ) : ℝ) (l1 : ℝ) : ℝ) ∧
      (wlKey r ((wlBase : ℚ) : ℝ) (l2 : ℝ) : ℝ) - (wlKey r ((wlBase : ℚ) : ℝ) (l1 : ℝ) : ℝ) ≤
        (((wlKeyDiffBounds l1 l2).2 : ℚ) : ℝ) := by
  have hb : (1 : ℝ) < ((wlBase : ℚ) : ℝ) := by rw [wlBase_cast]; norm_num
  have h1' : (0 : ℝ) < (l1 : ℝ) := by exact_mod_cast h1
  have hle' : (l1 : ℝ) ≤ (l2 : ℝ) := by exact_mod_cast hle
  have := key_diff_bounds_real hr hb h1' hle'
  simp only [wlKeyDiffBounds, wlDiffLo, wlDiffHi]
  push_cast
  exact this

end HcipyVerif.WavelengthKey
