import HcipyVerif.Model.FourierSwitch

/-! Helper lemmas for the Fourier half of C19 (backend selection, MFT/NFT caches). -/
set_option linter.unusedSimpArgs false
set_option linter.unusedVariables false

namespace HcipyVerif.FourierSwitch

/-! ## proof-level invariants (`Prop` forms; the executed check is `keyedB` in the model, bridged by `keyedB_iff`) -/
namespace Spec
/-- specification form of the executed check `keyedB`: matrices recorded at `q` are the matrices for `q` -/
def Keyed {X M B R : Type} (K : MftKern X M B R) (c : MftCache M B) : Prop :=
  ∀ q m, c.mats = some (q, m) → m = K.mats q

/-- invariant of the NFT cache: a cached matrix is the matrix of its direction -/
def NftKeyed {X A R : Type} (K : NftKern X A R) (c : NftCache A) : Prop :=
  ∀ d a, c.get d = some a → a = K.matrix d
end Spec
open Spec

/-! ## selection -/

theorem firstWorking_eq_find (avail : Method → Bool) (works : Method → Nat → Bool) (t : Nat) (ms : List Method) :
    firstWorking avail works t ms = ms.find? fun m => callable avail works m t := by
  induction ms with
  | nil => rfl
  | cons m ms ih =>
    simp only [firstWorking, List.find?_cons]
    cases h : callable avail works m t <;> simp [ih]

/-- the order in which `(method, threads)` pairs are tried: threads-major -/
def tryOrder (methods : List Method) (attempts : List Nat) : List (Method × Nat) :=
  attempts.flatMap fun t => methods.map fun m => (m, t)

theorem find_pairs (P : Method × Nat → Bool) (t : Nat) (ms : List Method) :
    (ms.map fun m => (m, t)).find? P = (ms.find? fun m => P (m, t)).map fun m => (m, t) := by
  induction ms with
  | nil => rfl
  | cons m ms ih =>
    simp only [List.map_cons, List.find?_cons]
    cases h : P (m, t) <;> simp [ih]

theorem selectIn_eq_find (avail : Method → Bool) (works : Method → Nat → Bool) (methods : List Method) (ts : List Nat) :
    selectIn avail works methods ts =
      match (tryOrder methods ts).find? (fun p => callable avail works p.1 p.2) with
      | some p => .ok p
      | none => .error .value := by
  induction ts with
  | nil => rfl
  | cons t ts ih =>
    simp only [selectIn, tryOrder, List.flatMap_cons, List.find?_append, firstWorking_eq_find]
    rw [find_pairs (fun p => callable avail works p.1 p.2) t methods]
    cases h : methods.find? (fun m => callable avail works m t) with
    | some m => simp
    | none =>
      simp only [Option.map_none, Option.none_or]
      exact ih

theorem selectIn_error_iff (avail : Method → Bool) (works : Method → Nat → Bool) (methods : List Method) (ts : List Nat) (e : SelErr) :
    selectIn avail works methods ts = .error e ↔
      e = .value ∧ ∀ t ∈ ts, ∀ m ∈ methods, callable avail works m t = false := by
  rw [selectIn_eq_find]
  cases h : (tryOrder methods ts).find? (fun p => callable avail works p.1 p.2) with
  | some p =>
    simp only [reduceCtorEq, false_iff, not_and]
    intro _ hall
    have hp := List.find?_some h
    have hm := List.mem_of_find?_eq_some h
    simp only [tryOrder, List.mem_flatMap, List.mem_map] at hm
    obtain ⟨t, ht, m, hm, rfl⟩ := hm
    simp [hall t ht m hm] at hp
  | none =>
    simp only [Except.error.injEq]
    constructor
    · intro he
      refine ⟨he.symm, fun t ht m hm => ?_⟩
      have := List.find?_eq_none.mp h (m, t) (by
        simp only [tryOrder, List.mem_flatMap, List.mem_map]
        exact ⟨t, ht, m, hm, rfl⟩)
      simpa using this
    · intro he; exact he.1.symm

/-! ## MFT cache -/

theorem compute_spec {X M B R : Type} (K : MftKern X M B R) (p : CPrec) (c : MftCache M B) (hk : Keyed K c) :
    (compute K p c).1 = (p, K.mats p) ∧ (compute K p c).2.1 = p := by
  unfold compute
  constructor
  · cases hm : c.mats with
    | none => rfl
    | some qm =>
      obtain ⟨q, m⟩ := qm
      by_cases hq : q = p
      · subst hq; simp [hk q m hm]
      · simp [hq]
  · cases hb : c.interm with
    | none => rfl
    | some qb =>
      obtain ⟨q, b⟩ := qb
      by_cases hq : q = p
      · subst hq; simp
      · simp [hq]

/-- the check the driver runs is the invariant of the proofs -/
theorem keyedB_iff {X M B R : Type} [BEq M] [LawfulBEq M] (K : MftKern X M B R) (c : MftCache M B) :
    keyedB K c = true ↔ Keyed K c := by
  unfold keyedB Keyed
  cases hm : c.mats with
  | none => simp
  | some qm =>
    obtain ⟨q, m⟩ := qm
    constructor
    · intro h q' m' he
      simp only [Option.some.injEq, Prod.mk.injEq] at he
      obtain ⟨rfl, rfl⟩ := he
      simpa using h
    · intro h
      simpa using h q m rfl

theorem keyed_empty {X M B R : Type} (K : MftKern X M B R) : Keyed K ({} : MftCache M B) := by
  intro q m h; simp at h

theorem keyed_remove {X M B R : Type} (K : MftKern X M B R) (pre alloc : Bool) (p : CPrec) (b : CPrec × B) :
    Keyed K (remove pre alloc (p, K.mats p) b) := by
  intro q m h
  cases pre <;> simp [remove] at h
  obtain ⟨rfl, rfl⟩ := h
  rfl

/-- one call: the result is what a fresh switch-less object returns, and the cache stays keyed -/
theorem mftCall_spec {X M B R : Type} (K : MftKern X M B R) (pre alloc : Bool) (c : MftCache M B) (hk : Keyed K c)
    (d : Dir) (p : CPrec) (x : X) :
    (mftCall K pre alloc c d p x).1 = K.stage2 (K.mats p) d (K.stage1 (K.mats p) d (K.cast p x)) ∧
    Keyed K (mftCall K pre alloc c d p x).2 := by
  obtain ⟨h1, h2⟩ := compute_spec K p c hk
  unfold mftCall mftCallWith
  generalize hcomp : compute K p c = r at h1 h2
  obtain ⟨m, b⟩ := r
  simp only at h1 h2
  subst h1
  obtain ⟨q, bb⟩ := b
  simp only at h2
  subst h2
  simp only [gemmInto, if_true]
  exact ⟨trivial, keyed_remove K pre alloc q _⟩

theorem mftRunFrom_spec {X M B R : Type} (K : MftKern X M B R) (pre alloc : Bool) (script : List (Dir × CPrec × X)) :
    ∀ c, Keyed K c → (mftRunFrom (mftCall K pre alloc) c script).1 = script.map fun s => mftFresh K s.1 s.2.1 s.2.2 := by
  induction script with
  | nil => intro c _; rfl
  | cons s rest ih =>
    intro c hk
    obtain ⟨d, p, x⟩ := s
    obtain ⟨h1, h2⟩ := mftCall_spec K pre alloc c hk d p x
    have hf := (mftCall_spec K false false {} (keyed_empty K) d p x).1
    simp only [mftRunFrom, List.map_cons]
    rw [ih _ h2, h1]
    simp only [mftFresh, hf]

/-! ## NFT cache -/

theorem nftKeyed_empty {X A R : Type} (K : NftKern X A R) : NftKeyed K ({} : NftCache A) := by
  intro d a h; cases d <;> simp [NftCache.get] at h

theorem nftCall_spec {X A R : Type} (K : NftKern X A R) (hd : ∀ d x, K.apply (K.matrix d) x = K.direct d x)
    (pre : Bool) (c : NftCache A) (hk : NftKeyed K c) (d : Dir) (p : CPrec) (x : X) :
    (nftCall K pre c d p x).1 = K.castTo p (K.direct d x) ∧ NftKeyed K (nftCall K pre c d p x).2 := by
  cases pre with
  | false => exact ⟨rfl, hk⟩
  | true =>
    have ha : (c.get d).getD (K.matrix d) = K.matrix d := by
      cases h : c.get d with
      | none => rfl
      | some a => simp [hk d a h]
    simp only [nftCall, if_true, ha, hd]
    refine ⟨trivial, ?_⟩
    intro d' a h
    cases d <;> cases d' <;> simp [NftCache.put, NftCache.get] at h
    · exact h.symm
    · exact hk .bwd a (by simpa [NftCache.get] using h)
    · exact hk .fwd a (by simpa [NftCache.get] using h)
    · exact h.symm

theorem nftRunFrom_spec {X A R : Type} (K : NftKern X A R) (hd : ∀ d x, K.apply (K.matrix d) x = K.direct d x)
    (pre : Bool) (script : List (Dir × CPrec × X)) :
    ∀ c, NftKeyed K c → (nftRunFrom K pre c script).1 = script.map fun s => K.castTo s.2.1 (K.direct s.1 s.2.2) := by
  induction script with
  | nil => intro c _; rfl
  | cons s rest ih =>
    intro c hk
    obtain ⟨d, p, x⟩ := s
    obtain ⟨h1, h2⟩ := nftCall_spec K hd pre c hk d p x
    simp only [nftRunFrom, List.map_cons]
    rw [ih _ h2, h1]

end HcipyVerif.FourierSwitch
