import HcipyVerif.Model.Zernike
import Mathlib.Algebra.Order.Field.Rat
import Mathlib.Algebra.BigOperators.Intervals
import Mathlib.Data.Nat.Factorial.Basic
import Mathlib.Tactic.Ring
import Mathlib.Tactic.Linarith
import Mathlib.Tactic.FieldSimp

/-! Helper lemmas for C13: polynomial evaluation is a homomorphism, the symbolic and the pointwise
radial recursion agree, old/new recurrence, azimuthal powers, the cache invariant. -/
set_option linter.unusedSimpArgs false
set_option linter.unusedVariables false

namespace HcipyVerif.Zernike
open Finset

/-! ### evaluation is a homomorphism -/

@[simp] theorem peval_nil (x : Rat) : peval [] x = 0 := rfl
@[simp] theorem peval_cons (a : Rat) (p : Poly) (x : Rat) : peval (a :: p) x = a + x * peval p x := rfl

theorem peval_padd (p q : Poly) (x : Rat) : peval (padd p q) x = peval p x + peval q x := by
  induction p generalizing q with
  | nil => simp [padd]
  | cons a p ih =>
    cases q with
    | nil => simp [padd]
    | cons b q => simp only [padd, peval_cons, ih]; ring

theorem peval_pscale (c : Rat) (p : Poly) (x : Rat) : peval (pscale c p) x = c * peval p x := by
  induction p with
  | nil => simp [pscale]
  | cons a p ih =>
    have : pscale c (a :: p) = (c * a) :: pscale c p := rfl
    rw [this, peval_cons, peval_cons, ih]; ring

theorem peval_pshift (k : Nat) (p : Poly) (x : Rat) : peval (pshift k p) x = x ^ k * peval p x := by
  induction k with
  | zero => simp [pshift]
  | succ k ih =>
    have : pshift (k + 1) p = 0 :: pshift k p := by simp [pshift, List.replicate_succ]
    rw [this, peval_cons, ih]; ring

theorem peval_pspread (p : Poly) (x : Rat) : peval (pspread p) x = peval p (x * x) := by
  induction p with
  | nil => rfl
  | cons a p ih =>
    cases p with
    | nil => simp [pspread]
    | cons b p =>
      have : pspread (a :: b :: p) = a :: 0 :: pspread (b :: p) := rfl
      rw [this, peval_cons, peval_cons, ih, peval_cons, peval_cons, peval_cons]; ring

theorem peval_pmul (p q : Poly) (x : Rat) : peval (pmul p q) x = peval p x * peval q x := by
  induction p with
  | nil => simp [pmul]
  | cons a p ih => simp only [pmul, peval_padd, peval_pscale, peval_pshift, ih, peval_cons]; ring

theorem peval_monomial (n : Nat) (x : Rat) : peval (monomial n) x = x ^ n := by
  unfold monomial; rw [peval_pshift]; simp

/-- the symbolic recursion evaluates to the pointwise recursion, for every order and every point -/
theorem peval_reducedPoly (n : Nat) (t : Rat) : ∀ k, peval (reducedPoly n k) t = reducedEval n t k
  | 0 => by simp [reducedPoly, reducedEval]
  | 1 => by simp [reducedPoly, reducedEval]; ring
  | k + 2 => by
    have a := peval_reducedPoly n t k
    have b := peval_reducedPoly n t (k + 1)
    simp only [reducedPoly, reducedEval, peval_padd, peval_pscale, peval_pshift, a, b]
    ring

theorem peval_radialPoly (n m : Nat) (r : Rat) : peval (radialPoly n m) r = radialEval n m r := by
  unfold radialPoly radialEval
  rw [peval_pshift, peval_pspread, peval_reducedPoly]

/-- the factorial definition as an explicit finite sum -/
theorem peval_radialDef (n m : Nat) (r : Rat) :
    peval (radialDef n m) r = ∑ k ∈ range ((n - m) / 2 + 1), defCoeff n m k * r ^ (n - 2 * k) := by
  unfold radialDef
  generalize (n - m) / 2 + 1 = K
  induction K with
  | zero => simp
  | succ K ih =>
    rw [List.range_succ, List.foldr_append, Finset.sum_range_succ]
    simp only [List.foldr_cons, List.foldr_nil]
    have key : ∀ (l : List Nat) (acc : Poly),
        peval (l.foldr (fun k acc => padd (pscale (defCoeff n m k) (monomial (n - 2 * k))) acc) acc) r
          = peval (l.foldr (fun k acc => padd (pscale (defCoeff n m k) (monomial (n - 2 * k))) acc) []) r + peval acc r := by
      intro l acc
      induction l with
      | nil => simp
      | cons a l ihl => simp only [List.foldr_cons, peval_padd, ihl]; ring
    rw [key, ih, peval_padd, peval_pscale, peval_monomial]
    simp

/-! ### the unrepaired recurrence agrees with the repaired one away from the centre, and is NaN at the centre -/

theorem radialEvalOld_eq (n : Nat) (r : Rat) (hr : r ≠ 0) :
    ∀ k, 2 * k ≤ n → radialEvalOld n r k = some (r ^ (n - 2 * k) * reducedEval n (r * r) k)
  | 0, _ => by simp [radialEvalOld, reducedEval]
  | 1, h => by
    simp only [radialEvalOld, reducedEval, Option.some.injEq]
    have : r ^ n = r ^ (n - 2) * (r * r) := by
      rw [← pow_two, ← pow_add]; congr 1; omega
    rw [this]; ring
  | k + 2, h => by
    have a := radialEvalOld_eq n r hr k (by omega)
    have b := radialEvalOld_eq n r hr (k + 1) (by omega)
    have hr2 : r ^ 2 ≠ 0 := pow_ne_zero 2 hr
    simp only [radialEvalOld, a, b, reducedEval, if_neg hr2, Option.some.injEq]
    have e1 : r ^ (n - 2 * k) = r ^ (n - 2 * (k + 2)) * r ^ 4 := by
      rw [← pow_add]; congr 1; omega
    have e2 : r ^ (n - 2 * (k + 1)) = r ^ (n - 2 * (k + 2)) * r ^ 2 := by
      rw [← pow_add]; congr 1; omega
    rw [e1, e2]
    field_simp

theorem radialEvalOld_centre (n k : Nat) : radialEvalOld n 0 (k + 2) = none := by
  simp only [radialEvalOld]
  split <;> simp


theorem mem_pairs (N n m : Nat) : (n, m) ∈ pairs N ↔ n ≤ N ∧ m ≤ n ∧ (n - m) % 2 = 0 := by
  unfold pairs
  simp only [List.mem_flatMap, List.mem_range, List.mem_map, List.mem_filter, Prod.mk.injEq, beq_iff_eq]
  constructor
  · rintro ⟨a, ha, b, ⟨hb, hpar⟩, rfl, rfl⟩; exact ⟨by omega, by omega, hpar⟩
  · rintro ⟨h1, h2, h3⟩; exact ⟨n, by omega, m, ⟨by omega, h3⟩, rfl, rfl⟩

/-! ### azimuthal factor; Cartesian form -/

theorem cisPow_scale (ρ c s : Rat) : ∀ k, cisPow (ρ * c) (ρ * s) k = (ρ ^ k * (cisPow c s k).1, ρ ^ k * (cisPow c s k).2)
  | 0 => by simp [cisPow]
  | k + 1 => by
    have ih := cisPow_scale ρ c s k
    simp only [cisPow, ih, Prod.mk.injEq]
    constructor <;> ring

/-- `|(c + i s)^k|² = (c² + s²)^k` -/
theorem cisPow_normSq (c s : Rat) : ∀ k, (cisPow c s k).1 ^ 2 + (cisPow c s k).2 ^ 2 = (c ^ 2 + s ^ 2) ^ k
  | 0 => by simp [cisPow]
  | k + 1 => by
    have ih := cisPow_normSq c s k
    simp only [cisPow]
    have e : (c ^ 2 + s ^ 2) ^ (k + 1) = (c ^ 2 + s ^ 2) ^ k * (c ^ 2 + s ^ 2) := pow_succ _ _
    rw [e, ← ih]; ring

/-- angle addition: `(c + i s)^(j+k) = (c + i s)^j (c + i s)^k` -/
theorem cisPow_add (c s : Rat) (j : Nat) : ∀ k, cisPow c s (j + k) =
    ((cisPow c s j).1 * (cisPow c s k).1 - (cisPow c s j).2 * (cisPow c s k).2,
     (cisPow c s j).1 * (cisPow c s k).2 + (cisPow c s j).2 * (cisPow c s k).1)
  | 0 => by simp [cisPow]
  | k + 1 => by
    have ih := cisPow_add c s j k
    rw [← Nat.add_assoc]
    simp only [cisPow, ih, Prod.mk.injEq]
    constructor <;> ring

theorem modeQXY_polar (n : Nat) (m : Int) (D r c s : Rat) (hcs : c ^ 2 + s ^ 2 = 1) :
    modeQXY n m D (r * c) (r * s) = modeQ n m D r c s := by
  unfold modeQXY modeQ radialEval azimQ
  simp only
  have e1 : 2 * (r * c) / D = (2 * r / D) * c := by ring
  have e2 : 2 * (r * s) / D = (2 * r / D) * s := by ring
  rw [e1, e2, cisPow_scale]
  have e3 : 2 * r / D * c * (2 * r / D * c) + 2 * r / D * s * (2 * r / D * s) = 2 * r / D * (2 * r / D) := by
    have : 2 * r / D * c * (2 * r / D * c) + 2 * r / D * s * (2 * r / D * s)
        = (2 * r / D) * (2 * r / D) * (c ^ 2 + s ^ 2) := by ring
    rw [this, hcs, mul_one]
  rw [e3]
  by_cases h0 : m = 0
  · subst h0; simp
  · simp only [h0, if_false]
    split <;> ring

/-! ### the cache -/

/-- what a correct cache entry holds at the point `(ρ, cs, sn)`, `ρ = 2r/D` -/
def plainVal (ρ cs sn : Rat) : Key → Rat
  | .rad n m => radialEval n m ρ
  | .red n k => reducedEval n (ρ * ρ) k
  | .azim m => azimQ m cs sn

/-- every entry of the cache is the value a fresh evaluation would give -/
def CacheValid (ρ cs sn : Rat) (c : Cache) : Prop := ∀ k v, c.get k = some v → v = plainVal ρ cs sn k

theorem cacheValid_nil (ρ cs sn : Rat) : CacheValid ρ cs sn [] := by
  intro k v h; simp [Cache.get] at h

theorem Cache.get_put (c : Cache) (k k' : Key) (v : Rat) :
    (c.put k v).get k' = if k' = k then some v else c.get k' := by
  unfold Cache.put Cache.get
  by_cases h : k' = k
  · subst h; simp
  · have hne : (k == k') = false := by simp [Ne.symm h]
    simp only [List.find?_cons, hne, if_neg h]
    congr 1
    rw [List.find?_filter]
    congr 1
    funext a
    by_cases ha : a.1 = k'
    · have : a.1 ≠ k := fun e => h (ha ▸ e)
      simp [ha, this, h]
    · simp [ha]

theorem CacheValid.put {ρ cs sn : Rat} {c : Cache} (h : CacheValid ρ cs sn c) (k : Key) (v : Rat)
    (hv : v = plainVal ρ cs sn k) : CacheValid ρ cs sn (c.put k v) := by
  intro k' v' hg
  rw [Cache.get_put] at hg
  split at hg
  · rename_i e; subst e; injection hg with hg; rw [← hg, hv]
  · exact h k' v' hg

theorem memoReduced_spec (n : Nat) (ρ cs sn : Rat) :
    ∀ k c, CacheValid ρ cs sn c →
      (memoReduced n (ρ * ρ) k c).1 = reducedEval n (ρ * ρ) k ∧ CacheValid ρ cs sn (memoReduced n (ρ * ρ) k c).2
  | 0, c, h => by
    unfold memoReduced
    split
    · rename_i v hv; exact ⟨h _ _ hv, h⟩
    · exact ⟨rfl, h.put _ _ rfl⟩
  | 1, c, h => by
    unfold memoReduced
    split
    · rename_i v hv; exact ⟨h _ _ hv, h⟩
    · exact ⟨rfl, h.put _ _ rfl⟩
  | k + 2, c, h => by
    unfold memoReduced
    split
    · rename_i v hv; exact ⟨h _ _ hv, h⟩
    · obtain ⟨a1, a2⟩ := memoReduced_spec n ρ cs sn k c h
      obtain ⟨b1, b2⟩ := memoReduced_spec n ρ cs sn (k + 1) _ a2
      simp only
      refine ⟨?_, CacheValid.put b2 _ _ ?_⟩
      · rw [a1, b1]; rfl
      · rw [a1, b1]; rfl

theorem memoRadial_spec (n m : Nat) (ρ cs sn : Rat) (c : Cache) (h : CacheValid ρ cs sn c) :
    (memoRadial n m ρ c).1 = radialEval n m ρ ∧ CacheValid ρ cs sn (memoRadial n m ρ c).2 := by
  unfold memoRadial
  split
  · rename_i v hv; exact ⟨h _ _ hv, h⟩
  · obtain ⟨a1, a2⟩ := memoReduced_spec n ρ cs sn ((n - m) / 2) c h
    simp only
    refine ⟨?_, CacheValid.put a2 _ _ ?_⟩
    · rw [a1]; rfl
    · rw [a1]; rfl

theorem memoAzim_spec (m : Int) (ρ cs sn : Rat) (c : Cache) (h : CacheValid ρ cs sn c) :
    (memoAzim m cs sn c).1 = azimQ m cs sn ∧ CacheValid ρ cs sn (memoAzim m cs sn c).2 := by
  unfold memoAzim
  split
  · rename_i h0; subst h0; exact ⟨by simp [azimQ], h⟩
  · split
    · rename_i v hv; exact ⟨h _ _ hv, h⟩
    · exact ⟨rfl, h.put _ _ rfl⟩

theorem memoMode_spec (D r cs sn : Rat) (q : Req) (c : Cache) (h : CacheValid (2 * r / D) cs sn c) :
    (memoMode D r cs sn q c).1 = modeQCut q.n q.m D r cs sn q.cutoff ∧
      CacheValid (2 * r / D) cs sn (memoMode D r cs sn q c).2 := by
  obtain ⟨a1, a2⟩ := memoRadial_spec q.n q.m.natAbs (2 * r / D) cs sn c h
  obtain ⟨b1, b2⟩ := memoAzim_spec q.m (2 * r / D) cs sn _ a2
  unfold memoMode modeQCut modeQ
  simp only
  exact ⟨by rw [a1, b1], b2⟩

theorem runMemo_spec (D r cs sn : Rat) : ∀ (reqs : List Req) (c : Cache), CacheValid (2 * r / D) cs sn c →
    runMemo D r cs sn reqs c = reqs.map fun q => modeQCut q.n q.m D r cs sn q.cutoff
  | [], _, _ => rfl
  | q :: qs, c, h => by
    obtain ⟨a, b⟩ := memoMode_spec D r cs sn q c h
    simp only [runMemo, List.map_cons]
    rw [a, runMemo_spec D r cs sn qs _ b]


theorem fact_eq_factorial : ∀ n, fact n = n.factorial
  | 0 => rfl
  | n + 1 => by rw [fact, fact_eq_factorial n, Nat.factorial_succ]

end HcipyVerif.Zernike
