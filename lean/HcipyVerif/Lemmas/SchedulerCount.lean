import HcipyVerif.Lemmas.Scheduler

/-! Helper lemmas for C20, conservation: `insert`/`addAll` as permutations, the entries spawned by
the executed callbacks, counters. -/
set_option linter.unusedSimpArgs false
set_option linter.unusedVariables false

namespace HcipyVerif.Scheduler

theorem insert_perm (e : Entry) (l : List Entry) : (insert e l).Perm (e :: l) := by
  induction l with
  | nil => simp [insert]
  | cons x xs ih =>
    unfold insert
    split
    · exact List.Perm.refl _
    · exact (List.Perm.cons x ih).trans (List.Perm.swap e x xs)

theorem insert_length (e : Entry) (l : List Entry) : (insert e l).length = l.length + 1 := by
  simpa using (insert_perm e l).length_eq

theorem mkEntries_length (c : Nat) (l : List (Rat × Nat)) : (mkEntries c l).length = l.length := by
  induction l generalizing c with
  | nil => rfl
  | cons x xs ih => obtain ⟨a, b⟩ := x; simp [mkEntries, ih]

theorem mkEntries_ctr (c : Nat) (l : List (Rat × Nat)) :
    (mkEntries c l).map (·.ctr) = List.range' c l.length := by
  induction l generalizing c with
  | nil => rfl
  | cons x xs ih => obtain ⟨a, b⟩ := x; simp [mkEntries, ih, List.range'_succ]

theorem mem_mkEntries {c : Nat} {l : List (Rat × Nat)} {q : Entry} (h : q ∈ mkEntries c l) :
    (q.time, q.id) ∈ l ∧ c ≤ q.ctr ∧ q.ctr < c + l.length := by
  induction l generalizing c with
  | nil => simp [mkEntries] at h
  | cons x xs ih =>
    obtain ⟨a, b⟩ := x
    simp only [mkEntries, List.mem_cons] at h
    rcases h with rfl | h
    · simp
    · obtain ⟨h1, h2, h3⟩ := ih h
      refine ⟨by simp [h1], by omega, by simp; omega⟩

theorem addAll_queue_perm (s : Sys) (l : List (Rat × Nat)) :
    (addAll s l).queue.Perm (s.queue ++ mkEntries s.ctr l) := by
  induction l generalizing s with
  | nil => simp [addAll, mkEntries]
  | cons x xs ih =>
    obtain ⟨a, b⟩ := x
    simp only [addAll, mkEntries]
    refine (ih (addCallback s a b)).trans ?_
    simp only [addCallback]
    refine ((insert_perm ⟨a, s.ctr, b⟩ s.queue).append_right _).trans ?_
    simp only [List.cons_append]
    exact List.perm_middle.symm

theorem addAll_queue_length (s : Sys) (l : List (Rat × Nat)) :
    (addAll s l).queue.length = s.queue.length + l.length := by
  simpa [mkEntries_length] using (addAll_queue_perm s l).length_eq

theorem spawned_length (kids : Entry → List (Rat × Nat)) (c : Nat) (l : List Entry) :
    (spawned kids c l).length = nKids kids l := by
  induction l generalizing c with
  | nil => rfl
  | cons e es ih => simp [spawned, nKids, mkEntries_length, ih]

theorem nKids_append (kids : Entry → List (Rat × Nat)) (a b : List Entry) :
    nKids kids (a ++ b) = nKids kids a + nKids kids b := by
  simp [nKids]

theorem spawned_ctr (kids : Entry → List (Rat × Nat)) (c : Nat) (l : List Entry) :
    (spawned kids c l).map (·.ctr) = List.range' c (nKids kids l) := by
  induction l generalizing c with
  | nil => rfl
  | cons e es ih =>
    simp only [spawned, List.map_append, mkEntries_ctr, ih, nKids, List.map_cons, List.sum_cons]
    rw [← List.range'_append_1]

theorem spawned_append (kids : Entry → List (Rat × Nat)) (c : Nat) (a b : List Entry) :
    spawned kids c (a ++ b) = spawned kids c a ++ spawned kids (c + nKids kids a) b := by
  induction a generalizing c with
  | nil => simp [spawned, nKids]
  | cons e es ih =>
    simp only [List.cons_append, spawned, ih, List.append_assoc, nKids, List.map_cons, List.sum_cons]
    rw [Nat.add_assoc]

/-- every spawned entry is a child of one of the executed callbacks and carries a fresh counter -/
theorem mem_spawned {kids : Entry → List (Rat × Nat)} {c : Nat} {l : List Entry} {q : Entry}
    (h : q ∈ spawned kids c l) : (∃ e ∈ l, (q.time, q.id) ∈ kids e) ∧ c ≤ q.ctr := by
  induction l generalizing c with
  | nil => simp [spawned] at h
  | cons e es ih =>
    simp only [spawned, List.mem_append] at h
    rcases h with h | h
    · obtain ⟨h1, h2, -⟩ := mem_mkEntries h
      exact ⟨⟨e, by simp, h1⟩, h2⟩
    · obtain ⟨⟨e', he', h1⟩, h2⟩ := ih h
      exact ⟨⟨e', by simp [he'], h1⟩, by omega⟩

/-- conversely every child of an executed callback has its entry among the spawned ones -/
theorem spawned_of_kid {kids : Entry → List (Rat × Nat)} {c : Nat} {l : List Entry} {e : Entry}
    (he : e ∈ l) {k : Rat × Nat} (hk : k ∈ kids e) :
    ∃ q ∈ spawned kids c l, q.time = k.1 ∧ q.id = k.2 := by
  induction l generalizing c with
  | nil => simp at he
  | cons x xs ih =>
    simp only [spawned, List.mem_append]
    rcases List.mem_cons.mp he with rfl | he
    · have : ∀ (c : Nat) (l : List (Rat × Nat)), k ∈ l → ∃ q ∈ mkEntries c l, q.time = k.1 ∧ q.id = k.2 := by
        intro c l
        induction l generalizing c with
        | nil => simp
        | cons y ys ih2 =>
          obtain ⟨a, b⟩ := y
          intro hk
          rcases List.mem_cons.mp hk with rfl | hk
          · exact ⟨⟨a, c, b⟩, by simp [mkEntries], rfl, rfl⟩
          · obtain ⟨q, hq, h⟩ := ih2 (c + 1) hk
            exact ⟨q, by simp [mkEntries, hq], h⟩
      obtain ⟨q, hq, h⟩ := this c _ hk
      exact ⟨q, Or.inl hq, h⟩
    · obtain ⟨q, hq, h⟩ := ih (c := c + (kids x).length) he
      exact ⟨q, Or.inr hq, h⟩

theorem loop_zero (kids : Entry → List (Rat × Nat)) (T : Rat) (s : Sys) :
    loop kids T 0 s = ⟨.outOfFuel, s, []⟩ := rfl

theorem next_ctr (kids : Entry → List (Rat × Nat)) (s : Sys) (e : Entry) (rest : List Entry) :
    (next kids s e rest).ctr = s.ctr + (kids e).length := by
  simp only [next, addAll_ctr, advance_ctr]

theorem next_queue_perm (kids : Entry → List (Rat × Nat)) (s : Sys) (e : Entry) (rest : List Entry) :
    (next kids s e rest).queue.Perm (rest ++ mkEntries s.ctr (kids e)) := by
  have := addAll_queue_perm (advance { s with queue := rest } (e.time - s.t)).1 (kids e)
  simpa only [next, advance_queue, advance_ctr] using this

/-- **Conservation, as a permutation** — no hypothesis at all (any queue, any callbacks, any
status, including running out of fuel): what was executed together with what is still queued is
a rearrangement of what was queued at the start together with what the executed callbacks
created. -/
theorem loop_perm (kids : Entry → List (Rat × Nat)) (T : Rat) (fuel : Nat) (s : Sys) :
    (fired (loop kids T fuel s).trace ++ (loop kids T fuel s).s.queue).Perm
      (s.queue ++ spawned kids s.ctr (fired (loop kids T fuel s).trace)) := by
  induction fuel generalizing s with
  | zero => simp [loop_zero, fired, spawned]
  | succ fuel ih =>
    match hq : s.queue with
    | [] => rw [loop_stop (Or.inl hq)]; simp [advance_fired, advance_queue, hq, spawned]
    | e :: rest =>
      by_cases ht : e.time < T
      · simp only [loop_cons_s hq ht, loop_cons_trace hq ht]
        simp only [fired_append, advance_fired, fired, List.nil_append, spawned, List.cons_append]
        refine List.Perm.cons e ?_
        refine (ih (next kids s e rest)).trans ?_
        rw [next_ctr, ← List.append_assoc]
        exact (next_queue_perm kids s e rest).append_right _
      · rw [loop_stop (Or.inr ⟨e, rest, hq, ht⟩)]
        simp [advance_fired, advance_queue, hq, spawned]

theorem loop_ctr (kids : Entry → List (Rat × Nat)) (T : Rat) (fuel : Nat) (s : Sys) :
    (loop kids T fuel s).s.ctr = s.ctr + nKids kids (fired (loop kids T fuel s).trace) := by
  induction fuel generalizing s with
  | zero => simp [loop_zero, fired, nKids]
  | succ fuel ih =>
    match hq : s.queue with
    | [] => rw [loop_stop (Or.inl hq)]; simp [advance_fired, advance_ctr, nKids]
    | e :: rest =>
      by_cases ht : e.time < T
      · simp only [loop_cons_s hq ht, loop_cons_trace hq ht]
        simp only [fired_append, advance_fired, fired, List.nil_append]
        rw [ih, next_ctr]; simp [nKids]; omega
      · rw [loop_stop (Or.inr ⟨e, rest, hq, ht⟩)]; simp [advance_fired, advance_ctr, nKids]

/-- a sorted list has no repeated entry -/
theorem Sorted.nodup {l : List Entry} (h : Sorted l) : l.Nodup :=
  List.Pairwise.imp (R := Entry.lt)
    (fun {a b} (h : a.lt b) (hab : a = b) => by subst hab; exact Entry.lt_irrefl _ h) h

theorem nodup_of_ctr_nodup {l : List Entry} (h : (l.map (·.ctr)).Nodup) : l.Nodup :=
  List.Pairwise.of_map (·.ctr) (fun a b hab heq => hab (by rw [heq])) h

/-- queue of an invariant state followed by freshly numbered entries: no repetition -/
theorem nodup_queue_spawned {kids : Entry → List (Rat × Nat)} {s : Sys} (hi : Inv s) (l : List Entry) :
    (s.queue ++ spawned kids s.ctr l).Nodup := by
  rw [List.nodup_append]
  refine ⟨hi.sorted.nodup, ?_, ?_⟩
  · apply nodup_of_ctr_nodup; rw [spawned_ctr]; exact List.nodup_range'
  · intro a ha b hb hab
    subst hab
    have h1 := hi.ctr a ha
    have h2 := (mem_spawned hb).2
    omega

end HcipyVerif.Scheduler
