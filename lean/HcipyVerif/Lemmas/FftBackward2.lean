import HcipyVerif.Lemmas.FftPipeline2
import HcipyVerif.Model.FftIndex2b

/-!
# Two axes, backward: separability and the 2-D backward sum
-/
set_option linter.unusedSimpArgs false
set_option linter.unusedVariables false
set_option linter.unusedSectionVars false

namespace HcipyVerif.Fft
open Finset

variable {K C : Type} [Field K] [Field C] {T E : K → C}

/-- **Separability of `backward`**: the literal 2-D pipeline is the 1-D pipeline along `x`
followed by the 1-D pipeline along `y`. -/
theorem fastBackward2_eq_iter (hT : IsChar T) (hE : IsChar E) (gy gx : Cfg K C)
    (hemu : gy.emu = gx.emu) (F : ℕ → ℕ → C) (jy jx : ℕ) :
    fastBackward2 T E gy gx F jy jx = fastBackward2Iter T E gy gx F jy jx := by
  unfold fastBackward2 fastBackward2Iter fastBackward
  rw [core2_eq_iter, inMult2_eq hT hE gy gx hemu, hemu]
  have inner : (fun ky => core (!gx.emu) gx.Mo gx.M gx.N (gx.kerB T)
        (fun kx => F ky kx * (outMult2 T E gy gx ky kx)⁻¹) jx)
      = fun ky => (gy.outMult T E ky)⁻¹ * core (!gx.emu) gx.Mo gx.M gx.N (gx.kerB T)
        (fun kx => F ky kx * (gx.outMult T E kx)⁻¹) jx := by
    funext ky
    rw [← core_mul_left]
    congr 1
    funext kx
    rw [outMult2_eq hT hE gy gx hemu, mul_inv]; ring
  rw [inner]
  have outer : (fun ky => (gx.M : C)⁻¹ * core (!gx.emu) gx.Mo gx.M gx.N (gx.kerB T)
        (fun k => F ky k * (gx.outMult T E k)⁻¹) jx * (gx.inMult T E jx)⁻¹ * (gy.outMult T E ky)⁻¹)
      = fun ky => ((gx.M : C)⁻¹ * (gx.inMult T E jx)⁻¹) * ((gy.outMult T E ky)⁻¹ *
          core (!gx.emu) gx.Mo gx.M gx.N (gx.kerB T) (fun kx => F ky kx * (gx.outMult T E kx)⁻¹) jx) := by
    funext ky; ring
  rw [outer, core_mul_left, mul_inv, mul_inv]
  ring

/-- the iterated backward pipeline is the 2-D backward sum -/
theorem fastBackward2Iter_eq_sum (hT : IsChar T) (hE : IsChar E) (hper : ∀ n : ℤ, T (n : K) = 1)
    (gy gx : Cfg K C) (hNy : gy.N ≤ gy.M) (hMoy : gy.Mo ≤ gy.M) (hcy : gy.dT * (gy.M : K) * gy.δ = 1)
    (hNx : gx.N ≤ gx.M) (hMox : gx.Mo ≤ gx.M) (hcx : gx.dT * (gx.M : K) * gx.δ = 1)
    (woy wox : C) (hwy : woy * (gy.M : C) * gy.w = 1) (hwx : wox * (gx.M : C) * gx.w = 1)
    (F : ℕ → ℕ → C) (jy jx : ℕ) (hjy : jy < gy.N) (hjx : jx < gx.N) :
    fastBackward2Iter T E gy gx F jy jx
      = ∑ ky ∈ range gy.Mo, ∑ kx ∈ range gx.Mo, F ky kx * (woy * wox) *
          (T (gx.a kx * gx.x jx + gy.a ky * gy.x jy) * E (gx.s * gx.x jx + gy.s * gy.x jy)) := by
  unfold fastBackward2Iter
  rw [fastBackward_eq_sumBackward hT hE hper gy hNy hMoy hcy woy hwy _ jy hjy, sumBackward, sumRange_eq]
  apply Finset.sum_congr rfl
  intro ky _
  rw [fastBackward_eq_sumBackward hT hE hper gx hNx hMox hcx wox hwx _ jx hjx, sumBackward, sumRange_eq,
    Finset.sum_mul, Finset.sum_mul]
  apply Finset.sum_congr rfl
  intro kx _
  have h1 : T (gx.a kx * gx.x jx + gy.a ky * gy.x jy) = T (gx.a kx * gx.x jx) * T (gy.a ky * gy.x jy) := hT.add _ _
  have h2 : E (gx.s * gx.x jx + gy.s * gy.x jy) = E (gx.s * gx.x jx) * E (gy.s * gy.x jy) := hE.add _ _
  rw [h1, h2]; ring

end HcipyVerif.Fft
