import HcipyVerif.Model.Cache

/-!
# Documentation only — the *unrepaired* instance cache (defect D3), no longer in /repo

`namespace HcipyVerif.Cache.Old`: the round-0 model of `get_instance_data` / `_add_to_cache` as they
were before the repair `fix: agnostic elements no longer hand out an instance made for other grids`
(all-keys two-stage lookup, eviction by count), its counterexample and the partial transparency
statement that did hold.  **Nothing here is counted as evidence for C05**: the code it describes no
longer exists in /repo, no driver op runs it and no harness comparison ties it to anything.  It is kept
because it documents why the lookup was repaired.  (Moved out of `Model/Cache.lean`,
`Lemmas/Cache.lean` and `Properties/C05.lean` in round 4.)
-/
set_option linter.unusedSimpArgs false
set_option linter.unusedVariables false

namespace HcipyVerif.Cache
namespace Old

structure Inst where
  i : Option GridId
  o : Option GridId
  w : Option WlKey
  ver : Nat
deriving DecidableEq, Repr

structure Elem where
  gridDep : Bool
  wlDep : Bool
  maxN : Nat
  getIn : GridId → Option GridId    -- get_input_grid(output_grid)
  getOut : GridId → Option GridId   -- get_output_grid(input_grid)

/-- `_get_cache_keys`; `none` models the ValueError branches. -/
def getKeys (e : Elem) (i o : Option GridId) (w : Option WlKey) : Option (List Key) :=
  let gridParts : Option (List (Option GridId × Option GridId)) :=
    if e.gridDep then
      match i, o with
      | none, none => none
      | none, some b => some [(none, some b)]
      | some a, none => some [(some a, none)]
      | some a, some b => some [(some a, some b), (some a, none), (none, some b)]
    else some [(none, none)]
  let wlPart : Option (Option WlKey) :=
    if e.wlDep then (match w with | none => none | some k => some (some k)) else some none
  match gridParts, wlPart with
  | some gs, some wk => some (gs.map fun g => ⟨g.1, g.2, wk⟩)
  | _, _ => none

structure St where
  cache : List (Key × Inst)   -- OrderedDict, oldest first
  num : Nat
  ver : Nat
deriving Repr

def St.clear (s : St) : St := { s with cache := [], num := 0 }
def St.setParam (s : St) : St := { cache := [], num := 0, ver := s.ver + 1 }

def lookup (cache : List (Key × Inst)) (k : Key) : Option Inst :=
  (cache.find? (fun p => p.1 = k)).map (·.2)

def lookupFirst (cache : List (Key × Inst)) : List Key → Option Inst
  | [] => none
  | k :: ks => match lookup cache k with
    | some v => some v
    | none => lookupFirst cache ks

def assign (cache : List (Key × Inst)) (k : Key) (v : Inst) : List (Key × Inst) :=
  if cache.any (fun p => p.1 = k) then cache.map (fun p => if p.1 = k then (k, v) else p)
  else cache ++ [(k, v)]

/-- `_add_to_cache` (unrepaired): pops `len(keys)` entries; `none` models KeyError. -/
def addToCache (e : Elem) (s : St) (inst : Inst) (keys : List Key) : Option St :=
  let evicted : Option St :=
    if s.num = e.maxN then
      match s.cache with
      | [] => none
      | (_, v) :: rest =>
        match getKeys e v.i v.o v.w with
        | none => none
        | some old =>
          if rest.length < old.length - 1 then none
          else some { s with cache := rest.drop (old.length - 1), num := s.num - 1 }
    else some s
  evicted.map fun s' =>
    { s' with cache := keys.foldl (fun c k => assign c k inst) s'.cache, num := s'.num + 1 }

/-- `get_instance_data` (unrepaired): two-stage lookup over *all* keys including partial ones. -/
def getInstanceData (e : Elem) (s : St) (i o : Option GridId) (w : Option WlKey) :
    Option (St × Inst) :=
  match getKeys e i o w with
  | none => none
  | some keys =>
    match lookupFirst s.cache keys with
    | some v => some (s, v)
    | none =>
      let i' := match i with | some a => some a | none => o.bind e.getIn
      let o' := match o with | some b => some b | none => i'.bind e.getOut
      match getKeys e i' o' w with
      | none => none
      | some keys2 =>
        match lookupFirst s.cache keys2 with
        | some v => some (s, v)
        | none =>
          let inst : Inst := ⟨i', o', w, s.ver⟩
          (addToCache e s inst keys2).map fun s' => (s', inst)

/-- what a freshly constructed element would build for this request -/
def fresh (e : Elem) (ver : Nat) (i o : Option GridId) (w : Option WlKey) : Inst :=
  let i' := match i with | some a => some a | none => o.bind e.getIn
  let o' := match o with | some b => some b | none => i'.bind e.getOut
  ⟨i', o', w, ver⟩

/-- The lens propagator: fixed input grid 1 and fixed output grid 9, whatever is asked. -/
def lens : Elem :=
  { gridDep := true, wlDep := true, maxN := 11, getIn := fun _ => some 1, getOut := fun _ => some 9 }

def s0 : St := { cache := [], num := 0, ver := 0 }

/-- Counterexample history: forward on pupil grid 1, then forward on pupil grid 2. -/
def hist2 : Option (Inst × Inst) := do
  let (s1, _) ← getInstanceData lens s0 (some 1) none (some 5)
  let (_, v2) ← getInstanceData lens s1 (some 2) none (some 5)
  pure (v2, fresh lens 0 (some 2) none (some 5))



/-! ### Soundness invariant and transparency for consistent elements (gridDep = wlDep = true) -/

def Consistent (e : Elem) : Prop :=
  e.gridDep = true ∧ e.wlDep = true ∧
  (∀ a b, e.getOut a = some b → e.getIn b = some a) ∧
  (∀ a b, e.getIn b = some a → e.getOut a = some b) ∧
  (∀ a, ∃ b, e.getOut a = some b) ∧ (∀ b, ∃ a, e.getIn b = some a)

def WF (e : Elem) (v : Inst) : Prop :=
  ∃ a b k, v.i = some a ∧ v.o = some b ∧ v.w = some k ∧ e.getOut a = some b ∧ e.getIn b = some a

def KeyOf (k : Key) (v : Inst) : Prop :=
  k.w = v.w ∧ (k.i = v.i ∨ k.i = none) ∧ (k.o = v.o ∨ k.o = none) ∧ ¬(k.i = none ∧ k.o = none)

def Sound (e : Elem) (s : St) : Prop :=
  ∀ p ∈ s.cache, WF e p.2 ∧ KeyOf p.1 p.2 ∧ p.2.ver = s.ver

theorem lookup_mem {cache : List (Key × Inst)} {k : Key} {v : Inst} (h : lookup cache k = some v) :
    (k, v) ∈ cache := by
  unfold lookup at h
  cases hf : cache.find? (fun p => decide (p.1 = k)) with
  | none => simp [hf] at h
  | some p =>
    simp [hf] at h
    have hm := List.mem_of_find?_eq_some hf
    have hp := List.find?_some hf
    simp at hp
    cases p with
    | mk a b => simp at hp h; subst hp; subst h; exact hm

theorem lookupFirst_mem {cache : List (Key × Inst)} {ks : List Key} {v : Inst}
    (h : lookupFirst cache ks = some v) : ∃ k ∈ ks, (k, v) ∈ cache := by
  induction ks with
  | nil => simp [lookupFirst] at h
  | cons k ks ih =>
    unfold lookupFirst at h
    cases hl : lookup cache k with
    | some w =>
      simp [hl] at h; subst h
      exact ⟨k, by simp, lookup_mem hl⟩
    | none =>
      simp [hl] at h
      obtain ⟨k', hk', hm⟩ := ih h
      exact ⟨k', by simp [hk'], hm⟩

theorem assign_mem {cache : List (Key × Inst)} {k : Key} {v : Inst} {p : Key × Inst}
    (h : p ∈ assign cache k v) : p ∈ cache ∨ p = (k, v) := by
  unfold assign at h
  split at h
  · simp only [List.mem_map] at h
    obtain ⟨q, hq, hqp⟩ := h
    split at hqp
    · right; exact hqp.symm
    · left; subst hqp; exact hq
  · simp at h
    rcases h with h | h
    · left; exact h
    · right; exact h

theorem foldl_assign_mem {keys : List Key} {cache : List (Key × Inst)} {v : Inst} {p : Key × Inst}
    (h : p ∈ keys.foldl (fun c k => assign c k v) cache) : p ∈ cache ∨ (p.2 = v ∧ p.1 ∈ keys) := by
  induction keys generalizing cache with
  | nil => left; simpa using h
  | cons k ks ih =>
    simp only [List.foldl_cons] at h
    rcases ih h with h1 | ⟨h2, h3⟩
    · rcases assign_mem h1 with h1 | h1
      · left; exact h1
      · right; subst h1; simp
    · right; exact ⟨h2, by simp [h3]⟩

theorem forward_transparent (e : Elem) (hc : Consistent e) (s s' : St) (hs : Sound e s)
    (a : GridId) (k : WlKey) (v : Inst)
    (h : getInstanceData e s (some a) none (some k) = some (s', v)) :
    v = fresh e s.ver (some a) none (some k) ∧ Sound e s' := by
  obtain ⟨hg, hw, hoi, hio, htot, _⟩ := hc
  unfold getInstanceData at h
  simp only [getKeys, hg, hw, if_true] at h
  -- first stage
  split at h
  · rename_i v1 h1
    simp at h
    obtain ⟨rfl, rfl⟩ := h
    refine ⟨?_, hs⟩
    obtain ⟨k1, hk1, hm⟩ := lookupFirst_mem h1
    simp at hk1; subst hk1
    obtain ⟨⟨a', b', k', hi, ho, hwv, hout, hin⟩, ⟨hkw, hki, hko, _⟩, hver⟩ := hs _ hm
    have ha : a' = a := by
      rcases hki with h | h
      · have h' : some a = v1.i := h
        rw [hi] at h'; simpa using h'.symm
      · exact absurd h (by simp)
    subst ha
    have hk : k' = k := by
      have h' : some k = v1.w := hkw
      rw [hwv] at h'; simpa using h'.symm
    subst hk
    unfold fresh
    rcases v1 with ⟨vi, vo, vw, vv⟩
    simp at hi ho hwv hver
    simp [hout, hi, ho, hwv, hver]
  · rename_i h1
    -- second stage: resolve output grid
    cases hout : e.getOut a with
    | none =>
      obtain ⟨b, hb⟩ := htot a
      rw [hb] at hout; simp at hout
    | some b =>
      simp only [hout, Option.bind, getKeys, hg, hw, if_true] at h
      split at h
      · rename_i v2 h2
        simp at h
        obtain ⟨rfl, rfl⟩ := h
        refine ⟨?_, hs⟩
        obtain ⟨k2, hk2, hm⟩ := lookupFirst_mem h2
        obtain ⟨⟨a', b', k', hi, ho, hwv, hout', hin'⟩, ⟨hkw, hki, hko, hnn⟩, hver⟩ := hs _ hm
        have hin := hoi a b hout
        simp at hk2
        have hk : k' = k := by
          have h' : k2.w = some k := by rcases hk2 with rfl | rfl | rfl <;> rfl
          have h'' : k2.w = v2.w := hkw
          rw [hwv, h'] at h''; simpa using h''.symm
        subst hk
        have hcase : k2.i = some a ∨ k2.o = some b := by
          rcases hk2 with rfl | rfl | rfl
          · left; rfl
          · left; rfl
          · right; rfl
        have hab : a' = a ∧ b' = b := by
          rcases hcase with hc | hc
          · rcases hki with h | h
            · rw [hc, hi] at h
              have : a' = a := by simpa using h.symm
              subst this
              rw [hout] at hout'
              exact ⟨rfl, by simpa using hout'.symm⟩
            · rw [hc] at h; exact absurd h (by simp)
          · rcases hko with h | h
            · rw [hc, ho] at h
              have : b' = b := by simpa using h.symm
              subst this
              rw [hin] at hin'
              exact ⟨by simpa using hin'.symm, rfl⟩
            · rw [hc] at h; exact absurd h (by simp)
        obtain ⟨rfl, rfl⟩ := hab
        unfold fresh
        rcases v2 with ⟨vi, vo, vw, vv⟩
        simp at hi ho hwv hver
        simp [hout, hi, ho, hwv, hver]
      · rename_i h2
        -- creation
        simp only [Option.map_eq_some_iff] at h
        obtain ⟨s1, hadd, hpair⟩ := h
        simp at hpair
        obtain ⟨rfl, rfl⟩ := hpair
        refine ⟨by simp [fresh, hout], ?_⟩
        unfold addToCache at hadd
        simp only [Option.map_eq_some_iff] at hadd
        obtain ⟨se, hev, rfl⟩ := hadd
        -- evicted state is sound and has same version
        have hse : Sound e se ∧ se.ver = s.ver := by
          split at hev
          · split at hev
            · simp at hev
            · rename_i k0 v0 rest hcache
              split at hev
              · simp at hev
              · split at hev
                · simp at hev
                · simp at hev; subst hev
                  refine ⟨?_, rfl⟩
                  intro p hp
                  have : p ∈ s.cache := by
                    rw [hcache]; exact List.mem_cons_of_mem _ (List.mem_of_mem_drop hp)
                  exact hs p this
          · simp at hev; subst hev; exact ⟨hs, rfl⟩
        obtain ⟨hse1, hse2⟩ := hse
        intro p hp
        simp only at hp
        rcases foldl_assign_mem hp with h | ⟨h1, h2⟩
        · have := hse1 p h
          simpa [hse2] using this
        · refine ⟨?_, ?_, ?_⟩
          · rw [h1]; exact ⟨a, b, k, rfl, rfl, rfl, hout, hoi a b hout⟩
          · rw [h1]
            simp at h2
            rcases h2 with h | h | h <;> (rw [h]; simp [KeyOf])
          · rw [h1]; simp [hse2]



/-! ## The statements formerly in `Properties/C05.lean` -/

/-- On the unrepaired lookup the lens propagator (fixed pupil grid 1, focal grid 9) used forward on
pupil grid 1 and then on pupil grid 2 hands out, for the second call, the instance made for
grid 1 (through the partial key `(None, hash(focal), wl)`), whereas a fresh element builds the one
for grid 2. -/
theorem old_lens_counterexample :
    hist2 = some (⟨some 1, some 9, some 5, 0⟩, ⟨some 2, some 9, some 5, 0⟩) := by decide

/-- The unrepaired two-stage lookup was transparent only in part: for *forward* requests on
elements that are grid- and wavelength-dependent and *consistent*.  Gap: backward and both-grid
requests, and inconsistent elements (for which `old_lens_counterexample` shows it false). -/
theorem old_forward_transparent_partial (e : Elem) (hc : Consistent e) (s s' : St)
    (hs : Sound e s) (a : GridId) (k : WlKey) (v : Inst)
    (h : getInstanceData e s (some a) none (some k) = some (s', v)) :
    v = fresh e s.ver (some a) none (some k) ∧ Sound e s' :=
  forward_transparent e hc s s' hs a k v h

example : Consistent ⟨true, true, 11, fun g => some g, fun g => some g⟩ :=
  ⟨rfl, rfl, fun a b h => by simp at h; simp [h], fun a b h => by simp at h; simp [h],
    fun a => ⟨a, rfl⟩, fun b => ⟨b, rfl⟩⟩

end Old
end HcipyVerif.Cache
