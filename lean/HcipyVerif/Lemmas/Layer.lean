import HcipyVerif.Model.Layer
import HcipyVerif.Lemmas.Shift
import Mathlib.Tactic.Ring
import Mathlib.Tactic.Linarith
import Mathlib.Tactic.LinearCombination
import Mathlib.Algebra.Order.Field.Basic
import Mathlib.Algebra.Order.Field.Rat
import Mathlib.Algebra.Order.Floor.Ring
import Mathlib.Data.Rat.Floor

/-! Helper lemmas for C15: which fields the layer operations preserve, the invariant every reset
establishes, state equality after `reset(False)`. -/
set_option linter.unusedSimpArgs false
set_option linter.unusedVariables false
namespace HcipyVerif.Layer
open HcipyVerif.Shift

def Op.isIndep : Op → Bool
  | .reset true => true
  | _ => false

/-- a parameter setter -/
def Op.isSet : Op → Bool
  | .setCn2 _ | .setL0 _ | .setVel _ => true
  | _ => false

/-! ### finite layer -/

theorem FinL.reset_false_eq_fresh (L : FinL) : L.reset false = FinL.fresh L.nx L.ny L.vel L.par L.orig := by
  simp [FinL.reset, FinL.fresh, FinL.pickRng, FinL.makeNoise, FinL.draws]

theorem FinL.step_shape (L : FinL) (o : Op) : (L.step o).nx = L.nx ∧ (L.step o).ny = L.ny := by
  cases o with
  | evolve t => simp [FinL.step, FinL.evolve]
  | reset b => cases b <;> simp [FinL.step, FinL.reset, FinL.pickRng, FinL.makeNoise]
  | setCn2 c => simp [FinL.step, FinL.setCn2]
  | setL0 c => simp [FinL.step, FinL.setL0]
  | setVel c => simp [FinL.step, FinL.setVel]

theorem FinL.step_params (L : FinL) (o : Op) (h : o.isSet = false) :
    (L.step o).vel = L.vel ∧ (L.step o).par = L.par := by
  cases o with
  | evolve t => simp [FinL.step, FinL.evolve]
  | reset b => cases b <;> simp [FinL.step, FinL.reset, FinL.pickRng, FinL.makeNoise]
  | setCn2 c => simp [Op.isSet] at h
  | setL0 c => simp [Op.isSet] at h
  | setVel c => simp [Op.isSet] at h

theorem FinL.step_orig (L : FinL) (o : Op) (h : o.isIndep = false) : (L.step o).orig = L.orig := by
  cases o with
  | evolve t => simp [FinL.step, FinL.evolve]
  | reset b =>
    cases b
    · simp [FinL.step, FinL.reset, FinL.pickRng, FinL.makeNoise]
    · simp [Op.isIndep] at h
  | setCn2 c => simp [FinL.step, FinL.setCn2]
  | setL0 c => simp [FinL.step, FinL.setL0]
  | setVel c => simp [FinL.step, FinL.setVel]

theorem FinL.run_shape (L : FinL) (h : List Op) : (L.run h).nx = L.nx ∧ (L.run h).ny = L.ny := by
  induction h generalizing L with
  | nil => simp [FinL.run]
  | cons o h ih =>
    have := ih (L.step o)
    have hs := L.step_shape o
    simp only [FinL.run, List.foldl_cons] at this ⊢
    rw [this.1, this.2, hs.1, hs.2]; exact ⟨rfl, rfl⟩

theorem FinL.run_params (L : FinL) (h : List Op) (hh : ∀ o ∈ h, o.isSet = false) :
    (L.run h).vel = L.vel ∧ (L.run h).par = L.par := by
  induction h generalizing L with
  | nil => simp [FinL.run]
  | cons o h ih =>
    have := ih (L.step o) (fun o' ho' => hh o' (by simp [ho']))
    have hs := L.step_params o (hh o (by simp))
    simp only [FinL.run, List.foldl_cons] at this ⊢
    rw [this.1, this.2, hs.1, hs.2]; exact ⟨rfl, rfl⟩

theorem FinL.run_orig (L : FinL) (h : List Op) (hh : ∀ o ∈ h, o.isIndep = false) :
    (L.run h).orig = L.orig := by
  induction h generalizing L with
  | nil => simp [FinL.run]
  | cons o h ih =>
    have := ih (L.step o) (fun o' ho' => hh o' (by simp [ho']))
    simp only [FinL.run, List.foldl_cons] at this ⊢
    rw [this, L.step_orig o (hh o (by simp))]

theorem FinL.run_append (L : FinL) (h₁ h₂ : List Op) : L.run (h₁ ++ h₂) = (L.run h₁).run h₂ := by
  simp [FinL.run, List.foldl_append]

/-- what every reset establishes: the noise was drawn from the original generator's state and
the working generator is exactly past that draw -/
def FinL.Inv (L : FinL) : Prop := L.noise = L.orig ∧ L.rng = L.orig.draw L.draws

theorem FinL.reset_inv (L : FinL) (b : Bool) : (L.reset b).Inv := by
  cases b <;> simp [FinL.Inv, FinL.reset, FinL.pickRng, FinL.makeNoise, FinL.draws]

theorem FinL.step_inv (L : FinL) (o : Op) (hi : L.Inv) : (L.step o).Inv := by
  cases o with
  | evolve t => simpa [FinL.step, FinL.evolve, FinL.Inv, FinL.draws] using hi
  | reset b => exact L.reset_inv b
  | setCn2 c => simpa [FinL.step, FinL.setCn2, FinL.Inv, FinL.draws] using hi
  | setL0 c => simpa [FinL.step, FinL.setL0, FinL.Inv, FinL.draws] using hi
  | setVel c => simpa [FinL.step, FinL.setVel, FinL.Inv, FinL.draws] using hi

/-! ### infinite layer -/

theorem InfL.reset_false_eq_fresh (L : InfL) :
    L.reset false = InfL.fresh L.nx L.ny L.delta L.vel L.par L.orig := by
  simp [InfL.reset, InfL.fresh, InfL.pickRng, InfL.initScreen]

theorem InfL.extrudeN_params (w : Where) (k : Nat) (L : InfL) :
    (InfL.extrudeN w k L).nx = L.nx ∧ (InfL.extrudeN w k L).ny = L.ny ∧ (InfL.extrudeN w k L).delta = L.delta ∧
    (InfL.extrudeN w k L).vel = L.vel ∧ (InfL.extrudeN w k L).orig = L.orig ∧
    (InfL.extrudeN w k L).start = L.start ∧ (InfL.extrudeN w k L).par = L.par := by
  induction k generalizing L with
  | zero => simp [InfL.extrudeN]
  | succ k ih =>
    have := ih (L.extrude1 w)
    simp only [InfL.extrudeN]
    simpa [InfL.extrude1] using this

theorem InfL.step_shape (L : InfL) (o : Op) :
    (L.step o).nx = L.nx ∧ (L.step o).ny = L.ny ∧ (L.step o).delta = L.delta := by
  cases o with
  | evolve t =>
    simp only [InfL.step, InfL.evolve]
    split
    · simp
    · have h1 := InfL.extrudeN_params
      simp [InfL.evolveWith, h1]
  | reset b => cases b <;> simp [InfL.step, InfL.reset, InfL.pickRng, InfL.initScreen]
  | setCn2 c => simp [InfL.step, InfL.setCn2]
  | setL0 c => simp [InfL.step, InfL.setL0]
  | setVel c => simp [InfL.step, InfL.setVel]

theorem InfL.step_params (L : InfL) (o : Op) (h : o.isSet = false) :
    (L.step o).vel = L.vel ∧ (L.step o).par = L.par := by
  cases o with
  | evolve t =>
    simp only [InfL.step, InfL.evolve]
    split
    · simp
    · have h1 := InfL.extrudeN_params
      simp [InfL.evolveWith, h1]
  | reset b => cases b <;> simp [InfL.step, InfL.reset, InfL.pickRng, InfL.initScreen]
  | setCn2 c => simp [Op.isSet] at h
  | setL0 c => simp [Op.isSet] at h
  | setVel c => simp [Op.isSet] at h

theorem InfL.step_orig (L : InfL) (o : Op) (h : o.isIndep = false) : (L.step o).orig = L.orig := by
  cases o with
  | evolve t =>
    simp only [InfL.step, InfL.evolve]
    split
    · simp
    · have h1 := InfL.extrudeN_params
      simp [InfL.evolveWith, h1]
  | reset b =>
    cases b
    · simp [InfL.step, InfL.reset, InfL.pickRng, InfL.initScreen]
    · simp [Op.isIndep] at h
  | setCn2 c => simp [InfL.step, InfL.setCn2]
  | setL0 c => simp [InfL.step, InfL.setL0]
  | setVel c => simp [InfL.step, InfL.setVel]

theorem InfL.run_shape (L : InfL) (h : List Op) :
    (L.run h).nx = L.nx ∧ (L.run h).ny = L.ny ∧ (L.run h).delta = L.delta := by
  induction h generalizing L with
  | nil => simp [InfL.run]
  | cons o h ih =>
    have := ih (L.step o)
    have hs := L.step_shape o
    simp only [InfL.run, List.foldl_cons] at this ⊢
    rw [this.1, this.2.1, this.2.2, hs.1, hs.2.1, hs.2.2]; exact ⟨rfl, rfl, rfl⟩

theorem InfL.run_params (L : InfL) (h : List Op) (hh : ∀ o ∈ h, o.isSet = false) :
    (L.run h).vel = L.vel ∧ (L.run h).par = L.par := by
  induction h generalizing L with
  | nil => simp [InfL.run]
  | cons o h ih =>
    have := ih (L.step o) (fun o' ho' => hh o' (by simp [ho']))
    have hs := L.step_params o (hh o (by simp))
    simp only [InfL.run, List.foldl_cons] at this ⊢
    rw [this.1, this.2, hs.1, hs.2]; exact ⟨rfl, rfl⟩

theorem InfL.run_orig (L : InfL) (h : List Op) (hh : ∀ o ∈ h, o.isIndep = false) :
    (L.run h).orig = L.orig := by
  induction h generalizing L with
  | nil => simp [InfL.run]
  | cons o h ih =>
    have := ih (L.step o) (fun o' ho' => hh o' (by simp [ho']))
    simp only [InfL.run, List.foldl_cons] at this ⊢
    rw [this, L.step_orig o (hh o (by simp))]

/-- the side tables of `evolve_until` before the repair D18 (the code no longer exists in /repo): not part of the executed
model, kept here for the counterexample `direction_old_counterexample`, which runs the executed `InfL.evolveWith` on them -/
def Old.sideX (d : Int) : Where := if d < 0 then .left else .right
def Old.sideY (d : Int) : Where := if d < 0 then .bottom else .top

/-- the amplitudes: if `a₁ = sqrt c` and `a₂ = sqrt (k² c)` (`aᵢ ≥ 0`, `aᵢ² = …`) then `a₂ = k·a₁`
(pure algebra, used by `C15.phase_sqrt_strength`) -/
theorem sqrt_strength_amplitude {K : Type} [Field K] [LinearOrder K] [IsStrictOrderedRing K] (c k a₁ a₂ : K)
    (hk : 0 ≤ k) (h₁ : 0 ≤ a₁) (h₂ : 0 ≤ a₂) (e₁ : a₁ ^ 2 = c) (e₂ : a₂ ^ 2 = k ^ 2 * c) : a₂ = k * a₁ := by
  have h : (a₂ - k * a₁) * (a₂ + k * a₁) = 0 := by rw [← e₁] at e₂; linear_combination e₂
  rcases mul_eq_zero.mp h with h | h
  · linarith
  · have hka : 0 ≤ k * a₁ := mul_nonneg hk h₁
    have : a₂ = 0 := by linarith
    have : k * a₁ = 0 := by linarith
    linarith

theorem roundHalfEven_int (n : Int) : roundHalfEven (n : Rat) = n := by
  simp [roundHalfEven, Rat.floor_intCast]

theorem pixel_whole (a : Int) (δ : Rat) (hδ : δ ≠ 0) : pixel (a * δ) δ = a := by
  simp [pixel, mul_div_assoc, div_self hδ, roundHalfEven_int]


theorem sideX_off (d : Int) : (d.natAbs : Int) * (sideX d).off.1 = d ∧ (d.natAbs : Int) * (sideX d).off.2 = 0 := by
  unfold sideX; split <;> simp only [Where.off] <;> omega

theorem sideY_off (d : Int) : (d.natAbs : Int) * (sideY d).off.1 = 0 ∧ (d.natAbs : Int) * (sideY d).off.2 = d := by
  unfold sideY; split <;> simp only [Where.off] <;> omega


theorem dot_scale {K : Type} [CommRing K] (k : K) : ∀ (A st : List K), dot A (st.map (k * ·)) = k * dot A st
  | [], _ => by simp [dot]
  | _ :: _, [] => by simp [dot]
  | a :: A, b :: st => by simp [dot, dot_scale k A st]; ring


/-! ### the list surgery of `extrude` commutes with a pointwise map -/

theorem shaped_map {α β : Type} (f : α → β) (W : Nat) :
    ∀ (H : Nat) (s : List α), shaped W H (s.map f) = (shaped W H s).map (List.map f)
  | 0, _ => rfl
  | H + 1, s => by
    have ih := shaped_map f W H (s.drop W)
    simp only [shaped, List.map_cons]
    rw [← ih]; simp [List.map_take, List.map_drop]

theorem vstackNew_map {α β : Type} (f : α → β) (new : List α) (rows : List (List α)) :
    vstackNew (new.map f) (rows.map (List.map f)) = (vstackNew new rows).map (List.map f) := by
  simp [vstackNew, List.map_dropLast]

theorem flip2_map {α β : Type} (f : α → β) (rows : List (List α)) :
    flip2 (rows.map (List.map f)) = (flip2 rows).map (List.map f) := by
  unfold flip2
  simp [List.map_reverse, Function.comp_def]

theorem ravel_map {α β : Type} (f : α → β) (rows : List (List α)) :
    ravel (rows.map (List.map f)) = (ravel rows).map f := by
  simp [ravel, List.map_flatten]

theorem hstackNew_map {α β : Type} (f : α → β) : ∀ (new : List α) (rows : List (List α)),
    hstackNew (new.map f) (rows.map (List.map f)) = (hstackNew new rows).map (List.map f)
  | [], _ => by simp [hstackNew]
  | _ :: _, [] => by simp [hstackNew]
  | a :: new, r :: rows => by
    have := hstackNew_map f new rows
    simp only [hstackNew] at this
    simp [hstackNew, this, List.map_dropLast]

theorem extrude_map {α β : Type} (f : α → β) (w : Where) (W H : Nat) (new s : List α) :
    extrude w W H (new.map f) (s.map f) = (extrude w W H new s).map f := by
  have hr : (s.map f).reverse = s.reverse.map f := List.map_reverse.symm
  cases w <;>
    simp only [extrude, Where.flipped, Where.horizontal, if_true, if_false, Bool.false_eq_true, hr, shaped_map,
      hstackNew_map, vstackNew_map, flip2_map, ravel_map]

theorem getD_map_zero {K : Type} [MulZeroClass K] (k : K) (l : List K) (i : Nat) :
    (l.map (k * ·)).getD i 0 = k * l.getD i 0 := by
  simp only [List.getD_eq_getElem?_getD, List.getElem?_map]
  cases l[i]? <;> simp

theorem arSample_scale {K : Type} [CommRing K] (k amp : K) (A st B rnd : List K) :
    arSample A (st.map (k * ·)) B rnd (k * amp) = k * arSample A st B rnd amp := by
  simp only [arSample, dot_scale]; ring

theorem arExtrude_scale {K : Type} [CommRing K] (k amp : K) (w : Where) (W H : Nat) (A B : List (List K))
    (idx : List Nat) (rnd s : List K) :
    arExtrude w W H A B idx rnd (k * amp) (s.map (k * ·)) = (arExtrude w W H A B idx rnd amp s).map (k * ·) := by
  have hst : (idx.map fun i => (stencilView w (s.map (k * ·))).getD i 0)
      = (idx.map fun i => (stencilView w s).getD i 0).map (k * ·) := by
    rw [List.map_map]
    apply List.map_congr_left
    intro i _
    have : stencilView w (s.map (k * ·)) = (stencilView w s).map (k * ·) := by
      unfold stencilView; split <;> simp [List.map_reverse]
    rw [this]; exact getD_map_zero k _ i
  simp only [arExtrude, hst, arSample_scale]
  rw [← extrude_map]
  congr 1
  rw [List.map_zipWith]

/-- what every reset of the infinite layer establishes and every operation keeps: the realisation key is the
position of the original generator, and the working generator is past the draw of the initial screen -/
def InfL.Inv (L : InfL) : Prop :=
  L.start = L.orig.pos ∧ L.orig.pos + 4 * (L.nx * L.ny) ≤ L.rng.pos ∧ L.rng.seed = L.orig.seed

theorem InfL.reset_inv (L : InfL) (b : Bool) (hs : L.rng.seed = L.orig.seed) : (L.reset b).Inv := by
  cases b <;> simp [InfL.Inv, InfL.reset, InfL.pickRng, InfL.initScreen, Rng.draw, hs]

theorem InfL.extrudeN_rng (w : Where) (k : Nat) (L : InfL) :
    L.rng.pos ≤ (InfL.extrudeN w k L).rng.pos ∧ (InfL.extrudeN w k L).rng.seed = L.rng.seed := by
  induction k generalizing L with
  | zero => simp [InfL.extrudeN]
  | succ k ih =>
    have := ih (L.extrude1 w)
    simp only [InfL.extrudeN]
    have e1 : (L.extrude1 w).rng.pos = L.rng.pos + (if w.horizontal then L.ny else L.nx) := rfl
    have e2 : (L.extrude1 w).rng.seed = L.rng.seed := rfl
    rw [e1, e2] at this
    constructor
    · omega
    · exact this.2

theorem InfL.step_inv (L : InfL) (o : Op) (hi : L.Inv) : (L.step o).Inv := by
  cases o with
  | evolve t =>
    simp only [InfL.step, InfL.evolve]
    split
    · exact hi
    · simp only [Option.getD_some, InfL.evolveWith]
      generalize pixel (L.center.1 + L.vel.1 * (t - L.t)) L.delta.1 - pixel L.center.1 L.delta.1 = dx
      generalize pixel (L.center.2 + L.vel.2 * (t - L.t)) L.delta.2 - pixel L.center.2 L.delta.2 = dy
      have p1 := InfL.extrudeN_params (sideX dx) dx.natAbs L
      have r1 := InfL.extrudeN_rng (sideX dx) dx.natAbs L
      have p2 := InfL.extrudeN_params (sideY dy) dy.natAbs (InfL.extrudeN (sideX dx) dx.natAbs L)
      have r2 := InfL.extrudeN_rng (sideY dy) dy.natAbs (InfL.extrudeN (sideX dx) dx.natAbs L)
      obtain ⟨h1, h2, h3⟩ := hi
      refine ⟨?_, ?_, ?_⟩
      · simp only [p2.2.2.2.2.2.1, p1.2.2.2.2.2.1, p2.2.2.2.2.1, p1.2.2.2.2.1, h1]
      · simp only [p2.1, p2.2.1, p1.1, p1.2.1, p2.2.2.2.2.1, p1.2.2.2.2.1]
        omega
      · simp only [p2.2.2.2.2.1, p1.2.2.2.2.1, r2.2, r1.2, h3]
  | reset b => exact L.reset_inv b hi.2.2
  | setCn2 c => simpa [InfL.step, InfL.setCn2, InfL.Inv] using hi
  | setL0 c => simpa [InfL.step, InfL.setL0, InfL.Inv] using hi
  | setVel c => simpa [InfL.step, InfL.setVel, InfL.Inv] using hi

theorem InfL.run_inv (h : List Op) (L : InfL) (hi : L.Inv) : (L.run h).Inv := by
  induction h generalizing L with
  | nil => exact hi
  | cons o h ih => exact ih _ (L.step_inv o hi)


end HcipyVerif.Layer
