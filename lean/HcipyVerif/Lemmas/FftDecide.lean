import HcipyVerif.Model.FftDecide
import Mathlib.Algebra.Order.Field.Rat
import Mathlib.Tactic.Linarith

/-! # The exact decisions are unit free -/
set_option linter.unusedSimpArgs false
set_option linter.unusedVariables false

namespace HcipyVerif.Fft

theorem shiftNeeded_false_iff (s : List ℚ) : shiftNeeded s = false ↔ ∀ x ∈ s, x = 0 := by
  unfold shiftNeeded
  induction s with
  | nil => simp
  | cons a t ih => simp [List.any_cons, ih]

theorem bne_scale (c : ℚ) (hc : c ≠ 0) (a : ℚ) : (c * a != 0) = (a != 0) := by
  rw [Bool.eq_iff_iff]
  simp only [bne_iff_ne, ne_eq, mul_eq_zero, hc, false_or]

theorem shiftNeeded_scale (c : ℚ) (hc : c ≠ 0) (s : List ℚ) :
    shiftNeeded (s.map (fun x => c * x)) = shiftNeeded s := by
  unfold shiftNeeded
  induction s with
  | nil => rfl
  | cons a t ih =>
    rw [List.map_cons, List.any_cons, List.any_cons, ih, bne_scale c hc a]

theorem cutoutNeeded_false_iff (M N : List ℕ) : cutoutNeeded M N = false ↔ M = N := by
  unfold cutoutNeeded; simp

end HcipyVerif.Fft
