import HcipyVerif.Lemmas.NearFieldAbstract

/-!
# C04 — the executed scalar-polymorphic propagators at `ℂ`

`Model/NearField.lean` defines `fourierFilter`, `fourierFilterBackward`, `fresnelTF`, `fresnelForward`,
`fresnelBackward`, `fourierFilterM`, `fourierFilterMBackward` once, for any `Scalar C` (rationals, the character
`t ↦ exp(2πi t)`, conjugation).  The driver runs them at `psumScalar` (formal phase sums).  Here:

* `cScalar : Scalar ℂ` — the scalar of the theorems (`exp(2πi t)`, complex conjugation);
* `fourierFilter_eq_filter`, `fourierFilterBackward_eq_filterBackward` — at `cScalar` the executed pipeline *is* the
  abstract operator `filter (dftPair2 …) (cutoutEmb p h)` of `Lemmas/NearFieldAbstract.lean` (so its theorems
  instantiate), for any transfer function given as a function on `ℕ × ℕ`;
* `ev_fourierFilter`, `ev_fresnelTF`, … — `PSum.ev` (the complex number a formal phase sum denotes) maps the driver's run
  onto the run at `cScalar`;
* the transfer function `fresnelTF cScalar`: modulus `≤ 1` (`= 1` without oversampling), `D(-z) = conj D(z)`,
  `D(z₁)·D(z₂) = D(z₁+z₂)`; the angular-spectrum sample `angSample` from the executed radicand.
-/

set_option linter.unusedSimpArgs false
set_option linter.unusedVariables false
set_option linter.unusedSectionVars false

open Finset Complex ComplexConjugate

namespace HcipyVerif.NearField

open HcipyVerif.Fft (expT expE expT_isChar expE_isChar expT_period expT_conj expE_conj PSum Term fracPart)

/-- The scalar of the theorems: `ℂ`, `t ↦ exp(2πi t)`, complex conjugation. -/
noncomputable def cScalar : Scalar ℂ :=
  ⟨fun q => ((q : ℚ) : ℂ), fun t => expT ((t : ℚ) : ℝ), starRingEnd ℂ⟩

theorem cScalar_kerF (M : ℕ) : cScalar.kerF M = kF M := by
  funext n
  unfold Scalar.kerF kF
  show expT _ = _
  congr 1
  push_cast
  rfl

theorem cScalar_kerB (M : ℕ) : cScalar.kerB M = kB M := by
  funext n
  unfold Scalar.kerB kB
  show expT _ = _
  congr 1
  push_cast
  rfl

theorem cScalar_scale (N : ℕ) : cScalar.ofRat (1 / ((N : ℕ) : ℚ)) = ((N : ℕ) : ℂ)⁻¹ := by
  show (((1 / ((N : ℕ) : ℚ) : ℚ)) : ℂ) = _
  push_cast
  rw [one_div]

theorem fourierFilter_c (p : Params) (D x : ℕ → ℕ → ℂ) :
    fourierFilter cScalar p D x
      = filterP p (kF (my p)) (kF (mx p)) (kB (my p)) (kB (mx p)) (((my p * mx p : ℕ) : ℂ)⁻¹) D x := by
  unfold fourierFilter
  rw [cScalar_kerF, cScalar_kerF, cScalar_kerB, cScalar_kerB, cScalar_scale]

theorem fourierFilterBackward_c (p : Params) (D x : ℕ → ℕ → ℂ) :
    fourierFilterBackward cScalar p D x
      = filterPBackward (starRingEnd ℂ) p (kF (my p)) (kF (mx p)) (kB (my p)) (kB (mx p))
          (((my p * mx p : ℕ) : ℂ)⁻¹) D x := by
  unfold fourierFilterBackward
  rw [cScalar_kerF, cScalar_kerF, cScalar_kerB, cScalar_kerB, cScalar_scale]
  rfl

theorem fourierFilterM_c {n : ℕ} (p : Params) (D : ℕ → ℕ → Fin n → Fin n → ℂ) (x : Fin n → ℕ → ℕ → ℂ) :
    fourierFilterM cScalar p D x
      = filterMP p (kF (my p)) (kF (mx p)) (kB (my p)) (kB (mx p)) (((my p * mx p : ℕ) : ℂ)⁻¹) D x := by
  unfold fourierFilterM
  rw [cScalar_kerF, cScalar_kerF, cScalar_kerB, cScalar_kerB, cScalar_scale]

theorem fourierFilterMBackward_c {n : ℕ} (p : Params) (D : ℕ → ℕ → Fin n → Fin n → ℂ) (x : Fin n → ℕ → ℕ → ℂ) :
    fourierFilterMBackward cScalar p D x
      = filterMPBackward (starRingEnd ℂ) p (kF (my p)) (kF (mx p)) (kB (my p)) (kB (mx p))
          (((my p * mx p : ℕ) : ℂ)⁻¹) D x := by
  unfold fourierFilterMBackward
  rw [cScalar_kerF, cScalar_kerF, cScalar_kerB, cScalar_kerB, cScalar_scale]
  rfl

/-- The transfer function of the executed pipeline (a function on `ℕ × ℕ`, read on `[0,My)×[0,Mx)` only) as a function on
the internal grid. -/
def onGrid {My Mx : ℕ} (D : ℕ → ℕ → ℂ) : Fin My × Fin Mx → ℂ := fun m => D (m.1 : ℕ) (m.2 : ℕ)

/-- **The executed pipeline at `ℂ` is the abstract `FourierFilter` operator** with the DFT of C01/C02 and the executable
cut-out. -/
theorem fourierFilter_eq_filter (p : Params) (h : padOK p = true) (D : ℕ → ℕ → ℂ) (x : Fin p.ny × Fin p.nx → ℂ)
    (j : Fin p.ny × Fin p.nx) :
    fourierFilter cScalar p D (ext2 x) (j.1 : ℕ) (j.2 : ℕ)
      = filter (dftPair2 (my p) (mx p) (my_pos h) (mx_pos h)) (cutoutEmb p h) (onGrid D) x j := by
  rw [filter_dft2_apply, fourierFilter_c]
  unfold filterP
  apply filterN_congr
  · intro a ha b hb
    unfold ext2 onGrid
    rw [dif_pos ⟨ha, hb⟩]
  · intro a _ b _
    rfl

theorem fourierFilterBackward_eq_filterBackward (p : Params) (h : padOK p = true) (D : ℕ → ℕ → ℂ)
    (x : Fin p.ny × Fin p.nx → ℂ) (j : Fin p.ny × Fin p.nx) :
    fourierFilterBackward cScalar p D (ext2 x) (j.1 : ℕ) (j.2 : ℕ)
      = filterBackward (dftPair2 (my p) (mx p) (my_pos h) (mx_pos h)) (cutoutEmb p h) (onGrid D) x j := by
  rw [filterBackward_dft2_apply, fourierFilterBackward_c]
  unfold filterPBackward filterNBackward
  apply filterN_congr
  · intro a ha b hb
    unfold ext2 onGrid
    rw [dif_pos ⟨ha, hb⟩]
  · intro a _ b _
    rfl

/-- function form (the output as a field on the input grid) -/
theorem fourierFilter_fun (p : Params) (h : padOK p = true) (D : ℕ → ℕ → ℂ) (x : Fin p.ny × Fin p.nx → ℂ) :
    (fun j : Fin p.ny × Fin p.nx => fourierFilter cScalar p D (ext2 x) (j.1 : ℕ) (j.2 : ℕ))
      = filter (dftPair2 (my p) (mx p) (my_pos h) (mx_pos h)) (cutoutEmb p h) (onGrid D) x :=
  funext fun j => fourierFilter_eq_filter p h D x j

theorem fourierFilterBackward_fun (p : Params) (h : padOK p = true) (D : ℕ → ℕ → ℂ) (x : Fin p.ny × Fin p.nx → ℂ) :
    (fun j : Fin p.ny × Fin p.nx => fourierFilterBackward cScalar p D (ext2 x) (j.1 : ℕ) (j.2 : ℕ))
      = filterBackward (dftPair2 (my p) (mx p) (my_pos h) (mx_pos h)) (cutoutEmb p h) (onGrid D) x :=
  funext fun j => fourierFilterBackward_eq_filterBackward p h D x j

/-! ## what the driver computes denotes the run at `cScalar` -/

theorem ev_scale' (N : ℕ) : PSum.ev (psumScalar.ofRat (1 / ((N : ℕ) : ℚ))) = ((N : ℕ) : ℂ)⁻¹ := ev_scale N

theorem ev_fourierFilter (p : Params) (D x : ℕ → ℕ → PSum) (ky kx : ℕ) :
    PSum.ev (fourierFilter psumScalar p D x ky kx)
      = fourierFilter cScalar p (fun a b => PSum.ev (D a b)) (fun a b => PSum.ev (x a b)) ky kx := by
  rw [fourierFilter_c]
  unfold fourierFilter filterP
  rw [filterN_map PSum.ev PSum.ev_zero PSum.ev_add PSum.ev_mul, ev_scale',
    funext (ev_pKerF (my p)), funext (ev_pKerF (mx p)), funext (ev_pKerB (my p)), funext (ev_pKerB (mx p))]

theorem ev_fourierFilterBackward (p : Params) (D x : ℕ → ℕ → PSum) (ky kx : ℕ) :
    PSum.ev (fourierFilterBackward psumScalar p D x ky kx)
      = fourierFilterBackward cScalar p (fun a b => PSum.ev (D a b)) (fun a b => PSum.ev (x a b)) ky kx := by
  rw [fourierFilterBackward_c]
  unfold fourierFilterBackward filterPBackward filterNBackward
  rw [filterN_map PSum.ev PSum.ev_zero PSum.ev_add PSum.ev_mul, ev_scale',
    funext (ev_pKerF (my p)), funext (ev_pKerF (mx p)), funext (ev_pKerB (my p)), funext (ev_pKerB (mx p))]
  have hc : ∀ a : PSum, PSum.ev (psumScalar.conj a) = conj (PSum.ev a) := ev_psumConj
  simp only [hc]

theorem ev_fourierFilterM {n : ℕ} (p : Params) (D : ℕ → ℕ → Fin n → Fin n → PSum) (x : Fin n → ℕ → ℕ → PSum)
    (t : Fin n) (ky kx : ℕ) :
    PSum.ev (fourierFilterM psumScalar p D x t ky kx)
      = fourierFilterM cScalar p (fun a b i k => PSum.ev (D a b i k)) (fun k a b => PSum.ev (x k a b)) t ky kx := by
  rw [fourierFilterM_c]
  unfold fourierFilterM filterMP
  rw [filterMN_map PSum.ev PSum.ev_zero PSum.ev_add PSum.ev_mul, ev_scale',
    funext (ev_pKerF (my p)), funext (ev_pKerF (mx p)), funext (ev_pKerB (my p)), funext (ev_pKerB (mx p))]

theorem ev_fourierFilterMBackward {n : ℕ} (p : Params) (D : ℕ → ℕ → Fin n → Fin n → PSum)
    (x : Fin n → ℕ → ℕ → PSum) (t : Fin n) (ky kx : ℕ) :
    PSum.ev (fourierFilterMBackward psumScalar p D x t ky kx)
      = fourierFilterMBackward cScalar p (fun a b i k => PSum.ev (D a b i k)) (fun k a b => PSum.ev (x k a b))
          t ky kx := by
  rw [fourierFilterMBackward_c]
  unfold fourierFilterMBackward filterMPBackward filterMNBackward
  rw [filterMN_map PSum.ev PSum.ev_zero PSum.ev_add PSum.ev_mul, ev_scale',
    funext (ev_pKerF (my p)), funext (ev_pKerF (mx p)), funext (ev_pKerB (my p)), funext (ev_pKerB (mx p))]
  have hc : ∀ a : PSum, PSum.ev (psumScalar.conj a) = conj (PSum.ev a) := ev_psumConj
  unfold conjT
  simp only [hc]

/-! ## the Fresnel transfer function at `ℂ` -/

theorem foldr_add_eq_sum (l : List ℂ) : l.foldr (· + ·) 0 = l.sum := by
  induction l with
  | nil => rfl
  | cons a l ih => rw [List.foldr_cons, List.sum_cons, ih]

theorem meanTurns_c (l : List ℚ) : meanTurns cScalar l = listMean (l.map fun t => expT ((t : ℚ) : ℝ)) := by
  unfold meanTurns listMean
  show (((1 / (l.length : ℚ) : ℚ)) : ℂ) * (l.map (fun t => expT ((t : ℚ) : ℝ))).foldr (· + ·) 0 = _
  rw [foldr_add_eq_sum, List.length_map]
  push_cast
  ring

theorem norm_expT (t : ℝ) : ‖expT t‖ = 1 := by
  unfold expT
  have : (2 * (Real.pi : ℂ) * (t : ℂ) * I) = ((2 * Real.pi * t : ℝ) : ℂ) * I := by push_cast; ring
  rw [this, Complex.norm_exp_ofReal_mul_I]

theorem expT_frac (t : ℚ) : expT ((frac t : ℚ) : ℝ) = expT ((t : ℚ) : ℝ) := expT_fracPart t

theorem expT_eq_cexp (t : ℚ) : expT ((t : ℚ) : ℝ) = cexp (((2 * Real.pi * ((t : ℚ) : ℝ) : ℝ) : ℂ) * I) := by
  unfold expT
  congr 1
  push_cast
  ring

theorem ev_meanTurns (l : List ℚ) : PSum.ev (meanTurns psumScalar l) = meanTurns cScalar l := by
  rw [ev_psumMeanTurns, meanTurns_c]
  congr 1
  apply List.map_congr_left
  intro t _
  exact (expT_eq_cexp t).symm

theorem ev_fresnelTF (p : Params) (qy qx : ℕ) :
    PSum.ev (fresnelTF psumScalar p qy qx) = fresnelTF cScalar p qy qx := ev_meanTurns _

theorem ev_fresnelForward (p : Params) (X : ℕ → ℕ → PSum) (ky kx : ℕ) :
    PSum.ev (fresnelForward psumScalar p X ky kx) = fresnelForward cScalar p (fun a b => PSum.ev (X a b)) ky kx := by
  unfold fresnelForward
  rw [ev_fourierFilter]
  congr 1
  funext a b
  exact ev_fresnelTF p a b

theorem ev_fresnelBackward (p : Params) (X : ℕ → ℕ → PSum) (ky kx : ℕ) :
    PSum.ev (fresnelBackward psumScalar p X ky kx) = fresnelBackward cScalar p (fun a b => PSum.ev (X a b)) ky kx := by
  unfold fresnelBackward
  rw [ev_fourierFilterBackward]
  congr 1
  funext a b
  exact ev_fresnelTF p a b

theorem norm_meanTurns_le_one (l : List ℚ) : ‖meanTurns cScalar l‖ ≤ 1 := by
  rw [meanTurns_c]
  apply norm_listMean_le_one
  intro a ha
  rw [List.mem_map] at ha
  obtain ⟨t, _, rfl⟩ := ha
  exact (norm_expT _).le

/-- any padding, any oversampling, either sign of `z`: `|D| ≤ 1` at every internal frequency -/
theorem norm_fresnelTF_le_one (p : Params) (qy qx : ℕ) : ‖fresnelTF cScalar p qy qx‖ ≤ 1 :=
  norm_meanTurns_le_one _

/-- `num_oversampling = 1`: the transfer function is unimodular -/
theorem norm_fresnelTF_eq_one {p : Params} (hx : p.sx = 1) (hy : p.sy = 1) (qy qx : ℕ) :
    ‖fresnelTF cScalar p qy qx‖ = 1 := by
  unfold fresnelTF fresnelSubTurns
  rw [subFreqs_of_no_oversampling hx hy, List.map_singleton, meanTurns_c, List.map_singleton, listMean_singleton]
  exact norm_expT _

theorem fresnelTurns_withZ (p : Params) (z a b : ℚ) :
    fresnelTurns (withParam p (.distance z)) a b = p.n * z / p.lam - z * p.lam * (a * a + b * b) / (2 * p.n) := rfl

theorem fresnelTurns_self (p : Params) (a b : ℚ) :
    fresnelTurns p a b = p.n * p.z / p.lam - p.z * p.lam * (a * a + b * b) / (2 * p.n) := rfl

theorem fresnelTurns_add (p : Params) (z₁ z₂ a b : ℚ) :
    fresnelTurns (withParam p (.distance z₂)) a b + fresnelTurns (withParam p (.distance z₁)) a b
      = fresnelTurns (withParam p (.distance (z₁ + z₂))) a b := by
  rw [fresnelTurns_withZ, fresnelTurns_withZ, fresnelTurns_withZ]
  ring

/-- `D(-z) = conj D(z)` at every internal frequency, sub-pixel average included. -/
theorem fresnelTF_neg_z (p : Params) (qy qx : ℕ) :
    fresnelTF cScalar (withParam p (.distance (-p.z))) qy qx = conj (fresnelTF cScalar p qy qx) := by
  unfold fresnelTF
  rw [meanTurns_c, meanTurns_c, conj_listMean]
  unfold fresnelSubTurns
  rw [List.map_map, List.map_map, List.map_map]
  show listMean (List.map _ (subFreqs p (ifftshiftIdx (mx p) qx) (ifftshiftIdx (my p) qy)))
    = listMean (List.map _ (subFreqs p (ifftshiftIdx (mx p) qx) (ifftshiftIdx (my p) qy)))
  congr 1
  apply List.map_congr_left
  rintro ⟨a, b⟩ _
  simp only [Function.comp]
  rw [expT_frac, expT_frac, fresnelTurns_withZ, fresnelTurns_self, expT_conj, ← Rat.cast_neg]
  congr 2
  ring

/-- `num_oversampling = 1`: `D(z₂)·D(z₁) = D(z₁+z₂)` at every internal frequency. -/
theorem fresnelTF_mul {p : Params} (hx : p.sx = 1) (hy : p.sy = 1) (z₁ z₂ : ℚ) (qy qx : ℕ) :
    fresnelTF cScalar (withParam p (.distance z₂)) qy qx * fresnelTF cScalar (withParam p (.distance z₁)) qy qx
      = fresnelTF cScalar (withParam p (.distance (z₁ + z₂))) qy qx := by
  unfold fresnelTF fresnelSubTurns
  rw [subFreqs_of_no_oversampling (p := withParam p (.distance z₂)) hx hy,
    subFreqs_of_no_oversampling (p := withParam p (.distance z₁)) hx hy,
    subFreqs_of_no_oversampling (p := withParam p (.distance (z₁ + z₂))) hx hy]
  simp only [List.map_singleton, meanTurns_c, listMean_singleton]
  rw [expT_frac, expT_frac, expT_frac, ← expT_isChar.add, ← Rat.cast_add]
  show expT (((fresnelTurns (withParam p (.distance z₂)) (nu p.dx (mx p) (ifftshiftIdx (mx p) qx) 0)
        (nu p.dy (my p) (ifftshiftIdx (my p) qy) 0)
      + fresnelTurns (withParam p (.distance z₁)) (nu p.dx (mx p) (ifftshiftIdx (mx p) qx) 0)
        (nu p.dy (my p) (ifftshiftIdx (my p) qy) 0) : ℚ)) : ℝ)
    = expT ((fresnelTurns (withParam p (.distance (z₁ + z₂))) (nu p.dx (mx p) (ifftshiftIdx (mx p) qx) 0)
        (nu p.dy (my p) (ifftshiftIdx (my p) qy) 0) : ℚ) : ℝ)
  rw [fresnelTurns_add]

/-! ## the angular-spectrum sample from the executed radicand -/

/-- The angular-spectrum transfer function at a sub-sample with radicand `r = (n/λ)² - ν²` (what the driver op `tfq`
prints, `angularSubRadicands`), decay distance `ez` (`evanescentZ p = |z|`) and distance `z`: `exp(2πi z √r)` for a
propagating wave (`r ≥ 0`), `exp(-2π·ez·√(-r))` for an evanescent one — the formula by which the harness turns the
driver's answer into the number it compares with the running code's array. -/
noncomputable def angSample (z ez r : ℚ) : ℂ :=
  if 0 ≤ r then cexp (((2 * Real.pi * Real.sqrt ((r : ℚ) : ℝ) * ((z : ℚ) : ℝ) : ℝ) : ℂ) * I)
  else cexp (((-(2 * Real.pi * Real.sqrt (-((r : ℚ) : ℝ)) * ((ez : ℚ) : ℝ)) : ℝ) : ℂ))

theorem norm_angSample_of_propagating {z ez r : ℚ} (h : 0 ≤ r) : ‖angSample z ez r‖ = 1 := by
  unfold angSample
  rw [if_pos h, Complex.norm_exp_ofReal_mul_I]

theorem norm_angSample_of_evanescent {z ez r : ℚ} (h : r < 0) :
    ‖angSample z ez r‖ = Real.exp (-(2 * Real.pi * Real.sqrt (-((r : ℚ) : ℝ)) * ((ez : ℚ) : ℝ))) := by
  unfold angSample
  rw [if_neg (not_le.mpr h), Complex.norm_exp_ofReal]

theorem norm_angSample_le_one {z ez r : ℚ} (hez : 0 ≤ ez) : ‖angSample z ez r‖ ≤ 1 := by
  by_cases h : 0 ≤ r
  · exact (norm_angSample_of_propagating h).le
  · rw [norm_angSample_of_evanescent (not_le.mp h), Real.exp_le_one_iff]
    have h1 := Real.sqrt_nonneg (-((r : ℚ) : ℝ))
    have h2 : (0 : ℝ) ≤ ((ez : ℚ) : ℝ) := by exact_mod_cast hez
    have h3 := Real.pi_pos
    have : 0 ≤ 2 * Real.pi * Real.sqrt (-((r : ℚ) : ℝ)) * ((ez : ℚ) : ℝ) := by positivity
    linarith

theorem evanescentZ_nonneg (p : Params) : 0 ≤ evanescentZ p := by
  unfold evanescentZ
  rw [ratAbs_eq_abs]
  exact abs_nonneg _

theorem angSample_neg_z (z ez r : ℚ) : angSample (-z) ez r = conj (angSample z ez r) := by
  unfold angSample
  split_ifs with h
  · rw [conj_exp_ofReal_mul_I]
    congr 3
    push_cast
    ring
  · rw [← Complex.exp_conj, Complex.conj_ofReal]

/-- The angular-spectrum transfer function that multiplies FFT bin `(qy,qx)`: the sub-pixel mean of `angSample` over the
executed radicands `angularSubRadicands` of the centred pixel (`ifftshiftIdx`) — the number the harness computes from the
driver's answer to `tfq` (`model_tf_value`) and compares with the array the real filter multiplies with. -/
noncomputable def angularTF (p : Params) (qy qx : ℕ) : ℂ :=
  listMean ((angularSubRadicands p (ifftshiftIdx (mx p) qx) (ifftshiftIdx (my p) qy)).map
    (angSample p.z (evanescentZ p)))

theorem norm_angularTF_le_one (p : Params) (qy qx : ℕ) : ‖angularTF p qy qx‖ ≤ 1 := by
  unfold angularTF
  apply norm_listMean_le_one
  intro a ha
  rw [List.mem_map] at ha
  obtain ⟨r, _, rfl⟩ := ha
  exact norm_angSample_le_one (evanescentZ_nonneg p)

theorem evanescentZ_neg_z (p : Params) : evanescentZ (withParam p (.distance (-p.z))) = evanescentZ p := by
  show ratAbs (-p.z) = ratAbs p.z
  rw [ratAbs_eq_abs, ratAbs_eq_abs, abs_neg]

/-- `D(-z) = conj D(z)` at every internal frequency, evanescent or not, sub-pixel average included (repaired code). -/
theorem angularTF_neg_z (p : Params) (qy qx : ℕ) :
    angularTF (withParam p (.distance (-p.z))) qy qx = conj (angularTF p qy qx) := by
  unfold angularTF
  rw [conj_listMean, List.map_map, evanescentZ_neg_z]
  show listMean (List.map _ (angularSubRadicands p (ifftshiftIdx (mx p) qx) (ifftshiftIdx (my p) qy)))
    = listMean (List.map _ (angularSubRadicands p (ifftshiftIdx (mx p) qx) (ifftshiftIdx (my p) qy)))
  congr 1
  apply List.map_congr_left
  intro r _
  exact angSample_neg_z p.z (evanescentZ p) r

/-! ## the impulse-response branch of the Fresnel propagator and the regime switch -/

theorem ev_fresnelIrTFc (p : Params) (iy ix : ℕ) :
    PSum.ev (fresnelIrTFc psumScalar p iy ix) = fresnelIrTFc cScalar p iy ix := by
  unfold fresnelIrTFc
  rw [PSum.ev_mul]
  congr 1
  · exact PSum.ev_ofRat _
  · rw [sumRange_map PSum.ev PSum.ev_zero PSum.ev_add]
    congr 1
    funext jy
    rw [sumRange_map PSum.ev PSum.ev_zero PSum.ev_add]
    congr 1
    funext jx
    rw [PSum.ev_mul, PSum.ev_mul, ev_meanTurns, ev_pKerF, ev_pKerF, cScalar_kerF, cScalar_kerF]

theorem ev_fresnelIrTF (p : Params) (qy qx : ℕ) :
    PSum.ev (fresnelIrTF psumScalar p qy qx) = fresnelIrTF cScalar p qy qx := ev_fresnelIrTFc p _ _

theorem ev_fresnelTFSwitched (p : Params) (qy qx : ℕ) :
    PSum.ev (fresnelTFSwitched psumScalar p qy qx) = fresnelTFSwitched cScalar p qy qx := by
  unfold fresnelTFSwitched
  split
  · exact ev_fresnelIrTF p qy qx
  · exact ev_fresnelTF p qy qx

theorem ev_fresnelPropagatorForward (p : Params) (X : ℕ → ℕ → PSum) (ky kx : ℕ) :
    PSum.ev (fresnelPropagatorForward psumScalar p X ky kx)
      = fresnelPropagatorForward cScalar p (fun a b => PSum.ev (X a b)) ky kx := by
  unfold fresnelPropagatorForward
  split
  · rw [ev_fourierFilter]
    congr 1
    funext a b
    exact ev_fresnelIrTF p a b
  · exact ev_fresnelForward p X ky kx

theorem ev_fresnelPropagatorBackward (p : Params) (X : ℕ → ℕ → PSum) (ky kx : ℕ) :
    PSum.ev (fresnelPropagatorBackward psumScalar p X ky kx)
      = fresnelPropagatorBackward cScalar p (fun a b => PSum.ev (X a b)) ky kx := by
  unfold fresnelPropagatorBackward
  split
  · rw [ev_fourierFilterBackward]
    congr 1
    funext a b
    exact ev_fresnelIrTF p a b
  · exact ev_fresnelBackward p X ky kx

/-- both branches are one `fourierFilter` with the switched transfer function -/
theorem fresnelPropagatorForward_eq {C : Type} [Zero C] [Add C] [Mul C] (S : Scalar C) (p : Params) (x : ℕ → ℕ → C) :
    fresnelPropagatorForward S p x = fourierFilter S p (fresnelTFSwitched S p) x := by
  unfold fresnelPropagatorForward fresnelTFSwitched fresnelForward
  split <;> rfl

theorem fresnelPropagatorBackward_eq {C : Type} [Zero C] [Add C] [Mul C] (S : Scalar C) (p : Params) (x : ℕ → ℕ → C) :
    fresnelPropagatorBackward S p x = fourierFilterBackward S p (fresnelTFSwitched S p) x := by
  unfold fresnelPropagatorBackward fresnelTFSwitched fresnelBackward
  split <;> rfl

/-- `impulse_response` of `FresnelPropagator.make_instance` as the code writes it:
`exp(ikz)/(iλz) · exp(i k/(2z) (x²+y²))` at `k = 2πn/λ`. -/
noncomputable def fresnelIrAt (p : Params) (x y : ℚ) : ℂ :=
  cexp (((waveK p * (p.z : ℝ) : ℝ) : ℂ) * I) / (I * ((p.lam : ℝ) : ℂ) * ((p.z : ℝ) : ℂ))
    * cexp (((waveK p / (2 * (p.z : ℝ)) * ((x : ℝ) * (x : ℝ) + (y : ℝ) * (y : ℝ)) : ℝ) : ℂ) * I)

theorem fresnelIrAt_eq_turns (p : Params) (hl : p.lam ≠ 0) (hz : p.z ≠ 0) (x y : ℚ) :
    fresnelIrAt p x y = cScalar.ofRat (fresnelIrAmp p) * cScalar.turns (fresnelIrTurns p x y) := by
  have hl' : (p.lam : ℝ) ≠ 0 := by exact_mod_cast hl
  have hz' : (p.z : ℝ) ≠ 0 := by exact_mod_cast hz
  have hlc : ((p.lam : ℝ) : ℂ) ≠ 0 := by exact_mod_cast hl'
  have hzc : ((p.z : ℝ) : ℂ) ≠ 0 := by exact_mod_cast hz'
  show _ = (((fresnelIrAmp p : ℚ)) : ℂ) * expT ((fresnelIrTurns p x y : ℚ) : ℝ)
  rw [expT_eq_cexp]
  have e : (2 * Real.pi * ((fresnelIrTurns p x y : ℚ) : ℝ) : ℝ)
      = -(Real.pi / 2) + (waveK p * (p.z : ℝ)
          + waveK p / (2 * (p.z : ℝ)) * ((x : ℝ) * (x : ℝ) + (y : ℝ) * (y : ℝ))) := by
    unfold fresnelIrTurns waveK
    push_cast
    field_simp
    ring
  rw [e, Complex.ofReal_add, Complex.ofReal_add, add_mul, add_mul, Complex.exp_add, Complex.exp_add]
  have hI : cexp (((-(Real.pi / 2) : ℝ) : ℂ) * I) = -I := by
    have : (((-(Real.pi / 2) : ℝ) : ℂ) * I) = -(↑Real.pi / 2 * I) := by push_cast; ring
    rw [this, Complex.exp_neg, Complex.exp_pi_div_two_mul_I, Complex.inv_I]
  rw [hI]
  unfold fresnelIrAt fresnelIrAmp
  have hamp : (((1 / (p.lam * p.z) : ℚ)) : ℂ) = 1 / (((p.lam : ℝ) : ℂ) * ((p.z : ℝ) : ℂ)) := by push_cast; rfl
  rw [hamp]
  have hinv : (I * ((p.lam : ℝ) : ℂ) * ((p.z : ℝ) : ℂ))⁻¹ = (((p.lam : ℝ) : ℂ) * ((p.z : ℝ) : ℂ))⁻¹ * (-I) := by
    rw [mul_assoc, mul_inv, Complex.inv_I]
    ring
  rw [div_eq_mul_inv, hinv, one_div]
  ring


theorem sumRange_mul_left (c : ℂ) (n : ℕ) (g : ℕ → ℂ) : c * Fft.sumRange n g = Fft.sumRange n (fun i => c * g i) := by
  induction n with
  | zero => exact mul_zero c
  | succ n ih => rw [Fft.sumRange, Fft.sumRange, mul_add, ih]

theorem sum_flatMap_mul {α : Type} (c : ℂ) (l : List α) (f g : α → List ℂ) (hfg : ∀ a, (f a).sum = c * (g a).sum) :
    (l.flatMap f).sum = c * (l.flatMap g).sum := by
  induction l with
  | nil => simp
  | cons a l ih => rw [List.flatMap_cons, List.flatMap_cons, List.sum_append, List.sum_append, hfg, ih, mul_add]

/-- the sub-pixel mean of the impulse response as the code writes it is `amp · meanTurns` of the executed phases -/
theorem listMean_fresnelIrAt (p : Params) (hl : p.lam ≠ 0) (hz : p.z ≠ 0) (jx jy : ℕ) :
    listMean ((dithers p.sy).flatMap fun dy => (dithers p.sx).map fun dx =>
        fresnelIrAt p (xCoord p.dx (mx p) jx dx) (xCoord p.dy (my p) jy dy))
      = cScalar.ofRat (fresnelIrAmp p) * meanTurns cScalar (fresnelIrSubTurns p jx jy) := by
  rw [meanTurns_c]
  unfold fresnelIrSubTurns listMean
  rw [List.length_map, List.map_flatMap, List.length_flatMap, List.length_flatMap, ← mul_div_assoc]
  congr 1
  · apply sum_flatMap_mul
    intro dy
    rw [List.map_map, ← List.sum_map_mul_left]
    congr 1
    apply List.map_congr_left
    intro dx _
    simp only [Function.comp]
    rw [fresnelIrAt_eq_turns p hl hz, expT_frac]
    rfl
  · simp only [List.length_map]

theorem fresnelIrTFc_eq_sampled (p : Params) (hl : p.lam ≠ 0) (hz : p.z ≠ 0) (iy ix : ℕ) :
    fresnelIrTFc cScalar p iy ix
      = ((p.dx * p.dy : ℚ) : ℂ) * Fft.sumRange (my p) fun jy => Fft.sumRange (mx p) fun jx =>
          listMean ((dithers p.sy).flatMap fun dy => (dithers p.sx).map fun dx =>
              fresnelIrAt p (xCoord p.dx (mx p) jx dx) (xCoord p.dy (my p) jy dy))
            * (kF (my p) (centred (my p) jy * centred (my p) iy) * kF (mx p) (centred (mx p) jx * centred (mx p) ix)) := by
  unfold fresnelIrTFc
  simp only [listMean_fresnelIrAt p hl hz, cScalar_kerF]
  have hsplit : cScalar.ofRat (p.dx * p.dy * fresnelIrAmp p)
      = ((p.dx * p.dy : ℚ) : ℂ) * cScalar.ofRat (fresnelIrAmp p) := by
    show (((p.dx * p.dy * fresnelIrAmp p : ℚ)) : ℂ) = ((p.dx * p.dy : ℚ) : ℂ) * ((fresnelIrAmp p : ℚ) : ℂ)
    push_cast
    ring
  rw [hsplit, mul_assoc]
  congr 1
  rw [sumRange_mul_left]
  congr 1
  funext jy
  rw [sumRange_mul_left]
  congr 1
  funext jx
  ring


end HcipyVerif.NearField
