import Mathlib.Algebra.BigOperators.Intervals
import Mathlib.Algebra.BigOperators.Ring.Finset
import Mathlib.Algebra.Order.BigOperators.Group.Finset
import Mathlib.Algebra.Field.Basic
import Mathlib.Algebra.Field.GeomSum
import Mathlib.Data.Complex.Basic
import Mathlib.Data.Complex.BigOperators
import Mathlib.Analysis.SpecialFunctions.Complex.Log
import Mathlib.Tactic.Ring
import Mathlib.Tactic.Linarith
import Mathlib.Tactic.LinearCombination
import Mathlib.Tactic.FieldSimp
import HcipyVerif.Model.FftIndex
import HcipyVerif.Lemmas.FftIndex
import HcipyVerif.Lemmas.FftChar

/-!
# Property C02 at the level of the defining Fourier sums

* `adjoint_sum`, `adjoint_sumForward_sumBackward`: backward is the adjoint of forward
  (weighted inner products), for arbitrary kernels / the `sumForward`/`sumBackward` pair.
* `char_sum_range`: root-of-unity orthogonality for an abstract primitive periodic character.
* `full_grid_inverse_sum`: on the full (uncropped) grid, backward ∘ forward = id.
* `parseval_full_sum`: Parseval on the full grid.
* `cropped_energy_le_sum`: cropping the output grid can only lose energy.
* `expT_*`, `expE_*`: `Complex.exp` satisfies every hypothesis used.
-/
set_option linter.unusedSimpArgs false
set_option linter.unusedVariables false

namespace HcipyVerif.Fft
open Finset
open scoped ComplexConjugate

/-! ## 1. Adjointness -/

/-- Backward is the adjoint of forward, for arbitrary kernels `ph k j` and real weights. -/
theorem adjoint_sum (n m : ℕ) (ph : ℕ → ℕ → ℂ) (win wout : ℕ → ℂ)
    (hwin : ∀ j, conj (win j) = win j) (hwout : ∀ k, conj (wout k) = wout k) (x y : ℕ → ℂ) :
    ∑ k ∈ range m, conj (y k) * (∑ j ∈ range n, x j * win j * ph k j) * wout k
      = ∑ j ∈ range n, conj (∑ k ∈ range m, y k * wout k * conj (ph k j)) * x j * win j := by
  simp only [map_sum, map_mul, Complex.conj_conj, hwout, Finset.mul_sum, Finset.sum_mul]
  rw [Finset.sum_comm]
  apply Finset.sum_congr rfl
  intro j _
  apply Finset.sum_congr rfl
  intro k _
  ring

section sums
variable {K : Type} [Field K] {T E : K → ℂ}

/-- `sumBackward` is the adjoint of `sumForward` (weighted inner products on both grids). -/
theorem adjoint_sumForward_sumBackward (g : Cfg K ℂ) (wOut : ℂ)
    (hTc : ∀ a, conj (T a) = T (-a)) (hEc : ∀ a, conj (E a) = E (-a))
    (hw : conj g.w = g.w) (hwOut : conj wOut = wOut) (x y : ℕ → ℂ) :
    ∑ k ∈ range g.Mo, conj (y k) * sumForward T E g x k * wOut
      = ∑ j ∈ range g.N, conj (sumBackward T E g wOut y j) * x j * g.w := by
  have h := adjoint_sum g.N g.Mo
    (fun k j => T (-(g.a k * g.x j)) * E (-(g.s * g.x j))) (fun _ => g.w) (fun _ => wOut)
    (fun _ => hw) (fun _ => hwOut) x y
  simp only [sumForward, sumBackward, sumRange_eq]
  simp only [map_mul, hTc, hEc, neg_neg] at h ⊢
  exact h

end sums

/-! ## 2. Root-of-unity orthogonality -/

section ortho
variable {K : Type} [Field K] {T : K → ℂ}

theorem IsChar.nat_mul (hT : IsChar T) (a : K) (n : ℕ) : T ((n : K) * a) = T a ^ n := by
  induction n with
  | zero => simp [hT.zero]
  | succ n ih =>
    have : ((n + 1 : ℕ) : K) * a = (n : K) * a + a := by push_cast; ring
    rw [this, hT.add, ih, pow_succ]

/-- Orthogonality of the `M`-th roots of unity, for an abstract character which is `1` on the
integers and primitive (`T (d/M) = 1` only if `M ∣ d`). -/
theorem char_sum_range (hT : IsChar T) (hper : ∀ n : ℤ, T (n : K) = 1) (M : ℕ)
    (hprim : ∀ d : ℤ, T ((d : K) / (M : K)) = 1 → (M : ℤ) ∣ d) (hM0 : (M : K) ≠ 0) (d : ℤ) :
    ∑ k ∈ range M, T ((k : K) * d / M) = if (M : ℤ) ∣ d then (M : ℂ) else 0 := by
  have hpow : ∀ k : ℕ, T ((k : K) * d / M) = T ((d : K) / M) ^ k := by
    intro k
    rw [← hT.nat_mul, mul_div_assoc]
  simp only [hpow]
  have hζM : T ((d : K) / M) ^ M = 1 := by
    rw [← hT.nat_mul, mul_div_cancel₀ _ hM0]
    exact hper d
  by_cases hd : (M : ℤ) ∣ d
  · rw [if_pos hd]
    obtain ⟨e, rfl⟩ := hd
    have : (((M : ℤ) * e : ℤ) : K) / (M : K) = (e : K) := by
      push_cast
      rw [mul_comm, mul_div_assoc, div_self hM0, mul_one]
    rw [this, hper e]
    simp
  · rw [if_neg hd]
    have hne : T ((d : K) / M) ≠ 1 := fun h => hd (hprim d h)
    rw [geom_sum_eq hne, hζM, sub_self, zero_div]

end ortho

/-! ## 3. Inverse on the full grid -/

section inverse
variable {K : Type} [Field K] {T E : K → ℂ}

/-- On the full (uncropped) grid `Mo = M ≥ N`, with `dT·M·δ = 1` and `wOut·M·w = 1`,
backward ∘ forward is the identity on the `N` input samples. -/
theorem full_grid_inverse_sum (g : Cfg K ℂ) (wOut : ℂ) (hT : IsChar T) (hE : IsChar E)
    (hper : ∀ n : ℤ, T (n : K) = 1)
    (hprim : ∀ d : ℤ, T ((d : K) / (g.M : K)) = 1 → (g.M : ℤ) ∣ d)
    (hMo : g.Mo = g.M) (hN : g.N ≤ g.M) (hcons : g.dT * (g.M : K) * g.δ = 1)
    (hw : wOut * (g.M : ℂ) * g.w = 1) (f : ℕ → ℂ) (j : ℕ) (hj : j < g.N) :
    sumBackward T E g wOut (sumForward T E g f) j = f j := by
  have hM0 : (g.M : K) ≠ 0 := by
    intro h0; rw [h0] at hcons; simp at hcons
  have hinv : g.dT * g.δ = 1 / (g.M : K) := by
    rw [eq_div_iff hM0]; linear_combination hcons
  let d : ℕ → ℤ := fun j' => (j : ℤ) - (j' : ℤ)
  have key : ∀ k j' : ℕ, g.a k * g.x j + -(g.a k * g.x j')
      = (k : K) * (d j' : K) / g.M + -(((g.M / 2 : ℕ) : K) * (d j' : K) / g.M) := by
    intro k j'
    simp only [Cfg.a, Cfg.x, hMo, d, Int.cast_sub, Int.cast_natCast]
    rw [div_eq_mul_one_div ((k : K) * _), div_eq_mul_one_div (((g.M / 2 : ℕ) : K) * _), ← hinv]
    ring
  let c : ℕ → ℂ := fun j' => f j' * g.w * wOut * E (g.s * g.x j + -(g.s * g.x j'))
    * T (-(((g.M / 2 : ℕ) : K) * (d j' : K) / g.M))
  have term : ∀ k j' : ℕ,
      (f j' * g.w * (T (-(g.a k * g.x j')) * E (-(g.s * g.x j')))) * wOut
        * (T (g.a k * g.x j) * E (g.s * g.x j))
      = c j' * T ((k : K) * (d j' : K) / g.M) := by
    intro k j'
    have e1 : T (-(g.a k * g.x j')) * T (g.a k * g.x j)
        = T ((k : K) * (d j' : K) / g.M) * T (-(((g.M / 2 : ℕ) : K) * (d j' : K) / g.M)) := by
      rw [← hT.add, ← hT.add, add_comm, key]
    have e2 : E (-(g.s * g.x j')) * E (g.s * g.x j) = E (g.s * g.x j + -(g.s * g.x j')) := by
      rw [← hE.add, add_comm]
    have e3 : (f j' * g.w * (T (-(g.a k * g.x j')) * E (-(g.s * g.x j')))) * wOut
        * (T (g.a k * g.x j) * E (g.s * g.x j))
        = f j' * g.w * wOut * (T (-(g.a k * g.x j')) * T (g.a k * g.x j))
          * (E (-(g.s * g.x j')) * E (g.s * g.x j)) := by ring
    rw [e3, e1, e2]
    show _ = f j' * g.w * wOut * E (g.s * g.x j + -(g.s * g.x j'))
      * T (-(((g.M / 2 : ℕ) : K) * (d j' : K) / g.M)) * _
    ring
  simp only [sumForward, sumBackward, sumRange_eq, hMo]
  have step1 : ∀ k ∈ range g.M,
      (∑ j' ∈ range g.N, f j' * g.w * (T (-(g.a k * g.x j')) * E (-(g.s * g.x j')))) * wOut
        * (T (g.a k * g.x j) * E (g.s * g.x j))
      = ∑ j' ∈ range g.N, c j' * T ((k : K) * (d j' : K) / g.M) := by
    intro k _
    rw [Finset.sum_mul, Finset.sum_mul]
    exact Finset.sum_congr rfl (fun j' _ => term k j')
  rw [Finset.sum_congr rfl step1, Finset.sum_comm]
  have step2 : ∀ j' ∈ range g.N, ∑ k ∈ range g.M, c j' * T ((k : K) * (d j' : K) / g.M)
      = if j' = j then c j * (g.M : ℂ) else 0 := by
    intro j' hj'
    have hj'' := mem_range.mp hj'
    rw [← Finset.mul_sum, char_sum_range hT hper g.M hprim hM0]
    by_cases e : j' = j
    · subst e
      simp [d]
    · rw [if_neg e, if_neg, mul_zero]
      intro hdvd
      apply e
      have hz := Int.eq_zero_of_abs_lt_dvd hdvd (by
        show |(j : ℤ) - (j' : ℤ)| < (g.M : ℤ)
        rw [abs_lt]; constructor <;> omega)
      have : (j : ℤ) - (j' : ℤ) = 0 := hz
      omega
  rw [Finset.sum_congr rfl step2, Finset.sum_ite_eq' (range g.N) j, if_pos (mem_range.mpr hj)]
  show f j * g.w * wOut * E (g.s * g.x j + -(g.s * g.x j))
      * T (-(((g.M / 2 : ℕ) : K) * (((j : ℤ) - (j : ℤ) : ℤ) : K) / g.M)) * (g.M : ℂ) = f j
  rw [add_neg_cancel, hE.zero, sub_self, Int.cast_zero, mul_zero, zero_div, neg_zero, hT.zero]
  linear_combination (f j) * hw

end inverse

/-! ## 4. Parseval on the full grid -/

section parseval
variable {K : Type} [Field K] {T E : K → ℂ}

/-- Parseval on the full grid, complex form (`conj z * z`). -/
theorem parseval_full_sum_complex (g : Cfg K ℂ) (wOut : ℂ) (hT : IsChar T) (hE : IsChar E)
    (hper : ∀ n : ℤ, T (n : K) = 1)
    (hprim : ∀ d : ℤ, T ((d : K) / (g.M : K)) = 1 → (g.M : ℤ) ∣ d)
    (hMo : g.Mo = g.M) (hN : g.N ≤ g.M) (hcons : g.dT * (g.M : K) * g.δ = 1)
    (hw : wOut * (g.M : ℂ) * g.w = 1)
    (hTc : ∀ a, conj (T a) = T (-a)) (hEc : ∀ a, conj (E a) = E (-a))
    (hwr : conj g.w = g.w) (hwo : conj wOut = wOut) (f : ℕ → ℂ) :
    ∑ k ∈ range g.M, conj (sumForward T E g f k) * sumForward T E g f k * wOut
      = ∑ j ∈ range g.N, conj (f j) * f j * g.w := by
  have h := adjoint_sumForward_sumBackward g wOut hTc hEc hwr hwo f (sumForward T E g f)
  rw [hMo] at h
  rw [h]
  apply Finset.sum_congr rfl
  intro j hj
  rw [full_grid_inverse_sum g wOut hT hE hper hprim hMo hN hcons hw f j (mem_range.mp hj)]

/-- Parseval on the full grid, real form. -/
theorem parseval_full_sum (g : Cfg K ℂ) (wr wo : ℝ) (hT : IsChar T) (hE : IsChar E)
    (hper : ∀ n : ℤ, T (n : K) = 1)
    (hprim : ∀ d : ℤ, T ((d : K) / (g.M : K)) = 1 → (g.M : ℤ) ∣ d)
    (hMo : g.Mo = g.M) (hN : g.N ≤ g.M) (hcons : g.dT * (g.M : K) * g.δ = 1)
    (hgw : g.w = (wr : ℂ)) (hw : (wo : ℂ) * (g.M : ℂ) * g.w = 1)
    (hTc : ∀ a, conj (T a) = T (-a)) (hEc : ∀ a, conj (E a) = E (-a)) (f : ℕ → ℂ) :
    ∑ k ∈ range g.M, Complex.normSq (sumForward T E g f k) * wo
      = ∑ j ∈ range g.N, Complex.normSq (f j) * wr := by
  have h := parseval_full_sum_complex g (wo : ℂ) hT hE hper hprim hMo hN hcons hw hTc hEc
    (by rw [hgw, Complex.conj_ofReal]) (Complex.conj_ofReal wo) f
  apply Complex.ofReal_injective
  simp only [Complex.ofReal_sum, Complex.ofReal_mul, Complex.normSq_eq_conj_mul_self]
  rw [h, hgw]

end parseval

/-! ## 5. Cropped output grid: energy can only be lost -/

section crop
variable {K : Type} [Field K] {T E : K → ℂ}

/-- the same configuration with the full (uncropped) output grid -/
def Cfg.full (g : Cfg K ℂ) : Cfg K ℂ := { g with Mo := g.M }

/-- The cropped grid is a window of the full grid: index shift by `⌊M/2⌋ - ⌊Mo/2⌋`. -/
theorem sumForward_crop_shift (g : Cfg K ℂ) (hMo : g.Mo ≤ g.M) (f : ℕ → ℂ) (k : ℕ) :
    sumForward T E g f k = sumForward T E g.full f (k + (g.M / 2 - g.Mo / 2)) := by
  have hle : g.Mo / 2 ≤ g.M / 2 := Nat.div_le_div_right hMo
  have ha : g.full.a (k + (g.M / 2 - g.Mo / 2)) = g.a k := by
    simp only [Cfg.a, Cfg.full]
    rw [Nat.cast_add, Nat.cast_sub hle]
    ring
  simp only [sumForward, ha]
  rfl

/-- Energy on the cropped output grid is at most the input energy. -/
theorem cropped_energy_le_sum (g : Cfg K ℂ) (wr wo : ℝ) (hT : IsChar T) (hE : IsChar E)
    (hper : ∀ n : ℤ, T (n : K) = 1)
    (hprim : ∀ d : ℤ, T ((d : K) / (g.M : K)) = 1 → (g.M : ℤ) ∣ d)
    (hMo : g.Mo ≤ g.M) (hN : g.N ≤ g.M) (hcons : g.dT * (g.M : K) * g.δ = 1)
    (hgw : g.w = (wr : ℂ)) (hw : (wo : ℂ) * (g.M : ℂ) * g.w = 1) (hwo : 0 ≤ wo)
    (hTc : ∀ a, conj (T a) = T (-a)) (hEc : ∀ a, conj (E a) = E (-a)) (f : ℕ → ℂ) :
    ∑ k ∈ range g.Mo, Complex.normSq (sumForward T E g f k) * wo
      ≤ ∑ j ∈ range g.N, Complex.normSq (f j) * wr := by
  have hP := parseval_full_sum (T := T) (E := E) g.full wr wo hT hE hper hprim rfl hN hcons hgw hw
    hTc hEc f
  have hP' : ∑ k ∈ range g.M, Complex.normSq (sumForward T E g.full f k) * wo
      = ∑ j ∈ range g.N, Complex.normSq (f j) * wr := hP
  rw [← hP']
  set c := g.M / 2 - g.Mo / 2 with hc
  let G : ℕ → ℝ := fun i => Complex.normSq (sumForward T E g.full f i) * wo
  have h1 : ∑ k ∈ range g.Mo, Complex.normSq (sumForward T E g f k) * wo
      = ∑ i ∈ Ico c (c + g.Mo), G i := by
    rw [Finset.sum_Ico_eq_sum_range, Nat.add_sub_cancel_left]
    apply Finset.sum_congr rfl
    intro k _
    show _ = Complex.normSq (sumForward T E g.full f (c + k)) * wo
    rw [sumForward_crop_shift g hMo f k, add_comm c k]
  rw [h1]
  apply Finset.sum_le_sum_of_subset_of_nonneg
  · intro i hi
    have := Finset.mem_Ico.mp hi
    apply mem_range.mpr
    omega
  · intro i _ _
    exact mul_nonneg (Complex.normSq_nonneg _) hwo

end crop

/-! ## 6. Satisfiability: `Complex.exp` -/

section witness
open Complex

/-- `T t = exp(2πi·t)` -/
noncomputable def expT (t : ℝ) : ℂ := Complex.exp (2 * Real.pi * t * I)
/-- `E r = exp(i·r)` -/
noncomputable def expE (r : ℝ) : ℂ := Complex.exp (r * I)

theorem expT_isChar : IsChar expT where
  add a b := by
    unfold expT
    rw [← Complex.exp_add]
    congr 1
    push_cast
    ring
  zero := by simp [expT]

theorem expE_isChar : IsChar expE where
  add a b := by
    unfold expE
    rw [← Complex.exp_add]
    congr 1
    push_cast
    ring
  zero := by simp [expE]

theorem expT_conj (a : ℝ) : conj (expT a) = expT (-a) := by
  unfold expT
  rw [← Complex.exp_conj]
  congr 1
  simp only [map_mul, Complex.conj_I, Complex.conj_ofReal, map_ofNat, Complex.ofReal_neg]
  ring

theorem expE_conj (a : ℝ) : conj (expE a) = expE (-a) := by
  unfold expE
  rw [← Complex.exp_conj]
  congr 1
  simp only [map_mul, Complex.conj_I, Complex.conj_ofReal, Complex.ofReal_neg]
  ring

theorem expT_period (n : ℤ) : expT (n : ℝ) = 1 := by
  unfold expT
  have : (2 * (Real.pi : ℂ) * ((n : ℝ) : ℂ) * I) = (n : ℂ) * (2 * Real.pi * I) := by
    push_cast; ring
  rw [this, Complex.exp_int_mul_two_pi_mul_I]

theorem expT_prim (M : ℕ) (hM : (M : ℝ) ≠ 0) (d : ℤ) (h : expT ((d : ℝ) / (M : ℝ)) = 1) :
    (M : ℤ) ∣ d := by
  unfold expT at h
  rw [Complex.exp_eq_one_iff] at h
  obtain ⟨n, hn⟩ := h
  have hMc : (M : ℂ) ≠ 0 := by
    intro h0
    apply hM
    exact_mod_cast h0
  have h2 : (2 * (Real.pi : ℂ) * I) ≠ 0 := by
    simp [Real.pi_ne_zero, Complex.I_ne_zero]
  have h3 : (d : ℂ) = (n : ℂ) * (M : ℂ) := by
    have : (2 * (Real.pi : ℂ) * I) * ((d : ℂ) / (M : ℂ)) = (2 * (Real.pi : ℂ) * I) * (n : ℂ) := by
      push_cast at hn
      linear_combination hn
    have := mul_left_cancel₀ h2 this
    rw [div_eq_iff hMc] at this
    exact this
  refine ⟨n, ?_⟩
  have : ((d : ℤ) : ℂ) = (((M : ℤ) * n : ℤ) : ℂ) := by
    push_cast; rw [h3]; ring
  exact_mod_cast this

/-! ### The theorems instantiated at `Complex.exp` (no character hypotheses left) -/

theorem natCast_ne_zero_of_cons {g : Cfg ℝ ℂ} (hcons : g.dT * (g.M : ℝ) * g.δ = 1) :
    (g.M : ℝ) ≠ 0 := by
  intro h0; rw [h0] at hcons; simp at hcons

theorem full_grid_inverse_sum_exp (g : Cfg ℝ ℂ) (wOut : ℂ)
    (hMo : g.Mo = g.M) (hN : g.N ≤ g.M) (hcons : g.dT * (g.M : ℝ) * g.δ = 1)
    (hw : wOut * (g.M : ℂ) * g.w = 1) (f : ℕ → ℂ) (j : ℕ) (hj : j < g.N) :
    sumBackward expT expE g wOut (sumForward expT expE g f) j = f j :=
  full_grid_inverse_sum g wOut expT_isChar expE_isChar expT_period
    (expT_prim g.M (natCast_ne_zero_of_cons hcons)) hMo hN hcons hw f j hj

theorem adjoint_sumForward_sumBackward_exp (g : Cfg ℝ ℂ) (wOut : ℂ)
    (hw : conj g.w = g.w) (hwOut : conj wOut = wOut) (x y : ℕ → ℂ) :
    ∑ k ∈ range g.Mo, conj (y k) * sumForward expT expE g x k * wOut
      = ∑ j ∈ range g.N, conj (sumBackward expT expE g wOut y j) * x j * g.w :=
  adjoint_sumForward_sumBackward g wOut expT_conj expE_conj hw hwOut x y

theorem parseval_full_sum_exp (g : Cfg ℝ ℂ) (wr wo : ℝ)
    (hMo : g.Mo = g.M) (hN : g.N ≤ g.M) (hcons : g.dT * (g.M : ℝ) * g.δ = 1)
    (hgw : g.w = (wr : ℂ)) (hw : (wo : ℂ) * (g.M : ℂ) * g.w = 1) (f : ℕ → ℂ) :
    ∑ k ∈ range g.M, Complex.normSq (sumForward expT expE g f k) * wo
      = ∑ j ∈ range g.N, Complex.normSq (f j) * wr :=
  parseval_full_sum g wr wo expT_isChar expE_isChar expT_period
    (expT_prim g.M (natCast_ne_zero_of_cons hcons)) hMo hN hcons hgw hw expT_conj expE_conj f

theorem cropped_energy_le_sum_exp (g : Cfg ℝ ℂ) (wr wo : ℝ)
    (hMo : g.Mo ≤ g.M) (hN : g.N ≤ g.M) (hcons : g.dT * (g.M : ℝ) * g.δ = 1)
    (hgw : g.w = (wr : ℂ)) (hw : (wo : ℂ) * (g.M : ℂ) * g.w = 1) (hwo : 0 ≤ wo) (f : ℕ → ℂ) :
    ∑ k ∈ range g.Mo, Complex.normSq (sumForward expT expE g f k) * wo
      ≤ ∑ j ∈ range g.N, Complex.normSq (f j) * wr :=
  cropped_energy_le_sum g wr wo expT_isChar expE_isChar expT_period
    (expT_prim g.M (natCast_ne_zero_of_cons hcons)) hMo hN hcons hgw hw hwo expT_conj expE_conj f

end witness

end HcipyVerif.Fft
