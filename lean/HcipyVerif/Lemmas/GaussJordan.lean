import HcipyVerif.Lemmas.Lstsq
import Mathlib.Tactic.LinearCombination

/-!
Soundness of the executable least-squares model of C14: whatever `ModeBasis.lstsq` (normal
equations + Gauss–Jordan elimination on lists) returns solves the normal equations exactly.

* every `pivotStep` keeps the solution set of the augmented system (`pivotStep_sol`: a solution of
  the new rows solves the old rows) and the row width;
* after `k` steps the first `k` columns are unit columns (`Red`), so after `n` steps the matrix is
  `[I | x]` and its last column solves it (`red_final`);
* the augmented system built by `lstsq` is `Aᴴ A x = Aᴴ y` (`lstsq_sound_aux`).
-/
set_option linter.unusedSimpArgs false
set_option linter.unusedVariables false
set_option linter.unusedSectionVars false

namespace HcipyVerif.ModeBasis

section
variable {K : Type} [Field K] [DecidableEq K]

theorem dot_cons_cons (a c : K) (r v : List K) : dot (a :: r) (c :: v) = a * c + dot r v := by
  simp [dot]

theorem dot_elimRow (k : Nat) (p r v : List K) (hl : r.length = p.length) :
    dot (elimRow k p r) v = dot r v - r.getD k 0 * dot p v := by
  simp only [elimRow]
  generalize r.getD k 0 = f
  induction r generalizing p v with
  | nil =>
    cases p with
    | nil => simp [dot]
    | cons b p => simp at hl
  | cons a r ih =>
    cases p with
    | nil => simp at hl
    | cons b p =>
      cases v with
      | nil => simp [dot]
      | cons c v =>
        simp only [List.zipWith_cons_cons, dot_cons_cons]
        rw [ih p v (by simpa using hl)]
        ring

theorem dot_map_div (pv : K) (p v : List K) : dot (p.map (· / pv)) v = dot p v / pv := by
  induction p generalizing v with
  | nil => simp [dot]
  | cons a p ih =>
    cases v with
    | nil => simp [dot]
    | cons c v =>
      simp only [List.map_cons, dot_cons_cons, ih v]
      ring

theorem dot_append_single (g x : List K) (a c : K) (h : g.length = x.length) :
    dot (g ++ [a]) (x ++ [c]) = dot g x + a * c := by
  induction g generalizing x with
  | nil =>
    cases x with
    | nil => simp [dot]
    | cons b x => simp at h
  | cons e g ih =>
    cases x with
    | nil => simp at h
    | cons b x =>
      simp only [List.cons_append, dot_cons_cons]
      rw [ih x (by simpa using h)]
      ring

theorem getD_elimRow (k : Nat) (p r : List K) (hl : r.length = p.length) (c : Nat) :
    (elimRow k p r).getD c 0 = r.getD c 0 - r.getD k 0 * p.getD c 0 := by
  simp only [elimRow]
  generalize r.getD k 0 = f
  induction r generalizing p c with
  | nil =>
    cases p with
    | nil => simp
    | cons b p => simp at hl
  | cons a r ih =>
    cases p with
    | nil => simp at hl
    | cons b p =>
      cases c with
      | zero => simp
      | succ c =>
        simp only [List.zipWith_cons_cons, List.getD_cons_succ]
        exact ih p (by simpa using hl) c

theorem getD_map_div (pv : K) (p : List K) (c : Nat) :
    (p.map (· / pv)).getD c 0 = p.getD c 0 / pv := by
  induction p generalizing c with
  | nil => simp
  | cons a p ih =>
    cases c with
    | zero => simp
    | succ c => simpa using ih c

theorem elimRow_length (k : Nat) (p r : List K) : (elimRow k p r).length = min r.length p.length := by
  simp [elimRow]

theorem getD_replicate_zero (n j : Nat) : (List.replicate n (0 : K)).getD j 0 = 0 := by
  rw [List.getD_eq_getElem?_getD, List.getElem?_replicate]
  split <;> rfl

theorem getD_append_len (x : List K) (a : K) (n : Nat) (h : x.length = n) :
    (x ++ [a]).getD n 0 = a := by
  subst h; simp [List.getD_eq_getElem?_getD]

theorem getD_append_lt' (x : List K) (a : K) (c : Nat) (h : c < x.length) :
    (x ++ [a]).getD c 0 = x.getD c 0 := by
  simp [List.getD_eq_getElem?_getD, List.getElem?_append_left h]

end

theorem getD_three_left {α} (A : List α) (x : α) (B : List α) (d : α) (i : Nat) (h : i < A.length) :
    (A ++ [x] ++ B).getD i d = A.getD i d := by
  have h2 : i < (A ++ [x]).length := by rw [List.length_append]; omega
  simp only [List.getD_eq_getElem?_getD]
  rw [List.getElem?_append_left h2, List.getElem?_append_left h]

theorem getD_three_mid {α} (A : List α) (x : α) (B : List α) (d : α) (i : Nat) (h : A.length = i) :
    (A ++ [x] ++ B).getD i d = x := by
  subst h
  have h2 : A.length < (A ++ [x]).length := by rw [List.length_append]; simp
  simp only [List.getD_eq_getElem?_getD]
  rw [List.getElem?_append_left h2, List.getElem?_append_right (Nat.le_refl _)]
  simp

theorem getD_map_take {α β} (f : α → β) (M : List α) (k i : Nat) (d : α) (d' : β) (hi : i < k)
    (hiM : i < M.length) : ((M.take k).map f).getD i d' = f (M.getD i d) := by
  simp only [List.getD_eq_getElem?_getD]
  rw [List.getElem?_map, List.getElem?_take, if_pos hi, List.getElem?_eq_getElem hiM]
  rfl

theorem mem_of_find_eraseP {α} (P : α → Bool) (l : List α) (p : α) (h : l.find? P = some p) (r : α)
    (hr : r ∈ l) : r = p ∨ r ∈ l.eraseP P := by
  induction l with
  | nil => simp at hr
  | cons a l ih =>
    by_cases hp : P a = true
    · have hap : a = p := by simpa [List.find?_cons, hp] using h
      subst hap
      rcases List.mem_cons.mp hr with rfl | hr
      · exact Or.inl rfl
      · right; simpa [List.eraseP_cons, hp] using hr
    · have h' : l.find? P = some p := by simpa [List.find?_cons, hp] using h
      rcases List.mem_cons.mp hr with rfl | hr
      · right; simp [List.eraseP_cons, hp]
      · rcases ih h' hr with h1 | h1
        · exact Or.inl h1
        · right; simp [List.eraseP_cons, hp, h1]

section
variable {K : Type} [Field K] [DecidableEq K]

/-- what a successful `pivotStep` produced -/
theorem pivotStep_some (M M' : List (List K)) (k : Nat) (h : pivotStep M k = some M') :
    ∃ p, p ∈ M.drop k ∧ p.getD k 0 ≠ 0 ∧
      (M.drop k).find? (fun r => r.getD k 0 ≠ 0) = some p ∧
      M' = (M.take k).map (elimRow k (p.map (· / p.getD k 0))) ++ [p.map (· / p.getD k 0)] ++
        ((M.drop k).eraseP (fun r => r.getD k 0 ≠ 0)).map (elimRow k (p.map (· / p.getD k 0))) := by
  simp only [pivotStep] at h
  split at h
  · simp at h
  · next p hp =>
    refine ⟨p, List.mem_of_find?_eq_some hp, ?_, hp, (Option.some.inj h).symm⟩
    have := List.find?_some hp
    simpa using this

theorem pivotStep_len (M M' : List (List K)) (k W : Nat) (h : pivotStep M k = some M')
    (hW : ∀ r ∈ M, r.length = W) : ∀ r ∈ M', r.length = W := by
  obtain ⟨p, hp, hpv, hfind, rfl⟩ := pivotStep_some M M' k h
  have hpM : p ∈ M := List.mem_of_mem_drop hp
  intro r hr
  simp only [List.mem_append, List.mem_map, List.mem_singleton] at hr
  rcases hr with (⟨r0, hr0, rfl⟩ | rfl) | ⟨r0, hr0, rfl⟩
  · rw [elimRow_length, List.length_map, hW r0 (List.mem_of_mem_take hr0), hW p hpM, Nat.min_self]
  · rw [List.length_map, hW p hpM]
  · rw [elimRow_length, List.length_map,
      hW r0 (List.mem_of_mem_drop (List.mem_of_mem_eraseP hr0)), hW p hpM, Nat.min_self]

/-- a common zero of the new rows (as linear forms evaluated at `v`) is a common zero of the old
rows: row operations do not lose equations -/
theorem pivotStep_sol (M M' : List (List K)) (k W : Nat) (v : List K) (h : pivotStep M k = some M')
    (hW : ∀ r ∈ M, r.length = W) (hs : ∀ r ∈ M', dot r v = 0) : ∀ r ∈ M, dot r v = 0 := by
  obtain ⟨p, hp, hpv, hfind, rfl⟩ := pivotStep_some M M' k h
  have hpM : p ∈ M := List.mem_of_mem_drop hp
  have hpn : dot (p.map (· / p.getD k 0)) v = 0 := hs _ (by simp)
  have hp0 : dot p v = 0 := by
    rw [dot_map_div] at hpn
    exact (div_eq_zero_iff.mp hpn).resolve_right hpv
  have hE : ∀ r0, r0 ∈ M → dot (elimRow k (p.map (· / p.getD k 0)) r0) v = 0 → dot r0 v = 0 := by
    intro r0 hr0 he
    rw [dot_elimRow k _ r0 v (by rw [List.length_map, hW r0 hr0, hW p hpM]), hpn, mul_zero,
      sub_zero] at he
    exact he
  intro r hr
  rw [← List.take_append_drop k M] at hr
  rcases List.mem_append.mp hr with hr | hr
  · apply hE r (List.mem_of_mem_take hr)
    apply hs
    simp only [List.mem_append, List.mem_map, List.mem_singleton]
    exact Or.inl (Or.inl ⟨r, hr, rfl⟩)
  · rcases mem_of_find_eraseP _ _ p hfind r hr with rfl | h1
    · exact hp0
    · apply hE r (List.mem_of_mem_drop hr)
      apply hs
      simp only [List.mem_append, List.mem_map, List.mem_singleton]
      exact Or.inr ⟨r, h1, rfl⟩

theorem foldlM_len (ks : List Nat) (M M' : List (List K)) (W : Nat)
    (h : ks.foldlM pivotStep M = some M') (hW : ∀ r ∈ M, r.length = W) : ∀ r ∈ M', r.length = W := by
  induction ks generalizing M with
  | nil =>
    simp only [List.foldlM_nil] at h
    cases h; exact hW
  | cons k ks ih =>
    rw [List.foldlM_cons] at h
    cases h1 : pivotStep M k with
    | none => rw [h1] at h; simp at h
    | some M1 =>
      rw [h1] at h
      exact ih M1 (by simpa using h) (pivotStep_len M M1 k W h1 hW)

theorem foldlM_sol (ks : List Nat) (M M' : List (List K)) (W : Nat) (v : List K)
    (h : ks.foldlM pivotStep M = some M') (hW : ∀ r ∈ M, r.length = W)
    (hs : ∀ r ∈ M', dot r v = 0) : ∀ r ∈ M, dot r v = 0 := by
  induction ks generalizing M with
  | nil =>
    simp only [List.foldlM_nil] at h
    cases h; exact hs
  | cons k ks ih =>
    rw [List.foldlM_cons] at h
    cases h1 : pivotStep M k with
    | none => rw [h1] at h; simp at h
    | some M1 =>
      rw [h1] at h
      exact pivotStep_sol M M1 k W v h1 hW
        (ih M1 (by simpa using h) (pivotStep_len M M1 k W h1 hW))

/-- after `k` pivot steps on an `n × (n+1)` matrix: the first `k` columns are unit columns -/
structure Red (n k : Nat) (M : List (List K)) : Prop where
  len : M.length = n
  row : ∀ r ∈ M, r.length = n + 1
  diag : ∀ i, i < k → ∀ c, c < k → (M.getD i []).getD c 0 = if i = c then 1 else 0
  low : ∀ r ∈ M.drop k, ∀ c, c < k → r.getD c 0 = 0

theorem pivotStep_red (n k : Nat) (M M' : List (List K)) (hk : k < n) (h : pivotStep M k = some M')
    (hR : Red n k M) : Red n (k + 1) M' := by
  have hrow' := pivotStep_len M M' k (n + 1) h hR.row
  obtain ⟨p, hp, hpv, hfind, rfl⟩ := pivotStep_some M M' k h
  have hpM : p ∈ M := List.mem_of_mem_drop hp
  have hpl : (p.map (· / p.getD k 0)).length = n + 1 := by rw [List.length_map, hR.row p hpM]
  have hpn_lt : ∀ c, c < k → (p.map (· / p.getD k 0)).getD c 0 = 0 := by
    intro c hc; rw [getD_map_div, hR.low p hp c hc, zero_div]
  have hpn_k : (p.map (· / p.getD k 0)).getD k 0 = 1 := by
    rw [getD_map_div]; exact div_self hpv
  have hE_lt : ∀ r, r ∈ M → ∀ c, c < k →
      (elimRow k (p.map (· / p.getD k 0)) r).getD c 0 = r.getD c 0 := by
    intro r hr c hc
    rw [getD_elimRow k _ r (by rw [hR.row r hr, hpl]), hpn_lt c hc, mul_zero, sub_zero]
  have hE_k : ∀ r, r ∈ M → (elimRow k (p.map (· / p.getD k 0)) r).getD k 0 = 0 := by
    intro r hr
    rw [getD_elimRow k _ r (by rw [hR.row r hr, hpl]), hpn_k, mul_one, sub_self]
  have htake : (M.take k).length = k := by rw [List.length_take, hR.len]; omega
  have hdrop : (M.drop k).length = n - k := by rw [List.length_drop, hR.len]
  have herase : ((M.drop k).eraseP (fun r => r.getD k 0 ≠ 0)).length = n - k - 1 := by
    rw [List.length_eraseP_of_mem hp (by simpa using hpv), hdrop]
  refine ⟨?_, hrow', ?_, ?_⟩
  · simp only [List.length_append, List.length_map, List.length_cons, List.length_nil, htake, herase]
    omega
  · intro i hi c hc
    rcases Nat.lt_or_eq_of_le (Nat.lt_succ_iff.mp hi) with hi' | rfl
    · have hiM : i < M.length := by rw [hR.len]; omega
      have hmem : M.getD i [] ∈ M := by
        rw [List.getD_eq_getElem?_getD, List.getElem?_eq_getElem hiM]
        exact List.getElem_mem hiM
      have hrow : ((M.take k).map (elimRow k (p.map (· / p.getD k 0))) ++ [p.map (· / p.getD k 0)] ++
          ((M.drop k).eraseP (fun r => r.getD k 0 ≠ 0)).map
            (elimRow k (p.map (· / p.getD k 0)))).getD i [] =
          elimRow k (p.map (· / p.getD k 0)) (M.getD i []) := by
        rw [getD_three_left _ _ _ _ _ (by rw [List.length_map, htake]; exact hi'),
          getD_map_take _ M k i [] [] hi' hiM]
      rw [hrow]
      rcases Nat.lt_or_eq_of_le (Nat.lt_succ_iff.mp hc) with hc' | rfl
      · rw [hE_lt _ hmem c hc', hR.diag i hi' c hc']
      · rw [hE_k _ hmem, if_neg (Nat.ne_of_lt hi')]
    · have hrow : ((M.take i).map (elimRow i (p.map (· / p.getD i 0))) ++ [p.map (· / p.getD i 0)] ++
          ((M.drop i).eraseP (fun r => r.getD i 0 ≠ 0)).map
            (elimRow i (p.map (· / p.getD i 0)))).getD i [] = p.map (· / p.getD i 0) := by
        exact getD_three_mid _ _ _ _ _ (by rw [List.length_map, htake])
      rw [hrow]
      rcases Nat.lt_or_eq_of_le (Nat.lt_succ_iff.mp hc) with hc' | rfl
      · rw [hpn_lt c hc', if_neg (Nat.ne_of_gt hc')]
      · rw [hpn_k, if_pos rfl]
  · intro r hr c hc
    have hd : ((M.take k).map (elimRow k (p.map (· / p.getD k 0))) ++ [p.map (· / p.getD k 0)] ++
        ((M.drop k).eraseP (fun r => r.getD k 0 ≠ 0)).map
          (elimRow k (p.map (· / p.getD k 0)))).drop (k + 1) =
        ((M.drop k).eraseP (fun r => r.getD k 0 ≠ 0)).map (elimRow k (p.map (· / p.getD k 0))) := by
      apply List.drop_left'
      rw [List.length_append, List.length_map, htake]; simp
    rw [hd] at hr
    obtain ⟨r0, hr0, rfl⟩ := List.mem_map.mp hr
    have hr0d : r0 ∈ M.drop k := List.mem_of_mem_eraseP hr0
    have hr0M : r0 ∈ M := List.mem_of_mem_drop hr0d
    rcases Nat.lt_or_eq_of_le (Nat.lt_succ_iff.mp hc) with hc' | rfl
    · rw [hE_lt _ hr0M c hc', hR.low r0 hr0d c hc']
    · exact hE_k _ hr0M

theorem foldlM_red (n len k : Nat) (M M' : List (List K)) (hkn : k + len ≤ n)
    (h : (List.range' k len).foldlM pivotStep M = some M') (hR : Red n k M) :
    Red n (k + len) M' := by
  induction len generalizing k M with
  | zero =>
    simp only [List.range'_zero, List.foldlM_nil] at h
    cases h; exact hR
  | succ len ih =>
    rw [List.range'_succ, List.foldlM_cons] at h
    cases h1 : pivotStep M k with
    | none => rw [h1] at h; simp at h
    | some M1 =>
      rw [h1] at h
      have := ih (k + 1) M1 (by omega) (by simpa using h) (pivotStep_red n k M M1 (by omega) h1 hR)
      rwa [show k + 1 + len = k + (len + 1) by omega] at this

open Finset in
/-- a fully reduced matrix `[I | x]` is solved by its last column -/
theorem red_final (n : Nat) (M : List (List K)) (hR : Red n n M) :
    ∀ r ∈ M, dot r (M.map (fun r : List K => r.getD n 0) ++ [-1]) = 0 := by
  intro r hr
  obtain ⟨i, hi, rfl⟩ := List.getElem_of_mem hr
  have hin : i < n := by rw [← hR.len]; exact hi
  have hlen : M[i].length = n + 1 := hR.row _ hr
  have hxl : (M.map (fun r : List K => r.getD n 0)).length = n := by rw [List.length_map, hR.len]
  have hv : (M.map (fun r : List K => r.getD n 0) ++ [-1]).length = n + 1 := by rw [List.length_append, hxl]; simp
  have hrr : M[i] = (List.range (n + 1)).map (M[i].getD · 0) := by
    have := list_eq_range_getD M[i] (0 : K)
    rwa [hlen] at this
  have hdot : dot M[i] (M.map (fun r : List K => r.getD n 0) ++ [-1]) =
      ∑ c ∈ range (n + 1), M[i].getD c 0 * (M.map (fun r : List K => r.getD n 0) ++ [-1]).getD c 0 := by
    have := dot_range_list (n + 1) (fun c => M[i].getD c 0) (M.map (fun r : List K => r.getD n 0) ++ [-1]) hv
    rwa [← hrr] at this
  have hMi : M.getD i [] = M[i] := by
    rw [List.getD_eq_getElem?_getD, List.getElem?_eq_getElem hi]; rfl
  rw [hdot, Finset.sum_range_succ, getD_append_len _ _ n hxl]
  have hsum : ∑ c ∈ range n, M[i].getD c 0 * (M.map (fun r : List K => r.getD n 0) ++ [-1]).getD c 0 =
      M[i].getD n 0 := by
    have : ∀ c ∈ range n, M[i].getD c 0 * (M.map (fun r : List K => r.getD n 0) ++ [-1]).getD c 0 =
        if i = c then (M.getD c []).getD n 0 else 0 := by
      intro c hc
      have hc' : c < n := Finset.mem_range.mp hc
      have hcM : c < M.length := by rw [hR.len]; exact hc'
      rw [getD_append_lt' _ _ c (by rw [hxl]; exact hc'), ← hMi, hR.diag i hin c hc']
      have : (M.map (fun r : List K => r.getD n 0)).getD c 0 = (M.getD c []).getD n 0 := by
        simp only [List.getD_eq_getElem?_getD, List.getElem?_map, List.getElem?_eq_getElem hcM]
        rfl
      rw [this]
      split <;> simp
    rw [Finset.sum_congr rfl this, Finset.sum_ite_eq, if_pos (Finset.mem_range.mpr hin), hMi]
  rw [hsum]
  ring

/-- **Gauss–Jordan elimination is sound**: a returned vector has one entry per row and solves
every row `r = (g | h)` of the augmented system, `g · x = h` (written `r · (x, −1) = 0`). -/
theorem gaussJordan_sound (n : Nat) (M : List (List K)) (x : List K) (hl : M.length = n)
    (hW : ∀ r ∈ M, r.length = n + 1) (h : gaussJordan n M = some x) :
    x.length = n ∧ ∀ r ∈ M, dot r (x ++ [-1]) = 0 := by
  unfold gaussJordan at h
  cases hf : (List.range n).foldlM pivotStep M with
  | none => rw [hf] at h; simp at h
  | some M' =>
    rw [hf] at h
    simp only [Option.map_some, Option.some.injEq] at h
    subst h
    have hR : Red n n M' := by
      have hf' := hf
      rw [List.range_eq_range'] at hf'
      have := foldlM_red n n 0 M M' (by omega) hf'
        ⟨hl, hW, fun i hi => by omega, fun r _ c hc => by omega⟩
      simpa using this
    exact ⟨by rw [List.length_map, hR.len], foldlM_sol _ M M' (n + 1) _ hf hW (red_final n M' hR)⟩

open Finset in
/-- **`ModeBasis.lstsq` is sound**: what it returns has one coefficient per mode and solves the
normal equations `Aᴴ (A x − y) = 0` exactly — i.e. the certificate the driver evaluates at run
time (`certified`) can never fail. -/
theorem lstsq_sound_aux (conj : K → K) (b : Basis K) (x y : List K) (hy : y.length = b.npix)
    (h : lstsq conj b y = some x) :
    x.length = b.nmodes ∧ ∀ t ∈ normalResidual conj b x y, t = 0 := by
  simp only [lstsq] at h
  -- the augmented matrix, row by row
  have hM : List.zipWith (fun g hi => g ++ [hi])
      ((adjRows conj b).map fun r => ((List.range b.nmodes).map (column b)).map fun c => dot r c)
      (matvec (adjRows conj b) y) =
      (List.range b.nmodes).map fun j =>
        ((List.range b.nmodes).map fun j' => dot ((column b j).map conj) (column b j')) ++
          [dot ((column b j).map conj) y] := by
    unfold adjRows matvec
    rw [List.map_map, List.map_map, List.zipWith_map, List.zipWith_self]
    apply List.map_congr_left
    intro j _
    simp only [Function.comp, List.map_map]
    rfl
  rw [hM] at h
  obtain ⟨hx, hsol⟩ := gaussJordan_sound b.nmodes _ x (by simp)
    (by intro r hr; simp only [List.mem_map, List.mem_range] at hr; obtain ⟨j, _, rfl⟩ := hr; simp) h
  refine ⟨hx, ?_⟩
  -- entries of the rows as sums
  have hcol : ∀ j j', dot ((column b j).map conj) (column b j') =
      ∑ i ∈ range b.npix, conj (ent b i j) * ent b i j' := by
    intro j j'
    unfold column
    rw [List.map_map, dot_range_list b.npix _ _ (by simp)]
    apply Finset.sum_congr rfl
    intro i hi
    rw [getD_map_range _ _ _ _ (Finset.mem_range.mp hi)]
    rfl
  have hyy : ∀ j, dot ((column b j).map conj) y = ∑ i ∈ range b.npix, conj (ent b i j) * y.getD i 0 := by
    intro j
    unfold column
    rw [List.map_map, dot_range_list b.npix _ _ hy]
    rfl
  have heq : ∀ j, j < b.nmodes →
      ∑ j' ∈ range b.nmodes, (∑ i ∈ range b.npix, conj (ent b i j) * ent b i j') * x.getD j' 0 =
      ∑ i ∈ range b.npix, conj (ent b i j) * y.getD i 0 := by
    intro j hj
    have := hsol _ (List.mem_map.mpr ⟨j, List.mem_range.mpr hj, rfl⟩)
    rw [dot_append_single _ _ _ _ (by simp [hx]), dot_range_list b.nmodes _ x hx, hyy] at this
    simp only [hcol] at this
    linear_combination this
  rw [normalResidual_fn conj b x y hx hy]
  intro t ht
  obtain ⟨j, hj, rfl⟩ := List.mem_map.mp ht
  have hj' : j < b.nmodes := List.mem_range.mp hj
  have := heq j hj'
  simp only [mul_sub, Finset.sum_sub_distrib]
  rw [← this]
  simp only [Finset.mul_sum, Finset.sum_mul]
  rw [Finset.sum_comm]
  apply sub_eq_zero.mpr
  apply Finset.sum_congr rfl
  intro i _
  apply Finset.sum_congr rfl
  intro j' _
  ring

/-! ## Uniqueness: an answer of `lstsq` certifies that the modes are independent

Row operations do not add equations either (`pivotStep_fwd`), so a common zero `(d, 0)` of the
rows of the original system is a common zero of the rows of `[I | x]`, i.e. `d = 0`. -/

theorem pivotStep_fwd (M M' : List (List K)) (k W : Nat) (v : List K) (h : pivotStep M k = some M')
    (hW : ∀ r ∈ M, r.length = W) (hs : ∀ r ∈ M, dot r v = 0) : ∀ r ∈ M', dot r v = 0 := by
  obtain ⟨p, hp, hpv, hfind, rfl⟩ := pivotStep_some M M' k h
  have hpM : p ∈ M := List.mem_of_mem_drop hp
  have hpn : dot (p.map (· / p.getD k 0)) v = 0 := by rw [dot_map_div, hs p hpM, zero_div]
  have hE : ∀ r0, r0 ∈ M → dot (elimRow k (p.map (· / p.getD k 0)) r0) v = 0 := by
    intro r0 hr0
    rw [dot_elimRow k _ r0 v (by rw [List.length_map, hW r0 hr0, hW p hpM]), hpn, hs r0 hr0,
      mul_zero, sub_zero]
  intro r hr
  simp only [List.mem_append, List.mem_map, List.mem_singleton] at hr
  rcases hr with (⟨r0, hr0, rfl⟩ | rfl) | ⟨r0, hr0, rfl⟩
  · exact hE r0 (List.mem_of_mem_take hr0)
  · exact hpn
  · exact hE r0 (List.mem_of_mem_drop (List.mem_of_mem_eraseP hr0))

theorem foldlM_fwd (ks : List Nat) (M M' : List (List K)) (W : Nat) (v : List K)
    (h : ks.foldlM pivotStep M = some M') (hW : ∀ r ∈ M, r.length = W)
    (hs : ∀ r ∈ M, dot r v = 0) : ∀ r ∈ M', dot r v = 0 := by
  induction ks generalizing M with
  | nil =>
    simp only [List.foldlM_nil] at h
    cases h; exact hs
  | cons k ks ih =>
    rw [List.foldlM_cons] at h
    cases h1 : pivotStep M k with
    | none => rw [h1] at h; simp at h
    | some M1 =>
      rw [h1] at h
      exact ih M1 (by simpa using h) (pivotStep_len M M1 k W h1 hW) (pivotStep_fwd M M1 k W v h1 hW hs)

open Finset in
/-- row `i` of a fully reduced matrix, as a linear form on `(d, 0)`, reads off `dᵢ` -/
theorem red_final_hom (n : Nat) (M : List (List K)) (hR : Red n n M) (d : List K) (hd : d.length = n)
    (i : Nat) (hin : i < n) : dot (M.getD i []) (d ++ [0]) = d.getD i 0 := by
  have hi : i < M.length := by rw [hR.len]; exact hin
  have hMi : M.getD i [] = M[i] := by
    rw [List.getD_eq_getElem?_getD, List.getElem?_eq_getElem hi]; rfl
  have hr : M[i] ∈ M := List.getElem_mem hi
  have hlen : M[i].length = n + 1 := hR.row _ hr
  have hv : (d ++ [0]).length = n + 1 := by rw [List.length_append, hd]; simp
  have hrr : M[i] = (List.range (n + 1)).map (M[i].getD · 0) := by
    have := list_eq_range_getD M[i] (0 : K)
    rwa [hlen] at this
  have hdot : dot M[i] (d ++ [0]) = ∑ c ∈ range (n + 1), M[i].getD c 0 * (d ++ [0]).getD c 0 := by
    have := dot_range_list (n + 1) (fun c => M[i].getD c 0) (d ++ [0]) hv
    rwa [← hrr] at this
  rw [hMi, hdot, Finset.sum_range_succ, getD_append_len _ _ n hd, mul_zero, add_zero]
  have : ∀ c ∈ range n, M[i].getD c 0 * (d ++ [0]).getD c 0 = if i = c then d.getD c 0 else 0 := by
    intro c hc
    have hc' : c < n := Finset.mem_range.mp hc
    rw [getD_append_lt' _ _ c (by rw [hd]; exact hc'), ← hMi, hR.diag i hin c hc']
    split <;> simp
  rw [Finset.sum_congr rfl this, Finset.sum_ite_eq, if_pos (Finset.mem_range.mpr hin)]

theorem gaussJordan_unique (n : Nat) (M : List (List K)) (x : List K) (hl : M.length = n)
    (hW : ∀ r ∈ M, r.length = n + 1) (h : gaussJordan n M = some x) (d : List K) (hd : d.length = n)
    (hs : ∀ r ∈ M, dot r (d ++ [0]) = 0) : ∀ i, i < n → d.getD i 0 = 0 := by
  unfold gaussJordan at h
  cases hf : (List.range n).foldlM pivotStep M with
  | none => rw [hf] at h; simp at h
  | some M' =>
    have hR : Red n n M' := by
      have hf' := hf
      rw [List.range_eq_range'] at hf'
      have := foldlM_red n n 0 M M' (by omega) hf'
        ⟨hl, hW, fun i hi => by omega, fun r _ c hc => by omega⟩
      simpa using this
    have hs' := foldlM_fwd _ M M' (n + 1) _ hf hW hs
    intro i hi
    rw [← red_final_hom n M' hR d hd i hi]
    apply hs'
    have hiM : i < M'.length := by rw [hR.len]; exact hi
    rw [List.getD_eq_getElem?_getD, List.getElem?_eq_getElem hiM]
    exact List.getElem_mem hiM

theorem getD_zipWith_sub (u v : List K) (h : u.length = v.length) (j : Nat) :
    (List.zipWith (· - ·) u v).getD j 0 = u.getD j 0 - v.getD j 0 := by
  induction u generalizing v j with
  | nil =>
    cases v with
    | nil => simp
    | cons b v => simp at h
  | cons a u ih =>
    cases v with
    | nil => simp at h
    | cons b v =>
      cases j with
      | zero => simp
      | succ j =>
        simp only [List.zipWith_cons_cons, List.getD_cons_succ]
        exact ih v (by simpa using h) j

open Finset in
/-- **An answer of `lstsq` certifies independence**: if the Gauss–Jordan model answers for some
right-hand side, the linear-combination map of the basis is injective (any field, any `conj`). -/
theorem lstsq_unique (conj : K → K) (b : Basis K) (hb : WF b) (x y : List K)
    (h : lstsq conj b y = some x) (v₁ v₂ : List K) (h₁ : v₁.length = b.nmodes)
    (h₂ : v₂.length = b.nmodes) (hlc : linComb b v₁ = linComb b v₂) : v₁ = v₂ := by
  simp only [lstsq] at h
  have hM : List.zipWith (fun g hi => g ++ [hi])
      ((adjRows conj b).map fun r => ((List.range b.nmodes).map (column b)).map fun c => dot r c)
      (matvec (adjRows conj b) y) =
      (List.range b.nmodes).map fun j =>
        ((List.range b.nmodes).map fun j' => dot ((column b j).map conj) (column b j')) ++
          [dot ((column b j).map conj) y] := by
    unfold adjRows matvec
    rw [List.map_map, List.map_map, List.zipWith_map, List.zipWith_self]
    apply List.map_congr_left
    intro j _
    simp only [Function.comp, List.map_map]
    rfl
  rw [hM] at h
  have hcol : ∀ j j', dot ((column b j).map conj) (column b j') =
      ∑ i ∈ range b.npix, conj (ent b i j) * ent b i j' := by
    intro j j'
    unfold column
    rw [List.map_map, dot_range_list b.npix _ _ (by simp)]
    apply Finset.sum_congr rfl
    intro i hi
    rw [getD_map_range _ _ _ _ (Finset.mem_range.mp hi)]
    rfl
  -- the difference vector
  have hdl : (List.zipWith (· - ·) v₁ v₂).length = b.nmodes := by simp [h₁, h₂]
  have hdj : ∀ j, (List.zipWith (· - ·) v₁ v₂).getD j 0 = v₁.getD j 0 - v₂.getD j 0 :=
    getD_zipWith_sub v₁ v₂ (by rw [h₁, h₂])
  -- A d = 0
  have hAd : ∀ i ∈ range b.npix,
      ∑ j ∈ range b.nmodes, ent b i j * (List.zipWith (· - ·) v₁ v₂).getD j 0 = 0 := by
    intro i hi
    have hi' : i < b.npix := Finset.mem_range.mp hi
    have := congrArg (fun l => l.getD i 0) hlc
    simp only [linComb_fn b hb v₁ h₁, linComb_fn b hb v₂ h₂] at this
    rw [getD_map_range _ _ _ _ hi', getD_map_range _ _ _ _ hi'] at this
    simp only [hdj, mul_sub, Finset.sum_sub_distrib]
    rw [this, sub_self]
  have hs : ∀ r ∈ (List.range b.nmodes).map (fun j =>
        ((List.range b.nmodes).map fun j' => dot ((column b j).map conj) (column b j')) ++
          [dot ((column b j).map conj) y]),
      dot r (List.zipWith (· - ·) v₁ v₂ ++ [0]) = 0 := by
    intro r hr
    obtain ⟨j, _, rfl⟩ := List.mem_map.mp hr
    rw [dot_append_single _ _ _ _ (by simp [hdl]), dot_range_list b.nmodes _ _ hdl, mul_zero, add_zero]
    simp only [hcol, Finset.sum_mul]
    rw [Finset.sum_comm]
    apply Finset.sum_eq_zero
    intro i hi
    have := hAd i hi
    calc ∑ j' ∈ range b.nmodes, conj (ent b i j) * ent b i j' * (List.zipWith (· - ·) v₁ v₂).getD j' 0
        = conj (ent b i j) * ∑ j' ∈ range b.nmodes, ent b i j' * (List.zipWith (· - ·) v₁ v₂).getD j' 0 := by
          rw [Finset.mul_sum]; apply Finset.sum_congr rfl; intro j' _; ring
      _ = 0 := by rw [this, mul_zero]
  have hd0 := gaussJordan_unique b.nmodes _ x (by simp)
    (by intro r hr; simp only [List.mem_map, List.mem_range] at hr; obtain ⟨j, _, rfl⟩ := hr; simp)
    h _ hdl hs
  rw [list_eq_range_getD v₁ 0, list_eq_range_getD v₂ 0, h₁, h₂]
  apply List.map_congr_left
  intro j hj
  have := hd0 j (List.mem_range.mp hj)
  rw [hdj] at this
  exact sub_eq_zero.mp this

/-! ## Completeness: independent modes are never answered with "dependent"

A failed pivot search in column `k` exhibits a non-zero vector in the kernel of the coefficient
block (`pivot_fail_kernel`); row operations keep that kernel (`foldlM_sol` with a homogeneous
right-hand side), so `Aᴴ A z = 0`, hence `‖A z‖² = 0`, hence `A z = 0` (`gram_kernel`) —
impossible for independent modes. -/

theorem foldlM_none (len k : Nat) (M : List (List K))
    (h : (List.range' k len).foldlM pivotStep M = none) :
    ∃ j, j < len ∧ ∃ Mj, (List.range' k j).foldlM pivotStep M = some Mj ∧ pivotStep Mj (k + j) = none := by
  induction len generalizing k M with
  | zero => simp at h
  | succ len ih =>
    rw [List.range'_succ, List.foldlM_cons] at h
    cases h1 : pivotStep M k with
    | none => exact ⟨0, by omega, M, by simp, by simpa using h1⟩
    | some M1 =>
      rw [h1] at h
      obtain ⟨j, hj, Mj, hf, hp⟩ := ih (k + 1) M1 (by simpa using h)
      refine ⟨j + 1, by omega, Mj, ?_, ?_⟩
      · rw [List.range'_succ, List.foldlM_cons, h1]; simpa using hf
      · rwa [show k + (j + 1) = k + 1 + j by omega]

/-- the kernel vector exhibited by a failed pivot search in column `k` -/
def kerVec (n k : Nat) (M : List (List K)) : List K :=
  (List.range n).map fun c => if c < k then (M.getD c []).getD k 0 else if c = k then -1 else 0

open Finset in
theorem pivot_fail_kernel (n k : Nat) (M : List (List K)) (hk : k < n) (hR : Red n k M)
    (hfail : pivotStep M k = none) : ∀ r ∈ M, dot r (kerVec n k M ++ [0]) = 0 := by
  have hz : ∀ r ∈ M.drop k, r.getD k 0 = 0 := by
    intro r hr
    simp only [pivotStep] at hfail
    split at hfail
    · next hnone =>
      have := List.find?_eq_none.mp hnone r hr
      simpa using this
    · simp at hfail
  intro r hr
  obtain ⟨i, hi, rfl⟩ := List.getElem_of_mem hr
  have hin : i < n := by rw [← hR.len]; exact hi
  have hlen : M[i].length = n + 1 := hR.row _ hr
  have hzl : (kerVec n k M).length = n := by simp [kerVec]
  have hv : (kerVec n k M ++ [0]).length = n + 1 := by rw [List.length_append, hzl]; simp
  have hrr : M[i] = (List.range (n + 1)).map (M[i].getD · 0) := by
    have := list_eq_range_getD M[i] (0 : K)
    rwa [hlen] at this
  have hdot : dot M[i] (kerVec n k M ++ [0]) =
      ∑ c ∈ range (n + 1), M[i].getD c 0 * (kerVec n k M ++ [0]).getD c 0 := by
    have := dot_range_list (n + 1) (fun c => M[i].getD c 0) (kerVec n k M ++ [0]) hv
    rwa [← hrr] at this
  have hMi : M.getD i [] = M[i] := by
    rw [List.getD_eq_getElem?_getD, List.getElem?_eq_getElem hi]; rfl
  have hzc : ∀ c, c < n → (kerVec n k M ++ [0]).getD c 0 =
      if c < k then (M.getD c []).getD k 0 else if c = k then -1 else 0 := by
    intro c hc
    rw [getD_append_lt' _ _ c (by rw [hzl]; exact hc)]
    unfold kerVec
    rw [getD_map_range _ _ _ _ hc]
  rw [hdot, Finset.sum_range_succ, getD_append_len _ _ n hzl, mul_zero, add_zero]
  by_cases hik : i < k
  · have hterm : ∀ c ∈ range n, M[i].getD c 0 * (kerVec n k M ++ [0]).getD c 0 =
        (if c = i then M[i].getD k 0 else 0) + (if c = k then -(M[i].getD k 0) else 0) := by
      intro c hc
      have hc' : c < n := Finset.mem_range.mp hc
      rw [hzc c hc']
      rcases Nat.lt_trichotomy c k with hck | hck | hck
      · rw [if_pos hck, ← hMi, hR.diag i hik c hck, if_neg (Nat.ne_of_lt hck)]
        by_cases hic : i = c
        · subst hic; simp
        · rw [if_neg hic, if_neg (fun h => hic h.symm)]; simp
      · subst hck
        rw [if_neg (Nat.lt_irrefl _), if_pos rfl, if_neg (Nat.ne_of_gt hik), if_pos rfl]
        ring
      · rw [if_neg (by omega), if_neg (by omega), if_neg (by omega), if_neg (by omega)]
        ring
    rw [Finset.sum_congr rfl hterm, Finset.sum_add_distrib,
      Finset.sum_ite_eq' (range n) i (fun _ => M[i].getD k 0),
      Finset.sum_ite_eq' (range n) k (fun _ => -(M[i].getD k 0)),
      if_pos (Finset.mem_range.mpr hin), if_pos (Finset.mem_range.mpr hk)]
    ring
  · have hki : k ≤ i := Nat.le_of_not_lt hik
    have hmem : M[i] ∈ M.drop k := by
      have : (M.drop k)[i - k]? = some M[i] := by
        rw [List.getElem?_drop, show k + (i - k) = i by omega, List.getElem?_eq_getElem hi]
      exact List.mem_of_getElem? this
    apply Finset.sum_eq_zero
    intro c hc
    have hc' : c < n := Finset.mem_range.mp hc
    rw [hzc c hc']
    rcases Nat.lt_trichotomy c k with hck | hck | hck
    · rw [hR.low _ hmem c hck, zero_mul]
    · subst hck; rw [hz _ hmem, zero_mul]
    · rw [if_neg (by omega), if_neg (by omega), mul_zero]

theorem gaussJordan_none_kernel (n : Nat) (M : List (List K)) (hl : M.length = n)
    (hW : ∀ r ∈ M, r.length = n + 1) (h : gaussJordan n M = none) :
    ∃ z : List K, z.length = n ∧ (∃ k, k < n ∧ z.getD k 0 = -1) ∧ ∀ r ∈ M, dot r (z ++ [0]) = 0 := by
  unfold gaussJordan at h
  have hf : (List.range' 0 n).foldlM pivotStep M = none := by
    rw [← List.range_eq_range']
    cases hfo : (List.range n).foldlM pivotStep M with
    | none => rfl
    | some M' => rw [hfo] at h; simp at h
  obtain ⟨j, hj, Mj, hfj, hpj⟩ := foldlM_none n 0 M hf
  rw [Nat.zero_add] at hpj
  have hR : Red n j Mj := by
    have := foldlM_red n j 0 M Mj (by omega) hfj
      ⟨hl, hW, fun i hi => by omega, fun r _ c hc => by omega⟩
    simpa using this
  refine ⟨kerVec n j Mj, by simp [kerVec], ⟨j, hj, ?_⟩, ?_⟩
  · unfold kerVec
    rw [getD_map_range _ _ _ _ hj, if_neg (Nat.lt_irrefl _), if_pos rfl]
  · exact foldlM_sol _ M Mj (n + 1) _ hfj hW (pivot_fail_kernel n j Mj hj hR hpj)

end

open Finset in
/-- `Aᴴ A z = 0 ⇒ A z = 0` (index-function form; `re (conj w * w)` is the squared modulus) -/
theorem gram_kernel {K R : Type} [CommRing K] [Field R] [LinearOrder R] [IsStrictOrderedRing R]
    (conj : K →+* K) (re : K →+ R) (hpos : ∀ w, 0 ≤ re (conj w * w))
    (hzero : ∀ w, re (conj w * w) = 0 → w = 0) (n m : Nat) (A : Nat → Nat → K) (z : Nat → K)
    (h : ∀ j ∈ range m, ∑ j' ∈ range m, (∑ i ∈ range n, conj (A i j) * A i j') * z j' = 0) :
    ∀ i ∈ range n, ∑ j ∈ range m, A i j * z j = 0 := by
  obtain ⟨w, hw⟩ : ∃ w : Nat → K, ∀ i, w i = ∑ j ∈ range m, A i j * z j := ⟨_, fun _ => rfl⟩
  have h1 : ∀ j ∈ range m, ∑ i ∈ range n, conj (A i j) * w i = 0 := by
    intro j hj
    rw [← h j hj]
    simp only [hw, Finset.mul_sum, Finset.sum_mul]
    rw [Finset.sum_comm]
    apply Finset.sum_congr rfl; intro j' _
    apply Finset.sum_congr rfl; intro i _
    ring
  have hcw : ∀ i, conj (w i) = ∑ j ∈ range m, conj (A i j) * conj (z j) := by
    intro i; rw [hw, map_sum]; simp only [map_mul]
  have h2 : ∑ i ∈ range n, conj (w i) * w i = 0 := by
    calc ∑ i ∈ range n, conj (w i) * w i
        = ∑ i ∈ range n, ∑ j ∈ range m, conj (z j) * (conj (A i j) * w i) := by
          apply Finset.sum_congr rfl; intro i _
          rw [hcw, Finset.sum_mul]
          apply Finset.sum_congr rfl; intro j _
          ring
      _ = ∑ j ∈ range m, ∑ i ∈ range n, conj (z j) * (conj (A i j) * w i) := Finset.sum_comm
      _ = 0 := by
          apply Finset.sum_eq_zero; intro j hj
          rw [← Finset.mul_sum, h1 j hj, mul_zero]
  have h3 : ∑ i ∈ range n, re (conj (w i) * w i) = 0 := by rw [← map_sum, h2, map_zero]
  have h4 := (Finset.sum_eq_zero_iff_of_nonneg (fun i _ => hpos (w i))).mp h3
  intro i hi
  rw [← hw]
  exact hzero _ (h4 i hi)

section
variable {K R : Type} [Field K] [DecidableEq K] [Field R] [LinearOrder R] [IsStrictOrderedRing R]

open Finset in
/-- **`ModeBasis.lstsq` is complete**: for linearly independent modes it always answers. -/
theorem lstsq_complete_gen (conj : K →+* K) (re : K →+ R) (hpos : ∀ w, 0 ≤ re (conj w * w))
    (hzero : ∀ w, re (conj w * w) = 0 → w = 0) (b : Basis K) (hb : WF b)
    (hind : ∀ x y : List K, x.length = b.nmodes → y.length = b.nmodes → linComb b x = linComb b y → x = y)
    (y : List K) (hy : y.length = b.npix) : ∃ x, lstsq conj b y = some x := by
  cases h : lstsq conj b y with
  | some x => exact ⟨x, rfl⟩
  | none =>
    exfalso
    simp only [lstsq] at h
    have hM : List.zipWith (fun g hi => g ++ [hi])
        ((adjRows conj b).map fun r => ((List.range b.nmodes).map (column b)).map fun c => dot r c)
        (matvec (adjRows conj b) y) =
        (List.range b.nmodes).map fun j =>
          ((List.range b.nmodes).map fun j' => dot ((column b j).map conj) (column b j')) ++
            [dot ((column b j).map conj) y] := by
      unfold adjRows matvec
      rw [List.map_map, List.map_map, List.zipWith_map, List.zipWith_self]
      apply List.map_congr_left
      intro j _
      simp only [Function.comp, List.map_map]
      rfl
    rw [hM] at h
    obtain ⟨z, hzl, ⟨k, hk, hzk⟩, hsol⟩ := gaussJordan_none_kernel b.nmodes _ (by simp)
      (by intro r hr; simp only [List.mem_map, List.mem_range] at hr; obtain ⟨j, _, rfl⟩ := hr; simp) h
    have hcol : ∀ j j', dot ((column b j).map conj) (column b j') =
        ∑ i ∈ range b.npix, conj (ent b i j) * ent b i j' := by
      intro j j'
      unfold column
      rw [List.map_map, dot_range_list b.npix _ _ (by simp)]
      apply Finset.sum_congr rfl
      intro i hi
      rw [getD_map_range _ _ _ _ (Finset.mem_range.mp hi)]
      rfl
    have heq : ∀ j ∈ range b.nmodes,
        ∑ j' ∈ range b.nmodes, (∑ i ∈ range b.npix, conj (ent b i j) * ent b i j') * z.getD j' 0 = 0 := by
      intro j hj
      have := hsol _ (List.mem_map.mpr ⟨j, List.mem_range.mpr (Finset.mem_range.mp hj), rfl⟩)
      rw [dot_append_single _ _ _ _ (by simp [hzl]), dot_range_list b.nmodes _ z hzl, mul_zero,
        add_zero] at this
      simp only [hcol] at this
      exact this
    have hAz := gram_kernel conj re hpos hzero b.npix b.nmodes (ent b) (fun j => z.getD j 0) heq
    have hl0 : (List.replicate b.nmodes (0 : K)).length = b.nmodes := by simp
    have hlc : linComb b z = linComb b (List.replicate b.nmodes 0) := by
      rw [linComb_fn b hb z hzl, linComb_fn b hb _ hl0]
      apply List.map_congr_left
      intro i hi
      rw [hAz i (Finset.mem_range.mpr (List.mem_range.mp hi))]
      symm
      apply Finset.sum_eq_zero
      intro j hj
      rw [getD_replicate_zero, mul_zero]
    have hz0 := hind z _ hzl hl0 hlc
    rw [hz0] at hzk
    rw [getD_replicate_zero] at hzk
    exact absurd hzk.symm (neg_ne_zero.mpr one_ne_zero)

end

end HcipyVerif.ModeBasis
