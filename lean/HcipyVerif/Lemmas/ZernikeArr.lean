import HcipyVerif.Model.ZernikeArr
import HcipyVerif.Lemmas.Zernike

/-! Helper lemmas for C13: the array-level cache model (`Model/ZernikeArr.lean`).  The invariant `AValid` says
that every cache slot — a float or a *reference* into the heap — currently reads as the array a fresh
evaluation would produce; the repaired code only ever appends to the heap (`Ext`) or overwrites the array it
has just allocated, so the invariant is kept by every request. -/
set_option linter.unusedSimpArgs false
set_option linter.unusedVariables false

namespace HcipyVerif.Zernike

/-! ### lists -/

theorem zip3With_map {α : Type} (f : Rat → Rat → Rat → Rat) (g1 g2 g3 : α → Rat) (l : List α) :
    zip3With f (l.map g1) (l.map g2) (l.map g3) = l.map fun x => f (g1 x) (g2 x) (g3 x) := by
  induction l with
  | nil => rfl
  | cons a l ih => simp only [List.map_cons, zip3With, ih]

theorem zipWith_map_same {α : Type} (f : Rat → Rat → Rat) (g1 g2 : α → Rat) (l : List α) :
    List.zipWith f (l.map g1) (l.map g2) = l.map fun x => f (g1 x) (g2 x) := by
  rw [List.zipWith_map, List.zipWith_self]

theorem outerA_map {α β : Type} (g : α → Rat) (f : β → Rat) (l : List α) (l' : List β) :
    outerA (l.map g) (l'.map f) = l.flatMap fun d => l'.map fun r => g d * f r := by
  unfold outerA
  rw [List.flatMap_map]
  simp only [List.map_map, Function.comp_def]

theorem replicate_eq_map {α : Type} (l : List α) (v : Rat) : List.replicate l.length v = l.map fun _ => v :=
  List.map_const'.symm

/-- flat index `i·|l'| + j` of the `l'`-fastest layout -/
theorem flatMap_map_getElem? {α β γ : Type} (F : α → β → γ) (l : List α) (l' : List β) :
    ∀ (i j : Nat) (hi : i < l.length) (hj : j < l'.length),
      (l.flatMap fun a => l'.map fun b => F a b)[i * l'.length + j]? = some (F l[i] l'[j]) := by
  induction l with
  | nil => intro i j hi; simp at hi
  | cons a l ih =>
    intro i j hi hj
    rw [List.flatMap_cons]
    cases i with
    | zero =>
      rw [List.getElem?_append_left (by simp; omega)]
      simp [hj]
    | succ i =>
      have e : (i + 1) * l'.length + j = (List.map (fun b => F a b) l').length + (i * l'.length + j) := by
        rw [List.length_map, Nat.succ_mul]; omega
      rw [e, List.getElem?_append_right (by omega), Nat.add_sub_cancel_left]
      simp only [List.length_cons, Nat.add_lt_add_iff_right] at hi
      rw [ih i j hi hj]
      simp

/-! ### heap: references stay valid when the heap only grows -/

def WfVal (h : Heap) : Val → Prop
  | .scalar _ => True
  | .ref i => i < h.length

/-- the heap only grew: old arrays untouched -/
def Ext (h h' : Heap) : Prop := ∃ l, h' = h ++ l

theorem Ext.refl (h : Heap) : Ext h h := ⟨[], by simp⟩
theorem Ext.trans {h h' h'' : Heap} (a : Ext h h') (b : Ext h' h'') : Ext h h'' := by
  obtain ⟨l, rfl⟩ := a; obtain ⟨l', rfl⟩ := b; exact ⟨l ++ l', by simp⟩
theorem Ext.snoc (h : Heap) (a : Arr) : Ext h (h ++ [a]) := ⟨[a], rfl⟩

theorem WfVal.ext {h h' : Heap} {v : Val} (w : WfVal h v) (e : Ext h h') : WfVal h' v := by
  obtain ⟨l, rfl⟩ := e
  cases v with
  | scalar _ => trivial
  | ref i => simp only [WfVal, List.length_append] at *; omega

theorem read_ext {h h' : Heap} {v : Val} (len : Nat) (w : WfVal h v) (e : Ext h h') : h'.read len v = h.read len v := by
  obtain ⟨l, rfl⟩ := e
  cases v with
  | scalar _ => rfl
  | ref i =>
    simp only [WfVal] at w
    simp only [Heap.read, List.getD_eq_getElem?_getD, List.getElem?_append_left w]

theorem read_snoc (h : Heap) (a : Arr) (len : Nat) : Heap.read (h ++ [a]) len (.ref h.length) = a := by
  simp [Heap.read, List.getD_eq_getElem?_getD]

theorem set_snoc (h : Heap) (a a' : Arr) : (h ++ [a]).set h.length a' = h ++ [a'] := by
  rw [List.set_append_right _ _ (Nat.le_refl _)]; simp

/-! ### the cache -/

theorem AState.getC_putC (st : AState) (k k' : Key) (v : Val) :
    (st.putC k v).getC k' = if k' = k then some v else st.getC k' := by
  unfold AState.putC AState.getC
  by_cases h : k' = k
  · subst h; simp
  · have hne : (k == k') = false := by simp [Ne.symm h]
    simp only [List.find?_cons, hne, if_neg h]
    congr 1
    rw [List.find?_filter]
    congr 1
    funext a
    by_cases ha : a.1 = k'
    · have : a.1 ≠ k := fun e => h (ha ▸ e)
      simp [ha, this, h]
    · simp [ha]

/-- length of the axis a key's array lives on -/
def klen (ρ : Arr) (dirs : List (Rat × Rat)) : Key → Nat
  | .azim _ => dirs.length
  | _ => ρ.length

/-- the array a fresh evaluation stores under a key -/
def plainArr (ρ : Arr) (dirs : List (Rat × Rat)) : Key → Arr
  | .rad n m => ρ.map fun x => radialEval n m x
  | .red n k => ρ.map fun x => reducedEval n (x * x) k
  | .azim m => dirs.map fun d => azimQ m d.1 d.2

/-- every cache slot holds a live reference (or a float) that *currently reads* as the fresh value -/
def AValid (ρ : Arr) (dirs : List (Rat × Rat)) (st : AState) : Prop :=
  ∀ k v, st.getC k = some v → WfVal st.heap v ∧ st.heap.read (klen ρ dirs k) v = plainArr ρ dirs k

theorem AValid.empty (ρ : Arr) (dirs : List (Rat × Rat)) : AValid ρ dirs {} := by
  intro k v h; simp [AState.getC] at h

theorem AValid.grow {ρ : Arr} {dirs : List (Rat × Rat)} {st : AState} (h : AValid ρ dirs st) (h' : Heap)
    (e : Ext st.heap h') : AValid ρ dirs { st with heap := h' } := by
  intro k v hg
  obtain ⟨w, r⟩ := h k v hg
  exact ⟨w.ext e, by rw [← r]; exact read_ext _ w e⟩

theorem AValid.putC {ρ : Arr} {dirs : List (Rat × Rat)} {st : AState} (h : AValid ρ dirs st) (k : Key) (v : Val)
    (w : WfVal st.heap v) (r : st.heap.read (klen ρ dirs k) v = plainArr ρ dirs k) : AValid ρ dirs (st.putC k v) := by
  intro k' v' hg
  rw [AState.getC_putC] at hg
  split at hg
  · rename_i e; subst e; injection hg with hg; subst hg; exact ⟨w, r⟩
  · exact h k' v' hg

/-- what a memoised evaluation guarantees: heap only grew, cache still valid, the returned value is live and
reads as `a` -/
structure Post (ρ : Arr) (dirs : List (Rat × Rat)) (st : AState) (len : Nat) (a : Arr) (r : Val × AState) : Prop where
  ext : Ext st.heap r.2.heap
  valid : AValid ρ dirs r.2
  wf : WfVal r.2.heap r.1
  val : r.2.heap.read len r.1 = a

/-- allocate-and-store: the common tail of the three memoised functions -/
theorem post_alloc_put {ρ : Arr} {dirs : List (Rat × Rat)} {st0 st : AState} (e : Ext st0.heap st.heap)
    (h : AValid ρ dirs st) (k : Key) (a : Arr) (ha : a = plainArr ρ dirs k) :
    Post ρ dirs st0 (klen ρ dirs k) (plainArr ρ dirs k)
      ((Val.ref st.heap.length : Val), ({ st with heap := st.heap ++ [a] } : AState).putC k (.ref st.heap.length)) := by
  have hv : AValid ρ dirs { st with heap := st.heap ++ [a] } := h.grow _ (Ext.snoc _ _)
  have w : WfVal (st.heap ++ [a]) (.ref st.heap.length) := by simp [WfVal]
  refine ⟨e.trans (Ext.snoc _ _), hv.putC k _ w ?_, w, ?_⟩
  · show Heap.read (st.heap ++ [a]) _ _ = _
    rw [read_snoc, ha]
  · show Heap.read (st.heap ++ [a]) _ _ = _
    rw [read_snoc, ha]

theorem memoReducedA_spec (n : Nat) (ρ : Arr) (dirs : List (Rat × Rat)) :
    ∀ k st, AValid ρ dirs st →
      Post ρ dirs st ρ.length (ρ.map fun x => reducedEval n (x * x) k) (memoReducedA n (ρ.map fun x => x * x) k st)
  | 0, st, h => by
    unfold memoReducedA
    split
    · rename_i v hv
      obtain ⟨w, r⟩ := h _ _ hv
      exact ⟨Ext.refl _, h, w, r⟩
    · refine ⟨Ext.refl _, h.putC _ _ trivial ?_, trivial, ?_⟩
      · show List.replicate ρ.length 1 = _
        rw [replicate_eq_map]; rfl
      · show List.replicate ρ.length 1 = _
        rw [replicate_eq_map]; rfl
  | 1, st, h => by
    unfold memoReducedA
    split
    · rename_i v hv
      obtain ⟨w, r⟩ := h _ _ hv
      exact ⟨Ext.refl _, h, w, r⟩
    · refine post_alloc_put (Ext.refl _) h (.red n 1) _ ?_
      simp only [plainArr, List.map_map, Function.comp_def, reducedEval]
  | k + 2, st, h => by
    unfold memoReducedA
    split
    · rename_i v hv
      obtain ⟨w, r⟩ := h _ _ hv
      exact ⟨Ext.refl _, h, w, r⟩
    · have a := memoReducedA_spec n ρ dirs k st h
      have b := memoReducedA_spec n ρ dirs (k + 1) _ a.valid
      simp only
      refine post_alloc_put (a.ext.trans b.ext) b.valid (.red n (k + 2)) _ ?_
      rw [List.length_map, read_ext _ a.wf b.ext, a.val, b.val, zip3With_map]
      simp only [plainArr, reducedEval]

theorem memoRadialA_spec (n m : Nat) (ρ : Arr) (dirs : List (Rat × Rat)) (st : AState) (h : AValid ρ dirs st) :
    Post ρ dirs st ρ.length (ρ.map fun x => radialEval n m x) (memoRadialA n m ρ st) := by
  unfold memoRadialA
  split
  · rename_i v hv
    obtain ⟨w, r⟩ := h _ _ hv
    exact ⟨Ext.refl _, h, w, r⟩
  · have a := memoReducedA_spec n ρ dirs ((n - m) / 2) st h
    simp only
    refine post_alloc_put a.ext a.valid (.rad n m) _ ?_
    rw [a.val]
    have := zipWith_map_same (fun x y => x ^ m * y) (fun x => x) (fun x => reducedEval n (x * x) ((n - m) / 2)) ρ
    rw [List.map_id'] at this
    rw [this]
    simp only [plainArr, radialEval]

theorem memoAzimA_spec (m : Int) (ρ : Arr) (dirs : List (Rat × Rat)) (st : AState) (h : AValid ρ dirs st) :
    Post ρ dirs st dirs.length (dirs.map fun d => azimQ m d.1 d.2) (memoAzimA m dirs st) := by
  unfold memoAzimA
  split
  · rename_i h0; subst h0
    refine ⟨Ext.refl _, h, trivial, ?_⟩
    show List.replicate dirs.length 1 = _
    rw [replicate_eq_map]
    simp [azimQ]
  · split
    · rename_i v hv
      obtain ⟨w, r⟩ := h _ _ hv
      exact ⟨Ext.refl _, h, w, r⟩
    · exact post_alloc_put (Ext.refl _) h (.azim m) _ rfl

/-! ### one request -/

theorem cut_pointwise (n : Nat) (m : Int) (D r c s : Rat) (cut : Bool) :
    azimQ m c s * (if cut then radialEval n m.natAbs (2 * r / D) * (if inside D r then 1 else 0)
                    else radialEval n m.natAbs (2 * r / D)) = modeQCut n m D r c s cut := by
  unfold modeQCut modeQ
  cases cut <;> cases hin : inside D r <;> simp [mul_comm]

theorem modeSepA_spec (D : Rat) (R : Arr) (dirs : List (Rat × Rat)) (q : Req) (st : AState)
    (h : AValid (R.map fun r => 2 * r / D) dirs st) :
    (modeSepA false D R dirs q st).1 = plainA D (.sep R dirs) q ∧
      AValid (R.map fun r => 2 * r / D) dirs (modeSepA false D R dirs q st).2 := by
  have a := memoRadialA_spec q.n q.m.natAbs (R.map fun r => 2 * r / D) dirs st h
  unfold modeSepA
  simp only [Bool.false_eq_true, if_false]
  rw [List.length_map] at a
  by_cases hc : q.cutoff = true
  · simp only [hc, if_true]
    -- `z_r = z_r * mask`: a fresh array
    have hv2 : AValid (R.map fun r => 2 * r / D) dirs
        (AState.alloc (memoRadialA q.n q.m.natAbs (R.map fun r => 2 * r / D) st).2
          (mulA (Heap.read (memoRadialA q.n q.m.natAbs (R.map fun r => 2 * r / D) st).2.heap R.length
            (memoRadialA q.n q.m.natAbs (R.map fun r => 2 * r / D) st).1) (maskA D R))).2 :=
      a.valid.grow _ (Ext.snoc _ _)
    have b := memoAzimA_spec q.m _ dirs _ hv2
    refine ⟨?_, b.valid⟩
    rw [b.val]
    have hw : WfVal (AState.alloc (memoRadialA q.n q.m.natAbs (R.map fun r => 2 * r / D) st).2
          (mulA (Heap.read (memoRadialA q.n q.m.natAbs (R.map fun r => 2 * r / D) st).2.heap R.length
            (memoRadialA q.n q.m.natAbs (R.map fun r => 2 * r / D) st).1) (maskA D R))).2.heap
        (AState.alloc (memoRadialA q.n q.m.natAbs (R.map fun r => 2 * r / D) st).2
          (mulA (Heap.read (memoRadialA q.n q.m.natAbs (R.map fun r => 2 * r / D) st).2.heap R.length
            (memoRadialA q.n q.m.natAbs (R.map fun r => 2 * r / D) st).1) (maskA D R))).1 := by
      simp [AState.alloc, WfVal]
    rw [read_ext _ hw b.ext]
    simp only [AState.alloc, read_snoc, a.val, mulA, maskA, List.map_map, Function.comp_def]
    rw [zipWith_map_same, outerA_map]
    simp only [plainA]
    congr 1; funext d; congr 1; funext r
    have := cut_pointwise q.n q.m D r d.1 d.2 true
    simp only [if_true] at this
    rw [this, hc]
  · simp only [hc, if_false, Bool.false_eq_true]
    have b := memoAzimA_spec q.m _ dirs _ a.valid
    refine ⟨?_, b.valid⟩
    rw [b.val, read_ext _ a.wf b.ext, a.val, List.map_map, outerA_map]
    simp only [plainA, Function.comp_def]
    congr 1; funext d; congr 1; funext r
    have := cut_pointwise q.n q.m D r d.1 d.2 false
    simp only [Bool.false_eq_true, if_false] at this
    rw [this]
    simp at hc
    rw [hc]

/-- the generic branch on the points `pts = [(r, (c, s)), …]` -/
theorem modePtsA_spec (D : Rat) (pts : List (Rat × Rat × Rat)) (q : Req) (st : AState)
    (h : AValid ((pts.map (·.1)).map fun r => 2 * r / D) (pts.map (·.2)) st) :
    (modePtsA D (pts.map (·.1)) (pts.map (·.2)) q st).1 = plainA D (.pts (pts.map (·.1)) (pts.map (·.2))) q ∧
      AValid ((pts.map (·.1)).map fun r => 2 * r / D) (pts.map (·.2)) (modePtsA D (pts.map (·.1)) (pts.map (·.2)) q st).2 := by
  have a := memoAzimA_spec q.m _ (pts.map (·.2)) st h
  have b := memoRadialA_spec q.n q.m.natAbs _ (pts.map (·.2)) _ a.valid
  have la : (pts.map (·.2)).length = (pts.map (·.1)).length := by simp
  rw [la] at a
  rw [List.length_map (as := pts.map (·.1))] at b
  unfold modePtsA
  simp only [AState.alloc]
  have hz : plainA D (.pts (pts.map (·.1)) (pts.map (·.2))) q
      = pts.map fun p => modeQCut q.n q.m D p.1 p.2.1 p.2.2 q.cutoff := by
    simp only [plainA, List.zipWith_map, List.zipWith_self]
  rw [hz]
  by_cases hc : q.cutoff = true
  · simp only [hc, if_true, AState.write, read_snoc, set_snoc]
    refine ⟨?_, b.valid.grow _ (Ext.snoc _ _)⟩
    rw [read_ext _ a.wf b.ext, a.val, b.val]
    simp only [mulA, maskA, List.map_map, Function.comp_def, zipWith_map_same]
    apply List.map_congr_left
    intro p _
    have := cut_pointwise q.n q.m D p.1 p.2.1 p.2.2 true
    simp only [if_true] at this
    rw [← this]; ring
  · simp only [hc, if_false, Bool.false_eq_true, read_snoc]
    refine ⟨?_, b.valid.grow _ (Ext.snoc _ _)⟩
    rw [read_ext _ a.wf b.ext, a.val, b.val]
    simp only [mulA, List.map_map, Function.comp_def, zipWith_map_same]
    apply List.map_congr_left
    intro p _
    have := cut_pointwise q.n q.m D p.1 p.2.1 p.2.2 false
    simp only [Bool.false_eq_true, if_false] at this
    rw [this]

/-! ### histories -/

/-- the axes of a grid in the form the invariant uses -/
def AGrid.rho (D : Rat) : AGrid → Arr
  | .sep R _ => R.map fun r => 2 * r / D
  | .pts rs _ => rs.map fun r => 2 * r / D

def AGrid.dirs : AGrid → List (Rat × Rat)
  | .sep _ d => d
  | .pts _ d => d

/-- an unstructured grid has one direction per radius -/
def AGrid.WF : AGrid → Prop
  | .sep _ _ => True
  | .pts rs d => rs.length = d.length

theorem pts_of_zip (rs : Arr) (d : List (Rat × Rat)) (hl : rs.length = d.length) :
    (rs.zip d).map (·.1) = rs ∧ (rs.zip d).map (·.2) = d :=
  ⟨List.map_fst_zip (by omega), List.map_snd_zip (by omega)⟩

theorem modeA_spec (D : Rat) (g : AGrid) (hg : g.WF) (q : Req) (st : AState) (h : AValid (g.rho D) g.dirs st) :
    (modeA false D g q st).1 = plainA D g q ∧ AValid (g.rho D) g.dirs (modeA false D g q st).2 := by
  cases g with
  | sep R d => exact modeSepA_spec D R d q st h
  | pts rs d =>
    obtain ⟨e1, e2⟩ := pts_of_zip rs d hg
    have := modePtsA_spec D (rs.zip d) q st (by rw [e1, e2]; exact h)
    rw [e1, e2] at this
    exact this

theorem runA_spec (D : Rat) (g : AGrid) (hg : g.WF) : ∀ (reqs : List Req) (st : AState), AValid (g.rho D) g.dirs st →
    (runA false D g reqs st).map (·.1) = reqs.map (plainA D g) ∧
      ∀ r ∈ runA false D g reqs st, AValid (g.rho D) g.dirs r.2
  | [], _, _ => ⟨rfl, by intro r hr; cases hr⟩
  | q :: qs, st, h => by
    obtain ⟨a, b⟩ := modeA_spec D g hg q st h
    obtain ⟨c, d⟩ := runA_spec D g hg qs _ b
    simp only [runA, List.map_cons]
    refine ⟨by rw [a, c], ?_⟩
    intro r hr
    rcases List.mem_cons.mp hr with rfl | hr
    · exact b
    · exact d r hr

end HcipyVerif.Zernike
