import HcipyVerif.Lemmas.FftBackward2
import HcipyVerif.Lemmas.FourierC02
import HcipyVerif.Lemmas.Fraunhofer
import Mathlib.Algebra.BigOperators.Fin

/-!
# Link C01/C02 → C03: the FFT model satisfies the Fourier hypotheses of the Fraunhofer theorems

`Properties/C03.lean` states what it needs about the Fourier transform as hypotheses
(`EvaluatesFourierSum`, `ParsevalOn`, `InverseOn`).  Here they are discharged for the model of
`FastFourierTransform` (`fastForward2` / `fastBackward2`, literal 2-D pipeline, both
`emulate_fftshifts` settings, `Complex.exp` characters) and, in one dimension, for `fastForward` /
`fastBackward`:

* `fft2_evaluates`  — on **any** consistent FFT grid (padded, cropped, shifted);
* `fft2_parseval`, `fft2_inverse` — on the full conjugate pair `Mo = M` on both axes.

Per-axis hypotheses are collected in `AxisOK`: `N ≤ M`, `Mo ≤ M`, `dT·M·δ = 1` (`Δ·M·δ = 2π`) and
the weight of a regular grid `w = δ`.
-/
set_option linter.unusedSimpArgs false
set_option linter.unusedVariables false
set_option linter.unusedSectionVars false

namespace HcipyVerif.FourierLink
open HcipyVerif.Fft HcipyVerif.Fraunhofer Finset Complex ComplexConjugate

/-- what one axis of a `FastFourierTransform` on a regular grid satisfies -/
structure AxisOK (g : Cfg ℝ ℂ) : Prop where
  hN : g.N ≤ g.M
  hMo : g.Mo ≤ g.M
  hcons : g.dT * (g.M : ℝ) * g.δ = 1
  hw : g.w = ((g.δ : ℝ) : ℂ)

namespace AxisOK
variable {g : Cfg ℝ ℂ} (ok : AxisOK g)
include ok

/-- `Δ/(2π)·M·w = 1` -/
theorem hwo : ((g.dT : ℝ) : ℂ) * (g.M : ℂ) * g.w = 1 := by
  rw [ok.hw]
  have := ok.hcons
  exact_mod_cast this

theorem conj_w : conj g.w = g.w := by rw [ok.hw, Complex.conj_ofReal]

end AxisOK

/-! ## one axis, ℕ-indexed -/

/-- Parseval in inner-product form on a full pair (from adjointness and the inverse). -/
theorem parseval_inner_sum (g : Cfg ℝ ℂ) (ok : AxisOK g) (hfull : g.Mo = g.M) (e h : ℕ → ℂ) :
    ∑ k ∈ range g.Mo, conj (sumForward expT expE g e k) * sumForward expT expE g h k * ((g.dT : ℝ) : ℂ)
      = ∑ j ∈ range g.N, conj (e j) * h j * g.w := by
  rw [adjoint_sumForward_sumBackward_exp g ((g.dT : ℝ) : ℂ) ok.conj_w (Complex.conj_ofReal _) h
    (sumForward expT expE g e)]
  apply Finset.sum_congr rfl
  intro j hj
  rw [full_grid_inverse_sum_exp g _ hfull ok.hN ok.hcons ok.hwo e j (mem_range.mp hj)]

/-! ## two axes, ℕ-indexed -/

/-- the 2-D defining sum as iterated 1-D sums -/
noncomputable def S2 (gy gx : Cfg ℝ ℂ) (e : ℕ → ℕ → ℂ) (ky kx : ℕ) : ℂ :=
  sumForward expT expE gy (fun iy => sumForward expT expE gx (e iy) kx) ky

theorem fastForward2_eq_S2 (gy gx : Cfg ℝ ℂ) (oky : AxisOK gy) (okx : AxisOK gx) (hemu : gy.emu = gx.emu)
    (e : ℕ → ℕ → ℂ) (ky kx : ℕ) (hky : ky < gy.Mo) (hkx : kx < gx.Mo) :
    fastForward2 expT expE gy gx e ky kx = S2 gy gx e ky kx := by
  rw [fastForward2_eq_iter expT_isChar expE_isChar gy gx hemu]
  unfold fastForward2Iter S2
  rw [fastForward_eq_sumForward expT_isChar expE_isChar expT_period gy oky.hN oky.hMo oky.hcons _ ky hky]
  congr 1
  funext iy
  exact fastForward_eq_sumForward expT_isChar expE_isChar expT_period gx okx.hN okx.hMo okx.hcons _ kx hkx

/-- 2-D Parseval (inner-product form) for the defining sums on a full pair -/
theorem parseval_inner_S2 (gy gx : Cfg ℝ ℂ) (oky : AxisOK gy) (okx : AxisOK gx)
    (hfy : gy.Mo = gy.M) (hfx : gx.Mo = gx.M) (e h : ℕ → ℕ → ℂ) :
    ∑ ky ∈ range gy.Mo, ∑ kx ∈ range gx.Mo,
        conj (S2 gy gx e ky kx) * S2 gy gx h ky kx * (((gy.dT : ℝ) : ℂ) * ((gx.dT : ℝ) : ℂ))
      = ∑ iy ∈ range gy.N, ∑ ix ∈ range gx.N, conj (e iy ix) * h iy ix * (gy.w * gx.w) := by
  rw [Finset.sum_comm]
  have step1 : ∀ kx ∈ range gx.Mo, ∑ ky ∈ range gy.Mo,
        conj (S2 gy gx e ky kx) * S2 gy gx h ky kx * (((gy.dT : ℝ) : ℂ) * ((gx.dT : ℝ) : ℂ))
      = ∑ iy ∈ range gy.N, conj (sumForward expT expE gx (e iy) kx) * sumForward expT expE gx (h iy) kx
          * gy.w * ((gx.dT : ℝ) : ℂ) := by
    intro kx _
    have := parseval_inner_sum gy oky hfy (fun iy => sumForward expT expE gx (e iy) kx)
      (fun iy => sumForward expT expE gx (h iy) kx)
    calc ∑ ky ∈ range gy.Mo,
          conj (S2 gy gx e ky kx) * S2 gy gx h ky kx * (((gy.dT : ℝ) : ℂ) * ((gx.dT : ℝ) : ℂ))
        = (∑ ky ∈ range gy.Mo, conj (sumForward expT expE gy (fun iy => sumForward expT expE gx (e iy) kx) ky)
            * sumForward expT expE gy (fun iy => sumForward expT expE gx (h iy) kx) ky * ((gy.dT : ℝ) : ℂ))
            * ((gx.dT : ℝ) : ℂ) := by
          rw [Finset.sum_mul]; apply Finset.sum_congr rfl; intro ky _; unfold S2; ring
      _ = (∑ iy ∈ range gy.N, conj (sumForward expT expE gx (e iy) kx) * sumForward expT expE gx (h iy) kx
            * gy.w) * ((gx.dT : ℝ) : ℂ) := by rw [this]
      _ = _ := by rw [Finset.sum_mul]
  rw [Finset.sum_congr rfl step1, Finset.sum_comm]
  apply Finset.sum_congr rfl
  intro iy _
  calc ∑ kx ∈ range gx.Mo, conj (sumForward expT expE gx (e iy) kx) * sumForward expT expE gx (h iy) kx
          * gy.w * ((gx.dT : ℝ) : ℂ)
      = gy.w * ∑ kx ∈ range gx.Mo, conj (sumForward expT expE gx (e iy) kx)
          * sumForward expT expE gx (h iy) kx * ((gx.dT : ℝ) : ℂ) := by
        rw [Finset.mul_sum]; apply Finset.sum_congr rfl; intro kx _; ring
    _ = gy.w * ∑ ix ∈ range gx.N, conj (e iy ix) * h iy ix * gx.w := by
        rw [parseval_inner_sum gx okx hfx (e iy) (h iy)]
    _ = _ := by rw [Finset.mul_sum]; apply Finset.sum_congr rfl; intro ix _; ring

/-- a backward sum along `x` commutes with a forward sum along `y` -/
theorem sumBackward_sumForward_comm (gy gx : Cfg ℝ ℂ) (w : ℂ) (A : ℕ → ℕ → ℂ) (ky jx : ℕ) :
    sumBackward expT expE gx w (fun kx => sumForward expT expE gy (fun iy => A iy kx) ky) jx
      = sumForward expT expE gy (fun iy => sumBackward expT expE gx w (A iy) jx) ky := by
  simp only [sumBackward, sumForward, sumRange_eq, Finset.sum_mul, Finset.mul_sum]
  rw [Finset.sum_comm]
  apply Finset.sum_congr rfl; intro iy _
  apply Finset.sum_congr rfl; intro kx _
  ring

/-- `backward(forward(e)) = e` for the literal 2-D pipelines on a full pair -/
theorem fastBackward2_fastForward2 (gy gx : Cfg ℝ ℂ) (oky : AxisOK gy) (okx : AxisOK gx)
    (hemu : gy.emu = gx.emu) (hfy : gy.Mo = gy.M) (hfx : gx.Mo = gx.M) (e : ℕ → ℕ → ℂ)
    (jy jx : ℕ) (hjy : jy < gy.N) (hjx : jx < gx.N) :
    fastBackward2 expT expE gy gx (fastForward2 expT expE gy gx e) jy jx = e jy jx := by
  rw [fastBackward2_eq_iter expT_isChar expE_isChar gy gx hemu]
  unfold fastBackward2Iter
  rw [fastBackward_eq_sumBackward expT_isChar expE_isChar expT_period gy oky.hN oky.hMo oky.hcons
    ((gy.dT : ℝ) : ℂ) oky.hwo _ jy hjy]
  have inner : ∀ ky < gy.Mo, fastBackward expT expE gx (fastForward2 expT expE gy gx e ky) jx
      = sumForward expT expE gy (fun iy => e iy jx) ky := by
    intro ky hky
    rw [fastBackward_eq_sumBackward expT_isChar expE_isChar expT_period gx okx.hN okx.hMo okx.hcons
      ((gx.dT : ℝ) : ℂ) okx.hwo _ jx hjx]
    have hc : sumBackward expT expE gx ((gx.dT : ℝ) : ℂ) (fastForward2 expT expE gy gx e ky) jx
        = sumBackward expT expE gx ((gx.dT : ℝ) : ℂ)
            (fun kx => sumForward expT expE gy (fun iy => sumForward expT expE gx (e iy) kx) ky) jx := by
      simp only [sumBackward, sumRange_eq]
      apply Finset.sum_congr rfl
      intro kx hkx
      rw [fastForward2_eq_S2 gy gx oky okx hemu e ky kx hky (mem_range.mp hkx)]
      rfl
    rw [hc, sumBackward_sumForward_comm]
    congr 1
    funext iy
    exact full_grid_inverse_sum_exp gx _ hfx okx.hN okx.hcons okx.hwo (e iy) jx hjx
  have hc2 : sumBackward expT expE gy ((gy.dT : ℝ) : ℂ)
        (fun ky => fastBackward expT expE gx (fastForward2 expT expE gy gx e ky) jx) jy
      = sumBackward expT expE gy ((gy.dT : ℝ) : ℂ) (sumForward expT expE gy (fun iy => e iy jx)) jy := by
    simp only [sumBackward, sumRange_eq]
    apply Finset.sum_congr rfl
    intro ky hky
    rw [inner ky (mem_range.mp hky)]
  rw [hc2]
  exact full_grid_inverse_sum_exp gy _ hfy oky.hN oky.hcons oky.hwo (fun iy => e iy jx) jy hjy

/-! ## explicit sum formulas for the literal 2-D pipelines (Complex.exp characters) -/

theorem fwd2_sum (gy gx : Cfg ℝ ℂ) (oky : AxisOK gy) (okx : AxisOK gx) (hemu : gy.emu = gx.emu)
    (e : ℕ → ℕ → ℂ) (ky kx : ℕ) (hky : ky < gy.Mo) (hkx : kx < gx.Mo) :
    fastForward2 expT expE gy gx e ky kx
      = ∑ iy ∈ range gy.N, ∑ ix ∈ range gx.N, e iy ix * (gy.w * gx.w) *
          (expT (-(gx.a kx * gx.x ix + gy.a ky * gy.x iy)) * expE (-(gx.s * gx.x ix + gy.s * gy.x iy))) := by
  rw [fastForward2_eq_iter expT_isChar expE_isChar gy gx hemu]
  exact fastForward2Iter_eq_sum expT_isChar expE_isChar expT_period gy gx oky.hN oky.hMo oky.hcons
    okx.hN okx.hMo okx.hcons e ky kx hky hkx

theorem bwd2_sum (gy gx : Cfg ℝ ℂ) (oky : AxisOK gy) (okx : AxisOK gx) (hemu : gy.emu = gx.emu)
    (F : ℕ → ℕ → ℂ) (jy jx : ℕ) (hjy : jy < gy.N) (hjx : jx < gx.N) :
    fastBackward2 expT expE gy gx F jy jx
      = ∑ ky ∈ range gy.Mo, ∑ kx ∈ range gx.Mo, F ky kx * (((gy.dT : ℝ) : ℂ) * ((gx.dT : ℝ) : ℂ)) *
          (expT (gx.a kx * gx.x jx + gy.a ky * gy.x jy) * expE (gx.s * gx.x jx + gy.s * gy.x jy)) := by
  rw [fastBackward2_eq_iter expT_isChar expE_isChar gy gx hemu]
  exact fastBackward2Iter_eq_sum expT_isChar expE_isChar expT_period gy gx oky.hN oky.hMo oky.hcons
    okx.hN okx.hMo okx.hcons _ _ oky.hwo okx.hwo F jy jx hjy hjx

/-! ## packaging on finite index types (the shapes of `Lemmas/Fraunhofer.lean`) -/

/-- a field on the `(Ny, Nx)` grid as an ℕ-indexed array (zero outside) -/
noncomputable def ext2 {n m : ℕ} (E : Fin n × Fin m → ℂ) (i j : ℕ) : ℂ :=
  if h : i < n ∧ j < m then E (⟨i, h.1⟩, ⟨j, h.2⟩) else 0

theorem ext2_apply {n m : ℕ} (E : Fin n × Fin m → ℂ) (p : Fin n × Fin m) : ext2 E p.1 p.2 = E p := by
  simp [ext2, p.1.2, p.2.2]

theorem ext2_of_fun {n m : ℕ} (Φ : ℕ → ℕ → ℂ) {i j : ℕ} (hi : i < n) (hj : j < m) :
    ext2 (fun k : Fin n × Fin m => Φ k.1 k.2) i j = Φ i j := by
  simp [ext2, hi, hj]

theorem ext2_add {n m : ℕ} (E G : Fin n × Fin m → ℂ) :
    ext2 (E + G) = fun i j => ext2 E i j + ext2 G i j := by
  funext i j
  by_cases h : i < n ∧ j < m <;> simp [ext2, h]

theorem ext2_smul {n m : ℕ} (a : ℂ) (E : Fin n × Fin m → ℂ) :
    ext2 (a • E) = fun i j => a * ext2 E i j := by
  funext i j
  by_cases h : i < n ∧ j < m <;> simp [ext2, h]

theorem sum_fin2 (n m : ℕ) (f : ℕ → ℕ → ℂ) :
    ∑ p : Fin n × Fin m, f p.1 p.2 = ∑ i ∈ range n, ∑ j ∈ range m, f i j := by
  rw [Fintype.sum_prod_type, ← Fin.sum_univ_eq_sum_range]
  apply Finset.sum_congr rfl
  intro i _
  rw [← Fin.sum_univ_eq_sum_range]

/-- the pupil grid of the two axis configurations: points `(x_ix, y_iy)`, weight `δy·δx` -/
noncomputable def pupilGrid2 (gy gx : Cfg ℝ ℂ) : Grid (Fin gy.N × Fin gx.N) 2 :=
  { pts := fun p => ![gx.x p.2, gy.x p.1], weights := fun _ => gy.δ * gx.δ }

/-- the FFT output grid: points `u = 2π·a + s` per axis, weight `Δy·Δx` -/
noncomputable def uvGrid2 (gy gx : Cfg ℝ ℂ) : Grid (Fin gy.Mo × Fin gx.Mo) 2 :=
  { pts := fun k => ![2 * Real.pi * gx.a k.2 + gx.s, 2 * Real.pi * gy.a k.1 + gy.s],
    weights := fun _ => (2 * Real.pi * gy.dT) * (2 * Real.pi * gx.dT) }

/-- **The model of `FastFourierTransform` as a C03 `FourierTransform`** (literal 2-D pipelines). -/
noncomputable def fftTransform2 (gy gx : Cfg ℝ ℂ) (oky : AxisOK gy) (okx : AxisOK gx)
    (hemu : gy.emu = gx.emu) : FourierTransform (Fin gy.N × Fin gx.N) (Fin gy.Mo × Fin gx.Mo) where
  fwd :=
    { toFun := fun E k => fastForward2 expT expE gy gx (ext2 E) k.1 k.2
      map_add' := by
        intro E G; funext k
        show fastForward2 expT expE gy gx (ext2 (E + G)) k.1 k.2
          = fastForward2 expT expE gy gx (ext2 E) k.1 k.2 + fastForward2 expT expE gy gx (ext2 G) k.1 k.2
        rw [fwd2_sum gy gx oky okx hemu _ _ _ k.1.2 k.2.2, fwd2_sum gy gx oky okx hemu _ _ _ k.1.2 k.2.2,
          fwd2_sum gy gx oky okx hemu _ _ _ k.1.2 k.2.2, ext2_add]
        simp only [add_mul, Finset.sum_add_distrib]
      map_smul' := by
        intro a E; funext k
        show fastForward2 expT expE gy gx (ext2 (a • E)) k.1 k.2
          = a * fastForward2 expT expE gy gx (ext2 E) k.1 k.2
        rw [fwd2_sum gy gx oky okx hemu _ _ _ k.1.2 k.2.2, fwd2_sum gy gx oky okx hemu _ _ _ k.1.2 k.2.2,
          ext2_smul]
        simp only [Finset.mul_sum]
        apply Finset.sum_congr rfl; intro iy _
        apply Finset.sum_congr rfl; intro ix _
        ring }
  bwd :=
    { toFun := fun F j => fastBackward2 expT expE gy gx (ext2 F) j.1 j.2
      map_add' := by
        intro E G; funext j
        show fastBackward2 expT expE gy gx (ext2 (E + G)) j.1 j.2
          = fastBackward2 expT expE gy gx (ext2 E) j.1 j.2 + fastBackward2 expT expE gy gx (ext2 G) j.1 j.2
        rw [bwd2_sum gy gx oky okx hemu _ _ _ j.1.2 j.2.2, bwd2_sum gy gx oky okx hemu _ _ _ j.1.2 j.2.2,
          bwd2_sum gy gx oky okx hemu _ _ _ j.1.2 j.2.2, ext2_add]
        simp only [add_mul, Finset.sum_add_distrib]
      map_smul' := by
        intro a E; funext j
        show fastBackward2 expT expE gy gx (ext2 (a • E)) j.1 j.2
          = a * fastBackward2 expT expE gy gx (ext2 E) j.1 j.2
        rw [bwd2_sum gy gx oky okx hemu _ _ _ j.1.2 j.2.2, bwd2_sum gy gx oky okx hemu _ _ _ j.1.2 j.2.2,
          ext2_smul]
        simp only [Finset.mul_sum]
        apply Finset.sum_congr rfl; intro ky _
        apply Finset.sum_congr rfl; intro kx _
        ring }

/-- the Fourier kernel of the model is the kernel of `fourierSum` -/
theorem kernel_eq (gy gx : Cfg ℝ ℂ) (iy ix ky kx : ℕ) :
    expT (-(gx.a kx * gx.x ix + gy.a ky * gy.x iy)) * expE (-(gx.s * gx.x ix + gy.s * gy.x iy))
      = cexp (-(I * (((2 * Real.pi * gx.a kx + gx.s) * gx.x ix + (2 * Real.pi * gy.a ky + gy.s) * gy.x iy : ℝ) : ℂ))) := by
  unfold expT expE
  rw [← Complex.exp_add]
  congr 1
  push_cast
  ring

/-- **C01 ⇒ `EvaluatesFourierSum`**: on any consistent FFT grid (padded, cropped, shifted, either
shift setting) the model's `forward` evaluates the weighted Fourier sum of C03. -/
theorem fft2_evaluates (gy gx : Cfg ℝ ℂ) (oky : AxisOK gy) (okx : AxisOK gx) (hemu : gy.emu = gx.emu) :
    EvaluatesFourierSum (fftTransform2 gy gx oky okx hemu) (pupilGrid2 gy gx) (uvGrid2 gy gx) := by
  intro E k
  show fastForward2 expT expE gy gx (ext2 E) k.1 k.2 = _
  rw [fwd2_sum gy gx oky okx hemu _ _ _ k.1.2 k.2.2]
  unfold fourierSum
  have hR : ∀ p : Fin gy.N × Fin gx.N,
      E p * (((pupilGrid2 gy gx).weights p : ℝ) : ℂ)
        * cexp (-(I * ((dot ((uvGrid2 gy gx).pts k) ((pupilGrid2 gy gx).pts p) : ℝ) : ℂ)))
      = (fun iy ix => ext2 E iy ix * (gy.w * gx.w) *
          (expT (-(gx.a k.2 * gx.x ix + gy.a k.1 * gy.x iy)) * expE (-(gx.s * gx.x ix + gy.s * gy.x iy))))
          p.1 p.2 := by
    intro p
    simp only
    rw [ext2_apply, kernel_eq, oky.hw, okx.hw]
    simp only [pupilGrid2, uvGrid2, dot, Fin.sum_univ_two, Matrix.cons_val_zero, Matrix.cons_val_one]
    push_cast
    ring_nf
  rw [Finset.sum_congr rfl (fun p _ => hR p),
    sum_fin2 gy.N gx.N (fun iy ix => ext2 E iy ix * (gy.w * gx.w) *
      (expT (-(gx.a k.2 * gx.x ix + gy.a k.1 * gy.x iy)) * expE (-(gx.s * gx.x ix + gy.s * gy.x iy))))]

/-- **C02 ⇒ `ParsevalOn`** on the full conjugate pair (`Mo = M` on both axes). -/
theorem fft2_parseval (gy gx : Cfg ℝ ℂ) (oky : AxisOK gy) (okx : AxisOK gx) (hemu : gy.emu = gx.emu)
    (hfy : gy.Mo = gy.M) (hfx : gx.Mo = gx.M) :
    ParsevalOn (fftTransform2 gy gx oky okx hemu) (pupilGrid2 gy gx) (uvGrid2 gy gx) := by
  intro E G
  unfold wip
  have hL : ∀ k : Fin gy.Mo × Fin gx.Mo,
      conj ((fftTransform2 gy gx oky okx hemu).fwd E k) * (fftTransform2 gy gx oky okx hemu).fwd G k
        * (((uvGrid2 gy gx).weights k : ℝ) : ℂ)
      = (fun ky kx => conj (fastForward2 expT expE gy gx (ext2 E) ky kx)
          * fastForward2 expT expE gy gx (ext2 G) ky kx
          * (((2 * Real.pi * gy.dT) * (2 * Real.pi * gx.dT) : ℝ) : ℂ)) k.1 k.2 := fun k => rfl
  have hR : ∀ p : Fin gy.N × Fin gx.N,
      conj (E p) * G p * (((pupilGrid2 gy gx).weights p : ℝ) : ℂ)
      = (fun iy ix => conj (ext2 E iy ix) * ext2 G iy ix * (gy.w * gx.w)) p.1 p.2 := by
    intro p
    simp only
    rw [ext2_apply, ext2_apply, oky.hw, okx.hw]
    simp only [pupilGrid2]
    push_cast; ring
  rw [Finset.sum_congr rfl (fun k _ => hL k), Finset.sum_congr rfl (fun p _ => hR p),
    sum_fin2 gy.Mo gx.Mo (fun ky kx => conj (fastForward2 expT expE gy gx (ext2 E) ky kx)
          * fastForward2 expT expE gy gx (ext2 G) ky kx
          * (((2 * Real.pi * gy.dT) * (2 * Real.pi * gx.dT) : ℝ) : ℂ)),
    sum_fin2 gy.N gx.N (fun iy ix => conj (ext2 E iy ix) * ext2 G iy ix * (gy.w * gx.w))]
  rw [← parseval_inner_S2 gy gx oky okx hfy hfx (ext2 E) (ext2 G), Finset.mul_sum]
  apply Finset.sum_congr rfl; intro ky hky
  rw [Finset.mul_sum]
  apply Finset.sum_congr rfl; intro kx hkx
  rw [fastForward2_eq_S2 gy gx oky okx hemu _ ky kx (mem_range.mp hky) (mem_range.mp hkx),
    fastForward2_eq_S2 gy gx oky okx hemu _ ky kx (mem_range.mp hky) (mem_range.mp hkx)]
  push_cast
  ring

/-- **C02 ⇒ `InverseOn`** on the full conjugate pair. -/
theorem fft2_inverse (gy gx : Cfg ℝ ℂ) (oky : AxisOK gy) (okx : AxisOK gx) (hemu : gy.emu = gx.emu)
    (hfy : gy.Mo = gy.M) (hfx : gx.Mo = gx.M) :
    InverseOn (fftTransform2 gy gx oky okx hemu) := by
  intro E
  funext j
  show fastBackward2 expT expE gy gx
      (ext2 (fun k : Fin gy.Mo × Fin gx.Mo => fastForward2 expT expE gy gx (ext2 E) k.1 k.2)) j.1 j.2 = E j
  rw [bwd2_sum gy gx oky okx hemu _ _ _ j.1.2 j.2.2]
  have : ∑ ky ∈ range gy.Mo, ∑ kx ∈ range gx.Mo,
        ext2 (fun k : Fin gy.Mo × Fin gx.Mo => fastForward2 expT expE gy gx (ext2 E) k.1 k.2) ky kx
          * (((gy.dT : ℝ) : ℂ) * ((gx.dT : ℝ) : ℂ)) *
          (expT (gx.a kx * gx.x j.2 + gy.a ky * gy.x j.1) * expE (gx.s * gx.x j.2 + gy.s * gy.x j.1))
      = ∑ ky ∈ range gy.Mo, ∑ kx ∈ range gx.Mo,
        fastForward2 expT expE gy gx (ext2 E) ky kx * (((gy.dT : ℝ) : ℂ) * ((gx.dT : ℝ) : ℂ)) *
          (expT (gx.a kx * gx.x j.2 + gy.a ky * gy.x j.1) * expE (gx.s * gx.x j.2 + gy.s * gy.x j.1)) := by
    apply Finset.sum_congr rfl; intro ky hky
    apply Finset.sum_congr rfl; intro kx hkx
    rw [ext2_of_fun _ (mem_range.mp hky) (mem_range.mp hkx)]
  rw [this, ← bwd2_sum gy gx oky okx hemu _ _ _ j.1.2 j.2.2,
    fastBackward2_fastForward2 gy gx oky okx hemu hfy hfx _ _ _ j.1.2 j.2.2, ext2_apply]

/-- **C02 (`adjoint_sum`) / C01 `fast_backward_eq_sum_2d` ⇒ `EvaluatesAdjointSum`**: on any consistent
FFT grid the model's `backward` (zero fill outside the crop, `ifftn`, cut-out, multipliers divided
out) evaluates the adjoint sum with the output-grid weights `Δy·Δx` and the factor `(2π)^{-2}`. -/
theorem fft2_adjoint (gy gx : Cfg ℝ ℂ) (oky : AxisOK gy) (okx : AxisOK gx) (hemu : gy.emu = gx.emu) :
    EvaluatesAdjointSum (fftTransform2 gy gx oky okx hemu) (pupilGrid2 gy gx) (uvGrid2 gy gx) := by
  intro G j
  show fastBackward2 expT expE gy gx (ext2 G) j.1 j.2 = _
  rw [bwd2_sum gy gx oky okx hemu _ _ _ j.1.2 j.2.2]
  have hpi : ((2 * Real.pi : ℝ) : ℂ) ≠ 0 := by
    have : (2 * Real.pi) ≠ 0 := by positivity
    exact_mod_cast this
  have hR : ∀ k : Fin gy.Mo × Fin gx.Mo,
      G k * (((uvGrid2 gy gx).weights k : ℝ) : ℂ)
        * cexp (I * ((dot ((uvGrid2 gy gx).pts k) ((pupilGrid2 gy gx).pts j) : ℝ) : ℂ))
      = (fun ky kx => (((2 * Real.pi) ^ 2 : ℝ) : ℂ) * (ext2 G ky kx * (((gy.dT : ℝ) : ℂ) * ((gx.dT : ℝ) : ℂ)) *
          (expT (gx.a kx * gx.x j.2 + gy.a ky * gy.x j.1) * expE (gx.s * gx.x j.2 + gy.s * gy.x j.1))))
          k.1 k.2 := by
    intro k
    simp only
    rw [ext2_apply]
    have hk : expT (gx.a k.2 * gx.x j.2 + gy.a k.1 * gy.x j.1) * expE (gx.s * gx.x j.2 + gy.s * gy.x j.1)
        = cexp (I * (((2 * Real.pi * gx.a k.2 + gx.s) * gx.x j.2 + (2 * Real.pi * gy.a k.1 + gy.s) * gy.x j.1 : ℝ) : ℂ)) := by
      unfold expT expE
      rw [← Complex.exp_add]
      congr 1
      push_cast
      ring
    rw [hk]
    simp only [pupilGrid2, uvGrid2, dot, Fin.sum_univ_two, Matrix.cons_val_zero, Matrix.cons_val_one]
    push_cast
    ring
  rw [Finset.sum_congr rfl (fun k _ => hR k),
    sum_fin2 gy.Mo gx.Mo (fun ky kx => (((2 * Real.pi) ^ 2 : ℝ) : ℂ) * (ext2 G ky kx * (((gy.dT : ℝ) : ℂ) * ((gx.dT : ℝ) : ℂ)) *
          (expT (gx.a kx * gx.x j.2 + gy.a ky * gy.x j.1) * expE (gx.s * gx.x j.2 + gy.s * gy.x j.1)))),
    Finset.mul_sum]
  apply Finset.sum_congr rfl; intro ky _
  rw [Finset.mul_sum]
  apply Finset.sum_congr rfl; intro kx _
  have h2 : (((2 * Real.pi) ^ 2 : ℝ) : ℂ) ≠ 0 := by
    have : ((2 * Real.pi) ^ 2 : ℝ) ≠ 0 := by positivity
    exact_mod_cast this
  field_simp

end HcipyVerif.FourierLink
