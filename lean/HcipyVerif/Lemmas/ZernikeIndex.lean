import HcipyVerif.Model.Zernike
import Mathlib.Data.Nat.Sqrt
import Mathlib.Tactic.Ring
import Mathlib.Tactic.Linarith

/-! Helper lemmas for C13: the Noll and ANSI index maps in terms of triangular blocks. -/

set_option linter.unusedSimpArgs false
set_option linter.unusedVariables false

namespace HcipyVerif.Zernike

/-- triangular number -/
def tri (n : Nat) : Nat := n * (n + 1) / 2

theorem two_tri (n : Nat) : 2 * tri n = n * (n + 1) := by
  unfold tri
  have h : n * (n + 1) % 2 = 0 := by
    rcases Nat.even_or_odd n with ⟨k, hk⟩ | ⟨k, hk⟩
    · subst hk; rw [show (k + k) * (k + k + 1) = 2 * (k * (k + k + 1)) by ring]; omega
    · subst hk; rw [show (2 * k + 1) * (2 * k + 1 + 1) = 2 * ((2 * k + 1) * (k + 1)) by ring]; omega
  omega

theorem tri_succ (n : Nat) : tri (n + 1) = tri n + n + 1 := by
  have h1 := two_tri n
  have h2 := two_tri (n + 1)
  have : (n + 1) * (n + 1 + 1) = n * (n + 1) + 2 * n + 2 := by ring
  omega

theorem tri_mono {a b : Nat} (h : a ≤ b) : tri a ≤ tri b := by
  induction h with
  | refl => exact Nat.le_refl _
  | step _ ih => rw [tri_succ]; omega

theorem tri_block_unique {a b i j : Nat} (ha : tri a + i ≤ j) (ha' : j ≤ tri a + a + i)
    (hb : tri b + i ≤ j) (hb' : j ≤ tri b + b + i) : a = b := by
  rcases Nat.lt_trichotomy a b with h | h | h
  · have := tri_mono (show a + 1 ≤ b from h); rw [tri_succ] at this; omega
  · exact h
  · have := tri_mono (show b + 1 ≤ a from h); rw [tri_succ] at this; omega

/-! ### roundSqrt -/

theorem roundSqrt_spec (k : Nat) (hk : 1 ≤ k) :
    1 ≤ roundSqrt k ∧ roundSqrt k * roundSqrt k < k + roundSqrt k ∧ k ≤ roundSqrt k * roundSqrt k + roundSqrt k := by
  have h1 := Nat.sqrt_le k
  have h2 := Nat.lt_succ_sqrt k
  have hs : 1 ≤ Nat.sqrt k := Nat.sqrt_pos.mpr hk
  unfold roundSqrt
  simp only
  generalize Nat.sqrt k = s at *
  have e : (s + 1) * (s + 1) = s * s + 2 * s + 1 := by ring
  rw [Nat.succ_eq_add_one, e] at h2
  split
  · refine ⟨hs, ?_, by assumption⟩
    omega
  · refine ⟨by omega, ?_, ?_⟩
    · rw [e]; omega
    · rw [e]; omega

/-- The radial order of Noll index `i` is the `n` whose block `n(n+1)/2 < i ≤ (n+1)(n+2)/2` contains `i`. -/
theorem nollN_block (i : Nat) (hi : 1 ≤ i) : tri (nollN i) + 1 ≤ i ∧ i ≤ tri (nollN i) + nollN i + 1 := by
  obtain ⟨h0, h1, h2⟩ := roundSqrt_spec (2 * i - 1) (by omega)
  unfold nollN
  generalize roundSqrt (2 * i - 1) = r at *
  obtain ⟨n, rfl⟩ : ∃ n, r = n + 1 := ⟨r - 1, by omega⟩
  have ht := two_tri n
  have e : (n + 1) * (n + 1) = n * (n + 1) + n + 1 := by ring
  rw [e] at h1 h2
  simp only [Nat.add_sub_cancel]
  omega

theorem nollN_eq_of_block {i n : Nat} (h1 : tri n + 1 ≤ i) (h2 : i ≤ tri n + n + 1) : nollN i = n := by
  obtain ⟨a, b⟩ := nollN_block i (by omega)
  exact tri_block_unique a b h1 h2


/-- everything about Noll index `i` in linear form: `i = T + j`, `1 ≤ j ≤ n+1`, `n(n+1) = 2T` -/
theorem noll_facts (i : Nat) (hi : 1 ≤ i) :
    ∃ n T, nollN i = n ∧ tri n = T ∧ n * (n + 1) = 2 * T ∧ T + 1 ≤ i ∧ i ≤ T + n + 1 := by
  obtain ⟨a, b⟩ := nollN_block i hi
  exact ⟨_, _, rfl, rfl, (two_tri _).symm, a, b⟩

theorem nollAbsM_eq (i n T : Nat) (hn : nollN i = n) (hT : n * (n + 1) = 2 * T) (h1 : T + 1 ≤ i)
    (h2 : i ≤ T + n + 1) :
    nollAbsM i = if n % 2 = 1 then 2 * ((i - T + 1) / 2) - 1 else 2 * ((i - T) / 2) := by
  unfold nollAbsM
  simp only [hn, hT]
  split <;> omega

theorem noll_valid_aux (i : Nat) (hi : 1 ≤ i) :
    nollAbsM i ≤ nollN i ∧ (nollN i - nollAbsM i) % 2 = 0 := by
  obtain ⟨n, T, hn, _, hT, h1, h2⟩ := noll_facts i hi
  rw [nollAbsM_eq i n T hn hT h1 h2, hn]
  split <;> omega

theorem nollToZernike_injective {i i' : Nat} (hi : 1 ≤ i) (hi' : 1 ≤ i')
    (h : nollToZernike i = nollToZernike i') : i = i' := by
  obtain ⟨n, T, hn, htri, hT, h1, h2⟩ := noll_facts i hi
  obtain ⟨n', T', hn', htri', hT', h1', h2'⟩ := noll_facts i' hi'
  unfold nollToZernike at h
  simp only [Prod.mk.injEq] at h
  obtain ⟨hnn, hm⟩ := h
  have : n = n' := by rw [← hn, ← hn', hnn]
  subst this
  have : T = T' := by omega
  subst this
  rw [nollAbsM_eq i n T hn hT h1 h2, nollAbsM_eq i' n T hn' hT h1' h2'] at hm
  split at hm <;> split at hm <;> split at hm <;> omega

/-! ### the brute-force search -/

theorem searchNoll_some {n : Nat} {m : Int} {j cnt i : Nat} (h : searchNoll n m j cnt = some i) :
    nollToZernike i = (n, m) ∧ j ≤ i ∧ i < j + cnt := by
  induction cnt generalizing j with
  | zero => simp [searchNoll] at h
  | succ c ih =>
    unfold searchNoll at h
    split at h
    · injection h with h; subst h; exact ⟨by assumption, Nat.le_refl _, by omega⟩
    · obtain ⟨a, b, c'⟩ := ih h; exact ⟨a, by omega, by omega⟩

theorem searchNoll_finds {n : Nat} {m : Int} {j cnt i : Nat} (hz : nollToZernike i = (n, m))
    (h1 : j ≤ i) (h2 : i < j + cnt) : ∃ i', searchNoll n m j cnt = some i' ∧ i' ≤ i := by
  induction cnt generalizing j with
  | zero => omega
  | succ c ih =>
    unfold searchNoll
    split
    · exact ⟨j, rfl, h1⟩
    · rename_i hne
      have : j ≠ i := by intro e; subst e; exact hne hz
      exact ih (by omega) (by omega)

theorem zernikeToNoll_window (n : Nat) :
    (n + 1) * (n + 2) / 2 + 1 = tri n + n + 2 ∧ n * (n + 1) / 2 + 1 = tri n + 1 := by
  have h := tri_succ n
  have h2 : (n + 1) * (n + 2) / 2 = tri (n + 1) := rfl
  have h3 : n * (n + 1) / 2 = tri n := rfl
  rw [h2, h3]
  constructor <;> omega


/-- closed form of the Noll index of a valid pair -/
def nollIndex (n : Nat) (m : Int) : Nat :=
  let T := tri n
  let a := m.natAbs
  if a = 0 then T + 1
  else if (0 < m ↔ (T + a) % 2 = 0) then T + a else T + a + 1

theorem valid_iff {n : Nat} {m : Int} : valid n m = true ↔ m.natAbs ≤ n ∧ (n - m.natAbs) % 2 = 0 := by
  simp [valid]

theorem nollIndex_cases (n : Nat) (m : Int) :
    (m.natAbs = 0 ∧ nollIndex n m = tri n + 1) ∨
    (m.natAbs ≠ 0 ∧ (0 < m ↔ (tri n + m.natAbs) % 2 = 0) ∧ nollIndex n m = tri n + m.natAbs) ∨
    (m.natAbs ≠ 0 ∧ ¬(0 < m ↔ (tri n + m.natAbs) % 2 = 0) ∧ nollIndex n m = tri n + m.natAbs + 1) := by
  unfold nollIndex
  simp only
  by_cases h0 : m.natAbs = 0
  · left; simp [h0]
  · by_cases hc : (0 < m ↔ (tri n + m.natAbs) % 2 = 0)
    · right; left; exact ⟨h0, hc, by rw [if_neg h0, if_pos hc]⟩
    · right; right; exact ⟨h0, hc, by rw [if_neg h0, if_neg hc]⟩

theorem nollToZernike_nollIndex {n : Nat} {m : Int} (hv : valid n m = true) :
    1 ≤ nollIndex n m ∧ nollToZernike (nollIndex n m) = (n, m) := by
  obtain ⟨hv1, hv2⟩ := valid_iff.mp hv
  have hT := (two_tri n).symm
  have hcases := nollIndex_cases n m
  generalize nollIndex n m = I at *
  have hblock : tri n + 1 ≤ I ∧ I ≤ tri n + n + 1 := by omega
  have hn := nollN_eq_of_block hblock.1 hblock.2
  refine ⟨by omega, ?_⟩
  unfold nollToZernike
  rw [nollAbsM_eq _ n (tri n) hn hT hblock.1 hblock.2, hn]
  simp only [Prod.mk.injEq, true_and]
  generalize tri n = T at *
  rcases hcases with ⟨h0, hI⟩ | ⟨h0, hc, hI⟩ | ⟨h0, hc, hI⟩ <;> subst hI <;> split <;> split <;> omega


/-! ### ANSI -/

theorem le_ansiN_iff (n i : Nat) : n ≤ (Nat.sqrt (8 * i + 1) - 1) / 2 ↔ tri n ≤ i := by
  have hs : 1 ≤ Nat.sqrt (8 * i + 1) := Nat.sqrt_pos.mpr (by omega)
  have h1 : n ≤ (Nat.sqrt (8 * i + 1) - 1) / 2 ↔ 2 * n + 1 ≤ Nat.sqrt (8 * i + 1) := by omega
  rw [h1, Nat.le_sqrt]
  have ht := two_tri n
  have e : (2 * n + 1) * (2 * n + 1) = 4 * (n * (n + 1)) + 1 := by ring
  rw [e]
  omega

theorem ansi_block (i : Nat) :
    tri (ansiToZernike i).1 ≤ i ∧ i ≤ tri (ansiToZernike i).1 + (ansiToZernike i).1 := by
  unfold ansiToZernike
  simp only
  have a := (le_ansiN_iff ((Nat.sqrt (8 * i + 1) - 1) / 2) i).mp (Nat.le_refl _)
  have b := mt (le_ansiN_iff ((Nat.sqrt (8 * i + 1) - 1) / 2 + 1) i).mpr (by omega)
  rw [tri_succ] at b
  omega

theorem ansi_facts (i : Nat) :
    ∃ n T : Nat, (ansiToZernike i).1 = n ∧ tri n = T ∧ n * (n + 1) = 2 * T ∧ T ≤ i ∧ i ≤ T + n ∧
      (ansiToZernike i).2 = 2 * ((i : Int) - T) - n := by
  obtain ⟨a, b⟩ := ansi_block i
  refine ⟨_, _, rfl, rfl, (two_tri _).symm, a, b, ?_⟩
  have ht := two_tri (ansiToZernike i).1
  unfold ansiToZernike at *
  simp only at *
  generalize (Nat.sqrt (8 * i + 1) - 1) / 2 = n at *
  have e : (n : Int) * ((n : Int) + 2) = ((n * (n + 1) : Nat) : Int) + n := by push_cast; ring
  rw [e, ← ht]
  push_cast
  ring

theorem ansiN_eq_of_block {i n : Nat} (h1 : tri n ≤ i) (h2 : i ≤ tri n + n) : (ansiToZernike i).1 = n := by
  obtain ⟨a, b⟩ := ansi_block i
  exact tri_block_unique (i := 0) a b h1 h2

theorem zernikeToAnsi_eq (n T : Nat) (m : Int) (hT : n * (n + 1) = 2 * T) (j : Nat) (hm : m = 2 * (j : Int) - n) :
    zernikeToAnsi n m = T + j := by
  unfold zernikeToAnsi
  have e : (n : Int) * n = 2 * T - n := by
    have : ((n * (n + 1) : Nat) : Int) = ((2 * T : Nat) : Int) := by rw [hT]
    push_cast at this
    linarith
  rw [e, hm]
  omega

end HcipyVerif.Zernike
