import HcipyVerif.Lemmas.ZernikeRadialReal
import Mathlib.Algebra.Polynomial.Roots

/-! Helper lemmas for C13 (round 5): the coefficient list produced by the q-recursion (`radialPoly`) and the coefficient list of the
factorial definition (`radialDef`) are the **same list**, for every radial order.  Both lists have length `n + 1`; they agree as functions on
`ℚ` (`pevalR_radialPoly_eq_radialR`, by induction along the recursion); a polynomial over an infinite field is determined by its values
(`Polynomial.funext`), and a coefficient list of known length by its polynomial. -/

set_option linter.unusedSimpArgs false
set_option linter.unusedVariables false

namespace HcipyVerif.Zernike
open Polynomial

/-- a coefficient list as a Mathlib polynomial -/
noncomputable def toPoly : Poly → ℚ[X]
  | [] => 0
  | a :: p => C a + X * toPoly p

theorem eval_toPoly (p : Poly) (x : ℚ) : (toPoly p).eval x = peval p x := by
  induction p with
  | nil => simp [toPoly, peval]
  | cons a p ih =>
    have e : peval (a :: p) x = a + x * peval p x := rfl
    simp [toPoly, e, ih]

theorem toPoly_inj : ∀ (p q : Poly), p.length = q.length → toPoly p = toPoly q → p = q
  | [], [], _, _ => rfl
  | [], _ :: _, hl, _ => by simp at hl
  | _ :: _, [], hl, _ => by simp at hl
  | a :: p, b :: q, hl, h => by
    have h0 : a = b := by
      have := congrArg (fun f => f.coeff 0) h
      simpa [toPoly] using this
    subst h0
    have h1 : X * toPoly p = X * toPoly q := by
      unfold toPoly at h
      exact add_left_cancel h
    have h2 := mul_left_cancel₀ (X_ne_zero (R := ℚ)) h1
    rw [toPoly_inj p q (by simpa using hl) h2]

/-- two coefficient lists of the same length that agree as functions on `ℚ` are the same list -/
theorem poly_ext (p q : Poly) (hl : p.length = q.length) (h : ∀ x, peval p x = peval q x) : p = q :=
  toPoly_inj p q hl (Polynomial.funext fun x => by rw [eval_toPoly, eval_toPoly, h])

theorem length_padd : ∀ p q : Poly, (padd p q).length = max p.length q.length
  | [], q => by simp [padd]
  | a :: p, [] => by simp [padd]
  | a :: p, b :: q => by simp [padd, length_padd p q]

theorem length_pscale (c : Rat) (p : Poly) : (pscale c p).length = p.length := by simp [pscale]
theorem length_pshift (k : Nat) (p : Poly) : (pshift k p).length = k + p.length := by simp [pshift]

theorem length_pspread : ∀ p : Poly, (pspread p).length = 2 * p.length - 1
  | [] => rfl
  | [a] => rfl
  | a :: b :: p => by
    have := length_pspread (b :: p)
    simp only [pspread, List.length_cons] at this ⊢
    omega

theorem length_reducedPoly (n : Nat) : ∀ k, (reducedPoly n k).length = k + 1
  | 0 => rfl
  | 1 => rfl
  | k + 2 => by
    have a := length_reducedPoly n k
    have b := length_reducedPoly n (k + 1)
    simp only [reducedPoly, length_padd, length_pscale, length_pshift, a, b]
    omega

theorem length_radialPoly (n m : Nat) (hm : m ≤ n) (hpar : (n - m) % 2 = 0) : (radialPoly n m).length = n + 1 := by
  unfold radialPoly
  rw [length_pshift, length_pspread, length_reducedPoly]
  omega

theorem length_monomial (n : Nat) : (monomial n).length = n + 1 := by simp [monomial, pshift]

theorem length_radialDef (n m : Nat) : (radialDef n m).length = n + 1 := by
  unfold radialDef
  have key : ∀ l : List Nat, (l.foldr (fun k acc => padd (pscale (defCoeff n m k) (monomial (n - 2 * k))) acc) []).length ≤ n + 1 := by
    intro l
    induction l with
    | nil => simp
    | cons a l ih =>
      simp only [List.foldr_cons, length_padd, length_pscale, length_monomial]
      omega
  rw [List.range_succ_eq_map, List.foldr_cons, length_padd, length_pscale, length_monomial]
  have := key ((List.range ((n - m) / 2)).map Nat.succ)
  simp only [Nat.mul_zero, Nat.sub_zero] at this ⊢
  omega

/-- **The recursion and the factorial definition are the same coefficient list, for every order.** -/
theorem radialPoly_eq_radialDef (n m : Nat) (hm : m ≤ n) (hpar : (n - m) % 2 = 0) : radialPoly n m = radialDef n m := by
  apply poly_ext
  · rw [length_radialPoly n m hm hpar, length_radialDef]
  · intro x
    have h := pevalR_radialPoly_eq_radialR n m hm hpar (x : ℝ)
    rw [← pevalR_radialDef, pevalR_cast, pevalR_cast] at h
    exact_mod_cast h

end HcipyVerif.Zernike
