import HcipyVerif.Lemmas.FourierC02
import HcipyVerif.Lemmas.FftPipeline
import HcipyVerif.Lemmas.FftPipeline2
import HcipyVerif.Lemmas.FftBackward2
import HcipyVerif.Lemmas.FftPipelineN
import HcipyVerif.Lemmas.Mft
import HcipyVerif.Lemmas.Czt
import HcipyVerif.Model.ZoomN
import HcipyVerif.Model.FilterM

/-!
# C02 on two and on `n` axes: inverse, adjoint, Parseval, cropped energy

The 1-D pipelines `fastForward g · k`, `fastBackward g · j` are *finite linear functionals* of
their array argument (`FinLin`, no hypotheses on the configuration).  Two such functionals acting
on different axes commute (`FinLin.comm`), which is all that is needed to lift the 1-D theorems of
`Properties/C02.lean` to the iterated pipelines axis by axis.
-/
set_option linter.unusedSimpArgs false
set_option linter.unusedVariables false
set_option linter.unusedSectionVars false

namespace HcipyVerif.Fft
open Finset
open scoped ComplexConjugate

/-! ## 1. Finite linear functionals -/

/-- `Φ` is a finite linear functional: `Φ f = Σ_{p<n} f (idx p) · c p`. -/
def FinLin {ι : Type} (Φ : (ι → ℂ) → ℂ) : Prop :=
  ∃ (n : ℕ) (idx : ℕ → ι) (c : ℕ → ℂ), ∀ f, Φ f = ∑ p ∈ range n, f (idx p) * c p

/-- two finite linear functionals acting on different indices commute -/
theorem FinLin.comm {ι κ : Type} {Φ : (ι → ℂ) → ℂ} {Ψ : (κ → ℂ) → ℂ} (hΦ : FinLin Φ)
    (hΨ : FinLin Ψ) (X : ι → κ → ℂ) :
    Φ (fun i => Ψ (fun k => X i k)) = Ψ (fun k => Φ (fun i => X i k)) := by
  obtain ⟨n, idx, c, h1⟩ := hΦ
  obtain ⟨m, idx', c', h2⟩ := hΨ
  simp only [h1, h2, Finset.sum_mul]
  rw [Finset.sum_comm]
  exact Finset.sum_congr rfl fun _ _ => Finset.sum_congr rfl fun _ _ => by ring

theorem FinLin.zero {ι : Type} {Φ : (ι → ℂ) → ℂ} (hΦ : FinLin Φ) : Φ (fun _ => 0) = 0 := by
  obtain ⟨n, idx, c, h1⟩ := hΦ
  simp [h1]

/-- a finite linear functional commutes with finite sums -/
theorem FinLin.sum {ι α : Type} {Φ : (ι → ℂ) → ℂ} (hΦ : FinLin Φ) (s : Finset α)
    (X : α → ι → ℂ) : Φ (fun i => ∑ a ∈ s, X a i) = ∑ a ∈ s, Φ (X a) := by
  obtain ⟨n, idx, c, h1⟩ := hΦ
  simp only [h1, Finset.sum_mul]
  rw [Finset.sum_comm]

theorem FinLin.mul_right {ι : Type} {Φ : (ι → ℂ) → ℂ} (hΦ : FinLin Φ) (X : ι → ℂ) (a : ℂ) :
    Φ (fun i => X i * a) = Φ X * a := by
  obtain ⟨n, idx, c, h1⟩ := hΦ
  simp only [h1, Finset.sum_mul]
  exact Finset.sum_congr rfl fun p _ => by ring

/-- the index core is a finite linear functional of the array -/
theorem core_finLin (b : Bool) (N M Mo : ℕ) (ker : ℤ → ℂ) (m : ℕ → ℂ) (c0 c1 : ℂ) (k : ℕ) :
    FinLin (fun f : ℕ → ℂ => c0 * core b N M Mo ker (fun j => f j * m j) k * c1) := by
  cases b
  · refine ⟨M, fun p => p - padStart N M, fun p =>
      (if padStart N M ≤ p ∧ p < padStart N M + N then m (p - padStart N M) else 0)
        * ker ((p : ℤ) * ((k + padStart Mo M : ℕ) : ℤ)) * c0 * c1, ?_⟩
    intro f
    simp only [core, Bool.false_eq_true, if_false]
    unfold crop dft pad
    simp only [sumRange_eq, Finset.mul_sum, Finset.sum_mul]
    apply Finset.sum_congr rfl
    intro p _
    split <;> ring
  · refine ⟨M, fun p => (p + M / 2) % M - padStart N M, fun p =>
      (if padStart N M ≤ (p + M / 2) % M ∧ (p + M / 2) % M < padStart N M + N
        then m ((p + M / 2) % M - padStart N M) else 0)
        * ker ((p : ℤ) * (((k + padStart Mo M + (M - M / 2)) % M : ℕ) : ℤ)) * c0 * c1, ?_⟩
    intro f
    simp only [core, if_true]
    unfold crop fftshift dft ifftshift pad
    simp only [sumRange_eq, Finset.mul_sum, Finset.sum_mul]
    apply Finset.sum_congr rfl
    intro p _
    split <;> ring

theorem fastForward_finLin {T E : ℝ → ℂ} (g : Cfg ℝ ℂ) (k : ℕ) :
    FinLin (fun f => fastForward T E g f k) := by
  have h := core_finLin (!g.emu) g.N g.M g.Mo (g.kerF T) (g.inMult T E) 1 (g.outMult T E k) k
  simpa [fastForward] using h

theorem fastBackward_finLin {T E : ℝ → ℂ} (g : Cfg ℝ ℂ) (j : ℕ) :
    FinLin (fun F => fastBackward T E g F j) := by
  have h := core_finLin (!g.emu) g.Mo g.M g.N (g.kerB T) (fun k => (g.outMult T E k)⁻¹)
    ((g.M : ℂ))⁻¹ ((g.inMult T E j)⁻¹) j
  simpa [fastBackward] using h

/-! ## 2. `n` axes -/

theorem fastBackwardN_nil {T E : ℝ → ℂ} (F : List ℕ → ℂ) (js : List ℕ) :
    fastBackwardN T E [] F js = F [] := by
  cases js <;> rfl

/-- the iterated backward pipeline commutes with every finite linear functional acting on an
independent index -/
theorem fastBackwardN_comm {T E : ℝ → ℂ} {ι : Type} {Φ : (ι → ℂ) → ℂ} (hΦ : FinLin Φ)
    (gs : List (Cfg ℝ ℂ)) (X : ι → List ℕ → ℂ) (js : List ℕ) :
    fastBackwardN T E gs (fun idx => Φ (fun i => X i idx)) js
      = Φ (fun i => fastBackwardN T E gs (fun idx => X i idx) js) := by
  induction gs generalizing X js with
  | nil => simp only [fastBackwardN_nil]
  | cons g gs ih =>
    cases js with
    | nil =>
      show (0 : ℂ) = Φ (fun i => 0)
      rw [hΦ.zero]
    | cons j js =>
      simp only [fastBackwardN_cons]
      have e : (fun k => fastBackwardN T E gs (fun idx => Φ (fun i => X i (k :: idx))) js)
          = fun k => Φ (fun i => fastBackwardN T E gs (fun idx => X i (k :: idx)) js) := by
        funext k
        exact ih (fun i idx => X i (k :: idx)) js
      rw [e]
      exact FinLin.comm (fastBackward_finLin g j) hΦ
        (fun k i => fastBackwardN T E gs (fun idx => X i (k :: idx)) js)

/-- the iterated forward pipeline commutes with every finite linear functional acting on an
independent index -/
theorem fastForwardN_comm {T E : ℝ → ℂ} {ι : Type} {Φ : (ι → ℂ) → ℂ} (hΦ : FinLin Φ)
    (gs : List (Cfg ℝ ℂ)) (X : ι → List ℕ → ℂ) (ks : List ℕ) :
    fastForwardN T E gs (fun idx => Φ (fun i => X i idx)) ks
      = Φ (fun i => fastForwardN T E gs (fun idx => X i idx) ks) := by
  induction gs generalizing X ks with
  | nil => simp only [fastForwardN_nil]
  | cons g gs ih =>
    cases ks with
    | nil =>
      show (0 : ℂ) = Φ (fun i => 0)
      rw [hΦ.zero]
    | cons k ks =>
      simp only [fastForwardN_cons]
      have e : (fun j => fastForwardN T E gs (fun idx => Φ (fun i => X i (j :: idx))) ks)
          = fun j => Φ (fun i => fastForwardN T E gs (fun idx => X i (j :: idx)) ks) := by
        funext j
        exact ih (fun i idx => X i (j :: idx)) ks
      rw [e]
      exact FinLin.comm (fastForward_finLin g k) hΦ
        (fun j i => fastForwardN T E gs (fun idx => X i (j :: idx)) ks)

/-! ## 3. Adjointness of arbitrary kernels over arbitrary finite index sets -/

/-- Backward is the adjoint of forward for an arbitrary kernel `ph k j` over arbitrary finite
index sets; only the output weights have to be real. -/
theorem adjoint_sum_finset {ι κ : Type} (s : Finset ι) (t : Finset κ) (ph : κ → ι → ℂ)
    (win : ι → ℂ) (wout : κ → ℂ) (hwout : ∀ k, conj (wout k) = wout k) (x : ι → ℂ) (y : κ → ℂ) :
    ∑ k ∈ t, conj (y k) * (∑ j ∈ s, x j * win j * ph k j) * wout k
      = ∑ j ∈ s, conj (∑ k ∈ t, y k * wout k * conj (ph k j)) * x j * win j := by
  simp only [map_sum, map_mul, Complex.conj_conj, hwout, Finset.mul_sum, Finset.sum_mul]
  rw [Finset.sum_comm]
  apply Finset.sum_congr rfl
  intro j _
  apply Finset.sum_congr rfl
  intro k _
  ring

/-- a sum over a row-major flattened index is the double sum -/
theorem sum_flat (M N : ℕ) (G : ℕ → ℂ) :
    ∑ k ∈ range (M * N), G k = ∑ i ∈ range M, ∑ j ∈ range N, G (i * N + j) := by
  induction M with
  | zero => simp
  | succ M ih =>
    rw [Nat.succ_mul, Finset.sum_range_add, ih, Finset.sum_range_succ]

/-- the 2-D adjoint identity for the kernel `E(-(u·x + v·y))`, double sums on both sides -/
theorem adjoint_sum_2d_exp (Nx Ny Nu Nv : ℕ) (x y u v : ℕ → ℝ) (win wout : ℕ → ℂ)
    (hwout : ∀ k, conj (wout k) = wout k) (X Y : ℕ → ℂ) :
    ∑ iv ∈ range Nv, ∑ iu ∈ range Nu, conj (Y (iv * Nu + iu)) *
        (∑ iy ∈ range Ny, ∑ ix ∈ range Nx, X (iy * Nx + ix) * win (iy * Nx + ix)
          * expE (-(u iu * x ix + v iv * y iy))) * wout (iv * Nu + iu)
      = ∑ iy ∈ range Ny, ∑ ix ∈ range Nx, conj (∑ iv ∈ range Nv, ∑ iu ∈ range Nu,
          Y (iv * Nu + iu) * wout (iv * Nu + iu) * expE (u iu * x ix + v iv * y iy))
          * X (iy * Nx + ix) * win (iy * Nx + ix) := by
  have h := adjoint_sum_finset (range Ny ×ˢ range Nx) (range Nv ×ˢ range Nu)
    (fun k j => expE (-(u k.2 * x j.2 + v k.1 * y j.1))) (fun j => win (j.1 * Nx + j.2))
    (fun k => wout (k.1 * Nu + k.2)) (fun k => hwout _) (fun j => X (j.1 * Nx + j.2))
    (fun k => Y (k.1 * Nu + k.2))
  simp only [Finset.sum_product, expE_conj, neg_neg] at h
  exact h

/-! ## 4. Matrix-valued FourierFilter -/

/-- `fftn(pad x)`: zero padding `P` (an `M × n` matrix) followed by the transform `F` (`M × M`) -/
noncomputable def fmAnalysis (n M : ℕ) (P F : ℕ → ℕ → ℂ) (x : ℕ → ℂ) (r : ℕ) : ℂ :=
  ∑ p ∈ range M, F r p * ∑ j ∈ range n, P p j * x j

/-- `crop(ifftn g)`: the inverse transform `F⁻¹ = c⁻¹·Fᴴ` followed by the cut-out `Pᴴ` -/
noncomputable def fmSynthesis (n M : ℕ) (P F : ℕ → ℕ → ℂ) (c : ℂ) (g : ℕ → ℂ) (i : ℕ) : ℂ :=
  ∑ q ∈ range M, conj (P q i) * (c⁻¹ * ∑ r ∈ range M, conj (F r q) * g r)

/-- the matrix-field branch of `FourierFilter._operation`: at every frequency sample `r` the
matrix `D r` is applied to the vector of tensor components (`field_dot(tf, f)`) -/
noncomputable def filterM {τ : Type} [Fintype τ] (n M : ℕ) (P F : ℕ → ℕ → ℂ) (c : ℂ)
    (D : ℕ → τ → τ → ℂ) (x : τ → ℕ → ℂ) (a : τ) (i : ℕ) : ℂ :=
  fmSynthesis n M P F c (fun r => ∑ b, D r a b * fmAnalysis n M P F (x b) r) i

/-- `field_conjugate_transpose` -/
def fmCtr {τ : Type} (D : ℕ → τ → τ → ℂ) : ℕ → τ → τ → ℂ := fun r a b => conj (D r b a)

theorem fmSynthesis_adjoint (n M : ℕ) (P F : ℕ → ℕ → ℂ) (c : ℂ) (y g : ℕ → ℂ) :
    ∑ i ∈ range n, conj (y i) * fmSynthesis n M P F c g i
      = c⁻¹ * ∑ r ∈ range M, conj (fmAnalysis n M P F y r) * g r := by
  simp only [fmSynthesis, fmAnalysis, map_sum, map_mul, Finset.mul_sum, Finset.sum_mul]
  rw [Finset.sum_comm]
  conv_lhs => arg 2; ext q; rw [Finset.sum_comm]
  rw [Finset.sum_comm]
  refine Finset.sum_congr rfl fun r _ => Finset.sum_congr rfl fun q _ =>
    Finset.sum_congr rfl fun i _ => by ring

theorem fmSynthesis_adjoint' (n M : ℕ) (P F : ℕ → ℕ → ℂ) (c : ℂ) (hc : conj c = c)
    (x g : ℕ → ℂ) :
    ∑ i ∈ range n, conj (fmSynthesis n M P F c g i) * x i
      = c⁻¹ * ∑ r ∈ range M, fmAnalysis n M P F x r * conj (g r) := by
  have h := congrArg conj (fmSynthesis_adjoint n M P F c x g)
  simp only [map_sum, map_mul, Complex.conj_conj, map_inv₀, hc] at h
  rw [← h]
  exact Finset.sum_congr rfl fun i _ => by ring

theorem filterM_adjoint_aux {τ : Type} [Fintype τ] (n M : ℕ) (P F : ℕ → ℕ → ℂ) (c : ℂ)
    (hc : conj c = c) (D : ℕ → τ → τ → ℂ) (x y : τ → ℕ → ℂ) :
    ∑ a, ∑ i ∈ range n, conj (y a i) * filterM n M P F c D x a i
      = ∑ a, ∑ i ∈ range n, conj (filterM n M P F c (fmCtr D) y a i) * x a i := by
  unfold filterM
  simp only [fmSynthesis_adjoint, fmSynthesis_adjoint' _ _ _ _ _ hc, fmCtr, map_sum, map_mul,
    Complex.conj_conj, Finset.mul_sum, Finset.sum_mul]
  rw [Finset.sum_comm]
  conv_lhs => arg 2; ext r; rw [Finset.sum_comm]
  conv_rhs => rw [Finset.sum_comm]
  refine Finset.sum_congr rfl fun r _ => Finset.sum_congr rfl fun q _ =>
    Finset.sum_congr rfl fun i _ => by ring

/-- the input weight of a consistent pair with non-negative output weight is non-negative -/
theorem wr_nonneg (g : Cfg ℝ ℂ) (wr wo : ℝ) (hgw : g.w = (wr : ℂ))
    (hw : (wo : ℂ) * (g.M : ℂ) * g.w = 1) (hwo : 0 ≤ wo) : 0 ≤ wr := by
  rw [hgw] at hw
  have h : wo * (g.M : ℝ) * wr = 1 := by exact_mod_cast hw
  by_contra hneg
  have h1 : wo * (g.M : ℝ) * wr ≤ 0 :=
    mul_nonpos_of_nonneg_of_nonpos (mul_nonneg hwo (Nat.cast_nonneg _)) (le_of_lt (not_le.mp hneg))
  linarith

/-! ## 5. The executable matrix filter (`Model/FilterM.lean`, run by the driver) is `filterM` -/

theorem fmAnalysisX_eq (n M : ℕ) (P F : ℕ → ℕ → ℂ) (x : ℕ → ℂ) (r : ℕ) :
    fmAnalysisX n M P F x r = fmAnalysis n M P F x r := by
  simp only [fmAnalysisX, fmAnalysis, sumRange_eq]

theorem fmSynthesisX_eq (n M : ℕ) (P F : ℕ → ℕ → ℂ) (c : ℂ) (g : ℕ → ℂ) (i : ℕ) :
    fmSynthesisX n M P F (starRingEnd ℂ) c⁻¹ g i = fmSynthesis n M P F c g i := by
  simp only [fmSynthesisX, fmSynthesis, sumRange_eq]

theorem filterMX_eq (n M : ℕ) (P F : ℕ → ℕ → ℂ) (c : ℂ) (D : ℕ → Bool → Bool → ℂ)
    (x : Bool → ℕ → ℂ) (a : Bool) (i : ℕ) :
    filterMX n M P F (starRingEnd ℂ) c⁻¹ D x a i = filterM n M P F c D x a i := by
  unfold filterMX filterM
  rw [fmSynthesisX_eq]
  congr 1
  funext r
  rw [Fintype.sum_bool, fmAnalysisX_eq, fmAnalysisX_eq]
  ring

theorem fmCtrX_eq (D : ℕ → Bool → Bool → ℂ) : fmCtrX (starRingEnd ℂ) D = fmCtr D := rfl

/-- adjointness of the executable matrix filter -/
theorem filterMX_adjoint (n M : ℕ) (P F : ℕ → ℕ → ℂ) (c : ℂ) (hc : conj c = c)
    (D : ℕ → Bool → Bool → ℂ) (x y : Bool → ℕ → ℂ) :
    ∑ a, ∑ i ∈ range n, conj (y a i) * filterMX n M P F (starRingEnd ℂ) c⁻¹ D x a i
      = ∑ a, ∑ i ∈ range n,
          conj (filterMX n M P F (starRingEnd ℂ) c⁻¹ (fmCtrX (starRingEnd ℂ) D) y a i) * x a i := by
  simp only [filterMX_eq, fmCtrX_eq]
  exact filterM_adjoint_aux n M P F c hc D x y

/-- a matrix-valued field is filtered column by column -/
theorem filterMXM_eq_columns {C : Type} [Zero C] [Add C] [Mul C] (n M : ℕ) (P F : ℕ → ℕ → C) (cj : C → C) (cinv : C)
    (D : ℕ → Bool → Bool → C) (X : Bool → ℕ → ℕ → C) (a : Bool) (c i : ℕ) :
    filterMXM n M P F cj cinv D X a c i = filterMX n M P F cj cinv D (fun b => X b c) a i := rfl

/-- adjointness of the executable matrix filter on matrix-valued fields (Frobenius inner product) -/
theorem filterMXM_adjoint (n M ncol : ℕ) (P F : ℕ → ℕ → ℂ) (c : ℂ) (hc : conj c = c)
    (D : ℕ → Bool → Bool → ℂ) (X Y : Bool → ℕ → ℕ → ℂ) :
    ∑ a, ∑ k ∈ range ncol, ∑ i ∈ range n, conj (Y a k i) * filterMXM n M P F (starRingEnd ℂ) c⁻¹ D X a k i
      = ∑ a, ∑ k ∈ range ncol, ∑ i ∈ range n,
          conj (filterMXM n M P F (starRingEnd ℂ) c⁻¹ (fmCtrX (starRingEnd ℂ) D) Y a k i) * X a k i := by
  simp only [filterMXM_eq_columns]
  rw [Finset.sum_comm, Finset.sum_comm (s := (Finset.univ : Finset Bool))]
  apply Finset.sum_congr rfl
  intro k _
  exact filterMX_adjoint n M P F c hc D (fun b => X b k) (fun b => Y b k)

/-! ## 6. Adjointness of `n`-D sums over index lists (`sumOverN`) -/

theorem sumOverN_congr (ns : List ℕ) (F G : List ℕ → ℂ)
    (h : ∀ idx, List.Forall₂ (fun i n => i < n) idx ns → F idx = G idx) :
    sumOverN ns F = sumOverN ns G := by
  induction ns generalizing F G with
  | nil => exact h [] List.Forall₂.nil
  | cons n ns ih =>
    simp only [sumOverN, sumRange_eq]
    apply Finset.sum_congr rfl
    intro j hj
    apply ih
    intro idx hidx
    exact h (j :: idx) (List.Forall₂.cons (Finset.mem_range.mp hj) hidx)

theorem conj_sumOverN (ns : List ℕ) (F : List ℕ → ℂ) :
    conj (sumOverN ns F) = sumOverN ns fun idx => conj (F idx) := by
  induction ns generalizing F with
  | nil => rfl
  | cons n ns ih => simp only [sumOverN, sumRange_eq, map_sum, ih]

theorem sumOverN_mul_left (ns : List ℕ) (F : List ℕ → ℂ) (c : ℂ) :
    sumOverN ns (fun idx => c * F idx) = c * sumOverN ns F := by
  rw [mul_comm, ← sumOverN_mul_right]
  exact congrArg _ (funext fun idx => mul_comm _ _)

theorem sumOverN_finset_sum {R : Type} [CommRing R] {α : Type} (ns : List ℕ) (s : Finset α)
    (H : α → List ℕ → R) :
    sumOverN ns (fun js => ∑ k ∈ s, H k js) = ∑ k ∈ s, sumOverN ns (H k) := by
  induction ns generalizing H with
  | nil => rfl
  | cons n ns ih =>
    simp only [sumOverN, sumRange_eq, ih]
    rw [Finset.sum_comm]

/-- Fubini for sums over index lists -/
theorem sumOverN_comm (ms ns : List ℕ) (G : List ℕ → List ℕ → ℂ) :
    sumOverN ms (fun ks => sumOverN ns fun js => G ks js)
      = sumOverN ns fun js => sumOverN ms fun ks => G ks js := by
  induction ms generalizing G with
  | nil => rfl
  | cons m ms ih =>
    simp only [sumOverN, sumRange_eq]
    rw [sumOverN_finset_sum]
    apply Finset.sum_congr rfl
    intro k _
    exact ih fun idx js => G (k :: idx) js

/-- **Adjointness of `n`-D kernel sums**: index lists `ks` (shape `ms`) and `js` (shape `ns`), an
arbitrary kernel `ph ks js`, real output weights. -/
theorem adjoint_sumOverN (ms ns : List ℕ) (ph : List ℕ → List ℕ → ℂ) (win wout : List ℕ → ℂ)
    (hwout : ∀ ks, conj (wout ks) = wout ks) (X Y : List ℕ → ℂ) :
    sumOverN ms (fun ks => conj (Y ks) * (sumOverN ns fun js => X js * win js * ph ks js) * wout ks)
      = sumOverN ns fun js =>
          conj (sumOverN ms fun ks => Y ks * wout ks * conj (ph ks js)) * X js * win js := by
  have hL : (fun ks => conj (Y ks) * (sumOverN ns fun js => X js * win js * ph ks js) * wout ks)
      = fun ks => sumOverN ns fun js => conj (Y ks) * wout ks * ph ks js * X js * win js := by
    funext ks
    rw [← sumOverN_mul_left, ← sumOverN_mul_right]
    exact congrArg _ (funext fun js => by ring)
  have hR : (fun js => conj (sumOverN ms fun ks => Y ks * wout ks * conj (ph ks js)) * X js * win js)
      = fun js => sumOverN ms fun ks => conj (Y ks) * wout ks * ph ks js * X js * win js := by
    funext js
    rw [conj_sumOverN, ← sumOverN_mul_right, ← sumOverN_mul_right]
    refine congrArg _ (funext fun ks => ?_)
    simp only [map_mul, Complex.conj_conj, hwout]
  rw [hL, hR, sumOverN_comm]

theorem conj_weightOutN_real (wo : Cfg ℝ ℂ → ℝ) (gs : List (Cfg ℝ ℂ)) :
    conj (weightOutN (fun g => ((wo g : ℝ) : ℂ)) gs) = weightOutN (fun g => ((wo g : ℝ) : ℂ)) gs := by
  induction gs with
  | nil => simp [weightOutN]
  | cons g gs ih => simp only [weightOutN, map_mul, Complex.conj_ofReal, ih]

/-- sums over index lists are monotone (real summands) -/
theorem sumOverN_mono (ns : List ℕ) (F G : List ℕ → ℝ) (h : ∀ idx, F idx ≤ G idx) :
    sumOverN ns F ≤ sumOverN ns G := by
  induction ns generalizing F G with
  | nil => exact h []
  | cons n ns ih =>
    simp only [sumOverN, sumRange_eq]
    exact Finset.sum_le_sum fun j _ => ih _ _ fun idx => h (j :: idx)

end HcipyVerif.Fft
