import HcipyVerif.Lemmas.GridEq

/-! Helper lemmas for C10 `mutate_changes`: an in-place operation that does something changes the data. -/
set_option linter.unusedSimpArgs false
set_option linter.unusedVariables false
set_option linter.dupNamespace false

namespace HcipyVerif.Grid

theorem zipWith_eq_self_get {α β} (k : α → β → α) (a : List α) (b : List β) (h : List.zipWith k a b = a)
    (i : Nat) (h1 : i < a.length) (h2 : i < b.length) : k a[i] b[i] = a[i] := by
  have := congrArg (fun l => l[i]?) h
  simp only [List.getElem?_zipWith, List.getElem?_eq_getElem h1, List.getElem?_eq_getElem h2] at this
  simpa using this

theorem map_eq_self_mem {α} (g : α → α) : ∀ (l : List α), l.map g = l → ∀ x ∈ l, g x = x
  | [], _, x, hx => by simp at hx
  | y :: ys, h, x, hx => by
    simp only [List.map_cons, List.cons.injEq] at h
    rcases List.mem_cons.mp hx with rfl | hx
    · exact h.1
    · exact map_eq_self_mem g ys h.2 x hx

/-- axis `i` of the coordinates carries a value `v` (regular: the spacing or the origin) -/
def Coords.axisHas (c : Coords) (i : Nat) (v : Rat) : Prop :=
  match c with
  | .regular a => ∃ x, a[i]? = some x ∧ (x.delta = v ∨ x.zero = v)
  | .separated a => ∃ ax, a[i]? = some ax ∧ v ∈ ax
  | .unstructured cs => ∃ col, cs[i]? = some col ∧ v ∈ col

theorem Coords.shift_ne (c : Coords) (b : List Rat) (i : Nat) (v : Rat) (hv : c.axisHas i v)
    (hb : ∃ bi, b[i]? = some bi ∧ bi ≠ 0) : c.shift b ≠ c := by
  obtain ⟨bi, hbi, hne⟩ := hb
  have hib : i < b.length := by
    rcases Nat.lt_or_ge i b.length with h | h
    · exact h
    · rw [List.getElem?_eq_none h] at hbi; exact absurd hbi (by simp)
  have hbi' : b[i] = bi := by rw [List.getElem?_eq_getElem hib] at hbi; exact Option.some.inj hbi
  intro e
  cases c with
  | regular a =>
    obtain ⟨x, hx, _⟩ := hv
    have hia : i < a.length := by
      rcases Nat.lt_or_ge i a.length with h | h
      · exact h
      · rw [List.getElem?_eq_none h] at hx; exact absurd hx (by simp)
    simp only [Coords.shift, Coords.regular.injEq] at e
    have := zipWith_eq_self_get _ a b e i hia hib
    have hz := congrArg RegAxis.zero this
    simp only [hbi'] at hz
    exact hne (by linarith)
  | separated a =>
    obtain ⟨ax, hx, hmem⟩ := hv
    have hia : i < a.length := by
      rcases Nat.lt_or_ge i a.length with h | h
      · exact h
      · rw [List.getElem?_eq_none h] at hx; exact absurd hx (by simp)
    have hax : a[i] = ax := by rw [List.getElem?_eq_getElem hia] at hx; exact Option.some.inj hx
    simp only [Coords.shift, Coords.separated.injEq] at e
    have := zipWith_eq_self_get _ a b e i hia hib
    rw [hax, hbi'] at this
    have := map_eq_self_mem _ ax this v hmem
    exact hne (by linarith)
  | unstructured a =>
    obtain ⟨ax, hx, hmem⟩ := hv
    have hia : i < a.length := by
      rcases Nat.lt_or_ge i a.length with h | h
      · exact h
      · rw [List.getElem?_eq_none h] at hx; exact absurd hx (by simp)
    have hax : a[i] = ax := by rw [List.getElem?_eq_getElem hia] at hx; exact Option.some.inj hx
    simp only [Coords.shift, Coords.unstructured.injEq] at e
    have := zipWith_eq_self_get _ a b e i hia hib
    rw [hax, hbi'] at this
    have := map_eq_self_mem _ ax this v hmem
    exact hne (by linarith)

theorem Coords.scale_ne (c : Coords) (f : List Rat) (i : Nat) (v : Rat) (hv : c.axisHas i v) (hv0 : v ≠ 0)
    (hf : ∃ fi, f[i]? = some fi ∧ fi ≠ 1) : c.scale f ≠ c := by
  obtain ⟨fi, hfi, hne⟩ := hf
  have hib : i < f.length := by
    rcases Nat.lt_or_ge i f.length with h | h
    · exact h
    · rw [List.getElem?_eq_none h] at hfi; exact absurd hfi (by simp)
  have hfi' : f[i] = fi := by rw [List.getElem?_eq_getElem hib] at hfi; exact Option.some.inj hfi
  have key : ∀ x : Rat, x = v → x * fi = x → False := by
    intro x hx h
    have : x * (fi - 1) = 0 := by linarith
    rcases mul_eq_zero.mp this with h0 | h1
    · exact hv0 (hx ▸ h0)
    · exact hne (by linarith)
  intro e
  cases c with
  | regular a =>
    obtain ⟨x, hx, hd⟩ := hv
    have hia : i < a.length := by
      rcases Nat.lt_or_ge i a.length with h | h
      · exact h
      · rw [List.getElem?_eq_none h] at hx; exact absurd hx (by simp)
    have hax : a[i] = x := by rw [List.getElem?_eq_getElem hia] at hx; exact Option.some.inj hx
    simp only [Coords.scale, Coords.regular.injEq] at e
    have := zipWith_eq_self_get _ a f e i hia hib
    rw [hax, hfi'] at this
    have h1 := congrArg RegAxis.delta this
    have h2 := congrArg RegAxis.zero this
    simp only at h1 h2
    rcases hd with hd | hd
    · exact key _ hd h1
    · exact key _ hd h2
  | separated a =>
    obtain ⟨ax, hx, hmem⟩ := hv
    have hia : i < a.length := by
      rcases Nat.lt_or_ge i a.length with h | h
      · exact h
      · rw [List.getElem?_eq_none h] at hx; exact absurd hx (by simp)
    have hax : a[i] = ax := by rw [List.getElem?_eq_getElem hia] at hx; exact Option.some.inj hx
    simp only [Coords.scale, Coords.separated.injEq] at e
    have := zipWith_eq_self_get _ a f e i hia hib
    rw [hax, hfi'] at this
    exact key v rfl (map_eq_self_mem _ ax this v hmem)
  | unstructured a =>
    obtain ⟨ax, hx, hmem⟩ := hv
    have hia : i < a.length := by
      rcases Nat.lt_or_ge i a.length with h | h
      · exact h
      · rw [List.getElem?_eq_none h] at hx; exact absurd hx (by simp)
    have hax : a[i] = ax := by rw [List.getElem?_eq_getElem hia] at hx; exact Option.some.inj hx
    simp only [Coords.scale, Coords.unstructured.injEq] at e
    have := zipWith_eq_self_get _ a f e i hia hib
    rw [hax, hfi'] at this
    exact key v rfl (map_eq_self_mem _ ax this v hmem)

theorem RegAxis.reverse_reverse (a : RegAxis) : a.reverse.reverse = a := by
  cases a; simp only [RegAxis.reverse, RegAxis.mk.injEq, neg_neg, true_and]; ring

theorem Coords.reverse_reverse (c : Coords) : c.reverse.reverse = c := by
  cases c with
  | regular a =>
    simp only [Coords.reverse, List.map_map, Coords.regular.injEq]
    conv_rhs => rw [← List.map_id a]
    apply List.map_congr_left; intro x _; exact RegAxis.reverse_reverse x
  | separated a =>
    simp only [Coords.reverse, List.map_map, Coords.separated.injEq]
    conv_rhs => rw [← List.map_id a]
    apply List.map_congr_left; intro x _; simp
  | unstructured a =>
    simp only [Coords.reverse, List.map_map, Coords.unstructured.injEq]
    conv_rhs => rw [← List.map_id a]
    apply List.map_congr_left; intro x _; simp


/-- axis `i` is not symmetric under reversal (regular: non-zero spacing; otherwise: not a palindrome) -/
def Coords.axisAsym (c : Coords) (i : Nat) : Prop :=
  match c with
  | .regular a => ∃ x, a[i]? = some x ∧ x.delta ≠ 0
  | .separated a => ∃ ax, a[i]? = some ax ∧ ax.reverse ≠ ax
  | .unstructured cs => ∃ col, cs[i]? = some col ∧ col.reverse ≠ col

theorem Coords.reverse_ne (c : Coords) (i : Nat) (h : c.axisAsym i) : c.reverse ≠ c := by
  intro e
  cases c with
  | regular a =>
    obtain ⟨x, hx, hd⟩ := h
    simp only [Coords.reverse, Coords.regular.injEq] at e
    have := map_eq_self_mem _ a e x (List.mem_of_getElem? hx)
    have := congrArg RegAxis.delta this
    simp only [RegAxis.reverse] at this
    exact hd (by linarith)
  | separated a =>
    obtain ⟨x, hx, hd⟩ := h
    simp only [Coords.reverse, Coords.separated.injEq] at e
    exact hd (map_eq_self_mem _ a e x (List.mem_of_getElem? hx))
  | unstructured a =>
    obtain ⟨x, hx, hd⟩ := h
    simp only [Coords.reverse, Coords.unstructured.injEq] at e
    exact hd (map_eq_self_mem _ a e x (List.mem_of_getElem? hx))

/-! ### float-like shift: `Coords.shiftR rnd` -/

theorem zipWith_eq_self_iff {α β} (k : α → β → α) : ∀ (a : List α) (b : List β), b.length = a.length →
    (List.zipWith k a b = a ↔ ∀ i (h1 : i < a.length) (h2 : i < b.length), k a[i] b[i] = a[i])
  | [], b, _ => by simp
  | x :: xs, [], h => by simp at h
  | x :: xs, y :: ys, h => by
    have ih := zipWith_eq_self_iff k xs ys (by simpa using h)
    simp only [List.zipWith_cons_cons, List.cons.injEq, ih, List.length_cons]
    constructor
    · rintro ⟨h0, hs⟩ i h1 h2
      cases i with
      | zero => simpa using h0
      | succ i => simpa using hs i (by omega) (by omega)
    · intro hall
      refine ⟨by simpa using hall 0 (by omega) (by omega), fun i h1 h2 => ?_⟩
      have := hall (i + 1) (by omega) (by omega)
      simp only [List.getElem_cons_succ] at this
      exact this

theorem map_eq_self_iff {α} (g : α → α) (l : List α) : l.map g = l ↔ ∀ x ∈ l, g x = x := by
  induction l with
  | nil => simp
  | cons y ys ih => simp [ih]

theorem Coords.shiftVals_length (c : Coords) : c.shiftVals.length = c.ndim := by
  cases c <;> simp [Coords.shiftVals, Coords.ndim]

theorem Coords.shiftR_id (c : Coords) (b : List Rat) : c.shiftR id b = c.shift b := by
  cases c <;> rfl

/-- an in-place float shift leaves the coordinates as they were iff every rewritten value absorbs its shift -/
theorem Coords.shiftR_eq_self_iff (rnd : Rat → Rat) (c : Coords) (b : List Rat) (hl : b.length = c.ndim) :
    c.shiftR rnd b = c ↔
      ∀ i (h1 : i < c.shiftVals.length) (h2 : i < b.length), ∀ x ∈ c.shiftVals[i], rnd (x + b[i]) = x := by
  cases c with
  | regular a =>
    simp only [Coords.shiftR, Coords.regular.injEq, Coords.shiftVals, List.length_map, List.getElem_map,
      List.mem_singleton, forall_eq]
    rw [zipWith_eq_self_iff _ a b (by simpa [Coords.ndim] using hl)]
    constructor
    · intro h i h1 h2
      have := congrArg RegAxis.zero (h i h1 h2)
      simpa using this
    · intro h i h1 h2
      have := h i h1 h2
      cases hx : a[i] with
      | mk d n z => simp only [hx] at this ⊢; rw [this]
  | separated a =>
    simp only [Coords.shiftR, Coords.separated.injEq, Coords.shiftVals]
    rw [zipWith_eq_self_iff _ a b (by simpa [Coords.ndim] using hl)]
    simp only [map_eq_self_iff]
  | unstructured a =>
    simp only [Coords.shiftR, Coords.unstructured.injEq, Coords.shiftVals]
    rw [zipWith_eq_self_iff _ a b (by simpa [Coords.ndim] using hl)]
    simp only [map_eq_self_iff]

theorem Coords.WF_shiftR (rnd : Rat → Rat) (c : Coords) (b : List Rat) (h : b.length = c.ndim) (hw : c.WF) :
    (c.shiftR rnd b).WF := by
  cases c with
  | regular a =>
    simp only [Coords.WF, Coords.shiftR, Coords.ndim] at *
    cases a <;> cases b <;> simp_all
  | separated a =>
    simp only [Coords.WF, Coords.shiftR, Coords.ndim] at *
    cases a <;> cases b <;> simp_all
  | unstructured a =>
    simp only [Coords.WF, Coords.shiftR, Coords.ndim] at *
    cases a with
    | nil => exact absurd rfl hw.1
    | cons c0 cs =>
      cases b with
      | nil => simp at h
      | cons b0 bs =>
        refine ⟨by simp, ?_⟩
        have hr := hw.2
        simp only [rect, List.all_eq_true, beq_iff_eq] at hr
        simp only [List.zipWith_cons_cons, rect, List.all_eq_true, beq_iff_eq, List.length_map]
        intro d hd
        obtain ⟨i, hi, rfl⟩ := List.getElem_of_mem hd
        simp only [List.getElem_zipWith, List.length_map]
        exact hr _ (List.getElem_mem _)

theorem zipWith_replicate_self {α β} (k : α → β → α) (v : β) (hk : ∀ x, k x v = x) :
    ∀ (a : List α), List.zipWith k a (List.replicate a.length v) = a
  | [] => rfl
  | x :: xs => by simp [List.replicate_succ, hk, zipWith_replicate_self k v hk xs]

/-- scaling by one along every axis does nothing -/
theorem Coords.scale_one (c : Coords) : c.scale (List.replicate c.ndim 1) = c := by
  cases c with
  | regular a =>
    simp only [Coords.scale, Coords.ndim, Coords.regular.injEq]
    exact zipWith_replicate_self _ 1 (fun x => by cases x; simp) a
  | separated a =>
    simp only [Coords.scale, Coords.ndim, Coords.separated.injEq]
    exact zipWith_replicate_self _ 1 (fun x => by simp) a
  | unstructured a =>
    simp only [Coords.scale, Coords.ndim, Coords.unstructured.injEq]
    exact zipWith_replicate_self _ 1 (fun x => by simp) a

theorem Coords.absorbs_iff (rnd : Rat → Rat) (c : Coords) (b : List Rat) :
    c.absorbs rnd b = true ↔
      ∀ i (h1 : i < c.shiftVals.length) (h2 : i < b.length), ∀ x ∈ c.shiftVals[i], rnd (x + b[i]) = x := by
  simp only [Coords.absorbs, List.all_eq_true, decide_eq_true_eq]
  constructor
  · intro h i h1 h2 x hx
    have hm : (c.shiftVals[i], b[i]) ∈ List.zip c.shiftVals b := by
      rw [List.mem_iff_getElem]
      exact ⟨i, by simp [h1, h2], by simp⟩
    exact h _ hm x hx
  · intro h vb hvb x hx
    obtain ⟨i, hi, e⟩ := List.mem_iff_getElem.mp hvb
    simp only [List.length_zip, Nat.lt_min] at hi
    simp only [List.getElem_zip] at e
    subst e
    exact h i hi.1 hi.2 x hx

end HcipyVerif.Grid
