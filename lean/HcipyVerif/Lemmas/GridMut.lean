import HcipyVerif.Lemmas.GridEq

/-! Helper lemmas for C10 `mutate_changes`: an in-place operation that does something changes the data. -/
set_option linter.unusedSimpArgs false
set_option linter.unusedVariables false
set_option linter.dupNamespace false

namespace HcipyVerif.Grid

theorem zipWith_eq_self_get {α β} (k : α → β → α) (a : List α) (b : List β) (h : List.zipWith k a b = a)
    (i : Nat) (h1 : i < a.length) (h2 : i < b.length) : k a[i] b[i] = a[i] := by
  have := congrArg (fun l => l[i]?) h
  simp only [List.getElem?_zipWith, List.getElem?_eq_getElem h1, List.getElem?_eq_getElem h2] at this
  simpa using this

theorem map_eq_self_mem {α} (g : α → α) : ∀ (l : List α), l.map g = l → ∀ x ∈ l, g x = x
  | [], _, x, hx => by simp at hx
  | y :: ys, h, x, hx => by
    simp only [List.map_cons, List.cons.injEq] at h
    rcases List.mem_cons.mp hx with rfl | hx
    · exact h.1
    · exact map_eq_self_mem g ys h.2 x hx

/-- axis `i` of the coordinates carries a value `v` (regular: the spacing or the origin) -/
def Coords.axisHas (c : Coords) (i : Nat) (v : Rat) : Prop :=
  match c with
  | .regular a => ∃ x, a[i]? = some x ∧ (x.delta = v ∨ x.zero = v)
  | .separated a => ∃ ax, a[i]? = some ax ∧ v ∈ ax
  | .unstructured cs => ∃ col, cs[i]? = some col ∧ v ∈ col

theorem Coords.shift_ne (c : Coords) (b : List Rat) (i : Nat) (v : Rat) (hv : c.axisHas i v)
    (hb : ∃ bi, b[i]? = some bi ∧ bi ≠ 0) : c.shift b ≠ c := by
  obtain ⟨bi, hbi, hne⟩ := hb
  have hib : i < b.length := by
    rcases Nat.lt_or_ge i b.length with h | h
    · exact h
    · rw [List.getElem?_eq_none h] at hbi; exact absurd hbi (by simp)
  have hbi' : b[i] = bi := by rw [List.getElem?_eq_getElem hib] at hbi; exact Option.some.inj hbi
  intro e
  cases c with
  | regular a =>
    obtain ⟨x, hx, _⟩ := hv
    have hia : i < a.length := by
      rcases Nat.lt_or_ge i a.length with h | h
      · exact h
      · rw [List.getElem?_eq_none h] at hx; exact absurd hx (by simp)
    simp only [Coords.shift, Coords.regular.injEq] at e
    have := zipWith_eq_self_get _ a b e i hia hib
    have hz := congrArg RegAxis.zero this
    simp only [hbi'] at hz
    exact hne (by linarith)
  | separated a =>
    obtain ⟨ax, hx, hmem⟩ := hv
    have hia : i < a.length := by
      rcases Nat.lt_or_ge i a.length with h | h
      · exact h
      · rw [List.getElem?_eq_none h] at hx; exact absurd hx (by simp)
    have hax : a[i] = ax := by rw [List.getElem?_eq_getElem hia] at hx; exact Option.some.inj hx
    simp only [Coords.shift, Coords.separated.injEq] at e
    have := zipWith_eq_self_get _ a b e i hia hib
    rw [hax, hbi'] at this
    have := map_eq_self_mem _ ax this v hmem
    exact hne (by linarith)
  | unstructured a =>
    obtain ⟨ax, hx, hmem⟩ := hv
    have hia : i < a.length := by
      rcases Nat.lt_or_ge i a.length with h | h
      · exact h
      · rw [List.getElem?_eq_none h] at hx; exact absurd hx (by simp)
    have hax : a[i] = ax := by rw [List.getElem?_eq_getElem hia] at hx; exact Option.some.inj hx
    simp only [Coords.shift, Coords.unstructured.injEq] at e
    have := zipWith_eq_self_get _ a b e i hia hib
    rw [hax, hbi'] at this
    have := map_eq_self_mem _ ax this v hmem
    exact hne (by linarith)

theorem Coords.scale_ne (c : Coords) (f : List Rat) (i : Nat) (v : Rat) (hv : c.axisHas i v) (hv0 : v ≠ 0)
    (hf : ∃ fi, f[i]? = some fi ∧ fi ≠ 1) : c.scale f ≠ c := by
  obtain ⟨fi, hfi, hne⟩ := hf
  have hib : i < f.length := by
    rcases Nat.lt_or_ge i f.length with h | h
    · exact h
    · rw [List.getElem?_eq_none h] at hfi; exact absurd hfi (by simp)
  have hfi' : f[i] = fi := by rw [List.getElem?_eq_getElem hib] at hfi; exact Option.some.inj hfi
  have key : ∀ x : Rat, x = v → x * fi = x → False := by
    intro x hx h
    have : x * (fi - 1) = 0 := by linarith
    rcases mul_eq_zero.mp this with h0 | h1
    · exact hv0 (hx ▸ h0)
    · exact hne (by linarith)
  intro e
  cases c with
  | regular a =>
    obtain ⟨x, hx, hd⟩ := hv
    have hia : i < a.length := by
      rcases Nat.lt_or_ge i a.length with h | h
      · exact h
      · rw [List.getElem?_eq_none h] at hx; exact absurd hx (by simp)
    have hax : a[i] = x := by rw [List.getElem?_eq_getElem hia] at hx; exact Option.some.inj hx
    simp only [Coords.scale, Coords.regular.injEq] at e
    have := zipWith_eq_self_get _ a f e i hia hib
    rw [hax, hfi'] at this
    have h1 := congrArg RegAxis.delta this
    have h2 := congrArg RegAxis.zero this
    simp only at h1 h2
    rcases hd with hd | hd
    · exact key _ hd h1
    · exact key _ hd h2
  | separated a =>
    obtain ⟨ax, hx, hmem⟩ := hv
    have hia : i < a.length := by
      rcases Nat.lt_or_ge i a.length with h | h
      · exact h
      · rw [List.getElem?_eq_none h] at hx; exact absurd hx (by simp)
    have hax : a[i] = ax := by rw [List.getElem?_eq_getElem hia] at hx; exact Option.some.inj hx
    simp only [Coords.scale, Coords.separated.injEq] at e
    have := zipWith_eq_self_get _ a f e i hia hib
    rw [hax, hfi'] at this
    exact key v rfl (map_eq_self_mem _ ax this v hmem)
  | unstructured a =>
    obtain ⟨ax, hx, hmem⟩ := hv
    have hia : i < a.length := by
      rcases Nat.lt_or_ge i a.length with h | h
      · exact h
      · rw [List.getElem?_eq_none h] at hx; exact absurd hx (by simp)
    have hax : a[i] = ax := by rw [List.getElem?_eq_getElem hia] at hx; exact Option.some.inj hx
    simp only [Coords.scale, Coords.unstructured.injEq] at e
    have := zipWith_eq_self_get _ a f e i hia hib
    rw [hax, hfi'] at this
    exact key v rfl (map_eq_self_mem _ ax this v hmem)

theorem RegAxis.reverse_reverse (a : RegAxis) : a.reverse.reverse = a := by
  cases a; simp only [RegAxis.reverse, RegAxis.mk.injEq, neg_neg, true_and]; ring

theorem Coords.reverse_reverse (c : Coords) : c.reverse.reverse = c := by
  cases c with
  | regular a =>
    simp only [Coords.reverse, List.map_map, Coords.regular.injEq]
    conv_rhs => rw [← List.map_id a]
    apply List.map_congr_left; intro x _; exact RegAxis.reverse_reverse x
  | separated a =>
    simp only [Coords.reverse, List.map_map, Coords.separated.injEq]
    conv_rhs => rw [← List.map_id a]
    apply List.map_congr_left; intro x _; simp
  | unstructured a =>
    simp only [Coords.reverse, List.map_map, Coords.unstructured.injEq]
    conv_rhs => rw [← List.map_id a]
    apply List.map_congr_left; intro x _; simp


/-- axis `i` is not symmetric under reversal (regular: non-zero spacing; otherwise: not a palindrome) -/
def Coords.axisAsym (c : Coords) (i : Nat) : Prop :=
  match c with
  | .regular a => ∃ x, a[i]? = some x ∧ x.delta ≠ 0
  | .separated a => ∃ ax, a[i]? = some ax ∧ ax.reverse ≠ ax
  | .unstructured cs => ∃ col, cs[i]? = some col ∧ col.reverse ≠ col

theorem Coords.reverse_ne (c : Coords) (i : Nat) (h : c.axisAsym i) : c.reverse ≠ c := by
  intro e
  cases c with
  | regular a =>
    obtain ⟨x, hx, hd⟩ := h
    simp only [Coords.reverse, Coords.regular.injEq] at e
    have := map_eq_self_mem _ a e x (List.mem_of_getElem? hx)
    have := congrArg RegAxis.delta this
    simp only [RegAxis.reverse] at this
    exact hd (by linarith)
  | separated a =>
    obtain ⟨x, hx, hd⟩ := h
    simp only [Coords.reverse, Coords.separated.injEq] at e
    exact hd (map_eq_self_mem _ a e x (List.mem_of_getElem? hx))
  | unstructured a =>
    obtain ⟨x, hx, hd⟩ := h
    simp only [Coords.reverse, Coords.unstructured.injEq] at e
    exact hd (map_eq_self_mem _ a e x (List.mem_of_getElem? hx))

end HcipyVerif.Grid
