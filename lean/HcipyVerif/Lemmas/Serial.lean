import HcipyVerif.Model.Serial
import Mathlib.Tactic.Linarith
import Mathlib.Tactic.Ring

/-! Helper lemmas for C16: row-major index arithmetic, flat transposition, `mapM` decoders. -/
set_option linter.unusedSimpArgs false
set_option linter.unusedVariables false

namespace HcipyVerif.Serial

/-! ### products of shapes -/

theorem prod_append (a b : List Nat) : prod (a ++ b) = prod a * prod b := by
  induction a with
  | nil => simp [prod]
  | cons n a ih => simp [prod, ih, Nat.mul_assoc]

theorem prod_singleton (n : Nat) : prod [n] = n := by simp [prod]

theorem prod_reverse (a : List Nat) : prod a.reverse = prod a := by
  induction a with
  | nil => rfl
  | cons n a ih => simp [prod, prod_append, ih, Nat.mul_comm]

/-! ### ravel / unravel -/

theorem ravel_lt : ∀ (s idx : List Nat), InBounds idx s → ravel s idx < prod s
  | [], [], _ => by simp [ravel, prod]
  | [], _ :: _, h => by simp [InBounds] at h
  | _ :: _, [], h => by simp [InBounds] at h
  | n :: s, i :: is, h => by
    obtain ⟨hi, hs⟩ := h
    have ih := ravel_lt s is hs
    simp only [ravel, prod]
    calc i * prod s + ravel s is < i * prod s + prod s := by omega
      _ = (i + 1) * prod s := by ring
      _ ≤ n * prod s := Nat.mul_le_mul_right _ hi

theorem unravel_inBounds : ∀ (s : List Nat) (k : Nat), k < prod s → InBounds (unravel s k) s
  | [], k, _ => by simp [unravel, InBounds]
  | n :: s, k, h => by
    simp only [prod] at h
    have hP : 0 < prod s := by
      rcases Nat.eq_zero_or_pos (prod s) with h0 | h0
      · simp [h0] at h
      · exact h0
    refine ⟨?_, unravel_inBounds s _ (Nat.mod_lt _ hP)⟩
    exact Nat.div_lt_of_lt_mul (by rwa [Nat.mul_comm] at h)

theorem ravel_unravel' : ∀ (s : List Nat) (k : Nat), k < prod s → ravel s (unravel s k) = k
  | [], k, h => by simp [prod] at h; simp [unravel, ravel, h]
  | n :: s, k, h => by
    simp only [prod] at h
    have hP : 0 < prod s := by
      rcases Nat.eq_zero_or_pos (prod s) with h0 | h0
      · simp [h0] at h
      · exact h0
    simp only [unravel, ravel]
    rw [ravel_unravel' s _ (Nat.mod_lt _ hP)]
    exact Nat.div_add_mod' k (prod s)

theorem unravel_ravel' : ∀ (s idx : List Nat), InBounds idx s → unravel s (ravel s idx) = idx
  | [], [], _ => by simp [unravel]
  | [], _ :: _, h => by simp [InBounds] at h
  | _ :: _, [], h => by simp [InBounds] at h
  | n :: s, i :: is, h => by
    obtain ⟨hi, hs⟩ := h
    have hr := ravel_lt s is hs
    have hP : 0 < prod s := by omega
    simp only [ravel, unravel]
    have h1 : (i * prod s + ravel s is) / prod s = i := by
      rw [Nat.add_comm, Nat.add_mul_div_right _ _ hP, Nat.div_eq_of_lt hr]; simp
    have h2 : (i * prod s + ravel s is) % prod s = ravel s is := by
      rw [Nat.add_comm, Nat.add_mul_mod_self_right, Nat.mod_eq_of_lt hr]
    rw [h1, h2, unravel_ravel' s is hs]

/-! ### flat transposition -/

theorem transposeFlat_length (r c : Nat) (d : List Rat) : (transposeFlat r c d).length = r * c := by
  simp [transposeFlat]

theorem transposeFlat_getD (r c : Nat) (d : List Rat) (j : Nat) (hj : j < r * c) :
    (transposeFlat r c d).getD j 0 = d.getD ((j % r) * c + j / r) 0 := by
  simp [transposeFlat, List.getD_eq_getElem?_getD, hj]

theorem transpose_index (r c k : Nat) (hk : k < r * c) :
    let j := (k % c) * r + k / c
    j < r * c ∧ (j % r) * c + j / r = k := by
  have hc : 0 < c := by
    rcases Nat.eq_zero_or_pos c with h0 | h0
    · simp [h0] at hk
    · exact h0
  have hr : 0 < r := by
    rcases Nat.eq_zero_or_pos r with h0 | h0
    · simp [h0] at hk
    · exact h0
  have hdiv : k / c < r := Nat.div_lt_of_lt_mul (by rwa [Nat.mul_comm] at hk)
  have hmod : k % c < c := Nat.mod_lt _ hc
  have hjr : ((k % c) * r + k / c) % r = k / c := by
    rw [Nat.add_comm, Nat.add_mul_mod_self_right, Nat.mod_eq_of_lt hdiv]
  have hjd : ((k % c) * r + k / c) / r = k % c := by
    rw [Nat.add_comm, Nat.add_mul_div_right _ _ hr, Nat.div_eq_of_lt hdiv]; simp
  refine ⟨?_, ?_⟩
  · have h1 : (k % c + 1) * r ≤ c * r := Nat.mul_le_mul_right _ hmod
    have h2 : (k % c + 1) * r = (k % c) * r + r := by ring
    have h3 : c * r = r * c := Nat.mul_comm _ _
    show (k % c) * r + k / c < r * c
    omega
  · show ((k % c) * r + k / c) % r * c + ((k % c) * r + k / c) / r = k
    rw [hjr, hjd]
    exact Nat.div_add_mod' k c

theorem transposeFlat_involutive (r c : Nat) (d : List Rat) (hd : d.length = r * c) :
    transposeFlat c r (transposeFlat r c d) = d := by
  apply List.ext_getElem
  · simp [transposeFlat_length, hd, Nat.mul_comm]
  · intro k h1 h2
    have hk : k < r * c := by rw [← hd]; exact h2
    have hk' : k < c * r := by rwa [Nat.mul_comm]
    obtain ⟨hj, hidx⟩ := transpose_index r c k hk
    have e1 : (transposeFlat c r (transposeFlat r c d))[k] =
        (transposeFlat c r (transposeFlat r c d)).getD k 0 := by
      simp [List.getD_eq_getElem?_getD, h1]
    rw [e1, transposeFlat_getD c r _ k hk', transposeFlat_getD r c d _ hj, hidx]
    simp [List.getD_eq_getElem?_getD, h2]

/-! ### decoders undo encoders -/

theorem mapM_asNum (l : List PyNum) : (l.map Tree.num).mapM asNum = .ok l := by
  induction l with
  | nil => rfl
  | cons x l ih => simp [List.mapM_cons, asNum, ih, bind, Except.bind, pure, Except.pure]

theorem mapM_asDim (l : List Nat) :
    (l.map fun (k : Nat) => Tree.num (.int k)).mapM asDim = .ok l := by
  induction l with
  | nil => rfl
  | cons x l ih => simp [List.mapM_cons, asDim, ih, bind, Except.bind, pure, Except.pure]

theorem mapM_asArr (l : List Arr) : (l.map Tree.arr).mapM asArr = .ok l := by
  induction l with
  | nil => rfl
  | cons x l ih => simp [List.mapM_cons, asArr, ih, bind, Except.bind, pure, Except.pure]

@[simp] theorem mapM_asNum_comp (l : List PyNum) : l.mapM (asNum ∘ Tree.num) = .ok l := by
  induction l with
  | nil => rfl
  | cons x l ih => simp [List.mapM_cons, asNum, ih, bind, Except.bind, pure, Except.pure]

@[simp] theorem mapM_asDim_comp (l : List Nat) :
    l.mapM (asDim ∘ fun (k : Nat) => Tree.num (.int k)) = .ok l := by
  induction l with
  | nil => rfl
  | cons x l ih => simp [List.mapM_cons, asDim, ih, bind, Except.bind, pure, Except.pure]

@[simp] theorem mapM_asArr_comp (l : List Arr) : l.mapM (asArr ∘ Tree.arr) = .ok l := by
  induction l with
  | nil => rfl
  | cons x l ih => simp [List.mapM_cons, asArr, ih, bind, Except.bind, pure, Except.pure]

theorem coerce_of_homogeneous (l : List PyNum) (h : Homogeneous l) : coerce l = l := by
  unfold coerce
  split
  · rfl
  · rcases h with h | h
    · simp_all
    · clear * - h
      induction l with
      | nil => rfl
      | cons x l ih =>
        simp only [List.all_cons, Bool.and_eq_true] at h
        cases x with
        | int i => simp [PyNum.isInt] at h
        | float q => simp [PyNum.toFloat, ih h.2]

end HcipyVerif.Serial

namespace HcipyVerif.Serial

/-! ### shapes of separated grids -/

theorem Coords.shape_length (c : Coords) (h : c.isSeparated = true) : c.shape.length = c.ndim := by
  cases c <;> simp_all [Coords.shape, Coords.dims, Coords.ndim, Coords.isSeparated]

theorem Coords.size_eq (c : Coords) (h : c.isSeparated = true) : c.size = prod c.shape := by
  cases c <;> simp_all [Coords.size, Coords.isSeparated]

theorem take_length_sub (ts gs : List Nat) (n : Nat) (h : gs.length = n) :
    (ts ++ gs).take ((ts ++ gs).length - n) = ts := by
  subst h
  simp

/-- Python's `(ts ++ gs)[:-n] = ts` when `gs` has `n > 0` entries -/
theorem pyDropLast_append (ts gs : List Nat) (n : Nat) (h : gs.length = n) (hn : 0 < n) :
    pyDropLast (ts ++ gs) n = ts := by
  have : n ≠ 0 := by omega
  unfold pyDropLast
  rw [if_neg this]
  exact take_length_sub ts gs n h

/-- `s[:-0]` is empty -/
theorem pyDropLast_zero (s : List Nat) : pyDropLast s 0 = [] := by simp [pyDropLast]

theorem cscToDense_shape (c : Csc) (n m : Nat) (h : c.shape = [n, m]) :
    (cscToDense c).shape = [n, m] ∧ (cscToDense c).data.length = n * m := by
  simp [cscToDense, h]

/-! ### CSC: re-sparsifying keeps the dense values -/

theorem ratNat_natRat (k : Nat) : ratNat (natRat k) = k := by
  simp [ratNat, natRat]

theorem natRat_inj (a b : Nat) : natRat a = natRat b ↔ a = b := by
  constructor
  · intro h
    have := congrArg ratNat h
    simpa [ratNat_natRat] using this
  · intro h; rw [h]

theorem sumRat_append (a b : List Rat) : sumRat (a ++ b) = sumRat a + sumRat b := by
  induction a with
  | nil => simp [sumRat]
  | cons x a ih => simp [sumRat, ih, add_assoc]

/-- offset of sublist `j` inside the flattened list -/
def offset {α} (L : List (List α)) (j : Nat) : Nat := ((L.take j).map List.length).sum

theorem cumul_length (ls : List Nat) (acc : Nat) : (cumul acc ls).length = ls.length + 1 := by
  induction ls generalizing acc with
  | nil => simp [cumul]
  | cons l r ih => simp [cumul, ih]

theorem cumul_getD (ls : List Nat) (acc j : Nat) (hj : j ≤ ls.length) :
    (cumul acc ls).getD j 0 = acc + (ls.take j).sum := by
  induction ls generalizing acc j with
  | nil =>
    have : j = 0 := by simpa using hj
    subst this; simp [cumul]
  | cons l r ih =>
    cases j with
    | zero => simp [cumul]
    | succ j =>
      have hj' : j ≤ r.length := by simpa using hj
      have h2 := ih (acc + l) j hj'
      simp only [List.getD_eq_getElem?_getD] at h2
      simp [cumul, h2, Nat.add_assoc]

theorem flatten_getElem? {α} (L : List (List α)) (j q : Nat) (hj : j < L.length)
    (hq : q < (L.getD j []).length) :
    L.flatten[offset L j + q]? = (L.getD j [])[q]? := by
  induction L generalizing j with
  | nil => simp at hj
  | cons l r ih =>
    cases j with
    | zero =>
      simp only [List.getD_cons_zero] at hq
      simp [offset, List.getElem?_append_left hq]
    | succ j =>
      have hj' : j < r.length := by simpa using hj
      simp only [List.getD_cons_succ] at hq ⊢
      have := ih j hj' hq
      simp only [offset] at this ⊢
      simp only [List.take_succ_cons, List.map_cons, List.sum_cons, List.flatten_cons]
      rw [Nat.add_assoc, List.getElem?_append_right (by omega)]
      simpa using this


theorem offset_succ {α} (L : List (List α)) (j : Nat) (hj : j < L.length) :
    offset L (j + 1) = offset L j + (L.getD j []).length := by
  induction L generalizing j with
  | nil => simp at hj
  | cons l r ih =>
    cases j with
    | zero => simp [offset]
    | succ j =>
      have hj' : j < r.length := by simpa using hj
      have := ih j hj'
      simp only [offset] at this ⊢
      simp only [List.take_succ_cons, List.map_cons, List.sum_cons, List.getD_cons_succ] at this ⊢
      omega

def pick (i : Nat) (e : Nat × Rat) : Rat := if e.1 = i then e.2 else 0

theorem colEntries_succ (n m : Nat) (d : List Rat) (j : Nat) :
    colEntries (n + 1) m d j = colEntries n m d j ++
      (if d.getD (n * m + j) 0 = 0 then [] else [(n, d.getD (n * m + j) 0)]) := by
  simp only [colEntries, List.range_succ, List.filterMap_append]
  congr 1
  simp only [List.filterMap_cons, List.filterMap_nil]
  generalize d.getD (n * m + j) 0 = x
  by_cases h : x = 0 <;> simp [h]

theorem sum_pick_colEntries_ge (n m : Nat) (d : List Rat) (j i : Nat) (h : n ≤ i) :
    sumRat ((colEntries n m d j).map (pick i)) = 0 := by
  induction n with
  | zero => simp [colEntries, sumRat]
  | succ n ih =>
    rw [colEntries_succ, List.map_append, sumRat_append, ih (by omega)]
    generalize d.getD (n * m + j) 0 = x
    by_cases hx : x = 0
    · simp [hx, sumRat]
    · have : n ≠ i := by omega
      simp [hx, sumRat, pick, this]

theorem sum_pick_colEntries (n m : Nat) (d : List Rat) (j i : Nat) (h : i < n) :
    sumRat ((colEntries n m d j).map (pick i)) = d.getD (i * m + j) 0 := by
  induction n with
  | zero => omega
  | succ n ih =>
    rw [colEntries_succ, List.map_append, sumRat_append]
    by_cases hin : i < n
    · rw [ih hin]
      have : n ≠ i := by omega
      generalize d.getD (n * m + j) 0 = x
      by_cases hx : x = 0
      · simp [hx, sumRat]
      · simp [hx, sumRat, pick, this]
    · have hi : i = n := by omega
      subst hi
      rw [sum_pick_colEntries_ge i m d j i (Nat.le_refl _)]
      generalize d.getD (i * m + j) 0 = x
      by_cases hx : x = 0
      · simp [hx, sumRat]
      · simp [hx, sumRat, pick]

theorem map_range_getD {α β} (l : List α) (f : α → β) (dflt : α) :
    (List.range l.length).map (fun q => f (l.getD q dflt)) = l.map f := by
  apply List.ext_getElem
  · simp
  · intro k h1 h2
    have : k < l.length := by simpa using h1
    simp [List.getD_eq_getElem?_getD, this]

theorem getD_map_natRat (l : List Nat) (j : Nat) :
    (l.map natRat).getD j 0 = natRat (l.getD j 0) := by
  simp only [List.getD_eq_getElem?_getD, List.getElem?_map]
  cases l[j]? <;> simp [natRat]

theorem cscToDense_denseToCsc (dt : String) (n m : Nat) (d : List Rat) (hd : d.length = n * m) :
    cscToDense (denseToCsc ⟨dt, [n, m], d⟩) = ⟨dt, [n, m], d⟩ := by
  -- names for the pieces of the CSC matrix
  let cols := (List.range m).map (colEntries n m d)
  have hcolsLen : cols.length = m := by simp [cols]
  have hcol : ∀ j, j < m → cols.getD j [] = colEntries n m d j := by
    intro j hj; simp [cols, List.getD_eq_getElem?_getD, hj]
  have hptr : ∀ j, j ≤ m →
      ratNat (((cumul 0 (cols.map List.length)).map natRat).getD j 0) = offset cols j := by
    intro j hj
    rw [getD_map_natRat, ratNat_natRat, cumul_getD _ _ _ (by simpa [hcolsLen] using hj)]
    simp [offset, List.map_take]
  simp only [cscToDense, denseToCsc, List.headD_cons, List.drop_succ_cons, List.drop_zero]
  congr 1
  apply List.ext_getElem
  · simp [hd]
  · intro k h1 h2
    have hk : k < n * m := by simpa using h1
    have hm : 0 < m := by
      rcases Nat.eq_zero_or_pos m with h0 | h0
      · simp [h0] at hk
      · exact h0
    have hj : k % m < m := Nat.mod_lt _ hm
    have hi : k / m < n := Nat.div_lt_of_lt_mul (by rwa [Nat.mul_comm] at hk)
    simp only [List.getElem_map, List.getElem_range]
    rw [hptr (k % m + 1) (by omega), hptr (k % m) (by omega), offset_succ cols _ (by omega),
      Nat.add_sub_cancel_left, hcol _ hj]
    have hterm : ∀ q ∈ List.range (colEntries n m d (k % m)).length,
        (if ((cols.flatten).map fun p => natRat p.1).getD (offset cols (k % m) + q) 0 = natRat (k / m)
          then ((cols.flatten).map (·.2)).getD (offset cols (k % m) + q) 0 else 0) =
        pick (k / m) ((colEntries n m d (k % m)).getD q (0, 0)) := by
      intro q hq
      have hq' : q < (cols.getD (k % m) []).length := by
        rw [hcol _ hj]; simpa using hq
      have hf := flatten_getElem? cols (k % m) q (by omega) hq'
      rw [hcol _ hj] at hf
      have hq2 : q < (colEntries n m d (k % m)).length := by simpa using hq
      simp only [List.getD_eq_getElem?_getD, List.getElem?_map, hf, List.getElem?_eq_getElem hq2,
        Option.map_some, Option.getD_some, pick, natRat_inj]
    rw [List.map_congr_left hterm, map_range_getD _ (pick (k / m)) (0, 0),
      sum_pick_colEntries n m d _ _ hi, Nat.div_add_mod' k m]
    simp [List.getD_eq_getElem?_getD, h2]

/-! ### CSR → CSC (`scipy.sparse.csc_matrix(csr)`, the repair of D162) keeps the dense values -/

def pick3 (i : Nat) (e : Nat × Nat × Rat) : Rat := if e.1 = i then e.2.2 else 0

theorem sum_pick3_filter (L : List (Nat × Nat × Rat)) (p : Nat × Nat × Rat → Bool) (i : Nat) :
    sumRat ((L.filter p).map (pick3 i)) =
      sumRat ((L.filter fun e => e.1 == i && p e).map (·.2.2)) := by
  induction L with
  | nil => simp [sumRat]
  | cons e L ih =>
    by_cases hp : p e = true
    · by_cases hi : e.1 = i
      · simp [List.filter_cons, hp, hi, sumRat, pick3, ih]
      · simp [List.filter_cons, hp, hi, sumRat, pick3, ih]
    · have hp' : p e = false := by simpa using hp
      simp [List.filter_cons, hp', ih]

theorem cscToDense_csrToCsc (r : Csc) (n m : Nat) (hs : r.shape = [n, m]) :
    cscToDense (csrToCsc r) = csrToDense r := by
  let es := csrEntries r
  let cols := (List.range m).map fun j => es.filter fun e => e.2.1 == j
  have hcolsLen : cols.length = m := by simp [cols]
  have hcol : ∀ j, j < m → cols.getD j [] = es.filter fun e => e.2.1 == j := by
    intro j hj; simp [cols, List.getD_eq_getElem?_getD, hj]
  have hptr : ∀ j, j ≤ m →
      ratNat (((cumul 0 (cols.map List.length)).map natRat).getD j 0) = offset cols j := by
    intro j hj
    rw [getD_map_natRat, ratNat_natRat, cumul_getD _ _ _ (by simpa [hcolsLen] using hj)]
    simp [offset, List.map_take]
  simp only [cscToDense, csrToCsc, csrToDense, hs, List.headD_cons, List.drop_succ_cons, List.drop_zero]
  congr 1
  apply List.map_congr_left
  intro k hk'
  have hk : k < n * m := by simpa using hk'
  have hm : 0 < m := by
    rcases Nat.eq_zero_or_pos m with h0 | h0
    · simp [h0] at hk
    · exact h0
  have hj : k % m < m := Nat.mod_lt _ hm
  show sumRat ((List.range (ratNat (((cumul 0 (cols.map List.length)).map natRat).getD (k % m + 1) 0) -
      ratNat (((cumul 0 (cols.map List.length)).map natRat).getD (k % m) 0))).map fun q =>
        if ((cols.flatten).map fun e => natRat e.1).getD
            (ratNat (((cumul 0 (cols.map List.length)).map natRat).getD (k % m) 0) + q) 0 = natRat (k / m)
        then ((cols.flatten).map (·.2.2)).getD
            (ratNat (((cumul 0 (cols.map List.length)).map natRat).getD (k % m) 0) + q) 0 else 0) = _
  rw [hptr (k % m + 1) (by omega), hptr (k % m) (by omega), offset_succ cols _ (by omega),
    Nat.add_sub_cancel_left, hcol _ hj]
  have hterm : ∀ q ∈ List.range (es.filter fun e => e.2.1 == k % m).length,
      (if ((cols.flatten).map fun e => natRat e.1).getD (offset cols (k % m) + q) 0 = natRat (k / m)
        then ((cols.flatten).map (·.2.2)).getD (offset cols (k % m) + q) 0 else 0) =
      pick3 (k / m) ((es.filter fun e => e.2.1 == k % m).getD q (0, 0, 0)) := by
    intro q hq
    have hq' : q < (cols.getD (k % m) []).length := by
      rw [hcol _ hj]; simpa using hq
    have hf := flatten_getElem? cols (k % m) q (by omega) hq'
    rw [hcol _ hj] at hf
    have hq2 : q < (es.filter fun e => e.2.1 == k % m).length := by simpa using hq
    simp only [List.getD_eq_getElem?_getD, List.getElem?_map, hf, List.getElem?_eq_getElem hq2,
      Option.map_some, Option.getD_some, pick3, natRat_inj]
  rw [List.map_congr_left hterm, map_range_getD _ (pick3 (k / m)) (0, 0, 0), sum_pick3_filter]

/-! ### reversing all axes twice -/

theorem InBounds_append : ∀ (a s b t : List Nat), InBounds a s → InBounds b t →
    InBounds (a ++ b) (s ++ t)
  | [], [], _, _, _, hb => by simpa using hb
  | [], _ :: _, _, _, ha, _ => by simp [InBounds] at ha
  | _ :: _, [], _, _, ha, _ => by simp [InBounds] at ha
  | i :: a, n :: s, b, t, ha, hb => by
    exact ⟨ha.1, InBounds_append a s b t ha.2 hb⟩

theorem InBounds_reverse : ∀ (idx s : List Nat), InBounds idx s → InBounds idx.reverse s.reverse
  | [], [], _ => by simp [InBounds]
  | [], _ :: _, h => by simp [InBounds] at h
  | _ :: _, [], h => by simp [InBounds] at h
  | i :: idx, n :: s, h => by
    simp only [List.reverse_cons]
    exact InBounds_append _ _ _ _ (InBounds_reverse idx s h.2) ⟨h.1, trivial⟩

theorem transposeAll_involutive (dt : String) (s : List Nat) (d : List Rat)
    (hd : d.length = prod s) :
    (Arr.transposeAll ⟨dt, s.reverse, (Arr.transposeAll ⟨dt, s, d⟩).data⟩).data = d := by
  simp only [Arr.transposeAll, List.reverse_reverse]
  apply List.ext_getElem
  · simp [hd]
  · intro k h1 h2
    have hk : k < prod s := by rw [← hd]; exact h2
    have hb := unravel_inBounds s k hk
    have hbr := InBounds_reverse _ _ hb
    have hj := ravel_lt _ _ hbr
    simp only [List.getElem_map, List.getElem_range]
    rw [List.getD_eq_getElem?_getD, List.getElem?_map, List.getElem?_range hj]
    simp only [Option.map_some, Option.getD_some]
    rw [unravel_ravel' _ _ hbr, List.reverse_reverse, ravel_unravel' s k hk]
    simp [List.getD_eq_getElem?_getD, h2]

/-! ## object state and the ASDF layer -/

/-- the property `grid.weights`, unfolded -/
theorem weightsProperty_run (auto : AutoWeights) (g : Grid) :
    (Grid.weightsProperty auto).run g =
      if g.weights.isNull then
        ((if (auto g.coords).isNull then Tree.num (.int 1) else auto g.coords),
          { g with weights := if (auto g.coords).isNull then Tree.num (.int 1) else auto g.coords })
      else (g.weights, g) := rfl

theorem normGridTree_toDict (g : Grid) : normGridTree g.toDict = g.pyWeights.toDict := by
  obtain ⟨s, c, w⟩ := g
  simp [normGridTree, Grid.toDict, Grid.pyWeights, Tree.get, lookup, Tree.set, setKey]

theorem normObjTree_field (f : Field) :
    normObjTree f.toDict = ({ f with grid := f.grid.pyWeights } : Field).toDict := by
  obtain ⟨v, g⟩ := f
  simp [normObjTree, Field.toDict, Tree.get, lookup, Tree.set, setKey, normGridTree_toDict]

theorem normObjTree_basis (b : ModeBasis) (g : Grid) (hg : b.grid = some g) (t : Tree)
    (ht : b.toDict = .ok t) :
    .ok (normObjTree t) = ({ b with grid := some g.pyWeights } : ModeBasis).toDict := by
  obtain ⟨tm, og⟩ := b
  simp only at hg
  subst hg
  simp only [ModeBasis.toDict] at ht
  injection ht with ht
  subst ht
  simp [normObjTree, ModeBasis.toDict, ModeBasis.isSparse, Tree.get, lookup, Tree.set, setKey,
    normGridTree_toDict]


/-! ### file-name suffixes -/

theorem not_endsWith_append (stem ext suf : List Char)
    (h : endsWith ext suf = false) (h' : endsWith suf ext = false) :
    endsWith (stem ++ ext) suf = false := by
  unfold endsWith at *
  cases hs : suf.isSuffixOf (stem ++ ext) with
  | false => rfl
  | true =>
    have h1 : suf <:+ stem ++ ext := List.isSuffixOf_iff_suffix.mp hs
    have h2 : ext <:+ stem ++ ext := List.suffix_append stem ext
    rcases List.suffix_or_suffix_of_suffix h1 h2 with h3 | h3
    · rw [← List.isSuffixOf_iff_suffix] at h3; rw [h3] at h; cases h
    · rw [← List.isSuffixOf_iff_suffix] at h3; rw [h3] at h'; cases h'

theorem endsWith_append (stem ext suf : List Char) (h : endsWith ext suf = true) :
    endsWith (stem ++ ext) suf = true := by
  unfold endsWith at *
  rw [List.isSuffixOf_iff_suffix] at *
  exact h.trans (List.suffix_append stem ext)

/-! ### the ASDF layer is idempotent on weights -/

theorem pyScalar_fix (t : Tree) : pyScalar t = t ∨ (pyScalar t).isNpScalar = false := by
  unfold pyScalar
  split
  · next dt v =>
    by_cases h1 : dt.startsWith "f" = true
    · right; simp [h1, Tree.isNpScalar]
    · by_cases h2 : (dt.startsWith "i" || dt.startsWith "u") = true
      · right; simp [h1, h2, Tree.isNpScalar]
      · left; simp [h1, h2]
  · left; rfl

theorem pyScalar_of_not_npScalar (t : Tree) (h : t.isNpScalar = false) : pyScalar t = t := by
  unfold pyScalar
  split
  · simp [Tree.isNpScalar] at h
  · rfl

theorem pyScalar_idem (t : Tree) : pyScalar (pyScalar t) = pyScalar t := by
  rcases pyScalar_fix t with h | h
  · rw [h, h]
  · exact pyScalar_of_not_npScalar _ h

theorem pyWeights_idem (g : Grid) : g.pyWeights.pyWeights = g.pyWeights := by
  simp [Grid.pyWeights, pyScalar_idem]

end HcipyVerif.Serial
