import HcipyVerif.Model.Serial
import Mathlib.Tactic.Linarith
import Mathlib.Tactic.Ring

/-! Helper lemmas for C16: row-major index arithmetic, flat transposition, `mapM` decoders. -/
set_option linter.unusedSimpArgs false
set_option linter.unusedVariables false

namespace HcipyVerif.Serial

/-! ### products of shapes -/

theorem prod_append (a b : List Nat) : prod (a ++ b) = prod a * prod b := by
  induction a with
  | nil => simp [prod]
  | cons n a ih => simp [prod, ih, Nat.mul_assoc]

theorem prod_singleton (n : Nat) : prod [n] = n := by simp [prod]

theorem prod_reverse (a : List Nat) : prod a.reverse = prod a := by
  induction a with
  | nil => rfl
  | cons n a ih => simp [prod, prod_append, ih, Nat.mul_comm]

/-! ### ravel / unravel -/

theorem ravel_lt : ∀ (s idx : List Nat), InBounds idx s → ravel s idx < prod s
  | [], [], _ => by simp [ravel, prod]
  | [], _ :: _, h => by simp [InBounds] at h
  | _ :: _, [], h => by simp [InBounds] at h
  | n :: s, i :: is, h => by
    obtain ⟨hi, hs⟩ := h
    have ih := ravel_lt s is hs
    simp only [ravel, prod]
    calc i * prod s + ravel s is < i * prod s + prod s := by omega
      _ = (i + 1) * prod s := by ring
      _ ≤ n * prod s := Nat.mul_le_mul_right _ hi

theorem unravel_inBounds : ∀ (s : List Nat) (k : Nat), k < prod s → InBounds (unravel s k) s
  | [], k, _ => by simp [unravel, InBounds]
  | n :: s, k, h => by
    simp only [prod] at h
    have hP : 0 < prod s := by
      rcases Nat.eq_zero_or_pos (prod s) with h0 | h0
      · simp [h0] at h
      · exact h0
    refine ⟨?_, unravel_inBounds s _ (Nat.mod_lt _ hP)⟩
    exact Nat.div_lt_of_lt_mul (by rwa [Nat.mul_comm] at h)

theorem ravel_unravel' : ∀ (s : List Nat) (k : Nat), k < prod s → ravel s (unravel s k) = k
  | [], k, h => by simp [prod] at h; simp [unravel, ravel, h]
  | n :: s, k, h => by
    simp only [prod] at h
    have hP : 0 < prod s := by
      rcases Nat.eq_zero_or_pos (prod s) with h0 | h0
      · simp [h0] at h
      · exact h0
    simp only [unravel, ravel]
    rw [ravel_unravel' s _ (Nat.mod_lt _ hP)]
    exact Nat.div_add_mod' k (prod s)

theorem unravel_ravel' : ∀ (s idx : List Nat), InBounds idx s → unravel s (ravel s idx) = idx
  | [], [], _ => by simp [unravel]
  | [], _ :: _, h => by simp [InBounds] at h
  | _ :: _, [], h => by simp [InBounds] at h
  | n :: s, i :: is, h => by
    obtain ⟨hi, hs⟩ := h
    have hr := ravel_lt s is hs
    have hP : 0 < prod s := by omega
    simp only [ravel, unravel]
    have h1 : (i * prod s + ravel s is) / prod s = i := by
      rw [Nat.add_comm, Nat.add_mul_div_right _ _ hP, Nat.div_eq_of_lt hr]; simp
    have h2 : (i * prod s + ravel s is) % prod s = ravel s is := by
      rw [Nat.add_comm, Nat.add_mul_mod_self_right, Nat.mod_eq_of_lt hr]
    rw [h1, h2, unravel_ravel' s is hs]

/-! ### flat transposition -/

theorem transposeFlat_length (r c : Nat) (d : List Rat) : (transposeFlat r c d).length = r * c := by
  simp [transposeFlat]

theorem transposeFlat_getD (r c : Nat) (d : List Rat) (j : Nat) (hj : j < r * c) :
    (transposeFlat r c d).getD j 0 = d.getD ((j % r) * c + j / r) 0 := by
  simp [transposeFlat, List.getD_eq_getElem?_getD, hj]

theorem transpose_index (r c k : Nat) (hk : k < r * c) :
    let j := (k % c) * r + k / c
    j < r * c ∧ (j % r) * c + j / r = k := by
  have hc : 0 < c := by
    rcases Nat.eq_zero_or_pos c with h0 | h0
    · simp [h0] at hk
    · exact h0
  have hr : 0 < r := by
    rcases Nat.eq_zero_or_pos r with h0 | h0
    · simp [h0] at hk
    · exact h0
  have hdiv : k / c < r := Nat.div_lt_of_lt_mul (by rwa [Nat.mul_comm] at hk)
  have hmod : k % c < c := Nat.mod_lt _ hc
  have hjr : ((k % c) * r + k / c) % r = k / c := by
    rw [Nat.add_comm, Nat.add_mul_mod_self_right, Nat.mod_eq_of_lt hdiv]
  have hjd : ((k % c) * r + k / c) / r = k % c := by
    rw [Nat.add_comm, Nat.add_mul_div_right _ _ hr, Nat.div_eq_of_lt hdiv]; simp
  refine ⟨?_, ?_⟩
  · have h1 : (k % c + 1) * r ≤ c * r := Nat.mul_le_mul_right _ hmod
    have h2 : (k % c + 1) * r = (k % c) * r + r := by ring
    have h3 : c * r = r * c := Nat.mul_comm _ _
    show (k % c) * r + k / c < r * c
    omega
  · show ((k % c) * r + k / c) % r * c + ((k % c) * r + k / c) / r = k
    rw [hjr, hjd]
    exact Nat.div_add_mod' k c

theorem transposeFlat_involutive (r c : Nat) (d : List Rat) (hd : d.length = r * c) :
    transposeFlat c r (transposeFlat r c d) = d := by
  apply List.ext_getElem
  · simp [transposeFlat_length, hd, Nat.mul_comm]
  · intro k h1 h2
    have hk : k < r * c := by rw [← hd]; exact h2
    have hk' : k < c * r := by rwa [Nat.mul_comm]
    obtain ⟨hj, hidx⟩ := transpose_index r c k hk
    have e1 : (transposeFlat c r (transposeFlat r c d))[k] =
        (transposeFlat c r (transposeFlat r c d)).getD k 0 := by
      simp [List.getD_eq_getElem?_getD, h1]
    rw [e1, transposeFlat_getD c r _ k hk', transposeFlat_getD r c d _ hj, hidx]
    simp [List.getD_eq_getElem?_getD, h2]

/-! ### decoders undo encoders -/

theorem mapM_asNum (l : List PyNum) : (l.map Tree.num).mapM asNum = .ok l := by
  induction l with
  | nil => rfl
  | cons x l ih => simp [List.mapM_cons, asNum, ih, bind, Except.bind, pure, Except.pure]

theorem mapM_asDim (l : List Nat) :
    (l.map fun (k : Nat) => Tree.num (.int k)).mapM asDim = .ok l := by
  induction l with
  | nil => rfl
  | cons x l ih => simp [List.mapM_cons, asDim, ih, bind, Except.bind, pure, Except.pure]

theorem mapM_asArr (l : List Arr) : (l.map Tree.arr).mapM asArr = .ok l := by
  induction l with
  | nil => rfl
  | cons x l ih => simp [List.mapM_cons, asArr, ih, bind, Except.bind, pure, Except.pure]

@[simp] theorem mapM_asNum_comp (l : List PyNum) : l.mapM (asNum ∘ Tree.num) = .ok l := by
  induction l with
  | nil => rfl
  | cons x l ih => simp [List.mapM_cons, asNum, ih, bind, Except.bind, pure, Except.pure]

@[simp] theorem mapM_asDim_comp (l : List Nat) :
    l.mapM (asDim ∘ fun (k : Nat) => Tree.num (.int k)) = .ok l := by
  induction l with
  | nil => rfl
  | cons x l ih => simp [List.mapM_cons, asDim, ih, bind, Except.bind, pure, Except.pure]

@[simp] theorem mapM_asArr_comp (l : List Arr) : l.mapM (asArr ∘ Tree.arr) = .ok l := by
  induction l with
  | nil => rfl
  | cons x l ih => simp [List.mapM_cons, asArr, ih, bind, Except.bind, pure, Except.pure]

theorem coerce_of_homogeneous (l : List PyNum) (h : Homogeneous l) : coerce l = l := by
  unfold coerce
  split
  · rfl
  · rcases h with h | h
    · simp_all
    · clear * - h
      induction l with
      | nil => rfl
      | cons x l ih =>
        simp only [List.all_cons, Bool.and_eq_true] at h
        cases x with
        | int i => simp [PyNum.isInt] at h
        | float q => simp [PyNum.toFloat, ih h.2]

end HcipyVerif.Serial

namespace HcipyVerif.Serial

/-! ### shapes of separated grids -/

theorem Coords.shape_length (c : Coords) (h : c.isSeparated = true) : c.shape.length = c.ndim := by
  cases c <;> simp_all [Coords.shape, Coords.dims, Coords.ndim, Coords.isSeparated]

theorem Coords.size_eq (c : Coords) (h : c.isSeparated = true) : c.size = prod c.shape := by
  cases c <;> simp_all [Coords.size, Coords.isSeparated]

theorem take_length_sub (ts gs : List Nat) (n : Nat) (h : gs.length = n) :
    (ts ++ gs).take ((ts ++ gs).length - n) = ts := by
  subst h
  simp

theorem cscToDense_shape (c : Csc) (n m : Nat) (h : c.shape = [n, m]) :
    (cscToDense c).shape = [n, m] ∧ (cscToDense c).data.length = n * m := by
  simp [cscToDense, h]

end HcipyVerif.Serial
