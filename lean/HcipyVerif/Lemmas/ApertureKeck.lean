import HcipyVerif.Lemmas.ApertureMain

/-!
# C12 — the Keck pupil as a shape of the model

`keckShape` is an ordinary `Shape`, so representation independence is an instance of
`evalSep_eq_val`; what is specific is well-formedness of the tree, the number of segments produced
by the ring arithmetic, and the value range.
-/
set_option linter.unusedSimpArgs false
set_option linter.unusedVariables false

namespace HcipyVerif.Aperture

theorem hexRing_length (n : Nat) : (hexRing n).length = 6 * n := by
  simp [hexRing]
  omega

theorem hexQR_length (n : Nat) : (hexQR n).length = 1 + 3 * n * (n + 1) := by
  induction n with
  | zero => simp [hexQR]
  | succ n ih =>
    have : (hexQR (n + 1)).length = (hexQR n).length + (hexRing (n + 1)).length := by
      simp [hexQR, List.range_succ, List.flatMap_append]
      omega
    rw [this, ih, hexRing_length]
    ring

theorem hexPositions_length (n : Nat) (cd ap : Rat) :
    (hexPositions n cd ap).length = 1 + 3 * n * (n + 1) := by
  simp [hexPositions, hexQR_length]

theorem spiderFold_wf (hw : Rat) (rest : List (Rat × Rat)) (acc : Shape) (h : WF acc) :
    WF (rest.foldl (fun acc d => Shape.mul acc (.spiderInf 0 0 d.1 d.2 hw)) acc) := by
  induction rest generalizing acc with
  | nil => simpa using h
  | cons d rest ih => exact ih _ ⟨h, trivial⟩

theorem spiderFold_binary (hw : Rat) (rest : List (Rat × Rat)) (acc : Shape) (h : Binary acc) :
    Binary (rest.foldl (fun acc d => Shape.mul acc (.spiderInf 0 0 d.1 d.2 hw)) acc) := by
  induction rest generalizing acc with
  | nil => simpa using h
  | cons d rest ih => exact ih _ (Binary.mul h (Binary.spiderInf ..))

theorem keck_wf {segR : Rat} (h : 0 ≤ segR) (rings : Nat) (pitch ap segA : Rat)
    (dirs : List (Rat × Rat)) (trs : List Rat) (obsR : Rat) (spiders : List (Rat × Rat)) (hw : Rat) :
    WF (keckShape rings pitch ap segR segA dirs trs obsR spiders hw) := by
  cases spiders with
  | nil => exact ⟨h, trivial⟩
  | cons s0 rest => exact ⟨⟨h, trivial⟩, spiderFold_wf hw rest _ trivial⟩

theorem mul_mem_unit {a b : Rat} (ha : 0 ≤ a ∧ a ≤ 1) (hb : 0 ≤ b ∧ b ≤ 1) : 0 ≤ a * b ∧ a * b ≤ 1 :=
  ⟨mul_nonneg ha.1 hb.1, by nlinarith [mul_nonneg ha.1 hb.1, mul_nonneg (sub_nonneg.mpr ha.2) (sub_nonneg.mpr hb.2)]⟩

theorem keck_mem_unit (rings : Nat) (pitch ap segR segA : Rat) (dirs : List (Rat × Rat))
    {trs : List Rat} (htr : ∀ t ∈ trs, 0 ≤ t ∧ t ≤ 1) (obsR : Rat) (spiders : List (Rat × Rat))
    (hw : Rat) (p : Pt) :
    0 ≤ val (keckShape rings pitch ap segR segA dirs trs obsR spiders hw) p ∧
      val (keckShape rings pitch ap segR segA dirs trs obsR spiders hw) p ≤ 1 := by
  have hseg : ∀ s ∈ (hexPositions rings pitch ap).zip trs, 0 ≤ s.2 ∧ s.2 ≤ 1 := by
    intro s hs
    obtain ⟨a, b⟩ := s
    exact htr b (List.of_mem_zip hs).2
  have hbody : 0 ≤ val (Shape.mul (.seg ((hexPositions rings pitch ap).zip trs) (.regpoly true segR segA dirs 0 0))
      (.compl (.disk obsR))) p ∧
      val (Shape.mul (.seg ((hexPositions rings pitch ap).zip trs) (.regpoly true segR segA dirs 0 0))
      (.compl (.disk obsR))) p ≤ 1 := by
    show 0 ≤ _ * _ ∧ _ * _ ≤ 1
    exact mul_mem_unit (seg_val_in_unit_interval hseg)
      (values_in_unit_interval (Binary.compl (Binary.disk ..)) p)
  cases spiders with
  | nil => exact hbody
  | cons s0 rest =>
    show 0 ≤ _ * _ ∧ _ * _ ≤ 1
    exact mul_mem_unit hbody
      (values_in_unit_interval (spiderFold_binary hw rest _ (Binary.spiderInf ..)) p)

/-- with all segment transmissions equal to 1 the Keck recipe is a `Binary` shape -/
theorem keck_binary_of_unit (rings : Nat) (pitch ap segR segA : Rat) (dirs : List (Rat × Rat))
    {trs : List Rat} (htr : ∀ t ∈ trs, t = 1) (obsR : Rat) (spiders : List (Rat × Rat)) (hw : Rat) :
    Binary (keckShape rings pitch ap segR segA dirs trs obsR spiders hw) := by
  have hseg : ∀ s ∈ (hexPositions rings pitch ap).zip trs, s.2 = 1 := by
    intro s hs
    obtain ⟨a, b⟩ := s
    exact htr b (List.of_mem_zip hs).2
  have hbody : Binary (Shape.mul (.seg ((hexPositions rings pitch ap).zip trs) (.regpoly true segR segA dirs 0 0))
      (.compl (.disk obsR))) :=
    Binary.mul (Binary.seg (Binary.regpoly ..) hseg) (Binary.compl (Binary.disk ..))
  cases spiders with
  | nil => exact hbody
  | cons s0 rest => exact Binary.mul hbody (spiderFold_binary hw rest _ (Binary.spiderInf ..))

end HcipyVerif.Aperture
