import HcipyVerif.Model.OpIR
import Mathlib.Algebra.Ring.Defs
import Mathlib.Tactic.Ring
import Mathlib.Algebra.Order.Field.Rat
import Mathlib.Data.Complex.Basic
import Mathlib.Tactic.FieldSimp
import Mathlib.Tactic.Linarith

/-!
Helper lemmas for C06: list-vector algebra and the structural induction showing that every
`OpIR.Term` with a definite parity is linear / conjugate-linear.
-/
set_option linter.unusedSimpArgs false
set_option linter.unusedVariables false
set_option linter.unusedSectionVars false
set_option linter.unusedTactic false
set_option linter.unreachableTactic false
set_option linter.unnecessarySeqFocus false

namespace HcipyVerif.OpIR

variable {K : Type} [CommRing K]

/-- What is assumed of the conjugation: a ring involution. -/
structure IsConj (cj : K → K) : Prop where
  add : ∀ a b, cj (a + b) = cj a + cj b
  mul : ∀ a b, cj (a * b) = cj a * cj b
  invol : ∀ a, cj (cj a) = a

/-- `a • x + y` on list vectors. -/
def lincomb (a : K) (x y : List K) : List K := vadd (smul a x) y

theorem lincomb_nil_left (a : K) (y : List K) : lincomb a [] y = [] := by
  simp [lincomb, vadd, smul]

theorem lincomb_nil_right (a : K) (x : List K) : lincomb a x [] = [] := by
  simp [lincomb, vadd, smul]

theorem lincomb_cons (a x0 y0 : K) (x y : List K) :
    lincomb a (x0 :: x) (y0 :: y) = (a * x0 + y0) :: lincomb a x y := by
  simp [lincomb, vadd, smul]

theorem lincomb_length (a : K) (x y : List K) : (lincomb a x y).length = min x.length y.length := by
  simp [lincomb, vadd, smul]

theorem vmul_lincomb (m : List K) (a : K) (x y : List K) :
    vmul m (lincomb a x y) = lincomb a (vmul m x) (vmul m y) := by
  induction m generalizing x y with
  | nil => simp [vmul, lincomb_nil_left]
  | cons m0 m ih =>
    cases x with
    | nil => simp [vmul, lincomb_nil_left]
    | cons x0 x =>
      cases y with
      | nil => simp [vmul, lincomb_nil_right]
      | cons y0 y =>
        have := ih x y
        simp only [vmul] at this
        simp only [vmul, lincomb_cons, List.zipWith_cons_cons, this]
        congr 1
        ring

theorem dot_lincomb (r : List K) (a : K) (x y : List K) (h : x.length = y.length) :
    dot r (lincomb a x y) = a * dot r x + dot r y := by
  induction r generalizing x y with
  | nil => simp [dot]
  | cons r0 r ih =>
    cases x with
    | nil =>
      cases y with
      | nil => simp [dot, lincomb_nil_left]
      | cons y0 y => simp at h
    | cons x0 x =>
      cases y with
      | nil => simp at h
      | cons y0 y =>
        have hl : x.length = y.length := by simpa using h
        simp only [lincomb_cons, dot, ih x y hl]
        ring

theorem matrix_lincomb (rows : List (List K)) (a : K) (x y : List K) (h : x.length = y.length) :
    rows.map (fun r => dot r (lincomb a x y))
      = lincomb a (rows.map (fun r => dot r x)) (rows.map (fun r => dot r y)) := by
  induction rows with
  | nil => simp [lincomb_nil_left]
  | cons r rows ih => simp only [List.map_cons, lincomb_cons, dot_lincomb r a x y h, ih]

theorem vadd_lincomb (a : K) (u1 v1 u2 v2 : List K) :
    vadd (lincomb a u1 v1) (lincomb a u2 v2) = lincomb a (vadd u1 u2) (vadd v1 v2) := by
  induction u1 generalizing v1 u2 v2 with
  | nil => simp [lincomb_nil_left, vadd]
  | cons p u1 ih =>
    cases v1 with
    | nil => simp [lincomb_nil_right, vadd]
    | cons q v1 =>
      cases u2 with
      | nil => simp [lincomb_nil_left, vadd]
      | cons p2 u2 =>
        cases v2 with
        | nil => simp [lincomb_nil_right, vadd]
        | cons q2 v2 =>
          have := ih v1 u2 v2
          simp only [vadd] at this
          simp only [lincomb_cons, vadd, List.zipWith_cons_cons, this]
          congr 1
          ring

theorem vsub_lincomb (a : K) (u1 v1 u2 v2 : List K) :
    vsub (lincomb a u1 v1) (lincomb a u2 v2) = lincomb a (vsub u1 u2) (vsub v1 v2) := by
  induction u1 generalizing v1 u2 v2 with
  | nil => simp [lincomb_nil_left, vsub]
  | cons p u1 ih =>
    cases v1 with
    | nil => simp [lincomb_nil_right, vsub]
    | cons q v1 =>
      cases u2 with
      | nil => simp [lincomb_nil_left, vsub]
      | cons p2 u2 =>
        cases v2 with
        | nil => simp [lincomb_nil_right, vsub]
        | cons q2 v2 =>
          have := ih v1 u2 v2
          simp only [vsub] at this
          simp only [lincomb_cons, vsub, List.zipWith_cons_cons, this]
          congr 1
          ring

theorem smul_lincomb (c a : K) (u v : List K) :
    smul c (lincomb a u v) = lincomb a (smul c u) (smul c v) := by
  induction u generalizing v with
  | nil => simp [lincomb_nil_left, smul]
  | cons p u ih =>
    cases v with
    | nil => simp [lincomb_nil_right, smul]
    | cons q v =>
      have := ih v
      simp only [smul] at this
      simp only [lincomb_cons, smul, List.map_cons, this]
      congr 1
      ring

theorem conj_lincomb {cj : K → K} (hc : IsConj cj) (a : K) (u v : List K) :
    (lincomb a u v).map cj = lincomb (cj a) (u.map cj) (v.map cj) := by
  induction u generalizing v with
  | nil => simp [lincomb_nil_left]
  | cons p u ih =>
    cases v with
    | nil => simp [lincomb_nil_right]
    | cons q v =>
      simp only [lincomb_cons, List.map_cons, ih v, hc.add, hc.mul]

theorem replicate_lincomb (a : K) (n : Nat) :
    lincomb a (List.replicate n (0 : K)) (List.replicate n 0) = List.replicate n 0 := by
  induction n with
  | zero => simp [lincomb_nil_left]
  | succ n ih => simp only [List.replicate_succ, lincomb_cons, ih]; congr 1; ring

/-- The length of the output depends only on the length of the input. -/
theorem denote_length_congr (cj : K → K) (t : Term K) :
    ∀ x y : List K, x.length = y.length → (denote cj t x).length = (denote cj t y).length := by
  induction t with
  | id => intro x y h; simpa [denote] using h
  | zero n => intro x y h; simp [denote]
  | mulField a => intro x y h; simp [denote, vmul, h]
  | matrix rows => intro x y h; simp [denote]
  | add s t ihs iht => intro x y h; simp [denote, vadd, ihs x y h, iht x y h]
  | sub s t ihs iht => intro x y h; simp [denote, vsub, ihs x y h, iht x y h]
  | comp s t ihs iht => intro x y h; simp only [denote]; exact ihs _ _ (iht x y h)
  | scale c t ih => intro x y h; simp [denote, smul, ih x y h]
  | conj => intro x y h; simp [denote, h]

theorem parity_add {s t : Term K} {b : Bool} (h : parity (.add s t) = some b) :
    parity s = some b ∧ parity t = some b := by
  simp only [parity] at h
  cases hs : parity s <;> cases ht : parity t <;> simp [hs, ht] at h
  obtain ⟨h1, h2⟩ := h
  subst h1 h2
  exact ⟨rfl, rfl⟩

theorem parity_sub {s t : Term K} {b : Bool} (h : parity (.sub s t) = some b) :
    parity s = some b ∧ parity t = some b := by
  simp only [parity] at h
  cases hs : parity s <;> cases ht : parity t <;> simp [hs, ht] at h
  obtain ⟨h1, h2⟩ := h
  subst h1 h2
  exact ⟨rfl, rfl⟩

theorem parity_comp {s t : Term K} {b : Bool} (h : parity (.comp s t) = some b) :
    ∃ b1 b2, parity s = some b1 ∧ parity t = some b2 ∧ b = (b1 != b2) := by
  simp only [parity] at h
  cases hs : parity s <;> cases ht : parity t <;> simp [hs, ht] at h
  exact ⟨_, _, rfl, rfl, h.symm⟩

theorem twist_twist {cj : K → K} (hc : IsConj cj) (b1 b2 : Bool) (a : K) :
    twist cj b1 (twist cj b2 a) = twist cj (b1 != b2) a := by
  cases b1 <;> cases b2 <;> simp [twist, hc.invol]

/-- **Semilinearity of every term with a definite parity**, by structural induction. -/
theorem denote_semilinear {cj : K → K} (hc : IsConj cj) (t : Term K) :
    ∀ (b : Bool), parity t = some b → ∀ (a : K) (x y : List K), x.length = y.length →
      denote cj t (lincomb a x y) = lincomb (twist cj b a) (denote cj t x) (denote cj t y) := by
  induction t with
  | id =>
    intro b hb a x y h
    simp only [parity, Option.some.injEq] at hb; subst hb
    simp [denote, twist]
  | zero n =>
    intro b hb a x y h
    simp only [denote, replicate_lincomb]
  | mulField m =>
    intro b hb a x y h
    simp only [parity, Option.some.injEq] at hb; subst hb
    simp only [denote, twist, vmul_lincomb]; rfl
  | matrix rows =>
    intro b hb a x y h
    simp only [parity, Option.some.injEq] at hb; subst hb
    simp only [denote, twist, matrix_lincomb rows a x y h]; rfl
  | add s t ihs iht =>
    intro b hb a x y h
    obtain ⟨h1, h2⟩ := parity_add hb
    simp only [denote, ihs b h1 a x y h, iht b h2 a x y h, vadd_lincomb]
  | sub s t ihs iht =>
    intro b hb a x y h
    obtain ⟨h1, h2⟩ := parity_sub hb
    simp only [denote, ihs b h1 a x y h, iht b h2 a x y h, vsub_lincomb]
  | comp s t ihs iht =>
    intro b hb a x y h
    obtain ⟨b1, b2, h1, h2, hb'⟩ := parity_comp hb
    subst hb'
    simp only [denote, iht b2 h2 a x y h]
    rw [ihs b1 h1 _ _ _ (denote_length_congr cj t x y h), twist_twist hc]
  | scale c t ih =>
    intro b hb a x y h
    simp only [parity] at hb
    simp only [denote, ih b hb a x y h, smul_lincomb]
  | conj =>
    intro b hb a x y h
    simp only [parity, Option.some.injEq] at hb; subst hb
    simp only [denote, twist, conj_lincomb hc]; rfl

/-- **Component-wise application of a (conjugate-)linear term is (conjugate-)linear** on the whole
polarised field. -/
theorem denoteBlocks_semilinear {cj : K → K} (hc : IsConj cj) (t : Term K) (b : Bool) (hb : parity t = some b)
    (n : Nat) (a : K) : ∀ (r : Nat) (x y : List K), x.length = y.length →
      denoteBlocks cj t n r (lincomb a x y)
        = lincomb (twist cj b a) (denoteBlocks cj t n r x) (denoteBlocks cj t n r y) := by
  intro r
  induction r with
  | zero => intro x y _; simp [denoteBlocks, lincomb, vadd, smul]
  | succ r ih =>
    intro x y h
    have ht : (lincomb a x y).take n = lincomb a (x.take n) (y.take n) := by
      simp [lincomb, vadd, smul, List.take_zipWith, List.map_take]
    have hd : (lincomb a x y).drop n = lincomb a (x.drop n) (y.drop n) := by
      simp [lincomb, vadd, smul, List.drop_zipWith, List.map_drop]
    have hlt : (x.take n).length = (y.take n).length := by simp [List.length_take, h]
    have hld : (x.drop n).length = (y.drop n).length := by simp [List.length_drop, h]
    have hlen : (denote cj t (x.take n)).length = (denote cj t (y.take n)).length :=
      denote_length_congr cj t _ _ hlt
    simp only [denoteBlocks, ht, hd, denote_semilinear hc t b hb a _ _ hlt, ih _ _ hld]
    simp only [lincomb, vadd, smul, List.map_append]
    rw [List.zipWith_append (by simpa using hlen)]

theorem denoteBlocks_length_congr (cj : K → K) (t : Term K) (n : Nat) :
    ∀ (r : Nat) (x y : List K), x.length = y.length →
      (denoteBlocks cj t n r x).length = (denoteBlocks cj t n r y).length := by
  intro r
  induction r with
  | zero => intro x y _; rfl
  | succ r ih =>
    intro x y h
    simp only [denoteBlocks, List.length_append]
    rw [denote_length_congr cj t (x.take n) (y.take n) (by simp [List.length_take, h]),
      ih (x.drop n) (y.drop n) (by simp [List.length_drop, h])]

open Old in
theorem sumsq_smul (a : Rat) (x : List Rat) : sumsq (smul a x) = a * a * sumsq x := by
  induction x with
  | nil => simp [sumsq, smul]
  | cons c x ih =>
    simp only [sumsq, smul, List.map_cons, List.sum_cons] at ih ⊢
    rw [ih]; ring

/-! ## The driver's scalars: dyadic arithmetic is rational arithmetic, and a run at `CDy` is a run at `ℂ` -/

namespace Dy

theorem toRat_eq (a : Dy) : a.toRat = (a.m : ℚ) / (2 : ℚ) ^ a.e := by
  simp [toRat, Rat.mkRat_eq_div]

theorem align_div (a : Dy) (e : Nat) (h : a.e ≤ e) : ((a.align e : Int) : ℚ) / (2 : ℚ) ^ e = a.toRat := by
  rw [toRat_eq]
  have he : e = a.e + (e - a.e) := by omega
  have h2 : (2 : ℚ) ^ e = 2 ^ a.e * 2 ^ (e - a.e) := by rw [← pow_add, ← he]
  simp only [align]
  push_cast
  rw [h2]
  field_simp

theorem toRat_add (a b : Dy) : (a + b).toRat = a.toRat + b.toRat := by
  show Dy.toRat ⟨a.align (max a.e b.e) + b.align (max a.e b.e), max a.e b.e⟩ = _
  rw [← align_div a (max a.e b.e) (le_max_left _ _), ← align_div b (max a.e b.e) (le_max_right _ _), toRat_eq]
  push_cast
  ring

theorem toRat_sub (a b : Dy) : (a - b).toRat = a.toRat - b.toRat := by
  show Dy.toRat ⟨a.align (max a.e b.e) - b.align (max a.e b.e), max a.e b.e⟩ = _
  rw [← align_div a (max a.e b.e) (le_max_left _ _), ← align_div b (max a.e b.e) (le_max_right _ _), toRat_eq]
  push_cast
  ring

theorem toRat_mul (a b : Dy) : (a * b).toRat = a.toRat * b.toRat := by
  show Dy.toRat ⟨a.m * b.m, a.e + b.e⟩ = _
  simp only [toRat_eq]
  push_cast
  rw [pow_add]
  field_simp

theorem toRat_zero : (0 : Dy).toRat = 0 := by
  show Dy.toRat ⟨0, 0⟩ = 0
  simp [toRat_eq]

theorem toRat_neg (a : Dy) : a.neg.toRat = -a.toRat := by
  simp only [neg, toRat_eq]; push_cast; ring

end Dy

section Hom
variable {K L : Type} [Add K] [Sub K] [Mul K] [Zero K] [CommRing L]

/-- `φ` respects the operations `denote` uses. -/
structure ScalarHom (φ : K → L) (cjK : K → K) (cjL : L → L) : Prop where
  add : ∀ a b, φ (a + b) = φ a + φ b
  sub : ∀ a b, φ (a - b) = φ a - φ b
  mul : ∀ a b, φ (a * b) = φ a * φ b
  zero : φ 0 = 0
  conj : ∀ a, φ (cjK a) = cjL (φ a)

variable {φ : K → L} {cjK : K → K} {cjL : L → L}

theorem map_vadd (h : ScalarHom φ cjK cjL) (x y : List K) : (vadd x y).map φ = vadd (x.map φ) (y.map φ) := by
  induction x generalizing y with
  | nil => simp [vadd]
  | cons a x ih => cases y with
    | nil => simp [vadd]
    | cons b y => simp only [vadd, List.zipWith_cons_cons, List.map_cons, h.add] at ih ⊢; rw [ih]

theorem map_vsub (h : ScalarHom φ cjK cjL) (x y : List K) : (vsub x y).map φ = vsub (x.map φ) (y.map φ) := by
  induction x generalizing y with
  | nil => simp [vsub]
  | cons a x ih => cases y with
    | nil => simp [vsub]
    | cons b y => simp only [vsub, List.zipWith_cons_cons, List.map_cons, h.sub] at ih ⊢; rw [ih]

theorem map_vmul (h : ScalarHom φ cjK cjL) (x y : List K) : (vmul x y).map φ = vmul (x.map φ) (y.map φ) := by
  induction x generalizing y with
  | nil => simp [vmul]
  | cons a x ih => cases y with
    | nil => simp [vmul]
    | cons b y => simp only [vmul, List.zipWith_cons_cons, List.map_cons, h.mul] at ih ⊢; rw [ih]

theorem map_smul (h : ScalarHom φ cjK cjL) (a : K) (x : List K) : (smul a x).map φ = smul (φ a) (x.map φ) := by
  simp [smul, List.map_map, Function.comp_def, h.mul]

theorem map_dot (h : ScalarHom φ cjK cjL) (r x : List K) : φ (dot r x) = dot (r.map φ) (x.map φ) := by
  induction r generalizing x with
  | nil => simp [dot, h.zero]
  | cons a r ih => cases x with
    | nil => simp [dot, h.zero]
    | cons b x => simp [dot, h.add, h.mul, ih]

/-- **Change of scalars commutes with `denote`.** -/
theorem denote_map (h : ScalarHom φ cjK cjL) (t : Term K) :
    ∀ x : List K, (denote cjK t x).map φ = denote cjL (t.map φ) (x.map φ) := by
  induction t with
  | id => intro x; rfl
  | zero n => intro x; simp [denote, Term.map, h.zero]
  | mulField a => intro x; simp [denote, Term.map, map_vmul h]
  | matrix rows => intro x; simp [denote, Term.map, List.map_map, Function.comp_def, map_dot h]
  | add s t ihs iht => intro x; simp [denote, Term.map, map_vadd h, ihs, iht]
  | sub s t ihs iht => intro x; simp [denote, Term.map, map_vsub h, ihs, iht]
  | comp s t ihs iht => intro x; simp [denote, Term.map, ihs, iht]
  | scale c t ih => intro x; simp [denote, Term.map, map_smul h, ih]
  | conj => intro x; simp [denote, Term.map, List.map_map, Function.comp_def, h.conj]

theorem denoteBlocks_map (h : ScalarHom φ cjK cjL) (t : Term K) (n : Nat) :
    ∀ (r : Nat) (x : List K), (denoteBlocks cjK t n r x).map φ = denoteBlocks cjL (t.map φ) n r (x.map φ) := by
  intro r
  induction r with
  | zero => intro x; rfl
  | succ r ih =>
    intro x
    simp only [denoteBlocks, List.map_append, denote_map h, ih, List.map_take, List.map_drop]

theorem parity_map {K L : Type} (f : K → L) (t : Term K) : parity (t.map f) = parity t := by
  induction t with
  | add s t ihs iht => simp [Term.map, parity, ihs, iht]
  | sub s t ihs iht => simp [Term.map, parity, ihs, iht]
  | comp s t ihs iht => simp [Term.map, parity, ihs, iht]
  | scale c t ih => simp [Term.map, parity, ih]
  | _ => rfl

end Hom

/-- the complex number a Gaussian dyadic stands for -/
noncomputable def CDy.toComplex (z : CDy) : ℂ := ⟨(z.re.toRat : ℝ), (z.im.toRat : ℝ)⟩

theorem CDy.scalarHom : ScalarHom CDy.toComplex CDy.conj (starRingEnd ℂ) := by
  refine ⟨?_, ?_, ?_, ?_, ?_⟩
  · intro a b
    apply Complex.ext <;> simp [CDy.toComplex, show (a + b).re = a.re + b.re from rfl, show (a + b).im = a.im + b.im from rfl, Dy.toRat_add]
  · intro a b
    apply Complex.ext <;> simp [CDy.toComplex, show (a - b).re = a.re - b.re from rfl, show (a - b).im = a.im - b.im from rfl, Dy.toRat_sub]
  · intro a b
    apply Complex.ext <;> simp [CDy.toComplex, show (a * b).re = a.re * b.re - a.im * b.im from rfl,
      show (a * b).im = a.re * b.im + a.im * b.re from rfl, Dy.toRat_add, Dy.toRat_sub, Dy.toRat_mul]
  · apply Complex.ext <;> simp [CDy.toComplex, show (0 : CDy).re = 0 from rfl, show (0 : CDy).im = 0 from rfl, Dy.toRat_zero]
  · intro a
    apply Complex.ext <;> simp [CDy.toComplex, CDy.conj, Dy.toRat_neg]

end HcipyVerif.OpIR
