import HcipyVerif.Model.Interp
import HcipyVerif.Lemmas.Binning
import Mathlib.Algebra.Order.Field.Basic
import Mathlib.Tactic.Linarith
import Mathlib.Tactic.Ring
import Mathlib.Tactic.FieldSimp

/-! Helper lemmas for the interpolation models (C18). -/
set_option linter.unusedSimpArgs false
set_option linter.unusedVariables false
set_option linter.unusedSectionVars false

namespace HcipyVerif.Interp
open HcipyVerif.Binning

variable {K : Type} [Field K] [LinearOrder K] [IsStrictOrderedRing K]

/-- strictly increasing knots -/
def StrictInc : List K → Prop
  | a :: b :: rest => a < b ∧ StrictInc (b :: rest)
  | _ => True

/-- the point lies between the first and the last knot of every axis (in either order: the
knots may ascend or descend) -/
def InDomain : List (List K) → List K → Prop
  | [], [] => True
  | ax :: axes, x :: p =>
    (∃ a b, ax.head? = some a ∧ ax.getLast? = some b ∧ ((a ≤ x ∧ x ≤ b) ∨ (b ≤ x ∧ x ≤ a))) ∧ InDomain axes p
  | _, _ => False

/-- strictly decreasing knots -/
def StrictDec : List K → Prop
  | a :: b :: rest => b < a ∧ StrictDec (b :: rest)
  | _ => True

/-- strictly monotone knots: ascending or descending (what `RegularGridInterpolator` accepts) -/
def StrictMono (l : List K) : Prop := StrictInc l ∨ StrictDec l

theorem inLo_inc {a b : K} (h : a < b) (x : K) : inLo a b x = decide (a ≤ x) := by
  simp [inLo, le_of_lt h]

theorem inHi_inc {a b : K} (h : a < b) (x : K) : inHi a b x = decide (x ≤ b) := by
  simp [inHi, le_of_lt h]

theorem inLo_dec {a b : K} (h : b < a) (x : K) : inLo a b x = decide (x ≤ a) := by
  simp [inLo, not_le.mpr h]

theorem inHi_dec {a b : K} (h : b < a) (x : K) : inHi a b x = decide (b ≤ x) := by
  simp [inHi, not_le.mpr h]

theorem strictDec_neg : ∀ (l : List K), StrictDec l → StrictInc (l.map fun t => -t) := by
  intro l
  induction l with
  | nil => intro _; trivial
  | cons a l ih =>
    intro h
    cases l with
    | nil => trivial
    | cons b rest => exact ⟨neg_lt_neg h.1, ih h.2⟩

theorem lerp_neg (a b va vb x : K) : lerp (-a) (-b) va vb (-x) = lerp a b va vb x := by
  unfold lerp
  have h1 : -x - -a = -(x - a) := by ring
  have h2 : -b - -a = -(b - a) := by ring
  rw [h1, h2, mul_neg, neg_div_neg_eq]

theorem knot_gt : ∀ (b : K) (l : List K), StrictInc (b :: l) → ∀ y ∈ l, b < y := by
  intro b l
  induction l generalizing b with
  | nil => intro _ y hy; simp at hy
  | cons c l ih =>
    intro hs y hy
    rcases List.mem_cons.mp hy with rfl | h
    · exact hs.1
    · exact lt_trans hs.1 (ih c hs.2 y h)

theorem lerp_affine (a b A c x : K) (h : a ≠ b) :
    lerp a b (A + c * a) (A + c * b) x = A + c * x := by
  have : b - a ≠ 0 := sub_ne_zero.mpr (Ne.symm h)
  unfold lerp
  field_simp
  ring

theorem dot_cons (c x : K) (cs p : List K) : dot (c :: cs) (x :: p) = c * x + dot cs p := by
  simp [dot]

theorem affine_cons (c0 c x : K) (cs p : List K) :
    affine c0 (c :: cs) (x :: p) = affine (c0 + c * x) cs p := by
  simp [affine, dot_cons]; ring

theorem affine_nil (c0 : K) : affine c0 [] [] = c0 := by simp [affine, dot]

theorem sampleAffine_length (axes : List (List K)) (c0 : K) (cs : List K)
    (h : cs.length = axes.length) :
    (sampleAffine axes c0 cs).length = size (axes.map List.length) := by
  induction axes generalizing c0 cs with
  | nil => simp [sampleAffine, size]
  | cons ax rest ih =>
    cases cs with
    | nil => simp at h
    | cons c cs =>
      simp only [List.length_cons, Nat.add_right_cancel_iff] at h
      simp only [sampleAffine, List.length_flatMap, List.map_cons, size_cons]
      rw [List.map_congr_left (fun t _ => ih (c0 + c * t) cs h)]
      simp

/-- one axis of the tensor-product interpolant reproduces a function that is affine along
that axis -/
theorem interpAxis_affine (ext : Bool) (m : Nat) (rec : List K → Option K) (A c x : K)
    (g : K → List K) (hg : ∀ t, (g t).length = m) (hrec : ∀ t, rec (g t) = some (A + c * t)) :
    ∀ (rest : List K) (a b : K) (first : Bool), StrictInc (a :: b :: rest) →
      ((first = true ∧ ext = true) ∨ a ≤ x) →
      (ext = true ∨ x ≤ (b :: rest).getLast (by simp)) →
      interpAxis ext m rec first (a :: b :: rest) ((a :: b :: rest).flatMap g) x = some (A + c * x) := by
  intro rest
  induction rest with
  | nil =>
    intro a b first hs hlo hhi
    have hab : a ≠ b := ne_of_lt hs.1
    have hc : (((ext && first) || decide (a ≤ x)) && ((ext && true) || decide (x ≤ b))) = true := by
      have h1 : ((ext && first) || decide (a ≤ x)) = true := by
        rcases hlo with ⟨hf, he⟩ | h
        · simp [hf, he]
        · simp [h]
      have h2 : ((ext && true) || decide (x ≤ b)) = true := by
        rcases hhi with he | h
        · simp [he]
        · simp at h; simp [h]
      rw [h1, h2]; rfl
    simp only [interpAxis, inLo_inc hs.1, inHi_inc hs.1, List.isEmpty_nil, hc, if_true, List.flatMap_cons,
      List.flatMap_nil, List.append_nil]
    rw [List.take_left' (hg a), List.drop_left' (hg a), List.take_of_length_le (le_of_eq (hg b)),
      hrec a, hrec b]
    simp [lerp_affine a b A c x hab]
  | cons k rest ih =>
    intro a b first hs hlo hhi
    have hab : a ≠ b := ne_of_lt hs.1
    have h1 : ((ext && first) || decide (a ≤ x)) = true := by
      rcases hlo with ⟨hf, he⟩ | h
      · simp [hf, he]
      · simp [h]
    by_cases hxb : x ≤ b
    · have hc : (((ext && first) || decide (a ≤ x)) && ((ext && (k :: rest).isEmpty) || decide (x ≤ b))) = true := by
        simp [h1, hxb]
      simp only [interpAxis, inLo_inc hs.1, inHi_inc hs.1, hc, if_true, List.flatMap_cons]
      rw [List.take_left' (hg a), List.drop_left' (hg a), List.take_left' (hg b), hrec a, hrec b]
      simp [lerp_affine a b A c x hab]
    · have hc : (((ext && first) || decide (a ≤ x)) && ((ext && (k :: rest).isEmpty) || decide (x ≤ b))) = false := by
        simp [hxb]
      have hbx : b ≤ x := le_of_lt (lt_of_not_ge hxb)
      have := ih b k false hs.2 (Or.inr hbx) (by simpa using hhi)
      simp only [interpAxis, inLo_inc hs.1, inHi_inc hs.1, hc, List.flatMap_cons] at this ⊢
      rw [List.drop_left' (hg a)]
      simpa using this

theorem head_getLast_split (ax : List K) (h : 2 ≤ ax.length) :
    ∃ a b rest, ax = a :: b :: rest := by
  match ax, h with
  | a :: b :: rest, _ => exact ⟨a, b, rest, rfl⟩

/-! ### dot products, barycentric combinations -/

theorem dot_nil_left (x : List K) : dot ([] : List K) x = 0 := by simp [dot]

theorem dot_vzero (e : List K) (n : Nat) : dot e (vzero n) = 0 := by
  induction e generalizing n with
  | nil => simp [dot]
  | cons a e ih =>
    cases n with
    | zero => simp [dot, vzero]
    | succ n =>
      have := ih n
      simp only [dot, vzero] at this
      simp [dot, vzero, List.replicate_succ, this]

theorem dot_vadd (e a b : List K) (ha : a.length = e.length) (hb : b.length = e.length) :
    dot e (vadd a b) = dot e a + dot e b := by
  induction e generalizing a b with
  | nil => simp [dot]
  | cons c e ih =>
    cases a with
    | nil => simp at ha
    | cons x a =>
      cases b with
      | nil => simp at hb
      | cons y b =>
        simp only [List.length_cons, Nat.add_right_cancel_iff] at ha hb
        have := ih a b ha hb
        simp only [vadd] at this
        simp only [vadd, List.zipWith_cons_cons, dot_cons, this]
        ring

theorem dot_smul (e v : List K) (l : K) : dot e (v.map (l * ·)) = l * dot e v := by
  induction e generalizing v with
  | nil => simp [dot]
  | cons c e ih =>
    cases v with
    | nil => simp [dot]
    | cons x v => simp only [List.map_cons, dot_cons, ih]; ring

theorem wsum_length (n : Nat) (lam : List K) (verts : List (List K))
    (hv : ∀ v ∈ verts, v.length = n) : (wsum n lam verts).length = n := by
  induction lam generalizing verts with
  | nil => simp [wsum, vzero]
  | cons l lam ih =>
    cases verts with
    | nil => simp [wsum, vzero]
    | cons v verts =>
      simp [wsum, vadd_length, hv v (by simp), ih verts (fun w hw => hv w (by simp [hw]))]

theorem combine_affine (c0 : K) (c : List K) (lam : List K) (verts : List (List K))
    (hlen : lam.length = verts.length) (hv : ∀ v ∈ verts, v.length = c.length) :
    combine lam (verts.map (affine c0 c)) = c0 * lam.sum + dot c (wsum c.length lam verts) := by
  induction lam generalizing verts with
  | nil =>
    cases verts with
    | nil => have := dot_vzero c c.length; simp [combine, wsum, this, dot_nil_left]
    | cons v verts => simp at hlen
  | cons l lam ih =>
    cases verts with
    | nil => simp at hlen
    | cons v verts =>
      simp only [List.length_cons, Nat.add_right_cancel_iff] at hlen
      have hv' : ∀ w ∈ verts, w.length = c.length := fun w hw => hv w (by simp [hw])
      have := ih verts hlen hv'
      simp only [combine] at this
      simp only [combine, List.map_cons, dot_cons, this, wsum, List.sum_cons]
      rw [dot_vadd _ _ _ (by simp [hv v (by simp)]) (wsum_length _ _ _ hv'), dot_smul]
      simp [affine]; ring

/-! ### barycentric coordinates on a `d`-simplex (`baryN`, `linearSimplex`): explicit forms for `d = 1, 2, 3` -/

theorem range2_eq : List.range 2 = [0, 1] := rfl
theorem range3_eq : List.range 3 = [0, 1, 2] := rfl

/-- `2 × 2` determinant with rows `x`, `y` -/
def det2 (x1 x2 y1 y2 : K) : K := x1 * y2 - x2 * y1

/-- `3 × 3` determinant with rows `x`, `y`, `z` -/
def det3 (x1 x2 x3 y1 y2 y3 z1 z2 z3 : K) : K :=
  x1 * (y2 * z3 - y3 * z2) - x2 * (y1 * z3 - y3 * z1) + x3 * (y1 * z2 - y2 * z1)

theorem simplexDet_d1 (a b : K) : simplexDet [[a], [b]] = b - a := by
  simp [simplexDet, edges, vsub, detN, laplace]

theorem simplexDet_d2 (a1 a2 b1 b2 c1 c2 : K) :
    simplexDet [[a1, a2], [b1, b2], [c1, c2]] = det2 (b1 - a1) (b2 - a2) (c1 - a1) (c2 - a2) := by
  simp [simplexDet, edges, vsub, detN, laplace, det2]
  ring

theorem simplexDet_d3 (a1 a2 a3 b1 b2 b3 c1 c2 c3 e1 e2 e3 : K) :
    simplexDet [[a1, a2, a3], [b1, b2, b3], [c1, c2, c3], [e1, e2, e3]] =
      det3 (b1 - a1) (b2 - a2) (b3 - a3) (c1 - a1) (c2 - a2) (c3 - a3) (e1 - a1) (e2 - a2) (e3 - a3) := by
  simp [simplexDet, edges, vsub, detN, laplace, det3]
  ring

/-- `d = 1`: the executed interpolant on a non-degenerate segment, in closed form -/
theorem linearSimplex_eq_d1 (a b va vb x : K) (hdet : simplexDet [[a], [b]] ≠ 0) :
    linearSimplex [[a], [b]] [va, vb] [x] = some (va + (vb - va) * (x - a) / (b - a)) := by
  rw [simplexDet_d1] at hdet
  have hD : detN 1 [[b - a]] = b - a := by simp [detN, laplace]
  simp only [linearSimplex, baryN, edges, vsub, cramer, List.map, List.zipWith, List.length, List.all_cons, List.all_nil, List.set]
  simp [hD, hdet]
  simp only [List.range_one, List.map, List.set, detN, laplace, List.eraseIdx, List.sum_cons, List.sum_nil, wsum, vadd, vzero,
    List.zipWith, List.replicate, Nat.cast_one, combine, dot]
  have h2 : -a + b ≠ 0 := by rwa [neg_add_eq_sub]
  refine ⟨?_, ?_⟩
  · simp only [List.cons.injEq, and_true]
    field_simp
    ring
  · field_simp
    ring

/-- `d = 2`: the executed interpolant on a non-degenerate triangle, in closed form (Cramer) -/
theorem linearSimplex_eq_d2 (a1 a2 b1 b2 c1 c2 va vb vc p1 p2 : K)
    (hdet : simplexDet [[a1, a2], [b1, b2], [c1, c2]] ≠ 0) :
    linearSimplex [[a1, a2], [b1, b2], [c1, c2]] [va, vb, vc] [p1, p2] =
      some (va + ((vb - va) * det2 (p1 - a1) (p2 - a2) (c1 - a1) (c2 - a2)
                + (vc - va) * det2 (b1 - a1) (b2 - a2) (p1 - a1) (p2 - a2))
              / det2 (b1 - a1) (b2 - a2) (c1 - a1) (c2 - a2)) := by
  rw [simplexDet_d2] at hdet
  have hD : detN 2 [[b1 - a1, b2 - a2], [c1 - a1, c2 - a2]] = det2 (b1 - a1) (b2 - a2) (c1 - a1) (c2 - a2) := by
    simp [detN, laplace, det2]; ring
  simp only [linearSimplex, baryN, edges, vsub, cramer, List.map, List.zipWith, List.length, List.all_cons, List.all_nil, List.set]
  simp [hD, hdet]
  simp only [range2_eq, List.map, List.set, detN, laplace, List.eraseIdx, List.sum_cons, List.sum_nil, wsum, vadd, vzero,
    List.zipWith, List.replicate, Nat.cast_one, combine, dot]
  generalize hd : det2 (b1 - a1) (b2 - a2) (c1 - a1) (c2 - a2) = d at hdet ⊢
  unfold det2 at hd ⊢
  refine ⟨?_, ?_⟩
  · simp only [List.cons.injEq, and_true]
    refine ⟨?_, ?_⟩ <;>
    · field_simp
      rw [← hd]; ring
  · field_simp
    ring

/-- `d = 3`: the executed interpolant on a non-degenerate tetrahedron, in closed form (Cramer) -/
theorem linearSimplex_eq_d3 (a1 a2 a3 b1 b2 b3 c1 c2 c3 e1 e2 e3 va vb vc ve p1 p2 p3 : K)
    (hdet : simplexDet [[a1, a2, a3], [b1, b2, b3], [c1, c2, c3], [e1, e2, e3]] ≠ 0) :
    linearSimplex [[a1, a2, a3], [b1, b2, b3], [c1, c2, c3], [e1, e2, e3]] [va, vb, vc, ve] [p1, p2, p3] =
      some (va + ((vb - va) * det3 (p1 - a1) (p2 - a2) (p3 - a3) (c1 - a1) (c2 - a2) (c3 - a3) (e1 - a1) (e2 - a2) (e3 - a3)
                + (vc - va) * det3 (b1 - a1) (b2 - a2) (b3 - a3) (p1 - a1) (p2 - a2) (p3 - a3) (e1 - a1) (e2 - a2) (e3 - a3)
                + (ve - va) * det3 (b1 - a1) (b2 - a2) (b3 - a3) (c1 - a1) (c2 - a2) (c3 - a3) (p1 - a1) (p2 - a2) (p3 - a3))
              / det3 (b1 - a1) (b2 - a2) (b3 - a3) (c1 - a1) (c2 - a2) (c3 - a3) (e1 - a1) (e2 - a2) (e3 - a3)) := by
  rw [simplexDet_d3] at hdet
  have hD : detN 3 [[b1 - a1, b2 - a2, b3 - a3], [c1 - a1, c2 - a2, c3 - a3], [e1 - a1, e2 - a2, e3 - a3]] =
      det3 (b1 - a1) (b2 - a2) (b3 - a3) (c1 - a1) (c2 - a2) (c3 - a3) (e1 - a1) (e2 - a2) (e3 - a3) := by
    simp [detN, laplace, det3]; ring
  simp only [linearSimplex, baryN, edges, vsub, cramer, List.map, List.zipWith, List.length, List.all_cons, List.all_nil, List.set]
  simp [hD, hdet]
  simp only [range3_eq, List.map, List.set, detN, laplace, List.eraseIdx, List.sum_cons, List.sum_nil, wsum, vadd, vzero,
    List.zipWith, List.replicate, Nat.cast_one, combine, dot]
  generalize hd : det3 (b1 - a1) (b2 - a2) (b3 - a3) (c1 - a1) (c2 - a2) (c3 - a3) (e1 - a1) (e2 - a2) (e3 - a3) = d at hdet ⊢
  unfold det3 at hd ⊢
  refine ⟨?_, ?_⟩
  · simp only [List.cons.injEq, and_true]
    refine ⟨?_, ?_, ?_⟩ <;>
    · field_simp
      rw [← hd]; ring
  · field_simp
    ring

/-- dropping a vertex whose weight is zero does not change the weighted sum of the weights … -/
theorem sum_eraseIdx_zero : ∀ (lam : List K) (i : Nat), lam[i]? = some 0 → (lam.eraseIdx i).sum = lam.sum := by
  intro lam
  induction lam with
  | nil => intro i h; simp at h
  | cons l lam ih =>
    intro i h
    cases i with
    | zero => simp at h; simp [h]
    | succ i => simp at h; simp [ih i h]

/-- … nor the weighted sum of the vertices -/
theorem wsum_eraseIdx_zero (n : Nat) : ∀ (lam : List K) (verts : List (List K)) (i : Nat), lam[i]? = some 0 →
    (∀ v ∈ verts, v.length = n) → lam.length = verts.length →
    wsum n (lam.eraseIdx i) (verts.eraseIdx i) = wsum n lam verts := by
  intro lam
  induction lam with
  | nil => intro verts i h; simp at h
  | cons l lam ih =>
    intro verts i h hv hl
    cases verts with
    | nil => simp at hl
    | cons v verts =>
      have hv' : ∀ w ∈ verts, w.length = n := fun w hw => hv w (by simp [hw])
      simp only [List.length_cons, Nat.add_right_cancel_iff] at hl
      cases i with
      | zero =>
        simp at h
        subst h
        simp only [List.eraseIdx_zero, List.tail_cons, wsum]
        have hz : v.map (fun x => (0 : K) * x) = vzero n := by
          have := hv v (by simp)
          subst this
          simp [vzero, List.eq_replicate_iff]
        rw [hz, vadd_vzero_left n _ (wsum_length n lam verts hv')]
      | succ i =>
        simp at h
        simp only [List.eraseIdx_cons_succ, wsum, ih verts i h hv' hl]

/-- the flat index of a fine pixel is `i·n + j` (coarse pixel `i`, sub-pixel `j`) -/
theorem range_mul_eq_flatMap (dim n : Nat) :
    List.range (dim * n) = (List.range dim).flatMap fun i => (List.range n).map fun j => i * n + j := by
  induction dim with
  | zero => simp
  | succ d ih =>
    rw [Nat.succ_mul, List.range_add, ih, List.range_succ, List.flatMap_append]
    simp

/-! ### nearest neighbour -/

theorem argminFrom_spec (p : List K) : ∀ (pts : List (List K)) (i0 j : Nat) (d : K),
    argminFrom p i0 pts = some (j, d) →
      (∃ k, j = i0 + k ∧ ∃ h : k < pts.length, dist2 pts[k] p = d) ∧ ∀ q ∈ pts, d ≤ dist2 q p := by
  intro pts
  induction pts with
  | nil => intro i0 j d h; simp [argminFrom] at h
  | cons q pts ih =>
    intro i0 j d h
    simp only [argminFrom] at h
    cases hr : argminFrom p (i0 + 1) pts with
    | none =>
      rw [hr] at h
      simp only [Option.some.injEq, Prod.mk.injEq] at h
      obtain ⟨rfl, rfl⟩ := h
      have hnil : pts = [] := by
        cases pts with
        | nil => rfl
        | cons q' pts' =>
          simp only [argminFrom] at hr
          split at hr <;> (try split at hr) <;> simp at hr
      subst hnil
      exact ⟨⟨0, rfl, by simp, rfl⟩, by simp⟩
    | some r =>
      obtain ⟨j', d'⟩ := r
      rw [hr] at h
      obtain ⟨⟨k, hk, hlt, hd⟩, hmin⟩ := ih (i0 + 1) j' d' hr
      by_cases hle : dist2 q p ≤ d'
      · simp only [hle, if_true, Option.some.injEq, Prod.mk.injEq] at h
        obtain ⟨rfl, rfl⟩ := h
        refine ⟨⟨0, rfl, by simp, rfl⟩, ?_⟩
        intro q' hq'
        rcases List.mem_cons.mp hq' with rfl | hq'
        · exact le_refl _
        · exact le_trans hle (hmin q' hq')
      · simp only [hle, if_false, Option.some.injEq, Prod.mk.injEq] at h
        obtain ⟨rfl, rfl⟩ := h
        refine ⟨⟨k + 1, by omega, by simpa using hlt, by simpa using hd⟩, ?_⟩
        intro q' hq'
        rcases List.mem_cons.mp hq' with rfl | hq'
        · exact le_of_lt (lt_of_not_ge hle)
        · exact hmin q' hq'

theorem knot_lt : ∀ (b : K) (l : List K), StrictDec (b :: l) → ∀ y ∈ l, y < b := by
  intro b l
  induction l generalizing b with
  | nil => intro _ y hy; simp at hy
  | cons c l ih =>
    intro hs y hy
    rcases List.mem_cons.mp hy with rfl | h
    · exact hs.1
    · exact lt_trans (ih c hs.2 y h) hs.1

theorem nearestAxis_inc_cons {a b : K} (h : a < b) (knots : List K) (x : K) :
    nearestAxis (a :: b :: knots) x =
      if (decide (a ≤ x) && decide (x ≤ b)) = true then
        (if (x - a) + (x - a) ≤ b - a then some 0 else some 1)
      else (nearestAxis (b :: knots) x).map (· + 1) := by
  simp only [nearestAxis, inLo_inc h, inHi_inc h, le_of_lt h, if_true]

theorem nearestAxis_dec_cons {a b : K} (h : b < a) (knots : List K) (x : K) :
    nearestAxis (a :: b :: knots) x =
      if (decide (x ≤ a) && decide (b ≤ x)) = true then
        (if (x - b) + (x - b) ≤ a - b then some 1 else some 0)
      else (nearestAxis (b :: knots) x).map (· + 1) := by
  simp only [nearestAxis, inLo_dec h, inHi_dec h, not_le.mpr h, if_false]

theorem nearestAxis_ge_head : ∀ (knots : List K) (a x : K) (i : Nat), StrictInc (a :: knots) →
    nearestAxis (a :: knots) x = some i → a ≤ x := by
  intro knots
  induction knots with
  | nil => intro a x i _ h; simp [nearestAxis] at h
  | cons b rest ih =>
    intro a x i hs h
    by_cases hc : a ≤ x ∧ x ≤ b
    · exact hc.1
    · have hc' : (decide (a ≤ x) && decide (x ≤ b)) = false := by
        simp only [Bool.and_eq_false_iff, decide_eq_false_iff_not]; tauto
      rw [nearestAxis_inc_cons hs.1] at h
      simp only [hc', Bool.false_eq_true, if_false] at h
      cases hr : nearestAxis (b :: rest) x with
      | none => rw [hr] at h; simp at h
      | some j => exact le_trans (le_of_lt hs.1) (ih b x j hs.2 hr)

theorem nearestAxis_le_head : ∀ (knots : List K) (a x : K) (i : Nat), StrictDec (a :: knots) →
    nearestAxis (a :: knots) x = some i → x ≤ a := by
  intro knots
  induction knots with
  | nil => intro a x i _ h; simp [nearestAxis] at h
  | cons b rest ih =>
    intro a x i hs h
    by_cases hc : x ≤ a ∧ b ≤ x
    · exact hc.1
    · have hc' : (decide (x ≤ a) && decide (b ≤ x)) = false := by
        simp only [Bool.and_eq_false_iff, decide_eq_false_iff_not]; tauto
      rw [nearestAxis_dec_cons hs.1] at h
      simp only [hc', Bool.false_eq_true, if_false] at h
      cases hr : nearestAxis (b :: rest) x with
      | none => rw [hr] at h; simp at h
      | some j => exact le_trans (ih b x j hs.2 hr) (le_of_lt hs.1)

/-- interpolation along a descending axis is interpolation along the negated (ascending) axis
at the negated point -/
theorem interpAxis_neg (ext : Bool) (m : Nat) (rec : List K → Option K) :
    ∀ (knots vals : List K) (first : Bool) (x : K), StrictDec knots →
      interpAxis ext m rec first knots vals x
        = interpAxis ext m rec first (knots.map fun t => -t) vals (-x) := by
  intro knots
  induction knots with
  | nil => intro vals first x _; simp [interpAxis]
  | cons a knots ih =>
    intro vals first x hs
    cases knots with
    | nil => simp [interpAxis]
    | cons b rest =>
      have hab : b < a := hs.1
      have hab' : -a < -b := neg_lt_neg hab
      have ih' := ih (vals.drop m) false x hs.2
      simp only [List.map_cons] at ih' ⊢
      rw [interpAxis, interpAxis]
      simp only [inLo_dec hab, inHi_dec hab, inLo_inc hab', inHi_inc hab', neg_le_neg_iff, lerp_neg,
        List.isEmpty_map]
      rw [ih']

/-- one axis, strictly *decreasing* knots -/
theorem interpAxis_affine_dec (ext : Bool) (m : Nat) (rec : List K → Option K) (A c x : K)
    (g : K → List K) (hg : ∀ t, (g t).length = m) (hrec : ∀ t, rec (g t) = some (A + c * t))
    (rest : List K) (a b : K) (first : Bool) (hs : StrictDec (a :: b :: rest))
    (hlo : (first = true ∧ ext = true) ∨ x ≤ a)
    (hhi : ext = true ∨ (b :: rest).getLast (by simp) ≤ x) :
    interpAxis ext m rec first (a :: b :: rest) ((a :: b :: rest).flatMap g) x = some (A + c * x) := by
  rw [interpAxis_neg ext m rec _ _ first x hs]
  have key := interpAxis_affine ext m rec A (-c) (-x) (fun t => g (-t)) (fun t => hg (-t))
    (fun t => by rw [hrec (-t)]; congr 1; ring) (rest.map fun t => -t) (-a) (-b) first
    (by simpa using strictDec_neg _ hs)
    (by rcases hlo with h | h
        · exact Or.inl h
        · exact Or.inr (neg_le_neg h))
    (by rcases hhi with h | h
        · exact Or.inl h
        · right
          have : ((-b) :: rest.map fun t => -t).getLast (by simp) = -((b :: rest).getLast (by simp)) := by
            have := List.getLast_map (f := fun t : K => -t) (l := b :: rest) (by simp)
            simpa using this
          rw [this]; exact neg_le_neg h)
  have e : ((-a) :: (-b) :: rest.map fun t => -t).flatMap (fun t => g (-t)) = (a :: b :: rest).flatMap g := by
    simp [List.flatMap_map]
  rw [e] at key
  simp only [List.map_cons]
  rw [key]; congr 1; ring

/-- the tensor-product interpolant of an affine function sampled on the grid is that function;
every axis may ascend or descend independently -/
theorem interpFlat_affine (ext : Bool) (axes : List (List K)) (c0 : K) (cs p : List K)
    (hc : cs.length = axes.length) (hp : p.length = axes.length)
    (hax : ∀ ax ∈ axes, 2 ≤ ax.length ∧ StrictMono ax)
    (hin : ext = true ∨ InDomain axes p) :
    interpFlat ext axes (sampleAffine axes c0 cs) p = some (affine c0 cs p) := by
  induction axes generalizing c0 cs p with
  | nil =>
    cases cs <;> cases p <;> simp_all [interpFlat, sampleAffine, affine, dot]
  | cons ax rest ih =>
    cases cs with
    | nil => simp at hc
    | cons c cs =>
      cases p with
      | nil => simp at hp
      | cons x p =>
        simp only [List.length_cons, Nat.add_right_cancel_iff] at hc hp
        obtain ⟨h2, hs⟩ := hax ax (by simp)
        obtain ⟨a, b, knots, rfl⟩ := head_getLast_split ax h2
        have hrest : ∀ ax ∈ rest, 2 ≤ ax.length ∧ StrictMono ax := fun ax h => hax ax (by simp [h])
        have hin' : ext = true ∨ InDomain rest p := by
          rcases hin with h | h
          · exact Or.inl h
          · exact Or.inr h.2
        have hrec : ∀ t, (fun v => interpFlat ext rest v p) (sampleAffine rest (c0 + c * t) cs)
            = some (affine c0 cs p + c * t) := by
          intro t
          simp only
          rw [ih (c0 + c * t) cs p hc hp hrest hin']
          simp [affine]; ring
        have hlast : (a :: b :: knots).getLast? = some ((b :: knots).getLast (by simp)) := by
          simp [List.getLast?_eq_some_getLast, List.getLast_cons]
        have hmem : (b :: knots).getLast (by simp) ∈ b :: knots := List.getLast_mem _
        simp only [interpFlat, sampleAffine, affine_cons]
        rcases hs with hs | hs
        · rw [interpAxis_affine ext _ _ (affine c0 cs p) c x (fun t => sampleAffine rest (c0 + c * t) cs)
            (fun t => sampleAffine_length rest _ cs hc) hrec knots a b true hs]
          · simp [affine]; ring
          · rcases hin with h | h
            · exact Or.inl ⟨rfl, h⟩
            · obtain ⟨⟨a', b', ha, hb, hbt⟩, _⟩ := h
              simp at ha; subst ha
              rw [hlast] at hb; simp only [Option.some.injEq] at hb; subst hb
              have hlt := knot_gt a (b :: knots) hs _ hmem
              rcases hbt with h1 | h1
              · exact Or.inr h1.1
              · exact absurd (lt_of_lt_of_le hlt (le_trans h1.1 h1.2)) (lt_irrefl _)
          · rcases hin with h | h
            · exact Or.inl h
            · obtain ⟨⟨a', b', ha, hb, hbt⟩, _⟩ := h
              simp at ha; subst ha
              rw [hlast] at hb; simp only [Option.some.injEq] at hb; subst hb
              have hlt := knot_gt a (b :: knots) hs _ hmem
              rcases hbt with h1 | h1
              · exact Or.inr h1.2
              · exact absurd (lt_of_lt_of_le hlt (le_trans h1.1 h1.2)) (lt_irrefl _)
        · rw [interpAxis_affine_dec ext _ _ (affine c0 cs p) c x (fun t => sampleAffine rest (c0 + c * t) cs)
            (fun t => sampleAffine_length rest _ cs hc) hrec knots a b true hs]
          · simp [affine]; ring
          · rcases hin with h | h
            · exact Or.inl ⟨rfl, h⟩
            · obtain ⟨⟨a', b', ha, hb, hbt⟩, _⟩ := h
              simp at ha; subst ha
              rw [hlast] at hb; simp only [Option.some.injEq] at hb; subst hb
              have hlt := knot_lt a (b :: knots) hs _ hmem
              rcases hbt with h1 | h1
              · exact absurd (lt_of_lt_of_le hlt (le_trans h1.1 h1.2)) (lt_irrefl _)
              · exact Or.inr h1.2
          · rcases hin with h | h
            · exact Or.inl h
            · obtain ⟨⟨a', b', ha, hb, hbt⟩, _⟩ := h
              simp at ha; subst ha
              rw [hlast] at hb; simp only [Option.some.injEq] at hb; subst hb
              have hlt := knot_lt a (b :: knots) hs _ hmem
              rcases hbt with h1 | h1
              · exact absurd (lt_of_lt_of_le hlt (le_trans h1.1 h1.2)) (lt_irrefl _)
              · exact Or.inr h1.1

/-- the grid point with per-axis indices `idx` -/
def pointAt : List (List K) → List Nat → List K
  | ax :: axes, i :: idx => ax.getD i 0 :: pointAt axes idx
  | _, _ => []

theorem dist2_cons (t x : K) (q p : List K) : dist2 (t :: q) (x :: p) = (t - x) * (t - x) + dist2 q p := by
  simp [dist2]

/-! ### nearest neighbour on separated grids: definedness, index → grid point -/

theorem nearestAxis_defined_inc : ∀ (rest : List K) (a b x : K), StrictInc (a :: b :: rest) →
    a ≤ x → x ≤ (b :: rest).getLast (by simp) → ∃ i, nearestAxis (a :: b :: rest) x = some i := by
  intro rest
  induction rest with
  | nil =>
    intro a b x hs h1 h2
    simp only [List.getLast_singleton] at h2
    rw [nearestAxis_inc_cons hs.1]
    simp only [h1, h2, decide_true, Bool.and_self, if_true]
    split_ifs <;> exact ⟨_, rfl⟩
  | cons c rest ih =>
    intro a b x hs h1 h2
    rw [nearestAxis_inc_cons hs.1]
    by_cases hb : x ≤ b
    · simp only [h1, hb, decide_true, Bool.and_self, if_true]
      split_ifs <;> exact ⟨_, rfl⟩
    · have hb' : b ≤ x := le_of_lt (not_le.mp hb)
      obtain ⟨i, hi⟩ := ih b c x hs.2 hb' (by simpa [List.getLast_cons] using h2)
      exact ⟨i + 1, by simp [hb, hi]⟩

theorem nearestAxis_defined_dec : ∀ (rest : List K) (a b x : K), StrictDec (a :: b :: rest) →
    x ≤ a → (b :: rest).getLast (by simp) ≤ x → ∃ i, nearestAxis (a :: b :: rest) x = some i := by
  intro rest
  induction rest with
  | nil =>
    intro a b x hs h1 h2
    simp only [List.getLast_singleton] at h2
    rw [nearestAxis_dec_cons hs.1]
    simp only [h1, h2, decide_true, Bool.and_self, if_true]
    split_ifs <;> exact ⟨_, rfl⟩
  | cons c rest ih =>
    intro a b x hs h1 h2
    rw [nearestAxis_dec_cons hs.1]
    by_cases hb : b ≤ x
    · simp only [h1, hb, decide_true, Bool.and_self, if_true]
      split_ifs <;> exact ⟨_, rfl⟩
    · have hb' : x ≤ b := le_of_lt (not_le.mp hb)
      obtain ⟨i, hi⟩ := ih b c x hs.2 hb' (by simpa [List.getLast_cons] using h2)
      exact ⟨i + 1, by simp [hb, hi]⟩

theorem nearestAxis_defined (ax : List K) (x : K) (h2 : 2 ≤ ax.length) (hs : StrictMono ax)
    (hin : ∃ a b, ax.head? = some a ∧ ax.getLast? = some b ∧ ((a ≤ x ∧ x ≤ b) ∨ (b ≤ x ∧ x ≤ a))) :
    ∃ i, nearestAxis ax x = some i := by
  obtain ⟨a, b, rest, rfl⟩ := head_getLast_split ax h2
  obtain ⟨a', l, ha, hl, hd⟩ := hin
  simp only [List.head?_cons, Option.some.injEq] at ha
  subst ha
  have hlast : (a :: b :: rest).getLast? = some ((b :: rest).getLast (by simp)) := by
    simp [List.getLast?_eq_some_getLast, List.getLast_cons]
  rw [hlast] at hl
  simp only [Option.some.injEq] at hl
  subst hl
  have hmem : (b :: rest).getLast (by simp) ∈ b :: rest := List.getLast_mem _
  rcases hs with hs | hs
  · have hlt := knot_gt a (b :: rest) hs _ hmem
    rcases hd with hd | hd
    · exact nearestAxis_defined_inc rest a b x hs hd.1 hd.2
    · exact absurd (lt_of_lt_of_le hlt (le_trans hd.1 hd.2)) (lt_irrefl _)
  · have hlt := knot_lt a (b :: rest) hs _ hmem
    rcases hd with hd | hd
    · exact absurd (lt_of_lt_of_le hlt (le_trans hd.1 hd.2)) (lt_irrefl _)
    · exact nearestAxis_defined_dec rest a b x hs hd.2 hd.1

/-- per-axis indices that point into the axes -/
def IdxOk : List (List K) → List Nat → Prop
  | [], [] => True
  | ax :: axes, i :: idx => i < ax.length ∧ IdxOk axes idx
  | _, _ => False

theorem nearestAxis_lt : ∀ (knots : List K) (x : K) (i : Nat), nearestAxis knots x = some i → i < knots.length
  | [], _, _, h => by simp [nearestAxis] at h
  | [_], _, _, h => by simp [nearestAxis] at h
  | a :: b :: knots, x, i, h => by
    simp only [nearestAxis] at h
    split at h
    · split at h <;> split at h <;> simp at h <;> subst h <;> simp
    · cases h' : nearestAxis (b :: knots) x with
      | none => simp [h'] at h
      | some j =>
        simp [h'] at h
        have := nearestAxis_lt (b :: knots) x j h'
        subst h
        simp at this ⊢
        omega

theorem nearestIdx_ok : ∀ (axes : List (List K)) (p : List K) (idx : List Nat),
    nearestIdx axes p = some idx → IdxOk axes idx ∧ p.length = axes.length := by
  intro axes
  induction axes with
  | nil =>
    intro p idx h
    cases p with
    | nil => simp [nearestIdx] at h; subst h; exact ⟨trivial, rfl⟩
    | cons x p => simp [nearestIdx] at h
  | cons ax rest ih =>
    intro p idx h
    cases p with
    | nil => simp [nearestIdx] at h
    | cons x p =>
      simp only [nearestIdx] at h
      cases h1 : nearestAxis ax x with
      | none => rw [h1] at h; simp at h
      | some i =>
        cases h2 : nearestIdx rest p with
        | none => rw [h1, h2] at h; simp at h
        | some idx' =>
          rw [h1, h2] at h
          simp only [Option.some.injEq] at h
          subst h
          have hi := nearestAxis_lt ax x i h1
          obtain ⟨h3, h4⟩ := ih p idx' h2
          exact ⟨⟨hi, h3⟩, by simp [h4]⟩

theorem flatMap_getElem?_block {α β : Type} (l : List α) (F : α → List β) (M : Nat)
    (h : ∀ x ∈ l, (F x).length = M) (i j : Nat) (x : α) (hx : l[i]? = some x) (hj : j < M) :
    (l.flatMap F)[i * M + j]? = (F x)[j]? := by
  induction l generalizing i with
  | nil => simp at hx
  | cons y l ih =>
    have hy : (F y).length = M := h y (by simp)
    cases i with
    | zero =>
      simp only [List.getElem?_cons_zero, Option.some.injEq] at hx
      subst hx
      simp only [List.flatMap_cons, Nat.zero_mul, Nat.zero_add]
      rw [List.getElem?_append_left (by omega)]
    | succ i =>
      simp only [List.getElem?_cons_succ] at hx
      have := ih (fun x hx' => h x (by simp [hx'])) i hx
      simp only [List.flatMap_cons]
      rw [List.getElem?_append_right (by rw [hy]; nlinarith), hy]
      have e : (i + 1) * M + j - M = i * M + j := by
        have : (i + 1) * M = i * M + M := by ring
        omega
      rw [e, this]

theorem tensorPts_len {α : Type} : ∀ (axes : List (List α)), (tensorPts axes).length = size (axes.map List.length) := by
  intro axes
  induction axes with
  | nil => simp [tensorPts, size]
  | cons ax rest ih =>
    simp only [tensorPts, List.length_flatMap, List.length_map, ih, List.map_cons, size_cons]
    simp

theorem ravel_lt_size : ∀ (axes : List (List K)) (idx : List Nat), IdxOk axes idx →
    ravel (axes.map List.length) idx < size (axes.map List.length) := by
  intro axes
  induction axes with
  | nil => intro idx _; cases idx <;> simp [ravel, size]
  | cons ax rest ih =>
    intro idx h
    cases idx with
    | nil => simp [IdxOk] at h
    | cons i idx =>
      obtain ⟨h0, h1⟩ := h
      have := ih idx h1
      simp only [List.map_cons, ravel, size_cons]
      calc i * size (rest.map List.length) + ravel (rest.map List.length) idx
          < i * size (rest.map List.length) + size (rest.map List.length) := by omega
        _ = (i + 1) * size (rest.map List.length) := by ring
        _ ≤ ax.length * size (rest.map List.length) := Nat.mul_le_mul_right _ h0

/-- the grid point with per-axis indices `idx` sits at flat index `ravel dims idx` -/
theorem tensorPts_getElem?_ravel : ∀ (axes : List (List K)) (idx : List Nat), IdxOk axes idx →
    (tensorPts axes)[ravel (axes.map List.length) idx]? = some (pointAt axes idx) := by
  intro axes
  induction axes with
  | nil => intro idx h; cases idx <;> simp_all [IdxOk, tensorPts, ravel, pointAt]
  | cons ax rest ih =>
    intro idx h
    cases idx with
    | nil => simp [IdxOk] at h
    | cons i idx =>
      obtain ⟨h0, h1⟩ := h
      simp only [tensorPts, List.map_cons, ravel, pointAt]
      rw [flatMap_getElem?_block ax _ (size (rest.map List.length)) (by intro t _; simp [tensorPts_len]) i _ ax[i]
        (by simp [h0]) (ravel_lt_size rest idx h1)]
      simp [ih idx h1, List.getD_eq_getElem?_getD, h0]

theorem dist2_reverse (a b : List K) (h : a.length = b.length) : dist2 a.reverse b.reverse = dist2 a b := by
  unfold dist2
  rw [← List.reverse_zipWith h, List.sum_reverse]

theorem pointAt_mem (axes : List (List K)) (idx : List Nat) (h : IdxOk axes idx) : pointAt axes idx ∈ tensorPts axes :=
  List.mem_of_getElem? (tensorPts_getElem?_ravel axes idx h)

theorem take_drop_getElem? {α : Type} (v : List α) (a m f : Nat) (hf : f < m) :
    ((v.drop a).take m)[f]? = v[a + f]? := by
  simp [List.getElem?_take, hf]

theorem mem_tensorPts_pointAt : ∀ (axes : List (List K)) (t : List K), t ∈ tensorPts axes →
    ∃ idx, IdxOk axes idx ∧ t = pointAt axes idx := by
  intro axes
  induction axes with
  | nil => intro t ht; simp [tensorPts] at ht; exact ⟨[], trivial, by simp [ht, pointAt]⟩
  | cons ax rest ih =>
    intro t ht
    simp only [tensorPts, List.mem_flatMap, List.mem_map] at ht
    obtain ⟨a, ha, t', ht', rfl⟩ := ht
    obtain ⟨idx, hok, rfl⟩ := ih t' ht'
    obtain ⟨i, hi, rfl⟩ := List.getElem_of_mem ha
    exact ⟨i :: idx, ⟨hi, hok⟩, by simp [pointAt, List.getD_eq_getElem?_getD, hi]⟩

theorem dot_reverse (c x : List K) (h : c.length = x.length) : dot c.reverse x.reverse = dot c x := by
  unfold dot
  rw [← List.reverse_zipWith h, List.sum_reverse]

theorem affine_reverse (c0 : K) (c x : List K) (h : c.length = x.length) :
    affine c0 c.reverse x.reverse = affine c0 c x := by
  unfold affine; rw [dot_reverse c x h]

/-! ### supersampling -/

/-- the dithers all have `D` coordinates and add up to the zero vector -/
def ZeroMean (D : Nat) (ds : List (List K)) : Prop :=
  (∀ d ∈ ds, d.length = D) ∧ vsum D ds = vzero D

theorem dot_zipWith_add (c x y : List K) (hx : x.length = c.length) (hy : y.length = c.length) :
    dot c (List.zipWith (· + ·) x y) = dot c x + dot c y := dot_vadd c x y hx hy

theorem dot_zipWith_mul (c d δ : List K) :
    dot c (List.zipWith (· * ·) d δ) = dot (List.zipWith (· * ·) c δ) d := by
  induction c generalizing d δ with
  | nil => simp [dot]
  | cons a c ih =>
    cases d with
    | nil => simp [dot]
    | cons b d =>
      cases δ with
      | nil => simp [dot]
      | cons e δ => simp only [List.zipWith_cons_cons, dot_cons, ih]; ring

theorem sum_dot_vsum (e : List K) (D : Nat) (he : e.length = D) (ds : List (List K))
    (h : ∀ d ∈ ds, d.length = D) : (ds.map (dot e)).sum = dot e (vsum D ds) := by
  induction ds with
  | nil => simp [vsum, dot_vzero]
  | cons d ds ih =>
    have hd : d.length = D := h d (by simp)
    have hds : ∀ d ∈ ds, d.length = D := fun d hd' => h d (by simp [hd'])
    have h1 := ih hds
    have h2 := vsum_length D ds hds
    simp only [vsum] at h1 h2
    simp only [vsum, List.map_cons, List.sum_cons, List.foldr_cons, h1]
    rw [dot_vadd _ _ _ (by rw [hd, he]) (by rw [h2, he])]

theorem vadd_assoc (a b c : List K) : vadd (vadd a b) c = vadd a (vadd b c) := by
  induction a generalizing b c with
  | nil => simp [vadd]
  | cons x a ih =>
    cases b with
    | nil => simp [vadd]
    | cons y b =>
      cases c with
      | nil => simp [vadd]
      | cons z c =>
        have := ih b c
        simp only [vadd] at this
        simp only [vadd, List.zipWith_cons_cons, this, add_assoc]

theorem vsum_append (m : Nat) (l1 l2 : List (List K)) (h2 : ∀ c ∈ l2, c.length = m) :
    vsum m (l1 ++ l2) = vadd (vsum m l1) (vsum m l2) := by
  induction l1 with
  | nil =>
    have := vadd_vzero_left m (vsum m l2) (vsum_length m l2 h2)
    simpa [vsum] using this.symm
  | cons c l1 ih =>
    have e : vsum m (c :: (l1 ++ l2)) = vadd c (vsum m (l1 ++ l2)) := rfl
    have e2 : vsum m (c :: l1) = vadd c (vsum m l1) := rfl
    rw [List.cons_append, e, ih, e2, vadd_assoc]

theorem vsum_map_cons (D : Nat) (t : K) (R : List (List K)) :
    vsum (D + 1) (R.map (t :: ·)) = ((R.length : K) * t) :: vsum D R := by
  induction R with
  | nil => simp [vsum, vzero, List.replicate_succ]
  | cons q R ih =>
    have e : vsum (D + 1) ((q :: R).map (t :: ·)) = vadd (t :: q) (vsum (D + 1) (R.map (t :: ·))) := rfl
    have e2 : vsum D (q :: R) = vadd q (vsum D R) := rfl
    rw [e, ih, e2]
    simp only [vadd, List.zipWith_cons_cons, List.length_cons]
    congr 1
    push_cast; ring

theorem tensorPts_length {α : Type} : ∀ (axes : List (List α)), ∀ q ∈ tensorPts axes, q.length = axes.length := by
  intro axes
  induction axes with
  | nil => intro q hq; simp [tensorPts] at hq; subst hq; rfl
  | cons ax rest ih =>
    intro q hq
    simp only [tensorPts, List.mem_flatMap, List.mem_map] at hq
    obtain ⟨t, _, q', hq', rfl⟩ := hq
    simp [ih q' hq']

theorem gridPts_length {α : Type} (axes : List (List α)) : ∀ q ∈ gridPts axes, q.length = axes.length := by
  intro q hq
  simp only [gridPts, List.mem_map] at hq
  obtain ⟨q', hq', rfl⟩ := hq
  simpa using tensorPts_length axes.reverse q' hq'

theorem vsum_tensorPts_zero (axes : List (List K)) (h : ∀ ax ∈ axes, ax.sum = 0) :
    vsum axes.length (tensorPts axes) = vzero axes.length := by
  induction axes with
  | nil => simp [tensorPts, vsum, vzero, vadd]
  | cons ax rest ih =>
    have ihr := ih (fun a ha => h a (by simp [ha]))
    have hlen := tensorPts_length rest
    have key : ∀ l : List K, vsum (rest.length + 1) (l.flatMap fun t => (tensorPts rest).map (t :: ·))
        = (((tensorPts rest).length : K) * l.sum) :: vzero rest.length := by
      intro l
      induction l with
      | nil => simp [vsum, vzero, List.replicate_succ]
      | cons t l ihl =>
        rw [List.flatMap_cons, vsum_append, vsum_map_cons, ihl, ihr]
        · simp only [vadd, List.zipWith_cons_cons, List.sum_cons]
          have := vadd_vzero_left rest.length (vzero rest.length : List K) (by simp [vzero])
          simp only [vadd] at this
          rw [this]
          congr 1
          ring
        · intro c hc
          simp only [List.mem_flatMap, List.mem_map] at hc
          obtain ⟨t', _, q', hq', rfl⟩ := hc
          simp [hlen q' hq']
    have := key ax
    rw [h ax (by simp)] at this
    simp only [tensorPts, List.length_cons]
    rw [this]
    simp [vzero, List.replicate_succ]

theorem sum_map_affine_form (l : List ℕ) (f : ℕ → K) (d e : K) :
    (l.map fun j => f j / d - e).sum = (l.map f).sum / d - l.length * e := by
  induction l with
  | nil => simp
  | cons a l ih => simp only [List.map_cons, List.sum_cons, ih, List.length_cons]; push_cast; ring

theorem sum_odd (n : ℕ) : ((List.range n).map fun j => (((2 * j + 1 : ℕ)) : K)).sum = (n : K) ^ 2 := by
  induction n with
  | zero => simp
  | succ n ih =>
    rw [List.range_succ, List.map_append, List.sum_append, ih]
    simp; ring

/-! ### supersampling: one width per point, the generator the driver runs -/

theorem deltasInner_length : ∀ (l : List K), 2 ≤ l.length → (deltasInner l).length + 1 = l.length
  | [a, b], _ => by simp [deltasInner]
  | a :: b :: c :: rest, _ => by
      have := deltasInner_length (b :: c :: rest) (by simp)
      simp only [deltasInner, List.length_cons] at this ⊢; omega
  | [], h => by simp at h
  | [_], h => by simp at h

/-- `evaluate_supersampled` computes one cell width per grid point -/
theorem deltas_length (ax : List K) (h : 2 ≤ ax.length) : (deltas ax).length = ax.length := by
  match ax, h with
  | a :: b :: rest, _ =>
    have := deltasInner_length (a :: b :: rest) (by simp)
    simp only [deltas, List.length_cons] at this ⊢; omega

theorem tensorPts_map {α β : Type} (φ : α → β) : ∀ (axes : List (List α)),
    tensorPts (axes.map (List.map φ)) = (tensorPts axes).map (List.map φ)
  | [] => rfl
  | ax :: rest => by
    simp only [List.map_cons, tensorPts, tensorPts_map φ rest, List.flatMap_map, List.map_flatMap,
      List.map_map]
    rfl

theorem gridPts_map {α β : Type} (φ : α → β) (sep : List (List α)) :
    gridPts (sep.map (List.map φ)) = (gridPts sep).map (List.map φ) := by
  unfold gridPts
  rw [← List.map_reverse, tensorPts_map, List.map_map, List.map_map]
  apply List.map_congr_left
  intro q _
  simp [List.map_reverse]

/-- the points of the zipped (coordinate, width) grid are the points of the grid itself -/
theorem gridPts_zip_deltas (sep : List (List K)) (h : ∀ ax ∈ sep, 2 ≤ ax.length) :
    (gridPts (sep.map fun ax => List.zip ax (deltas ax))).map (List.map Prod.fst) = gridPts sep := by
  rw [← gridPts_map, List.map_map]
  congr 1
  conv_rhs => rw [← List.map_id sep]
  apply List.map_congr_left
  intro ax hax
  simp only [Function.comp, id]
  exact List.map_fst_zip (le_of_eq (deltas_length ax (h ax hax)).symm)

theorem dot_zero_left (n : Nat) (y : List K) : dot (List.replicate n (0 : K)) y = 0 := by
  induction n generalizing y with
  | zero => simp [dot]
  | succ n ih =>
    cases y with
    | nil => simp [dot]
    | cons t y =>
      have := ih y
      simp only [dot] at this
      simp [dot, List.replicate_succ, this]

/-- the generator the driver runs (`poly`) with all quadratic coefficients zero is `affine` -/
theorem poly_zero (c0 : K) (c : List K) (n : Nat) : poly c0 c (List.replicate n 0) = affine c0 c := by
  funext x
  simp [poly, affine, dot_zero_left]

end HcipyVerif.Interp
