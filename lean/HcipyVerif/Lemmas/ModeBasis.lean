import HcipyVerif.Model.ModeBasis
import Mathlib.Tactic.Ring
import Mathlib.Tactic.Linarith
import Mathlib.Algebra.BigOperators.Group.List.Basic

/-! Helper lemmas for C14: list-of-rows tables, sparse columns, the storage forms of a mode basis. -/
set_option linter.unusedSimpArgs false
set_option linter.unusedVariables false
set_option linter.unusedSectionVars false

namespace HcipyVerif.ModeBasis
variable {K : Type}

theorem getD_map_range {α} (n : Nat) (f : Nat → α) (d : α) (i : Nat) (h : i < n) :
    ((List.range n).map f).getD i d = f i := by
  simp [List.getD_eq_getElem?_getD, h]

theorem getD_map_range_ge {α} (n : Nat) (f : Nat → α) (d : α) (i : Nat) (h : n ≤ i) :
    ((List.range n).map f).getD i d = d := by
  simp [List.getD_eq_getElem?_getD, h]

theorem map_eq_range_map_getD {α β} (l : List α) (d : α) (g : α → β) :
    l.map g = (List.range l.length).map fun j => g (l.getD j d) := by
  apply List.ext_getElem
  · simp
  · intro i h1 h2
    simp at h1
    simp [List.getD_eq_getElem?_getD, h1]

section
variable [Zero K]

theorem table_length (n m : Nat) (f : Nat → Nat → K) : (table n m f).length = n := by
  simp [table]

theorem rowsEntry_table (n m : Nat) (f : Nat → Nat → K) (i j : Nat) (hi : i < n) (hj : j < m) :
    rowsEntry (table n m f) i j = f i j := by
  unfold rowsEntry table
  rw [getD_map_range _ _ _ _ hi, getD_map_range _ _ _ _ hj]

/-- a well-shaped list of rows is the table of its entries -/
theorem rows_eq_table (n m : Nat) (rows : List (List K)) (h1 : rows.length = n)
    (h2 : ∀ r ∈ rows, r.length = m) : table n m (rowsEntry rows) = rows := by
  apply List.ext_getElem
  · simp [table, h1]
  · intro i hi hi'
    simp [table] at hi ⊢
    have hr : rows[i].length = m := h2 _ (List.getElem_mem hi')
    apply List.ext_getElem
    · simp [hr]
    · intro j hj hj'
      simp at hj
      simp [rowsEntry, List.getD_eq_getElem?_getD, hi', hj']
end

section
variable [AddCommMonoid K]

theorem colEntry_nil (i : Nat) : colEntry ([] : SCol K) i = 0 := by simp [colEntry]

theorem colEntry_cons (p : Nat × K) (c : SCol K) (i : Nat) :
    colEntry (p :: c) i = (if p.1 = i then p.2 else 0) + colEntry c i := by
  unfold colEntry
  by_cases h : p.1 = i <;> simp [List.filter_cons, h]

theorem colEntry_append (c d : SCol K) (i : Nat) :
    colEntry (c ++ d) i = colEntry c i + colEntry d i := by
  simp [colEntry, List.filter_append, List.sum_append]

/-- `eliminate_zeros` + CSC conversion keeps every entry -/
theorem colEntry_compress_aux [DecidableEq K] (e : Nat → K) (n i : Nat) :
    colEntry (((List.range n).map fun t => (t, e t)).filter fun p => p.2 ≠ 0) i
      = if i < n then e i else 0 := by
  induction n with
  | zero => simp [colEntry]
  | succ n ih =>
    rw [List.range_succ, List.map_append, List.filter_append, colEntry_append, ih]
    by_cases h0 : e n = 0
    · simp [h0, colEntry]
      by_cases h1 : i < n
      · simp [h1, Nat.lt_succ_of_lt h1]
      · by_cases h2 : i = n
        · subst h2; simp [h0]
        · have : ¬ i < n + 1 := by omega
          simp [h1, this]
    · simp [h0, colEntry_cons, colEntry_nil]
      by_cases h1 : i < n
      · have : n ≠ i := by omega
        simp [h1, Nat.lt_succ_of_lt h1, this]
      · by_cases h2 : i = n
        · subst h2; simp
        · have : ¬ i < n + 1 := by omega
          have h3 : n ≠ i := fun h => h2 h.symm
          simp [h1, this, h3]

theorem colEntry_compressCol [DecidableEq K] (rows : List (List K)) (i j : Nat) :
    colEntry (compressCol rows j) i = rowsEntry rows i j := by
  unfold compressCol
  rw [colEntry_compress_aux (fun t => rowsEntry rows t j)]
  by_cases h : i < rows.length
  · simp [h]
  · simp [h, rowsEntry, List.getD_eq_getElem?_getD]
end

section
variable [AddCommMonoid K]

theorem toDense_dense (n m : Nat) (rows : List (List K)) (h : WF (.dense n m rows)) :
    toDense (.dense n m rows) = rows := by
  unfold toDense
  simp only [Basis.npix, Basis.nmodes]
  exact rows_eq_table n m rows h.1 h.2

theorem toDense_length (b : Basis K) : (toDense b).length = b.npix := by
  simp [toDense, table]

theorem rowsEntry_toDense (b : Basis K) (i j : Nat) (hi : i < b.npix) (hj : j < b.nmodes) :
    rowsEntry (toDense b) i j = ent b i j := rowsEntry_table _ _ _ _ _ hi hj

/-- a sparse basis evaluates to zero outside its stored columns -/
theorem ent_sparse_ge (n m : Nat) (cols : List (SCol K)) (hc : cols.length = m) (i j : Nat) (hj : m ≤ j) :
    ent (.sparse n m cols) i j = 0 := by
  simp only [ent]
  have : cols.getD j [] = [] := by
    simp [List.getD_eq_getElem?_getD]
    have : cols[j]? = none := by simp; omega
    simp [this]
  rw [this, colEntry_nil]

theorem WF_toDense (b : Basis K) : WF (.dense b.npix b.nmodes (toDense b)) := by
  refine ⟨toDense_length b, ?_⟩
  intro r hr
  simp [toDense, table] at hr
  obtain ⟨i, _, rfl⟩ := hr
  simp

theorem column_eq (b : Basis K) (j : Nat) (hj : j < b.nmodes) :
    column b j = (toDense b).map (·.getD j 0) := by
  unfold column toDense table
  rw [List.map_map]
  apply List.map_congr_left
  intro i hi
  simp only [Function.comp]
  rw [getD_map_range _ _ _ _ hj]

end

section
variable [CommSemiring K]

/-- sparse accumulation = row-wise dot products of the dense table -/
theorem linComb_eq (b : Basis K) (hb : WF b) (c : List K) :
    linComb b c = matvec (toDense b) c := by
  cases b with
  | dense n m rows => rw [toDense_dense n m rows hb]; rfl
  | sparse n m cols =>
    obtain ⟨hc, _⟩ := hb
    simp only [linComb, matvec, toDense, table, Basis.npix, Basis.nmodes, List.map_map]
    apply List.map_congr_left
    intro i _
    simp only [Function.comp, dot, ent]
    congr 1
    have : (List.range m).map (fun j => colEntry (cols.getD j []) i) = cols.map (colEntry · i) := by
      rw [map_eq_range_map_getD cols [] (colEntry · i), hc]
    rw [this, List.zipWith_map_left]
end

section
variable [AddCommMonoid K]

/-- two bases denote the same matrix -/
def Same (a b : Basis K) : Prop := a.npix = b.npix ∧ a.nmodes = b.nmodes ∧ toDense a = toDense b

theorem toDense_congr (a b : Basis K) (h1 : a.npix = b.npix) (h2 : a.nmodes = b.nmodes)
    (h : ∀ i j, i < a.npix → j < a.nmodes → ent a i j = ent b i j) : toDense a = toDense b := by
  unfold toDense table
  rw [← h1, ← h2]
  apply List.map_congr_left
  intro i hi
  apply List.map_congr_left
  intro j hj
  simp at hi hj
  exact h i j hi hj

theorem ent_of_toDense_eq (a b : Basis K) (h : Same a b) (i j : Nat) (hi : i < a.npix) (hj : j < a.nmodes) :
    ent a i j = ent b i j := by
  rw [← rowsEntry_toDense a i j hi hj, h.2.2, rowsEntry_toDense b i j (h.1 ▸ hi) (h.2.1 ▸ hj)]

variable [DecidableEq K]

theorem sparsify_npix (b : Basis K) : (sparsify b).npix = b.npix := by cases b <;> rfl
theorem sparsify_nmodes (b : Basis K) : (sparsify b).nmodes = b.nmodes := by cases b <;> rfl
theorem sparsify_isSparse (b : Basis K) : (sparsify b).isSparse = true := by cases b <;> rfl
theorem densify_npix (b : Basis K) : (densify b).npix = b.npix := by cases b <;> rfl
theorem densify_nmodes (b : Basis K) : (densify b).nmodes = b.nmodes := by cases b <;> rfl
theorem densify_isSparse (b : Basis K) : (densify b).isSparse = false := by cases b <;> rfl

theorem ent_sparsify (b : Basis K) (i j : Nat) (hj : j < b.nmodes) : ent (sparsify b) i j = ent b i j := by
  cases b with
  | sparse n m cols => rfl
  | dense n m rows =>
    simp only [sparsify, ent]
    simp only [Basis.nmodes] at hj
    rw [getD_map_range _ _ _ _ hj, colEntry_compressCol]

theorem WF_sparsify (b : Basis K) (hb : WF b) : WF (sparsify b) := by
  cases b with
  | sparse n m cols => exact hb
  | dense n m rows =>
    refine ⟨by simp [sparsify], ?_⟩
    intro c hc p hp
    simp [sparsify] at hc
    obtain ⟨j, _, rfl⟩ := hc
    simp [compressCol] at hp
    obtain ⟨⟨t, ht, rfl⟩, _⟩ := hp
    simp; rw [← hb.1]; exact ht

theorem toDense_sparsify (b : Basis K) : toDense (sparsify b) = toDense b :=
  toDense_congr _ _ (sparsify_npix b) (sparsify_nmodes b) fun i j _ hj =>
    ent_sparsify b i j (sparsify_nmodes b ▸ hj)

theorem toDense_densify (b : Basis K) : toDense (densify b) = toDense b := by
  cases b with
  | dense n m rows => rfl
  | sparse n m cols =>
    simp only [densify]
    exact toDense_dense n m _ (WF_toDense (.sparse n m cols))

theorem WF_densify (b : Basis K) (hb : WF b) : WF (densify b) := by
  cases b with
  | dense n m rows => exact hb
  | sparse n m cols => exact WF_toDense (.sparse n m cols)

end
section
variable [AddCommMonoid K]

/-- the table of a function glued from two tables is the row-wise concatenation -/
theorem table_append (n m m' : Nat) (f g : Nat → Nat → K) :
    table n (m + m') (fun i j => if j < m then f i j else g i (j - m))
      = List.zipWith (· ++ ·) (table n m f) (table n m' g) := by
  unfold table
  rw [List.zipWith_map_left, List.zipWith_map_right, List.zipWith_self]
  apply List.map_congr_left
  intro i _
  rw [List.range_add, List.map_append, List.map_map]
  congr 1
  · apply List.map_congr_left; intro j hj; simp at hj; simp [hj]
  · apply List.map_congr_left; intro j hj; simp

theorem getD_append_cols (ca cb : List (SCol K)) (m : Nat) (h : ca.length = m) (j : Nat) :
    (ca ++ cb).getD j [] = if j < m then ca.getD j [] else cb.getD (j - m) [] := by
  subst h
  simp only [List.getD_eq_getElem?_getD]
  by_cases hj : j < ca.length
  · simp [hj, List.getElem?_append_left hj]
  · simp [hj, List.getElem?_append_right (Nat.le_of_not_lt hj)]

theorem rowsEntry_zipWith_append (ra rb : List (List K)) (n m : Nat) (h1 : ra.length = n) (h1' : rb.length = n)
    (h2 : ∀ r ∈ ra, r.length = m) (i j : Nat) (hi : i < n) :
    rowsEntry (List.zipWith (· ++ ·) ra rb) i j
      = if j < m then rowsEntry ra i j else rowsEntry rb i (j - m) := by
  have hia : i < ra.length := h1 ▸ hi
  have hib : i < rb.length := h1' ▸ hi
  have hl : ra[i].length = m := h2 _ (List.getElem_mem hia)
  unfold rowsEntry
  simp only [List.getD_eq_getElem?_getD]
  have : (List.zipWith (· ++ ·) ra rb)[i]? = some (ra[i] ++ rb[i]) := by
    simp [List.getElem?_zipWith, hia, hib]
  rw [this]
  simp only [Option.getD_some, List.getElem?_eq_getElem hia, List.getElem?_eq_getElem hib]
  by_cases hj : j < m
  · simp [hj, List.getElem?_append_left (hl ▸ hj)]
  · simp [hj, List.getElem?_append_right (hl ▸ Nat.le_of_not_lt hj), hl]

variable [DecidableEq K]

/-- `__add__` glues the columns of `b` to the right of those of `a`; the result is sparse as soon
as one operand is. -/
theorem add_spec (a b : Basis K) (ha : WF a) (hb : WF b) (h : a.npix = b.npix) :
    ∃ r, add a b = some r ∧ WF r ∧ r.npix = a.npix ∧ r.nmodes = a.nmodes + b.nmodes ∧
      r.isSparse = (a.isSparse || b.isSparse) ∧
      toDense r = List.zipWith (· ++ ·) (toDense a) (toDense b) := by
  have key : ∀ (r : Basis K), r.npix = a.npix → r.nmodes = a.nmodes + b.nmodes →
      (∀ i j, i < a.npix → j < a.nmodes + b.nmodes →
        ent r i j = if j < a.nmodes then ent a i j else ent b i (j - a.nmodes)) →
      toDense r = List.zipWith (· ++ ·) (toDense a) (toDense b) := by
    intro r h1 h2 h3
    have : toDense b = table a.npix b.nmodes (ent b) := by rw [h]; rfl
    rw [this]
    show _ = List.zipWith (· ++ ·) (table a.npix a.nmodes (ent a)) _
    rw [← table_append]
    unfold toDense table
    rw [h1, h2]
    apply List.map_congr_left; intro i hi
    apply List.map_congr_left; intro j hj
    simp at hi hj
    exact h3 i j hi hj
  unfold add
  simp only [h, ne_eq, not_true_eq_false, if_false]
  cases a with
  | dense n m ra =>
    cases b with
    | dense n' m' rb =>
      simp only [Basis.npix] at h; subst h
      refine ⟨_, rfl, ⟨?_, ?_⟩, rfl, rfl, rfl, ?_⟩
      · simp [ha.1, hb.1]
      · intro r hr
        rw [List.mem_iff_getElem] at hr
        obtain ⟨i, hi, rfl⟩ := hr
        simp at hi
        simp [ha.2 _ (List.getElem_mem hi.1), hb.2 _ (List.getElem_mem hi.2)]
      · refine key (.dense n (m + m') (List.zipWith (· ++ ·) ra rb)) rfl rfl ?_
        intro i j hi hj
        simp only [ent]
        exact rowsEntry_zipWith_append ra rb n m ha.1 hb.1 ha.2 i j hi
    | sparse n' m' cb =>
      simp only [Basis.npix] at h; subst h
      simp only [sparsify]
      have hW := WF_sparsify (.dense n m ra) ha
      simp only [sparsify] at hW
      refine ⟨_, rfl, ⟨?_, ?_⟩, rfl, rfl, rfl, ?_⟩
      · simp [hb.1]
      · intro c hc p hp
        rcases List.mem_append.mp hc with hc | hc
        · exact hW.2 c hc p hp
        · exact hb.2 c hc p hp
      · refine key (.sparse n (m + m') ((List.range m).map (compressCol ra) ++ cb)) rfl rfl ?_
        intro i j hi hj
        simp only [ent, Basis.nmodes]
        rw [getD_append_cols _ _ m (by simp)]
        by_cases hjm : j < m
        · simp only [hjm, if_true]
          have := ent_sparsify (.dense n m ra) i j hjm
          simpa [sparsify, ent] using this
        · simp [hjm]
  | sparse n m ca =>
    cases b with
    | dense n' m' rb =>
      simp only [Basis.npix] at h; subst h
      simp only [sparsify]
      have hW := WF_sparsify (.dense n m' rb) hb
      simp only [sparsify] at hW
      refine ⟨_, rfl, ⟨?_, ?_⟩, rfl, rfl, rfl, ?_⟩
      · simp [ha.1]
      · intro c hc p hp
        rcases List.mem_append.mp hc with hc | hc
        · exact ha.2 c hc p hp
        · exact hW.2 c hc p hp
      · refine key (.sparse n (m + m') (ca ++ (List.range m').map (compressCol rb))) rfl rfl ?_
        intro i j hi hj
        simp only [ent, Basis.nmodes]
        rw [getD_append_cols _ _ m ha.1]
        by_cases hjm : j < m
        · simp [hjm]
        · simp only [hjm, if_false]
          simp only [Basis.nmodes] at hj
          have := ent_sparsify (.dense n m' rb) i (j - m) (by simp only [Basis.nmodes]; omega)
          simpa [sparsify, ent] using this
    | sparse n' m' cb =>
      simp only [Basis.npix] at h; subst h
      simp only [sparsify]
      refine ⟨_, rfl, ⟨?_, ?_⟩, rfl, rfl, rfl, ?_⟩
      · simp [ha.1, hb.1]
      · intro c hc p hp
        rcases List.mem_append.mp hc with hc | hc
        · exact ha.2 c hc p hp
        · exact hb.2 c hc p hp
      · refine key (.sparse n (m + m') (ca ++ cb)) rfl rfl ?_
        intro i j hi hj
        simp only [ent, Basis.nmodes]
        rw [getD_append_cols _ _ m ha.1]
        by_cases hjm : j < m <;> simp [hjm]

end
section
variable [AddCommMonoid K]

/-- numpy's `T[..., idx]` on the dense table -/
def pickCols (rows : List (List K)) (idx : List Nat) : List (List K) :=
  rows.map fun r => idx.map fun j => r.getD j 0

theorem selectCols_npix (b : Basis K) (idx : List Nat) : (selectCols b idx).npix = b.npix := by
  cases b <;> rfl
theorem selectCols_nmodes (b : Basis K) (idx : List Nat) : (selectCols b idx).nmodes = idx.length := by
  cases b <;> rfl
theorem selectCols_isSparse (b : Basis K) (idx : List Nat) : (selectCols b idx).isSparse = b.isSparse := by
  cases b <;> rfl

theorem WF_selectCols (b : Basis K) (hb : WF b) (idx : List Nat) : WF (selectCols b idx) := by
  cases b with
  | dense n m rows =>
    refine ⟨by simp [selectCols, hb.1], ?_⟩
    intro r hr; simp [selectCols] at hr; obtain ⟨r', _, rfl⟩ := hr; simp
  | sparse n m cols =>
    refine ⟨by simp [selectCols], ?_⟩
    intro c hc p hp
    simp [selectCols] at hc
    obtain ⟨j, _, rfl⟩ := hc
    by_cases hj : j < cols.length
    · have : cols[j]? = some cols[j] := by simp [hj]
      rw [this] at hp
      exact hb.2 _ (List.getElem_mem hj) p hp
    · have : cols[j]? = none := by simp; omega
      rw [this] at hp; simp at hp

/-- column selection commutes with densification, in both storage forms -/
theorem toDense_selectCols (b : Basis K) (hb : WF b) (idx : List Nat) :
    toDense (selectCols b idx) = pickCols (toDense b) idx := by
  cases b with
  | dense n m rows =>
    rw [toDense_dense n m rows hb]
    exact toDense_dense n idx.length _ (WF_selectCols (.dense n m rows) hb idx)
  | sparse n m cols =>
    simp only [selectCols, toDense, table, pickCols, Basis.npix, Basis.nmodes, List.map_map]
    apply List.map_congr_left
    intro i _
    simp only [Function.comp, ent]
    conv_rhs => rw [map_eq_range_map_getD idx 0]
    apply List.map_congr_left
    intro t ht
    simp at ht
    have h1 : (idx.map fun j => cols.getD j []).getD t [] = cols.getD (idx.getD t 0) [] := by
      simp [List.getD_eq_getElem?_getD, ht]
    rw [h1]
    by_cases hj : idx.getD t 0 < m
    · rw [getD_map_range _ _ _ _ hj]
    · have h2 := ent_sparse_ge n m cols hb.1 i (idx.getD t 0) (Nat.le_of_not_lt hj)
      simp only [ent] at h2
      rw [h2]
      simp [List.getD_eq_getElem?_getD]
      have : ((List.range m)[idx[t]?.getD 0]?) = none := by
        simp; simp [List.getD_eq_getElem?_getD] at hj; exact hj
      simp [this]

/-- what an item denotes, independent of the storage form -/
inductive ItemDen (K : Type) where
  | mode (v : List K)
  | basis (npix nmodes : Nat) (rows : List (List K))

def Item.den : Item K → ItemDen K
  | .mode v => .mode v
  | .basis b => .basis b.npix b.nmodes (toDense b)

theorem getItem_int (b : Basis K) (k : Int) :
    getItem b (.int k) = match normIndex b.nmodes k with
      | some j => .ok (.mode (column b j))
      | none => .error .index := by
  unfold getItem selIdx
  cases h : normIndex b.nmodes k <;> simp [h]

theorem getItem_multi (b : Basis K) (ix : Index) (h : ∀ k, ix ≠ .int k) :
    getItem b ix = match selIdx b.nmodes ix with
      | .ok idx => .ok (.basis (selectCols b idx))
      | .error e => .error e := by
  unfold getItem
  cases hs : selIdx b.nmodes ix with
  | error e => rfl
  | ok idx => cases ix <;> simp_all

theorem normIndex_lt (n : Nat) (k : Int) (j : Nat) (h : normIndex n k = some j) : j < n := by
  unfold normIndex at h
  split at h
  · split at h
    · simp at h; omega
    · simp at h
  · split at h
    · simp at h; omega
    · simp at h

end
section
variable [AddCommMonoid K]

theorem ent_fromFields (npix : Nat) (modes : List (List K)) (i j : Nat) (hi : i < npix) (hj : j < modes.length) :
    ent (fromFields npix modes) i j = (modes.getD j []).getD i 0 := by
  simp only [fromFields, ent]
  exact rowsEntry_table _ _ _ _ _ hi hj

theorem WF_fromFields (npix : Nat) (modes : List (List K)) : WF (fromFields npix modes) := by
  refine ⟨table_length _ _ _, ?_⟩
  intro r hr
  simp [table] at hr
  obtain ⟨i, _, rfl⟩ := hr
  simp

theorem WF_fromSparseRows (npix : Nat) (modes : List (SCol K)) (h : ∀ c ∈ modes, ∀ p ∈ c, p.1 < npix) :
    WF (fromSparseRows npix modes) := ⟨rfl, h⟩

/-- the stored entries `lo … lo+len-1` of a flat (index, value) array, evaluated at row `i` -/
def segEntry (l : List (Nat × K)) (lo len i : Nat) : K :=
  ((List.range len).map fun t => if (l.getD (lo + t) (0, 0)).1 = i then (l.getD (lo + t) (0, 0)).2 else 0).sum

theorem colEntry_drop_take (l : List (Nat × K)) (lo len i : Nat) (h : lo + len ≤ l.length) :
    colEntry ((l.drop lo).take len) i = segEntry l lo len i := by
  induction len generalizing lo with
  | zero => simp [colEntry, segEntry]
  | succ len ih =>
    have hlo : lo < l.length := by omega
    rw [List.drop_eq_getElem_cons hlo, List.take_succ_cons, colEntry_cons, ih (lo + 1) (by omega)]
    unfold segEntry
    rw [List.range_succ_eq_map, List.map_cons, List.sum_cons, List.map_map]
    have h0 : l.getD (lo + 0) (0, 0) = l[lo] := by simp [List.getD_eq_getElem?_getD, hlo]
    rw [h0]
    congr 2
    apply List.map_congr_left
    intro t _
    simp only [Function.comp]
    have : lo + 1 + t = lo + (t + 1) := by omega
    rw [this]

/-- CSC semantics: entry `(i, j)` is the sum of the stored values of column `j`
(`indptr[j] ≤ k < indptr[j+1]`) whose row index is `i`. -/
def cscEntry (indptr indices : List Nat) (data : List K) (i j : Nat) : K :=
  segEntry (indices.zip data) (indptr.getD j 0) (indptr.getD (j + 1) 0 - indptr.getD j 0) i

theorem ent_fromCSC (npix nmodes : Nat) (indptr indices : List Nat) (data : List K) (i j : Nat)
    (hj : j < nmodes) (hlen : indices.length = data.length)
    (hptr : indptr.getD j 0 ≤ indptr.getD (j + 1) 0 ∧ indptr.getD (j + 1) 0 ≤ data.length) :
    ent (fromCSC npix nmodes indptr indices data) i j = cscEntry indptr indices data i j := by
  simp only [fromCSC, ent, splitCSC]
  rw [getD_map_range _ _ _ _ hj]
  apply colEntry_drop_take
  rw [List.length_zip, hlen, Nat.min_self]; omega

theorem WF_fromCSC (npix nmodes : Nat) (indptr indices : List Nat) (data : List K)
    (hidx : ∀ r ∈ indices, r < npix) : WF (fromCSC npix nmodes indptr indices data) := by
  refine ⟨by simp [fromCSC, splitCSC], ?_⟩
  intro c hc p hp
  simp [fromCSC, splitCSC] at hc
  obtain ⟨j, _, rfl⟩ := hc
  have h1 := List.mem_of_mem_take hp
  have h2 := List.mem_of_mem_drop h1
  exact hidx _ (List.of_mem_zip h2).1

end
section
variable [AddCommMonoid K] [DecidableEq K]

theorem extend_sparse_eq_add (n m : Nat) (ca : List (SCol K)) (b : Basis K) :
    extend (.sparse n m ca) b = add (.sparse n m ca) b := by
  unfold extend add
  by_cases h : (Basis.sparse n m ca).npix ≠ b.npix
  · simp [h]
  · simp only [h, if_false]
    cases b <;> rfl

/-- in-place `extend`: the columns of `b` are glued to the right, the storage form of `a` is kept -/
theorem extend_spec (a b : Basis K) (ha : WF a) (hb : WF b) (h : a.npix = b.npix) :
    ∃ r, extend a b = some r ∧ WF r ∧ r.npix = a.npix ∧ r.nmodes = a.nmodes + b.nmodes ∧
      r.isSparse = a.isSparse ∧
      toDense r = List.zipWith (· ++ ·) (toDense a) (toDense b) := by
  cases a with
  | sparse n m ca =>
    rw [extend_sparse_eq_add]
    obtain ⟨r, h1, h2, h3, h4, h5, h6⟩ := add_spec (.sparse n m ca) b ha hb h
    exact ⟨r, h1, h2, h3, h4, by simpa [Basis.isSparse] using h5, h6⟩
  | dense n m ra =>
    unfold extend
    simp only [h, ne_eq, not_true_eq_false, if_false]
    have hn : n = b.npix := h
    have hW : WF (.dense n (m + b.nmodes) (List.zipWith (· ++ ·) ra (toDense b))) := by
      refine ⟨by rw [List.length_zipWith, ha.1, toDense_length, ← hn, Nat.min_self], ?_⟩
      intro r hr
      rw [List.mem_iff_getElem] at hr
      obtain ⟨i, hi, rfl⟩ := hr
      simp at hi
      have := (WF_toDense b).2 _ (List.getElem_mem hi.2)
      simp [ha.2 _ (List.getElem_mem hi.1), this]
    refine ⟨_, rfl, hW, hn, rfl, rfl, ?_⟩
    rw [toDense_dense _ _ _ hW, toDense_dense n m ra ha]

theorem append_spec (a : Basis K) (ha : WF a) (v : List K) (hv : v.length = a.npix) :
    ∃ r, append a v = some r ∧ WF r ∧ r.npix = a.npix ∧ r.nmodes = a.nmodes + 1 ∧
      r.isSparse = a.isSparse ∧
      toDense r = List.zipWith (· ++ ·) (toDense a) (v.map fun x => [x]) := by
  unfold append
  simp only [hv, ne_eq, not_true_eq_false, if_false]
  have hW : WF (.dense a.npix 1 (v.map fun x => [x])) := by
    refine ⟨by simp [hv], ?_⟩
    intro r hr; simp at hr; obtain ⟨x, _, rfl⟩ := hr; rfl
  obtain ⟨r, h1, h2, h3, h4, h5, h6⟩ := extend_spec a _ ha hW rfl
  refine ⟨r, h1, h2, h3, h4, h5, ?_⟩
  rw [h6, toDense_dense _ _ _ hW]

end

/-! ## The constructor dispatch `fromInput` -/

section
variable {K : Type}

theorem allVec_map (n : Nat) (vs : List (List K)) (h : ∀ v ∈ vs, v.length = n) :
    allVec n (vs.map Mode.vec) = some vs := by
  induction vs with
  | nil => rfl
  | cons v vs ih =>
    have hv : v.length = n := h v (by simp)
    simp [allVec, hv, ih (fun w hw => h w (by simp [hw]))]

theorem allRow_map (n : Nat) (es : List (SCol K)) :
    allRow n (es.map (Mode.sp 1 n)) = some es := by
  induction es with
  | nil => rfl
  | cons e es ih => simp [allRow, ih]

theorem allRow_mem (n : Nat) (items : List (Mode K)) (es : List (SCol K)) (h : allRow n items = some es) :
    ∀ e ∈ es, Mode.sp 1 n e ∈ items := by
  induction items generalizing es with
  | nil => simp [allRow] at h; subst h; simp
  | cons a items ih =>
    cases a with
    | vec v => simp [allRow] at h
    | sp nr nc e0 =>
      simp only [allRow] at h
      split at h
      · next hc =>
        obtain ⟨rfl, rfl⟩ := hc
        cases hr : allRow nc items with
        | none => simp [hr] at h
        | some es' =>
          simp [hr] at h; subst h
          intro e he
          simp only [List.mem_cons] at he ⊢
          rcases he with rfl | he
          · exact Or.inl rfl
          · exact Or.inr (ih es' hr e he)
      · simp at h

theorem allVec_sp (n nr nc : Nat) (e : SCol K) (l l' : List (Mode K)) :
    allVec n (l ++ .sp nr nc e :: l') = none := by
  induction l with
  | nil => rfl
  | cons a l ih =>
    cases a with
    | vec v => simp only [List.cons_append, allVec]; split <;> simp [ih]
    | sp => rfl

theorem allRow_vec (n : Nat) (v : List K) (l l' : List (Mode K)) :
    allRow n (l ++ .vec v :: l') = none := by
  induction l with
  | nil => rfl
  | cons a l ih =>
    cases a with
    | sp nr nc e => simp only [List.cons_append, allRow]; split <;> simp [ih]
    | vec => rfl
end

section
variable {K : Type} [AddCommMonoid K]

theorem colEntry_map_const (l : SCol K) (i' i : Nat) :
    colEntry (l.map fun p => (i', p.2)) i = if i' = i then (l.map (·.2)).sum else 0 := by
  induction l with
  | nil => simp [colEntry]
  | cons p l ih =>
    rw [List.map_cons, colEntry_cons, ih]
    by_cases h : i' = i <;> simp [h]

theorem colEntry_flatMap_range (N : Nat) (F : Nat → SCol K) (i : Nat) :
    colEntry ((List.range N).flatMap fun i' => (F i').map fun p => (i', p.2)) i =
      if i < N then ((F i).map (·.2)).sum else 0 := by
  induction N with
  | zero => simp [colEntry]
  | succ N ih =>
    rw [List.range_succ, List.flatMap_append, colEntry_append, ih]
    simp only [List.flatMap_cons, List.flatMap_nil, List.append_nil]
    rw [colEntry_map_const]
    by_cases h1 : i < N
    · have : N ≠ i := by omega
      have h2 : i < N + 1 := by omega
      simp [h1, h2, this]
    · by_cases h2 : N = i
      · subst h2; simp
      · have : ¬ i < N + 1 := by omega
        simp [h1, h2, this]

/-- entry `(i, j)` of the CSC conversion of a CSR matrix given by its stored rows -/
theorem ent_transposeRows (n m : Nat) (rows : List (SCol K)) (i j : Nat) (hi : i < rows.length) (hj : j < m) :
    ent (.sparse n m (transposeRows m rows)) i j = colEntry (rows.getD i []) j := by
  simp only [ent, transposeRows]
  rw [getD_map_range _ _ _ _ hj]
  rw [colEntry_flatMap_range rows.length (fun i' => (rows.getD i' []).filter fun p => p.1 == j) i]
  simp [hi, colEntry]

/-- entry `(i, j)` of a COO matrix: the sum of the values stored for that cell -/
def cooEntry (row col : List Nat) (data : List K) (i j : Nat) : K :=
  (((col.zip (row.zip data)).filter fun t => t.1 == j && t.2.1 == i).map (·.2.2)).sum

theorem ent_cooCols (n m : Nat) (row col : List Nat) (data : List K) (i j : Nat) (hj : j < m) :
    ent (.sparse n m (cooCols m row col data)) i j = cooEntry row col data i j := by
  simp only [ent, cooCols, cooEntry]
  rw [getD_map_range _ _ _ _ hj]
  unfold colEntry
  rw [List.filter_map, List.map_map, List.filter_filter]
  congr 1
  congr 1
  apply List.filter_congr
  intro t _
  simp [Bool.and_comm]

theorem WF_transposeRows (m : Nat) (rows : List (SCol K)) :
    WF (.sparse rows.length m (transposeRows m rows)) := by
  refine ⟨by simp [transposeRows], ?_⟩
  intro c hc p hp
  simp only [transposeRows, List.mem_map, List.mem_range] at hc
  obtain ⟨j, _, rfl⟩ := hc
  simp only [List.mem_flatMap, List.mem_range, List.mem_map] at hp
  obtain ⟨i, hi, q, _, rfl⟩ := hp
  exact hi

theorem WF_cooCols (n m : Nat) (row col : List Nat) (data : List K) (h : ∀ r ∈ row, r < n) :
    WF (.sparse n m (cooCols m row col data)) := by
  refine ⟨by simp [cooCols], ?_⟩
  intro c hc p hp
  simp only [cooCols, List.mem_map, List.mem_range] at hc
  obtain ⟨j, _, rfl⟩ := hc
  simp only [List.mem_map, List.mem_filter] at hp
  obtain ⟨t, ⟨ht, _⟩, rfl⟩ := hp
  have h1 := (List.of_mem_zip ht).2
  have h2 := (List.of_mem_zip (a := t.2.1) (b := t.2.2) h1).1
  exact h _ h2

/-- **Valid inputs give well-formed bases**: the check the driver performs on every `new`
request (`Input.valid`) implies the hypothesis `WF` of the basis theorems for whatever
`fromInput` builds. -/
theorem fromInput_WF_aux (inp : Input K) (hv : inp.valid = true) (b : Basis K)
    (hb : fromInput inp = some b) : WF b := by
  match inp with
  | .ndarray n m rows =>
    simp only [fromInput, Option.some.injEq] at hb; subst hb
    simp only [Input.valid, Bool.and_eq_true, beq_iff_eq, List.all_eq_true] at hv
    exact ⟨hv.1, hv.2⟩
  | .spmat .csc n m p q d =>
    simp only [fromInput, Option.some.injEq] at hb; subst hb
    simp only [Input.valid, Bool.and_eq_true, beq_iff_eq, List.all_eq_true, decide_eq_true_eq] at hv
    exact WF_fromCSC n m p q d hv.1.2
  | .spmat .csr n m p q d =>
    simp only [fromInput, Option.some.injEq] at hb; subst hb
    have := WF_transposeRows m (splitCSC n p q d)
    simpa [splitCSC] using this
  | .spmat .coo n m p q d =>
    simp only [fromInput, Option.some.injEq] at hb; subst hb
    simp only [Input.valid, Bool.and_eq_true, beq_iff_eq, List.all_eq_true, decide_eq_true_eq] at hv
    exact WF_cooCols n m p q d hv.1.2
  | .seq _ [] => simp [fromInput] at hb
  | .seq _ (.vec v :: rest) =>
    simp only [fromInput] at hb
    cases h : allVec v.length (.vec v :: rest) with
    | none => simp [h] at hb
    | some vs => simp [h] at hb; subst hb; exact WF_fromFields _ _
  | .seq _ (.sp nr nc e :: rest) =>
    simp only [fromInput] at hb
    cases h : allRow nc (.sp nr nc e :: rest) with
    | none => simp [h] at hb
    | some es =>
      simp [h] at hb; subst hb
      apply WF_fromSparseRows
      intro c hc q hq
      have hmem := allRow_mem nc _ es h c hc
      simp only [Input.valid, List.all_eq_true] at hv
      have := hv _ hmem
      simp only [Mode.valid, List.all_eq_true, decide_eq_true_eq] at this
      exact this q hq
end

end HcipyVerif.ModeBasis
