import HcipyVerif.Lemmas.FftIndex
import HcipyVerif.Model.FftState

/-!
# The internal array is fully overwritten before it is read

`coreState_eq_core`: whatever the previous contents of the persistent internal array, the FFT core
of `forward`/`backward` computes what the stateless model `core` computes — results of one
transform object do not depend on its call history.
-/
set_option linter.unusedSimpArgs false
set_option linter.unusedVariables false
set_option linter.unusedSectionVars false

namespace HcipyVerif.Fft
open Finset

variable {C : Type} [CommRing C]

theorem loadArray_eq_pad (N M : ℕ) (hNM : N ≤ M) (buf f : ℕ → C) (p : ℕ) (hp : p < M) :
    loadArray N M buf f p = pad N M f p := by
  unfold loadArray pad
  by_cases h : N = M
  · subst h
    have h0 : padStart N N = 0 := by unfold padStart; omega
    simp [overwriteAll, hp, h0]
  · rw [if_neg h]
    unfold writeWindow zeroFill
    by_cases hw : padStart N M ≤ p ∧ p < padStart N M + N
    · rw [if_pos hw, if_pos hw]
    · rw [if_neg hw, if_neg hw, if_pos hp]

theorem dft_congr (M : ℕ) (ker : ℤ → C) (a b : ℕ → C) (h : ∀ p < M, a p = b p) (q : ℕ) :
    dft M ker a q = dft M ker b q := by
  unfold dft
  rw [sumRange_eq, sumRange_eq]
  apply Finset.sum_congr rfl
  intro p hp
  rw [h p (mem_range.mp hp)]

/-- **History independence of the FFT core**: for every previous content `buf` of the internal
array, `forward`/`backward` read exactly the freshly padded input. -/
theorem coreState_eq_core (b : Bool) (N M Mo : ℕ) (hM : 0 < M) (hNM : N ≤ M) (ker : ℤ → C)
    (buf f : ℕ → C) (k : ℕ) :
    coreState b N M Mo ker buf f k = core b N M Mo ker f k := by
  cases b
  · simp only [coreState, core, Bool.false_eq_true, if_false]
    unfold crop
    exact dft_congr M ker _ _ (fun p hp => loadArray_eq_pad N M hNM buf f p hp) _
  · simp only [coreState, core, if_true]
    unfold crop fftshift
    apply dft_congr
    intro p _
    unfold ifftshift
    exact loadArray_eq_pad N M hNM buf f _ (Nat.mod_lt _ hM)

/-- consequently two different histories give the same result -/
theorem coreState_history_independent (b : Bool) (N M Mo : ℕ) (hM : 0 < M) (hNM : N ≤ M)
    (ker : ℤ → C) (buf₁ buf₂ f : ℕ → C) (k : ℕ) :
    coreState b N M Mo ker buf₁ f k = coreState b N M Mo ker buf₂ f k := by
  rw [coreState_eq_core b N M Mo hM hNM, coreState_eq_core b N M Mo hM hNM]

/-- The seeded defect class: without the clearing the result depends on the history
(`N = 1`, `M = 2`, trivial kernel, input `0`, previous contents `1`). -/
theorem coreStateNoClear_history_dependent :
    coreStateNoClear false 1 2 2 (fun _ => (1 : ℤ)) (fun _ => 1) (fun _ => 0) 0
      ≠ coreStateNoClear false 1 2 2 (fun _ => (1 : ℤ)) (fun _ => 0) (fun _ => 0) 0 := by
  decide

end HcipyVerif.Fft
