import HcipyVerif.Model.CacheDecorator

/-!
Helper lemmas for the model of `make_agnostic_optical_element`'s cache (`Model/CacheDecorator.lean`).

`Good e k v`: the element `v` stored under key `k` was constructed for what `k` says — for an
`('input', a)` key from input grid `a`, for an `('output', b)` key from *some* input grid whose
element has output grid `b`, always for the wavelength of the key.  `DSound`: every entry is `Good`.
-/
set_option linter.unusedSimpArgs false
set_option linter.unusedVariables false

namespace HcipyVerif.Cache.Deco

def Good (e : DElem) (k : DKey) (v : DInst) : Prop :=
  v.w = k.w ∧
  match k.grid with
  | none => v.i = none
  | some (Side.input, a) => v.i = some a
  | some (Side.output, b) => ∃ a, v.i = some a ∧ e.outOf a k.w = b

def DSound (e : DElem) (s : DSt) : Prop := ∀ p ∈ s.cache, Good e p.1 p.2

theorem dsound_init (e : DElem) : DSound e DSt.init := by
  intro p hp; cases hp

theorem dlookup_mem {cache : List (DKey × DInst)} {k : DKey} {v : DInst}
    (h : dlookup cache k = some v) : (k, v) ∈ cache := by
  unfold dlookup at h
  cases hf : cache.find? (fun p => p.1 = k) with
  | none => rw [hf] at h; cases h
  | some p =>
    rw [hf] at h
    simp at h
    have hm := List.mem_of_find?_eq_some hf
    have hk := List.find?_some hf
    simp at hk
    obtain ⟨a, b⟩ := p
    simp at hk h
    subst hk; subst h
    exact hm

theorem dassign_forall {P : DKey × DInst → Prop} {c : List (DKey × DInst)} {k : DKey} {v : DInst}
    (hc : ∀ p ∈ c, P p) (hkv : P (k, v)) : ∀ p ∈ dassign c k v, P p := by
  intro p hp
  unfold dassign at hp
  split at hp
  · rw [List.mem_map] at hp
    obtain ⟨q, hq, rfl⟩ := hp
    split
    · exact hkv
    · exact hc q hq
  · rw [List.mem_append] at hp
    rcases hp with hp | hp
    · exact hc p hp
    · simp at hp; subst hp; exact hkv

theorem popOldest_sub {c c' : List (DKey × DInst)} (h : popOldest c = .ok c') : ∀ p ∈ c', p ∈ c := by
  cases c with
  | nil => cases h
  | cons a rest =>
    simp [popOldest] at h
    subst h
    intro p hp
    exact List.mem_cons_of_mem _ hp

theorem devict_sub {e : DElem} {c c' : List (DKey × DInst)} (h : devict e c = .ok c') :
    ∀ p ∈ c', p ∈ c := by
  unfold devict at h
  split at h
  · cases h1 : popOldest c with
    | error err => rw [h1] at h; cases h
    | ok c1 =>
      rw [h1] at h
      simp at h
      intro p hp
      exact popOldest_sub h1 p (popOldest_sub h p hp)
  · cases h; intro p hp; exact hp

/-- With `num_in_cache ≥ 1` the two `popitem` calls never meet an empty dict. -/
theorem devict_ok {e : DElem} (hnum : 1 ≤ e.num) (c : List (DKey × DInst)) :
    ∃ c', devict e c = .ok c' := by
  unfold devict
  split
  · rename_i hlen
    match c, hlen with
    | a :: b :: rest, _ => exact ⟨rest, rfl⟩
    | [a], hlen => simp at hlen; omega
    | [], hlen => simp at hlen; omega
  · exact ⟨c, rfl⟩

theorem devict_init {e : DElem} (hnum : 1 ≤ e.num) : devict e [] = .ok [] := by
  unfold devict
  rw [if_neg]
  simp; omega

/-- A request that names no output grid and is accepted has the key `('input', a)` (or no grid part). -/
theorem dreqKey_forward {e : DElem} {i : Option GridId} {w : Option WlKey} {k : DKey}
    (h : dreqKey e i none w = some k) :
    k.w = (if e.wlDep then w else none) ∧
    ((e.gridDep = false ∧ k.grid = none) ∨
     (e.gridDep = true ∧ ∃ a, i = some a ∧ k.grid = some (Side.input, a))) := by
  unfold dreqKey at h
  split at h
  · cases h
  · split at h
    · cases h
    · rename_i h1 h2
      simp at h
      subst h
      refine ⟨rfl, ?_⟩
      cases hg : e.gridDep with
      | false => left; simp
      | true =>
        right
        refine ⟨rfl, ?_⟩
        cases i with
        | none => simp [hg] at h1
        | some a => exact ⟨a, rfl, by simp⟩

/-- The soundness invariant is preserved and the element handed out is `Good` for the request key. -/
theorem getInstance_sound {e : DElem} {s s' : DSt} {i o : Option GridId} {w : Option WlKey}
    {v : DInst} (hs : DSound e s) (h : getInstance e s i o w = .ok (s', v)) :
    DSound e s' ∧ ∃ k, dreqKey e i o w = some k ∧ Good e k v := by
  unfold getInstance at h
  cases hk : dreqKey e i o w with
  | none => rw [hk] at h; cases h
  | some k =>
    rw [hk] at h
    simp only at h
    cases hl : dlookup s.cache k with
    | some v' =>
      rw [hl] at h
      simp at h
      obtain ⟨rfl, rfl⟩ := h
      exact ⟨hs, k, rfl, hs _ (dlookup_mem hl)⟩
    | none =>
      rw [hl] at h
      simp only at h
      cases ho : o with
      | some b => rw [ho] at h; simp at h
      | none =>
        subst ho
        simp only [Option.isSome_none, Bool.false_eq_true, if_false] at h
        cases hev : devict e s.cache with
        | error err => rw [hev] at h; cases h
        | ok c =>
          rw [hev] at h
          simp only [Except.ok.injEq, Prod.mk.injEq] at h
          obtain ⟨hs', hv⟩ := h
          obtain ⟨hkw, hkg⟩ := dreqKey_forward hk
          have hgood : Good e k (newInst e i w s.next) := by
            refine ⟨by simp [newInst, hkw], ?_⟩
            rcases hkg with ⟨hg, hgrid⟩ | ⟨hg, a, rfl, hgrid⟩
            · rw [hgrid]; simp [newInst, hg]
            · rw [hgrid]; simp [newInst, hg]
          have hc : ∀ p ∈ c, Good e p.1 p.2 := fun p hp => hs p (devict_sub hev p hp)
          have h1 : ∀ p ∈ dassign c k (newInst e i w s.next), Good e p.1 p.2 :=
            dassign_forall (P := fun p => Good e p.1 p.2) hc hgood
          subst hv
          refine ⟨?_, k, rfl, hgood⟩
          subst hs'
          intro p hp
          simp only at hp
          split at hp
          · rename_i _ _ a hg'
            refine dassign_forall (P := fun p => Good e p.1 p.2) h1 ?_ p hp
            refine ⟨by simp [newInst], ?_⟩
            simp only
            exact ⟨a, by simp [newInst, hg'], rfl⟩
          · exact h1 p hp

theorem dstep_ok {e : DElem} {s s' : DSt} {op : DOp} {v : DInst}
    (h : getInstance e s op.i op.o op.w = .ok (s', v)) : dstep e s op = (s', .inst v.i v.w) := by
  unfold dstep; rw [h]

theorem dstep_err {e : DElem} {s : DSt} {op : DOp} {err : DErr}
    (h : getInstance e s op.i op.o op.w = .error err) : dstep e s op = (s, .error err) := by
  unfold dstep; rw [h]

/-- Every step keeps the cache sound. -/
theorem dstep_sound {e : DElem} {s : DSt} (hs : DSound e s) (op : DOp) : DSound e (dstep e s op).1 := by
  cases h : getInstance e s op.i op.o op.w with
  | error err => rw [dstep_err h]; exact hs
  | ok r =>
    obtain ⟨s', v⟩ := r
    rw [dstep_ok h]
    exact (getInstance_sound hs h).1

/-- What any sound state answers to a request without output grid: `ValueError` when the request is
incomplete, otherwise an element built from the requested grid and wavelength. -/
theorem forward_answer {e : DElem} (hnum : 1 ≤ e.num) {s : DSt} (hs : DSound e s)
    (i : Option GridId) (w : Option WlKey) :
    (dstep e s ⟨i, none, w⟩).2 =
      (match dreqKey e i none w with
       | none => DResp.error .value
       | some _ => DResp.inst (if e.gridDep then i else none) (if e.wlDep then w else none)) := by
  cases hk : dreqKey e i none w with
  | none =>
    have : getInstance e s i none w = .error .value := by unfold getInstance; rw [hk]
    rw [dstep_err (op := ⟨i, none, w⟩) this]
  | some k =>
    obtain ⟨hkw, hkg⟩ := dreqKey_forward hk
    cases h : getInstance e s i none w with
    | error err =>
      exfalso
      unfold getInstance at h
      rw [hk] at h
      simp only at h
      cases hl : dlookup s.cache k with
      | some v => rw [hl] at h; cases h
      | none =>
        rw [hl] at h
        simp only [Option.isSome_none, Bool.false_eq_true, if_false] at h
        obtain ⟨c, hc⟩ := devict_ok hnum s.cache
        rw [hc] at h
        cases h
    | ok r =>
      obtain ⟨s', v⟩ := r
      rw [dstep_ok (op := ⟨i, none, w⟩) h]
      obtain ⟨_, k', hk', hg⟩ := getInstance_sound hs h
      rw [hk] at hk'
      cases hk'
      obtain ⟨hw, hgrid⟩ := hg
      simp only
      rw [hw, hkw]
      rcases hkg with ⟨hg, hgr⟩ | ⟨hg, a, rfl, hgr⟩
      · rw [hgr] at hgrid
        simp only at hgrid
        rw [hgrid, hg]; simp
      · rw [hgr] at hgrid
        simp only at hgrid
        rw [hgrid, hg]; simp

end HcipyVerif.Cache.Deco
