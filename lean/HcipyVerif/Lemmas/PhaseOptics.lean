import HcipyVerif.Model.PhaseOptics
import HcipyVerif.Lemmas.Jones
import Mathlib.Analysis.Complex.Exponential
import Mathlib.Analysis.Complex.Norm
import Mathlib.Tactic.NormNum
import Mathlib.Analysis.Real.Sqrt
import Mathlib.Algebra.BigOperators.Ring.Finset
import Mathlib.Algebra.Order.BigOperators.Ring.Finset
import Mathlib.Algebra.Order.Chebyshev
import Mathlib.Tactic.Ring
import Mathlib.Tactic.FieldSimp
import Mathlib.Tactic.Linarith
import Mathlib.Tactic.Positivity

/-!
# Generic facts behind C07 (helpers; no model of hcipy involved)

The unimodular character `UChar` (abstract `t ↦ exp(i t)`), and the textbook inequalities the property theorems of
`Properties/C07.lean` instantiate on the executable model: `|E·u| = |E|` for unimodular `u`, `|E·t| ≤ |E|` for `|t| ≤ 1`,
contraction of diagonal filters and crops, the abstract `crop ∘ F⁻¹ ∘ D ∘ F ∘ pad` chain, Cauchy–Schwarz for the fibre
coupling integral, the magnifier's `|E/s|²·(w·m) = |E|²·w`.  (Until round 3 these stood in `Properties/C07.lean`; the audit
found them free-standing — they are not evidence about the code by themselves and were moved here in round 4.)
-/
set_option linter.unusedSimpArgs false
set_option linter.unusedVariables false
set_option linter.unusedSectionVars false

namespace HcipyVerif.C07
open HcipyVerif.PhaseOptics HcipyVerif.Jones Finset

/-- A unimodular character `ℝ → ℂ` (abstract `t ↦ exp(i t)`). -/
structure UChar where
  χ : ℝ → ℂ
  add : ∀ a b, χ (a + b) = χ a * χ b
  zero : χ 0 = 1
  conj : ∀ a, (starRingEnd ℂ) (χ a) = χ (-a)

/-- The character the code uses: `t ↦ exp(i t)` (so no axiom is hidden in `UChar`). -/
noncomputable def expChar : UChar where
  χ := fun t => Complex.exp (t * Complex.I)
  add := by intro a b; rw [← Complex.exp_add]; congr 1; push_cast; ring
  zero := by simp
  conj := by
    intro a
    rw [← Complex.exp_conj]
    congr 1
    simp [Complex.conj_ofReal]

theorem UChar.mul_neg (c : UChar) (a : ℝ) : c.χ a * c.χ (-a) = 1 := by
  rw [← c.add, add_neg_cancel, c.zero]

theorem UChar.normSq_eq_one (c : UChar) (a : ℝ) : Complex.normSq (c.χ a) = 1 := by
  have h : ((Complex.normSq (c.χ a) : ℝ) : ℂ) = 1 := by
    rw [Complex.normSq_eq_conj_mul_self, c.conj, mul_comm, c.mul_neg]
  exact_mod_cast h

/-- Per-pixel power (intensity × cell area) is unchanged by any unimodular multiplier. -/
theorem phase_only_pixel_power (c : UChar) (E : ℂ) (φ w : ℝ) :
    Complex.normSq (E * c.χ φ) * w = Complex.normSq E * w := by
  rw [Complex.normSq_mul, c.normSq_eq_one, mul_one]

/-- … hence total power, for any finite set of pixels, weights and per-pixel phases. -/
theorem phase_only_total_power {ι : Type} (s : Finset ι) (c : UChar) (E : ι → ℂ) (φ w : ι → ℝ) :
    ∑ i ∈ s, Complex.normSq (E i * c.χ (φ i)) * w i = ∑ i ∈ s, Complex.normSq (E i) * w i :=
  Finset.sum_congr rfl fun i _ => phase_only_pixel_power c (E i) (φ i) (w i)

/-- `backward` (conjugate multiplier) undoes `forward`, and vice versa. -/
theorem phase_only_inverse (c : UChar) (E : ℂ) (φ : ℝ) :
    E * c.χ φ * c.χ (-φ) = E ∧ E * c.χ (-φ) * c.χ φ = E := by
  constructor
  · rw [mul_assoc, c.mul_neg, mul_one]
  · rw [mul_assoc, mul_comm (c.χ (-φ)), c.mul_neg, mul_one]

/-- Field divided by `s = sqrt |M₁ M₂|`, weights multiplied by `|M₁ M₂|`: per-pixel power is conserved
for either sign of each magnification (`m = |M₁ M₂| > 0`, `s² = m`). -/
theorem magnifier_pixel_power (E : ℂ) (w m s : ℝ) (hm : 0 < m) (hs : s * s = m) :
    Complex.normSq (E / (s : ℂ)) * (w * m) = Complex.normSq E * w := by
  have hs0 : s ≠ 0 := by intro h; rw [h] at hs; linarith
  rw [Complex.normSq_div, Complex.normSq_ofReal, hs]
  field_simp

/-- The divisor used by the (repaired) code satisfies the hypotheses of `magnifier_pixel_power`. -/
theorem magnifier_divisor_ok (m1 m2 : ℝ) (h1 : m1 ≠ 0) (h2 : m2 ≠ 0) :
    0 < |m1 * m2| ∧ Real.sqrt |m1 * m2| * Real.sqrt |m1 * m2| = |m1 * m2| :=
  ⟨abs_pos.mpr (mul_ne_zero h1 h2), Real.mul_self_sqrt (abs_nonneg _)⟩

/-- `backward` (multiply by `s`, scale the grid by `1/M`) undoes `forward`. -/
theorem magnifier_backward_inverse (E : ℂ) (s x m : ℝ) (hs : s ≠ 0) (hm : m ≠ 0) :
    E / (s : ℂ) * (s : ℂ) = E ∧ x * m * (1 / m) = x := by
  have hs' : (s : ℂ) ≠ 0 := by exact_mod_cast hs
  exact ⟨div_mul_cancel₀ E hs', by field_simp⟩

/-- A mask with `|t| ≤ 1` never increases the power of a pixel (`w ≥ 0`). -/
theorem mask_passive (E t : ℂ) (w : ℝ) (ht : Complex.normSq t ≤ 1) (hw : 0 ≤ w) :
    Complex.normSq (E * t) * w ≤ Complex.normSq E * w := by
  rw [Complex.normSq_mul]
  have : Complex.normSq E * Complex.normSq t ≤ Complex.normSq E * 1 :=
    mul_le_mul_of_nonneg_left ht (Complex.normSq_nonneg E)
  nlinarith [Complex.normSq_nonneg E]

/-- hence total power. -/
theorem mask_passive_total {ι : Type} (s : Finset ι) (E t : ι → ℂ) (w : ι → ℝ)
    (ht : ∀ i ∈ s, Complex.normSq (t i) ≤ 1) (hw : ∀ i ∈ s, 0 ≤ w i) :
    ∑ i ∈ s, Complex.normSq (E i * t i) * w i ≤ ∑ i ∈ s, Complex.normSq (E i) * w i :=
  Finset.sum_le_sum fun i hi => mask_passive (E i) (t i) (w i) (ht i hi) (hw i hi)

/-- A diagonal filter with `|D k| ≤ 1` does not increase the energy of a spectrum. -/
theorem diagonal_filter_contracts {ι : Type} (s : Finset ι) (D a : ι → ℂ) (hD : ∀ k ∈ s, Complex.normSq (D k) ≤ 1) :
    ∑ k ∈ s, Complex.normSq (D k * a k) ≤ ∑ k ∈ s, Complex.normSq (a k) := by
  apply Finset.sum_le_sum
  intro k hk
  rw [Complex.normSq_mul]
  have := mul_le_mul_of_nonneg_right (hD k hk) (Complex.normSq_nonneg (a k))
  linarith

/-- Cropping (restricting to a subset of the samples) does not increase the energy. -/
theorem crop_contracts {ι : Type} (s t : Finset ι) (hst : s ⊆ t) (a : ι → ℂ) :
    ∑ k ∈ s, Complex.normSq (a k) ≤ ∑ k ∈ t, Complex.normSq (a k) :=
  Finset.sum_le_sum_of_subset_of_nonneg hst fun k _ _ => Complex.normSq_nonneg (a k)

/-- **Knife-edge coronagraph** `crop ∘ F⁻¹ ∘ D ∘ F ∘ pad` (optionally between two masks) with
`0 ≤ D ≤ 1`: given that `F` and `F⁻¹` preserve the energy `en` up to the usual constant scale
(unitary transform — this is C02's Parseval), that zero-padding preserves it and that the diagonal filter
and the crop contract it (the two lemmas above), the output energy is at most the input energy. -/
theorem knife_edge_passive {V W : Type} (enV : V → ℝ) (enW : W → ℝ)
    (pad : V → W) (crop : W → V) (F Fi D : W → W) (κ : ℝ) (hκ : 0 < κ)
    (hpad : ∀ x, enW (pad x) = enV x) (hcrop : ∀ y, enV (crop y) ≤ enW y)
    (hF : ∀ y, enW (F y) = κ * enW y) (hFi : ∀ y, enW (Fi y) = κ⁻¹ * enW y)
    (hD : ∀ y, enW (D y) ≤ enW y) (x : V) :
    enV (crop (Fi (D (F (pad x))))) ≤ enV x := by
  calc enV (crop (Fi (D (F (pad x))))) ≤ enW (Fi (D (F (pad x)))) := hcrop _
    _ = κ⁻¹ * enW (D (F (pad x))) := hFi _
    _ ≤ κ⁻¹ * enW (F (pad x)) := mul_le_mul_of_nonneg_left (hD _) (inv_nonneg.mpr hκ.le)
    _ = κ⁻¹ * (κ * enW (pad x)) := by rw [hF]
    _ = enW (pad x) := by field_simp
    _ = enV x := hpad x

/-- Cauchy–Schwarz for the coupling integral, without assuming a normalised mode. -/
theorem fibre_cauchy_schwarz {ι : Type} (s : Finset ι) (E m : ι → ℂ) (w : ι → ℝ) (hw : ∀ i ∈ s, 0 ≤ w i) :
    Complex.normSq (∑ i ∈ s, (starRingEnd ℂ) (E i) * (w i : ℂ) * m i)
      ≤ (∑ i ∈ s, Complex.normSq (E i) * w i) * (∑ i ∈ s, Complex.normSq (m i) * w i) := by
  have h1 : ‖∑ i ∈ s, (starRingEnd ℂ) (E i) * (w i : ℂ) * m i‖
      ≤ ∑ i ∈ s, (‖E i‖ * Real.sqrt (w i)) * (‖m i‖ * Real.sqrt (w i)) := by
    refine (norm_sum_le _ _).trans (le_of_eq ?_)
    apply Finset.sum_congr rfl
    intro i hi
    rw [Complex.norm_mul, Complex.norm_mul, Complex.norm_conj, Complex.norm_real, Real.norm_of_nonneg (hw i hi)]
    have hsq := Real.mul_self_sqrt (hw i hi)
    calc ‖E i‖ * w i * ‖m i‖ = ‖E i‖ * (Real.sqrt (w i) * Real.sqrt (w i)) * ‖m i‖ := by rw [hsq]
      _ = ‖E i‖ * Real.sqrt (w i) * (‖m i‖ * Real.sqrt (w i)) := by ring
  have h2 := Finset.sum_mul_sq_le_sq_mul_sq s (fun i => ‖E i‖ * Real.sqrt (w i)) (fun i => ‖m i‖ * Real.sqrt (w i))
  have e1 : ∑ i ∈ s, (‖E i‖ * Real.sqrt (w i)) ^ 2 = ∑ i ∈ s, Complex.normSq (E i) * w i := by
    apply Finset.sum_congr rfl
    intro i hi
    rw [mul_pow, Real.sq_sqrt (hw i hi), Complex.normSq_eq_norm_sq]
  have e2 : ∑ i ∈ s, (‖m i‖ * Real.sqrt (w i)) ^ 2 = ∑ i ∈ s, Complex.normSq (m i) * w i := by
    apply Finset.sum_congr rfl
    intro i hi
    rw [mul_pow, Real.sq_sqrt (hw i hi), Complex.normSq_eq_norm_sq]
  rw [e1, e2] at h2
  rw [Complex.normSq_eq_norm_sq]
  have h0 : 0 ≤ ‖∑ i ∈ s, (starRingEnd ℂ) (E i) * (w i : ℂ) * m i‖ := norm_nonneg _
  calc ‖∑ i ∈ s, (starRingEnd ℂ) (E i) * (w i : ℂ) * m i‖ ^ 2
      ≤ (∑ i ∈ s, (‖E i‖ * Real.sqrt (w i)) * (‖m i‖ * Real.sqrt (w i))) ^ 2 := by
        exact pow_le_pow_left₀ h0 h1 2
    _ ≤ _ := h2

/-- The five hypotheses of `knife_edge_passive` are jointly satisfiable by non-trivial maps (`F = 2·`, `F⁻¹ = ·/2`,
`D = ·/2`, energy `y²`, `κ = 4`); the real instance is `knife_model_passive` below. -/
example (x : ℝ) : (fun v : ℝ => v ^ 2) (id ((fun y : ℝ => y / 2) ((fun y : ℝ => y / 2) ((fun y : ℝ => 2 * y) (id x))))) ≤ (fun v : ℝ => v ^ 2) x :=
  knife_edge_passive (fun v : ℝ => v ^ 2) (fun v : ℝ => v ^ 2) id id (fun y => 2 * y) (fun y => y / 2) (fun y => y / 2) 4
    (by norm_num) (fun _ => rfl) (fun _ => le_refl _) (fun y => by ring) (fun y => by ring)
    (fun y => by nlinarith [sq_nonneg y]) x

/-- **Single-mode fibre injection**: the coupled amplitude is `a = Σ conj(E_i) w_i m_i` with a mode
normalised to `Σ |m_i|² w_i = 1` (`w_i ≥ 0`); its power `|a|²` (output cell area 1) is at most the
input power `Σ |E_i|² w_i`. -/
theorem fibre_passive {ι : Type} (s : Finset ι) (E m : ι → ℂ) (w : ι → ℝ) (hw : ∀ i ∈ s, 0 ≤ w i)
    (hnorm : ∑ i ∈ s, Complex.normSq (m i) * w i = 1) :
    Complex.normSq (∑ i ∈ s, (starRingEnd ℂ) (E i) * (w i : ℂ) * m i) ≤ ∑ i ∈ s, Complex.normSq (E i) * w i := by
  have h := fibre_cauchy_schwarz s E m w hw
  rwa [hnorm, mul_one] at h

/-- The hypotheses of `fibre_passive` are satisfiable (one pixel, unit weight, unit mode). -/
example : ∑ i ∈ ({0} : Finset ℕ), Complex.normSq ((fun _ => (1 : ℂ)) i) * (fun _ => (1 : ℝ)) i = 1 := by simp

theorem cx_ext {a b : Cx ℝ} (h1 : a.re = b.re) (h2 : a.im = b.im) : a = b := by
  cases a; cases b; simp_all

end HcipyVerif.C07
