import Mathlib.Data.List.InsertIdx
import HcipyVerif.Model.Axes

/-!
# ZoomFastFourierTransform axis bookkeeping (C02, defect D5)

`zoom_axes_ok`: for every tensor rank `r` and every `ndim`, the repaired loop
(`moveaxis(f, -i-1, -1); czt; moveaxis(f, -1, -i-1)`) transforms the axis with dims-index `i` at
iteration `i` and restores the initial layout.  The code as it stands (`moveaxis(f, -i, 0)` twice)
fails for a tensor field on a 2-D grid and for scalar fields on a 3-D grid
(`zoom_axes_old_counterexample_*`), and is fine for scalar fields up to 2-D.
-/
set_option linter.unusedSimpArgs false
set_option linter.unusedVariables false

namespace HcipyVerif.Axes

section moveaxis
variable {α : Type}

theorem normIdx_neg_succ {n i : ℕ} (hi : i < n) : normIdx n (-(i : Int) - 1) = n - 1 - i := by
  unfold normIdx
  rw [if_pos (by omega)]
  omega

theorem axisOk_neg_succ {n i : ℕ} (hi : i < n) : axisOk n (-(i : Int) - 1) = true := by
  simp only [axisOk, Bool.and_eq_true, decide_eq_true_eq]
  omega

/-- `moveaxis(f, -i-1, -1)`: the axis at position `len-1-i` goes to the end. -/
theorem moveaxis_to_last (l : List α) {i : ℕ} (hi : i < l.length) :
    moveaxis l (-(i : Int) - 1) (-1) =
      l.eraseIdx (l.length - 1 - i) ++ [l[l.length - 1 - i]'(by omega)] := by
  have h0 : 0 < l.length := by omega
  have hs : l.length - 1 - i < l.length := by omega
  have hd : normIdx l.length (-1) = l.length - 1 := by
    simpa using normIdx_neg_succ (i := 0) h0
  have hok : axisOk l.length (-1) = true := by simpa using axisOk_neg_succ (i := 0) h0
  unfold moveaxis
  simp only [normIdx_neg_succ hi, hd, axisOk_neg_succ hi, hok, Bool.and_self, if_true,
    List.getElem?_eq_getElem hs]
  have hlen : (l.eraseIdx (l.length - 1 - i)).length = l.length - 1 :=
    List.length_eraseIdx_of_lt hs
  have h := List.insertIdx_length_self (l := l.eraseIdx (l.length - 1 - i))
    (x := l[l.length - 1 - i]'hs)
  rw [hlen] at h
  exact h

/-- `moveaxis(f, -1, -i-1)` applied to `m ++ [a]`: `a` is inserted at position `len-1-i`. -/
theorem moveaxis_from_last (m : List α) (a : α) {i : ℕ} (hi : i < m.length + 1) :
    moveaxis (m ++ [a]) (-1) (-(i : Int) - 1) = m.insertIdx (m.length - i) a := by
  have hlen : (m ++ [a]).length = m.length + 1 := by simp
  have hi' : i < (m ++ [a]).length := by omega
  have h0 : 0 < (m ++ [a]).length := by omega
  have hs : normIdx (m ++ [a]).length (-1) = m.length := by
    have := normIdx_neg_succ (i := 0) h0
    simp only [Int.natCast_zero, Int.neg_zero, Int.zero_sub] at this
    rw [this, hlen]; omega
  have hok : axisOk (m ++ [a]).length (-1) = true := by simpa using axisOk_neg_succ (i := 0) h0
  have hd : normIdx (m ++ [a]).length (-(i : Int) - 1) = m.length - i := by
    rw [normIdx_neg_succ hi', hlen]; omega
  unfold moveaxis
  simp only [hs, hd, hok, axisOk_neg_succ hi', Bool.and_self, if_true]
  have hget : (m ++ [a])[m.length]? = some a := by simp
  rw [hget]
  have : (m ++ [a]).eraseIdx m.length = m := by
    rw [List.eraseIdx_append_of_length_le (Nat.le_refl _)]; simp
  simp only [this]

/-- the label the CZT sees after the first move -/
theorem getLast?_moveaxis_to_last (l : List α) {i : ℕ} (hi : i < l.length) :
    (moveaxis l (-(i : Int) - 1) (-1)).getLast? = some (l[l.length - 1 - i]'(by omega)) := by
  rw [moveaxis_to_last l hi, List.getLast?_concat]

/-- the two moves of the repaired loop body cancel, for every layout and every `i < len` -/
theorem moveaxis_roundtrip (l : List α) {i : ℕ} (hi : i < l.length) :
    moveaxis (moveaxis l (-(i : Int) - 1) (-1)) (-1) (-(i : Int) - 1) = l := by
  have hs : l.length - 1 - i < l.length := by omega
  have hlen : (l.eraseIdx (l.length - 1 - i)).length = l.length - 1 :=
    List.length_eraseIdx_of_lt hs
  rw [moveaxis_to_last l hi, moveaxis_from_last _ _ (by omega), hlen]
  exact List.insertIdx_eraseIdx_getElem hs

end moveaxis

theorem length_initLayout (r ndim : ℕ) : (initLayout r ndim).length = r + ndim := by
  simp [initLayout]

/-- the grid axis with dims-index `i` sits at position `r + (ndim-1-i)` -/
theorem initLayout_getElem (r ndim : ℕ) {i : ℕ} (hi : i < ndim) :
    (initLayout r ndim)[r + ndim - 1 - i]'(by rw [length_initLayout]; omega) = Ax.g i := by
  unfold initLayout
  rw [List.getElem_append_right (by simp; omega)]
  simp only [List.length_map, List.length_range, List.getElem_map, List.getElem_reverse,
    List.getElem_range]
  congr 1
  omega

/-- one iteration of the repaired loop on the initial layout -/
theorem zoomStep_init (r ndim : ℕ) {i : ℕ} (hi : i < ndim) :
    zoomStep (initLayout r ndim) i = ([Ax.g i], initLayout r ndim) := by
  have hi' : i < (initLayout r ndim).length := by rw [length_initLayout]; omega
  unfold zoomStep
  simp only [moveaxis_roundtrip _ hi', getLast?_moveaxis_to_last _ hi', Option.toList_some,
    length_initLayout, initLayout_getElem r ndim hi]

theorem runLoop_zoomStep (r ndim : ℕ) : ∀ k, k ≤ ndim →
    runLoop zoomStep (initLayout r ndim) k = ((List.range k).map Ax.g, initLayout r ndim) := by
  intro k
  induction k with
  | zero => intro _; rfl
  | succ k ih =>
    intro hk
    have ih := ih (by omega)
    unfold runLoop at ih ⊢
    rw [List.range_succ, List.foldl_append, ih]
    simp only [List.foldl_cons, List.foldl_nil, zoomStep_init r ndim (show k < ndim by omega),
      List.map_append, List.map_cons, List.map_nil]

/-- **The repaired ZoomFFT loop is correct for every tensor rank and every dimension**: iteration
`i` transforms the axis with dims-index `i`, and the layout after the loop is the initial one. -/
theorem zoom_axes_ok : ∀ r ndim,
    zoomLoop r ndim = (List.range ndim |>.map Ax.g, initLayout r ndim) := by
  intro r ndim
  exact runLoop_zoomStep r ndim ndim (Nat.le_refl _)

/-- tensor field (rank 1) on a 2-D grid: the current code returns the layout `[y, x, t]` instead
of `[t, y, x]` — the subsequent `reshape(tensor_shape + (-1,))` scrambles the data. -/
theorem zoom_axes_old_counterexample_tensor :
    zoomLoopOld 1 2 = ([Ax.g 0, Ax.g 1], [Ax.g 1, Ax.g 0, Ax.t 0]) ∧
    zoomLoopOld 1 2 ≠ (List.range 2 |>.map Ax.g, initLayout 1 2) := by
  decide

/-- scalar field on a 3-D grid: the current code returns the layout `[y, x, z]` instead of
`[z, y, x]`. -/
theorem zoom_axes_old_counterexample_3d :
    zoomLoopOld 0 3 = ([Ax.g 0, Ax.g 1, Ax.g 2], [Ax.g 1, Ax.g 0, Ax.g 2]) ∧
    zoomLoopOld 0 3 ≠ (List.range 3 |>.map Ax.g, initLayout 0 3) := by
  decide

/-- scalar field on a 4-D grid: here the current code also transforms a wrong axis (iteration 3
hits dims-index 2 again; dims-index 3 is never transformed). -/
theorem zoom_axes_old_counterexample_wrong_axis :
    (zoomLoopOld 0 4).1 = [Ax.g 0, Ax.g 1, Ax.g 2, Ax.g 2] ∧
    (zoomLoopOld 0 4).1 ≠ (List.range 4 |>.map Ax.g) := by
  decide

/-- scalar fields on 0-, 1-, 2-D grids: the current code is fine. -/
theorem zoom_axes_old_ok_2d_scalar : ∀ ndim ∈ [0, 1, 2],
    zoomLoopOld 0 ndim = (List.range ndim |>.map Ax.g, initLayout 0 ndim) := by
  decide

end HcipyVerif.Axes
