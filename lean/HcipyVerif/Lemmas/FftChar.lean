import Mathlib.Algebra.Field.Basic
import Mathlib.Tactic.Ring

/-!
# Abstract characters `K → C` (shared by the C01/C02 lemma files)

`exp` enters every Fourier theorem only through these laws; `Lemmas/FourierC02.lean`
instantiates them with `Complex.exp`.
-/
namespace HcipyVerif.Fft

/-- `T (a + b) = T a * T b`, `T 0 = 1`. -/
structure IsChar {K C : Type} [Field K] [Field C] (T : K → C) : Prop where
  add : ∀ a b, T (a + b) = T a * T b
  zero : T 0 = 1

namespace IsChar
variable {K C : Type} [Field K] [Field C] {T : K → C} (h : IsChar T)
include h

theorem mul_neg (a : K) : T a * T (-a) = 1 := by
  rw [← h.add, add_neg_cancel, h.zero]

theorem ne_zero (a : K) : T a ≠ 0 := by
  intro h0
  have := h.mul_neg a
  rw [h0, zero_mul] at this
  exact zero_ne_one this

theorem inv (a : K) : (T a)⁻¹ = T (-a) := by
  have := h.mul_neg a
  exact inv_eq_of_mul_eq_one_right this

theorem sub (a b : K) : T (a - b) = T a * (T b)⁻¹ := by
  rw [sub_eq_add_neg, h.add, h.inv]

end IsChar
end HcipyVerif.Fft
