import HcipyVerif.Lemmas.AperturePolar

/-!
# C12 — the polar code path on float direction cosines

`PolarPt` (`cos² + sin² = 1` exactly) is not true of the floats the driver is sent; `diskAgree` (Model) is the
decidable condition under which the polar path still equals the point semantics, and `diskAgree_of_far` bounds where
it can fail.
-/

set_option linter.unusedSimpArgs false
set_option linter.unusedVariables false

namespace HcipyVerif.Aperture

/-- **the polar code path computes the point semantics wherever the radius shortcuts agree with the
Cartesian test** — no assumption on the direction cosines (they need not be a unit vector, as the
floats `cos θ`, `sin θ` are not), none on the radii -/
theorem evalPolar_eq_val_of_agree : ∀ (s : Shape) (qs : List PPt), (∀ q ∈ qs, diskAgree s q = true) →
    evalPolar s qs = (qs.map toCart).map (val s) := by
  intro s
  induction s with
  | disk R =>
    intro qs hq
    rw [evalPolar, List.map_map]
    apply List.map_congr_left
    intro q hqm
    have := hq q hqm
    simp only [diskAgree, beq_iff_eq] at this
    simp only [Function.comp_def, val, this]
  | compl a ih => intro qs hq; rw [evalPolar, ih qs hq]; simp [val]
  | mul a b iha ihb =>
    intro qs hq
    have ha : ∀ q ∈ qs, diskAgree a q = true := fun q h => by
      have := hq q h; simp only [diskAgree, Bool.and_eq_true] at this; exact this.1
    have hb : ∀ q ∈ qs, diskAgree b q = true := fun q h => by
      have := hq q h; simp only [diskAgree, Bool.and_eq_true] at this; exact this.2
    rw [evalPolar, iha qs ha, ihb qs hb, zipWith_map_same]; simp [val]
  | sub a b iha ihb =>
    intro qs hq
    have ha : ∀ q ∈ qs, diskAgree a q = true := fun q h => by
      have := hq q h; simp only [diskAgree, Bool.and_eq_true] at this; exact this.1
    have hb : ∀ q ∈ qs, diskAgree b q = true := fun q h => by
      have := hq q h; simp only [diskAgree, Bool.and_eq_true] at this; exact this.2
    rw [evalPolar, iha qs ha, ihb qs hb, zipWith_map_same]; simp [val]
  | rot c s a ih =>
    intro qs hq
    have hq' : ∀ q ∈ qs.map (rotDir c s), diskAgree a q = true := by
      intro q hqm
      simp only [List.mem_map] at hqm
      obtain ⟨q0, hq0, rfl⟩ := hqm
      have := hq q0 hq0
      simpa only [diskAgree] using this
    rw [evalPolar, ih _ hq', List.map_map, List.map_map, List.map_map]
    apply List.map_congr_left
    intro q _
    simp only [Function.comp_def, toCart_rotDir, val]
  | circle r cx cy => intro qs _; rw [evalPolar, evalPts_eq_val] <;> (intros; simp_all)
  | halfplane gt a b c => intro qs _; rw [evalPolar, evalPts_eq_val] <;> (intros; simp_all)
  | ellipse cM sM cm sm cx cy mn => intro qs _; rw [evalPolar, evalPts_eq_val] <;> (intros; simp_all)
  | rect hx hy cx cy => intro qs _; rw [evalPolar, evalPts_eq_val] <;> (intros; simp_all)
  | regpoly even r a dirs cx cy => intro qs _; rw [evalPolar, evalPts_eq_val] <;> (intros; simp_all)
  | irrpoly vs hx hy bx by_ => intro qs _; rw [evalPolar, evalPts_eq_val] <;> (intros; simp_all)
  | spider sx sy c s hl hw => intro qs _; rw [evalPolar, evalPts_eq_val] <;> (intros; simp_all)
  | spiderInf px py c s hw => intro qs _; rw [evalPolar, evalPts_eq_val] <;> (intros; simp_all)
  | const v => intro qs _; rw [evalPolar, evalPts_eq_val] <;> (intros; simp_all)
  | shift dx dy a ih => intro qs _; rw [evalPolar, evalPts_eq_val] <;> (intros; simp_all)
  | seg segs a ih => intro qs _; rw [evalPolar, evalPts_eq_val] <;> (intros; simp_all)

/-- **float direction cosines**: if `cos² + sin²` is within `ε` of 1, the radius shortcut `r ≤ R`
and the Cartesian test `(r cos)² + (r sin)² ≤ R²` can differ only within relative `ε` of the rim:
they agree whenever `ε·r² < |r² − R²|` -/
theorem diskAgree_of_far {R ε : Rat} (hR : 0 ≤ R) {q : PPt} (hr : 0 ≤ q.1)
    (hn : |q.2.1 * q.2.1 + q.2.2 * q.2.2 - 1| ≤ ε) (hfar : ε * sq q.1 < |sq q.1 - sq R|) :
    diskAgree (.disk R) q = true := by
  obtain ⟨r, c, s⟩ := q
  simp only at hr hn hfar
  simp only [diskAgree, inCircle, toCart, sub_zero, beq_iff_eq]
  have hn' := abs_le.mp hn
  have hcart : sq (r * c) + sq (r * s) = sq r * (c * c + s * s) := by unfold sq; ring
  have hr2 : 0 ≤ sq r := by unfold sq; exact mul_self_nonneg r
  rw [hcart]
  by_cases h : r ≤ R
  · have hle : sq r ≤ sq R := by unfold sq; exact mul_self_le_mul_self hr h
    have habs : |sq r - sq R| = sq R - sq r := by rw [abs_of_nonpos (by linarith)]; ring
    rw [habs] at hfar
    have : sq r * (c * c + s * s) ≤ sq R := by nlinarith [hn'.2]
    simp [h, this]
  · have hlt : R < r := lt_of_not_ge h
    have hgt : sq R < sq r := by unfold sq; exact mul_self_lt_mul_self hR hlt
    have habs : |sq r - sq R| = sq r - sq R := abs_of_pos (by linarith)
    rw [habs] at hfar
    have : ¬ (sq r * (c * c + s * s) ≤ sq R) := by
      intro hc
      nlinarith [hn'.1]
    simp [h, this]

/-- `PolarGrid.rotate` on float cosines: the squared norm of the direction is multiplied by the
squared norm of the rotation -/
theorem rotDir_norm (c s : Rat) (q : PPt) :
    (rotDir c s q).2.1 * (rotDir c s q).2.1 + (rotDir c s q).2.2 * (rotDir c s q).2.2
      = (c * c + s * s) * (q.2.1 * q.2.1 + q.2.2 * q.2.2) := by
  simp only [rotDir]; ring

/-- the exact case is the special case `ε = 0` -/
theorem diskAgree_of_polarPt {R : Rat} (hR : 0 ≤ R) {q : PPt} (hq : PolarPt q) :
    diskAgree (.disk R) q = true := by
  have := disk_shortcut hR hq
  simp only [val] at this
  simp only [diskAgree, beq_iff_eq]
  by_cases h : q.1 ≤ R <;> by_cases h2 : inCircle R 0 0 (toCart q) = true <;> simp_all [b2r]

end HcipyVerif.Aperture
