import HcipyVerif.Model.FftGrid
import HcipyVerif.Model.FftIndex
import Mathlib.Tactic.Ring
import Mathlib.Tactic.Linarith
import Mathlib.Tactic.FieldSimp
import Mathlib.Algebra.Order.Field.Basic
import Mathlib.Algebra.Order.Field.Rat
import Mathlib.Algebra.Order.Floor.Ring
import Mathlib.Data.Rat.Floor

/-!
# The plan of `FastFourierTransform.__init__` is grid-consistent (C01 bridge)

`plan` (`Model/FftGrid.lean`, the definition the driver op `C01 plan` runs and the harness compares
with the sizes, cut-outs and output grid the real object reports) satisfies, for **every** request the
constructor accepts (`0 < N`, `δ ≠ 0`, `1 ≤ q`, `fov ≤ 1`), the hypotheses `N ≤ M`, `Mo ≤ M`,
`dT·M·δ = 1` of the pipeline theorems.  The side conditions are the constructor's own checks
(`q < 1` raises; `fov > 1` raises through `output_grid.dims > internal_grid.dims`).
-/
set_option linter.unusedSimpArgs false
set_option linter.unusedVariables false
set_option linter.unusedSectionVars false

namespace HcipyVerif.Fft

theorem ratFloor_eq' (x : Rat) : x.floor = ⌊x⌋ := rfl

/-- `np.round` never rounds below the floor -/
theorem floor_le_roundHalfEven (x : Rat) : x.floor ≤ roundHalfEven x := by
  unfold roundHalfEven
  simp only
  split_ifs <;> omega

/-- `N ≤ round(q·N)` for `q ≥ 1` -/
theorem le_paddedSize (N : ℕ) (q : Rat) (hq : 1 ≤ q) : N ≤ paddedSize N q := by
  unfold paddedSize
  have h1 : (N : Rat) ≤ q * (N : Rat) := by
    have : (0 : Rat) ≤ (N : Rat) := Nat.cast_nonneg N
    nlinarith
  have h2 : (N : ℤ) ≤ (q * (N : Rat)).floor := by
    rw [ratFloor_eq']; exact Int.le_floor.mpr (by exact_mod_cast h1)
  have h3 := floor_le_roundHalfEven (q * (N : Rat))
  omega

/-- `int(M·fov) ≤ M` for `fov ≤ 1` -/
theorem outSize_le (M : ℕ) (fov : Rat) (hf : fov ≤ 1) : outSize M fov ≤ M := by
  unfold outSize
  have h1 : (M : Rat) * fov ≤ (M : Rat) := by
    have : (0 : Rat) ≤ (M : Rat) := Nat.cast_nonneg M
    nlinarith
  have h2 : ((M : Rat) * fov).floor ≤ (M : ℤ) := by
    rw [ratFloor_eq']
    have := Int.floor_le ((M : Rat) * fov)
    have h3 : ((⌊(M : Rat) * fov⌋ : ℤ) : Rat) ≤ ((M : ℤ) : Rat) := by
      push_cast; linarith
    exact_mod_cast h3
  omega

/-- **`plan` is grid-consistent** for every request `FastFourierTransform.__init__` accepts. -/
theorem plan_consistent (a : AxisIn) (hN : 0 < a.N) (hδ : a.delta ≠ 0) (hq : 1 ≤ a.q)
    (hf : a.fov ≤ 1) :
    FftConsistent a.N (plan a).M (plan a).Mo a.delta (plan a).dT := by
  have hNM : a.N ≤ paddedSize a.N a.q := le_paddedSize a.N a.q hq
  have hM : 0 < paddedSize a.N a.q := lt_of_lt_of_le hN hNM
  refine ⟨hM, hNM, outSize_le _ _ hf, ?_⟩
  show 1 / ((paddedSize a.N a.q : Rat) * a.delta) * (paddedSize a.N a.q : Rat) * a.delta = 1
  have hM' : ((paddedSize a.N a.q : ℕ) : Rat) ≠ 0 := by
    exact_mod_cast (Nat.pos_iff_ne_zero.mp hM)
  field_simp

/-- the projections of `plan` used when a pipeline configuration is built from it -/
theorem plan_N (a : AxisIn) : (plan a).N = a.N := rfl
theorem plan_delta (a : AxisIn) : (plan a).delta = a.delta := rfl
theorem plan_zero (a : AxisIn) : (plan a).zero = a.zero := rfl
theorem plan_shift (a : AxisIn) : (plan a).shift = a.shift := rfl

/-- The side conditions matter: `q = 1/2` plans an internal array smaller than the input … -/
theorem plan_inconsistent_q_lt_one :
    ¬ FftConsistent 8 (plan ⟨8, 1, 0, 1 / 2, 1, 0⟩).M (plan ⟨8, 1, 0, 1 / 2, 1, 0⟩).Mo 1
      (plan ⟨8, 1, 0, 1 / 2, 1, 0⟩).dT := by decide +kernel

/-- … and `fov = 3/2` an output array larger than the internal one (`Mo = 12 > M = 8`). -/
theorem plan_inconsistent_fov_gt_one :
    ¬ FftConsistent 8 (plan ⟨8, 1, 0, 1, 3 / 2, 0⟩).M (plan ⟨8, 1, 0, 1, 3 / 2, 0⟩).Mo 1
      (plan ⟨8, 1, 0, 1, 3 / 2, 0⟩).dT := by decide +kernel

/-! ## The pipeline configuration built from a plan, over any ordered scalar field -/

section cfg
variable {K C : Type} [Field K] [Field C]

/-- The `Cfg` of one axis built from the plan: the sizes are the plan's, the coordinates are the
images of the plan's rationals under a ring homomorphism `ι : ℚ → K` (floats *are* rationals;
`K = ℝ` for the theorems, `K = ℚ`, `ι = id` is `RCfg.ofPlan` in the driver). -/
def Cfg.ofPlanCast (ι : ℚ →+* K) (p : AxisPlan) (w : C) (emu : Bool) : Cfg K C :=
  { N := p.N, M := p.M, Mo := p.Mo, δ := ι p.delta, z := ι p.zero, dT := ι p.dT, s := ι p.shift,
    w := w, emu := emu }

theorem Cfg.ofPlanCast_cons (ι : ℚ →+* K) (a : AxisIn) (w : C) (emu : Bool)
    (hN : 0 < a.N) (hδ : a.delta ≠ 0) (hq : 1 ≤ a.q) (hf : a.fov ≤ 1) :
    let g := Cfg.ofPlanCast (C := C) ι (plan a) w emu
    g.N ≤ g.M ∧ g.Mo ≤ g.M ∧ g.dT * (g.M : K) * g.δ = 1 := by
  obtain ⟨_, h1, h2, h3⟩ := plan_consistent a hN hδ hq hf
  refine ⟨h1, h2, ?_⟩
  show ι (plan a).dT * (((plan a).M : ℕ) : K) * ι (plan a).delta = 1
  have : ι ((plan a).dT * ((plan a).M : ℚ) * a.delta) = 1 := by rw [h3]; exact map_one ι
  rw [map_mul, map_mul, map_natCast] at this
  exact this

end cfg

end HcipyVerif.Fft
