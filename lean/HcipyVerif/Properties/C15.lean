import HcipyVerif.Lemmas.Layer
import HcipyVerif.Lemmas.LayerHeap
import HcipyVerif.Lemmas.MultiLayer
import HcipyVerif.Lemmas.ShiftCyc

/-!
# C15 — Turbulence layers are reproducible and translate rigidly with the wind

Theorems about `HcipyVerif.Shift` (spectral phase ramp, row/column extrusion: index bookkeeping with the
axis order and ravel order the code uses) and `HcipyVerif.Layer` (the two layers as state machines with
the random generator as an explicit value), the models tied to hcipy by harness/props/c15.py.

* replay: `finite_reset_is_fresh`, `infinite_reset_is_fresh`, `replay_after_reset_params(_infinite)`,
  `replay_after_reset(_infinite)`, `set_param_then_reset(_infinite)` (setter ; reset ; h = fresh(parameter) ; h),
  `independent_only_on_request`, `independent_draws_fresh_numbers`; `reset_old_counterexample` for D17;
* spectral shift: `phase_axis_order`, `shift_theorem`, `shift_theorem_multiscale`, `whole_pixel_exact`,
  `finite_layer_translates`; counterexample `shift_axes_swapped_counterexample` (2×3 grid) for D16;
* extrusion: `extrude_left/right/top/bottom`, `extrude_moves`, `extrudeN_moves`, `evolve_translates`,
  `screen_shape`, `direction_agrees_with_velocity`; `direction_old_counterexample` for D18;
* scaling: `phase_inverse_wavelength`, `sqrt_strength_amplitude`, `phase_sqrt_strength` (induction over every later
  screen of the infinite layer, numeric `arRun`), `ar_sample_scales`, `synth_scales`;
* periodicity: `shift_composes`, `shift_period_of_character`, `wrap_onto_one_period_counterexample`;
* infinite-layer independence: `independent_only_on_request_infinite`, `independent_draws_fresh_numbers_infinite`;
* synthesis executed (`C15 synth`: `Shift.synth` with the exact character into `ℚ[ℤ/M]`, compared with
  `fourier.backward(C).real`): `synth_cyc_eval`, `synth_cyc_is_character_synth`; `finite_layer_translates` carries the
  synthesis hypothesis `hback` explicitly; sub-pixel bookkeeping `subpixel_offset_decomposition_partial`;
* scaling with `Cn_squared` changed on the running layer: `phase_sqrt_strength_live`, `arRunLive_const`;
* generators as heap cells (`Model/LayerHeap.lean`, driver `hfin`/`hinf`): `heap_simulates_finite/_infinite`,
  `heap_new_finite/_infinite`, `caller_generator_invisible_finite/_infinite`, `heap_replay_after_reset_finite`;
  counterexamples `caller_generator_shared_counterexample(_infinite)` (D151), `reset_without_deepcopy_counterexample`;
* the finite layer's lazy noise / cached screen (`FinC`): `read_after_evolve_is_fresh`, `setter_then_read_is_stale`,
  `finC_refines_finL`.

Hypothesis used by the spectral theorems: `χ` is an additive character (`χ (a+b) = χ a * χ b`) —
satisfied by `t ↦ exp(i t)`; the counterexample uses the character `n ↦ (-1)^n` of `ℤ`.
-/
set_option linter.unusedSimpArgs false
set_option linter.unusedVariables false

namespace HcipyVerif.C15
open HcipyVerif.Shift HcipyVerif.Layer

/-! ## Spectral shift (finite layer) -/

/-- **Axis order.** At every flat index the repaired phase array is `sx·x_j + sy·y_j` for the Fourier-grid
point `(x_j, y_j)` stored at that index (x fastest), for every pair of axis lengths. -/
theorem phase_axis_order {K : Type} [Add K] [Mul K] (sx sy : K) (kx ky : List K) :
    phases sx sy kx ky = List.zipWith (fun a b => sy * b + sx * a) (gridX kx ky) (gridY kx ky) :=
  phases_eq_grid sx sy kx ky

/-- **Shift theorem, exact form.** Multiplying the coefficients by `χ(−k·s)` as `shift` does translates
the synthesised screen: `shifted(x, y) = orig(x − sx, y − sy)` at every point, for every grid shape
(`kx`, `ky` arbitrary lists — square or not) and every coefficient list. -/
theorem shift_theorem {K F : Type} [CommRing K] [CommRing F] (χ : K → F)
    (hχ : ∀ a b, χ (a + b) = χ a * χ b) (sx sy : K) (kx ky : List K) (C : List F) (x y : K) :
    synth χ kx ky (shift χ sx sy kx ky C) x y = synth χ kx ky C (x - sx) (y - sy) := by
  unfold synth shift
  rw [phases_eq_grid]
  exact zipSum3_shift χ hχ sx sy x y C _ _

/-- The multiscale noise is the sum of two syntheses on two Fourier grids, both shifted by the same code;
any (real-part, weight) post-processing `re` applied to the sum commutes with the shift. -/
theorem shift_theorem_multiscale {K F R : Type} [CommRing K] [CommRing F] (χ : K → F)
    (hχ : ∀ a b, χ (a + b) = χ a * χ b) (re : F → R) (sx sy : K) (kx1 ky1 kx2 ky2 : List K)
    (C1 C2 : List F) (x y : K) :
    re (synth χ kx1 ky1 (shift χ sx sy kx1 ky1 C1) x y + synth χ kx2 ky2 (shift χ sx sy kx2 ky2 C2) x y)
      = re (synth χ kx1 ky1 C1 (x - sx) (y - sy) + synth χ kx2 ky2 C2 (x - sx) (y - sy)) := by
  rw [shift_theorem χ hχ, shift_theorem χ hχ]

/-- **Whole-pixel shifts are index translations**: on the grid `x_i = x0 + i·δx`, `y_j = y0 + j·δy`, the
screen shifted by `(a·δx, b·δy)` has at pixel `(i, j)` the value the original has at pixel `(i − a, j − b)`
(wherever that pixel lies — on the overlap it is a sample of the original screen). -/
theorem whole_pixel_exact {K F : Type} [CommRing K] [CommRing F] (χ : K → F)
    (hχ : ∀ a b, χ (a + b) = χ a * χ b) (kx ky : List K) (C : List F) (x0 y0 δx δy : K) (a b i j : Int) :
    synth χ kx ky (shift χ (a * δx) (b * δy) kx ky C) (x0 + i * δx) (y0 + j * δy)
      = synth χ kx ky C (x0 + ((i - a : Int) : K) * δx) (y0 + ((j - b : Int) : K) * δy) := by
  rw [shift_theorem χ hχ]
  congr 1 <;> push_cast <;> ring

/-- **The finite layer translates with the wind — with the synthesis assumption as a hypothesis.**
`backward C pts` stands for `fourier.backward(C)` evaluated on the points `pts` of the input grid (FFT on the
high-frequency scale, MFT on the low-frequency one); `hback` is the kernel specification this framework assumes for it
(C01–C03 prove it for the FFT/MFT index bookkeeping): it is the character sum `synth`.  Then the screen the layer shows
at time `t` on the grid is the `t = 0` noise evaluated **on the grid displaced by `−velocity·t`** — which is literally
what the harness's `translate-any` oracle computes with the real code. -/
theorem finite_layer_translates {F : Type} [CommRing F] (χ : Rat → F) (hχ : ∀ a b, χ (a + b) = χ a * χ b)
    (kx ky : List Rat) (backward : List F → List (Rat × Rat) → List F)
    (hback : ∀ C pts, backward C pts = pts.map fun p => synth χ kx ky C p.1 p.2)
    (L : FinL) (t : Rat) (C : List F) (pts : List (Rat × Rat)) :
    backward (shift χ (L.evolve t).center.1 (L.evolve t).center.2 kx ky C) pts
      = backward C (pts.map fun p => (p.1 - L.vel.1 * t, p.2 - L.vel.2 * t)) := by
  rw [hback, hback, List.map_map]
  apply List.map_congr_left
  intro p _
  simp only [Function.comp]
  rw [shift_theorem χ hχ]; rfl

/-- the synthesis hypothesis is satisfiable (by `synth` itself) -/
example : ∃ backward : List Int → List (Rat × Rat) → List Int,
    ∀ C pts, backward C pts = pts.map fun p => synth (fun _ => (1 : Int)) [0, 1] [0] C p.1 p.2 :=
  ⟨fun C pts => pts.map fun p => synth (fun _ => (1 : Int)) [0, 1] [0] C p.1 p.2, fun _ _ => rfl⟩

/-- The same at one point, in terms of `synth` only: `screen_t(x, y) = screen_0(x − vx t, y − vy t)`. -/
theorem finite_layer_translates_synth {F : Type} [CommRing F] (χ : Rat → F)
    (hχ : ∀ a b, χ (a + b) = χ a * χ b) (L : FinL) (t : Rat) (kx ky : List Rat) (C : List F) (x y : Rat) :
    synth χ kx ky (shift χ (L.evolve t).center.1 (L.evolve t).center.2 kx ky C) x y
      = synth χ kx ky C (x - L.vel.1 * t) (y - L.vel.2 * t) := by
  rw [shift_theorem χ hχ]; rfl

/-- non-vacuity of the character hypothesis -/
example : ∃ χ : Int → Int, (∀ a b, χ (a + b) = χ a * χ b) ∧ χ 1 ≠ χ 0 := ⟨parity, parity_add, by decide⟩

/-- **D16.** With the axis order of the code before the repair (`np.ix_(*S)`), on a 2×3 grid
(`nx = 2`, `ny = 3`) a shift along x does *not* translate the screen: there are coefficients, a character and
a point where `shiftOld` differs from `orig(x − s)`.  (On this non-square grid the old phase array is not
even the transposed one, it is scrambled.) -/
theorem shift_axes_swapped_counterexample :
    ∃ (kx ky : List Int) (C : List Int) (sx sy x y : Int),
      kx.length = 2 ∧ ky.length = 3 ∧
      synth parity kx ky (shiftOld parity sx sy kx ky C) x y ≠ synth parity kx ky C (x - sx) (y - sy) ∧
      synth parity kx ky (shift parity sx sy kx ky C) x y = synth parity kx ky C (x - sx) (y - sy) :=
  ⟨[0, 1], [0, 1, 2], [0, 1, 0, 0, 0, 0], 1, 0, 0, 0, by decide, by decide, by decide, by decide⟩

/-! ## Row / column extrusion (infinite layer) -/

variable {α : Type}

/-- **`_extrude('left')`** on an `H × W` screen (any shape): every retained sample moves one pixel to
+x (`ix → ix+1`, same row) and the new column sits at `ix = 0`. -/
theorem extrude_left (W H : Nat) (new s : List α) (hs : s.length = H * W) (hn : new.length = H)
    (iy ix : Nat) (hy : iy < H) :
    (ix + 1 < W → (extrude .left W H new s)[iy * W + (ix + 1)]? = s[iy * W + ix]?) ∧
    (0 < W → (extrude .left W H new s)[iy * W + 0]? = new[iy]?) := by
  have hrl := shaped_row_length W H s hs
  have hl := shaped_length W H s
  simp only [extrude, Where.flipped, Where.horizontal, if_true, if_false, Bool.false_eq_true]
  constructor
  · intro hx
    rw [ravel_at2 W _ (hstackNew_row_length W (by omega) new _ hrl) iy (ix + 1) hx,
      at2_hstackNew_succ W new _ (by omega) hrl iy ix hx, at2_shaped W H s iy ix hy (by omega)]
  · intro hW
    rw [ravel_at2 W _ (hstackNew_row_length W hW new _ hrl) iy 0 hW,
      at2_hstackNew_zero new _ (by omega) iy]

/-- **`_extrude('bottom')`**: every retained sample moves one pixel to +y (`iy → iy+1`, same column); the
new row is row 0. -/
theorem extrude_bottom (W H : Nat) (new s : List α) (hs : s.length = H * W) (hn : new.length = W)
    (iy ix : Nat) (hx : ix < W) :
    (iy + 1 < H → (extrude .bottom W H new s)[(iy + 1) * W + ix]? = s[iy * W + ix]?) ∧
    (0 < H → (extrude .bottom W H new s)[0 * W + ix]? = new[ix]?) := by
  have hrl := shaped_row_length W H s hs
  have hl := shaped_length W H s
  simp only [extrude, Where.flipped, Where.horizontal, if_true, if_false, Bool.false_eq_true]
  constructor
  · intro hy
    rw [ravel_at2 W _ (vstackNew_row_length W new hn _ hrl) (iy + 1) ix hx,
      at2_vstackNew_succ new _ iy ix (by omega), at2_shaped W H s iy ix (by omega) hx]
  · intro hH
    rw [ravel_at2 W _ (vstackNew_row_length W new hn _ hrl) 0 ix hx, at2_vstackNew_zero]

/-- **`_extrude('right')`** (flip, extrude left, flip back): every retained sample moves one pixel to −x. -/
theorem extrude_right (W H : Nat) (new s : List α) (hs : s.length = H * W) (hn : new.length = H)
    (iy ix : Nat) (hy : iy < H) (hx : ix + 1 < W) :
    (extrude .right W H new s)[iy * W + ix]? = s[iy * W + (ix + 1)]? := by
  have hsr : s.reverse.length = H * W := by simpa using hs
  have hrl := shaped_row_length W H s.reverse hsr
  have hl := shaped_length W H s.reverse
  have hl' := hstackNew_length new (shaped W H s.reverse) (by omega)
  have hrl' := hstackNew_row_length W (by omega) new _ hrl
  simp only [extrude, Where.flipped, Where.horizontal, if_true]
  rw [ravel_at2 W _ (flip2_row_length W _ hrl') iy ix (by omega),
    at2_flip2 W _ hrl' iy ix (by omega) (by omega), hl', hl]
  obtain ⟨m, rfl⟩ : ∃ m, W = ix + 2 + m := ⟨W - ix - 2, by omega⟩
  obtain ⟨p, rfl⟩ : ∃ p, H = iy + 1 + p := ⟨H - iy - 1, by omega⟩
  have e : (iy + 1 + p) * (ix + 2 + m) = iy * (ix+2+m) + (ix + 2 + m) + p * (ix + 2 + m) := by ring
  rw [show ix + 2 + m - 1 - ix = m + 1 by omega, show iy + 1 + p - 1 - iy = p by omega,
    at2_hstackNew_succ (ix + 2 + m) new _ (by omega) hrl p m (by omega),
    at2_shaped _ _ _ p m (by omega) (by omega), List.getElem?_reverse (by rw [hs]; omega)]
  congr 1
  rw [hs]
  omega

/-- **`_extrude('top')`**: every retained sample moves one pixel to −y. -/
theorem extrude_top (W H : Nat) (new s : List α) (hs : s.length = H * W) (hn : new.length = W)
    (iy ix : Nat) (hy : iy + 1 < H) (hx : ix < W) :
    (extrude .top W H new s)[iy * W + ix]? = s[(iy + 1) * W + ix]? := by
  have hsr : s.reverse.length = H * W := by simpa using hs
  have hrl := shaped_row_length W H s.reverse hsr
  have hl := shaped_length W H s.reverse
  have hl' := vstackNew_length new (shaped W H s.reverse) (by omega)
  have hrl' := vstackNew_row_length W new hn _ hrl
  simp only [extrude, Where.flipped, Where.horizontal, if_true, if_false, Bool.false_eq_true]
  rw [ravel_at2 W _ (flip2_row_length W _ hrl') iy ix (by omega),
    at2_flip2 W _ hrl' iy ix (by omega) (by omega), hl', hl]
  obtain ⟨m, rfl⟩ : ∃ m, W = ix + 1 + m := ⟨W - ix - 1, by omega⟩
  obtain ⟨p, rfl⟩ : ∃ p, H = iy + 2 + p := ⟨H - iy - 2, by omega⟩
  have e : (iy + 2 + p) * (ix + 1 + m) = iy * (ix+1+m) + (ix + 1 + m) + (ix + 1 + m) + p * (ix + 1 + m) := by ring
  have e2 : (iy + 1) * (ix + 1 + m) = iy * (ix+1+m) + (ix + 1 + m) := by ring
  rw [show ix + 1 + m - 1 - ix = m by omega, show iy + 2 + p - 1 - iy = p + 1 by omega,
    at2_vstackNew_succ new _ p m (by omega),
    at2_shaped _ _ _ p m (by omega) (by omega), List.getElem?_reverse (by rw [hs]; omega)]
  congr 1
  rw [hs]
  omega


/-- **All four extrusions in one statement** (`Where.off` = left (+1,0), right (−1,0), bottom (0,+1),
top (0,−1)): a sample at pixel `(ix', iy')` before `_extrude(w)` sits at `(ix' + ox, iy' + oy)` afterwards,
whenever both pixels are on the `H × W` screen — square or not. -/
theorem extrude_moves (w : Where) (W H : Nat) (new s : List α) (hs : s.length = H * W)
    (hn : new.length = w.slice W H) (iy ix iy' ix' : Nat) (hy : iy < H) (hx : ix < W) (hy' : iy' < H)
    (hx' : ix' < W) (ex : (ix : Int) = ix' + w.off.1) (ey : (iy : Int) = iy' + w.off.2) :
    (extrude w W H new s)[iy * W + ix]? = s[iy' * W + ix']? := by
  cases w <;> simp only [Where.off, Where.slice, Where.horizontal, if_true, if_false, Bool.false_eq_true] at ex ey hn
  · obtain rfl : iy = iy' := by omega
    obtain rfl : ix = ix' + 1 := by omega
    exact (extrude_left W H new s hs hn iy ix' hy).1 hx
  · obtain rfl : iy = iy' := by omega
    obtain rfl : ix' = ix + 1 := by omega
    exact extrude_right W H new s hs hn iy ix hy hx'
  · obtain rfl : ix = ix' := by omega
    obtain rfl : iy' = iy + 1 := by omega
    exact extrude_top W H new s hs hn iy ix hy' hx
  · obtain rfl : ix = ix' := by omega
    obtain rfl : iy = iy' + 1 := by omega
    exact (extrude_bottom W H new s hs hn iy' ix hx).1 hy

/-- `k` successive `_extrude(w)` calls of the layer move every retained sample by `k` pixels in the
direction of `w.off`, whatever new columns/rows were generated in between; the screen keeps its shape. -/
theorem extrudeN_moves (w : Where) (k : Nat) (L : InfL) (hs : L.screen.length = L.ny * L.nx)
    (hW : 0 < L.nx) (hH : 0 < L.ny) :
    (InfL.extrudeN w k L).screen.length = L.ny * L.nx ∧
    ∀ iy ix iy' ix' : Nat, iy < L.ny → ix < L.nx → iy' < L.ny → ix' < L.nx →
      (ix : Int) = ix' + k * w.off.1 → (iy : Int) = iy' + k * w.off.2 →
      (InfL.extrudeN w k L).screen[iy * L.nx + ix]? = L.screen[iy' * L.nx + ix']? := by
  induction k generalizing L with
  | zero =>
    refine ⟨hs, ?_⟩
    intro iy ix iy' ix' _ _ _ _ ex ey
    obtain rfl : ix = ix' := by simpa using ex
    obtain rfl : iy = iy' := by simpa using ey
    rfl
  | succ k ih =>
    have hnew : ((List.range (if w.horizontal then L.ny else L.nx)).map
        (fun j => (⟨L.start, L.hist * 5 + w.code, j, L.par, L.plog⟩ : Sym))).length = w.slice L.nx L.ny := by
      simp [Where.slice]
    have hlen1 : (L.extrude1 w).screen.length = L.ny * L.nx := by
      simp only [InfL.extrude1]
      exact extrude_length w L.nx L.ny _ _ hs hnew hW hH
    have h1nx : (L.extrude1 w).nx = L.nx := rfl
    have h1ny : (L.extrude1 w).ny = L.ny := rfl
    have := ih (L.extrude1 w) (by rw [h1nx, h1ny]; exact hlen1) hW hH
    rw [h1nx, h1ny] at this
    simp only [InfL.extrudeN]
    refine ⟨this.1, ?_⟩
    intro iy ix iy' ix' hy hx hy' hx' ex ey
    -- the position after the first extrusion
    have hox : w.off.1 = 1 ∨ w.off.1 = -1 ∨ w.off.1 = 0 := by cases w <;> simp [Where.off]
    have hoy : w.off.2 = 1 ∨ w.off.2 = -1 ∨ w.off.2 = 0 := by cases w <;> simp [Where.off]
    have ex' : (ix : Int) = ix' + w.off.1 + k * w.off.1 := by push_cast at ex; linarith
    have ey' : (iy : Int) = iy' + w.off.2 + k * w.off.2 := by push_cast at ey; linarith
    have hmx : 0 ≤ (ix' : Int) + w.off.1 ∧ (ix' : Int) + w.off.1 < L.nx := by
      rcases hox with h | h | h <;> rw [h] at ex' ⊢ <;> constructor <;> omega
    have hmy : 0 ≤ (iy' : Int) + w.off.2 ∧ (iy' : Int) + w.off.2 < L.ny := by
      rcases hoy with h | h | h <;> rw [h] at ey' ⊢ <;> constructor <;> omega
    obtain ⟨mx, hmx'⟩ := Int.eq_ofNat_of_zero_le hmx.1
    obtain ⟨my, hmy'⟩ := Int.eq_ofNat_of_zero_le hmy.1
    rw [this.2 iy ix my mx hy hx (by omega) (by omega) (by rw [← hmx']; exact ex') (by rw [← hmy']; exact ey')]
    simp only [InfL.extrude1]
    exact extrude_moves w L.nx L.ny _ _ hs hnew my mx iy' ix' (by omega) (by omega) hy' hx'
      (by omega) (by omega)


/-- **`evolve_until` translates the screen with the wind.**  With `(dx, dy)` the pixel displacement
`round(centre'/δ) − round(centre/δ)` of the step, the sample at pixel `(ix', iy')` before the step is found at
`(ix' + dx, iy' + dy)` after it — for every shape, both signs of both components, any number of extrusions. -/
theorem evolve_translates (L : InfL) (t : Rat) (hs : L.screen.length = L.ny * L.nx)
    (hW : 0 < L.nx) (hH : 0 < L.ny) (iy ix iy' ix' : Nat) (hy : iy < L.ny) (hx : ix < L.nx)
    (hy' : iy' < L.ny) (hx' : ix' < L.nx)
    (ex : (ix : Int) = ix' + (pixel (L.center.1 + L.vel.1 * (t - L.t)) L.delta.1 - pixel L.center.1 L.delta.1))
    (ey : (iy : Int) = iy' + (pixel (L.center.2 + L.vel.2 * (t - L.t)) L.delta.2 - pixel L.center.2 L.delta.2)) :
    (L.evolveWith sideX sideY t).screen[iy * L.nx + ix]? = L.screen[iy' * L.nx + ix']? := by
  simp only [InfL.evolveWith]
  generalize hdx : pixel (L.center.1 + L.vel.1 * (t - L.t)) L.delta.1 - pixel L.center.1 L.delta.1 = dx at ex
  generalize hdy : pixel (L.center.2 + L.vel.2 * (t - L.t)) L.delta.2 - pixel L.center.2 L.delta.2 = dy at ey
  have h1 := extrudeN_moves (sideX dx) dx.natAbs L hs hW hH
  have p1 := InfL.extrudeN_params (sideX dx) dx.natAbs L
  have h2 := extrudeN_moves (sideY dy) dy.natAbs (InfL.extrudeN (sideX dx) dx.natAbs L)
    (by rw [p1.1, p1.2.1]; exact h1.1) (by rw [p1.1]; exact hW) (by rw [p1.2.1]; exact hH)
  rw [p1.1, p1.2.1] at h2
  rw [h2.2 iy ix iy' ix hy hx hy' hx (by rw [(sideY_off dy).1]; simp) (by rw [(sideY_off dy).2]; exact ey)]
  exact h1.2 iy' ix iy' ix' hy' hx hy' hx' (by rw [(sideX_off dx).1]; exact ex) (by rw [(sideX_off dx).2]; simp)

/-- **Sign convention = the wind** (`screen(x, t+dt) = screen(x − v·dt, t)`, as for the finite layer): from a
pixel-aligned centre, a displacement `v·dt = (a·δx, b·δy)` of whole pixels moves the sample at pixel
`(ix', iy')` to `(ix' + a, iy' + b)` exactly. -/
theorem direction_agrees_with_velocity (L : InfL) (t : Rat) (hs : L.screen.length = L.ny * L.nx)
    (hW : 0 < L.nx) (hH : 0 < L.ny) (hδx : L.delta.1 ≠ 0) (hδy : L.delta.2 ≠ 0) (m n a b : Int)
    (hcx : L.center.1 = m * L.delta.1) (hcy : L.center.2 = n * L.delta.2)
    (hvx : L.vel.1 * (t - L.t) = a * L.delta.1) (hvy : L.vel.2 * (t - L.t) = b * L.delta.2)
    (iy ix iy' ix' : Nat) (hy : iy < L.ny) (hx : ix < L.nx) (hy' : iy' < L.ny) (hx' : ix' < L.nx)
    (ex : (ix : Int) = ix' + a) (ey : (iy : Int) = iy' + b) :
    (L.evolveWith sideX sideY t).screen[iy * L.nx + ix]? = L.screen[iy' * L.nx + ix']? := by
  apply evolve_translates L t hs hW hH iy ix iy' ix' hy hx hy' hx'
  · rw [hvx, hcx, show (m : Rat) * L.delta.1 + a * L.delta.1 = ((m + a : Int) : Rat) * L.delta.1 by push_cast; ring,
      pixel_whole _ _ hδx, pixel_whole _ _ hδx]
    omega
  · rw [hvy, hcy, show (n : Rat) * L.delta.2 + b * L.delta.2 = ((n + b : Int) : Rat) * L.delta.2 by push_cast; ring,
      pixel_whole _ _ hδy, pixel_whole _ _ hδy]
    omega

/-- the hypotheses of `direction_agrees_with_velocity` are satisfiable: a fresh 3×2 layer, wind one pixel per
unit time along +x: the sample of pixel (0,0) is at pixel (1,0) at `t = 1` -/
example : ((InfL.new 3 2 (1/4, 1/4) (1/4, 0) ⟨1, 10⟩ 7).evolveWith sideX sideY 1).screen[0 * 3 + 1]?
    = (InfL.new 3 2 (1/4, 1/4) (1/4, 0) ⟨1, 10⟩ 7).screen[0 * 3 + 0]? := by decide +kernel

/-- **D18.** With the side table of the code before the repair the same step moves the screen *against* the
wind: the sample of pixel (1,0) is found at pixel (0,0). -/
theorem direction_old_counterexample :
    let L := InfL.new 3 2 (1/4, 1/4) (1/4, 0) ⟨1, 10⟩ 7
    (L.evolveWith Old.sideX Old.sideY 1).screen[0 * 3 + 0]? = L.screen[0 * 3 + 1]? ∧
    (L.evolveWith Old.sideX Old.sideY 1).screen[0 * 3 + 1]? ≠ L.screen[0 * 3 + 0]? := by decide +kernel


/-- The shape hypothesis of `evolve_translates` holds for every layer that exists: every reset (hence
construction) produces an `ny × nx` screen, and every evolution keeps the shape. -/
theorem screen_shape (L : InfL) (b : Bool) (t : Rat) :
    (L.reset b).screen.length = (L.reset b).ny * (L.reset b).nx ∧
    (L.screen.length = L.ny * L.nx → 0 < L.nx → 0 < L.ny →
      (L.evolveWith sideX sideY t).screen.length = L.ny * L.nx) := by
  constructor
  · cases b <;> simp [InfL.reset, InfL.pickRng, InfL.initScreen, Nat.mul_comm]
  · intro hs hW hH
    simp only [InfL.evolveWith]
    generalize pixel (L.center.1 + L.vel.1 * (t - L.t)) L.delta.1 - pixel L.center.1 L.delta.1 = dx
    generalize pixel (L.center.2 + L.vel.2 * (t - L.t)) L.delta.2 - pixel L.center.2 L.delta.2 = dy
    have h1 := extrudeN_moves (sideX dx) dx.natAbs L hs hW hH
    have p1 := InfL.extrudeN_params (sideX dx) dx.natAbs L
    have h2 := extrudeN_moves (sideY dy) dy.natAbs (InfL.extrudeN (sideX dx) dx.natAbs L)
      (by rw [p1.1, p1.2.1]; exact h1.1) (by rw [p1.1]; exact hW) (by rw [p1.2.1]; exact hH)
    rw [p1.1, p1.2.1] at h2
    exact h2.1


/-! ## Replay after reset -/

/-- `reset()` of a finite layer puts it, as a *state*, where a freshly built layer with the same original
generator and the *current* parameters (velocity, Cn², L0) is: same generator states, same noise key, centre and
time zero. -/
theorem finite_reset_is_fresh (L : FinL) : L.reset false = FinL.fresh L.nx L.ny L.vel L.par L.orig :=
  L.reset_false_eq_fresh

theorem infinite_reset_is_fresh (L : InfL) :
    L.reset false = InfL.fresh L.nx L.ny L.delta L.vel L.par L.orig :=
  L.reset_false_eq_fresh

/-- **Replay, general form (finite layer).** Build a layer with a seed, run *any* history `h₁` of evolutions,
non-independent resets **and parameter setters**, reset: the layer is then the state of a layer freshly built
with the same seed and the parameters in force at the reset, so every later history `h` shows exactly the screens
of that fresh layer. -/
theorem replay_after_reset_params (nx ny : Nat) (vel : V2) (par : Par) (seed : Nat) (h₁ h : List Op)
    (hh : ∀ o ∈ h₁, o.isIndep = false) :
    let L := (FinL.new nx ny vel par seed).run h₁
    (L.reset false).screens h = (FinL.new nx ny L.vel L.par seed).screens h ∧
    (L.reset false).screen = (FinL.new nx ny L.vel L.par seed).screen := by
  intro L
  have hp : L.nx = nx ∧ L.ny = ny := (FinL.new nx ny vel par seed).run_shape h₁
  have ho : L.orig = ⟨seed, 0⟩ := (FinL.new nx ny vel par seed).run_orig h₁ hh
  have : L.reset false = FinL.new nx ny L.vel L.par seed := by
    rw [FinL.reset_false_eq_fresh, hp.1, hp.2, ho]; rfl
  rw [this]; exact ⟨rfl, rfl⟩

/-- **Replay (finite layer)**, no setters in `h₁`: the replayed screens are those of the layer as it was built —
for EVERY history `h`, including the screen read right after the reset. -/
theorem replay_after_reset (nx ny : Nat) (vel : V2) (par : Par) (seed : Nat) (h₁ h : List Op)
    (hh : ∀ o ∈ h₁, o.isIndep = false) (hs : ∀ o ∈ h₁, o.isSet = false) :
    (((FinL.new nx ny vel par seed).run h₁).reset false).screens h = (FinL.new nx ny vel par seed).screens h ∧
    (((FinL.new nx ny vel par seed).run h₁).reset false).screen = (FinL.new nx ny vel par seed).screen := by
  have h := replay_after_reset_params nx ny vel par seed h₁ h hh
  have hp := (FinL.new nx ny vel par seed).run_params h₁ hs
  simp only [hp.1, hp.2] at h
  have e1 : (FinL.new nx ny vel par seed).vel = vel := rfl
  have e2 : (FinL.new nx ny vel par seed).par = par := rfl
  rw [e1, e2] at h
  exact h

/-- **`set parameter ; reset ; h` = `fresh(parameter) ; h`** (finite layer): changing `Cn_squared`, `L0` or the
velocity of an existing layer — at any point of any history — and resetting gives the screens of a layer built
with the new value and the same seed. -/
theorem set_param_then_reset (nx ny : Nat) (vel : V2) (par : Par) (seed : Nat) (h₁ h : List Op)
    (hh : ∀ o ∈ h₁, o.isIndep = false) (c l : Rat) (v : V2) :
    let L := (FinL.new nx ny vel par seed).run h₁
    ((L.setCn2 c).reset false).screens h = (FinL.new nx ny L.vel { L.par with cn2 := c } seed).screens h ∧
    ((L.setL0 l).reset false).screens h = (FinL.new nx ny L.vel { L.par with L0 := l } seed).screens h ∧
    ((L.setVel v).reset false).screens h = (FinL.new nx ny v L.par seed).screens h := by
  intro L
  have hp : L.nx = nx ∧ L.ny = ny := (FinL.new nx ny vel par seed).run_shape h₁
  have ho : L.orig = ⟨seed, 0⟩ := (FinL.new nx ny vel par seed).run_orig h₁ hh
  refine ⟨?_, ?_, ?_⟩ <;> congr 1 <;> rw [FinL.reset_false_eq_fresh] <;>
    simp only [FinL.setCn2, FinL.setL0, FinL.setVel, hp.1, hp.2, ho] <;> rfl

/-- **Replay, general form (infinite layer)**: the observation is the whole symbolic screen (every sample tagged
with the parameters it was generated with) and the sub-pixel offset; a refused (backwards) evolution in the
history changes nothing. -/
theorem replay_after_reset_params_infinite (nx ny : Nat) (delta vel : V2) (par : Par) (seed : Nat) (h₁ h : List Op)
    (hh : ∀ o ∈ h₁, o.isIndep = false) :
    let L := (InfL.new nx ny delta vel par seed).run h₁
    (L.reset false).screens h = (InfL.new nx ny delta L.vel L.par seed).screens h ∧
    (L.reset false).view = (InfL.new nx ny delta L.vel L.par seed).view := by
  intro L
  have hp : L.nx = nx ∧ L.ny = ny ∧ L.delta = delta := (InfL.new nx ny delta vel par seed).run_shape h₁
  have ho : L.orig = (⟨seed, 0⟩ : Rng).draw (nx + ny) := (InfL.new nx ny delta vel par seed).run_orig h₁ hh
  have : L.reset false = InfL.new nx ny delta L.vel L.par seed := by
    rw [InfL.reset_false_eq_fresh, hp.1, hp.2.1, hp.2.2, ho]; rfl
  rw [this]; exact ⟨rfl, rfl⟩

theorem replay_after_reset_infinite (nx ny : Nat) (delta vel : V2) (par : Par) (seed : Nat) (h₁ h : List Op)
    (hh : ∀ o ∈ h₁, o.isIndep = false) (hs : ∀ o ∈ h₁, o.isSet = false) :
    (((InfL.new nx ny delta vel par seed).run h₁).reset false).screens h
      = (InfL.new nx ny delta vel par seed).screens h ∧
    (((InfL.new nx ny delta vel par seed).run h₁).reset false).view = (InfL.new nx ny delta vel par seed).view := by
  have h := replay_after_reset_params_infinite nx ny delta vel par seed h₁ h hh
  have hp := (InfL.new nx ny delta vel par seed).run_params h₁ hs
  simp only [hp.1, hp.2] at h
  have e1 : (InfL.new nx ny delta vel par seed).vel = vel := rfl
  have e2 : (InfL.new nx ny delta vel par seed).par = par := rfl
  rw [e1, e2] at h
  exact h

/-- **`set parameter ; reset ; h` = `fresh(parameter) ; h`** (infinite layer).  In particular every row/column
extruded after `Cn_squared = c ; reset()` carries the *new* strength, like the initial screen. -/
theorem set_param_then_reset_infinite (nx ny : Nat) (delta vel : V2) (par : Par) (seed : Nat) (h₁ h : List Op)
    (hh : ∀ o ∈ h₁, o.isIndep = false) (c l : Rat) (v : V2) :
    let L := (InfL.new nx ny delta vel par seed).run h₁
    ((L.setCn2 c).reset false).screens h = (InfL.new nx ny delta L.vel { L.par with cn2 := c } seed).screens h ∧
    ((L.setL0 l).reset false).screens h = (InfL.new nx ny delta L.vel { L.par with L0 := l } seed).screens h ∧
    ((L.setVel v).reset false).screens h = (InfL.new nx ny delta v L.par seed).screens h := by
  intro L
  have hp : L.nx = nx ∧ L.ny = ny ∧ L.delta = delta := (InfL.new nx ny delta vel par seed).run_shape h₁
  have ho : L.orig = (⟨seed, 0⟩ : Rng).draw (nx + ny) := (InfL.new nx ny delta vel par seed).run_orig h₁ hh
  refine ⟨?_, ?_, ?_⟩ <;> congr 1 <;> rw [InfL.reset_false_eq_fresh] <;>
    simp only [InfL.setCn2, InfL.setL0, InfL.setVel, hp.1, hp.2.1, hp.2.2, ho] <;> rfl

/-- the hypothesis of the replay theorems is satisfiable by a non-trivial history -/
example : (∀ o ∈ [Op.evolve 1, Op.setCn2 4, Op.reset false, Op.evolve (3/2)], o.isIndep = false) ∧
    (∀ o ∈ [Op.evolve 1, Op.reset false, Op.evolve (3/2)], o.isSet = false) := by decide

/-- **Independent realisation only on request (1)**: without `reset(make_independent_realization=True)`
in the history the noise of the finite layer is always the one drawn from the seed's generator state. -/
theorem independent_only_on_request (nx ny : Nat) (vel : V2) (par : Par) (seed : Nat) (h : List Op)
    (hh : ∀ o ∈ h, o.isIndep = false) :
    ((FinL.new nx ny vel par seed).run h).noise = ⟨seed, 0⟩ := by
  have hinv : ∀ (h : List Op) (L : FinL), L.Inv → (L.run h).Inv := by
    intro h; induction h with
    | nil => intro L hL; exact hL
    | cons o h ih => intro L hL; exact ih _ (L.step_inv o hL)
  have h0 : (FinL.new nx ny vel par seed).Inv := FinL.reset_inv _ false
  rw [(hinv h _ h0).1, (FinL.new nx ny vel par seed).run_orig h hh]; rfl

/-- **Independent realisation only on request (2)**: when requested, the new noise is drawn from the part
of the stream that lies entirely behind the numbers used so far (fresh numbers), and a later plain reset
replays *this* realisation. -/
theorem independent_draws_fresh_numbers (L : FinL) (hL : L.Inv) :
    (L.reset true).noise.pos = L.noise.pos + L.draws ∧ (L.reset true).noise.seed = L.noise.seed ∧
    ((L.reset true).reset false).noise = (L.reset true).noise := by
  obtain ⟨h1, h2⟩ := hL
  simp [FinL.reset, FinL.pickRng, FinL.makeNoise, h2, h1, Rng.draw]

/-- **D17.** Before the repair a reset did not rewind the layer: evolve to `t = 1`, reset, read — the screen
is the one displaced by `v·1`, not the `t = 0` screen of a fresh layer; and the reported time is wrong. -/
theorem reset_old_counterexample :
    let L := FinL.new 4 4 (1, 0) ⟨1, 10⟩ 7
    ((L.stepOld (.evolve 1)).stepOld (.reset false)).screen ≠ L.screen ∧
    (L.stepOld (.evolve 1)).t ≠ 1 ∧
    ((L.step (.evolve 1)).step (.reset false)).screen = L.screen ∧ (L.step (.evolve 1)).t = 1 := by
  decide +kernel

/-! ## Scaling laws -/

/-- **`phase_for(λ) ∝ 1/λ`**: `phase_for(λ)·λ = phase_for(μ)·μ` (= the achromatic screen). -/
theorem phase_inverse_wavelength {K : Type} [Field K] (a l m : K) (hl : l ≠ 0) (hm : m ≠ 0) :
    phaseFor a l * l = phaseFor a m * m ∧ phaseFor a l = phaseFor a 1 / l := by
  unfold phaseFor
  constructor
  · rw [div_mul_cancel₀ _ hl, div_mul_cancel₀ _ hm]
  · rw [div_one]


/-- **Phase ∝ sqrt(Cn²), infinite layer, every later screen.**  `arRun` is the code's numeric extrusion
(`A.dot(screen[stencil]) + B.dot(normals)·sqrt(Cn²)`, then the `hstack`/`vstack`/flip surgery), run by the driver on
the real `A`, `B`, stencils and normals.  If the initial screen of the layer with strength `k²·c` is `k` times the
initial screen of the layer with strength `c`, then after **any** sequence of extrusions — any sides, any matrices,
any stencils, any normals, the same for both layers — every sample of the screen is `k` times the other layer's. -/
theorem phase_sqrt_strength {K : Type} [Field K] [LinearOrder K] [IsStrictOrderedRing K] (c k a₁ a₂ : K)
    (hk : 0 ≤ k) (h₁ : 0 ≤ a₁) (h₂ : 0 ≤ a₂) (e₁ : a₁ ^ 2 = c) (e₂ : a₂ ^ 2 = k ^ 2 * c)
    (W H : Nat) (steps : List (ArStep K)) (s : List K) :
    arRun W H a₂ steps (s.map (k * ·)) = (arRun W H a₁ steps s).map (k * ·) := by
  rw [sqrt_strength_amplitude c k a₁ a₂ hk h₁ h₂ e₁ e₂]
  induction steps generalizing s with
  | nil => rfl
  | cons e es ih => simp only [arRun]; rw [arExtrude_scale, ih]

/-- **Phase ∝ sqrt(Cn²) with `Cn_squared` changed on the running layer.**  Each extrusion uses the amplitude in force at
that time (`arRunLive`; the harness changes `Cn_squared` between extrusions on the layer and on its twin).  If the twin's
amplitudes are `k` times the layer's throughout and its initial screen is `k` times the layer's, every later screen is. -/
theorem phase_sqrt_strength_live {K : Type} [CommRing K] (k : K) (W H : Nat) (steps : List (ArStep K × K)) (s : List K) :
    arRunLive W H (steps.map fun p => (p.1, k * p.2)) (s.map (k * ·)) = (arRunLive W H steps s).map (k * ·) := by
  induction steps generalizing s with
  | nil => rfl
  | cons e es ih => obtain ⟨e, a⟩ := e; simp only [List.map_cons, arRunLive]; rw [arExtrude_scale, ih]

/-- `arRun` is `arRunLive` with a constant amplitude -/
theorem arRunLive_const {K : Type} [CommRing K] (amp : K) (W H : Nat) (steps : List (ArStep K)) (s : List K) :
    arRunLive W H (steps.map fun e => (e, amp)) s = arRun W H amp steps s := by
  induction steps generalizing s with
  | nil => rfl
  | cons e es ih => simp only [List.map_cons, arRunLive, arRun, ih]

/-- one row/column element: `A·(k·stencil) + B·rnd·(k·amp) = k·(A·stencil + B·rnd·amp)` -/
theorem ar_sample_scales {K : Type} [CommRing K] (k amp : K) (A st B rnd : List K) :
    arSample A (st.map (k * ·)) B rnd (k * amp) = k * arSample A st B rnd amp := arSample_scale k amp A st B rnd

/-- **Linearity of the synthesis (finite layer).**  The finite layer's coefficients are `sqrt(psd)`·normals with
`psd ∝ Cn²` (checked on the real code by the twin-layer oracle); if every coefficient is multiplied by `k`, every
sample of the synthesised screen is. -/
theorem synth_scales {K F : Type} [CommRing K] [CommRing F] (χ : K → F) (k : F) (kx ky : List K) (C : List F) (x y : K) :
    synth χ kx ky (C.map (k * ·)) x y = k * synth χ kx ky C x y := by
  unfold synth
  generalize gridX kx ky = A
  generalize gridY kx ky = B
  induction C generalizing A B with
  | nil => simp [zipSum3]
  | cons c C ih =>
    cases A with
    | nil => simp [zipSum3]
    | cons a A =>
      cases B with
      | nil => simp [zipSum3]
      | cons b B => simp only [List.map_cons, zipSum3, ih]; ring

/-- non-vacuity: `c = 4`, `k = 3`: amplitudes 2 and 6 -/
example : (0:ℚ) ≤ 3 ∧ (0:ℚ) ≤ 2 ∧ (0:ℚ) ≤ 6 ∧ (2:ℚ) ^ 2 = 4 ∧ (6:ℚ) ^ 2 = 3 ^ 2 * 4 := by norm_num


/-! ## Periodicity: the shift is a character, never a wrap -/

/-- **Shifts compose without reduction**: shifting by `s` and then by `t` is shifting by `s + t` — the code multiplies
by `χ(−k·s)` with the *unreduced* displacement; nothing is ever folded back onto a period. Together with
`shift_theorem` (which has no periodicity hypothesis): the screen at displacement `s` is `orig(x − s)` for every `s`,
however many grid extents it spans. -/
theorem shift_composes {K F : Type} [CommRing K] [CommRing F] (χ : K → F) (hχ : ∀ a b, χ (a + b) = χ a * χ b)
    (sx sy tx ty : K) (kx ky : List K) (C : List F) :
    shift χ tx ty kx ky (shift χ sx sy kx ky C) = shift χ (sx + tx) (sy + ty) kx ky C := by
  unfold shift
  rw [phases_eq_grid, phases_eq_grid, phases_eq_grid]
  exact applyShift_applyShift χ hχ sx sy tx ty C _ _

/-- **Periodicity is a property of the character on the frequency lattice**: a displacement `P` acts as the identity on
one scale exactly through `χ(−k·P) = 1` for the frequencies `k` of *that* scale's lattice (extent for the FFT scale,
oversampling × extent for the low-frequency scale) — if that holds for all of them, `s + P` and `s` give the same
coefficients. -/
theorem shift_period_of_character {K F : Type} [CommRing K] [CommRing F] (χ : K → F)
    (hχ : ∀ a b, χ (a + b) = χ a * χ b) (sx sy px py : K) (kx ky : List K) (C : List F)
    (hP : ∀ a ∈ kx, ∀ b ∈ ky, χ (-(py * b + px * a)) = 1) :
    shift χ (sx + px) (sy + py) kx ky C = shift χ sx sy kx ky C := by
  unfold shift
  rw [phases_eq_grid, phases_eq_grid]
  exact applyShift_period χ hχ sx sy px py C _ _
    (fun a ha b hb => hP a (mem_gridX ha) b (mem_gridY hb))

/-- the hypothesis of `shift_period_of_character` is satisfiable: frequencies `0, 2` (period 1 for `(−1)^n`) -/
example : ∀ a ∈ [(0 : Int), 2], ∀ b ∈ [(0 : Int)], parity (-(0 * b + 1 * a)) = 1 := by decide

/-- **Two scales, two periods: wrapping the displacement onto the shorter period is wrong.**  Scale 1 has
frequencies `0, 2` (period 1 under `(−1)^n`), scale 2 has frequencies `0, 1` (period 2 = "oversampling 2").
A displacement of one short period leaves scale 1 unchanged but not scale 2, so the two-scale screen shifted by 1
differs from the one shifted by "1 wrapped onto the short period" = 0. -/
theorem wrap_onto_one_period_counterexample :
    let kx1 : List Int := [0, 2]; let kx2 : List Int := [0, 1]; let ky : List Int := [0]
    let C1 : List Int := [1, 1]; let C2 : List Int := [1, 1]
    shift parity 1 0 kx1 ky C1 = shift parity 0 0 kx1 ky C1 ∧
    synth parity kx1 ky (shift parity 1 0 kx1 ky C1) 0 0 + synth parity kx2 ky (shift parity 1 0 kx2 ky C2) 0 0
      ≠ synth parity kx1 ky (shift parity 0 0 kx1 ky C1) 0 0 + synth parity kx2 ky (shift parity 0 0 kx2 ky C2) 0 0 ∧
    synth parity kx1 ky (shift parity 1 0 kx1 ky C1) 0 0 + synth parity kx2 ky (shift parity 1 0 kx2 ky C2) 0 0
      = synth parity kx1 ky C1 (0 - 1) (0 - 0) + synth parity kx2 ky C2 (0 - 1) (0 - 0) := by decide

/-! ## Independent realisations of the infinite layer -/

/-- **Independent realisation only on request (infinite layer, 1)**: without an independent reset in the history —
whatever evolutions, plain resets and parameter changes it contains — the realisation key and the original
generator are those of the seed (position `nx + ny`, right after the stencil draws). -/
theorem independent_only_on_request_infinite (nx ny : Nat) (delta vel : V2) (par : Par) (seed : Nat) (h : List Op)
    (hh : ∀ o ∈ h, o.isIndep = false) :
    ((InfL.new nx ny delta vel par seed).run h).start = nx + ny ∧
    ((InfL.new nx ny delta vel par seed).run h).orig = ⟨seed, nx + ny⟩ := by
  have h0 : (InfL.new nx ny delta vel par seed).Inv := InfL.reset_inv _ false rfl
  have hi := InfL.run_inv h _ h0
  have ho := (InfL.new nx ny delta vel par seed).run_orig h hh
  have e : (InfL.new nx ny delta vel par seed).orig = ⟨seed, nx + ny⟩ := by
    simp [InfL.new, InfL.fresh, InfL.reset, InfL.pickRng, InfL.initScreen, Rng.draw]
  rw [hi.1, ho, e]
  exact ⟨rfl, rfl⟩

/-- **Independent realisation only on request (infinite layer, 2)**: when requested, the new realisation starts at the
current position of the working generator, which lies behind the whole initial screen of the current realisation
(and behind every extrusion drawn since): fresh numbers; and a later plain reset replays *this* realisation. -/
theorem independent_draws_fresh_numbers_infinite (L : InfL) (hL : L.Inv) :
    (L.reset true).start = L.rng.pos ∧ L.start + 4 * (L.nx * L.ny) ≤ (L.reset true).start ∧
    ((L.reset true).reset false).view = (L.reset true).view ∧ (L.reset true).Inv := by
  obtain ⟨h1, h2, h3⟩ := hL
  refine ⟨?_, ?_, ?_, InfL.reset_inv _ true h3⟩
  · simp [InfL.reset, InfL.pickRng, InfL.initScreen]
  · simp only [InfL.reset, InfL.pickRng, InfL.initScreen, if_true]; omega
  · simp [InfL.view, InfL.reset, InfL.pickRng, InfL.initScreen]

/-- the invariant is satisfiable: every constructed layer has it -/
example : (InfL.new 3 2 (1/4, 1/2) (1/4, 0) ⟨1, 10⟩ 7).Inv := InfL.reset_inv _ false rfl

/-- non-square pixels (`δx = 1/4`, `δy = 1/2`): the pixel displacement of each axis is computed with that axis' own
pixel size — wind `(1/4, −1/2)` per unit time moves the sample of pixel (0,1) to pixel (1,0) at `t = 1`
(instance of `evolve_translates` / `direction_agrees_with_velocity` with `a = 1`, `b = −1`). -/
example : ((InfL.new 3 3 (1/4, 1/2) (1/4, -1/2) ⟨1, 10⟩ 7).evolveWith sideX sideY 1).screen[0 * 3 + 1]?
    = (InfL.new 3 3 (1/4, 1/2) (1/4, -1/2) ⟨1, 10⟩ 7).screen[1 * 3 + 0]? := by decide +kernel


/-- **Sub-pixel offset: the decomposition of the centre** (`_partial`: the interpolation operator itself is not
modelled — the read-out `affine_transform(screen, offset = (−sub/δ)[::-1])` is compared with SciPy by the harness).
After every `evolve_until` the accumulated displacement is split exactly into the whole pixels the screen has been
extruded by and the offset handed to the interpolation: `centre = pixel·δ + sub` per axis, each axis with its own
pixel size; and the whole-pixel part is what `evolve_translates` moves the samples by. -/
theorem subpixel_offset_decomposition_partial (L : InfL) (t : Rat) :
    let L' := L.evolveWith sideX sideY t
    L'.center.1 = pixel L'.center.1 L.delta.1 * L.delta.1 + L'.sub.1 ∧
    L'.center.2 = pixel L'.center.2 L.delta.2 * L.delta.2 + L'.sub.2 ∧
    L'.center = (L.center.1 + L.vel.1 * (t - L.t), L.center.2 + L.vel.2 * (t - L.t)) := by
  simp only [InfL.evolveWith]
  refine ⟨by ring, by ring, trivial⟩

/-- **The read-out request** (`InfL.interpRequest`, executed by the driver and compared with the intercepted
`affine_transform` call of every `evolve_until` of an interpolating layer): the screen is asked at its own pixel grid
(`matrix = [1, 1]`, spline order 5, `mode='nearest'`) displaced by an offset that is — per axis, in pixels of that
axis, in (row, column) = (y, x) order — minus the part of the accumulated displacement the extrusions have not
taken: `centre/δ = whole pixels − offset`.  On a whole-pixel displacement the offset is zero.  (The spline operator
itself is SciPy's and stays outside the model: `subpixel_offset_decomposition_partial`.) -/
theorem interp_request_offset (L : InfL) (t : Rat) (hx : L.delta.1 ≠ 0) (hy : L.delta.2 ≠ 0) :
    let L' := L.evolveWith sideX sideY t
    L'.center.1 / L.delta.1 = pixel L'.center.1 L.delta.1 - L'.interpRequest.offset.2 ∧
    L'.center.2 / L.delta.2 = pixel L'.center.2 L.delta.2 - L'.interpRequest.offset.1 ∧
    L'.interpRequest.matrix = (1, 1) ∧ L'.interpRequest.order = 5 ∧ L'.interpRequest.nearest = true ∧
    (L'.sub = (0, 0) → L'.interpRequest.offset = (0, 0)) := by
  intro L'
  have hd : L'.delta = L.delta := by
    show (InfL.extrudeN _ _ (InfL.extrudeN _ _ L)).delta = L.delta
    rw [(InfL.extrudeN_params _ _ _).2.2.1, (InfL.extrudeN_params _ _ _).2.2.1]
  have hs : L'.sub = (L'.center.1 - pixel L'.center.1 L.delta.1 * L.delta.1,
      L'.center.2 - pixel L'.center.2 L.delta.2 * L.delta.2) := rfl
  refine ⟨?_, ?_, rfl, rfl, rfl, ?_⟩
  · show _ = _ - (-L'.sub.1 / L'.delta.1)
    rw [hd, hs]
    field_simp
    ring
  · show _ = _ - (-L'.sub.2 / L'.delta.2)
    rw [hd, hs]
    field_simp
    ring
  · intro h0
    show ((-L'.sub.2 / L'.delta.2, -L'.sub.1 / L'.delta.1) : V2) = (0, 0)
    rw [h0]
    simp

example : (InfL.new 3 3 (1/4, 1/2) (1/4, -1/2) ⟨1, 10⟩ 7).delta.1 ≠ 0 ∧ (InfL.new 3 3 (1/4, 1/2) (1/4, -1/2) ⟨1, 10⟩ 7).delta.2 ≠ 0 := by
  decide +kernel

/-! ## The synthesis hypothesis, executed: `synth` with the exact character into `ℚ[ℤ/M]`

The driver op `C15 synth` runs `Shift.synth` itself with the character `cycChar M : ℚ → ℚ[ℤ/M]` on the real factory's
frequency axes (in turns), output points and complex coefficients (times the real quadrature weight); the harness
evaluates the printed coefficient list at `ζ = e^{2πi/M}` and compares with `fourier.backward(C).real` of
`SpectralNoiseFFT` / `SpectralNoiseMultiscale`.  The two theorems say what that number is. -/

/-- What the driver prints for one point, evaluated at **any** `M`-th root of unity `ζ` of a field of characteristic 0,
is `synth` over that field with the character `q ↦ ζ^(⌊qM⌋ mod M)` and the coefficients `re + im·ζ^(M/4)`. -/
theorem synth_cyc_eval {G : Type} [Field G] [CharZero G] (M : Nat) (hM : 0 < M) (ζ : G) (hζ : ζ ^ M = 1)
    (kx ky cre cim : List Rat) (x y : Rat) :
    ((List.range M).map fun r =>
        (((synth (cycChar M) kx ky (List.zipWith Cyc.ofComplex cre cim) x y).coeff r : Rat) : G) * ζ ^ r).sum
      = synth (fun q => ζ ^ cycExp M q) kx ky (List.zipWith (fun (re im : Rat) => (re : G) + (im : G) * ζ ^ (M / 4)) cre cim) x y := by
  rw [Cyc.eval_dense ζ hζ hM, synth_map (Cyc.eval ζ) (Cyc.eval_zero ζ) (Cyc.eval_add ζ) (Cyc.eval_mul ζ hζ)]
  have hχ : (fun q => Cyc.eval ζ (cycChar M q)) = fun q => ζ ^ cycExp M q := by
    funext q; exact Cyc.eval_mono ζ hζ _
  have hC : (List.zipWith Cyc.ofComplex cre cim).map (Cyc.eval (M := M) ζ)
      = List.zipWith (fun (re im : Rat) => (re : G) + (im : G) * ζ ^ (M / 4)) cre cim := by
    simp only [List.map_zipWith, Cyc.eval_ofComplex]
  rw [hχ, hC]

/-- **The executed `synth` is the `synth` of the translation theorems.**  For every character `E` of `ℚ` of period 1
(`E = q ↦ e^{2πi q}`; this is the `χ` of `shift_theorem` / `finite_layer_translates` with the frequencies in turns), if all
phases `kx[m]·x + ky[n]·y` lie in `(1/M)ℤ` (the driver refuses the request otherwise) and `4 ∣ M`, the printed coefficient
list evaluated at `ζ = E(1/M)` is `synth E` on the complex coefficients `re + im·E(1/4)`. -/
theorem synth_cyc_is_character_synth {G : Type} [Field G] [CharZero G] (E : ℚ → G) (hE : ∀ a b, E (a + b) = E a * E b)
    (h1 : E 1 = 1) (M : Nat) (hM : 0 < M) (h4 : 4 ∣ M) (kx ky cre cim : List Rat) (x y : Rat)
    (hph : ∀ a ∈ kx, ∀ b ∈ ky, ∃ n : ℤ, (a * x + b * y) * M = n) :
    ((List.range M).map fun r =>
        (((synth (cycChar M) kx ky (List.zipWith Cyc.ofComplex cre cim) x y).coeff r : Rat) : G) * E (1 / M) ^ r).sum
      = synth E kx ky (List.zipWith (fun (re im : Rat) => (re : G) + (im : G) * E (1 / 4)) cre cim) x y := by
  have hζ : E (1 / M) ^ M = 1 := by
    rw [← char_nat_mul E hE h1]
    have : (M : ℚ) * (1 / M) = 1 := by
      have : (M : ℚ) ≠ 0 := by exact_mod_cast hM.ne'
      field_simp
    rw [this, h1]
  have hi : E (1 / M) ^ (M / 4) = E (1 / 4) := by
    rw [← char_nat_mul E hE h1]
    congr 1
    obtain ⟨k, rfl⟩ := h4
    have hk : (k : ℚ) ≠ 0 := by
      have : 0 < k := by omega
      exact_mod_cast this.ne'
    rw [Nat.mul_div_cancel_left k (by norm_num)]
    push_cast
    field_simp
  rw [synth_cyc_eval M hM _ hζ, hi]
  exact synth_congr _ _ _ _ _ _ _ fun a ha b hb => cycExp_agrees E hE h1 hM _ (hph a ha b hb)

/-- the hypotheses are satisfiable: the trivial character, `M = 4`, a 2×1 lattice -/
example : ∃ E : ℚ → ℚ, (∀ a b, E (a + b) = E a * E b) ∧ E 1 = 1 ∧
    ∀ a ∈ [(0 : ℚ), 1/4], ∀ b ∈ [(0 : ℚ)], ∃ n : ℤ, (a * 1 + b * 0) * (4 : ℕ) = n :=
  ⟨fun _ => 1, fun _ _ => by norm_num, rfl, by
    intro a ha b hb
    simp only [List.mem_cons, List.not_mem_nil, or_false] at ha hb
    rcases ha with rfl | rfl <;> subst hb
    · exact ⟨0, by norm_num⟩
    · exact ⟨1, by norm_num⟩⟩

/-! ## Generators as heap cells: `deepcopy`, aliasing, a caller-owned generator

`Model/LayerHeap.lean`: the generators live in cells, the layer holds handles, `copy.deepcopy` allocates.  Here a
missing `deepcopy` *can* be written down (`HL.stepAliased`), and so can a generator shared with the caller
(`SeedKind.genShared`, `HL.foreignDraw`).  The replay theorems above are about the value-level layers; the
simulation theorems carry them to the heap layers, which the driver runs (`hfin`, `hinf`) and the harness compares
with the object identities and generator states of the real layers. -/

/-- **The heap layer with `deepcopy` is the value-level layer** (finite layer, including lazy noise and cached
screen): from a state with two valid handles to different cells, after any history the state seen through the
handles is the value-level run, and the handles still point to different cells. -/
theorem heap_simulates_finite (H : HFin) (hw : H.WF) (h : List COp) :
    (H.run finAccess h).view finAccess = (H.view finAccess).run h ∧ (H.run finAccess h).WF :=
  HL.run_view finAccess finAccess_lawful h H hw

theorem heap_simulates_infinite (H : HInf) (hw : H.WF) (h : List Op) :
    (H.run infAccess h).view infAccess = (H.view infAccess).run h ∧ (H.run infAccess h).WF :=
  HL.run_view infAccess infAccess_lawful h H hw

/-- Every constructed finite heap layer — whichever way the seed arrives — is in a good state and shows the fresh
value-level layer; with the snapshot (`SeedKind.gen`) the caller's cell 0 is not one of the layer's. -/
theorem heap_new_finite (k : SeedKind) (nx ny : Nat) (vel : V2) (par : Par) (g : Rng) :
    (HFin.new k nx ny vel par g).WF ∧ (HFin.new k nx ny vel par g).view finAccess = FinC.fresh nx ny vel par g ∧
    (k = .gen → (HFin.new k nx ny vel par g).Sep 0) := by
  cases k <;> refine ⟨⟨?_, ?_⟩, ?_, ?_⟩ <;> first | decide | rfl | (intro h; cases h) | skip
  all_goals first | (simp [HFin.new, HL.step, HL.stepWith, HL.view, HL.repoint, finAccess, COp.ptr, HL.Valid, HL.Sep]; done) | skip

theorem heap_new_infinite (k : SeedKind) (nx ny : Nat) (delta vel : V2) (par : Par) (g : Rng) :
    (HInf.new k nx ny delta vel par g).WF ∧
    (HInf.new k nx ny delta vel par g).view infAccess = InfL.fresh nx ny delta vel par (g.draw (nx + ny)) ∧
    (k = .gen → (HInf.new k nx ny delta vel par g).Sep 0) := by
  cases k <;> refine ⟨⟨?_, ?_⟩, ?_, ?_⟩ <;> first | decide | rfl | (intro h; cases h) | skip
  all_goals first | (simp [HInf.new, HL.step, HL.stepWith, HL.view, HL.repoint, infAccess, Op.ptrInf, HL.Valid, HL.Sep]; done) | skip

/-- **A caller-owned generator is invisible (repaired construction).**  The layer was built from a `Generator`
object (cell 0) of which it took a snapshot; whatever the caller draws from its generator, whenever, the layer
shows exactly what the value-level layer shows under the layer's own operations — in particular every replay theorem
holds with the caller's draws interleaved anywhere. -/
theorem caller_generator_invisible_finite (nx ny : Nat) (vel : V2) (par : Par) (g : Rng) (h : List (HOp COp))
    (hc : ∀ o ∈ h, ∀ c n, o = HOp.foreign c n → c = 0) :
    ((HFin.new .gen nx ny vel par g).runH finAccess h).view finAccess
      = (FinC.fresh nx ny vel par g).run (HOp.owns h) := by
  obtain ⟨hw, hv, hs⟩ := heap_new_finite .gen nx ny vel par g
  rw [(HL.runH_view finAccess finAccess_lawful 0 h _ hw (hs rfl) hc).1, hv]; rfl

theorem caller_generator_invisible_infinite (nx ny : Nat) (delta vel : V2) (par : Par) (g : Rng) (h : List (HOp Op))
    (hc : ∀ o ∈ h, ∀ c n, o = HOp.foreign c n → c = 0) :
    ((HInf.new .gen nx ny delta vel par g).runH infAccess h).view infAccess
      = (InfL.fresh nx ny delta vel par (g.draw (nx + ny))).run (HOp.owns h) := by
  obtain ⟨hw, hv, hs⟩ := heap_new_infinite .gen nx ny delta vel par g
  rw [(HL.runH_view infAccess infAccess_lawful 0 h _ hw (hs rfl) hc).1, hv]; rfl

/-- the hypothesis is satisfiable by a history with interleaved foreign draws -/
example : ∀ o ∈ [HOp.own (COp.op (.evolve 1)), HOp.foreign 0 3, HOp.own (COp.op (.reset false)), HOp.own COp.read],
    ∀ c n, o = HOp.foreign c n → c = 0 := by
  intro o ho c n e; subst e; simp at ho; exact ho.1

/-- **D151 (before the repair): `_original_rng` *is* the caller's generator.**  Build a finite layer from a
`Generator`, let the caller draw 3 numbers, reset: the layer shows another realisation than before.  With the
snapshot it shows the same one. -/
theorem caller_generator_shared_counterexample :
    let old := HFin.new .genShared 2 2 (1, 0) ⟨1, 10⟩ ⟨7, 0⟩
    let new := HFin.new .gen 2 2 (1, 0) ⟨1, 10⟩ ⟨7, 0⟩
    (((old.foreignDraw 0 3).step finAccess (.op (.reset false))).view finAccess).shown ≠ (old.view finAccess).shown ∧
    (((new.foreignDraw 0 3).step finAccess (.op (.reset false))).view finAccess).shown = (new.view finAccess).shown := by
  decide +kernel

/-- the same for the infinite layer (the initial screens differ sample by sample) -/
theorem caller_generator_shared_counterexample_infinite :
    let old := HInf.new .genShared 2 2 (1, 1) (1, 0) ⟨1, 10⟩ ⟨7, 0⟩
    let new := HInf.new .gen 2 2 (1, 1) (1, 0) ⟨1, 10⟩ ⟨7, 0⟩
    (((old.foreignDraw 0 3).step infAccess (.reset false)).view infAccess).view ≠ (old.view infAccess).view ∧
    (((new.foreignDraw 0 3).step infAccess (.reset false)).view infAccess).view = (new.view infAccess).view := by
  decide +kernel

/-- **`self.rng = self._original_rng` without `deepcopy` breaks the replay (finite layer).**  With the plain
assignment the noise is drawn *from the original generator itself*; the second reset therefore starts from an
advanced generator and shows another realisation.  With `deepcopy` it shows the same one. -/
theorem reset_without_deepcopy_counterexample :
    let H := HFin.new .int 2 2 (1, 0) ⟨1, 10⟩ ⟨7, 0⟩
    let r : COp := .op (.reset false)
    (((H.stepAliased finAccess r).stepAliased finAccess r).view finAccess).shown ≠ (H.view finAccess).shown ∧
    ((H.stepAliased finAccess r).stepAliased finAccess r).rngH = ((H.stepAliased finAccess r).stepAliased finAccess r).origH ∧
    (((H.step finAccess r).step finAccess r).view finAccess).shown = (H.view finAccess).shown := by
  decide +kernel

/-- **Replay after reset, heap form (finite layer)**: build the layer any way (`k`), run any history of the layer's
own operations without an independent reset — evolutions, plain resets, parameter changes, reads (lazy re-draws) —
and reset: seen through the handles the layer is the freshly built layer with the parameters in force, so it shows the
same screens under every later history. -/
theorem heap_replay_after_reset_finite (k : SeedKind) (nx ny : Nat) (vel : V2) (par : Par) (g : Rng) (h₁ h : List COp)
    (hh : ∀ o ∈ h₁, o ≠ .op (.reset true)) :
    let H := (HFin.new k nx ny vel par g).run finAccess h₁
    let C := H.view finAccess
    ((H.step finAccess (.op (.reset false))).run finAccess h).view finAccess
      = (FinC.fresh nx ny C.base.vel C.base.par g).run h := by
  intro H C
  obtain ⟨hw, hv, _⟩ := heap_new_finite k nx ny vel par g
  obtain ⟨e1, w1⟩ := heap_simulates_finite _ hw h₁
  obtain ⟨e2, w2, d2, _⟩ := HL.step_view finAccess finAccess_lawful H (.op (.reset false)) w1.1 (Or.inl w1.2)
  rw [(heap_simulates_finite _ ⟨w2, d2⟩ h).1, e2]
  congr 1
  have hk := FinC.run_keeps (FinC.fresh nx ny vel par g) h₁ hh
  have hC : C = (FinC.fresh nx ny vel par g).run h₁ := by rw [← hv]; exact e1
  show FinC.step C (.op (.reset false)) = _
  rw [FinC.reset_false_eq_fresh, hC, hk.1, hk.2.1, hk.2.2]
  rfl

/-- **Replay after reset, heap form (infinite layer)**: build the layer any way (`k`: integer seed, a snapshot of the
caller's generator, or — before D151 — the caller's generator itself), run any history of the layer's own operations
without an independent reset (evolutions, refused backwards evolutions, plain resets, parameter changes) and reset:
seen through the handles the layer is the freshly built layer with the velocity and parameters in force, so it shows
the same screens under every later history. -/
theorem heap_replay_after_reset_infinite (k : SeedKind) (nx ny : Nat) (delta vel : V2) (par : Par) (g : Rng)
    (h₁ h : List Op) (hh : ∀ o ∈ h₁, o.isIndep = false) :
    let H := (HInf.new k nx ny delta vel par g).run infAccess h₁
    let L := H.view infAccess
    ((H.step infAccess (.reset false)).run infAccess h).view infAccess
      = (InfL.fresh nx ny delta L.vel L.par (g.draw (nx + ny))).run h := by
  intro H L
  obtain ⟨hw, hv, _⟩ := heap_new_infinite k nx ny delta vel par g
  obtain ⟨e1, w1⟩ := heap_simulates_infinite _ hw h₁
  obtain ⟨e2, w2, d2, _⟩ := HL.step_view infAccess infAccess_lawful H (.reset false) w1.1 (Or.inl w1.2)
  rw [(heap_simulates_infinite _ ⟨w2, d2⟩ h).1, e2]
  congr 1
  have hL : L = (InfL.fresh nx ny delta vel par (g.draw (nx + ny))).run h₁ := by rw [← hv]; exact e1
  have hp := (InfL.fresh nx ny delta vel par (g.draw (nx + ny))).run_shape h₁
  have ho := (InfL.fresh nx ny delta vel par (g.draw (nx + ny))).run_orig h₁ hh
  show L.reset false = _
  rw [InfL.reset_false_eq_fresh, hL, hp.1, hp.2.1, hp.2.2, ho]
  rfl

example : ∀ o ∈ [Op.evolve 1, Op.setCn2 4, Op.evolve (1 / 2), Op.reset false, Op.evolve 3], o.isIndep = false := by decide

/-! ## The finite layer's lazy noise and cached screen (`FinC`) -/

/-- **A parameter change on a running layer re-draws the same realisation.**  From a layer built with generator
state `g`, after any history without an independent reset (parameter changes at any point, no reset needed), the
first read after an `evolve_until(t)` shows the realisation of `g` made with the *current* parameters, displaced by
`velocity·t` — exactly what a freshly built layer with the current parameters shows at time `t`. -/
theorem read_after_evolve_is_fresh (nx ny : Nat) (vel : V2) (par : Par) (g : Rng) (h : List COp) (t : Rat)
    (hh : ∀ o ∈ h, o ≠ .op (.reset true)) :
    let C := (FinC.fresh nx ny vel par g).run h
    (C.step (.op (.evolve t))).shown = (g, C.base.par, (C.base.vel.1 * t, C.base.vel.2 * t)) ∧
    (C.step (.op (.evolve t))).shown
      = ((FinC.fresh nx ny C.base.vel C.base.par g).step (.op (.evolve t))).shown := by
  intro C
  have hJ : C.Live g := FinC.run_live _ h g (FinC.fresh_live nx ny vel par g) hh
  exact ⟨FinC.shown_after_evolve C g t hJ,
    (FinC.shown_after_evolve C g t hJ).trans (FinC.shown_after_evolve _ g t (FinC.fresh_live _ _ _ _ g)).symm⟩

/-- the history hypothesis is satisfiable with setters and reads in the middle of a run -/
example : ∀ o ∈ [COp.op (.evolve 1), COp.read, COp.op (.setCn2 4), COp.read, COp.op (.evolve 2), COp.read],
    o ≠ COp.op (.reset true) := by decide

/-- **The cached screen survives a setter (the code as it is).**  `Cn_squared = c` / `outer_scale = l` drop `_noise`
but not `_achromatic_screen`: a read directly after the setter still shows the screen cached before it; only after
the next `evolve_until` (or `reset`) does the change show (`read_after_evolve_is_fresh`).  With the cache dropped by
the setter too (`FinC.stepInval`) the read shows the current parameters at once. -/
theorem setter_then_read_is_stale (C : FinC) (s : Rng × Par × V2) (c : Rat) (hc : C.cache = some s) :
    (C.step (.op (.setCn2 c))).shown = s ∧ (C.step (.op (.setL0 c))).shown = s ∧
    (C.stepInval (.op (.setCn2 c))).shown = (C.base.orig, { C.base.par with cn2 := c }, C.base.center) := by
  rcases C with ⟨b, v, ca⟩
  simp only at hc
  subst hc
  simp [FinC.step, FinC.stepInval, FinC.shown, FinC.read, FinL.redraw, FinL.makeNoise, FinL.screen, FinL.setCn2, FinL.setL0]

/-- `FinC` is `FinL` plus the two flags: every operation except a read acts on the bookkeeping exactly as the
value-level finite layer does; a read changes it only by the lazy re-draw. -/
theorem finC_refines_finL (C : FinC) (o : Op) :
    (C.step (.op o)).base = C.base.step o ∧ (C.valid = true → (C.step .read).base = C.base) := by
  constructor
  · cases o <;> rfl
  · intro hv
    rcases C with ⟨b, v, ca⟩
    cases ca <;> simp_all [FinC.step, FinC.read]

/-! ## `MultiLayerAtmosphere`: element list, fan-out, replay, scaling of the sum (round 5)

All definitions are the ones the driver runs (`elements`, `atm …`, `mla …`, `atmphase`), compared with the real
`MultiLayerAtmosphere` after every operation. -/

/-- **Order of the elements**: the light meets the layers in order of non-increasing height — for every list of heights
(any order, ties, zeros, negative values) and both values of `scintillation`. -/
theorem elements_order_nonincreasing (s : Bool) (hs : List Rat) :
    ((layerOrder (buildElements s hs)).map (fun j => hs.getD j 0)).Pairwise (fun a b => b ≤ a) := by
  unfold buildElements
  rw [layerOrder_elementsOf, List.map_map]
  have : (sortDesc (indexed hs)).map ((fun j => hs.getD j 0) ∘ Prod.fst) = (sortDesc (indexed hs)).map Prod.snd :=
    List.map_congr_left (fun x hx => sorted_entry hs x hx)
  rw [this, List.pairwise_map]
  exact sortDesc_desc _

/-- **Every layer is used exactly once**: the layers of the element list are a permutation of `layers`. -/
theorem elements_layers_perm (s : Bool) (hs : List Rat) :
    (layerOrder (buildElements s hs)).Perm (List.range hs.length) := by
  unfold buildElements
  rw [layerOrder_elementsOf]
  have h := (sortDesc_perm (indexed hs)).map Prod.fst
  rw [indexed, indexedFrom_fst, ← List.range_eq_range'] at h
  exact h

/-- **The propagation distances sum to the highest layer height** (scintillation on, heights ≥ 0): from the highest
layer down to the ground, whatever the order in which the layers were given, with ties and with layers on the ground. -/
theorem elements_distances_sum (hs : List Rat) (hne : hs ≠ []) (h0 : ∀ h ∈ hs, 0 ≤ h) :
    ∃ m ∈ hs, (∀ h ∈ hs, h ≤ m) ∧ propSum (buildElements true hs) = m := by
  have hperm := sortDesc_perm (indexed hs)
  have hmem : ∀ z : Nat × Rat, z ∈ indexed hs → z.2 ∈ hs := by
    intro z hz
    have : z.2 ∈ (indexed hs).map Prod.snd := List.mem_map_of_mem hz
    rwa [indexed, indexedFrom_snd] at this
  have hof : ∀ h ∈ hs, ∃ z ∈ indexed hs, z.2 = h := by
    intro h hh
    have : h ∈ (indexed hs).map Prod.snd := by rw [indexed, indexedFrom_snd]; exact hh
    obtain ⟨z, hz, e⟩ := List.mem_map.1 this
    exact ⟨z, hz, e⟩
  cases hsd : sortDesc (indexed hs) with
  | nil =>
    have hl := hperm.length_eq
    rw [hsd] at hl
    have h2 : ((indexed hs).map Prod.snd).length = 0 := by rw [List.length_map]; exact hl.symm
    rw [indexed, indexedFrom_snd] at h2
    exact absurd (List.length_eq_zero_iff.1 h2) hne
  | cons x r =>
    have hd : Desc (x :: r) := hsd ▸ sortDesc_desc (indexed hs)
    have hx : x ∈ indexed hs := hperm.mem_iff.1 (hsd ▸ List.mem_cons_self ..)
    refine ⟨x.2, hmem x hx, ?_, ?_⟩
    · intro h hh
      obtain ⟨z, hz, e⟩ := hof h hh
      have : z ∈ x :: r := hsd ▸ hperm.mem_iff.2 hz
      rcases List.mem_cons.1 this with rfl | hzr
      · exact e ▸ le_refl _
      · exact e ▸ (List.pairwise_cons.1 hd).1 z hzr
    · unfold buildElements
      rw [hsd]
      apply propSum_elementsOf
      intro z hz
      exact h0 _ (hmem z (hperm.mem_iff.1 (hsd ▸ hz)))

example : ([3, 0, 5/2] : List Rat) ≠ [] ∧ ∀ h ∈ ([3, 0, 5/2] : List Rat), 0 ≤ h := by
  refine ⟨by simp, ?_⟩; intro h hh; simp at hh; rcases hh with rfl | rfl | rfl <;> norm_num

/-- every propagation distance is non-negative (heights ≥ 0) -/
theorem elements_distances_nonneg (s : Bool) (hs : List Rat) (h0 : ∀ h ∈ hs, 0 ≤ h) :
    ∀ e ∈ buildElements s hs, 0 ≤ e.dist := by
  have hperm := sortDesc_perm (indexed hs)
  apply dist_nonneg_elementsOf s _ (sortDesc_desc _)
  intro z hz
  have : z.2 ∈ (indexed hs).map Prod.snd := List.mem_map_of_mem (hperm.mem_iff.1 hz)
  rw [indexed, indexedFrom_snd] at this
  exact h0 _ this

/-- **Scintillation off: no propagator at all**, the element list is the sorted list of layers. -/
theorem elements_without_scintillation (hs : List Rat) :
    ∀ e ∈ buildElements false hs, ∃ j, e = El.layer j := by
  intro e he
  unfold buildElements at he
  rw [elementsOf_false] at he
  obtain ⟨x, _, rfl⟩ := List.mem_map.1 he
  exact ⟨x.1, rfl⟩

/-- **The element list in use is current**: after any history of `layers = …`, `scintillation = …` (same value, other
value, repeated), explicit `calculate_propagators()` and propagations, the list a `forward`/`backward` uses is the one
of the current layers and the current flag (a pending rebuild survives a scintillation assignment). -/
theorem elements_current_after_propagate (hs : List Rat) (s : Bool) (h : List AOp)
    (hh : ∀ o ∈ h, o.isSetHeight = false) :
    let A := (Atm.new hs s).run h
    (A.step .propagate).elements = buildElements A.scint A.heights ∧ (A.step .propagate).dirty = false := by
  intro A
  have hi : A.Inv := Atm.run_inv h _ hh (Atm.new_inv hs s)
  by_cases hd : A.dirty = true
  · simp [Atm.step, hd, Atm.calc]
  · rcases hi with h1 | h1
    · exact absurd h1 hd
    · simpa [Atm.step, hd] using h1

example : ∀ o ∈ [AOp.setScint true, AOp.setLayers [1, 2], AOp.setScint true, AOp.propagate, AOp.recalc],
    o.isSetHeight = false := by decide

/-- the hypothesis of `elements_current_after_propagate` is needed: `layer.height = h` on a layer object is not
noticed by the atmosphere, the next propagation still uses the old distances (code as it is; recorded, not judged). -/
theorem elements_stale_after_height_change :
    (((Atm.new [1, 2] true).step (.setHeight 0 3)).step .propagate).elements
      ≠ buildElements true [3, 2] := by decide +kernel

/-- **Replay after reset, `MultiLayerAtmosphere`.**  Build the atmosphere from layers with seeds, run any history of
`evolve_until` / `t = …` (also refused ones, which leave some layers evolved and others not), `reset()`,
`Cn_squared = …`, `outer_scale = …` and operations on the individual layer objects (no independent realisation
requested on a layer), then `reset()`: the atmosphere is — as a state: every layer's generators, noise / symbolic
screen, centre, time, and `atm.t` — the atmosphere freshly built from the same seeds with the velocities and parameters
in force, hence every later history shows the screens and times of that fresh atmosphere. -/
theorem replay_after_reset_multilayer (specs : List Spec) (h₁ h : List MOp) (hh : ∀ o ∈ h₁, o.isIndep = false) :
    let B := (MLA.new specs).run h₁
    B.step .reset = MLA.new (currentSpecs specs B.layers) ∧
    (B.step .reset).screens h = (MLA.new (currentSpecs specs B.layers)).screens h := by
  intro B
  have hid : B.layers.map AnyL.ident = (specs.map AnyL.new).map AnyL.ident := MLA.run_idents h₁ (MLA.new specs) hh
  have : B.step .reset = MLA.new (currentSpecs specs B.layers) := by
    show B.reset = _
    rw [MLA.reset_eq, hid, ofIdents_new]
  rw [this]; exact ⟨rfl, rfl⟩

/-- … and without parameter changes in the first run it is the atmosphere as it was built. -/
theorem replay_after_reset_multilayer_same_params (specs : List Spec) (h₁ h : List MOp)
    (hh : ∀ o ∈ h₁, o.isIndep = false) (hs : ∀ o ∈ h₁, o.isSet = false) :
    (((MLA.new specs).run h₁).step .reset) = MLA.new specs ∧
    (((MLA.new specs).run h₁).step .reset).screens h = (MLA.new specs).screens h := by
  have h1 := (replay_after_reset_multilayer specs h₁ h hh).1
  have hvp : ((MLA.new specs).run h₁).layers.map AnyL.vp = specs.map (fun s => (s.vel, s.par)) := by
    rw [MLA.run_vp h₁ _ hs]
    simp [MLA.new, List.map_map, Function.comp_def, AnyL.new_vp]
  have : ((MLA.new specs).run h₁).step .reset = MLA.new specs := by
    rw [h1, currentSpecs_same specs _ hvp]
  rw [this]; exact ⟨rfl, rfl⟩

example : (∀ o ∈ [MOp.evolve 1, MOp.setCn2 4, MOp.direct 1 (.evolve 3), MOp.evolve 2, MOp.reset], o.isIndep = false) ∧
    (∀ o ∈ [MOp.evolve 1, MOp.direct 1 (.evolve 3), MOp.evolve 2, MOp.reset], o.isSet = false) := by decide

/-- **Fan-out of the time**: when no layer refuses (`t` not before any layer's time — always so for finite layers after
the atmosphere's own operations), `evolve_until(t)` / `atm.t = t` leaves every layer and the atmosphere at time `t`;
`reset()` leaves every layer and the atmosphere at time zero. -/
theorem multilayer_time_fanout (A : MLA) (t : Rat) (ht : ∀ a ∈ A.layers, a.t ≤ t) :
    (A.step (.evolve t)).t = t ∧ (∀ a ∈ (A.step (.evolve t)).layers, a.t = t) ∧
    (A.step .reset).t = 0 ∧ ∀ a ∈ (A.step .reset).layers, a.t = 0 := by
  have h := evolveAll_t t A.layers ht
  refine ⟨by simp [MLA.step, MLA.evolve, h.1], h.2, rfl, ?_⟩
  intro a ha
  obtain ⟨b, _, rfl⟩ := List.mem_map.1 ha
  exact b.reset_t false

example : ∀ a ∈ (MLA.new [⟨false, 2, 2, (1, 1), (1, 0), ⟨1, 10⟩, 3⟩, ⟨true, 2, 2, (1, 1), (1, 0), ⟨1, 10⟩, 4⟩]).layers,
    a.t ≤ 5 := by decide +kernel

/-- **Fan-out of the time, whatever the atmosphere's own clock says.**  `evolve_until(t)` never consults `atm._t`: for an
atmosphere in *any* state — its stored time equal to `t` or not, its layers in step with it or not (a layer reset or
evolved directly, a finite layer ahead of `t`) — if no infinite layer is ahead of `t`, the call succeeds and leaves
every layer and the atmosphere at `t`. -/
theorem multilayer_time_fanout_any_clock (A : MLA) (t : Rat) (ht : ∀ a ∈ A.layers, a.accepts t) :
    (A.step (.evolve t)).t = t ∧ (∀ a ∈ (A.step (.evolve t)).layers, a.t = t) ∧
    ∀ s : Rat, (({ A with t := s } : MLA).step (.evolve t)) = A.step (.evolve t) := by
  have h := evolveAll_accepts t A.layers ht
  refine ⟨by simp [MLA.step, MLA.evolve, h], ?_, ?_⟩
  · intro a ha
    simp only [MLA.step, MLA.evolve, h, List.mem_map] at ha
    obtain ⟨b, hb, rfl⟩ := ha
    exact (b.evolve?_accepts t (ht b hb)).2
  · intro s
    simp [MLA.step, MLA.evolve, h]

example : ∀ a ∈ ((MLA.new [⟨false, 2, 2, (1, 1), (1, 0), ⟨1, 10⟩, 3⟩, ⟨true, 2, 2, (1, 1), (1, 0), ⟨1, 10⟩, 4⟩]).step
    (.direct 0 (.evolve 7))).layers, a.accepts 5 := by
  intro a ha
  simp [MLA.new, MLA.step, modifyAt, AnyL.new] at ha
  rcases ha with rfl | rfl
  · trivial
  · show (0 : Rat) ≤ 5
    decide

/-- **Equal target time after a layer was reset behind the atmosphere.**  `atm.evolve_until(T); layer.reset();
atm.evolve_until(T)`: for an atmosphere in any state (in particular `atm._t = t`), after `reset()` on the layer object
`j` and `evolve_until(t)` with a time no layer refuses, the atmosphere and every layer are at `t`, and layer `j` is —
as a state, hence in every screen it shows from then on — the layer freshly built with its seed and the velocity and
parameters in force, evolved to `t`. -/
theorem multilayer_equal_time_after_layer_reset (A : MLA) (j : Nat) (a : AnyL) (t : Rat) (h0 : 0 ≤ t)
    (hj : A.layers[j]? = some a) (ht : ∀ b ∈ A.layers, b.accepts t) :
    let B := (A.step (.direct j (.reset false))).step (.evolve t)
    B.t = t ∧ (∀ b ∈ B.layers, b.t = t) ∧
    B.layers[j]? = some ((AnyL.ofIdent a.ident a.vel a.par).step (.evolve t)) := by
  intro B
  have hacc : ∀ b ∈ (A.step (.direct j (.reset false))).layers, b.accepts t := by
    intro b hb
    rcases mem_modifyAt _ j A.layers b hb with hb | ⟨c, _, rfl⟩
    · exact ht b hb
    · exact AnyL.accepts_of_le _ t (by rw [AnyL.reset_t]; exact h0)
  have h := multilayer_time_fanout_any_clock (A.step (.direct j (.reset false))) t hacc
  refine ⟨h.1, h.2.1, ?_⟩
  have he := evolveAll_accepts t _ hacc
  show ((A.step (.direct j (.reset false))).evolve t).layers[j]? = _
  simp only [MLA.evolve, he, List.getElem?_map]
  show ((modifyAt (·.step (.reset false)) j A.layers)[j]?).map _ = _
  rw [modifyAt_getElem?, hj, ← AnyL.reset_eq]
  rfl

example : (0 : Rat) ≤ 2 ∧
    ((MLA.new [⟨false, 2, 2, (1, 1), (1, 0), ⟨1, 10⟩, 3⟩]).step (.evolve 2)).layers[0]? =
      some (((MLA.new [⟨false, 2, 2, (1, 1), (1, 0), ⟨1, 10⟩, 3⟩]).step (.evolve 2)).layers.headD (AnyL.new ⟨false, 2, 2, (1, 1), (1, 0), ⟨1, 10⟩, 3⟩)) := by
  decide +kernel

/-- **Equal target time after new layers were assigned.**  `atm.layers = [Layer(…, seed=sᵢ) …]` on an atmosphere in any
state, then `evolve_until(t)` (`t ≥ 0`; in particular the time the atmosphere had recorded before): the atmosphere is,
as a state, the atmosphere freshly built from those layers and evolved to `t`. -/
theorem multilayer_equal_time_after_new_layers (A : MLA) (specs : List Spec) (t : Rat) (h0 : 0 ≤ t) :
    (A.setLayers specs).step (.evolve t) = (MLA.new specs).step (.evolve t) := by
  have hacc : ∀ b ∈ specs.map AnyL.new, b.accepts t := by
    intro b hb
    obtain ⟨s, _, rfl⟩ := List.mem_map.1 hb
    exact AnyL.accepts_of_le _ t (by rw [AnyL.new_t]; exact h0)
  have he := evolveAll_accepts t _ hacc
  simp [MLA.step, MLA.evolve, MLA.setLayers, MLA.new, he]

example : (0 : Rat) ≤ 2 := by decide

/-- **A new atmosphere around layers that have already been evolved** (`MultiLayerAtmosphere(atm.layers)`, own clock at
0): `evolve_until(t)` does to the layers exactly what it does in the old atmosphere — with
`multilayer_time_fanout_any_clock`: `evolve_until(0)` rewinds every finite layer to time zero. -/
theorem multilayer_rewrap_evolve (A : MLA) (t : Rat) :
    (A.rewrap.step (.evolve t)).layers = (A.step (.evolve t)).layers ∧ A.rewrap.layers = A.layers ∧ A.rewrap.t = 0 :=
  ⟨rfl, rfl, rfl⟩

/-- **Why the stored time must not be used as a shortcut** (the regression class of round 6): an `evolve_until` that
returns early when `t` equals the atmosphere's stored time leaves a layer that was reset directly at time zero, where
the code as it is brings it back to `t`. -/
theorem multilayer_short_circuit_counterexample :
    let A := ((MLA.new [⟨false, 2, 2, (1, 1), (1, 0), ⟨1, 10⟩, 3⟩]).step (.evolve 2)).step (.direct 0 (.reset false))
    A.t = 2 ∧ (A.step (.evolve 2)).layers.map AnyL.t = [2] ∧
    (if (2 : Rat) = A.t then A else A.step (.evolve 2)).layers.map AnyL.t = [0] := by decide +kernel

/-- **D515.** Before the repair `MultiLayerAtmosphere.reset()` rewound the layers but not its own clock: after
`evolve_until(1); reset()` the atmosphere reports `t = 1` while every layer is at time zero. -/
theorem multilayer_reset_old_counterexample :
    let A := MLA.new [⟨false, 2, 2, (1, 1), (1, 0), ⟨1, 10⟩, 3⟩, ⟨true, 2, 2, (1, 1), (1, 0), ⟨1, 10⟩, 4⟩]
    ((A.stepOld (.evolve 1)).stepOld .reset).t = 1 ∧ (∀ a ∈ ((A.stepOld (.evolve 1)).stepOld .reset).layers, a.t = 0) ∧
    ((A.step (.evolve 1)).step .reset).t = 0 := by decide +kernel

/-- **A refused `evolve_until` is not atomic** (code as it is): with a finite layer in front of an infinite one, a
backwards time moves the finite layer, is refused by the infinite layer, and the atmosphere keeps its old time. -/
theorem multilayer_refused_evolve_is_partial :
    let A := (MLA.new [⟨false, 2, 2, (1, 1), (1, 0), ⟨1, 10⟩, 3⟩, ⟨true, 2, 2, (1, 1), (1, 0), ⟨1, 10⟩, 4⟩]).step (.evolve 3)
    (A.step (.evolve 1)).t = 3 ∧ (A.step (.evolve 1)).layers.map AnyL.t = [1, 3] := by decide +kernel

/-- **`atm.Cn_squared = T`**: every layer's strength is multiplied by the same factor `T / (old total)`, and the new
total is `T` — so (with `phase_sqrt_strength` for each layer) every layer's screen, hence the sum, scales by the root
of that factor. -/
theorem multilayer_setCn2_proportional (A : MLA) (T : Rat) (hT : totalCn2 A.layers ≠ 0) :
    totalCn2 (A.step (.setCn2 T)).layers = T ∧
    (A.step (.setCn2 T)).layers.map (·.par.cn2) = A.layers.map (fun a => a.par.cn2 * (T / totalCn2 A.layers)) := by
  have hf : ∀ a : AnyL, (a.step (.setCn2 (a.par.cn2 / totalCn2 A.layers * T))).par.cn2
      = a.par.cn2 * (T / totalCn2 A.layers) := by
    intro a; rw [(a.setCn2_par _).1]; field_simp
  constructor
  · show totalCn2 (A.layers.map _) = T
    rw [totalCn2_map (T / totalCn2 A.layers) _ hf]
    field_simp
  · show (A.layers.map _).map _ = _
    rw [List.map_map]
    exact List.map_congr_left (fun a _ => hf a)

example : totalCn2 (MLA.new [⟨false, 2, 2, (1, 1), (1, 0), ⟨1, 10⟩, 3⟩, ⟨true, 2, 2, (1, 1), (1, 0), ⟨3, 10⟩, 4⟩]).layers ≠ 0 := by
  decide +kernel

/-- **`atm.phase_for(λ) ∝ 1/λ`**: the sum over the layers times `λ` is the sum of the achromatic screens. -/
theorem multilayer_phase_inverse_wavelength {K : Type} [Field K] (as : List K) (l m : K) (hl : l ≠ 0) (hm : m ≠ 0) :
    atmPhase l as * l = atmPhase m as * m ∧ atmPhase l as * l = as.sum := by
  rw [atmPhase_mul l hl, atmPhase_mul m hm]; exact ⟨rfl, rfl⟩

/-- **`atm.phase_for ∝ sqrt(total Cn²)`**: when every layer's screen is `k` times as large, the sum is. -/
theorem multilayer_phase_sqrt_strength {K : Type} [Field K] (as : List K) (l k : K) :
    atmPhase l (as.map (k * ·)) = k * atmPhase l as := atmPhase_scale l k as

end HcipyVerif.C15
