import HcipyVerif.Lemmas.Layer

/-!
# C15 — Turbulence layers are reproducible and translate rigidly with the wind

Theorems about `HcipyVerif.Shift` (spectral phase ramp, row/column extrusion: index bookkeeping with the
axis order and ravel order the code uses) and `HcipyVerif.Layer` (the two layers as state machines with
the random generator as an explicit value), the models tied to hcipy by harness/props/c15.py.

* replay: `finite_reset_is_fresh`, `infinite_reset_is_fresh`, `replay_after_reset`, `replay_after_reset_infinite`,
  `independent_only_on_request`, `independent_draws_fresh_numbers`; `…Old` counterexample for D17;
* spectral shift: `phase_axis_order`, `shift_theorem`, `shift_theorem_multiscale`, `whole_pixel_exact`,
  `finite_layer_translates`; counterexample `shift_axes_swapped_counterexample` (2×3 grid) for D16;
* extrusion: `extrude_left/right/top/bottom`, `extrude_moves`, `extrudeN_moves`, `evolve_translates`,
  `direction_agrees_with_velocity`; `…Old` counterexample for D18;
* scaling: `phase_inverse_wavelength`, `phase_sqrt_strength`.

Hypothesis used by the spectral theorems: `χ` is an additive character (`χ (a+b) = χ a * χ b`) —
satisfied by `t ↦ exp(i t)`; the counterexample uses the character `n ↦ (-1)^n` of `ℤ`.
-/
set_option linter.unusedSimpArgs false
set_option linter.unusedVariables false

namespace HcipyVerif.C15
open HcipyVerif.Shift HcipyVerif.Layer

/-! ## Spectral shift (finite layer) -/

/-- **Axis order.** At every flat index the repaired phase array is `sx·x_j + sy·y_j` for the Fourier-grid
point `(x_j, y_j)` stored at that index (x fastest), for every pair of axis lengths. -/
theorem phase_axis_order {K : Type} [Add K] [Mul K] (sx sy : K) (kx ky : List K) :
    phases sx sy kx ky = List.zipWith (fun a b => sy * b + sx * a) (gridX kx ky) (gridY kx ky) :=
  phases_eq_grid sx sy kx ky

/-- **Shift theorem, exact form.** Multiplying the coefficients by `χ(−k·s)` as `shift` does translates
the synthesised screen: `shifted(x, y) = orig(x − sx, y − sy)` at every point, for every grid shape
(`kx`, `ky` arbitrary lists — square or not) and every coefficient list. -/
theorem shift_theorem {K F : Type} [CommRing K] [CommRing F] (χ : K → F)
    (hχ : ∀ a b, χ (a + b) = χ a * χ b) (sx sy : K) (kx ky : List K) (C : List F) (x y : K) :
    synth χ kx ky (shift χ sx sy kx ky C) x y = synth χ kx ky C (x - sx) (y - sy) := by
  unfold synth shift
  rw [phases_eq_grid]
  exact zipSum3_shift χ hχ sx sy x y C _ _

/-- The multiscale noise is the sum of two syntheses on two Fourier grids, both shifted by the same code;
any (real-part, weight) post-processing `re` applied to the sum commutes with the shift. -/
theorem shift_theorem_multiscale {K F R : Type} [CommRing K] [CommRing F] (χ : K → F)
    (hχ : ∀ a b, χ (a + b) = χ a * χ b) (re : F → R) (sx sy : K) (kx1 ky1 kx2 ky2 : List K)
    (C1 C2 : List F) (x y : K) :
    re (synth χ kx1 ky1 (shift χ sx sy kx1 ky1 C1) x y + synth χ kx2 ky2 (shift χ sx sy kx2 ky2 C2) x y)
      = re (synth χ kx1 ky1 C1 (x - sx) (y - sy) + synth χ kx2 ky2 C2 (x - sx) (y - sy)) := by
  rw [shift_theorem χ hχ, shift_theorem χ hχ]

/-- **Whole-pixel shifts are index translations**: on the grid `x_i = x0 + i·δx`, `y_j = y0 + j·δy`, the
screen shifted by `(a·δx, b·δy)` has at pixel `(i, j)` the value the original has at pixel `(i − a, j − b)`
(wherever that pixel lies — on the overlap it is a sample of the original screen). -/
theorem whole_pixel_exact {K F : Type} [CommRing K] [CommRing F] (χ : K → F)
    (hχ : ∀ a b, χ (a + b) = χ a * χ b) (kx ky : List K) (C : List F) (x0 y0 δx δy : K) (a b i j : Int) :
    synth χ kx ky (shift χ (a * δx) (b * δy) kx ky C) (x0 + i * δx) (y0 + j * δy)
      = synth χ kx ky C (x0 + ((i - a : Int) : K) * δx) (y0 + ((j - b : Int) : K) * δy) := by
  rw [shift_theorem χ hχ]
  congr 1 <;> push_cast <;> ring

/-- The finite layer at time `t` shows the `t = 0` screen translated by `velocity · t`:
`screen_t(x, y) = screen_0(x − vx t, y − vy t)` (with D16 and D17 repaired). -/
theorem finite_layer_translates {F : Type} [CommRing F] (χ : Rat → F)
    (hχ : ∀ a b, χ (a + b) = χ a * χ b) (L : FinL) (t : Rat) (kx ky : List Rat) (C : List F) (x y : Rat) :
    synth χ kx ky (shift χ (L.evolve t).center.1 (L.evolve t).center.2 kx ky C) x y
      = synth χ kx ky C (x - L.vel.1 * t) (y - L.vel.2 * t) := by
  rw [shift_theorem χ hχ]; rfl

/-- non-vacuity of the character hypothesis -/
example : ∃ χ : Int → Int, (∀ a b, χ (a + b) = χ a * χ b) ∧ χ 1 ≠ χ 0 := ⟨parity, parity_add, by decide⟩

/-- **D16.** With the axis order of the code before the repair (`np.ix_(*S)`), on a 2×3 grid
(`nx = 2`, `ny = 3`) a shift along x does *not* translate the screen: there are coefficients, a character and
a point where `shiftOld` differs from `orig(x − s)`.  (On this non-square grid the old phase array is not
even the transposed one, it is scrambled.) -/
theorem shift_axes_swapped_counterexample :
    ∃ (kx ky : List Int) (C : List Int) (sx sy x y : Int),
      kx.length = 2 ∧ ky.length = 3 ∧
      synth parity kx ky (shiftOld parity sx sy kx ky C) x y ≠ synth parity kx ky C (x - sx) (y - sy) ∧
      synth parity kx ky (shift parity sx sy kx ky C) x y = synth parity kx ky C (x - sx) (y - sy) :=
  ⟨[0, 1], [0, 1, 2], [0, 1, 0, 0, 0, 0], 1, 0, 0, 0, by decide, by decide, by decide, by decide⟩

/-! ## Row / column extrusion (infinite layer) -/

variable {α : Type}

/-- **`_extrude('left')`** on an `H × W` screen (any shape): every retained sample moves one pixel to
+x (`ix → ix+1`, same row) and the new column sits at `ix = 0`. -/
theorem extrude_left (W H : Nat) (new s : List α) (hs : s.length = H * W) (hn : new.length = H)
    (iy ix : Nat) (hy : iy < H) :
    (ix + 1 < W → (extrude .left W H new s)[iy * W + (ix + 1)]? = s[iy * W + ix]?) ∧
    (0 < W → (extrude .left W H new s)[iy * W + 0]? = new[iy]?) := by
  have hrl := shaped_row_length W H s hs
  have hl := shaped_length W H s
  simp only [extrude, Where.flipped, Where.horizontal, if_true, if_false, Bool.false_eq_true]
  constructor
  · intro hx
    rw [ravel_at2 W _ (hstackNew_row_length W (by omega) new _ hrl) iy (ix + 1) hx,
      at2_hstackNew_succ W new _ (by omega) hrl iy ix hx, at2_shaped W H s iy ix hy (by omega)]
  · intro hW
    rw [ravel_at2 W _ (hstackNew_row_length W hW new _ hrl) iy 0 hW,
      at2_hstackNew_zero new _ (by omega) iy]

/-- **`_extrude('bottom')`**: every retained sample moves one pixel to +y (`iy → iy+1`, same column); the
new row is row 0. -/
theorem extrude_bottom (W H : Nat) (new s : List α) (hs : s.length = H * W) (hn : new.length = W)
    (iy ix : Nat) (hx : ix < W) :
    (iy + 1 < H → (extrude .bottom W H new s)[(iy + 1) * W + ix]? = s[iy * W + ix]?) ∧
    (0 < H → (extrude .bottom W H new s)[0 * W + ix]? = new[ix]?) := by
  have hrl := shaped_row_length W H s hs
  have hl := shaped_length W H s
  simp only [extrude, Where.flipped, Where.horizontal, if_true, if_false, Bool.false_eq_true]
  constructor
  · intro hy
    rw [ravel_at2 W _ (vstackNew_row_length W new hn _ hrl) (iy + 1) ix hx,
      at2_vstackNew_succ new _ iy ix (by omega), at2_shaped W H s iy ix (by omega) hx]
  · intro hH
    rw [ravel_at2 W _ (vstackNew_row_length W new hn _ hrl) 0 ix hx, at2_vstackNew_zero]

/-- **`_extrude('right')`** (flip, extrude left, flip back): every retained sample moves one pixel to −x. -/
theorem extrude_right (W H : Nat) (new s : List α) (hs : s.length = H * W) (hn : new.length = H)
    (iy ix : Nat) (hy : iy < H) (hx : ix + 1 < W) :
    (extrude .right W H new s)[iy * W + ix]? = s[iy * W + (ix + 1)]? := by
  have hsr : s.reverse.length = H * W := by simpa using hs
  have hrl := shaped_row_length W H s.reverse hsr
  have hl := shaped_length W H s.reverse
  have hl' := hstackNew_length new (shaped W H s.reverse) (by omega)
  have hrl' := hstackNew_row_length W (by omega) new _ hrl
  simp only [extrude, Where.flipped, Where.horizontal, if_true]
  rw [ravel_at2 W _ (flip2_row_length W _ hrl') iy ix (by omega),
    at2_flip2 W _ hrl' iy ix (by omega) (by omega), hl', hl]
  obtain ⟨m, rfl⟩ : ∃ m, W = ix + 2 + m := ⟨W - ix - 2, by omega⟩
  obtain ⟨p, rfl⟩ : ∃ p, H = iy + 1 + p := ⟨H - iy - 1, by omega⟩
  have e : (iy + 1 + p) * (ix + 2 + m) = iy * (ix+2+m) + (ix + 2 + m) + p * (ix + 2 + m) := by ring
  rw [show ix + 2 + m - 1 - ix = m + 1 by omega, show iy + 1 + p - 1 - iy = p by omega,
    at2_hstackNew_succ (ix + 2 + m) new _ (by omega) hrl p m (by omega),
    at2_shaped _ _ _ p m (by omega) (by omega), List.getElem?_reverse (by rw [hs]; omega)]
  congr 1
  rw [hs]
  omega

/-- **`_extrude('top')`**: every retained sample moves one pixel to −y. -/
theorem extrude_top (W H : Nat) (new s : List α) (hs : s.length = H * W) (hn : new.length = W)
    (iy ix : Nat) (hy : iy + 1 < H) (hx : ix < W) :
    (extrude .top W H new s)[iy * W + ix]? = s[(iy + 1) * W + ix]? := by
  have hsr : s.reverse.length = H * W := by simpa using hs
  have hrl := shaped_row_length W H s.reverse hsr
  have hl := shaped_length W H s.reverse
  have hl' := vstackNew_length new (shaped W H s.reverse) (by omega)
  have hrl' := vstackNew_row_length W new hn _ hrl
  simp only [extrude, Where.flipped, Where.horizontal, if_true, if_false, Bool.false_eq_true]
  rw [ravel_at2 W _ (flip2_row_length W _ hrl') iy ix (by omega),
    at2_flip2 W _ hrl' iy ix (by omega) (by omega), hl', hl]
  obtain ⟨m, rfl⟩ : ∃ m, W = ix + 1 + m := ⟨W - ix - 1, by omega⟩
  obtain ⟨p, rfl⟩ : ∃ p, H = iy + 2 + p := ⟨H - iy - 2, by omega⟩
  have e : (iy + 2 + p) * (ix + 1 + m) = iy * (ix+1+m) + (ix + 1 + m) + (ix + 1 + m) + p * (ix + 1 + m) := by ring
  have e2 : (iy + 1) * (ix + 1 + m) = iy * (ix+1+m) + (ix + 1 + m) := by ring
  rw [show ix + 1 + m - 1 - ix = m by omega, show iy + 2 + p - 1 - iy = p + 1 by omega,
    at2_vstackNew_succ new _ p m (by omega),
    at2_shaped _ _ _ p m (by omega) (by omega), List.getElem?_reverse (by rw [hs]; omega)]
  congr 1
  rw [hs]
  omega


end HcipyVerif.C15
