import HcipyVerif.Lemmas.FftPipeline
import HcipyVerif.Lemmas.FourierC02

/-!
# C02 — Fourier forward/backward are inverse, adjoint and energy-consistent

All statements are about `fastForward` / `fastBackward` (`Model/FftIndex.lean`: the
FastFourierTransform pipeline on one axis, both `emulate_fftshifts` settings) and about the
defining sums every other implementation evaluates (C01).  They are obtained from the C01 theorem
"pipeline = defining sum" and the sum-level results of `Lemmas/FourierC02.lean` (root-of-unity
orthogonality by a geometric sum).  `expT t = exp(2πi·t)`, `expE r = exp(i·r)`.

Hypotheses: `N ≤ M`, `Mo ≤ M`; grid consistency `dT·M·δ = 1` (`Δ·M·δ = 2π`); the weights
`w` (input, real) and `wo = Δ/(2π)` (output, real) with `wo·M·w = 1`, which for hcipy's regular
grids is the same equation as the consistency.  "Full grid" means `Mo = M` (fov = 1).
-/
set_option linter.unusedSimpArgs false
set_option linter.unusedVariables false
set_option linter.unusedSectionVars false

namespace HcipyVerif.C02
open HcipyVerif.Fft Finset
open scoped ComplexConjugate

/-- **Adjointness for arbitrary point sets** (any grids, any dimension: points enter only through
the kernel `ph k j = exp(-i u_k·x_j)`), real weights on both sides:
`<y, F x>_{wout} = <B y, x>_{win}` where `B` uses the conjugate kernel. -/
theorem adjoint_sum' (n m : ℕ) (ph : ℕ → ℕ → ℂ) (win wout : ℕ → ℂ)
    (hwin : ∀ j, conj (win j) = win j) (hwout : ∀ k, conj (wout k) = wout k) (x y : ℕ → ℂ) :
    ∑ k ∈ range m, conj (y k) * (∑ j ∈ range n, x j * win j * ph k j) * wout k
      = ∑ j ∈ range n, conj (∑ k ∈ range m, y k * wout k * conj (ph k j)) * x j * win j :=
  adjoint_sum n m ph win wout hwin hwout x y

/-- `sumBackward` only reads its argument on the output grid -/
theorem sumBackward_congr {K : Type} [Field K] {T E : K → ℂ} (g : Cfg K ℂ) (wOut : ℂ)
    (F G : ℕ → ℂ) (h : ∀ k < g.Mo, F k = G k) (j : ℕ) :
    sumBackward T E g wOut F j = sumBackward T E g wOut G j := by
  simp only [sumBackward, sumRange_eq]
  apply Finset.sum_congr rfl
  intro k hk
  rw [h k (mem_range.mp hk)]

/-- **FastFourierTransform: backward is the adjoint of forward** in the weighted inner products
of the two grids, for every `N ≤ M`, `Mo ≤ M` (cropped or not), both shift settings. -/
theorem fast_adjoint (g : Cfg ℝ ℂ) (wr wo : ℝ) (hN : g.N ≤ g.M) (hMo : g.Mo ≤ g.M)
    (hcons : g.dT * (g.M : ℝ) * g.δ = 1) (hgw : g.w = (wr : ℂ))
    (hw : (wo : ℂ) * (g.M : ℂ) * g.w = 1) (x y : ℕ → ℂ) :
    ∑ k ∈ range g.Mo, conj (y k) * fastForward expT expE g x k * (wo : ℂ)
      = ∑ j ∈ range g.N, conj (fastBackward expT expE g y j) * x j * g.w := by
  have hf : ∀ k ∈ range g.Mo, conj (y k) * fastForward expT expE g x k * (wo : ℂ)
      = conj (y k) * sumForward expT expE g x k * (wo : ℂ) := by
    intro k hk
    rw [fastForward_eq_sumForward expT_isChar expE_isChar expT_period g hN hMo hcons x k (mem_range.mp hk)]
  have hb : ∀ j ∈ range g.N, conj (fastBackward expT expE g y j) * x j * g.w
      = conj (sumBackward expT expE g (wo : ℂ) y j) * x j * g.w := by
    intro j hj
    rw [fastBackward_eq_sumBackward expT_isChar expE_isChar expT_period g hN hMo hcons (wo : ℂ) hw y j (mem_range.mp hj)]
  rw [Finset.sum_congr rfl hf, Finset.sum_congr rfl hb]
  exact adjoint_sumForward_sumBackward_exp g (wo : ℂ) (by rw [hgw, Complex.conj_ofReal])
    (Complex.conj_ofReal wo) x y

/-- **Full FFT grid pair: backward(forward(f)) = f.** -/
theorem full_grid_inverse (g : Cfg ℝ ℂ) (wOut : ℂ) (hMo : g.Mo = g.M) (hN : g.N ≤ g.M)
    (hcons : g.dT * (g.M : ℝ) * g.δ = 1) (hw : wOut * (g.M : ℂ) * g.w = 1)
    (f : ℕ → ℂ) (j : ℕ) (hj : j < g.N) :
    fastBackward expT expE g (fastForward expT expE g f) j = f j := by
  have hMo' : g.Mo ≤ g.M := le_of_eq hMo
  rw [fastBackward_eq_sumBackward expT_isChar expE_isChar expT_period g hN hMo' hcons wOut hw _ j hj]
  rw [sumBackward_congr g wOut _ (sumForward expT expE g f)
    (fun k hk => fastForward_eq_sumForward expT_isChar expE_isChar expT_period g hN hMo' hcons f k hk)]
  exact full_grid_inverse_sum_exp g wOut hMo hN hcons hw f j hj

/-- **Full FFT grid pair: Parseval**, `Σ_k |F_k|²·Δ/(2π) = Σ_j |f_j|²·δ`. -/
theorem parseval_full (g : Cfg ℝ ℂ) (wr wo : ℝ) (hMo : g.Mo = g.M) (hN : g.N ≤ g.M)
    (hcons : g.dT * (g.M : ℝ) * g.δ = 1) (hgw : g.w = (wr : ℂ))
    (hw : (wo : ℂ) * (g.M : ℂ) * g.w = 1) (f : ℕ → ℂ) :
    ∑ k ∈ range g.M, Complex.normSq (fastForward expT expE g f k) * wo
      = ∑ j ∈ range g.N, Complex.normSq (f j) * wr := by
  have hMo' : g.Mo ≤ g.M := le_of_eq hMo
  rw [← parseval_full_sum_exp g wr wo hMo hN hcons hgw hw f]
  apply Finset.sum_congr rfl
  intro k hk
  rw [fastForward_eq_sumForward expT_isChar expE_isChar expT_period g hN hMo' hcons f k
    (by rw [hMo]; exact mem_range.mp hk)]

/-- **Cropped FFT grid: the output energy never exceeds the input energy.** -/
theorem cropped_energy_le (g : Cfg ℝ ℂ) (wr wo : ℝ) (hMo : g.Mo ≤ g.M) (hN : g.N ≤ g.M)
    (hcons : g.dT * (g.M : ℝ) * g.δ = 1) (hgw : g.w = (wr : ℂ))
    (hw : (wo : ℂ) * (g.M : ℂ) * g.w = 1) (hwo : 0 ≤ wo) (f : ℕ → ℂ) :
    ∑ k ∈ range g.Mo, Complex.normSq (fastForward expT expE g f k) * wo
      ≤ ∑ j ∈ range g.N, Complex.normSq (f j) * wr := by
  have h := cropped_energy_le_sum_exp g wr wo hMo hN hcons hgw hw hwo f
  have e : ∑ k ∈ range g.Mo, Complex.normSq (fastForward expT expE g f k) * wo
      = ∑ k ∈ range g.Mo, Complex.normSq (sumForward expT expE g f k) * wo := by
    apply Finset.sum_congr rfl
    intro k hk
    rw [fastForward_eq_sumForward expT_isChar expE_isChar expT_period g hN hMo hcons f k (mem_range.mp hk)]
  rw [e]; exact h

/-- The same three facts for the defining sums themselves, i.e. for *every* implementation that
evaluates them on an FFT grid pair (MFT, NFT, Zoom — C01), abstract characters. -/
theorem sums_full_grid_inverse {K : Type} [Field K] {T E : K → ℂ} (g : Cfg K ℂ) (wOut : ℂ)
    (hT : IsChar T) (hE : IsChar E) (hper : ∀ n : ℤ, T (n : K) = 1)
    (hprim : ∀ d : ℤ, T ((d : K) / (g.M : K)) = 1 → (g.M : ℤ) ∣ d)
    (hMo : g.Mo = g.M) (hN : g.N ≤ g.M) (hcons : g.dT * (g.M : K) * g.δ = 1)
    (hw : wOut * (g.M : ℂ) * g.w = 1) (f : ℕ → ℂ) (j : ℕ) (hj : j < g.N) :
    sumBackward T E g wOut (sumForward T E g f) j = f j :=
  full_grid_inverse_sum g wOut hT hE hper hprim hMo hN hcons hw f j hj

theorem sums_parseval_full {K : Type} [Field K] {T E : K → ℂ} (g : Cfg K ℂ) (wr wo : ℝ)
    (hT : IsChar T) (hE : IsChar E) (hper : ∀ n : ℤ, T (n : K) = 1)
    (hprim : ∀ d : ℤ, T ((d : K) / (g.M : K)) = 1 → (g.M : ℤ) ∣ d)
    (hMo : g.Mo = g.M) (hN : g.N ≤ g.M) (hcons : g.dT * (g.M : K) * g.δ = 1)
    (hgw : g.w = (wr : ℂ)) (hw : (wo : ℂ) * (g.M : ℂ) * g.w = 1)
    (hTc : ∀ a, conj (T a) = T (-a)) (hEc : ∀ a, conj (E a) = E (-a)) (f : ℕ → ℂ) :
    ∑ k ∈ range g.M, Complex.normSq (sumForward T E g f k) * wo
      = ∑ j ∈ range g.N, Complex.normSq (f j) * wr :=
  parseval_full_sum g wr wo hT hE hper hprim hMo hN hcons hgw hw hTc hEc f

theorem sums_cropped_energy_le {K : Type} [Field K] {T E : K → ℂ} (g : Cfg K ℂ) (wr wo : ℝ)
    (hT : IsChar T) (hE : IsChar E) (hper : ∀ n : ℤ, T (n : K) = 1)
    (hprim : ∀ d : ℤ, T ((d : K) / (g.M : K)) = 1 → (g.M : ℤ) ∣ d)
    (hMo : g.Mo ≤ g.M) (hN : g.N ≤ g.M) (hcons : g.dT * (g.M : K) * g.δ = 1)
    (hgw : g.w = (wr : ℂ)) (hw : (wo : ℂ) * (g.M : ℂ) * g.w = 1) (hwo : 0 ≤ wo)
    (hTc : ∀ a, conj (T a) = T (-a)) (hEc : ∀ a, conj (E a) = E (-a)) (f : ℕ → ℂ) :
    ∑ k ∈ range g.Mo, Complex.normSq (sumForward T E g f k) * wo
      ≤ ∑ j ∈ range g.N, Complex.normSq (f j) * wr :=
  cropped_energy_le_sum g wr wo hT hE hper hprim hMo hN hcons hgw hw hwo hTc hEc f

/-- Non-vacuity: a consistent full pair with matching weights exists
(N = 2, M = Mo = 4, δ = w = 1/2, dT = wo = 1/2). -/
example : ∃ (g : Cfg ℝ ℂ) (wr wo : ℝ), g.Mo = g.M ∧ g.N ≤ g.M ∧ g.dT * (g.M : ℝ) * g.δ = 1 ∧
    g.w = (wr : ℂ) ∧ (wo : ℂ) * (g.M : ℂ) * g.w = 1 ∧ 0 ≤ wo :=
  ⟨{ N := 2, M := 4, Mo := 4, δ := 1 / 2, z := 0, dT := 1 / 2, s := 0, w := ((1 / 2 : ℝ) : ℂ), emu := true },
    1 / 2, 1 / 2, rfl, by norm_num, by norm_num, rfl, by push_cast; norm_num, by norm_num⟩

end HcipyVerif.C02
