import HcipyVerif.Lemmas.FftPipeline
import HcipyVerif.Lemmas.FourierC02
import HcipyVerif.Lemmas.FourierC02R4
import HcipyVerif.Lemmas.ZoomN
import HcipyVerif.Lemmas.Nft

/-!
# C02 — Fourier forward/backward are inverse, adjoint and energy-consistent

All statements are about `fastForward` / `fastBackward` (`Model/FftIndex.lean`: the
FastFourierTransform pipeline on one axis, both `emulate_fftshifts` settings) and about the
defining sums every other implementation evaluates (C01).  They are obtained from the C01 theorem
"pipeline = defining sum" and the sum-level results of `Lemmas/FourierC02.lean` (root-of-unity
orthogonality by a geometric sum).  `expT t = exp(2πi·t)`, `expE r = exp(i·r)`.

Hypotheses: `N ≤ M`, `Mo ≤ M`; grid consistency `dT·M·δ = 1` (`Δ·M·δ = 2π`); the weights
`w` (input, real) and `wo = Δ/(2π)` (output, real) with `wo·M·w = 1`, which for hcipy's regular
grids is the same equation as the consistency.  "Full grid" means `Mo = M` (fov = 1).
-/
set_option linter.unusedSimpArgs false
set_option linter.unusedVariables false
set_option linter.unusedSectionVars false

namespace HcipyVerif.C02
open HcipyVerif.Fft Finset
open scoped ComplexConjugate

/-- `sumBackward` only reads its argument on the output grid -/
theorem sumBackward_congr {K : Type} [Field K] {T E : K → ℂ} (g : Cfg K ℂ) (wOut : ℂ)
    (F G : ℕ → ℂ) (h : ∀ k < g.Mo, F k = G k) (j : ℕ) :
    sumBackward T E g wOut F j = sumBackward T E g wOut G j := by
  simp only [sumBackward, sumRange_eq]
  apply Finset.sum_congr rfl
  intro k hk
  rw [h k (mem_range.mp hk)]

/-- **FastFourierTransform: backward is the adjoint of forward** in the weighted inner products
of the two grids, for every `N ≤ M`, `Mo ≤ M` (cropped or not), both shift settings. -/
theorem fast_adjoint (g : Cfg ℝ ℂ) (wr wo : ℝ) (hN : g.N ≤ g.M) (hMo : g.Mo ≤ g.M)
    (hcons : g.dT * (g.M : ℝ) * g.δ = 1) (hgw : g.w = (wr : ℂ))
    (hw : (wo : ℂ) * (g.M : ℂ) * g.w = 1) (x y : ℕ → ℂ) :
    ∑ k ∈ range g.Mo, conj (y k) * fastForward expT expE g x k * (wo : ℂ)
      = ∑ j ∈ range g.N, conj (fastBackward expT expE g y j) * x j * g.w := by
  have hf : ∀ k ∈ range g.Mo, conj (y k) * fastForward expT expE g x k * (wo : ℂ)
      = conj (y k) * sumForward expT expE g x k * (wo : ℂ) := by
    intro k hk
    rw [fastForward_eq_sumForward expT_isChar expE_isChar expT_period g hN hMo hcons x k (mem_range.mp hk)]
  have hb : ∀ j ∈ range g.N, conj (fastBackward expT expE g y j) * x j * g.w
      = conj (sumBackward expT expE g (wo : ℂ) y j) * x j * g.w := by
    intro j hj
    rw [fastBackward_eq_sumBackward expT_isChar expE_isChar expT_period g hN hMo hcons (wo : ℂ) hw y j (mem_range.mp hj)]
  rw [Finset.sum_congr rfl hf, Finset.sum_congr rfl hb]
  exact adjoint_sumForward_sumBackward_exp g (wo : ℂ) (by rw [hgw, Complex.conj_ofReal])
    (Complex.conj_ofReal wo) x y

/-- **Full FFT grid pair: backward(forward(f)) = f.** -/
theorem full_grid_inverse (g : Cfg ℝ ℂ) (wOut : ℂ) (hMo : g.Mo = g.M) (hN : g.N ≤ g.M)
    (hcons : g.dT * (g.M : ℝ) * g.δ = 1) (hw : wOut * (g.M : ℂ) * g.w = 1)
    (f : ℕ → ℂ) (j : ℕ) (hj : j < g.N) :
    fastBackward expT expE g (fastForward expT expE g f) j = f j := by
  have hMo' : g.Mo ≤ g.M := le_of_eq hMo
  rw [fastBackward_eq_sumBackward expT_isChar expE_isChar expT_period g hN hMo' hcons wOut hw _ j hj]
  rw [sumBackward_congr g wOut _ (sumForward expT expE g f)
    (fun k hk => fastForward_eq_sumForward expT_isChar expE_isChar expT_period g hN hMo' hcons f k hk)]
  exact full_grid_inverse_sum_exp g wOut hMo hN hcons hw f j hj

/-- **Full FFT grid pair: Parseval**, `Σ_k |F_k|²·Δ/(2π) = Σ_j |f_j|²·δ`. -/
theorem parseval_full (g : Cfg ℝ ℂ) (wr wo : ℝ) (hMo : g.Mo = g.M) (hN : g.N ≤ g.M)
    (hcons : g.dT * (g.M : ℝ) * g.δ = 1) (hgw : g.w = (wr : ℂ))
    (hw : (wo : ℂ) * (g.M : ℂ) * g.w = 1) (f : ℕ → ℂ) :
    ∑ k ∈ range g.M, Complex.normSq (fastForward expT expE g f k) * wo
      = ∑ j ∈ range g.N, Complex.normSq (f j) * wr := by
  have hMo' : g.Mo ≤ g.M := le_of_eq hMo
  rw [← parseval_full_sum_exp g wr wo hMo hN hcons hgw hw f]
  apply Finset.sum_congr rfl
  intro k hk
  rw [fastForward_eq_sumForward expT_isChar expE_isChar expT_period g hN hMo' hcons f k
    (by rw [hMo]; exact mem_range.mp hk)]

/-- **Cropped FFT grid: the output energy never exceeds the input energy.** -/
theorem cropped_energy_le (g : Cfg ℝ ℂ) (wr wo : ℝ) (hMo : g.Mo ≤ g.M) (hN : g.N ≤ g.M)
    (hcons : g.dT * (g.M : ℝ) * g.δ = 1) (hgw : g.w = (wr : ℂ))
    (hw : (wo : ℂ) * (g.M : ℂ) * g.w = 1) (hwo : 0 ≤ wo) (f : ℕ → ℂ) :
    ∑ k ∈ range g.Mo, Complex.normSq (fastForward expT expE g f k) * wo
      ≤ ∑ j ∈ range g.N, Complex.normSq (f j) * wr := by
  have h := cropped_energy_le_sum_exp g wr wo hMo hN hcons hgw hw hwo f
  have e : ∑ k ∈ range g.Mo, Complex.normSq (fastForward expT expE g f k) * wo
      = ∑ k ∈ range g.Mo, Complex.normSq (sumForward expT expE g f k) * wo := by
    apply Finset.sum_congr rfl
    intro k hk
    rw [fastForward_eq_sumForward expT_isChar expE_isChar expT_period g hN hMo hcons f k (mem_range.mp hk)]
  rw [e]; exact h

/-- The same three facts for the defining sums themselves, i.e. for *every* implementation that
evaluates them on an FFT grid pair (MFT, NFT, Zoom — C01), abstract characters. -/
theorem sums_full_grid_inverse {K : Type} [Field K] {T E : K → ℂ} (g : Cfg K ℂ) (wOut : ℂ)
    (hT : IsChar T) (hE : IsChar E) (hper : ∀ n : ℤ, T (n : K) = 1)
    (hprim : ∀ d : ℤ, T ((d : K) / (g.M : K)) = 1 → (g.M : ℤ) ∣ d)
    (hMo : g.Mo = g.M) (hN : g.N ≤ g.M) (hcons : g.dT * (g.M : K) * g.δ = 1)
    (hw : wOut * (g.M : ℂ) * g.w = 1) (f : ℕ → ℂ) (j : ℕ) (hj : j < g.N) :
    sumBackward T E g wOut (sumForward T E g f) j = f j :=
  full_grid_inverse_sum g wOut hT hE hper hprim hMo hN hcons hw f j hj

theorem sums_parseval_full {K : Type} [Field K] {T E : K → ℂ} (g : Cfg K ℂ) (wr wo : ℝ)
    (hT : IsChar T) (hE : IsChar E) (hper : ∀ n : ℤ, T (n : K) = 1)
    (hprim : ∀ d : ℤ, T ((d : K) / (g.M : K)) = 1 → (g.M : ℤ) ∣ d)
    (hMo : g.Mo = g.M) (hN : g.N ≤ g.M) (hcons : g.dT * (g.M : K) * g.δ = 1)
    (hgw : g.w = (wr : ℂ)) (hw : (wo : ℂ) * (g.M : ℂ) * g.w = 1)
    (hTc : ∀ a, conj (T a) = T (-a)) (hEc : ∀ a, conj (E a) = E (-a)) (f : ℕ → ℂ) :
    ∑ k ∈ range g.M, Complex.normSq (sumForward T E g f k) * wo
      = ∑ j ∈ range g.N, Complex.normSq (f j) * wr :=
  parseval_full_sum g wr wo hT hE hper hprim hMo hN hcons hgw hw hTc hEc f

theorem sums_cropped_energy_le {K : Type} [Field K] {T E : K → ℂ} (g : Cfg K ℂ) (wr wo : ℝ)
    (hT : IsChar T) (hE : IsChar E) (hper : ∀ n : ℤ, T (n : K) = 1)
    (hprim : ∀ d : ℤ, T ((d : K) / (g.M : K)) = 1 → (g.M : ℤ) ∣ d)
    (hMo : g.Mo ≤ g.M) (hN : g.N ≤ g.M) (hcons : g.dT * (g.M : K) * g.δ = 1)
    (hgw : g.w = (wr : ℂ)) (hw : (wo : ℂ) * (g.M : ℂ) * g.w = 1) (hwo : 0 ≤ wo)
    (hTc : ∀ a, conj (T a) = T (-a)) (hEc : ∀ a, conj (E a) = E (-a)) (f : ℕ → ℂ) :
    ∑ k ∈ range g.Mo, Complex.normSq (sumForward T E g f k) * wo
      ≤ ∑ j ∈ range g.N, Complex.normSq (f j) * wr :=
  cropped_energy_le_sum g wr wo hT hE hper hprim hMo hN hcons hgw hw hwo hTc hEc f

/-- Non-vacuity: a consistent full pair with matching weights exists
(N = 2, M = Mo = 4, δ = w = 1/2, dT = wo = 1/2). -/
example : ∃ (g : Cfg ℝ ℂ) (wr wo : ℝ), g.Mo = g.M ∧ g.N ≤ g.M ∧ g.dT * (g.M : ℝ) * g.δ = 1 ∧
    g.w = (wr : ℂ) ∧ (wo : ℂ) * (g.M : ℂ) * g.w = 1 ∧ 0 ≤ wo :=
  ⟨{ N := 2, M := 4, Mo := 4, δ := 1 / 2, z := 0, dT := 1 / 2, s := 0, w := ((1 / 2 : ℝ) : ℂ), emu := true },
    1 / 2, 1 / 2, rfl, by norm_num, by norm_num, rfl, by push_cast; norm_num, by norm_num⟩

/-! ## Two axes: the literal 2-D pipelines `fastForward2` / `fastBackward2`

Obtained from the 1-D theorems above by separability (`fastForward2_eq_iter`,
`fastBackward2_eq_iter`) and the fact that 1-D pipelines on different axes commute
(`FinLin.comm`, Lemmas/FourierC02R4.lean). -/

/-- the literal 2-D forward pipeline as 1-D pipelines, as a function of `kx` -/
theorem fastForward2_iter (gy gx : Cfg ℝ ℂ) (hemu : gy.emu = gx.emu) (f : ℕ → ℕ → ℂ) (ky kx : ℕ) :
    fastForward2 expT expE gy gx f ky kx
      = fastForward expT expE gy (fun iy => fastForward expT expE gx (f iy) kx) ky :=
  fastForward2_eq_iter expT_isChar expE_isChar gy gx hemu f ky kx

/-- the literal 2-D backward pipeline as 1-D pipelines -/
theorem fastBackward2_iter (gy gx : Cfg ℝ ℂ) (hemu : gy.emu = gx.emu) (F : ℕ → ℕ → ℂ) (jy jx : ℕ) :
    fastBackward2 expT expE gy gx F jy jx
      = fastBackward expT expE gy (fun ky => fastBackward expT expE gx (F ky) jx) jy :=
  fastBackward2_eq_iter expT_isChar expE_isChar gy gx hemu F jy jx

/-- 1-D pipelines on different axes commute: backward along `x`, forward along `y` -/
theorem fastBackward_fastForward_comm (gx gy : Cfg ℝ ℂ) (X : ℕ → ℕ → ℂ) (jx ky : ℕ) :
    fastBackward expT expE gx (fun kx => fastForward expT expE gy (fun iy => X kx iy) ky) jx
      = fastForward expT expE gy (fun iy => fastBackward expT expE gx (fun kx => X kx iy) jx) ky :=
  FinLin.comm (fastBackward_finLin gx jx) (fastForward_finLin gy ky) X

/-- 1-D backward pipelines on different axes commute -/
theorem fastBackward_fastBackward_comm (gx gy : Cfg ℝ ℂ) (X : ℕ → ℕ → ℂ) (jx jy : ℕ) :
    fastBackward expT expE gx (fun kx => fastBackward expT expE gy (fun ky => X kx ky) jy) jx
      = fastBackward expT expE gy (fun ky => fastBackward expT expE gx (fun kx => X kx ky) jx) jy :=
  FinLin.comm (fastBackward_finLin gx jx) (fastBackward_finLin gy jy) X

/-- **2-D FastFourierTransform: backward is the adjoint of forward** in the weighted inner
products of the two 2-D grids (weights `woy·wox` and `gy.w·gx.w`), cropped or not, both shift
settings. -/
theorem fast_adjoint_2d (gy gx : Cfg ℝ ℂ) (wry woy wrx wox : ℝ) (hemu : gy.emu = gx.emu)
    (hNy : gy.N ≤ gy.M) (hMoy : gy.Mo ≤ gy.M) (hcy : gy.dT * (gy.M : ℝ) * gy.δ = 1)
    (hgwy : gy.w = (wry : ℂ)) (hwy : (woy : ℂ) * (gy.M : ℂ) * gy.w = 1)
    (hNx : gx.N ≤ gx.M) (hMox : gx.Mo ≤ gx.M) (hcx : gx.dT * (gx.M : ℝ) * gx.δ = 1)
    (hgwx : gx.w = (wrx : ℂ)) (hwx : (wox : ℂ) * (gx.M : ℂ) * gx.w = 1) (x y : ℕ → ℕ → ℂ) :
    ∑ ky ∈ range gy.Mo, ∑ kx ∈ range gx.Mo,
        conj (y ky kx) * fastForward2 expT expE gy gx x ky kx * ((woy : ℂ) * (wox : ℂ))
      = ∑ jy ∈ range gy.N, ∑ jx ∈ range gx.N,
        conj (fastBackward2 expT expE gy gx y jy jx) * x jy jx * (gy.w * gx.w) := by
  calc ∑ ky ∈ range gy.Mo, ∑ kx ∈ range gx.Mo,
        conj (y ky kx) * fastForward2 expT expE gy gx x ky kx * ((woy : ℂ) * (wox : ℂ))
      = ∑ kx ∈ range gx.Mo, (∑ ky ∈ range gy.Mo, conj (y ky kx) *
          fastForward expT expE gy (fun iy => fastForward expT expE gx (x iy) kx) ky * (woy : ℂ))
            * (wox : ℂ) := by
        rw [Finset.sum_comm]
        refine Finset.sum_congr rfl fun kx _ => ?_
        rw [Finset.sum_mul]
        refine Finset.sum_congr rfl fun ky _ => ?_
        rw [fastForward2_iter gy gx hemu]; ring
    _ = ∑ kx ∈ range gx.Mo, (∑ jy ∈ range gy.N,
          conj (fastBackward expT expE gy (fun ky => y ky kx) jy) *
            fastForward expT expE gx (x jy) kx * gy.w) * (wox : ℂ) := by
        refine Finset.sum_congr rfl fun kx _ => ?_
        rw [fast_adjoint gy wry woy hNy hMoy hcy hgwy hwy
          (fun iy => fastForward expT expE gx (x iy) kx) (fun ky => y ky kx)]
    _ = ∑ jy ∈ range gy.N, (∑ kx ∈ range gx.Mo,
          conj (fastBackward expT expE gy (fun ky => y ky kx) jy) *
            fastForward expT expE gx (x jy) kx * (wox : ℂ)) * gy.w := by
        simp only [Finset.sum_mul]
        rw [Finset.sum_comm]
        exact Finset.sum_congr rfl fun _ _ => Finset.sum_congr rfl fun _ _ => by ring
    _ = ∑ jy ∈ range gy.N, (∑ jx ∈ range gx.N,
          conj (fastBackward expT expE gx
            (fun kx => fastBackward expT expE gy (fun ky => y ky kx) jy) jx) *
            x jy jx * gx.w) * gy.w := by
        refine Finset.sum_congr rfl fun jy _ => ?_
        rw [fast_adjoint gx wrx wox hNx hMox hcx hgwx hwx (x jy)
          (fun kx => fastBackward expT expE gy (fun ky => y ky kx) jy)]
    _ = _ := by
        refine Finset.sum_congr rfl fun jy _ => ?_
        rw [Finset.sum_mul]
        refine Finset.sum_congr rfl fun jx _ => ?_
        rw [fastBackward2_iter gy gx hemu, fastBackward_fastBackward_comm gx gy (fun kx ky => y ky kx)]
        ring

/-- **Full 2-D FFT grid pair: backward(forward(f)) = f** on every input sample. -/
theorem full_grid_inverse_2d (gy gx : Cfg ℝ ℂ) (woy wox : ℂ) (hemu : gy.emu = gx.emu)
    (hMoy : gy.Mo = gy.M) (hNy : gy.N ≤ gy.M) (hcy : gy.dT * (gy.M : ℝ) * gy.δ = 1)
    (hwy : woy * (gy.M : ℂ) * gy.w = 1)
    (hMox : gx.Mo = gx.M) (hNx : gx.N ≤ gx.M) (hcx : gx.dT * (gx.M : ℝ) * gx.δ = 1)
    (hwx : wox * (gx.M : ℂ) * gx.w = 1)
    (f : ℕ → ℕ → ℂ) (jy jx : ℕ) (hjy : jy < gy.N) (hjx : jx < gx.N) :
    fastBackward2 expT expE gy gx (fastForward2 expT expE gy gx f) jy jx = f jy jx := by
  rw [fastBackward2_iter gy gx hemu]
  have e : (fun ky => fastBackward expT expE gx (fastForward2 expT expE gy gx f ky) jx)
      = fun ky => fastForward expT expE gy (fun iy => f iy jx) ky := by
    funext ky
    have e1 : fastForward2 expT expE gy gx f ky
        = fun kx => fastForward expT expE gy (fun iy => fastForward expT expE gx (f iy) kx) ky :=
      funext fun kx => fastForward2_iter gy gx hemu f ky kx
    rw [e1, fastBackward_fastForward_comm gx gy (fun kx iy => fastForward expT expE gx (f iy) kx)]
    congr 1
    funext iy
    exact full_grid_inverse gx wox hMox hNx hcx hwx (f iy) jx hjx
  rw [e]
  exact full_grid_inverse gy woy hMoy hNy hcy hwy (fun iy => f iy jx) jy hjy

/-- **Cropped 2-D FFT grid: the output energy never exceeds the input energy** (the 1-D
inequality along `y` for every output column, then along `x` for every input row). -/
theorem cropped_energy_le_2d (gy gx : Cfg ℝ ℂ) (wry woy wrx wox : ℝ) (hemu : gy.emu = gx.emu)
    (hMoy : gy.Mo ≤ gy.M) (hNy : gy.N ≤ gy.M) (hcy : gy.dT * (gy.M : ℝ) * gy.δ = 1)
    (hgwy : gy.w = (wry : ℂ)) (hwy : (woy : ℂ) * (gy.M : ℂ) * gy.w = 1) (hwoy : 0 ≤ woy)
    (hMox : gx.Mo ≤ gx.M) (hNx : gx.N ≤ gx.M) (hcx : gx.dT * (gx.M : ℝ) * gx.δ = 1)
    (hgwx : gx.w = (wrx : ℂ)) (hwx : (wox : ℂ) * (gx.M : ℂ) * gx.w = 1) (hwox : 0 ≤ wox)
    (f : ℕ → ℕ → ℂ) :
    ∑ ky ∈ range gy.Mo, ∑ kx ∈ range gx.Mo,
        Complex.normSq (fastForward2 expT expE gy gx f ky kx) * (woy * wox)
      ≤ ∑ jy ∈ range gy.N, ∑ jx ∈ range gx.N, Complex.normSq (f jy jx) * (wry * wrx) := by
  have hwry : 0 ≤ wry := wr_nonneg gy wry woy hgwy hwy hwoy
  calc ∑ ky ∈ range gy.Mo, ∑ kx ∈ range gx.Mo,
        Complex.normSq (fastForward2 expT expE gy gx f ky kx) * (woy * wox)
      = ∑ kx ∈ range gx.Mo, (∑ ky ∈ range gy.Mo, Complex.normSq
          (fastForward expT expE gy (fun iy => fastForward expT expE gx (f iy) kx) ky) * woy)
            * wox := by
        rw [Finset.sum_comm]
        refine Finset.sum_congr rfl fun kx _ => ?_
        rw [Finset.sum_mul]
        refine Finset.sum_congr rfl fun ky _ => ?_
        rw [fastForward2_iter gy gx hemu]; ring
    _ ≤ ∑ kx ∈ range gx.Mo, (∑ jy ∈ range gy.N,
          Complex.normSq (fastForward expT expE gx (f jy) kx) * wry) * wox := by
        refine Finset.sum_le_sum fun kx _ => mul_le_mul_of_nonneg_right ?_ hwox
        exact cropped_energy_le gy wry woy hMoy hNy hcy hgwy hwy hwoy
          (fun iy => fastForward expT expE gx (f iy) kx)
    _ = ∑ jy ∈ range gy.N, (∑ kx ∈ range gx.Mo,
          Complex.normSq (fastForward expT expE gx (f jy) kx) * wox) * wry := by
        simp only [Finset.sum_mul]
        rw [Finset.sum_comm]
        exact Finset.sum_congr rfl fun _ _ => Finset.sum_congr rfl fun _ _ => by ring
    _ ≤ ∑ jy ∈ range gy.N, (∑ jx ∈ range gx.N, Complex.normSq (f jy jx) * wrx) * wry := by
        refine Finset.sum_le_sum fun jy _ => mul_le_mul_of_nonneg_right ?_ hwry
        exact cropped_energy_le gx wrx wox hMox hNx hcx hgwx hwx hwox (f jy)
    _ = _ := by
        simp only [Finset.sum_mul]
        exact Finset.sum_congr rfl fun _ _ => Finset.sum_congr rfl fun _ _ => by ring

/-- **Full 2-D FFT grid pair: Parseval**,
`Σ_{ky,kx} |F|²·(Δy/2π)(Δx/2π) = Σ_{jy,jx} |f|²·δy·δx`. -/
theorem parseval_full_2d (gy gx : Cfg ℝ ℂ) (wry woy wrx wox : ℝ) (hemu : gy.emu = gx.emu)
    (hMoy : gy.Mo = gy.M) (hNy : gy.N ≤ gy.M) (hcy : gy.dT * (gy.M : ℝ) * gy.δ = 1)
    (hgwy : gy.w = (wry : ℂ)) (hwy : (woy : ℂ) * (gy.M : ℂ) * gy.w = 1)
    (hMox : gx.Mo = gx.M) (hNx : gx.N ≤ gx.M) (hcx : gx.dT * (gx.M : ℝ) * gx.δ = 1)
    (hgwx : gx.w = (wrx : ℂ)) (hwx : (wox : ℂ) * (gx.M : ℂ) * gx.w = 1)
    (f : ℕ → ℕ → ℂ) :
    ∑ ky ∈ range gy.M, ∑ kx ∈ range gx.M,
        Complex.normSq (fastForward2 expT expE gy gx f ky kx) * (woy * wox)
      = ∑ jy ∈ range gy.N, ∑ jx ∈ range gx.N, Complex.normSq (f jy jx) * (wry * wrx) := by
  calc ∑ ky ∈ range gy.M, ∑ kx ∈ range gx.M,
        Complex.normSq (fastForward2 expT expE gy gx f ky kx) * (woy * wox)
      = ∑ kx ∈ range gx.M, (∑ ky ∈ range gy.M, Complex.normSq
          (fastForward expT expE gy (fun iy => fastForward expT expE gx (f iy) kx) ky) * woy)
            * wox := by
        rw [Finset.sum_comm]
        refine Finset.sum_congr rfl fun kx _ => ?_
        rw [Finset.sum_mul]
        refine Finset.sum_congr rfl fun ky _ => ?_
        rw [fastForward2_iter gy gx hemu]; ring
    _ = ∑ kx ∈ range gx.M, (∑ jy ∈ range gy.N,
          Complex.normSq (fastForward expT expE gx (f jy) kx) * wry) * wox := by
        refine Finset.sum_congr rfl fun kx _ => ?_
        rw [parseval_full gy wry woy hMoy hNy hcy hgwy hwy
          (fun iy => fastForward expT expE gx (f iy) kx)]
    _ = ∑ jy ∈ range gy.N, (∑ kx ∈ range gx.M,
          Complex.normSq (fastForward expT expE gx (f jy) kx) * wox) * wry := by
        simp only [Finset.sum_mul]
        rw [Finset.sum_comm]
        exact Finset.sum_congr rfl fun _ _ => Finset.sum_congr rfl fun _ _ => by ring
    _ = ∑ jy ∈ range gy.N, (∑ jx ∈ range gx.N, Complex.normSq (f jy jx) * wrx) * wry := by
        refine Finset.sum_congr rfl fun jy _ => ?_
        rw [parseval_full gx wrx wox hMox hNx hcx hgwx hwx (f jy)]
    _ = _ := by
        simp only [Finset.sum_mul]
        exact Finset.sum_congr rfl fun _ _ => Finset.sum_congr rfl fun _ _ => by ring

/-- Non-vacuity of the 2-D hypothesis bundle: two consistent full axes with matching real weights
and equal shift setting (the 1-D witness on both axes). -/
example : ∃ (gy gx : Cfg ℝ ℂ) (wry woy wrx wox : ℝ), gy.emu = gx.emu ∧
    gy.Mo = gy.M ∧ gy.N ≤ gy.M ∧ gy.dT * (gy.M : ℝ) * gy.δ = 1 ∧ gy.w = (wry : ℂ) ∧
    (woy : ℂ) * (gy.M : ℂ) * gy.w = 1 ∧ 0 ≤ woy ∧
    gx.Mo = gx.M ∧ gx.N ≤ gx.M ∧ gx.dT * (gx.M : ℝ) * gx.δ = 1 ∧ gx.w = (wrx : ℂ) ∧
    (wox : ℂ) * (gx.M : ℂ) * gx.w = 1 ∧ 0 ≤ wox :=
  ⟨{ N := 2, M := 4, Mo := 4, δ := 1 / 2, z := 0, dT := 1 / 2, s := 0, w := ((1 / 2 : ℝ) : ℂ), emu := true },
   { N := 2, M := 4, Mo := 4, δ := 1 / 2, z := 0, dT := 1 / 2, s := 0, w := ((1 / 2 : ℝ) : ℂ), emu := true },
    1 / 2, 1 / 2, 1 / 2, 1 / 2, rfl, rfl, by norm_num, by norm_num, rfl, by push_cast; norm_num,
    by norm_num, rfl, by norm_num, by norm_num, rfl, by push_cast; norm_num, by norm_num⟩

/-! ## `n` axes: the iterated pipelines `fastForwardN` / `fastBackwardN` -/

/-- hypothesis bundle for one axis of a **full** FFT grid pair: `Mo = M`, `N ≤ M`, consistency
`dT·M·δ = 1`, and an output weight `wOut g` with `wOut g·M·w = 1` -/
def FullAxis (wOut : Cfg ℝ ℂ → ℂ) (g : Cfg ℝ ℂ) : Prop :=
  g.Mo = g.M ∧ g.N ≤ g.M ∧ g.dT * (g.M : ℝ) * g.δ = 1 ∧ wOut g * (g.M : ℂ) * g.w = 1

/-- satisfiability of `FullAxis` (N = 2, M = Mo = 4, δ = w = 1/2, dT = wOut = 1/2) -/
example : ∃ (wOut : Cfg ℝ ℂ → ℂ) (g : Cfg ℝ ℂ), FullAxis wOut g :=
  ⟨fun _ => ((1 / 2 : ℝ) : ℂ),
    { N := 2, M := 4, Mo := 4, δ := 1 / 2, z := 0, dT := 1 / 2, s := 0, w := ((1 / 2 : ℝ) : ℂ), emu := true },
    rfl, by norm_num, by norm_num, by push_cast; norm_num⟩

/-- **Full `n`-D FFT grid pair: backward(forward(f)) = f** for the iterated pipelines on any
number of axes (each axis full and consistent, padding allowed, any shift setting per axis), at
every in-range index list. -/
theorem full_grid_inverse_nd (wOut : Cfg ℝ ℂ → ℂ) (gs : List (Cfg ℝ ℂ))
    (hgs : ∀ g ∈ gs, FullAxis wOut g) (f : List ℕ → ℂ) (js : List ℕ)
    (hjs : List.Forall₂ (fun j g => j < g.N) js gs) :
    fastBackwardN expT expE gs (fastForwardN expT expE gs f) js = f js := by
  induction gs generalizing f js with
  | nil =>
    cases hjs
    rfl
  | cons g gs ih =>
    cases hjs with
    | cons hj hjs =>
      rename_i j js
      obtain ⟨hMo, hN, hc, hw⟩ := hgs g (List.mem_cons_self ..)
      have ih' := ih (fun g' hg' => hgs g' (List.mem_cons_of_mem _ hg'))
      rw [fastBackwardN_cons]
      have e : (fun k => fastBackwardN expT expE gs
            (fun idx => fastForwardN expT expE (g :: gs) f (k :: idx)) js)
          = fun k => fastForward expT expE g (fun i => f (i :: js)) k := by
        funext k
        have h1 := fastBackwardN_comm (T := expT) (E := expE) (fastForward_finLin (T := expT) (E := expE) g k) gs
          (fun i idx => fastForwardN expT expE gs (fun idx' => f (i :: idx')) idx) js
        refine h1.trans ?_
        congr 1
        funext i
        exact ih' (fun idx' => f (i :: idx')) js hjs
      rw [e]
      exact full_grid_inverse g (wOut g) hMo hN hc hw (fun i => f (i :: js)) j hj

/-! ## Adjointness of the code models: MatrixFourierTransform, one ZoomFFT axis -/

/-- hypothesis: a weights object (`Weights.scalar` or `Weights.array`) has real entries -/
def RealWeights (w : Weights ℂ) : Prop := ∀ i, conj (w.get i) = w.get i

/-- satisfiability of `RealWeights`, both branches -/
example : RealWeights (.scalar ((1 / 2 : ℝ) : ℂ)) ∧ RealWeights (.array fun i => ((i : ℝ) : ℂ)) :=
  ⟨fun _ => Complex.conj_ofReal _, fun _ => Complex.conj_ofReal _⟩

/-- **MatrixFourierTransform (ndim = 2): `backward` is the adjoint of `forward`** — for the
two-`gemm` code models `mftForward` / `mftBackward` (Model/Mft.lean), arbitrary separated
coordinates (no grid relation at all), both weight branches (`.scalar` / `.array`) on either side,
real output weights; flat indices, weighted inner products `Σ conj(a)·b·w`. -/
theorem mft_adjoint (Nx Ny Nu Nv : ℕ) (x y u v : ℕ → ℝ) (win wout : Weights ℂ)
    (hwout : RealWeights wout) (X Y : ℕ → ℂ) :
    ∑ k ∈ range (Nv * Nu),
        conj (Y k) * mftForward expE Nx Ny Nu Nv x y u v win X k * wout.get k
      = ∑ j ∈ range (Ny * Nx),
        conj (mftBackward expE (starRingEnd ℂ) Nx Ny Nu Nv x y u v wout Y j) * X j * win.get j := by
  rw [sum_flat, sum_flat]
  have hf : ∀ iv ∈ range Nv, ∀ iu ∈ range Nu,
      conj (Y (iv * Nu + iu)) * mftForward expE Nx Ny Nu Nv x y u v win X (iv * Nu + iu)
          * wout.get (iv * Nu + iu)
        = conj (Y (iv * Nu + iu)) *
          (∑ iy ∈ range Ny, ∑ ix ∈ range Nx, X (iy * Nx + ix) * win.get (iy * Nx + ix)
            * expE (-(u iu * x ix + v iv * y iy))) * wout.get (iv * Nu + iu) := by
    intro iv _ iu hiu
    rw [mft_forward_eq_sum_2d_get expE_isChar Nx Ny Nu Nv x y u v win X (mem_range.mp hiu)]
  have hb : ∀ iy ∈ range Ny, ∀ ix ∈ range Nx,
      conj (mftBackward expE (starRingEnd ℂ) Nx Ny Nu Nv x y u v wout Y (iy * Nx + ix))
          * X (iy * Nx + ix) * win.get (iy * Nx + ix)
        = conj (∑ iv ∈ range Nv, ∑ iu ∈ range Nu,
            Y (iv * Nu + iu) * wout.get (iv * Nu + iu) * expE (u iu * x ix + v iv * y iy))
          * X (iy * Nx + ix) * win.get (iy * Nx + ix) := by
    intro iy hiy ix hix
    rw [mft_backward_eq_sum_2d_complex expE_isChar expE_conj Nx Ny Nu Nv x y u v wout Y
      (mem_range.mp hix) (mem_range.mp hiy)]
  rw [Finset.sum_congr rfl fun iv hiv => Finset.sum_congr rfl (hf iv hiv),
    Finset.sum_congr rfl fun iy hiy => Finset.sum_congr rfl (hb iy hiy)]
  exact adjoint_sum_2d_exp Nx Ny Nu Nv x y u v win.get wout.get hwout X Y

/-- **MatrixFourierTransform (ndim = 1): `backward` is the adjoint of `forward`** for the code
models `mftForward1` / `mftBackward1`, arbitrary coordinates, real output weights. -/
theorem mft_adjoint_1d (Nx Nu : ℕ) (x u : ℕ → ℝ) (win wout : Weights ℂ)
    (hwout : RealWeights wout) (X Y : ℕ → ℂ) :
    ∑ k ∈ range Nu, conj (Y k) * mftForward1 expE Nx x u win X k * wout.get k
      = ∑ j ∈ range Nx,
        conj (mftBackward1 expE (starRingEnd ℂ) Nu x u wout Y j) * X j * win.get j := by
  simp only [mft_forward_eq_sum_1d, mft_backward_eq_sum_1d_complex expE_conj]
  have h := adjoint_sum_finset (range Nx) (range Nu) (fun k j => expE (-(u k * x j))) win.get
    wout.get hwout X Y
  simp only [expE_conj, neg_neg] at h
  exact h

/-- **NaiveFourierTransform: `backward` is the adjoint of `forward`** for the code models of both
paths (precomputed matrices: `nftForwardMat`/`nftBackwardMat`; on the fly: `nftForwardFly`/
`nftBackwardFly`), arbitrary point sets in any dimension, per-point weights (output weights
real). -/
theorem naive_adjoint (n m : ℕ) (us xs : List (ℕ → ℝ)) (win wout : ℕ → ℂ)
    (hwout : ∀ k, conj (wout k) = wout k) (X Y : ℕ → ℂ) :
    (∑ k ∈ range m, conj (Y k) * nftForwardMat expE n us xs win X k * wout k
      = ∑ j ∈ range n, conj (nftBackwardMat expE m us xs wout Y j) * X j * win j) ∧
    (∑ k ∈ range m, conj (Y k) * nftForwardFly expE n us xs win X k * wout k
      = ∑ j ∈ range n, conj (nftBackwardFly expE m us xs wout Y j) * X j * win j) := by
  have h := adjoint_sum_finset (range n) (range m)
    (fun k j => expE (-(dotCoords us xs k j))) win wout hwout X Y
  simp only [expE_conj, neg_neg] at h
  constructor
  · simp only [nft_forward_mat_eq_sum, nft_backward_mat_eq_sum]
    exact h
  · simp only [nft_forward_fly_eq_sum, nft_backward_fly_eq_sum]
    exact h

/-- **`get_transformation_matrix_forward` / `_backward` are adjoint matrices** in the weighted inner
products of the two grids, entry by entry: `W_out·A_f = (W_in·A_b)ᴴ` for the executed definitions
`nftMatrixForward` / `nftMatrixBackward` (op `C01 nft … mat`), arbitrary point sets in any dimension,
real per-point weights on both sides (`wout = output weights/(2π)^ndim`).  (The abstract statement for
an arbitrary kernel is `Lemmas/FourierC02.adjoint_sum`; this is its instance on what the driver runs.) -/
theorem transformation_matrices_adjoint (us xs : List (ℕ → ℝ)) (win wout : ℕ → ℂ)
    (hwin : ∀ j, conj (win j) = win j) (hwout : ∀ k, conj (wout k) = wout k) (k j : ℕ) :
    wout k * nftMatrixForward expE us xs win k j
      = conj (win j * nftMatrixBackward expE us xs wout j k) := by
  simp only [nftMatrixForward, nftMatrixBackward, map_mul, expE_conj, hwin, hwout]
  ring

/-- satisfiability: real weights -/
example : ∃ win wout : ℕ → ℂ, (∀ j, conj (win j) = win j) ∧ (∀ k, conj (wout k) = wout k) :=
  ⟨fun j => ((j : ℝ) : ℂ), fun _ => ((1 / 2 : ℝ) : ℂ), fun _ => Complex.conj_ofReal _, fun _ => Complex.conj_ofReal _⟩

/-- hypothesis bundle for one ZoomFFT axis: non-empty grids and FFT lengths without wrap-around
(`next_fast_len(n + m - 1) ≥ n + m - 1` for both CZTs) -/
def ZoomAxisOK (n m nfft nfftInv : ℕ) : Prop :=
  0 < n ∧ 0 < m ∧ n + m - 1 ≤ nfft ∧ m + n - 1 ≤ nfftInv

/-- satisfiability of `ZoomAxisOK` -/
example : ZoomAxisOK 3 4 6 6 := by unfold ZoomAxisOK; omega

/-- **One ZoomFFT axis: the `backward` axis step is the adjoint of the `forward` axis step** —
for the Bluestein code models `zoomAxis` (applied to `field·input_weights`) and `zoomAxisInv`
(applied to `field·output_weights`), any two regular grids, real output weights. -/
theorem zoom_axis_adjoint (n m nfft nfftInv : ℕ) (hok : ZoomAxisOK n m nfft nfftInv)
    (x0 δ u0 Δ : ℝ) (win wout : ℕ → ℂ) (hwout : ∀ k, conj (wout k) = wout k) (X Y : ℕ → ℂ) :
    ∑ k ∈ range m, conj (Y k) * zoomAxis n m nfft expE x0 δ u0 Δ (fun i => X i * win i) k * wout k
      = ∑ j ∈ range n,
        conj (zoomAxisInv expE n m nfftInv x0 δ u0 Δ (fun k => Y k * wout k) j) * X j * win j := by
  obtain ⟨hn, hm, h1, h2⟩ := hok
  have hf : ∀ k ∈ range m,
      conj (Y k) * zoomAxis n m nfft expE x0 δ u0 Δ (fun i => X i * win i) k * wout k
        = conj (Y k) * (∑ i ∈ range n, X i * win i
            * expE (-((u0 + (k : ℝ) * Δ) * (x0 + (i : ℝ) * δ)))) * wout k := by
    intro k hk
    rw [zoom_axis_eq_sum expE_isChar two_ne_zero n m nfft hn h1 x0 δ u0 Δ _ k (mem_range.mp hk)]
    simp only [zoomSum, sumRange_eq]
  have hb : ∀ j ∈ range n,
      conj (zoomAxisInv expE n m nfftInv x0 δ u0 Δ (fun k => Y k * wout k) j) * X j * win j
        = conj (∑ k ∈ range m, Y k * wout k
            * expE ((u0 + (k : ℝ) * Δ) * (x0 + (j : ℝ) * δ))) * X j * win j := by
    intro j hj
    unfold zoomAxisInv
    rw [zoom_axis_backward_eq_sum expE_isChar two_ne_zero m n nfftInv hm h2 x0 δ u0 Δ _ j
      (mem_range.mp hj)]
  rw [Finset.sum_congr rfl hf, Finset.sum_congr rfl hb]
  have h := adjoint_sum_finset (range n) (range m)
    (fun k j => expE (-((u0 + (k : ℝ) * Δ) * (x0 + (j : ℝ) * δ)))) win wout hwout X Y
  simp only [expE_conj, neg_neg] at h
  exact h

/-! ## Adjointness on `n` axes: the iterated FFT pipelines and the ZoomFFT axis loop with weights

Inner products are sums over index lists (`sumOverN dims`, Model/FftIndexN.lean — the same
iterated sum the `n`-D defining sums of C01 are written with). -/

/-- **`n`-axis FastFourierTransform: `backward` is the adjoint of `forward`** for the iterated
pipelines `fastForwardN` / `fastBackwardN`, any number of axes, padding and cropping allowed on
every axis (`N ≤ M`, `Mo ≤ M`), both shift settings, in the weighted inner products of the two
grids (input weight `Π w_i`, output weight `Π wo_i` with `wo_i` real, `wo_i·M_i·w_i = 1`). -/
theorem fast_adjoint_nd (wo : Cfg ℝ ℂ → ℝ) (gs : List (Cfg ℝ ℂ))
    (hgs : ∀ g ∈ gs, g.N ≤ g.M ∧ g.Mo ≤ g.M ∧ g.dT * (g.M : ℝ) * g.δ = 1 ∧
      ((wo g : ℝ) : ℂ) * (g.M : ℂ) * g.w = 1)
    (X Y : List ℕ → ℂ) :
    sumOverN (gs.map fun g => g.Mo) (fun ks =>
        conj (Y ks) * fastForwardN expT expE gs X ks * weightOutN (fun g => ((wo g : ℝ) : ℂ)) gs)
      = sumOverN (gs.map fun g => g.N) (fun js =>
        conj (fastBackwardN expT expE gs Y js) * X js * weightN gs) := by
  have hL := sumOverN_congr (gs.map fun g => g.Mo)
    (fun ks => conj (Y ks) * fastForwardN expT expE gs X ks * weightOutN (fun g => ((wo g : ℝ) : ℂ)) gs)
    (fun ks => conj (Y ks) * (sumOverN (gs.map fun g => g.N) fun js =>
      X js * weightN gs * (expT (-(dotA gs ks js)) * expE (-(dotS gs js))))
        * weightOutN (fun g => ((wo g : ℝ) : ℂ)) gs) (by
      intro ks hks
      rw [fastForwardN_eq_sumForwardN expT_isChar expE_isChar expT_period gs
        (fun g hg => ⟨(hgs g hg).1, (hgs g hg).2.1, (hgs g hg).2.2.1⟩) X ks
        (List.forall₂_map_right_iff.mp hks)]
      rfl)
  have hR := sumOverN_congr (gs.map fun g => g.N)
    (fun js => conj (fastBackwardN expT expE gs Y js) * X js * weightN gs)
    (fun js => conj (sumOverN (gs.map fun g => g.Mo) fun ks =>
      Y ks * weightOutN (fun g => ((wo g : ℝ) : ℂ)) gs
        * conj (expT (-(dotA gs ks js)) * expE (-(dotS gs js)))) * X js * weightN gs) (by
      intro js hjs
      rw [fastBackwardN_eq_sumBackwardN expT_isChar expE_isChar expT_period
        (fun g => ((wo g : ℝ) : ℂ)) gs
        (fun g hg => ⟨(hgs g hg).1, (hgs g hg).2.1, (hgs g hg).2.2.1, (hgs g hg).2.2.2⟩) Y js
        (List.forall₂_map_right_iff.mp hjs)]
      simp only [sumBackwardN, map_mul, expT_conj, expE_conj, neg_neg])
  rw [hL, hR]
  exact adjoint_sumOverN _ _ (fun ks js => expT (-(dotA gs ks js)) * expE (-(dotS gs js)))
    (fun _ => weightN gs) (fun _ => weightOutN (fun g => ((wo g : ℝ) : ℂ)) gs)
    (fun _ => conj_weightOutN_real wo gs) X Y

/-- satisfiability of the hypothesis bundle of `fast_adjoint_nd`: two axes, one padded and cropped
(`N = 2, M = 4, Mo = 3`), one full (`N = M = Mo = 2`), `δ = w = 1/2`, `wo = dT = 1/(M·δ)` -/
example : ∃ (wo : Cfg ℝ ℂ → ℝ) (gs : List (Cfg ℝ ℂ)), gs.length = 2 ∧
    ∀ g ∈ gs, g.N ≤ g.M ∧ g.Mo ≤ g.M ∧ g.dT * (g.M : ℝ) * g.δ = 1 ∧
      ((wo g : ℝ) : ℂ) * (g.M : ℂ) * g.w = 1 :=
  ⟨fun g => g.dT,
    [{ N := 2, M := 4, Mo := 3, δ := 1 / 2, z := 0, dT := 1 / 2, s := 0, w := ((1 / 2 : ℝ) : ℂ), emu := true },
     { N := 2, M := 2, Mo := 2, δ := 1 / 2, z := 1, dT := 1, s := 1 / 3, w := ((1 / 2 : ℝ) : ℂ), emu := true }],
    rfl, by
      intro g hg
      simp only [List.mem_cons, List.not_mem_nil, or_false] at hg
      rcases hg with rfl | rfl
      · refine ⟨by norm_num, by norm_num, by norm_num, ?_⟩
        push_cast; norm_num
      · refine ⟨by norm_num, by norm_num, by norm_num, ?_⟩
        push_cast; norm_num⟩

/-- **Full `n`-D FFT grid pair: Parseval** — `Σ_ks |F f|²·Π wo_i = Σ_js |f|²·Π w_i` (written with
`conj a * a`) for the iterated pipeline on any number of full, consistent axes; from
`fast_adjoint_nd` with `Y = F f` and `full_grid_inverse_nd`. -/
theorem parseval_full_nd (wo : Cfg ℝ ℂ → ℝ) (gs : List (Cfg ℝ ℂ))
    (hgs : ∀ g ∈ gs, FullAxis (fun g => ((wo g : ℝ) : ℂ)) g) (f : List ℕ → ℂ) :
    sumOverN (gs.map fun g => g.Mo) (fun ks =>
        conj (fastForwardN expT expE gs f ks) * fastForwardN expT expE gs f ks
          * weightOutN (fun g => ((wo g : ℝ) : ℂ)) gs)
      = sumOverN (gs.map fun g => g.N) (fun js => conj (f js) * f js * weightN gs) := by
  rw [fast_adjoint_nd wo gs (fun g hg => by
    obtain ⟨hMo, hN, hc, hw⟩ := hgs g hg
    exact ⟨hN, le_of_eq hMo, hc, hw⟩) f (fastForwardN expT expE gs f)]
  apply sumOverN_congr
  intro js hjs
  rw [full_grid_inverse_nd _ gs hgs f js (List.forall₂_map_right_iff.mp hjs)]

/-- **Cropped `n`-D FFT grid: the output energy never exceeds the input energy** — iterated
pipeline on any number of axes, each padded and/or cropped (`N ≤ M`, `Mo ≤ M`), consistent, real
input weight `wr g`, non-negative output weight `wo g` with `wo·M·w = 1`; energies are sums over
index lists of `|·|²` times the product of the per-axis weights.  Induction over the axes with
the 1-D inequality `cropped_energy_le` on the first axis. -/
theorem cropped_energy_le_nd (wr wo : Cfg ℝ ℂ → ℝ) (gs : List (Cfg ℝ ℂ))
    (hgs : ∀ g ∈ gs, g.Mo ≤ g.M ∧ g.N ≤ g.M ∧ g.dT * (g.M : ℝ) * g.δ = 1 ∧
      g.w = ((wr g : ℝ) : ℂ) ∧ ((wo g : ℝ) : ℂ) * (g.M : ℂ) * g.w = 1 ∧ 0 ≤ wo g)
    (f : List ℕ → ℂ) :
    sumOverN (gs.map fun g => g.Mo) (fun ks => Complex.normSq (fastForwardN expT expE gs f ks))
        * (gs.map wo).prod
      ≤ sumOverN (gs.map fun g => g.N) (fun js => Complex.normSq (f js)) * (gs.map wr).prod := by
  induction gs generalizing f with
  | nil => simp [sumOverN, fastForwardN_nil]
  | cons g gs ih =>
    obtain ⟨hMo, hN, hc, hgw, hw, hwo⟩ := hgs g (List.mem_cons_self ..)
    have ih' := ih (fun g' hg' => hgs g' (List.mem_cons_of_mem _ hg'))
    have hwr : 0 ≤ wr g := wr_nonneg g (wr g) (wo g) hgw hw hwo
    have hWo : 0 ≤ (gs.map wo).prod := by
      apply List.prod_nonneg
      intro x hx
      obtain ⟨g', hg', rfl⟩ := List.mem_map.mp hx
      exact (hgs g' (List.mem_cons_of_mem _ hg')).2.2.2.2.2
    simp only [List.map_cons, List.prod_cons, sumOverN, sumRange_eq]
    calc (∑ k ∈ range g.Mo, sumOverN (gs.map fun g => g.Mo) fun idx =>
            Complex.normSq (fastForwardN expT expE (g :: gs) f (k :: idx))) * (wo g * (gs.map wo).prod)
        = sumOverN (gs.map fun g => g.Mo) (fun ks => ∑ k ∈ range g.Mo,
            Complex.normSq (fastForward expT expE g
              (fun i => fastForwardN expT expE gs (fun idx => f (i :: idx)) ks) k) * wo g)
            * (gs.map wo).prod := by
          rw [sumOverN_finset_sum]
          simp only [sumOverN_mul_right, fastForwardN_cons]
          rw [← Finset.sum_mul]
          ring
      _ ≤ sumOverN (gs.map fun g => g.Mo) (fun ks => ∑ i ∈ range g.N,
            Complex.normSq (fastForwardN expT expE gs (fun idx => f (i :: idx)) ks) * wr g)
            * (gs.map wo).prod := by
          apply mul_le_mul_of_nonneg_right _ hWo
          apply sumOverN_mono
          intro ks
          exact cropped_energy_le g (wr g) (wo g) hMo hN hc hgw hw hwo _
      _ = ∑ i ∈ range g.N, (sumOverN (gs.map fun g => g.Mo) (fun ks =>
            Complex.normSq (fastForwardN expT expE gs (fun idx => f (i :: idx)) ks))
              * (gs.map wo).prod) * wr g := by
          rw [sumOverN_finset_sum]
          simp only [sumOverN_mul_right]
          rw [Finset.sum_mul]
          exact Finset.sum_congr rfl fun _ _ => by ring
      _ ≤ ∑ i ∈ range g.N, (sumOverN (gs.map fun g => g.N) (fun js =>
            Complex.normSq (f (i :: js))) * (gs.map wr).prod) * wr g := by
          apply Finset.sum_le_sum
          intro i _
          exact mul_le_mul_of_nonneg_right (ih' fun idx => f (i :: idx)) hwr
      _ = _ := by
          rw [Finset.sum_mul]
          exact Finset.sum_congr rfl fun _ _ => by ring

/-- satisfiability of the hypothesis bundle of `cropped_energy_le_nd`: a cropped axis
(`N = 2, M = 4, Mo = 3`) and a full one, `δ = w = 1/2`, `wo = dT` -/
example : ∃ (wr wo : Cfg ℝ ℂ → ℝ) (gs : List (Cfg ℝ ℂ)), gs.length = 2 ∧
    ∀ g ∈ gs, g.Mo ≤ g.M ∧ g.N ≤ g.M ∧ g.dT * (g.M : ℝ) * g.δ = 1 ∧
      g.w = ((wr g : ℝ) : ℂ) ∧ ((wo g : ℝ) : ℂ) * (g.M : ℂ) * g.w = 1 ∧ 0 ≤ wo g :=
  ⟨fun _ => 1 / 2, fun g => g.dT,
    [{ N := 2, M := 4, Mo := 3, δ := 1 / 2, z := 0, dT := 1 / 2, s := 0, w := ((1 / 2 : ℝ) : ℂ), emu := true },
     { N := 2, M := 2, Mo := 2, δ := 1 / 2, z := 1, dT := 1, s := 1 / 3, w := ((1 / 2 : ℝ) : ℂ), emu := false }],
    rfl, by
      intro g hg
      simp only [List.mem_cons, List.not_mem_nil, or_false] at hg
      rcases hg with rfl | rfl
      · refine ⟨by norm_num, by norm_num, by norm_num, rfl, ?_, by norm_num⟩
        push_cast; norm_num
      · refine ⟨by norm_num, by norm_num, by norm_num, rfl, ?_, by norm_num⟩
        push_cast; norm_num⟩

/-- **`n`-axis ZoomFastFourierTransform: `backward` is the adjoint of `forward`** — the axis loops
`zoomForwardN` (on `field·input_weights`) and `zoomBackwardN` (on `field·output_weights`) of
Model/ZoomN.lean, any list of axes, any two regular grids, per-point weights (output weights
real), every `nfft ≥ n + m − 1` on every axis. -/
theorem zoom_adjoint_nd (axs : List (ZAx ℝ))
    (hok : ∀ a ∈ axs, ZoomAxisOK a.n a.m a.nfft a.nfftInv)
    (win wout : List ℕ → ℂ) (hwout : ∀ ks, conj (wout ks) = wout ks) (X Y : List ℕ → ℂ) :
    sumOverN (axs.map fun a => a.m) (fun ks =>
        conj (Y ks) * zoomForwardN expE axs win X ks * wout ks)
      = sumOverN (axs.map fun a => a.n) (fun js =>
        conj (zoomBackwardN expE axs wout Y js) * X js * win js) := by
  have hL := sumOverN_congr (axs.map fun a => a.m)
    (fun ks => conj (Y ks) * zoomForwardN expE axs win X ks * wout ks)
    (fun ks => conj (Y ks) * (sumOverN (axs.map fun a => a.n) fun js =>
      X js * win js * expE (-(dotUX axs ks js))) * wout ks) (by
      intro ks hks
      rw [zoomN_eq_sumN expE_isChar two_ne_zero axs
        (fun a ha => ⟨(hok a ha).1, (hok a ha).2.2.1⟩) win X ks (List.forall₂_map_right_iff.mp hks)]
      rfl)
  have hR := sumOverN_congr (axs.map fun a => a.n)
    (fun js => conj (zoomBackwardN expE axs wout Y js) * X js * win js)
    (fun js => conj (sumOverN (axs.map fun a => a.m) fun ks =>
      Y ks * wout ks * conj (expE (-(dotUX axs ks js)))) * X js * win js) (by
      intro js hjs
      rw [zoomN_backward_eq_sumN expE_isChar two_ne_zero axs
        (fun a ha => ⟨(hok a ha).2.1, (hok a ha).2.2.2⟩) wout Y js (List.forall₂_map_right_iff.mp hjs)]
      simp only [zoomSumBackwardN, expE_conj, neg_neg])
  rw [hL, hR]
  exact adjoint_sumOverN _ _ (fun ks js => expE (-(dotUX axs ks js))) win wout hwout X Y

/-- satisfiability of the hypothesis of `zoom_adjoint_nd`: two axes -/
example : ∃ axs : List (ZAx ℝ), axs.length = 2 ∧ ∀ a ∈ axs, ZoomAxisOK a.n a.m a.nfft a.nfftInv :=
  ⟨[⟨2, 3, 4, 4, 0, 1, 0, 1⟩, ⟨3, 2, 5, 4, -1, 1 / 2, 0, 1⟩], rfl, by
    intro a ha
    simp only [List.mem_cons, List.not_mem_nil, or_false] at ha
    rcases ha with rfl | rfl <;> exact ⟨by norm_num, by norm_num, by norm_num, by norm_num⟩⟩

/-! ## Matrix-valued FourierFilter (`fourier_operations.py`, `_operation`, matrix-field branch) -/

/-- **FourierFilter with a matrix transfer function: `backward` is the adjoint of `forward`.**
Code model `filterMX` (Model/FilterM.lean, run by the driver op `C02 filterm` and compared with
`FourierFilter.forward/backward` on 2-component fields): `forward x = Pᴴ·F⁻¹·(D·(F·P·x))` with `P`
the zero padding into the internal array, `Pᴴ` the cut-out, `F` the transform matrix of `fftn`,
`F⁻¹ = c⁻¹·Fᴴ` that of `ifftn` (unnormalised DFT: `c = M`, real), and `D r` a 2×2 matrix applied
to the two tensor components at every frequency sample `r` (`field_dot`); the adjoint call uses
`field_conjugate_transpose(D)` (`fmCtrX`).  Unweighted inner product over samples and components.
The identity needs only `c` real (no unitarity of `F`, any `P`, any `D`). -/
theorem filterM_adjoint (n M : ℕ) (P F : ℕ → ℕ → ℂ) (c : ℂ) (hc : conj c = c)
    (D : ℕ → Bool → Bool → ℂ) (x y : Bool → ℕ → ℂ) :
    ∑ a, ∑ i ∈ range n, conj (y a i) * filterMX n M P F (starRingEnd ℂ) c⁻¹ D x a i
      = ∑ a, ∑ i ∈ range n,
          conj (filterMX n M P F (starRingEnd ℂ) c⁻¹ (fmCtrX (starRingEnd ℂ) D) y a i) * x a i :=
  filterMX_adjoint n M P F c hc D x y

/-- Without the transposition in `field_conjugate_transpose` (entry-wise conjugate only) the
backward call is **not** the adjoint: `n = M = 1`, `P = F = c = 1`, `D = [[0,1],[0,0]]`,
`x = e₁`, `y = e₀`. -/
theorem Bad.filterM_conj_only_not_adjoint :
    ∃ (D : ℕ → Bool → Bool → ℂ) (x y : Bool → ℕ → ℂ),
      ∑ a, ∑ i ∈ range 1, conj (y a i) * filterMX 1 1 (fun _ _ => 1) (fun _ _ => 1) (starRingEnd ℂ) 1⁻¹ D x a i
        ≠ ∑ a, ∑ i ∈ range 1,
            conj (filterMX 1 1 (fun _ _ => 1) (fun _ _ => 1) (starRingEnd ℂ) 1⁻¹ (fun r a b => conj (D r a b)) y a i) * x a i := by
  refine ⟨fun _ a b => if a = false ∧ b = true then 1 else 0, fun b _ => if b = true then 1 else 0,
    fun a _ => if a = false then 1 else 0, ?_⟩
  simp [filterMX, fmSynthesisX, fmAnalysisX, sumRange]

/-- **A matrix-valued field is filtered column by column**: `filterMXM` (run by the driver op
`C02 filtermm`, compared with `FourierFilter.forward/backward` on fields of tensor shape `(2, ncol)`)
applied to `X` gives, in column `c`, the vector-field filter `filterMX` of column `c` of `X` — for
the forward and for the adjoint transfer function alike (any `D`). -/
theorem filterM_matrix_field_columns (n M : ℕ) (P F : ℕ → ℕ → ℂ) (cinv : ℂ)
    (D : ℕ → Bool → Bool → ℂ) (X : Bool → ℕ → ℕ → ℂ) (a : Bool) (c i : ℕ) :
    filterMXM n M P F (starRingEnd ℂ) cinv D X a c i
      = filterMX n M P F (starRingEnd ℂ) cinv D (fun b => X b c) a i :=
  filterMXM_eq_columns n M P F (starRingEnd ℂ) cinv D X a c i

/-- **FourierFilter with a matrix transfer function on a matrix-valued field: `backward` is the
adjoint of `forward`** in the Frobenius inner product over rows, columns and samples, for any number
of columns `ncol`: the adjoint applies `field_conjugate_transpose(D)` *from the left* (`fmCtrX`). -/
theorem filterM_adjoint_matrix_field (n M ncol : ℕ) (P F : ℕ → ℕ → ℂ) (c : ℂ) (hc : conj c = c)
    (D : ℕ → Bool → Bool → ℂ) (X Y : Bool → ℕ → ℕ → ℂ) :
    ∑ a, ∑ k ∈ range ncol, ∑ i ∈ range n, conj (Y a k i) * filterMXM n M P F (starRingEnd ℂ) c⁻¹ D X a k i
      = ∑ a, ∑ k ∈ range ncol, ∑ i ∈ range n,
          conj (filterMXM n M P F (starRingEnd ℂ) c⁻¹ (fmCtrX (starRingEnd ℂ) D) Y a k i) * X a k i :=
  filterMXM_adjoint n M ncol P F c hc D X Y

/-- what `field_dot(f.conj(), tf).conj()` computes on a 2×2 matrix field at one sample:
`Y · conj(D)` — the entry-wise conjugate applied **from the right** -/
def Bad.rightConj (D : Bool → Bool → ℂ) (Y : Bool → Bool → ℂ) (a k : Bool) : ℂ :=
  Y a false * conj (D false k) + Y a true * conj (D true k)

/-- Evaluating the adjoint of the matrix branch as `(fᴴ·T)ᴴ` with a plain entry-wise conjugate
(`Bad.rightConj`, correct for vector fields) is **not** the adjoint on a matrix-valued field:
`n = M = 1`, `P = F = c = 1`, `D = [[0,1],[0,0]]`, `X = e₁₀`, `Y = e₀₀` gives `⟨Y, D·X⟩ = 1` but
`⟨Y·conj D, X⟩ = 0`. -/
theorem Bad.filterM_right_conj_not_adjoint :
    ∃ (D : ℕ → Bool → Bool → ℂ) (X Y : Bool → ℕ → ℕ → ℂ),
      ∑ a, ∑ k ∈ range 2, ∑ i ∈ range 1,
          conj (Y a k i) * filterMXM 1 1 (fun _ _ => 1) (fun _ _ => 1) (starRingEnd ℂ) 1⁻¹ D X a k i
        ≠ ∑ a, ∑ k ∈ range 2, ∑ i ∈ range 1,
            conj (Bad.rightConj (D 0) (fun a' k' => Y a' k'.toNat 0) a (k == 1)) * X a k i := by
  refine ⟨fun _ a b => if a = false ∧ b = true then 1 else 0,
    fun b k _ => if b = true ∧ k = 0 then 1 else 0,
    fun a k _ => if a = false ∧ k = 0 then 1 else 0, ?_⟩
  simp [filterMXM, fmSynthesisX, fmAnalysisX, sumRange, Bad.rightConj, Finset.sum_range_succ]

/-- satisfiability of the hypothesis of `filterM_adjoint`: the DFT normalisation `c = M` is real -/
example (M : ℕ) : conj (M : ℂ) = (M : ℂ) := Complex.conj_natCast M

end HcipyVerif.C02
