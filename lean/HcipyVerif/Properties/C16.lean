import HcipyVerif.Model.Serial
import HcipyVerif.Lemmas.Serial

/-!
# C16 — writing then reading a grid, field or mode basis returns an equal object

Property theorems over the model `HcipyVerif.Serial` (see `Model/Serial.lean` for what is
modelled).  Hypotheses used throughout:

* `knownSystem g.system` — the grid's class is registered in `Grid._coordinate_systems`
  (`CartesianGrid`, `PolarGrid` and, after the repair of D161, the base `Grid`).  This is **not** an
  invariant of writable objects: `grid_file_readable_iff` states, at top level, that a grid that can
  be written can be read back *iff* its system is registered (a user subclass that never called
  `Grid._add_coordinate_system` is written but not readable; explicit assumption of the harness);
* `Coords.WellFormed` — `delta` and `zero` of regular coordinates are what `ndarray.tolist()`
  yields: all Python ints or all Python floats.
-/
set_option linter.unusedSimpArgs false
set_option linter.unusedVariables false

namespace HcipyVerif.Serial

/-- `delta`, `zero` of regular coordinates come from one NumPy array each. -/
def Coords.WellFormed : Coords → Prop
  | .regular d _ z => Homogeneous d ∧ Homogeneous z
  | _ => True

def Grid.Ok (g : Grid) : Prop := knownSystem g.system = true ∧ g.coords.WellFormed

/-! ## row-major index maps: `reshape` is the identity on C-order data -/

/-- `np.ravel_multi_index(np.unravel_index(k, s), s) = k` for every shape and every flat index. -/
theorem ravel_unravel (s : List Nat) (k : Nat) (h : k < prod s) : ravel s (unravel s k) = k :=
  ravel_unravel' s k h

/-- `np.unravel_index(np.ravel_multi_index(idx, s), s) = idx` for every valid multi-index. -/
theorem unravel_ravel (s idx : List Nat) (h : InBounds idx s) : unravel s (ravel s idx) = idx :=
  unravel_ravel' s idx h

theorem unravel_in_bounds (s : List Nat) (k : Nat) (h : k < prod s) : InBounds (unravel s k) s :=
  unravel_inBounds s k h

/-- `np.ravel_multi_index` / `np.unravel_index` *with their checks* (the maps the driver runs and the
harness compares with NumPy, refusals included): an index is accepted exactly when it is `InBounds`,
a flat index exactly when it is below the size — the hypotheses of the two theorems above are what
NumPy checks — and on what is accepted the two are inverse to each other. -/
theorem ravel_checked_inverse (s : List Nat) :
    (∀ idx, (ravelChecked s idx).toBool = true ↔ InBounds idx s) ∧
    (∀ k, (unravelChecked s k).toBool = true ↔ k < prod s) ∧
    (∀ k, k < prod s → (unravelChecked s k).bind (ravelChecked s) = .ok k) ∧
    (∀ idx, InBounds idx s → (ravelChecked s idx).bind (unravelChecked s) = .ok idx) := by
  refine ⟨fun idx => ?_, fun k => ?_, fun k hk => ?_, fun idx hi => ?_⟩
  · by_cases h : InBounds idx s <;> simp [ravelChecked, h, Except.toBool]
  · by_cases h : k < prod s <;> simp [unravelChecked, h, Except.toBool]
  · simp [unravelChecked, ravelChecked, hk, Except.bind, unravel_inBounds s k hk, ravel_unravel' s k hk]
  · simp [unravelChecked, ravelChecked, hi, Except.bind, ravel_lt s idx hi, unravel_ravel' s idx hi]

example : InBounds [1, 2] [2, 3] ∧ ¬ InBounds [2, 0] [2, 3] ∧ ¬ InBounds [1] [2, 3] := by decide

/-- Element `idx` of `a.reshape(s)` is the element of `a` with the same row-major rank, for every
pair of shapes. -/
theorem reshape_at (a b : Arr) (s idx : List Nat) (h : a.reshape s = .ok b) (hi : InBounds idx s) :
    b.at idx = a.at (unravel a.shape (ravel s idx)) := by
  unfold Arr.reshape at h
  split at h
  · rename_i hp
    injection h with h
    subst h
    have : ravel s idx < prod a.shape := hp ▸ ravel_lt s idx hi
    simp [Arr.at, ravel_unravel' a.shape _ this]
  · cases h

/-- Reshaping to any shape of the same size and back is the identity (all tensor and grid
shapes). -/
theorem reshape_roundtrip (a : Arr) (s : List Nat) (h : prod s = prod a.shape) :
    (a.reshape s).bind (fun b => b.reshape a.shape) = .ok a := by
  simp [Arr.reshape, h, Except.bind]

example : prod [2, 3] = prod [3, 2] := by decide

/-- Transposing an `r × c` matrix twice is the identity on its C-order data. -/
theorem transpose_transpose (r c : Nat) (d : List Rat) (h : d.length = r * c) :
    transposeFlat c r (transposeFlat r c d) = d :=
  transposeFlat_involutive r c d h

example : ([1, 2, 3, 4, 5, 6] : List Rat).length = 2 * 3 := by decide

/-- `np.moveaxis(np.moveaxis(a, -1, 0), 0, -1) = a` for every shape of at least one axis. -/
theorem moveaxis_roundtrip (a : Arr) (hs : a.shape ≠ []) (hd : a.data.length = prod a.shape) :
    a.moveLastToFront.moveFirstToLast = a := by
  obtain ⟨dtype, shape, data⟩ := a
  simp only at hs hd
  rcases List.eq_nil_or_concat shape with h0 | ⟨pre, m, rfl⟩
  · exact absurd h0 hs
  · rw [List.concat_eq_append] at hd ⊢
    have hlen : data.length = prod pre * m := by rw [hd, prod_append, prod_singleton]
    simp [Arr.moveLastToFront, Arr.moveFirstToLast, transposeFlat_involutive _ _ _ hlen]

example : (⟨"f8", [2, 3], [1, 2, 3, 4, 5, 6]⟩ : Arr).data.length = prod [2, 3] := by decide

def exGridPickle : Grid := ⟨.cartesian, .regular [.float 1] [3] [.float 0], .null⟩

/-! ## dictionary round trips -/

theorem coords_dict_roundtrip (c : Coords) (h : c.WellFormed) :
    Coords.fromDict c.toDict = .ok c := by
  cases c with
  | regular d n z =>
    obtain ⟨hd, hz⟩ := h
    simp [Coords.toDict, Coords.fromDict, Tree.get, lookup, asList, bind, Except.bind,
      mapM_asNum_comp, mapM_asDim_comp, coerce_of_homogeneous _ hd, coerce_of_homogeneous _ hz]
  | separated ax =>
    simp [Coords.toDict, Coords.fromDict, Tree.get, lookup, asList, bind, Except.bind, mapM_asArr_comp]
  | unstructured ax =>
    simp [Coords.toDict, Coords.fromDict, Tree.get, lookup, asList, bind, Except.bind, mapM_asArr_comp]

example : (Coords.regular [.float (1/2), .float (1/4)] [4, 3] [.int 0, .int 1]).WellFormed := by
  simp [Coords.WellFormed, Homogeneous, PyNum.isInt]

/-- `Grid.from_dict(g.to_dict())` is `g`: coordinate system, coordinates (storage kind included)
and weights (`None`, scalar, list or array exactly as stored). -/
theorem grid_dict_roundtrip (g : Grid) (h : g.Ok) : Grid.fromDict g.toDict = .ok g := by
  obtain ⟨hs, hc⟩ := h
  obtain ⟨s, c, w⟩ := g
  simp only at hs hc
  simp [Grid.toDict, Grid.fromDict, Grid.fromDictWith, Tree.get, lookup, bind, Except.bind,
    coords_dict_roundtrip c hc, hs]

example : (⟨.polar, .separated [⟨"f8", [2], [0, 1]⟩, ⟨"f8", [3], [0, 1, 3]⟩], .null⟩ : Grid).Ok := by
  simp [Grid.Ok, knownSystem, Coords.WellFormed]

example : (⟨.noneSys, .regular [.float 1] [3] [.float 0], .null⟩ : Grid).Ok := by
  simp [Grid.Ok, knownSystem, Coords.WellFormed, Homogeneous, PyNum.isInt]

/-- A grid whose coordinate system is not registered in `Grid._coordinate_systems` has a dictionary
form that `from_dict` rejects with `KeyError`. -/
theorem unregistered_grid_not_readable (g : Grid) (hs : knownSystem g.system = false)
    (hc : g.coords.WellFormed) : Grid.fromDict g.toDict = .error .key := by
  obtain ⟨s, c, w⟩ := g
  simp only at hs hc
  simp [Grid.toDict, Grid.fromDict, Grid.fromDictWith, Tree.get, lookup, bind, Except.bind,
    coords_dict_roundtrip c hc, hs]

example : knownSystem (⟨.other, .regular [.float 1] [3] [.float 0], .null⟩ : Grid).system = false := rfl

/-- The dictionary form of a grid is readable exactly when its coordinate system is registered. -/
theorem grid_dict_readable_iff (g : Grid) (hc : g.coords.WellFormed) :
    (Grid.fromDict g.toDict).toBool = true ↔ knownSystem g.system = true := by
  cases hs : knownSystem g.system
  · simp [unregistered_grid_not_readable g hs hc, Except.toBool]
  · simp [grid_dict_roundtrip g ⟨hs, hc⟩, Except.toBool]

theorem field_dict_roundtrip (f : Field) (h : f.grid.Ok) : Field.fromDict f.toDict = .ok f := by
  obtain ⟨v, g⟩ := f
  simp [Field.toDict, Field.fromDict, Tree.get, lookup, asArr, bind, Except.bind,
    grid_dict_roundtrip g h]

/-- `.T.T = id`: reversing all axes twice is the identity on C-order data, for every shape. -/
theorem transposeAll_transposeAll (dt : String) (s : List Nat) (d : List Rat)
    (hd : d.length = prod s) :
    (Arr.transposeAll ⟨dt, s.reverse, (Arr.transposeAll ⟨dt, s, d⟩).data⟩).data = d :=
  transposeAll_involutive dt s d hd

/-- `Field.__getstate__` / `__setstate__` (pickle, deepcopy) reproduce the field for every tensor
shape and for both memory layouts `ndarray.__reduce__` distinguishes: C-ordered (incl. strided
views) and Fortran-ordered data (`Field(xy.T, grid)`). -/
theorem field_pickle_roundtrip (f : Field) (l : Layout)
    (h : f.values.data.length = prod f.values.shape) : Field.setState (f.getState l) = f := by
  obtain ⟨⟨dt, s, d⟩, g⟩ := f
  cases l with
  | c => rfl
  | f =>
    simp only at h
    simp [Field.getState, Field.setState, Arr.raw, transposeAll_involutive dt s d h]

example : (⟨"f8", [2, 3], [1, 2, 3, 4, 5, 6]⟩ : Arr).data.length = prod [2, 3] := by decide

/-- The seeded class: a `__getstate__` that sets the Fortran flag from the memory layout but emits
C-order bytes returns, for the Fortran-ordered vector field `[[1,2,3],[4,5,6]]`, a field of the
right shape, dtype and grid with permuted values; C-ordered data is unaffected. -/
theorem field_pickle_bad_counterexample :
    (Field.setState (Field.getStateBad ⟨⟨"f8", [2, 3], [1, 2, 3, 4, 5, 6]⟩, exGridPickle⟩ .f)).values
      = ⟨"f8", [2, 3], [1, 3, 5, 2, 4, 6]⟩ ∧
    ∀ f : Field, Field.setState (f.getStateBad .c) = f := by
  constructor
  · decide +kernel
  · intro f; rfl

theorem csc_dict_roundtrip (c : Csc) : Csc.fromDict c.toDict = .ok c := by
  obtain ⟨d, i, p, s⟩ := c
  simp [Csc.toDict, Csc.fromDict, Tree.get, lookup, asArr, asList, bind, Except.bind, mapM_asDim_comp]

/-- `ModeBasis.from_dict(b.to_dict())` is `b`, dense stays dense and CSC stays CSC with the very
same `data`, `indices`, `indptr`. -/
theorem modebasis_dict_roundtrip (b : ModeBasis) (g : Grid) (hg : b.grid = some g) (h : g.Ok) :
    b.toDict.bind (fun t => ModeBasis.fromDict t) = .ok b := by
  obtain ⟨tm, og⟩ := b
  simp only at hg
  subst hg
  cases tm with
  | dense a =>
    simp [ModeBasis.toDict, ModeBasis.fromDict, ModeBasis.isSparse, ModeBasis.toDense, Tree.get,
      lookup, bind, Except.bind, Except.map, grid_dict_roundtrip g h]
  | sparse c =>
    have hc := csc_dict_roundtrip c
    simp only [Csc.toDict] at hc
    simp [ModeBasis.toDict, ModeBasis.fromDict, ModeBasis.isSparse, ModeBasis.toSparse, Tree.get,
      lookup, bind, Except.bind, Except.map, grid_dict_roundtrip g h, Csc.toDict, hc]

/-- sparse-or-dense storage is preserved by the dictionary round trip -/
theorem modebasis_dict_roundtrip_kind (b b' : ModeBasis) (g : Grid) (hg : b.grid = some g)
    (h : g.Ok) (hb : b.toDict.bind (fun t => ModeBasis.fromDict t) = .ok b') :
    b'.isSparse = b.isSparse := by
  rw [modebasis_dict_roundtrip b g hg h] at hb
  injection hb with hb
  rw [hb]

/-- A mode basis without grid has no dictionary form (`AttributeError`), hence cannot be written
by `write_mode_basis` in any format. -/
theorem modebasis_without_grid_has_no_dict (b : ModeBasis) (h : b.grid = none) :
    b.toDict = .error .attr := by
  simp [ModeBasis.toDict, h]

/-! ## writing never alters the object

The object is the state of a `StateM` program (`Model/Serial.lean`, "object state"): `_weights` is
lazily materialised by the *property* `grid.weights`, so a `to_dict` that read the property instead
of the attribute would change the object being written (`to_dict_bad_alters`).  The driver op
`todict-st` runs these very programs; the harness compares `_weights is None` before / after each
real `to_dict` and each real write with them. -/

/-- Frame lemma for grids: a `to_dict` preserves the grid as soon as its way of obtaining the
weights does. -/
theorem grid_to_dict_frame (getW : StateM Grid Tree) (h : ∀ g, (getW.run g).2 = g) (g : Grid) :
    ((Grid.toDictMWith getW).run g).2 = g := h g

/-- Frame lemma: whatever `to_dict` the grid has, if it preserves grids then `Field.to_dict` and
`ModeBasis.to_dict` preserve the field / the basis. -/
theorem field_to_dict_frame (gd : StateM Grid Tree) (hgd : ∀ g, (gd.run g).2 = g) (f : Field) :
    ((Field.toDictMWith gd).run f).2 = f := by
  obtain ⟨v, g⟩ := f
  have := hgd g
  simp only [StateT.run] at this
  show (⟨v, (gd g).2⟩ : Field) = ⟨v, g⟩
  rw [this]

theorem basis_to_dict_frame (gd : StateM Grid Tree) (hgd : ∀ g, (gd.run g).2 = g) (b : ModeBasis) :
    ((ModeBasis.toDictMWith gd).run b).2 = b := by
  obtain ⟨tm, og⟩ := b
  cases og with
  | none => rfl
  | some g =>
    have := hgd g
    simp only [StateT.run] at this
    show (⟨tm, some (gd g).2⟩ : ModeBasis) = ⟨tm, some g⟩
    rw [this]

/-- **Writing never alters the object** (dictionary form): grid, field and mode basis are, after
`to_dict`, what they were before, and the tree is the one the pure `toDict` describes. -/
theorem to_dict_preserves (g : Grid) (f : Field) (b : ModeBasis) :
    Grid.toDictM.run g = (g.toDict, g) ∧ Field.toDictM.run f = (f.toDict, f) ∧
    ModeBasis.toDictM.run b = (b.toDict, b) := by
  refine ⟨rfl, rfl, ?_⟩
  obtain ⟨tm, og⟩ := b
  cases og <;> rfl

/-- **Writing never alters the object** (files): `write_grid` (asdf / fits), `write_field(fits)` and
`write_mode_basis(fits)` leave the object as it was and write what the pure writers describe,
whether or not the write is refused. -/
theorem write_preserves (lib : AsdfLib) (g : Grid) (f : Field) (b : ModeBasis) :
    (writeGridM Grid.toDictM lib).run g = (writeGridFits lib g, g) ∧
    (writeFieldFitsM Grid.toDictM).run f = (writeFieldFits f, f) ∧
    (writeBasisFitsM Grid.toDictM).run b = (writeBasisFits b, b) := by
  refine ⟨rfl, rfl, ?_⟩
  obtain ⟨tm, og⟩ := b
  cases og <;> rfl

/-- The property `grid.weights` stores what it computes: afterwards `_weights` is not `None`. -/
theorem weights_property_materialises (auto : AutoWeights) (g : Grid) :
    (((Grid.weightsProperty auto).run g).2).weights.isNull = false := by
  rw [weightsProperty_run]
  by_cases hw : g.weights.isNull = true
  · rw [if_pos hw]
    by_cases ha : (auto g.coords).isNull = true
    · simp only [if_pos ha]; rfl
    · simp only [if_neg ha]; simpa using ha
  · rw [if_neg hw]; simpa using hw

/-- The model can express a violation: a `to_dict` that reads the property `weights` alters
**every** grid whose weights were not yet materialised (and no other), whatever the automatic
weights of its class are; the alteration propagates to a field on that grid. -/
theorem to_dict_bad_alters (auto : AutoWeights) (g : Grid) :
    (((Grid.toDictMBad auto).run g).2 ≠ g ↔ g.weights.isNull = true) ∧
    (g.weights.isNull = true → ∀ v, ((Field.toDictMWith (Grid.toDictMBad auto)).run ⟨v, g⟩).2 ≠ ⟨v, g⟩) := by
  have hstate : ((Grid.toDictMBad auto).run g).2 = ((Grid.weightsProperty auto).run g).2 := rfl
  have hmat := weights_property_materialises auto g
  constructor
  · constructor
    · intro hne
      by_contra hw
      apply hne
      rw [hstate, weightsProperty_run, if_neg hw]
    · intro hw heq
      rw [hstate] at heq
      rw [heq, hw] at hmat
      cases hmat
  · intro hw v heq
    have h2 : (((Field.toDictMWith (Grid.toDictMBad auto)).run ⟨v, g⟩).2).grid
        = ((Grid.toDictMBad auto).run g).2 := rfl
    rw [heq] at h2
    simp only at h2
    rw [hstate] at h2
    rw [← h2, hw] at hmat
    cases hmat
example : (⟨.cartesian, .regular [.float 1] [3] [.float 0], .null⟩ : Grid).weights.isNull = true := rfl

/-! ## the FITS paths -/

/-- **Fields through FITS.**  For every tensor shape `ts`, every grid kind and every grid shape:
whenever `write_field` can write the file, `read_field` returns the field that was written
(values, tensor shape, grid).  Separated grids travel as an image of shape `ts ++ grid.shape`,
the others inside the embedded tree. -/
theorem fits_field_roundtrip (f : Field) (ts : List Nat) (h : f.grid.Ok)
    (hnd : 0 < f.grid.coords.ndim)
    (hshape : f.values.shape = ts ++ [f.grid.coords.size]) (file : FitsFile)
    (hw : writeFieldFits f = .ok file) : readFieldFits file = .ok f := by
  obtain ⟨⟨dt, shape, data⟩, g⟩ := f
  simp only at hshape h hnd
  subst hshape
  unfold writeFieldFits at hw
  by_cases hsep : g.coords.isSeparated = true
  · have hsize := Coords.size_eq g.coords hsep
    have hlen := Coords.shape_length g.coords hsep
    have hprod : prod (ts ++ g.coords.shape) = prod (ts ++ [g.coords.size]) := by
      simp [prod_append, prod_singleton, hsize]
    simp only [hsep, if_true, Arr.reshape, List.dropLast_concat, hprod, bind, Except.bind] at hw
    split at hw
    · injection hw with hw
      subst hw
      have ht := pyDropLast_append ts g.coords.shape g.coords.ndim hlen hnd
      simp [readFieldFits, Field.toDict, Tree.erase, eraseKey, Tree.set, setKey, Tree.get, lookup,
        grid_dict_roundtrip g h, bind, Except.bind, Arr.reshape, ht, hprod, Field.fromDict, asArr]
    · cases hw
  · simp only [hsep] at hw
    injection hw with hw
    subst hw
    simpa [readFieldFits] using field_dict_roundtrip _ h

example : (⟨⟨"f8", [2, 4], [1, 2, 3, 4, 5, 6, 7, 8]⟩,
    ⟨.cartesian, .unstructured [⟨"f8", [4], [0, 1, 3, 4]⟩, ⟨"f8", [4], [0, 2, 5, 7]⟩], .null⟩⟩ : Field).values.shape
    = [2] ++ [(Coords.unstructured [⟨"f8", [4], [0, 1, 3, 4]⟩, ⟨"f8", [4], [0, 2, 5, 7]⟩]).size] := by decide

/-! Witnesses of the **image branch** (separated grids; the example above is the tree branch): a
vector field on a regular 3 × 2 grid and a (2, 1) tensor field on a separated polar grid satisfy
the hypotheses, are written as images of shape `tensor shape ++ grid.shape`, and come back equal. -/

def exGridReg2 : Grid := ⟨.cartesian, .regular [.float 1, .float 1] [3, 2] [.float 0, .float 0], .null⟩
def exGridSep : Grid := ⟨.polar, .separated [⟨"f8", [3], [0, 1, 3]⟩, ⟨"f8", [2], [0, 2]⟩], .arr ⟨"f8", [6], [1, 2, 3, 4, 5, 6]⟩⟩
def exFieldImage : Field := ⟨⟨"f8", [2, 6], [1, 2, 3, 4, 5, 6, 7, 8, 9, 10, 11, 12]⟩, exGridReg2⟩
def exTensorImage : Field := ⟨⟨"i4", [2, 1, 6], [1, 2, 3, 4, 5, 6, 7, 8, 9, 10, 11, 12]⟩, exGridSep⟩

example : exFieldImage.grid.Ok ∧ 0 < exFieldImage.grid.coords.ndim ∧
    exFieldImage.values.shape = [2] ++ [exFieldImage.grid.coords.size] := by
  refine ⟨⟨rfl, ?_⟩, by decide, by decide⟩
  simp [exFieldImage, exGridReg2, Coords.WellFormed, Homogeneous, PyNum.isInt]

example : exTensorImage.grid.Ok ∧ 0 < exTensorImage.grid.coords.ndim ∧
    exTensorImage.values.shape = [2, 1] ++ [exTensorImage.grid.coords.size] := by
  refine ⟨⟨rfl, ?_⟩, by decide, by decide⟩
  simp [exTensorImage, exGridSep, Coords.WellFormed]

example : (writeFieldFits exFieldImage).map (fun file => file.image.map (·.shape)) = .ok (some [2, 2, 3]) ∧
    ((writeFieldFits exFieldImage).bind readFieldFits).map (·.values) = .ok exFieldImage.values := by
  constructor <;> decide +kernel

example : (writeFieldFits exTensorImage).map (fun file => file.image.map (·.shape)) = .ok (some [2, 1, 2, 3]) ∧
    ((writeFieldFits exTensorImage).bind readFieldFits).map (·.values) = .ok exTensorImage.values := by
  constructor <;> decide +kernel

/-- `shape[:-grid.ndim]` is modelled literally (`pyDropLast`): for a zero-dimensional separated grid
it is `shape[:0] = ()`, and a scalar field on such a grid (the one case the real code writes) comes
back as written.  For `ndim = 0` and a non-empty tensor shape the real writer raises, the model's
does not: that is what `hnd` excludes. -/
example : ((writeFieldFits ⟨⟨"f8", [1], [5]⟩, ⟨.cartesian, .separated [], .null⟩⟩).bind readFieldFits).map
    (·.values) = .ok ⟨"f8", [1], [5]⟩ := by decide +kernel

/-- **Dense mode bases through FITS** (after the repair of D160).  For every tensor shape `ts`,
number of modes `m` and grid: whenever `write_mode_basis` can write the file, `read_mode_basis`
returns the basis that was written.  On separated grids the matrix travels as an image with axes
(mode, tensor…, grid…). -/
theorem fits_basis_dense_roundtrip (b : ModeBasis) (a : Arr) (g : Grid) (ts : List Nat) (m : Nat)
    (htm : b.tm = .dense a) (hg : b.grid = some g) (h : g.Ok) (hnd : 0 < g.coords.ndim)
    (hshape : a.shape = ts ++ [g.coords.size, m]) (hdata : a.data.length = prod a.shape)
    (file : FitsFile) (hw : writeBasisFits b = .ok file) : readBasisFits file = .ok b := by
  obtain ⟨tm, og⟩ := b
  obtain ⟨dt, shape, data⟩ := a
  simp only at htm hg hshape hdata
  subst htm hg hshape
  have hsh : ts ++ [g.coords.size, m] = (ts ++ [g.coords.size]) ++ [m] :=
    (List.append_assoc ts [g.coords.size] [m]).symm
  rw [hsh] at hdata
  have hlenD : data.length = prod (ts ++ [g.coords.size]) * m := by
    rw [hdata, prod_append, prod_singleton]
  unfold writeBasisFits at hw
  simp only [ModeBasis.toDict, ModeBasis.isSparse, bind, Except.bind] at hw
  by_cases hcond : (g.coords.size ≠ 0 && g.coords.isSeparated) = true
  · have hsep : g.coords.isSeparated = true := by
      simp only [Bool.and_eq_true] at hcond; exact hcond.2
    have hsize := Coords.size_eq g.coords hsep
    have hlen := Coords.shape_length g.coords hsep
    have hprod : prod (m :: (ts ++ g.coords.shape)) = prod (m :: (ts ++ [g.coords.size])) := by
      simp [prod, prod_append, hsize]
    simp only [hcond, if_true, ModeBasis.denseArr, hsh, List.getLastD_concat, List.dropLast_concat,
      Arr.moveLastToFront, Arr.reshape, hprod] at hw
    split at hw
    · cases hw
    · split at hw
      · injection hw with hw
        subst hw
        have ht := pyDropLast_append (m :: ts) g.coords.shape g.coords.ndim hlen hnd
        simp only [List.cons_append] at ht
        have hlenD' : data.length = prod ts * prod g.coords.shape * m := by
          rw [hlenD, prod_append, prod_singleton, hsize]
        simp [readBasisFits, Tree.erase, eraseKey, Tree.set, setKey, Tree.get, lookup,
          grid_dict_roundtrip g h, bind, Except.bind, Arr.reshape, ht, hprod, prod, prod_append,
          hsize, ModeBasis.fromDict, Arr.moveFirstToLast, Except.map, ModeBasis.toDense,
          transposeFlat_involutive _ _ _ hlenD']
      · cases hw
  · simp only [hcond] at hw
    injection hw with hw
    subst hw
    have := modebasis_dict_roundtrip ⟨.dense ⟨dt, ts ++ [g.coords.size, m], data⟩, some g⟩ g rfl h
    simpa [readBasisFits, ModeBasis.toDict, ModeBasis.isSparse, Except.bind] using this

/-- witness of the image branch for a dense tensor basis: hypotheses hold, the image has axes
(mode, tensor, grid) -/
example : (⟨.cartesian, .regular [.float 1] [2] [.float 0], .null⟩ : Grid).Ok ∧
    (writeBasisFits ⟨.dense ⟨"f8", [2, 2, 3], [1, 2, 3, 4, 5, 6, 7, 8, 9, 10, 11, 12]⟩,
      some ⟨.cartesian, .regular [.float 1] [2] [.float 0], .null⟩⟩).map
      (fun file => file.image.map (·.shape)) = .ok (some [3, 2, 2]) := by
  refine ⟨⟨rfl, ?_⟩, by decide +kernel⟩
  simp [Coords.WellFormed, Homogeneous, PyNum.isInt]

/-- Reading a sparse basis back from FITS gives either the very same CSC matrix (tree path) or
the re-sparsified dense image `csc_matrix(c.todense())` (image path, after the repair of D14). -/
theorem fits_basis_sparse_read (b : ModeBasis) (c : Csc) (g : Grid) (m : Nat)
    (htm : b.tm = .sparse c) (hg : b.grid = some g) (h : g.Ok) (hnd : 0 < g.coords.ndim)
    (hshape : c.shape = [g.coords.size, m])
    (file : FitsFile) (hw : writeBasisFits b = .ok file) :
    readBasisFits file = .ok b ∨
    readBasisFits file = .ok ⟨.sparse (denseToCsc (cscToDense c)), some g⟩ := by
  obtain ⟨tm, og⟩ := b
  simp only at htm hg
  subst htm hg
  obtain ⟨hAs, hAd⟩ := cscToDense_shape c _ _ hshape
  unfold writeBasisFits at hw
  simp only [ModeBasis.toDict, ModeBasis.isSparse, bind, Except.bind] at hw
  by_cases hcond : (g.coords.size ≠ 0 && g.coords.isSeparated) = true
  · right
    have hsep : g.coords.isSeparated = true := by
      simp only [Bool.and_eq_true] at hcond; exact hcond.2
    have hsize := Coords.size_eq g.coords hsep
    have hlen := Coords.shape_length g.coords hsep
    simp only [hcond, if_true, ModeBasis.denseArr] at hw
    generalize cscToDense c = a at hw hAs hAd ⊢
    obtain ⟨dt, shape, data⟩ := a
    simp only at hAs hAd
    subst hAs
    have hprod : prod (m :: g.coords.shape) = prod [m, g.coords.size] := by
      simp [prod, hsize]
    have e1 : [g.coords.size, m].getLastD 1 = m := rfl
    have e2 : ∀ x y : Nat, [x, y].dropLast = [x] := fun _ _ => rfl
    have e3 : ∀ x : Nat, prod [x] = x := fun x => by simp [prod]
    have e4 : ∀ x : Nat, [x].dropLast = [] := fun _ => rfl
    simp only [Arr.moveLastToFront, e1, e2, e3, e4, List.nil_append, Arr.reshape, hprod, ↓reduceIte,
      ite_true] at hw
    split at hw
    · cases hw
    · split at hw
      · injection hw with hw
        subst hw
        have ht := pyDropLast_append [m] g.coords.shape g.coords.ndim hlen hnd
        simp only [List.cons_append, List.nil_append] at ht
        have hlenD' : data.length = prod g.coords.shape * m := by rw [hAd, hsize]
        simp [readBasisFits, Tree.erase, eraseKey, Tree.set, setKey, Tree.get, lookup,
          grid_dict_roundtrip g h, bind, Except.bind, Arr.reshape, ht, hprod, prod, prod_append,
          hsize, ModeBasis.fromDict, Arr.moveFirstToLast, Except.map, ModeBasis.toSparse,
          transposeFlat_involutive _ _ _ hlenD']
      · cases hw
  · left
    simp only [hcond] at hw
    injection hw with hw
    subst hw
    have := modebasis_dict_roundtrip ⟨.sparse c, some g⟩ g rfl h
    simpa [readBasisFits, ModeBasis.toDict, ModeBasis.isSparse, Except.bind] using this

/-- `to_sparse()` followed by `to_dense()` returns the matrix it started from, for every `n × m`
matrix (explicit zeros are dropped from the CSC structure, never values). -/
theorem csc_dense_roundtrip (dt : String) (n m : Nat) (d : List Rat) (hd : d.length = n * m) :
    cscToDense (denseToCsc ⟨dt, [n, m], d⟩) = ⟨dt, [n, m], d⟩ :=
  cscToDense_denseToCsc dt n m d hd

example : ([1, 0, 3, 4, 5, 0] : List Rat).length = 2 * 3 := by decide

/-- **Sparse mode bases through FITS** (after the repair of D14).  Whenever the file can be written
it can be read, and the basis read is sparse, on the same grid, with the same matrix values
(`todense()` equal; on the image path explicit zeros, duplicates and index order of the CSC
structure are normalised by SciPy, which the property allows). -/
theorem fits_basis_sparse_roundtrip (b : ModeBasis) (c : Csc) (g : Grid) (m : Nat)
    (htm : b.tm = .sparse c) (hg : b.grid = some g) (h : g.Ok) (hnd : 0 < g.coords.ndim)
    (hshape : c.shape = [g.coords.size, m])
    (file : FitsFile) (hw : writeBasisFits b = .ok file) :
    ∃ b', readBasisFits file = .ok b' ∧ b'.isSparse = true ∧ b'.grid = b.grid ∧
      b'.denseArr = b.denseArr := by
  rcases fits_basis_sparse_read b c g m htm hg h hnd hshape file hw with hr | hr
  · exact ⟨b, hr, by simp [ModeBasis.isSparse, htm], rfl, rfl⟩
  · refine ⟨_, hr, rfl, hg.symm, ?_⟩
    obtain ⟨hs, hl⟩ := cscToDense_shape c _ _ hshape
    have heta : cscToDense c = ⟨(cscToDense c).dtype, [g.coords.size, m], (cscToDense c).data⟩ := by
      rw [← hs]
    simp only [ModeBasis.denseArr, htm]
    rw [heta, cscToDense_denseToCsc _ _ _ _ hl]

/-! ## which objects can be written to FITS (the guard "whenever it can be written" made explicit) -/

/-- **Which fields `write_field` can write to FITS**: every field on a grid that is not separated
(the values travel in the tree), and on a separated grid exactly the dtypes astropy takes for an
image HDU (`fitsDtypeOk`; `bool`, `complex`, `float16` are refused with `KeyError`).  The write status
`w=` of every real `write_field(…fits / fits.gz)` is compared with `writeFieldFits`. -/
theorem fits_field_writable_iff (f : Field) (ts : List Nat)
    (hshape : f.values.shape = ts ++ [f.grid.coords.size]) :
    ((writeFieldFits f).toBool = true ↔
      (f.grid.coords.isSeparated = false ∨ fitsDtypeOk f.values.dtype = true)) ∧
    ((writeFieldFits f).toBool = false → writeFieldFits f = .error .key) := by
  obtain ⟨⟨dt, shape, data⟩, g⟩ := f
  simp only at hshape
  subst hshape
  unfold writeFieldFits
  by_cases hsep : g.coords.isSeparated = true
  · have hsize := Coords.size_eq g.coords hsep
    have hprod : prod (ts ++ g.coords.shape) = prod (ts ++ [g.coords.size]) := by
      simp [prod_append, prod_singleton, hsize]
    by_cases hd : fitsDtypeOk dt = true <;>
      simp [hsep, Arr.reshape, List.dropLast_concat, hprod, bind, Except.bind, hd, Except.toBool]
  · simp [hsep, Except.toBool]

example : (writeFieldFits ⟨⟨"c16", [6], [1, 2, 3, 4, 5, 6]⟩, exGridReg2⟩).map (fun _ => ()) = .error .key ∧
    (writeFieldFits ⟨⟨"c16", [4], [1, 2, 3, 4]⟩,
      ⟨.cartesian, .unstructured [⟨"f8", [4], [0, 1, 3, 4]⟩], .null⟩⟩).toBool = true := by
  constructor <;> decide +kernel

/-- **Fields through FITS, without the hypothesis "could be written"**: for every field whose
dtype is accepted (or whose grid is not separated) the file is written *and* read back equal. -/
theorem fits_field_roundtrip_total (f : Field) (ts : List Nat) (h : f.grid.Ok)
    (hnd : 0 < f.grid.coords.ndim) (hshape : f.values.shape = ts ++ [f.grid.coords.size])
    (hd : f.grid.coords.isSeparated = false ∨ fitsDtypeOk f.values.dtype = true) :
    (writeFieldFits f).bind readFieldFits = .ok f := by
  have hw := ((fits_field_writable_iff f ts hshape).1).2 hd
  cases hfile : writeFieldFits f with
  | error e => rw [hfile] at hw; cases hw
  | ok file => exact fits_field_roundtrip f ts h hnd hshape file hfile

/-- **Which mode bases `write_mode_basis` can write to FITS** (dense or sparse; `b.denseArr` is the
matrix itself or `todense()` of the CSC matrix): every basis on a grid that is empty or not
separated; on a separated grid the dtype must be one astropy accepts (else `KeyError`) and the grid
regular (else `ValueError`: a separated grid has no `delta` for the WCS header). -/
theorem fits_basis_writable_iff (b : ModeBasis) (g : Grid) (ts : List Nat) (m : Nat)
    (hg : b.grid = some g) (hshape : b.denseArr.shape = ts ++ [g.coords.size, m]) :
    ((writeBasisFits b).toBool = true ↔
      (g.coords.size = 0 ∨ g.coords.isSeparated = false ∨
        (fitsDtypeOk b.denseArr.dtype = true ∧ g.coords.isRegular = true))) ∧
    ((writeBasisFits b).toBool = false →
      writeBasisFits b = .error (if fitsDtypeOk b.denseArr.dtype then .value else .key)) := by
  obtain ⟨tm, og⟩ := b
  simp only at hg
  subst hg
  generalize hA : (ModeBasis.denseArr ⟨tm, some g⟩) = A at hshape
  obtain ⟨dt, shape, data⟩ := A
  simp only at hshape
  subst hshape
  have hsh : ts ++ [g.coords.size, m] = (ts ++ [g.coords.size]) ++ [m] :=
    (List.append_assoc ts [g.coords.size] [m]).symm
  unfold writeBasisFits
  simp only [ModeBasis.toDict, bind, Except.bind, hA]
  by_cases hz : g.coords.size = 0
  · simp [hz, Except.toBool]
  by_cases hsep : g.coords.isSeparated = true
  · have hsize := Coords.size_eq g.coords hsep
    have hprod : prod (m :: (ts ++ g.coords.shape)) = prod (m :: (ts ++ [g.coords.size])) := by
      simp [prod, prod_append, hsize]
    have hz' : (g.coords.size ≠ 0 && g.coords.isSeparated) = true := by simp [hz, hsep]
    simp only [hz', if_true, hsh, List.getLastD_concat, List.dropLast_concat, Arr.moveLastToFront,
      Arr.reshape, hprod]
    by_cases hd : fitsDtypeOk dt = true <;> by_cases hr : g.coords.isRegular = true <;>
      simp [hz, hsep, hd, hr, Except.toBool]
  · simp [hz, hsep, Except.toBool]

/-- **Dense mode bases through FITS, without the hypothesis "could be written".** -/
theorem fits_basis_dense_roundtrip_total (b : ModeBasis) (a : Arr) (g : Grid) (ts : List Nat) (m : Nat)
    (htm : b.tm = .dense a) (hg : b.grid = some g) (h : g.Ok) (hnd : 0 < g.coords.ndim)
    (hshape : a.shape = ts ++ [g.coords.size, m]) (hdata : a.data.length = prod a.shape)
    (hwr : g.coords.size = 0 ∨ g.coords.isSeparated = false ∨
      (fitsDtypeOk a.dtype = true ∧ g.coords.isRegular = true)) :
    (writeBasisFits b).bind readBasisFits = .ok b := by
  have hda : b.denseArr = a := by simp [ModeBasis.denseArr, htm]
  have hw := ((fits_basis_writable_iff b g ts m hg (hda ▸ hshape)).1).2 (hda ▸ hwr)
  cases hfile : writeBasisFits b with
  | error e => rw [hfile] at hw; cases hw
  | ok file => exact fits_basis_dense_roundtrip b a g ts m htm hg h hnd hshape hdata file hfile

/-- **Sparse mode bases through FITS, without the hypothesis "could be written".** -/
theorem fits_basis_sparse_roundtrip_total (b : ModeBasis) (c : Csc) (g : Grid) (m : Nat)
    (htm : b.tm = .sparse c) (hg : b.grid = some g) (h : g.Ok) (hnd : 0 < g.coords.ndim)
    (hshape : c.shape = [g.coords.size, m])
    (hwr : g.coords.size = 0 ∨ g.coords.isSeparated = false ∨
      (fitsDtypeOk c.data.dtype = true ∧ g.coords.isRegular = true)) :
    ∃ b', (writeBasisFits b).bind readBasisFits = .ok b' ∧ b'.isSparse = true ∧ b'.grid = b.grid ∧
      b'.denseArr = b.denseArr := by
  have hda : b.denseArr = cscToDense c := by simp [ModeBasis.denseArr, htm]
  have hsh : b.denseArr.shape = [] ++ [g.coords.size, m] := by
    rw [hda]; exact (cscToDense_shape c _ _ hshape).1
  have hdt : b.denseArr.dtype = c.data.dtype := by rw [hda]; rfl
  have hw := ((fits_basis_writable_iff b g [] m hg hsh).1).2 (hdt ▸ hwr)
  cases hfile : writeBasisFits b with
  | error e => rw [hfile] at hw; cases hw
  | ok file => exact fits_basis_sparse_roundtrip b c g m htm hg h hnd hshape file hfile

/-! ## grid files and the ASDF layer

`lib : AsdfLib` is the ASDF library, `AsdfFaithful lib` the named assumption about it (trees come
back as stored, NumPy-scalar weights as Python numbers: `Grid.pyWeights`).  The harness monitors the
assumption on every asdf file and every grid FITS file it writes (driver op `file`). -/

/-- the library behaviour observed on real files satisfies the hypothesis -/
theorem asdfFaithful_observed : AsdfFaithful AsdfLib.observed := by
  refine ⟨?_, ?_, ?_⟩
  · intro g
    obtain ⟨s, c, w⟩ := g
    have : AsdfLib.observed.load (Grid.toDict ⟨s, c, w⟩) = normGridTree (Grid.toDict ⟨s, c, w⟩) := by
      simp [AsdfLib.observed, asdfLoad, Grid.toDict, Tree.get, lookup]
    rw [this]
  · intro f
    obtain ⟨v, g⟩ := f
    have : AsdfLib.observed.load (Field.toDict ⟨v, g⟩) = normObjTree (Field.toDict ⟨v, g⟩) := by
      simp [AsdfLib.observed, asdfLoad, Field.toDict, Tree.get, lookup]
    rw [this]
  · intro b t ht
    obtain ⟨tm, og⟩ := b
    cases og with
    | none => simp [ModeBasis.toDict] at ht
    | some g =>
      simp only [ModeBasis.toDict] at ht
      injection ht with ht
      subst ht
      have : ∀ x y z, AsdfLib.observed.load (.dict [(.grid, x), (.tm, y), (.isSparse, z)])
          = normObjTree (.dict [(.grid, x), (.tm, y), (.isSparse, z)]) := by
        intro x y z
        simp [AsdfLib.observed, asdfLoad, Tree.get, lookup]
      rw [this]

/-- **Grids through asdf files**: reading back what was written yields the grid (system,
coordinates, weights; NumPy-scalar weights as the Python number of the same value). -/
theorem asdf_grid_roundtrip (lib : AsdfLib) (hl : AsdfFaithful lib) (g : Grid) (h : g.Ok) :
    (writeGridAsdf lib g).bind readGridAsdf = .ok g.pyWeights := by
  simp [writeGridAsdf, readGridAsdf, Except.bind, hl.grid, normGridTree_toDict,
    grid_dict_roundtrip _ (show g.pyWeights.Ok from h)]

/-- **Grids through FITS files** (no image; the tree travels in the embedded ASDF table). -/
theorem fits_grid_roundtrip (lib : AsdfLib) (hl : AsdfFaithful lib) (g : Grid) (h : g.Ok) :
    (writeGridFits lib g).bind readGridFits = .ok g.pyWeights := by
  simp [writeGridFits, readGridFits, Except.bind, hl.grid, normGridTree_toDict,
    grid_dict_roundtrip _ (show g.pyWeights.Ok from h)]

example : (⟨.polar, .separated [⟨"f8", [2], [0, 1]⟩, ⟨"f8", [3], [0, 1, 3]⟩], .arr ⟨"f8", [], [2]⟩⟩ : Grid).Ok := by
  simp [Grid.Ok, knownSystem, Coords.WellFormed]

/-- a grid whose weights are not a NumPy scalar is untouched by the ASDF layer, so the two
theorems above return the very grid that was written -/
theorem pyWeights_eq_self (g : Grid) (h : g.weights.isNpScalar = false) : g.pyWeights = g := by
  obtain ⟨s, c, w⟩ := g
  simp only [Grid.pyWeights]
  congr
  unfold pyScalar
  split
  · simp [Tree.isNpScalar] at h
  · rfl

example : (Tree.null).isNpScalar = false ∧ (Tree.arr ⟨"f8", [3], [1, 2, 3]⟩).isNpScalar = false ∧
    (Tree.num (.float 2)).isNpScalar = false := ⟨rfl, rfl, rfl⟩

/-- **The property-shaped statement for grids, with its exception visible**: a grid file (asdf or
FITS) can always be written, and the file that was written can be read back *iff* the grid's
coordinate system is registered in `Grid._coordinate_systems`.  After the repair of D161 that is
`CartesianGrid`, `PolarGrid` and the base `Grid`; the remaining exception is a user subclass that
never registered itself (harness kind `unregistered`, stated in `ctx.assumptions`). -/
theorem grid_file_readable_iff (lib : AsdfLib) (hl : AsdfFaithful lib) (g : Grid)
    (hc : g.coords.WellFormed) :
    (∀ file, writeGridAsdf lib g = .ok file →
      ((readGridAsdf file).toBool = true ↔ knownSystem g.system = true)) ∧
    (∀ file, writeGridFits lib g = .ok file →
      ((readGridFits file).toBool = true ↔ knownSystem g.system = true)) := by
  have key : (Grid.fromDict (lib.load g.toDict)).toBool = true ↔ knownSystem g.system = true := by
    rw [hl.grid, normGridTree_toDict]
    exact grid_dict_readable_iff g.pyWeights hc
  constructor
  · intro file hw
    simp only [writeGridAsdf] at hw
    injection hw with hw
    subst hw
    exact key
  · intro file hw
    simp only [writeGridFits] at hw
    injection hw with hw
    subst hw
    exact key

example : knownSystem Tag.other = false ∧ knownSystem Tag.noneSys = true := ⟨rfl, rfl⟩

/-- **Fields through asdf files.** -/
theorem asdf_field_roundtrip (lib : AsdfLib) (hl : AsdfFaithful lib) (f : Field) (h : f.grid.Ok) :
    (writeFieldAsdf lib f).bind readFieldAsdf = .ok { f with grid := f.grid.pyWeights } := by
  simp only [writeFieldAsdf, readFieldAsdf, Except.bind, hl.field, normObjTree_field]
  exact field_dict_roundtrip _ (show f.grid.pyWeights.Ok from h)

/-- **Mode bases through asdf files** (dense stays dense, CSC stays CSC with the same arrays). -/
theorem asdf_basis_roundtrip (lib : AsdfLib) (hl : AsdfFaithful lib) (b : ModeBasis) (g : Grid)
    (hg : b.grid = some g) (h : g.Ok) :
    (writeBasisAsdf lib b).bind readBasisAsdf = .ok { b with grid := some g.pyWeights } := by
  have hd : ∃ t, b.toDict = .ok t := by
    obtain ⟨tm, og⟩ := b
    simp only at hg
    subst hg
    exact ⟨_, rfl⟩
  obtain ⟨t, ht⟩ := hd
  have hn := normObjTree_basis b g hg t ht
  have hr := modebasis_dict_roundtrip ({ b with grid := some g.pyWeights } : ModeBasis) g.pyWeights rfl
    (show g.pyWeights.Ok from h)
  rw [← hn] at hr
  simp only [writeBasisAsdf, readBasisAsdf, ht, bind, Except.bind, hl.basis b t ht] at hr ⊢
  exact hr

example : AsdfFaithful AsdfLib.observed := asdfFaithful_observed

/-- Grid files (asdf, FITS) and asdf files of fields are always written; an asdf file of a mode basis
exactly when the basis has a grid (else `to_dict` raises `AttributeError`,
`modebasis_without_grid_has_no_dict`).  The harness reports any refused asdf write of an object that
has a dictionary form. -/
theorem asdf_writable_iff (lib : AsdfLib) (g : Grid) (f : Field) (b : ModeBasis) :
    (writeGridAsdf lib g).toBool = true ∧ (writeGridFits lib g).toBool = true ∧
    (writeFieldAsdf lib f).toBool = true ∧
    ((writeBasisAsdf lib b).toBool = true ↔ b.grid.isSome = true) := by
  refine ⟨rfl, rfl, rfl, ?_⟩
  obtain ⟨tm, og⟩ := b
  cases og <;> simp [writeBasisAsdf, ModeBasis.toDict, bind, Except.bind, Except.toBool]

/-! ## file names and formats: `read_*` / `write_*` as a whole

`Model/Serial.lean`, "file names, formats and the dispatch": `resolveName` (`fmt is None` → guess from
the name, `ValueError`), `to_dict()` before the dispatch, `dispatch` (`NotImplementedError`), then the
format's writer / reader.  The driver op `filert` runs `write…File` / `read…File`; the harness
compares write status, the format found in the file written (magic bytes), read status and the
object read with the real functions on generated `(filename, fmt)` pairs. -/

/-- `_guess_file_format`: whatever precedes the dot, the five documented extensions select the
three formats (`.fits.gz` is FITS: it does not end in `fits`, the second test is needed; `.pickle`
does not end in `pkl`).  The driver op `guess` runs `guessFormat`; the harness compares it with the
real `_guess_file_format` on generated names. -/
theorem guess_extensions (stem : List Char) :
    guessFormat (stem ++ '.' :: sAsdf) = some .asdf ∧
    guessFormat (stem ++ '.' :: sFits) = some .fits ∧
    guessFormat (stem ++ '.' :: sFitsGz) = some .fits ∧
    guessFormat (stem ++ '.' :: sPkl) = some .pickle ∧
    guessFormat (stem ++ '.' :: sPickle) = some .pickle := by
  have y := fun ext suf h => endsWith_append stem ext suf h
  have n := fun ext suf h h' => not_endsWith_append stem ext suf h h'
  refine ⟨?_, ?_, ?_, ?_, ?_⟩
  · simp only [guessFormat, y ('.' :: sAsdf) sAsdf (by decide), if_true]
  · simp only [guessFormat, y ('.' :: sFits) sFits (by decide),
      n ('.' :: sFits) sAsdf (by decide) (by decide), Bool.true_or, if_true]
    simp
  · simp only [guessFormat, y ('.' :: sFitsGz) sFitsGz (by decide),
      n ('.' :: sFitsGz) sAsdf (by decide) (by decide), Bool.or_true, if_true]
    simp
  · simp only [guessFormat, y ('.' :: sPkl) sPkl (by decide),
      n ('.' :: sPkl) sAsdf (by decide) (by decide), n ('.' :: sPkl) sFits (by decide) (by decide),
      n ('.' :: sPkl) sFitsGz (by decide) (by decide), Bool.true_or, if_true]
    simp
  · simp only [guessFormat, y ('.' :: sPickle) sPickle (by decide),
      n ('.' :: sPickle) sAsdf (by decide) (by decide), n ('.' :: sPickle) sFits (by decide) (by decide),
      n ('.' :: sPickle) sFitsGz (by decide) (by decide), Bool.or_true, if_true]
    simp

example : guessFormat "x.fits.gz".toList = some .fits ∧ guessFormat "myasdf".toList = some .asdf ∧
    guessFormat "x.fit".toList = none ∧ formatOf "x.dat".toList (some "pickle") = .ok .pickle ∧
    formatOf "x.asdf".toList (some "FITS") = .error .notImpl ∧ formatOf "x.dat".toList none = .error .value := by
  decide +kernel

/-- **`write_grid(g, filename, fmt)` then `read_grid(filename, fmt)`**, the functions the property
names, for every file name and every `fmt` argument: the write succeeds exactly when a format is
found (given, or guessed from the name), and then reading the same `(filename, fmt)` returns the
grid (through pickle as it is, through asdf / FITS with NumPy-scalar weights as Python numbers). -/
theorem grid_file_roundtrip (lib : AsdfLib) (hl : AsdfFaithful lib) (name : List Char)
    (fmt : Option String) (g : Grid) (h : g.Ok) :
    ((writeGridFile lib name fmt g).toBool = true ↔ (formatOf name fmt).toBool = true) ∧
    ∀ c, writeGridFile lib name fmt g = .ok c →
      ∃ f, formatOf name fmt = .ok f ∧
        readGridFile name fmt c = .ok (if f = .pickle then g else g.pyWeights) := by
  unfold writeGridFile readGridFile formatOf
  cases hr : resolveName name fmt with
  | error e => simp [bind, Except.bind, Except.toBool]
  | ok s =>
    cases hd : dispatch s with
    | error e => simp [bind, Except.bind, Except.toBool, hd]
    | ok f =>
      have ha := asdf_grid_roundtrip lib hl g h
      have hf := fits_grid_roundtrip lib hl g h
      simp only [writeGridAsdf, writeGridFits, Except.bind] at ha hf
      cases f <;>
        simp [bind, Except.bind, Except.toBool, hd, Except.map, writeGridAsdf, writeGridFits, ha, hf]

/-- **`write_field` then `read_field`** for every file name, `fmt` argument, tensor shape, grid kind
and memory layout `l` of the data (pickle stores `__getstate__()`): which writes succeed, and that
every file written reads back as the field. -/
theorem field_file_roundtrip (lib : AsdfLib) (hl : AsdfFaithful lib) (l : Layout) (name : List Char)
    (fmt : Option String) (f : Field) (ts : List Nat) (h : f.grid.Ok)
    (hnd : 0 < f.grid.coords.ndim) (hshape : f.values.shape = ts ++ [f.grid.coords.size])
    (hdata : f.values.data.length = prod f.values.shape) :
    ((writeFieldFile lib l name fmt f).toBool = true ↔
      ∃ k, formatOf name fmt = .ok k ∧
        (k = .fits → f.grid.coords.isSeparated = false ∨ fitsDtypeOk f.values.dtype = true)) ∧
    ∀ c, writeFieldFile lib l name fmt f = .ok c →
      ∃ k, formatOf name fmt = .ok k ∧
        readFieldFile name fmt c =
          .ok (if k = .asdf then { f with grid := f.grid.pyWeights } else f) := by
  unfold writeFieldFile readFieldFile formatOf
  cases hr : resolveName name fmt with
  | error e => simp [bind, Except.bind, Except.toBool]
  | ok s =>
    cases hd : dispatch s with
    | error e => simp [bind, Except.bind, Except.toBool, hd]
    | ok k =>
      cases k with
      | asdf =>
        have ha := asdf_field_roundtrip lib hl f h
        simp only [writeFieldAsdf, Except.bind] at ha
        simp [bind, Except.bind, Except.toBool, hd, Except.map, writeFieldAsdf, ha]
      | pickle =>
        simp [bind, Except.bind, Except.toBool, hd, Except.map, field_pickle_roundtrip f l hdata]
      | fits =>
        have hwi := (fits_field_writable_iff f ts hshape).1
        cases hw : writeFieldFits f with
        | error e =>
          rw [hw] at hwi
          simp only [Except.toBool] at hwi
          simp [bind, Except.bind, Except.toBool, hd, Except.map, hw]
          constructor
          · cases hs : f.grid.coords.isSeparated with
            | true => rfl
            | false => exact absurd (hwi.2 (Or.inl hs)) (by simp)
          · cases hs : fitsDtypeOk f.values.dtype with
            | false => rfl
            | true => exact absurd (hwi.2 (Or.inr hs)) (by simp)
        | ok file =>
          rw [hw] at hwi
          have hrt := fits_field_roundtrip f ts h hnd hshape file hw
          have := hwi.1 rfl
          simp [bind, Except.bind, Except.toBool, hd, Except.map, hw, hrt]
          rcases this with h1 | h1 <;> simp [h1]

/-- **`write_mode_basis` then `read_mode_basis`, dense bases**, for every file name and `fmt`. -/
theorem basis_file_roundtrip_dense (lib : AsdfLib) (hl : AsdfFaithful lib) (name : List Char)
    (fmt : Option String) (b : ModeBasis) (a : Arr) (g : Grid) (ts : List Nat) (m : Nat)
    (htm : b.tm = .dense a) (hg : b.grid = some g) (h : g.Ok) (hnd : 0 < g.coords.ndim)
    (hshape : a.shape = ts ++ [g.coords.size, m]) (hdata : a.data.length = prod a.shape) :
    ∀ c, writeBasisFile lib name fmt b = .ok c →
      ∃ k, formatOf name fmt = .ok k ∧
        readBasisFile name fmt c =
          .ok (if k = .asdf then { b with grid := some g.pyWeights } else b) := by
  unfold writeBasisFile readBasisFile formatOf
  have htd : ∃ t, b.toDict = .ok t := by
    obtain ⟨tm, og⟩ := b
    simp only at hg
    subst hg
    exact ⟨_, rfl⟩
  obtain ⟨t, ht⟩ := htd
  cases hr : resolveName name fmt with
  | error e => simp [bind, Except.bind]
  | ok s =>
    cases hd : dispatch s with
    | error e => simp [bind, Except.bind, hd, ht]
    | ok k =>
      cases k with
      | asdf =>
        have ha := asdf_basis_roundtrip lib hl b g hg h
        cases hw : writeBasisAsdf lib b with
        | error e => simp [bind, Except.bind, hd, ht, Except.map, hw]
        | ok file =>
          rw [hw] at ha
          simp only [Except.bind] at ha
          simp [bind, Except.bind, hd, ht, Except.map, hw, ha]
      | pickle => simp [bind, Except.bind, hd, ht, Except.map]
      | fits =>
        cases hw : writeBasisFits b with
        | error e => simp [bind, Except.bind, hd, ht, Except.map, hw]
        | ok file =>
          have hrt := fits_basis_dense_roundtrip b a g ts m htm hg h hnd hshape hdata file hw
          simp [bind, Except.bind, hd, ht, Except.map, hw, hrt]

/-- `to_dict()` comes before the dispatch: a basis without grid is refused with `AttributeError`
whatever the format — pickle and formats that do not exist included. -/
theorem basis_without_grid_not_writable (lib : AsdfLib) (name : List Char) (fmt : Option String)
    (b : ModeBasis) (hg : b.grid = none) (s : String) (hr : resolveName name fmt = .ok s) :
    writeBasisFile lib name fmt b = .error .attr := by
  simp [writeBasisFile, hr, bind, Except.bind, modebasis_without_grid_has_no_dict b hg]

/-- **`write_mode_basis` then `read_mode_basis`, sparse bases**: the basis read is sparse, on the
same grid, with the same matrix (`todense()`), in every format. -/
theorem basis_file_roundtrip_sparse (lib : AsdfLib) (hl : AsdfFaithful lib) (name : List Char)
    (fmt : Option String) (b : ModeBasis) (c : Csc) (g : Grid) (m : Nat)
    (htm : b.tm = .sparse c) (hg : b.grid = some g) (h : g.Ok) (hnd : 0 < g.coords.ndim)
    (hshape : c.shape = [g.coords.size, m]) :
    ∀ st, writeBasisFile lib name fmt b = .ok st →
      ∃ k b', formatOf name fmt = .ok k ∧ readBasisFile name fmt st = .ok b' ∧
        b'.isSparse = true ∧ b'.denseArr = b.denseArr ∧
        b'.grid = (if k = .asdf then some g.pyWeights else some g) := by
  unfold writeBasisFile readBasisFile formatOf
  have hsp : b.isSparse = true := by simp [ModeBasis.isSparse, htm]
  have htd : ∃ t, b.toDict = .ok t := by
    obtain ⟨tm, og⟩ := b
    simp only at hg
    subst hg
    exact ⟨_, rfl⟩
  obtain ⟨t, ht⟩ := htd
  cases hr : resolveName name fmt with
  | error e => simp [bind, Except.bind]
  | ok s =>
    cases hd : dispatch s with
    | error e => simp [bind, Except.bind, hd, ht]
    | ok k =>
      cases k with
      | asdf =>
        have ha := asdf_basis_roundtrip lib hl b g hg h
        cases hw : writeBasisAsdf lib b with
        | error e => simp [bind, Except.bind, hd, ht, Except.map, hw]
        | ok file =>
          rw [hw] at ha
          simp only [Except.bind] at ha
          simp [bind, Except.bind, hd, ht, Except.map, hw, ha]
          exact ⟨by simpa [ModeBasis.isSparse] using hsp, by simp [ModeBasis.denseArr]⟩
      | pickle => simp [bind, Except.bind, hd, ht, Except.map, hsp, hg]
      | fits =>
        cases hw : writeBasisFits b with
        | error e => simp [bind, Except.bind, hd, ht, Except.map, hw]
        | ok file =>
          obtain ⟨b', h1, h2, h3, h4⟩ := fits_basis_sparse_roundtrip b c g m htm hg h hnd hshape file hw
          simp [bind, Except.bind, hd, ht, Except.map, hw, h1, h2, h3, h4, hg]

/-- **The format read is the format written, for every accepted file name**: whatever the writer
produced for `(filename, fmt)` is a file of exactly the format that `formatOf filename fmt` resolves
to — which is the format the reader called with the same `(filename, fmt)` dispatches on.  With
`fmt=None` the names accepted are those `_guess_file_format` knows (`guess_extensions`), an explicit
`fmt` overrides the name altogether. -/
theorem file_format_is_resolved_format (lib : AsdfLib) (name : List Char) (fmt : Option String) :
    (∀ g st, writeGridFile lib name fmt g = .ok st → formatOf name fmt = .ok st.fmt) ∧
    (∀ l f st, writeFieldFile lib l name fmt f = .ok st → formatOf name fmt = .ok st.fmt) ∧
    (∀ b st, writeBasisFile lib name fmt b = .ok st → formatOf name fmt = .ok st.fmt) ∧
    ((formatOf name none).toBool = true ↔ (guessFormat name).isSome = true) ∧
    (∀ s, formatOf name (some s) = dispatch s) := by
  refine ⟨?_, ?_, ?_, ?_, ?_⟩
  · intro g st hw
    unfold writeGridFile at hw
    unfold formatOf
    cases hr : resolveName name fmt with
    | error e => simp [hr, bind, Except.bind] at hw
    | ok s =>
      cases hd : dispatch s with
      | error e => simp [hr, hd, bind, Except.bind] at hw
      | ok k =>
        cases k <;> simp [hr, hd, bind, Except.bind, Except.map, writeGridAsdf, writeGridFits] at hw <;>
          subst hw <;> simp [Except.bind, hd, Stored.fmt]
  · intro l f st hw
    unfold writeFieldFile at hw
    unfold formatOf
    cases hr : resolveName name fmt with
    | error e => simp [hr, bind, Except.bind] at hw
    | ok s =>
      cases hd : dispatch s with
      | error e => simp [hr, hd, bind, Except.bind] at hw
      | ok k =>
        cases k <;> simp only [hr, hd, bind, Except.bind, Except.map] at hw
        · cases hx : writeFieldAsdf lib f with
          | error e => simp [hx] at hw
          | ok file => simp [hx] at hw; subst hw; simp [Except.bind, hd, Stored.fmt]
        · cases hx : writeFieldFits f with
          | error e => simp [hx] at hw
          | ok file => simp [hx] at hw; subst hw; simp [Except.bind, hd, Stored.fmt]
        · injection hw with hw; subst hw; simp [Except.bind, hd, Stored.fmt]
  · intro b st hw
    unfold writeBasisFile at hw
    unfold formatOf
    cases hr : resolveName name fmt with
    | error e => simp [hr, bind, Except.bind] at hw
    | ok s =>
      cases ht : b.toDict with
      | error e => simp [hr, ht, bind, Except.bind] at hw
      | ok t =>
        cases hd : dispatch s with
        | error e => simp [hr, ht, hd, bind, Except.bind] at hw
        | ok k =>
          cases k <;> simp only [hr, ht, hd, bind, Except.bind, Except.map] at hw
          · cases hx : writeBasisAsdf lib b with
            | error e => simp [hx] at hw
            | ok file => simp [hx] at hw; subst hw; simp [Except.bind, hd, Stored.fmt]
          · cases hx : writeBasisFits b with
            | error e => simp [hx] at hw
            | ok file => simp [hx] at hw; subst hw; simp [Except.bind, hd, Stored.fmt]
          · injection hw with hw; subst hw; simp [Except.bind, hd, Stored.fmt]
  · unfold formatOf resolveName
    cases hg : guessFormat name with
    | none => simp [Except.bind, Except.toBool]
    | some k => cases k <;> simp [Except.bind, Except.toBool, dispatch, Fmt.name, Fmt.ofName?]
  · intro s
    rfl

/-! ## chains of file round trips -/

/-- **Chains of files, of any length** (what the harness does with A > B > C): a grid that went
through any sequence of `write_grid` / `read_grid` pairs — any file names, any `fmt` arguments, any
mixture of formats — is the grid that was written first (NumPy-scalar weights possibly as the Python
number, once an asdf or FITS file was among them). -/
theorem grid_file_chain (lib : AsdfLib) (hl : AsdfFaithful lib) (hops : List Hop) (g g' : Grid)
    (h : g.Ok) (hc : gridChain lib hops g = .ok g') : g' = g ∨ g' = g.pyWeights := by
  suffices H : ∀ (hops : List Hop) (x : Grid), (x = g ∨ x = g.pyWeights) →
      gridChain lib hops x = .ok g' → g' = g ∨ g' = g.pyWeights from H hops g (Or.inl rfl) hc
  intro hops
  induction hops with
  | nil =>
    intro x hx hc
    simp only [gridChain] at hc
    injection hc with hc
    exact hc ▸ hx
  | cons hop r ih =>
    intro x hx hc
    obtain ⟨n, f⟩ := hop
    have hxok : x.Ok := by rcases hx with rfl | rfl <;> exact h
    simp only [gridChain, bind, Except.bind] at hc
    cases hw : writeGridFile lib n f x with
    | error e => rw [hw] at hc; cases hc
    | ok c =>
      rw [hw] at hc
      obtain ⟨k, _, hread⟩ := (grid_file_roundtrip lib hl n f x hxok).2 c hw
      simp only [hread] at hc
      refine ih _ ?_ hc
      by_cases hk : k = .pickle
      · simpa [hk] using hx
      · simp only [hk, if_false]
        rcases hx with rfl | rfl
        · exact Or.inr rfl
        · exact Or.inr (pyWeights_idem g)

example : (gridChain AsdfLib.observed [("a.pkl".toList, none), ("b.dat".toList, some "fits"), ("c.asdf".toList, none)]
    ⟨.polar, .separated [⟨"f8", [2], [0, 1]⟩, ⟨"f8", [3], [0, 1, 3]⟩], .arr ⟨"f8", [], [2]⟩⟩).map
      (fun g => (g.weights.isNpScalar, g.system, g.coords.size)) = .ok (false, .polar, 6) := by decide +kernel

/-- A chain of grid files succeeds exactly when a format is found at every hop. -/
theorem grid_file_chain_succeeds_iff (lib : AsdfLib) (hl : AsdfFaithful lib) (hops : List Hop) (g : Grid)
    (h : g.Ok) :
    (gridChain lib hops g).toBool = true ↔ ∀ hop ∈ hops, (formatOf hop.1 hop.2).toBool = true := by
  induction hops generalizing g with
  | nil => simp [gridChain, Except.toBool]
  | cons hop r ih =>
    obtain ⟨n, f⟩ := hop
    have hrt := grid_file_roundtrip lib hl n f g h
    simp only [gridChain, bind, Except.bind, List.forall_mem_cons]
    cases hw : writeGridFile lib n f g with
    | error e =>
      have : (formatOf n f).toBool = false := by
        cases hf : (formatOf n f).toBool with
        | false => rfl
        | true => have := hrt.1.2 hf; rw [hw] at this; cases this
      constructor
      · intro hc; cases hc
      · intro hc; rw [hc.1] at this; cases this
    | ok c =>
      obtain ⟨k, hk, hread⟩ := hrt.2 c hw
      have hfmt : (formatOf n f).toBool = true := by rw [hk]; rfl
      simp only [hread, hfmt, true_and]
      by_cases hp : k = .pickle
      · simp only [hp, if_true]; exact ih g h
      · simp only [hp, if_false]; exact ih g.pyWeights h

/-- **Chains of files for fields**, any length, any mixture of formats, any memory layout of the
data at each hop. -/
theorem field_file_chain (lib : AsdfLib) (hl : AsdfFaithful lib) (hops : List (Layout × Hop))
    (f f' : Field) (ts : List Nat) (h : f.grid.Ok) (hnd : 0 < f.grid.coords.ndim)
    (hshape : f.values.shape = ts ++ [f.grid.coords.size])
    (hdata : f.values.data.length = prod f.values.shape)
    (hc : fieldChain lib hops f = .ok f') :
    f' = f ∨ f' = { f with grid := f.grid.pyWeights } := by
  suffices H : ∀ (hops : List (Layout × Hop)) (x : Field),
      (x = f ∨ x = { f with grid := f.grid.pyWeights }) →
      fieldChain lib hops x = .ok f' → f' = f ∨ f' = { f with grid := f.grid.pyWeights } from
    H hops f (Or.inl rfl) hc
  intro hops
  induction hops with
  | nil =>
    intro x hx hc
    simp only [fieldChain] at hc
    injection hc with hc
    exact hc ▸ hx
  | cons hop r ih =>
    intro x hx hc
    obtain ⟨l, n, fm⟩ := hop
    have hinv : x.grid.Ok ∧ 0 < x.grid.coords.ndim ∧ x.values.shape = ts ++ [x.grid.coords.size] ∧
        x.values.data.length = prod x.values.shape := by
      rcases hx with rfl | rfl
      · exact ⟨h, hnd, hshape, hdata⟩
      · exact ⟨h, hnd, hshape, hdata⟩
    obtain ⟨h1, h2, h3, h4⟩ := hinv
    simp only [fieldChain, bind, Except.bind] at hc
    cases hw : writeFieldFile lib l n fm x with
    | error e => rw [hw] at hc; cases hc
    | ok c =>
      rw [hw] at hc
      obtain ⟨k, _, hread⟩ := (field_file_roundtrip lib hl l n fm x ts h1 h2 h3 h4).2 c hw
      simp only [hread] at hc
      refine ih _ ?_ hc
      by_cases hk : k = .asdf
      · simp only [hk, if_true]
        rcases hx with rfl | rfl
        · exact Or.inr rfl
        · right; simp [pyWeights_idem]
      · simpa [hk] using hx

/-- **Chains of files for dense mode bases**, any length, any mixture of formats.  (Sparse bases: `basis_file_chain_sparse`.) -/
theorem basis_file_chain_dense (lib : AsdfLib) (hl : AsdfFaithful lib) (hops : List Hop)
    (b b' : ModeBasis) (a : Arr) (g : Grid) (ts : List Nat) (m : Nat)
    (htm : b.tm = .dense a) (hg : b.grid = some g) (h : g.Ok) (hnd : 0 < g.coords.ndim)
    (hshape : a.shape = ts ++ [g.coords.size, m]) (hdata : a.data.length = prod a.shape)
    (hc : basisChain lib hops b = .ok b') :
    b' = b ∨ b' = { b with grid := some g.pyWeights } := by
  suffices H : ∀ (hops : List Hop) (x : ModeBasis),
      (x = b ∨ x = { b with grid := some g.pyWeights }) →
      basisChain lib hops x = .ok b' → b' = b ∨ b' = { b with grid := some g.pyWeights } from
    H hops b (Or.inl rfl) hc
  intro hops
  induction hops with
  | nil =>
    intro x hx hc
    simp only [basisChain] at hc
    injection hc with hc
    exact hc ▸ hx
  | cons hop r ih =>
    intro x hx hch
    obtain ⟨n, fm⟩ := hop
    simp only [basisChain, bind, Except.bind] at hch
    cases hw : writeBasisFile lib n fm x with
    | error e => rw [hw] at hch; cases hch
    | ok c =>
      rw [hw] at hch
      rcases hx with rfl | rfl
      · obtain ⟨k, _, hread⟩ :=
          basis_file_roundtrip_dense lib hl n fm x a g ts m htm hg h hnd hshape hdata c hw
        simp only [hread] at hch
        refine ih _ ?_ hch
        by_cases hk : k = .asdf
        · simp [hk]
        · simp [hk]
      · obtain ⟨k, _, hread⟩ :=
          basis_file_roundtrip_dense lib hl n fm { b with grid := some g.pyWeights } a g.pyWeights ts m
            htm rfl h hnd hshape hdata c hw
        simp only [hread] at hch
        refine ih _ ?_ hch
        by_cases hk : k = .asdf
        · simp only [hk, if_true]; right; simp [pyWeights_idem]
        · simp only [hk, if_false]; right; trivial

/-- One hop for a sparse basis, with what the next hop needs: the basis read is again a CSC matrix
of the same shape with the same dense values (`todense()`), on the grid written (`pyWeights` form
after an asdf file). -/
theorem basis_file_hop_sparse (lib : AsdfLib) (hl : AsdfFaithful lib) (name : List Char)
    (fmt : Option String) (c : Csc) (g : Grid) (m : Nat)
    (h : g.Ok) (hnd : 0 < g.coords.ndim) (hshape : c.shape = [g.coords.size, m]) :
    ∀ st, writeBasisFile lib name fmt ⟨.sparse c, some g⟩ = .ok st →
      ∃ k c', formatOf name fmt = .ok k ∧
        readBasisFile name fmt st = .ok ⟨.sparse c', if k = .asdf then some g.pyWeights else some g⟩ ∧
        c'.shape = [g.coords.size, m] ∧ cscToDense c' = cscToDense c := by
  unfold writeBasisFile readBasisFile formatOf
  have ht : (⟨.sparse c, some g⟩ : ModeBasis).toDict = .ok (.dict [(.grid, g.toDict), (.tm, c.toDict),
      (.isSparse, .bool true)]) := rfl
  cases hr : resolveName name fmt with
  | error e => simp [bind, Except.bind]
  | ok s =>
    cases hd : dispatch s with
    | error e => simp [bind, Except.bind, hd, ht]
    | ok k =>
      cases k with
      | asdf =>
        have ha := asdf_basis_roundtrip lib hl ⟨.sparse c, some g⟩ g rfl h
        cases hw : writeBasisAsdf lib ⟨.sparse c, some g⟩ with
        | error e => simp [bind, Except.bind, hd, ht, Except.map, hw]
        | ok file =>
          rw [hw] at ha
          simp only [Except.bind] at ha
          simp [bind, Except.bind, hd, ht, Except.map, hw, ha]
          exact hshape
      | pickle =>
        simp [bind, Except.bind, hd, ht, Except.map]
        exact hshape
      | fits =>
        cases hw : writeBasisFits ⟨.sparse c, some g⟩ with
        | error e => simp [bind, Except.bind, hd, ht, Except.map, hw]
        | ok file =>
          rcases fits_basis_sparse_read ⟨.sparse c, some g⟩ c g m rfl rfl h hnd hshape file hw with h1 | h1
          · simp [bind, Except.bind, hd, ht, Except.map, hw, h1]
            exact hshape
          · obtain ⟨hs, hlen⟩ := cscToDense_shape c _ _ hshape
            have heta : cscToDense c = ⟨(cscToDense c).dtype, [g.coords.size, m], (cscToDense c).data⟩ := by
              rw [← hs]
            simp [bind, Except.bind, hd, ht, Except.map, hw, h1]
            refine ⟨?_, ?_⟩
            · rw [heta]; rfl
            · rw [heta, cscToDense_denseToCsc _ _ _ _ hlen]

/-- **Chains of files for sparse mode bases**, any length, any file names, `fmt` arguments and
mixture of formats (asdf / fits / fits.gz / pickle): whenever every hop can be written, the basis
read at the end is **sparse** (a CSC matrix of the same shape), has the **same matrix**
(`todense()` equal: the FITS image path re-sparsifies, which normalises explicit zeros, duplicates
and index order and nothing else) and sits on the **same grid** (NumPy-scalar weights possibly as
the Python number once an asdf file was among the hops).  Induction over the hop list from the
single hop `basis_file_hop_sparse`, with the invariant "CSC of shape `[grid.size, m]` whose dense
form is the original's". -/
theorem basis_file_chain_sparse (lib : AsdfLib) (hl : AsdfFaithful lib) (hops : List Hop)
    (b b' : ModeBasis) (c : Csc) (g : Grid) (m : Nat)
    (htm : b.tm = .sparse c) (hg : b.grid = some g) (h : g.Ok) (hnd : 0 < g.coords.ndim)
    (hshape : c.shape = [g.coords.size, m])
    (hc : basisChain lib hops b = .ok b') :
    b'.isSparse = true ∧ b'.denseArr = b.denseArr ∧
      (∃ c', b'.tm = .sparse c' ∧ c'.shape = c.shape) ∧
      (b'.grid = some g ∨ b'.grid = some g.pyWeights) := by
  suffices H : ∀ (hops : List Hop) (cx : Csc) (gx : Grid),
      cx.shape = [g.coords.size, m] → cscToDense cx = cscToDense c → (gx = g ∨ gx = g.pyWeights) →
      basisChain lib hops ⟨.sparse cx, some gx⟩ = .ok b' →
      ∃ c', b' = ⟨.sparse c', b'.grid⟩ ∧ c'.shape = [g.coords.size, m] ∧ cscToDense c' = cscToDense c ∧
        (b'.grid = some g ∨ b'.grid = some g.pyWeights) by
    obtain ⟨tm, og⟩ := b
    simp only at htm hg
    subst htm hg
    obtain ⟨c', hb, hs, hd, hgr⟩ := H hops c g hshape rfl (Or.inl rfl) hc
    refine ⟨by rw [hb]; rfl, ?_, ⟨c', by rw [hb], by rw [hs, hshape]⟩, hgr⟩
    rw [hb]
    simpa [ModeBasis.denseArr] using hd
  intro hops
  induction hops with
  | nil =>
    intro cx gx hs hd hgx hch
    simp only [basisChain] at hch
    injection hch with hch
    subst hch
    exact ⟨cx, rfl, hs, hd, by rcases hgx with rfl | rfl <;> simp⟩
  | cons hop r ih =>
    intro cx gx hs hd hgx hch
    obtain ⟨n, fm⟩ := hop
    have hgxok : gx.Ok ∧ 0 < gx.coords.ndim ∧ gx.coords.size = g.coords.size ∧ gx.pyWeights = g.pyWeights := by
      rcases hgx with rfl | rfl
      · exact ⟨h, hnd, rfl, rfl⟩
      · exact ⟨h, hnd, rfl, pyWeights_idem g⟩
    obtain ⟨hok, hnd', hsz, hpw⟩ := hgxok
    simp only [basisChain, bind, Except.bind] at hch
    cases hw : writeBasisFile lib n fm ⟨.sparse cx, some gx⟩ with
    | error e => rw [hw] at hch; cases hch
    | ok st =>
      rw [hw] at hch
      obtain ⟨k, c', _, hread, hs', hd'⟩ :=
        basis_file_hop_sparse lib hl n fm cx gx m hok hnd' (by rw [hsz]; exact hs) st hw
      simp only [hread] at hch
      by_cases hk : k = .asdf
      · simp only [hk, if_true] at hch
        exact ih c' gx.pyWeights (by rw [← hsz]; exact hs') (hd'.trans hd) (Or.inr hpw) hch
      · simp only [hk, if_false] at hch
        exact ih c' gx (by rw [← hsz]; exact hs') (hd'.trans hd) hgx hch

example : (basisChain AsdfLib.observed [("a.fits".toList, none), ("b.pkl".toList, none), ("c.dat".toList, some "asdf"),
      ("d.fits.gz".toList, none)]
    ⟨.sparse (denseToCsc ⟨"f8", [2, 3], [1, 0, 3, 4, 5, 0]⟩), some ⟨.cartesian, .regular [.float 1] [2] [.float 0], .null⟩⟩).map
      (fun b => (b.isSparse, b.denseArr.data)) = .ok (true, [1, 0, 3, 4, 5, 0]) := by decide +kernel

/-! ## dtypes: what each route does with kind, item size and byte order -/

/-- `DType.all` is every well-formed dtype. -/
theorem dtype_all_complete (d : DType) (h : d.wellFormed = true) : d ∈ DType.all := by
  obtain ⟨k, n, o⟩ := d
  simp only [DType.wellFormed, Bool.and_eq_true] at h
  obtain ⟨hk, ho⟩ := h
  have hn : n = 1 ∨ n = 2 ∨ n = 4 ∨ n = 8 ∨ n = 16 := by
    cases k <;> simp only [Bool.or_eq_true, beq_iff_eq] at hk <;> omega
  rcases hn with rfl | rfl | rfl | rfl | rfl <;> cases k <;> cases o <;> revert hk ho <;> decide

example : DType.all.all DType.wellFormed = true := by decide

/-- The table `fitsDtypeOk` (the executed guard of `writeFieldFits` / `writeBasisFits`) **is**
astropy's `BITPIX` lookup succeeding, for every dtype and byte order. -/
theorem fitsDtypeOk_iff_card (d : DType) (h : d.wellFormed = true) :
    fitsDtypeOk d.tag = (fitsCard d).toBool := by
  have : ∀ d ∈ DType.all, fitsDtypeOk d.tag = (fitsCard d).toBool := by decide
  exact this d (dtype_all_complete d h)

/-- **`write_rejects`**: the only refusals on account of the dtype are image HDUs of `bool`,
`float16` and complex values (`KeyError` before anything is written); every other route accepts
every dtype. -/
theorem write_rejects (r : Route) (d : DType) (h : d.wellFormed = true) :
    (readDType r d = .error .key ↔
      (r = .fitsImageField ∨ r = .fitsImageBasis) ∧
        (d.kind = .bool ∨ d.kind = .complex ∨ (d.kind = .float ∧ d.size = 2))) ∧
    (∀ e, readDType r d = .error e → e = .key) := by
  have H : ∀ d ∈ DType.all, ∀ r : Route,
      (readDType r d = .error .key ↔
        (r = .fitsImageField ∨ r = .fitsImageBasis) ∧
          (d.kind = .bool ∨ d.kind = .complex ∨ (d.kind = .float ∧ d.size = 2))) ∧
      (∀ e, readDType r d = .error e → e = .key) := by
    intro d hd r
    have hfin : ∀ d ∈ DType.all, ∀ r ∈ [Route.dict, .asdf, .pickle, .pickleObject, .fitsTree, .fitsImageField,
          .fitsImageBasis],
        (decide (readDType r d = .error .key) =
          (decide (r = .fitsImageField ∨ r = .fitsImageBasis) &&
            decide (d.kind = .bool ∨ d.kind = .complex ∨ (d.kind = .float ∧ d.size = 2)))) ∧
        (match readDType r d with | .error e => decide (e = .key) | .ok _ => true) = true := by
      decide
    obtain ⟨h1, h2⟩ := hfin d hd r (by cases r <;> simp)
    constructor
    · constructor
      · intro he
        have : decide (readDType r d = .error .key) = true := decide_eq_true he
        rw [h1] at this
        simpa using this
      · intro hc
        have : (decide (r = .fitsImageField ∨ r = .fitsImageBasis) &&
            decide (d.kind = .bool ∨ d.kind = .complex ∨ (d.kind = .float ∧ d.size = 2))) = true := by
          simpa using hc
        rw [← h1] at this
        exact of_decide_eq_true this
    · intro e he
      rw [he] at h2
      exact of_decide_eq_true h2
  exact H d (dtype_all_complete d h) r

/-- **`write_read_dtype_eq`**: whenever the write is accepted, the values read back have the same
kind and item size; through a dictionary, an asdf file and the tree of a FITS file
the byte order too; pickles and mode-basis images come back in native order. -/
theorem write_read_dtype_eq (r : Route) (d d' : DType) (h : readDType r d = .ok d') :
    d'.kind = d.kind ∧ d'.size = d.size ∧
    ((r = .dict ∨ r = .asdf ∨ r = .fitsTree) → d' = d) ∧
    ((r = .pickle ∨ r = .pickleObject ∨ r = .fitsImageBasis) → d'.order = d.native.order) := by
  cases r <;> simp only [readDType, fitsImageDType, bind, Except.bind, Except.map] at h
  case dict => injection h with h; subst h; simp
  case asdf => injection h with h; subst h; simp
  case fitsTree => injection h with h; subst h; simp
  case pickleObject => injection h with h; subst h; simp [DType.native]
  case pickle => injection h with h; subst h; simp [DType.native]
  case fitsImageField =>
    cases hc : fitsCard d with
    | error e => rw [hc] at h; cases h
    | ok c =>
      rw [hc] at h
      injection h with h
      subst h
      refine ⟨?_, ?_, by simp, by simp⟩ <;> (split <;> [rfl; (split <;> rfl)])
  case fitsImageBasis =>
    cases hc : fitsCard d with
    | error e => rw [hc] at h; cases h
    | ok c =>
      rw [hc] at h
      injection h with h
      subst h
      refine ⟨?_, ?_, by simp, ?_⟩
      · split <;> [rfl; (split <;> rfl)]
      · split <;> [rfl; (split <;> rfl)]
      · intro _
        simp only [DType.native]
        split <;> [rfl; (split <;> rfl)]

/-- **`write_read_values_eq`, FITS images**: for every dtype astropy takes, every value the dtype
can hold is stored as a number that fits the storage type chosen by `BITPIX` (so nothing wraps or
saturates: signed bytes and unsigned 16/32/64-bit integers are shifted by `BZERO` into the signed /
unsigned range of the same width), and loading gives the value back.  For the other routes the
values are the stored array itself (`field_dict_roundtrip`, `asdf_field_roundtrip`,
`field_pickle_roundtrip`, …). -/
theorem write_read_values_eq (d : DType) (c : FitsCard) (hc : fitsCard d = .ok c) :
    (∀ v : Int, d.holds v = true → c.fits (v - c.bzero) = true ∧ c.store v = ((v - c.bzero : Int) : Rat)) ∧
    (∀ q : Rat, c.load (c.store q) = q) := by
  constructor
  · intro v hv
    constructor
    · obtain ⟨k, n, o⟩ := d
      simp only [fitsCard] at hc
      split at hc <;> cases hc <;>
        simp [DType.holds, FitsCard.fits] at hv ⊢ <;>
        first
          | omega
          | (have h1 := of_decide_eq_true hv.1; have h2 := of_decide_eq_true hv.2; omega)
          | (have h2 := of_decide_eq_true hv.2; have h1 := hv.1; omega)
    · simp [FitsCard.store]
  · intro q
    simp only [FitsCard.load, FitsCard.store]
    exact Rat.sub_add_cancel ..

example : fitsCard ⟨.uint, 2, .big⟩ = .ok ⟨16, 32768⟩ ∧ (⟨.uint, 2, .big⟩ : DType).holds 65535 = true ∧
    (⟨16, 32768⟩ : FitsCard).fits (65535 - 32768) = true ∧
    readDType .fitsImageField ⟨.uint, 2, .big⟩ = .ok ⟨.uint, 2, .little⟩ := by decide

/-! ## sparse storage formats assigned through the setter (D162) -/

/-- The repaired `to_dict` of a basis that holds a **CSR** matrix (assigned through the
`transformation_matrix` setter) emits arrays SciPy accepts as a CSC matrix of the same shape:
1-D arrays of equal length and `len(indptr) = columns + 1`, for every CSR record. -/
theorem csr_to_csc_wellformed (r : Csc) (n m : Nat) (hs : r.shape = [n, m]) :
    (csrToCsc r).wellFormed = true ∧ (csrToCsc r).shape = r.shape := by
  simp [csrToCsc, Csc.wellFormed, hs, cumul_length, Function.comp_def]

/-! ## the `overwrite` argument (round 6) -/

/-- **Writing onto a path that may hold a file** (`writeOver`, the definition the driver op `overwrite`
executes, for every payload type): the call raises iff the writer itself refuses the object or the file
is a FITS file, the path is occupied and `overwrite` is false; a call that raises leaves the path holding
exactly what it held; a call that returns leaves exactly the file a write onto a fresh path produces —
never the old file, never a mixture.  With `overwrite = true` (the default) or a free path the outcome is
the writer's. -/
theorem write_over_spec {P : Type} (prev : Option (Stored P)) (overwrite : Bool)
    (w : Except Err (Stored P)) :
    ((writeOver prev overwrite w).2.toBool = false ↔
      (w.toBool = false ∨ ∃ st, w = .ok st ∧ st.fmt = .fits ∧ prev.isSome = true ∧ overwrite = false)) ∧
    ((writeOver prev overwrite w).2.toBool = false → (writeOver prev overwrite w).1 = prev) ∧
    (∀ st, (writeOver prev overwrite w).2.toBool = true → w = .ok st →
      (writeOver prev overwrite w).1 = some st) ∧
    ((overwrite = true ∨ prev = none) → (writeOver prev overwrite w).2.toBool = w.toBool) := by
  cases w with
  | error e => simp [writeOver, Except.toBool]
  | ok st =>
    by_cases hc : (st.fmt == .fits && prev.isSome && !overwrite) = true
    · have hc' := hc
      simp only [Bool.and_eq_true, beq_iff_eq, Bool.not_eq_true'] at hc'
      obtain ⟨⟨h1, h2⟩, h3⟩ := hc'
      refine ⟨?_, ?_, ?_, ?_⟩
      · simp [writeOver, hc, Except.toBool, h1, h2, h3]
      · simp [writeOver, hc]
      · simp [writeOver, hc, Except.toBool]
      · rintro (h | h)
        · simp [h] at h3
        · simp [h] at h2
    · have hc' : (st.fmt == .fits && prev.isSome && !overwrite) = false := by simpa using hc
      refine ⟨?_, ?_, ?_, ?_⟩
      · simp only [writeOver, hc', Except.toBool]
        constructor
        · intro h; cases h
        · rintro (h | ⟨st', hst, h1, h2, h3⟩)
          · cases h
          · injection hst with hst; subst hst
            simp [h1, h2, h3] at hc'
      · simp [writeOver, hc', Except.toBool]
      · intro st' _ hst; injection hst with hst; subst hst; simp [writeOver, hc']
      · intro _; simp [writeOver, hc', Except.toBool]

/-- **Grid written over an existing file, then read**: whatever the path held and whatever `overwrite`
says, if the call returns, reading the path gives the grid written (same conclusion as
`grid_file_roundtrip`); if it raises, the path still holds the old file. -/
theorem grid_write_over_roundtrip (lib : AsdfLib) (hl : AsdfFaithful lib) (name : List Char)
    (fmt : Option String) (g : Grid) (h : g.Ok) (prev : Option (Stored Grid)) (overwrite : Bool) :
    match writeOver prev overwrite (writeGridFile lib name fmt g) with
    | (slot, .ok _) => ∃ c f, slot = some c ∧ formatOf name fmt = .ok f ∧
        readGridFile name fmt c = .ok (if f = .pickle then g else g.pyWeights)
    | (slot, .error _) => slot = prev := by
  have hrt := (grid_file_roundtrip lib hl name fmt g h).2
  cases hw : writeGridFile lib name fmt g with
  | error e => simp [writeOver]
  | ok st =>
    obtain ⟨f, hf, hr⟩ := hrt st hw
    by_cases hc : (st.fmt == .fits && prev.isSome && !overwrite) = true
    · simp [writeOver, hc]
    · have hc' : (st.fmt == .fits && prev.isSome && !overwrite) = false := by simpa using hc
      simp only [writeOver, hc']
      exact ⟨st, f, rfl, hf, hr⟩

example : (match (writeOver (some (.pickle ⟨.cartesian, .regular [.float 1] [2] [.float 0], .null⟩)) false
    (writeGridFile AsdfLib.observed "a.fits".toList none ⟨.cartesian, .regular [.float 1] [2] [.float 0], .null⟩)).2 with
    | .error .fileExists => true | _ => false) = true := by decide +kernel

/-- **`to_sparse()` has no threshold** (round 6, seeded class C16-11: dynamic range inside one mode).
The dense → CSC conversion the FITS image path of a sparse basis goes through (`denseToCsc`, the
executed definition) stores **every** element that is not exactly zero, however small it is relative to
the other elements of its mode (column), stores nothing else, and stores no zero: column `j` holds
`(i, x)` iff `i < n` and `x = d[i·m + j] ≠ 0`.  No magnitude appears in the statement: the values are
arbitrary rationals (2^-1074 next to 2^1000 included). -/
theorem to_sparse_keeps_every_nonzero (n m : Nat) (d : List Rat) (j i : Nat) (x : Rat) :
    (i, x) ∈ colEntries n m d j ↔ i < n ∧ x = d.getD (i * m + j) 0 ∧ x ≠ 0 := by
  simp only [colEntries, List.mem_filterMap, List.mem_range]
  constructor
  · rintro ⟨a, ha, h⟩
    by_cases h0 : d.getD (a * m + j) 0 = 0
    · rw [if_pos h0] at h; cases h
    · rw [if_neg h0] at h
      injection h with h
      injection h with h1 h2
      subst h1; subst h2
      exact ⟨ha, rfl, h0⟩
  · rintro ⟨hi, rfl, h0⟩
    exact ⟨i, hi, by rw [if_neg h0]⟩

/-- … and therefore the matrix read back through the image path has the dense values that were
written, for every rational matrix (`cscToDense ∘ denseToCsc = id`; both are the executed definitions). -/
theorem to_sparse_values_eq (dt : String) (n m : Nat) (d : List Rat) (hd : d.length = n * m) :
    cscToDense (denseToCsc ⟨dt, [n, m], d⟩) = ⟨dt, [n, m], d⟩ ∧
    (∀ e ∈ (denseToCsc ⟨dt, [n, m], d⟩).data.data, e ≠ 0) := by
  refine ⟨cscToDense_denseToCsc dt n m d hd, ?_⟩
  intro e he
  simp only [denseToCsc, List.headD_cons, List.drop_succ_cons, List.drop_zero, List.mem_map,
    List.mem_flatten, List.mem_range] at he
  obtain ⟨⟨i, x⟩, ⟨l, ⟨j, _, rfl⟩, hl⟩, rfl⟩ := he
  exact ((to_sparse_keeps_every_nonzero n m d j i x).1 hl).2.2

example : (denseToCsc ⟨"f8", [2, 2], [1, (1 : Rat) / 2 ^ 70, 0, 2 ^ 70]⟩).data.data = [1, (1 : Rat) / 2 ^ 70, 2 ^ 70] := by
  decide +kernel

/-- **`scipy.sparse.csc_matrix(csr)` keeps every value**: the CSC record the repaired `to_dict()` emits
for a CSR-holding basis stands for the same dense matrix as the CSR record (duplicates summed on both
sides, explicit zeros kept), for every CSR record of every size — `csrToCsc` and `cscToDense` are the
definitions the driver op `spstore` executes. -/
theorem csr_to_csc_values_eq (r : Csc) (n m : Nat) (hs : r.shape = [n, m]) :
    cscToDense (csrToCsc r) = csrToDense r :=
  cscToDense_csrToCsc r n m hs

example : ∃ r : Csc, r.shape = [2, 3] ∧ (cscToDense (csrToCsc r)).data = [1, 0, 3, 4, 0, 0] :=
  ⟨⟨⟨"f8", [3], [1, 3, 4]⟩, ⟨"i4", [3], [0, 2, 0]⟩, ⟨"i4", [3], [0, 2, 3]⟩, [2, 3]⟩, rfl, by decide +kernel⟩

/-- **Dictionary round trip for every sparse storage** (after the repair of D162): whatever the
setter stored (CSC or CSR), `from_dict(to_dict(b))` is the sparse basis on the same grid whose matrix
is the CSC conversion SciPy makes of the stored matrix; for a CSR matrix that conversion is accepted by
SciPy (`wellFormed`), has the same shape **and the same dense values** (round 6: proved, was compared
only).  Formats without `indices` / `indptr` (COO, LIL, DIA, DOK) are converted by SciPy itself and are
outside the model (`SpStore.toCsc = none`, excluded by `hc`); the harness compares them. -/
theorem sparse_store_dict_roundtrip (s : SpStore) (c : Csc) (g : Grid) (h : g.Ok)
    (hc : s.toCsc = some c) :
    (ModeBasis.toDict ⟨.sparse c, some g⟩).bind (fun t => ModeBasis.fromDict t) = .ok ⟨.sparse c, some g⟩ ∧
    (∀ r n m, s = .csr r → r.shape = [n, m] →
      c.wellFormed = true ∧ c.shape = [n, m] ∧ cscToDense c = csrToDense r) ∧
    (∀ c', s = .csc c' → c = c') := by
  refine ⟨modebasis_dict_roundtrip ⟨.sparse c, some g⟩ g rfl h, ?_, ?_⟩
  · intro r n m hs hshape
    subst hs
    simp only [SpStore.toCsc] at hc
    injection hc with hc
    subst hc
    have := csr_to_csc_wellformed r n m hshape
    exact ⟨this.1, by rw [this.2, hshape], cscToDense_csrToCsc r n m hshape⟩
  · intro c' hs
    subst hs
    simp only [SpStore.toCsc] at hc
    injection hc with hc
    exact hc.symm

example : ∃ (s : SpStore) (c : Csc) (g : Grid), s.toCsc = some c ∧ g.Ok :=
  ⟨.csr ⟨⟨"f8", [0], []⟩, ⟨"i4", [0], []⟩, ⟨"i4", [1], [0]⟩, [0, 1]⟩, _,
    ⟨.noneSys, .regular [.float 1] [3] [.float 0], .null⟩, rfl,
    by simp [Grid.Ok, knownSystem, Coords.WellFormed, Homogeneous, PyNum.isInt]⟩

example : (SpStore.csr ⟨⟨"f8", [3], [1, 3, 4]⟩, ⟨"i4", [3], [0, 2, 0]⟩, ⟨"i4", [3], [0, 2, 3]⟩, [2, 3]⟩).toCsc.map
    (fun c => (c.wellFormed, (cscToDense c).data)) = some (true, [1, 0, 3, 4, 0, 0]) := by decide +kernel

/-! ## Old — the unrepaired read/write paths and their counterexamples

Documentation of the defects that were found (D14, D19, D160, D161): statements about `…Old`
definitions, i.e. about code that `/repo` no longer contains once the `fix:` commits are applied.
Not evidence for the property. -/

def exGridU : Grid :=
  ⟨.cartesian, .unstructured [⟨"f8", [4], [0, 1, 3, 4]⟩, ⟨"f8", [4], [0, 2, 5, 7]⟩], .null⟩
def exGridR : Grid := ⟨.cartesian, .regular [.float 1] [2] [.float 0], .null⟩
def exVector : Field := ⟨⟨"f8", [2, 4], [1, 2, 3, 4, 5, 6, 7, 8]⟩, exGridU⟩
def exTensor : Field := ⟨⟨"f8", [3, 1, 4], [1, 2, 3, 4, 5, 6, 7, 8, 9, 10, 11, 12]⟩, exGridU⟩
def exTensorBasis : ModeBasis :=
  ⟨.dense ⟨"f8", [2, 2, 3], [1, 2, 3, 4, 5, 6, 7, 8, 9, 10, 11, 12]⟩, some exGridR⟩
def exSparseBasis : ModeBasis := ⟨.sparse (denseToCsc ⟨"f8", [2, 3], [1, 0, 3, 4, 5, 0]⟩), some exGridR⟩

/-- D19: on the unrepaired tree a vector field on an unstructured 2-D grid is written but cannot
be read (`ValueError`), and a tensor field of shape (3, 1) comes back with tensor shape (3,). -/
theorem fits_field_old_counterexample :
    (writeFieldFits exVector).bind readFieldFitsOld = .error .value ∧
    ((writeFieldFits exTensor).bind readFieldFitsOld).map (·.values.shape) = .ok [3, 4] := by
  constructor <;> rfl

/-- D160: on the unrepaired tree a (2, N, M) tensor mode basis on a regular grid comes back as an
(N, 2·M) matrix. -/
theorem fits_basis_old_counterexample_tensor :
    ((writeBasisFitsOld exTensorBasis).bind readBasisFitsOld).map (·.denseArr.shape) = .ok [2, 6] := by
  rfl

/-- D14: on the unrepaired tree a sparse mode basis on a regular grid is written but cannot be
read (`scipy.sparse` refuses the big-endian image). -/
theorem fits_basis_old_counterexample_sparse :
    (writeBasisFitsOld exSparseBasis).bind readBasisFitsOld = .error .value := by
  rfl

/-- D161: on the unrepaired tree the base class `Grid` (coordinate system `'none'`) is written to asdf
and FITS files that cannot be read back (`KeyError: 'none'`). -/
theorem base_grid_old_counterexample :
    (writeGridAsdf AsdfLib.observed ⟨.noneSys, .regular [.float 1] [3] [.float 0], .null⟩).bind readGridAsdfOld
      = .error .key ∧
    (writeGridFits AsdfLib.observed ⟨.noneSys, .regular [.float 1] [3] [.float 0], .null⟩).bind readGridFitsOld
      = .error .key := by
  constructor <;> rfl

/-- the repaired paths on the same inputs -/
theorem fits_repaired_on_counterexamples :
    ((writeFieldFits exVector).bind readFieldFits).map (·.values) = .ok exVector.values ∧
    ((writeFieldFits exTensor).bind readFieldFits).map (·.values) = .ok exTensor.values ∧
    ((writeBasisFits exTensorBasis).bind readBasisFits).map (·.tm) = .ok exTensorBasis.tm ∧
    ((writeBasisFits exSparseBasis).bind readBasisFits).map (·.tm) = .ok exSparseBasis.tm ∧
    (writeGridFits AsdfLib.observed ⟨.noneSys, .regular [.float 1] [3] [.float 0], .null⟩).bind readGridFits
      = .ok ⟨.noneSys, .regular [.float 1] [3] [.float 0], .null⟩ := by
  refine ⟨rfl, rfl, ?_, ?_, rfl⟩ <;> decide +kernel

/-- CSR records of `[[1, 0, 3], [4, 0, 0]]` and of `[[1, 2], [0, 3]]` -/
def exCsr23 : Csc := ⟨⟨"f8", [3], [1, 3, 4]⟩, ⟨"i4", [3], [0, 2, 0]⟩, ⟨"i4", [3], [0, 2, 3]⟩, [2, 3]⟩
def exCsr22 : Csc := ⟨⟨"f8", [3], [1, 2, 3]⟩, ⟨"i4", [3], [0, 1, 1]⟩, ⟨"i4", [3], [0, 2, 3]⟩, [2, 2]⟩

/-- D162: on the unrepaired tree a sparse basis whose matrix was assigned as **CSR** is written with
the CSR arrays as they are.  For a 2 × 3 matrix SciPy rejects them on reading (`indptr` has
rows + 1 = 3 entries, not columns + 1 = 4: "index pointer size 3 should be 4"); for a square matrix
they pass the check and are read as the **transposed** matrix.  The repaired `to_dict` returns the
matrix in both cases. -/
theorem to_dict_csr_old_counterexample :
    ((SpStore.csr exCsr23).toDictOld.bind Csc.fromDict).map Csc.wellFormed = .ok false ∧
    ((SpStore.csr exCsr22).toDictOld.bind Csc.fromDict).map (fun c => (c.wellFormed, (cscToDense c).data))
      = .ok (true, [1, 0, 2, 3]) ∧
    (csrToDense exCsr22).data = [1, 2, 0, 3] ∧
    (SpStore.csr exCsr22).toCsc.map (fun c => (cscToDense c).data) = some [1, 2, 0, 3] ∧
    (SpStore.csr exCsr23).toCsc.map (fun c => (c.wellFormed, (cscToDense c).data)) = some (true, [1, 0, 3, 4, 0, 0]) ∧
    SpStore.noIndices.toDictOld = .error .attr := by
  refine ⟨?_, ?_, ?_, ?_, ?_, rfl⟩ <;> first | decide +kernel | rfl

end HcipyVerif.Serial
