import HcipyVerif.Model.Serial
import HcipyVerif.Lemmas.Serial

/-!
# C16 — writing then reading a grid, field or mode basis returns an equal object

Property theorems over the model `HcipyVerif.Serial` (see `Model/Serial.lean` for what is
modelled).  Hypotheses used throughout:

* `knownSystem g.system` — the grid's class is registered in `Grid._coordinate_systems`
  (`CartesianGrid`, `PolarGrid`); the abstract base `Grid` is not (`base_grid_not_readable`);
* `Coords.WellFormed` — `delta` and `zero` of regular coordinates are what `ndarray.tolist()`
  yields: all Python ints or all Python floats.
-/
set_option linter.unusedSimpArgs false
set_option linter.unusedVariables false

namespace HcipyVerif.Serial

/-- `delta`, `zero` of regular coordinates come from one NumPy array each. -/
def Coords.WellFormed : Coords → Prop
  | .regular d _ z => Homogeneous d ∧ Homogeneous z
  | _ => True

def Grid.Ok (g : Grid) : Prop := knownSystem g.system = true ∧ g.coords.WellFormed

/-! ## row-major index maps: `reshape` is the identity on C-order data -/

/-- `np.ravel_multi_index(np.unravel_index(k, s), s) = k` for every shape and every flat index. -/
theorem ravel_unravel (s : List Nat) (k : Nat) (h : k < prod s) : ravel s (unravel s k) = k :=
  ravel_unravel' s k h

/-- `np.unravel_index(np.ravel_multi_index(idx, s), s) = idx` for every valid multi-index. -/
theorem unravel_ravel (s idx : List Nat) (h : InBounds idx s) : unravel s (ravel s idx) = idx :=
  unravel_ravel' s idx h

theorem unravel_in_bounds (s : List Nat) (k : Nat) (h : k < prod s) : InBounds (unravel s k) s :=
  unravel_inBounds s k h

/-- Element `idx` of `a.reshape(s)` is the element of `a` with the same row-major rank, for every
pair of shapes. -/
theorem reshape_at (a b : Arr) (s idx : List Nat) (h : a.reshape s = .ok b) (hi : InBounds idx s) :
    b.at idx = a.at (unravel a.shape (ravel s idx)) := by
  unfold Arr.reshape at h
  split at h
  · rename_i hp
    injection h with h
    subst h
    have : ravel s idx < prod a.shape := hp ▸ ravel_lt s idx hi
    simp [Arr.at, ravel_unravel' a.shape _ this]
  · cases h

/-- Reshaping to any shape of the same size and back is the identity (all tensor and grid
shapes). -/
theorem reshape_roundtrip (a : Arr) (s : List Nat) (h : prod s = prod a.shape) :
    (a.reshape s).bind (fun b => b.reshape a.shape) = .ok a := by
  simp [Arr.reshape, h, Except.bind]

example : prod [2, 3] = prod [3, 2] := by decide

/-- Transposing an `r × c` matrix twice is the identity on its C-order data. -/
theorem transpose_transpose (r c : Nat) (d : List Rat) (h : d.length = r * c) :
    transposeFlat c r (transposeFlat r c d) = d :=
  transposeFlat_involutive r c d h

example : ([1, 2, 3, 4, 5, 6] : List Rat).length = 2 * 3 := by decide

/-- `np.moveaxis(np.moveaxis(a, -1, 0), 0, -1) = a` for every shape of at least one axis. -/
theorem moveaxis_roundtrip (a : Arr) (hs : a.shape ≠ []) (hd : a.data.length = prod a.shape) :
    a.moveLastToFront.moveFirstToLast = a := by
  obtain ⟨dtype, shape, data⟩ := a
  simp only at hs hd
  rcases List.eq_nil_or_concat shape with h0 | ⟨pre, m, rfl⟩
  · exact absurd h0 hs
  · rw [List.concat_eq_append] at hd ⊢
    have hlen : data.length = prod pre * m := by rw [hd, prod_append, prod_singleton]
    simp [Arr.moveLastToFront, Arr.moveFirstToLast, transposeFlat_involutive _ _ _ hlen]

example : (⟨"f8", [2, 3], [1, 2, 3, 4, 5, 6]⟩ : Arr).data.length = prod [2, 3] := by decide

/-! ## dictionary round trips -/

theorem coords_dict_roundtrip (c : Coords) (h : c.WellFormed) :
    Coords.fromDict c.toDict = .ok c := by
  cases c with
  | regular d n z =>
    obtain ⟨hd, hz⟩ := h
    simp [Coords.toDict, Coords.fromDict, Tree.get, lookup, asList, bind, Except.bind,
      mapM_asNum_comp, mapM_asDim_comp, coerce_of_homogeneous _ hd, coerce_of_homogeneous _ hz]
  | separated ax =>
    simp [Coords.toDict, Coords.fromDict, Tree.get, lookup, asList, bind, Except.bind, mapM_asArr_comp]
  | unstructured ax =>
    simp [Coords.toDict, Coords.fromDict, Tree.get, lookup, asList, bind, Except.bind, mapM_asArr_comp]

example : (Coords.regular [.float (1/2), .float (1/4)] [4, 3] [.int 0, .int 1]).WellFormed := by
  simp [Coords.WellFormed, Homogeneous, PyNum.isInt]

/-- `Grid.from_dict(g.to_dict())` is `g`: coordinate system, coordinates (storage kind included)
and weights (`None`, scalar, list or array exactly as stored). -/
theorem grid_dict_roundtrip (g : Grid) (h : g.Ok) : Grid.fromDict g.toDict = .ok g := by
  obtain ⟨hs, hc⟩ := h
  obtain ⟨s, c, w⟩ := g
  simp only at hs hc
  simp [Grid.toDict, Grid.fromDict, Tree.get, lookup, bind, Except.bind,
    coords_dict_roundtrip c hc, hs]

example : (⟨.polar, .separated [⟨"f8", [2], [0, 1]⟩, ⟨"f8", [3], [0, 1, 3]⟩], .null⟩ : Grid).Ok := by
  simp [Grid.Ok, knownSystem, Coords.WellFormed]

/-- The abstract base `Grid` (coordinate system `'none'`) has a dictionary form that `from_dict`
rejects with `KeyError`: it is written by asdf/fits but cannot be read. -/
theorem base_grid_not_readable (g : Grid) (hs : knownSystem g.system = false)
    (hc : g.coords.WellFormed) : Grid.fromDict g.toDict = .error .key := by
  obtain ⟨s, c, w⟩ := g
  simp only at hs hc
  simp [Grid.toDict, Grid.fromDict, Tree.get, lookup, bind, Except.bind,
    coords_dict_roundtrip c hc, hs]

theorem field_dict_roundtrip (f : Field) (h : f.grid.Ok) : Field.fromDict f.toDict = .ok f := by
  obtain ⟨v, g⟩ := f
  simp [Field.toDict, Field.fromDict, Tree.get, lookup, asArr, bind, Except.bind,
    grid_dict_roundtrip g h]

/-- `Field.__getstate__` / `__setstate__` (pickle) reproduce the field. -/
theorem field_pickle_roundtrip (f : Field) : Field.setState f.getState = f := rfl

theorem csc_dict_roundtrip (c : Csc) : Csc.fromDict c.toDict = .ok c := by
  obtain ⟨d, i, p, s⟩ := c
  simp [Csc.toDict, Csc.fromDict, Tree.get, lookup, asArr, asList, bind, Except.bind, mapM_asDim_comp]

/-- `ModeBasis.from_dict(b.to_dict())` is `b`, dense stays dense and CSC stays CSC with the very
same `data`, `indices`, `indptr`. -/
theorem modebasis_dict_roundtrip (b : ModeBasis) (g : Grid) (hg : b.grid = some g) (h : g.Ok) :
    b.toDict.bind (fun t => ModeBasis.fromDict t) = .ok b := by
  obtain ⟨tm, og⟩ := b
  simp only at hg
  subst hg
  cases tm with
  | dense a =>
    simp [ModeBasis.toDict, ModeBasis.fromDict, ModeBasis.isSparse, ModeBasis.toDense, Tree.get,
      lookup, bind, Except.bind, Except.map, grid_dict_roundtrip g h]
  | sparse c =>
    have hc := csc_dict_roundtrip c
    simp only [Csc.toDict] at hc
    simp [ModeBasis.toDict, ModeBasis.fromDict, ModeBasis.isSparse, ModeBasis.toSparse, Tree.get,
      lookup, bind, Except.bind, Except.map, grid_dict_roundtrip g h, Csc.toDict, hc]

/-- sparse-or-dense storage is preserved by the dictionary round trip -/
theorem modebasis_dict_roundtrip_kind (b b' : ModeBasis) (g : Grid) (hg : b.grid = some g)
    (h : g.Ok) (hb : b.toDict.bind (fun t => ModeBasis.fromDict t) = .ok b') :
    b'.isSparse = b.isSparse := by
  rw [modebasis_dict_roundtrip b g hg h] at hb
  injection hb with hb
  rw [hb]

/-- A mode basis without grid has no dictionary form (`AttributeError`), hence cannot be written
by `write_mode_basis` in any format. -/
theorem modebasis_without_grid_has_no_dict (b : ModeBasis) (h : b.grid = none) :
    b.toDict = .error .attr := by
  simp [ModeBasis.toDict, h]

/-- `to_dict` leaves the object as it was (it reads `_weights`, never the materialising
`weights` property). -/
theorem to_dict_pure (g : Grid) (f : Field) (b : ModeBasis) :
    g.toDictSt.1 = g ∧ f.toDictSt.1 = f ∧ b.toDictSt.1 = b := ⟨rfl, rfl, rfl⟩

end HcipyVerif.Serial
