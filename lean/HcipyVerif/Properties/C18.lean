import HcipyVerif.Lemmas.Interp
import Mathlib.Algebra.Order.Field.Rat

/-!
# C18 — Resampling is exact where it must be: interpolation and binning

Theorems about the models of `hcipy.interpolation` (`Model/Interp.lean`) and of
`subsample_field` / `evaluate_supersampled` (`Model/Binning.lean`), for every dimension, every
per-axis knot list, every simplex, every binning factor and tensor shape, over an arbitrary
(linearly ordered, where order matters) field `K`.  The models are tied to the code by the C18
correspondence (harness/props/c18.py); SciPy's choice of Delaunay simplex and of the k-d tree
tie-break are library behaviour: the theorems hold for *whatever* simplex contains the point and
for *whichever* minimiser is returned.

Hypotheses (each has a satisfiability `example` at the end):
`StrictMono ax` — knots strictly increasing *or* strictly decreasing, independently per axis (what
SciPy accepts and the real code passes on unchanged); `InDomain axes p` — `p` between the first
and last knot of every axis, in either order; `ZeroMean D ds` — the dither vectors add up to zero (true of the symmetric
dithers `make_uniform_grid(n, 1)`, see `dithers1_sum_zero`).
-/
set_option linter.unusedSimpArgs false
set_option linter.unusedVariables false
set_option linter.unusedSectionVars false

namespace HcipyVerif.Interp
open HcipyVerif.Binning

variable {K : Type} [Field K] [LinearOrder K] [IsStrictOrderedRing K]

/-! ## linear interpolation -/

/-- **1-D linear interpolation is exact on affine functions**, inside and outside the cell. -/
theorem lerp_affine_exact (a b A c x : K) (h : a ≠ b) :
    lerp a b (A + c * a) (A + c * b) x = A + c * x :=
  lerp_affine a b A c x h

/-- **… and hits the samples** at both ends of the cell, for arbitrary sample values. -/
theorem lerp_hits_samples (a b va vb : K) (h : a ≠ b) :
    lerp a b va vb a = va ∧ lerp a b va vb b = vb := by
  have : b - a ≠ 0 := sub_ne_zero.mpr (Ne.symm h)
  constructor
  · simp [lerp]
  · unfold lerp; field_simp; ring

/-- **Multilinear interpolation (tensor product, any number of axes, any strictly increasing
per-axis knots) is exact on affine functions** at every point of the domain — and, with
`fill_value=None` (`ext = true`), also outside it.  `sampleAffine axes c0 cs` is the C-order
array of `c0 + Σ c_k x_k` on the grid. -/
theorem multilinear_affine_exact (ext : Bool) (axes : List (List K)) (c0 : K) (cs p : List K)
    (hc : cs.length = axes.length) (hp : p.length = axes.length)
    (hax : ∀ ax ∈ axes, 2 ≤ ax.length ∧ StrictMono ax)
    (hin : ext = true ∨ InDomain axes p) :
    interpFlat ext axes (sampleAffine axes c0 cs) p = some (affine c0 cs p) :=
  interpFlat_affine ext axes c0 cs p hc hp hax hin

/-- `sampleAffine` really is the affine function evaluated on the tensor grid in C order. -/
theorem sampleAffine_eq_map (axes : List (List K)) (c0 : K) (cs : List K)
    (hc : cs.length = axes.length) :
    sampleAffine axes c0 cs = (tensorPts axes).map (affine c0 cs) := by
  induction axes generalizing c0 cs with
  | nil => cases cs <;> simp_all [sampleAffine, tensorPts, affine, dot]
  | cons ax rest ih =>
    cases cs with
    | nil => simp at hc
    | cons c cs =>
      simp only [List.length_cons, Nat.add_right_cancel_iff] at hc
      simp only [sampleAffine, tensorPts, List.map_flatMap, List.map_map]
      congr 1
      funext t
      rw [ih _ cs hc]
      apply List.map_congr_left
      intro q _
      simp [affine_cons]

/-- The same in hcipy's conventions (`make_linear_interpolator_separated` after repair D11):
separated coordinates `[x-axis, y-axis, …]`, field values in hcipy order (x fastest), point
`[x, y, …]`; the wrapper reverses axes and point, the values need no re-ordering. -/
theorem linearSeparated_affine_exact (ext : Bool) (sep : List (List K)) (c0 : K) (c p : List K)
    (hc : c.length = sep.length) (hp : p.length = sep.length)
    (hax : ∀ ax ∈ sep, 2 ≤ ax.length ∧ StrictMono ax)
    (hin : ext = true ∨ InDomain sep.reverse p.reverse) :
    linearSeparated ext sep (sampleAffine sep.reverse c0 c.reverse) p
      = some (affine c0 c.reverse p.reverse) := by
  unfold linearSeparated
  exact interpFlat_affine ext sep.reverse c0 c.reverse p.reverse (by simp [hc]) (by simp [hp])
    (fun ax h => hax ax (List.mem_reverse.mp h)) hin

/-- **Linear interpolation reproduces affine functions, in hcipy's own conventions**: the field `f(q) = c0 + c·q`
sampled on the grid (hcipy point order), interpolated at `p = [x, y, …]`, gives `f(p)` — no reversed lists in the
statement. -/
theorem linearSeparated_affine_exact_direct (ext : Bool) (sep : List (List K)) (c0 : K) (c p : List K)
    (hc : c.length = sep.length) (hp : p.length = sep.length)
    (hax : ∀ ax ∈ sep, 2 ≤ ax.length ∧ StrictMono ax)
    (hin : ext = true ∨ InDomain sep.reverse p.reverse) :
    linearSeparated ext sep ((gridPts sep).map (affine c0 c)) p = some (affine c0 c p) := by
  have h1 : (gridPts sep).map (affine c0 c) = sampleAffine sep.reverse c0 c.reverse := by
    rw [sampleAffine_eq_map sep.reverse c0 c.reverse (by simp [hc])]
    simp only [gridPts, List.map_map]
    apply List.map_congr_left
    intro t ht
    have hl : t.length = c.length := by rw [tensorPts_length _ _ ht, List.length_reverse, hc]
    simp only [Function.comp]
    have := affine_reverse c0 c t.reverse (by simp [hl])
    rw [List.reverse_reverse] at this
    exact this.symm
  rw [h1, linearSeparated_affine_exact ext sep c0 c p hc hp hax hin, affine_reverse c0 c p (by rw [hc, hp])]

/-- **1-D: the interpolant returns the sample value at every knot**, for arbitrary values: for
every pair (knot, value) of the table, interpolating at the knot gives the value. -/
theorem interp1_hits_samples_ascending (ext : Bool) :
    ∀ (knots vals : List K) (first : Bool), 2 ≤ knots.length → vals.length = knots.length →
      StrictInc knots → ∀ xv ∈ List.zip knots vals,
        interpAxis ext 1 (fun v => v.head?) first knots vals xv.1 = some xv.2 := by
  intro knots
  induction knots with
  | nil => intro vals first h2; simp at h2
  | cons a knots ih =>
    intro vals first h2 hv hs xv hxv
    match knots, vals, h2, hv, hs, hxv with
    | b :: rest, va :: vb :: vals', _, hv, hs, hxv =>
      have hab : a < b := hs.1
      simp only [List.zip_cons_cons, List.mem_cons] at hxv
      rcases hxv with rfl | hxv
      · have hc : (((ext && first) || decide (a ≤ a)) && ((ext && rest.isEmpty) || decide (a ≤ b))) = true := by
          simp [le_of_lt hab]
        simp only [interpAxis, inLo_inc hab, inHi_inc hab]
        rw [hc]
        simp [(lerp_hits_samples a b va vb (ne_of_lt hab)).1]
      · have hx : xv.1 ∈ b :: rest := by
          rcases hxv with rfl | h
          · simp
          · exact List.mem_cons_of_mem _ (List.of_mem_zip h).1
        have hbx : b ≤ xv.1 := by
          rcases List.mem_cons.mp hx with h | h
          · exact le_of_eq h.symm
          · exact le_of_lt (knot_gt b rest hs.2 _ h)
        by_cases hxb : xv.1 ≤ b
        · have heq : xv.1 = b := le_antisymm hxb hbx
          have hv : xv.2 = vb := by
            rcases hxv with rfl | h
            · rfl
            · have := knot_gt b rest hs.2 _ (List.of_mem_zip h).1
              rw [heq] at this
              exact absurd this (lt_irrefl _)
          have hc : (((ext && first) || decide (a ≤ xv.1)) && ((ext && rest.isEmpty) || decide (xv.1 ≤ b))) = true := by
            simp [heq, le_of_lt hab]
          simp only [interpAxis, inLo_inc hab, inHi_inc hab]
          rw [hc, heq, hv]
          simp [(lerp_hits_samples a b va vb (ne_of_lt hab)).2]
        · have hne : rest ≠ [] := by
            intro h; subst h
            simp only [List.mem_singleton] at hx
            exact hxb (le_of_eq hx)
          have hc : (((ext && first) || decide (a ≤ xv.1)) && ((ext && rest.isEmpty) || decide (xv.1 ≤ b))) = false := by
            simp [hxb, hne]
          have hlen : 2 ≤ (b :: rest).length := by
            cases rest with
            | nil => exact absurd rfl hne
            | cons c r => simp
          have := ih (vb :: vals') false hlen (by simpa using hv) hs.2 xv (by simpa using hxv)
          simp only [interpAxis, inLo_inc hab, inHi_inc hab]
          rw [hc]
          simpa using this

/-- … and the same for knots in either direction (ascending or descending). -/
theorem interp1_hits_samples (ext : Bool) (knots vals : List K) (first : Bool)
    (h2 : 2 ≤ knots.length) (hv : vals.length = knots.length) (hs : StrictMono knots) :
    ∀ xv ∈ List.zip knots vals,
      interpAxis ext 1 (fun v => v.head?) first knots vals xv.1 = some xv.2 := by
  rcases hs with hs | hs
  · exact interp1_hits_samples_ascending ext knots vals first h2 hv hs
  · intro xv hxv
    rw [interpAxis_neg ext 1 _ knots vals first xv.1 hs]
    have := interp1_hits_samples_ascending ext (knots.map fun t => -t) vals first (by simpa using h2)
      (by simpa using hv) (strictDec_neg _ hs) (-xv.1, xv.2)
      (by rw [List.zip_map_left]; exact List.mem_map.mpr ⟨xv, hxv, rfl⟩)
    simpa using this

/-! ### sample hitting in any dimension (supersedes the 1-D `head?` form above) -/

/-- one axis, ascending knots, any block size and any inner interpolant that is defined on every block:
at the `i`-th knot the axis returns what the inner interpolant returns on the `i`-th block -/
theorem interpAxis_hits_inc (ext : Bool) (m : Nat) (rec : List K → Option K) :
    ∀ (knots vals : List K) (first : Bool), 2 ≤ knots.length → StrictInc knots →
      (∀ j < knots.length, ∃ w, rec ((vals.drop (j * m)).take m) = some w) →
      ∀ (i : Nat) (hi : i < knots.length),
        interpAxis ext m rec first knots vals knots[i] = rec ((vals.drop (i * m)).take m) := by
  intro knots
  induction knots with
  | nil => intro vals first h2; simp at h2
  | cons a knots ih =>
    intro vals first h2 hs hrec i hi
    match knots, h2, hs, hrec, hi with
    | b :: rest, _, hs, hrec, hi =>
      have hab : a < b := hs.1
      obtain ⟨va, hva⟩ := hrec 0 (by simp)
      obtain ⟨vb, hvb⟩ := hrec 1 (by simp)
      simp only [Nat.zero_mul, List.drop_zero, Nat.one_mul] at hva hvb
      cases i with
      | zero =>
        have hc : (((ext && first) || decide (a ≤ a)) && ((ext && rest.isEmpty) || decide (a ≤ b))) = true := by
          simp [le_of_lt hab]
        simp only [List.getElem_cons_zero, interpAxis, inLo_inc hab, inHi_inc hab, Nat.zero_mul, List.drop_zero]
        rw [hc]
        simp [hva, hvb, (lerp_hits_samples a b va vb (ne_of_lt hab)).1]
      | succ i =>
        simp only [List.getElem_cons_succ]
        have hi' : i < (b :: rest).length := by simpa using hi
        have hbx : b ≤ (b :: rest)[i] := by
          cases i with
          | zero => simp
          | succ k => exact le_of_lt (knot_gt b rest hs.2 _ (List.getElem_mem _))
        have hax : a ≤ (b :: rest)[i] := le_trans (le_of_lt hab) hbx
        have hdrop : (vals.drop m).drop (i * m) = vals.drop ((i + 1) * m) := by
          rw [List.drop_drop]; congr 1; ring
        by_cases hxb : (b :: rest)[i] ≤ b
        · have heq : (b :: rest)[i] = b := le_antisymm hxb hbx
          have hi0 : i = 0 := by
            cases i with
            | zero => rfl
            | succ k =>
              have := knot_gt b rest hs.2 _ (List.getElem_mem (l := rest) (n := k) (by simpa using hi'))
              simp only [List.getElem_cons_succ] at heq
              rw [heq] at this
              exact absurd this (lt_irrefl _)
          subst hi0
          have hc : (((ext && first) || decide (a ≤ b)) && ((ext && rest.isEmpty) || decide (b ≤ b))) = true := by
            simp [le_of_lt hab]
          simp only [List.getElem_cons_zero, interpAxis, inLo_inc hab, inHi_inc hab, Nat.zero_add, Nat.one_mul]
          rw [hc]
          simp [hva, hvb, (lerp_hits_samples a b va vb (ne_of_lt hab)).2]
        · have hne : rest ≠ [] := by
            intro h; subst h
            have : i = 0 := by simpa using hi'
            subst this
            exact hxb (le_refl _)
          have hc : (((ext && first) || decide (a ≤ (b :: rest)[i])) && ((ext && rest.isEmpty) || decide ((b :: rest)[i] ≤ b))) = false := by
            simp [hxb, hne]
          have hlen : 2 ≤ (b :: rest).length := by
            cases rest with
            | nil => exact absurd rfl hne
            | cons c r => simp
          have hrec' : ∀ j < (b :: rest).length, ∃ w, rec (((vals.drop m).drop (j * m)).take m) = some w := by
            intro j hj
            obtain ⟨w, hw⟩ := hrec (j + 1) (by simpa using hj)
            refine ⟨w, ?_⟩
            rw [List.drop_drop]
            have : m + j * m = (j + 1) * m := by ring
            rw [this]; exact hw
          have := ih (vals.drop m) false hlen hs.2 hrec' i hi'
          rw [interpAxis]
          simp only [inLo_inc hab, inHi_inc hab]
          rw [hc]
          simp only [Bool.false_eq_true, if_false]
          rw [this, hdrop]

theorem interpAxis_hits (ext : Bool) (m : Nat) (rec : List K → Option K) (knots vals : List K) (first : Bool)
    (h2 : 2 ≤ knots.length) (hs : StrictMono knots)
    (hrec : ∀ j < knots.length, ∃ w, rec ((vals.drop (j * m)).take m) = some w) (i : Nat) (hi : i < knots.length) :
    interpAxis ext m rec first knots vals knots[i] = rec ((vals.drop (i * m)).take m) := by
  rcases hs with hs | hs
  · exact interpAxis_hits_inc ext m rec knots vals first h2 hs hrec i hi
  · rw [interpAxis_neg ext m rec knots vals first _ hs]
    have := interpAxis_hits_inc ext m rec (knots.map fun t => -t) vals first (by simpa using h2)
      (strictDec_neg _ hs) (by simpa using hrec) i (by simpa using hi)
    simpa using this

/-- **N-D: the tensor-product interpolant returns the sample at every grid point**, for arbitrary sample
values: at the grid point with per-axis indices `idx` it returns the value stored at flat index `ravel dims idx`. -/
theorem interpFlat_hits_samples (ext : Bool) : ∀ (axes : List (List K)) (vals : List K) (idx : List Nat),
    (∀ ax ∈ axes, 2 ≤ ax.length ∧ StrictMono ax) → vals.length = size (axes.map List.length) → IdxOk axes idx →
    interpFlat ext axes vals (pointAt axes idx) = vals[ravel (axes.map List.length) idx]? := by
  intro axes
  induction axes with
  | nil =>
    intro vals idx _ hv hok
    cases idx with
    | nil =>
      match vals, hv with
      | [v], _ => simp [interpFlat, pointAt, ravel]
    | cons i idx => simp [IdxOk] at hok
  | cons ax rest ih =>
    intro vals idx hax hv hok
    cases idx with
    | nil => simp [IdxOk] at hok
    | cons i idx =>
      obtain ⟨h0, h1⟩ := hok
      have hrest : ∀ a ∈ rest, 2 ≤ a.length ∧ StrictMono a := fun a ha => hax a (by simp [ha])
      simp only [List.map_cons, size_cons] at hv
      set M := size (rest.map List.length) with hM
      have hblk : ∀ j < ax.length, ((vals.drop (j * M)).take M).length = M := by
        intro j hj
        rw [List.length_take, List.length_drop, hv]
        have : (j + 1) * M ≤ ax.length * M := Nat.mul_le_mul_right _ hj
        have e : (j + 1) * M = j * M + M := by ring
        omega
      have hr := ravel_lt_size rest idx h1
      have hrec : ∀ j < ax.length, ∃ w, (fun v => interpFlat ext rest v (pointAt rest idx)) ((vals.drop (j * M)).take M) = some w := by
        intro j hj
        simp only
        rw [ih _ idx hrest (hblk j hj) h1]
        exact ⟨_, List.getElem?_eq_getElem (by rw [hblk j hj]; exact hr)⟩
      have hg : ax.getD i 0 = ax[i] := by simp [List.getD_eq_getElem?_getD, List.getElem?_eq_getElem h0]
      simp only [pointAt, interpFlat, List.map_cons, ravel, hg]
      rw [interpAxis_hits ext M _ ax vals true (hax ax (by simp)).1 (hax ax (by simp)).2 hrec i h0]
      rw [ih _ idx hrest (hblk i h0) h1, take_drop_getElem? _ _ _ _ hr]

/-- **Linear interpolation on separated / regular grids returns the sample at every sample point** (any dimension,
knots strictly monotone in either direction per axis, arbitrary sample values `f q`, `q` running over the grid in
hcipy order). -/
theorem linearSeparated_hits_samples (ext : Bool) (sep : List (List K)) (f : List K → K)
    (hax : ∀ ax ∈ sep, 2 ≤ ax.length ∧ StrictMono ax) :
    ∀ q ∈ gridPts sep, linearSeparated ext sep ((gridPts sep).map f) q = some (f q) := by
  intro q hq
  obtain ⟨t, ht, rfl⟩ := List.mem_map.mp hq
  obtain ⟨idx, hok, rfl⟩ := mem_tensorPts_pointAt sep.reverse t ht
  unfold linearSeparated
  rw [List.reverse_reverse, interpFlat_hits_samples ext sep.reverse _ idx
    (fun ax ha => hax ax (List.mem_reverse.mp ha)) (by simp [gridPts, tensorPts_len]) hok]
  simp only [gridPts, List.map_map, List.getElem?_map, tensorPts_getElem?_ravel sep.reverse idx hok,
    Option.map_some, Function.comp]

/-! ## barycentric interpolation -/

/-- **Barycentric interpolation on any simplex (any dimension) is exact on affine functions**:
whatever weights `λ_i` with `Σ λ_i = 1` and `Σ λ_i v_i = p` the triangulation provides,
`Σ λ_i f(v_i) = f(p)`. -/
theorem barycentric_affine_exact (c0 : K) (c lam : List K) (verts : List (List K)) (p : List K)
    (hlen : lam.length = verts.length) (hv : ∀ v ∈ verts, v.length = c.length)
    (hsum : lam.sum = 1) (hcomb : wsum c.length lam verts = p) :
    combine lam (verts.map (affine c0 c)) = affine c0 c p := by
  rw [combine_affine c0 c lam verts hlen hv, hsum, hcomb]; simp [affine]

/-- the executable 2-D instance (`LinearNDInterpolator` on the triangle SciPy picks): exact on
affine functions for every non-degenerate triangle and every point, inside or not -/
theorem linearTriangle_affine_exact (a b c p : K × K) (c0 cx cy : K)
    (hdet : (b.1 - a.1) * (c.2 - a.2) - (c.1 - a.1) * (b.2 - a.2) ≠ 0) :
    linearTriangle a b c (c0 + cx * a.1 + cy * a.2) (c0 + cx * b.1 + cy * b.2)
      (c0 + cx * c.1 + cy * c.2) p = some (c0 + cx * p.1 + cy * p.2) := by
  simp only [linearTriangle, bary2, hdet, if_false, Option.map_some, combine, dot,
    List.zipWith_cons_cons, List.zipWith_nil_right, List.sum_cons, List.sum_nil, Nat.cast_one,
    Option.some.injEq]
  generalize hd : (b.1 - a.1) * (c.2 - a.2) - (c.1 - a.1) * (b.2 - a.2) = d at hdet ⊢
  field_simp
  rw [← hd]; ring

/-- and it returns the vertex values at the vertices, for arbitrary values -/
theorem linearTriangle_hits_vertices (a b c : K × K) (va vb vc : K)
    (hdet : (b.1 - a.1) * (c.2 - a.2) - (c.1 - a.1) * (b.2 - a.2) ≠ 0) :
    linearTriangle a b c va vb vc a = some va ∧ linearTriangle a b c va vb vc b = some vb ∧
      linearTriangle a b c va vb vc c = some vc := by
  refine ⟨?_, ?_, ?_⟩ <;>
  · simp only [linearTriangle, bary2, hdet, if_false, Option.map_some, combine, dot,
      List.zipWith_cons_cons, List.zipWith_nil_right, List.sum_cons, List.sum_nil, Nat.cast_one,
      Option.some.injEq]
    generalize hd : (b.1 - a.1) * (c.2 - a.2) - (c.1 - a.1) * (b.2 - a.2) = d at hdet ⊢
    field_simp
    rw [← hd]; ring

/-- the hypotheses are satisfiable: `hdet` on the unit triangle; `hsum`, `hcomb` for a triangle
(2-D) and a tetrahedron (3-D) with concrete weights -/
example : (((1 : Rat), (0 : Rat)).1 - ((0 : Rat), (0 : Rat)).1) * (((0 : Rat), (1 : Rat)).2 - ((0 : Rat), (0 : Rat)).2)
    - (((0 : Rat), (1 : Rat)).1 - ((0 : Rat), (0 : Rat)).1) * (((1 : Rat), (0 : Rat)).2 - ((0 : Rat), (0 : Rat)).2) ≠ 0 := by
  norm_num

example : linearTriangle ((0 : Rat), (0 : Rat)) (1, 0) (0, 1) 5 7 11 (1 / 4, 1 / 2) = some (17 / 2) := by
  decide +kernel

example : ([1 / 4, 1 / 4, 1 / 2] : List Rat).sum = 1 ∧
    wsum 2 ([1 / 4, 1 / 4, 1 / 2] : List Rat) [[0, 0], [1, 0], [0, 1]] = [1 / 4, 1 / 2] := by
  constructor <;> decide +kernel

example : ([1 / 2, 1 / 8, 1 / 8, 1 / 4] : List Rat).sum = 1 ∧
    wsum 3 ([1 / 2, 1 / 8, 1 / 8, 1 / 4] : List Rat) [[0, 0, 0], [2, 0, 0], [0, 4, 0], [0, 0, 8]] = [1 / 4, 1 / 2, 2] := by
  constructor <;> decide +kernel

/-! ## barycentric interpolation on a `d`-simplex: the executed functions `baryN`, `linearSimplex`, `hullLoc`
(driver ops `lin-simplex`, `simplex-loc`; the harness hands over the simplex SciPy's Delaunay triangulation found) -/

/-- **Whatever `baryN` returns are barycentric coordinates**, in every dimension: one weight per vertex, all
points of the right dimension, `Σ λ_i = 1` and `Σ λ_i v_i = p`. -/
theorem baryN_sound (verts : List (List K)) (p lam : List K) (h : baryN verts p = some lam) :
    lam.length = verts.length ∧ (∀ v ∈ verts, v.length = p.length) ∧ lam.sum = 1 ∧
      wsum p.length lam verts = p := by
  cases verts with
  | nil => simp [baryN] at h
  | cons v0 rest =>
    simp only [baryN] at h
    split at h
    · simp at h
    · rename_i hc
      split at h
      · simp at h
      · split at h
        · rename_i hok
          simp only [Option.some.injEq] at h
          subst h
          simp only [Bool.or_eq_true, decide_eq_true_eq, Bool.not_eq_eq_eq_not, Bool.not_true, not_or, Bool.not_eq_false,
            List.all_eq_true, beq_iff_eq] at hc
          refine ⟨?_, hc.2, ?_, hok.2⟩
          · simp [cramer, edges]
          · simpa using hok.1
        · simp at h

/-- **The executed interpolant is exact on affine functions, every dimension `d`, every simplex**: whenever
`linearSimplex` answers (it refuses only malformed / degenerate simplices), the answer for the samples of an affine
function is the affine function at `p` — `barycentric_affine_exact` instantiated at the executed definition.
`_partial`: for `d ≥ 4` it is not proved that the function *does* answer on every non-degenerate simplex (Cramer's rule for
Laplace-expanded determinants of arbitrary size); for `d = 1, 2, 3` the unconditional statements follow below. -/
theorem linearSimplex_affine_exact_partial (verts : List (List K)) (c0 : K) (c p : List K) (v : K)
    (hc : c.length = p.length) (h : linearSimplex verts (verts.map (affine c0 c)) p = some v) :
    v = affine c0 c p := by
  simp only [linearSimplex, Option.map_eq_some_iff] at h
  obtain ⟨lam, hl, rfl⟩ := h
  obtain ⟨h1, h2, h3, h4⟩ := baryN_sound verts p lam hl
  exact barycentric_affine_exact c0 c lam verts p h1 (fun w hw => by rw [h2 w hw, hc]) h3 (by rw [hc]; exact h4)

/-- …and for `d = 1, 2, 3` it does answer on **every non-degenerate simplex** (`simplexDet ≠ 0`, the determinant the
driver evaluates), at every point `p` (inside the simplex or not) -/
theorem linearSimplex_affine_exact_d1 (a b x c0 k : K) (hdet : simplexDet [[a], [b]] ≠ 0) :
    linearSimplex [[a], [b]] ([[a], [b]].map (affine c0 [k])) [x] = some (affine c0 [k] [x]) := by
  rw [List.map, List.map, List.map, linearSimplex_eq_d1 a b _ _ x hdet]
  rw [simplexDet_d1] at hdet
  simp only [affine, dot, List.zipWith_cons_cons, List.zipWith_nil_right, List.sum_cons, List.sum_nil, Option.some.injEq]
  field_simp
  ring

theorem linearSimplex_affine_exact_d2 (a1 a2 b1 b2 c1 c2 p1 p2 c0 k1 k2 : K)
    (hdet : simplexDet [[a1, a2], [b1, b2], [c1, c2]] ≠ 0) :
    linearSimplex [[a1, a2], [b1, b2], [c1, c2]] ([[a1, a2], [b1, b2], [c1, c2]].map (affine c0 [k1, k2])) [p1, p2]
      = some (affine c0 [k1, k2] [p1, p2]) := by
  rw [List.map, List.map, List.map, List.map, linearSimplex_eq_d2 _ _ _ _ _ _ _ _ _ p1 p2 hdet]
  rw [simplexDet_d2] at hdet
  simp only [affine, dot, List.zipWith_cons_cons, List.zipWith_nil_right, List.sum_cons, List.sum_nil, Option.some.injEq]
  generalize hd : det2 (b1 - a1) (b2 - a2) (c1 - a1) (c2 - a2) = d at hdet ⊢
  unfold det2 at hd ⊢
  field_simp
  rw [← hd]; ring

theorem linearSimplex_affine_exact_d3 (a1 a2 a3 b1 b2 b3 c1 c2 c3 e1 e2 e3 p1 p2 p3 c0 k1 k2 k3 : K)
    (hdet : simplexDet [[a1, a2, a3], [b1, b2, b3], [c1, c2, c3], [e1, e2, e3]] ≠ 0) :
    linearSimplex [[a1, a2, a3], [b1, b2, b3], [c1, c2, c3], [e1, e2, e3]]
        ([[a1, a2, a3], [b1, b2, b3], [c1, c2, c3], [e1, e2, e3]].map (affine c0 [k1, k2, k3])) [p1, p2, p3]
      = some (affine c0 [k1, k2, k3] [p1, p2, p3]) := by
  rw [List.map, List.map, List.map, List.map, List.map, linearSimplex_eq_d3 _ _ _ _ _ _ _ _ _ _ _ _ _ _ _ _ p1 p2 p3 hdet]
  rw [simplexDet_d3] at hdet
  simp only [affine, dot, List.zipWith_cons_cons, List.zipWith_nil_right, List.sum_cons, List.sum_nil, Option.some.injEq]
  generalize hd : det3 (b1 - a1) (b2 - a2) (b3 - a3) (c1 - a1) (c2 - a2) (c3 - a3) (e1 - a1) (e2 - a2) (e3 - a3) = d at hdet ⊢
  unfold det3 at hd ⊢
  field_simp
  rw [← hd]; ring

/-- **The executed interpolant returns the vertex values at the vertices** (arbitrary values), `d = 1, 2, 3` -/
theorem linearSimplex_hits_vertices_d1 (a b va vb : K) (hdet : simplexDet [[a], [b]] ≠ 0) :
    linearSimplex [[a], [b]] [va, vb] [a] = some va ∧ linearSimplex [[a], [b]] [va, vb] [b] = some vb := by
  rw [linearSimplex_eq_d1 a b va vb a hdet, linearSimplex_eq_d1 a b va vb b hdet]
  rw [simplexDet_d1] at hdet
  constructor
  · simp
  · simp only [Option.some.injEq]; field_simp; ring

theorem linearSimplex_hits_vertices_d2 (a1 a2 b1 b2 c1 c2 va vb vc : K)
    (hdet : simplexDet [[a1, a2], [b1, b2], [c1, c2]] ≠ 0) :
    linearSimplex [[a1, a2], [b1, b2], [c1, c2]] [va, vb, vc] [a1, a2] = some va ∧
    linearSimplex [[a1, a2], [b1, b2], [c1, c2]] [va, vb, vc] [b1, b2] = some vb ∧
    linearSimplex [[a1, a2], [b1, b2], [c1, c2]] [va, vb, vc] [c1, c2] = some vc := by
  rw [linearSimplex_eq_d2 _ _ _ _ _ _ va vb vc a1 a2 hdet, linearSimplex_eq_d2 _ _ _ _ _ _ va vb vc b1 b2 hdet,
    linearSimplex_eq_d2 _ _ _ _ _ _ va vb vc c1 c2 hdet]
  rw [simplexDet_d2] at hdet
  generalize hd : det2 (b1 - a1) (b2 - a2) (c1 - a1) (c2 - a2) = d at hdet ⊢
  unfold det2 at hd ⊢
  refine ⟨?_, ?_, ?_⟩ <;>
  · simp only [Option.some.injEq]
    field_simp
    rw [← hd]; ring

theorem linearSimplex_hits_vertices_d3 (a1 a2 a3 b1 b2 b3 c1 c2 c3 e1 e2 e3 va vb vc ve : K)
    (hdet : simplexDet [[a1, a2, a3], [b1, b2, b3], [c1, c2, c3], [e1, e2, e3]] ≠ 0) :
    linearSimplex [[a1, a2, a3], [b1, b2, b3], [c1, c2, c3], [e1, e2, e3]] [va, vb, vc, ve] [a1, a2, a3] = some va ∧
    linearSimplex [[a1, a2, a3], [b1, b2, b3], [c1, c2, c3], [e1, e2, e3]] [va, vb, vc, ve] [b1, b2, b3] = some vb ∧
    linearSimplex [[a1, a2, a3], [b1, b2, b3], [c1, c2, c3], [e1, e2, e3]] [va, vb, vc, ve] [c1, c2, c3] = some vc ∧
    linearSimplex [[a1, a2, a3], [b1, b2, b3], [c1, c2, c3], [e1, e2, e3]] [va, vb, vc, ve] [e1, e2, e3] = some ve := by
  rw [linearSimplex_eq_d3 _ _ _ _ _ _ _ _ _ _ _ _ va vb vc ve a1 a2 a3 hdet,
    linearSimplex_eq_d3 _ _ _ _ _ _ _ _ _ _ _ _ va vb vc ve b1 b2 b3 hdet,
    linearSimplex_eq_d3 _ _ _ _ _ _ _ _ _ _ _ _ va vb vc ve c1 c2 c3 hdet,
    linearSimplex_eq_d3 _ _ _ _ _ _ _ _ _ _ _ _ va vb vc ve e1 e2 e3 hdet]
  rw [simplexDet_d3] at hdet
  generalize hd : det3 (b1 - a1) (b2 - a2) (b3 - a3) (c1 - a1) (c2 - a2) (c3 - a3) (e1 - a1) (e2 - a2) (e3 - a3) = d at hdet ⊢
  unfold det3 at hd ⊢
  refine ⟨?_, ?_, ?_, ?_⟩ <;>
  · simp only [Option.some.injEq]
    field_simp
    rw [← hd]; ring

/-- the 2-D model of the earlier rounds (`bary2` / `linearTriangle`, op `lin-tri`) is the `d = 2` instance of the
general executed function -/
theorem linearTriangle_eq_linearSimplex (a b c p : K × K) (va vb vc : K) :
    linearTriangle a b c va vb vc p = linearSimplex [[a.1, a.2], [b.1, b.2], [c.1, c.2]] [va, vb, vc] [p.1, p.2] := by
  by_cases hdet : (b.1 - a.1) * (c.2 - a.2) - (c.1 - a.1) * (b.2 - a.2) = 0
  · have h0 : simplexDet [[a.1, a.2], [b.1, b.2], [c.1, c.2]] = 0 := by
      rw [simplexDet_d2, det2, ← hdet]; ring
    have : baryN [[a.1, a.2], [b.1, b.2], [c.1, c.2]] [p.1, p.2] = none := by
      simp only [simplexDet] at h0
      simp [baryN, h0]
    simp [linearTriangle, bary2, hdet, linearSimplex, this]
  · have h0 : simplexDet [[a.1, a.2], [b.1, b.2], [c.1, c.2]] ≠ 0 := by
      rw [simplexDet_d2, det2]; intro h; exact hdet (by rw [← h]; ring)
    rw [linearSimplex_eq_d2 _ _ _ _ _ _ va vb vc p.1 p.2 h0]
    simp only [linearTriangle, bary2, hdet, if_false, Option.map_some, combine, dot,
      List.zipWith_cons_cons, List.zipWith_nil_right, List.sum_cons, List.sum_nil, Nat.cast_one, Option.some.injEq, det2]
    generalize hd : (b.1 - a.1) * (c.2 - a.2) - (c.1 - a.1) * (b.2 - a.2) = d at hdet ⊢
    have hd' : (b.1 - a.1) * (c.2 - a.2) - (b.2 - a.2) * (c.1 - a.1) = d := by rw [← hd]; ring
    rw [hd']
    field_simp
    ring

/-- **The exact location test** the known finding `unstructured-linear-hull-boundary` is keyed on: `hullLoc` answers
`boundary` exactly when all barycentric coordinates are `≥ 0` (the point is in the closed simplex) and all vertices
that carry weight belong to one facet of the convex hull (so the point is a convex combination of vertices of that
facet: it lies in the facet — `baryN_zero_on_facet` drops the weightless vertices one at a time). -/
theorem hullLoc_boundary_iff (lam : List K) (ids : List Nat) (facets : List (List Nat)) :
    hullLoc lam ids facets = Loc.boundary ↔
      (∀ l ∈ lam, 0 ≤ l) ∧ ∃ G ∈ facets, ∀ li ∈ List.zip lam ids, li.1 ≠ 0 → li.2 ∈ G := by
  unfold hullLoc inSimplex
  by_cases hin : (lam.all fun l => decide (0 ≤ l)) = true
  · have hall : ∀ l ∈ lam, 0 ≤ l := by simpa using hin
    simp only [hin, Bool.not_true, Bool.false_eq_true, if_false]
    by_cases hb : (facets.any fun G => (List.zip lam ids).all fun li => decide (li.1 = 0) || G.contains li.2) = true
    · simp only [hb, if_true, true_iff]
      refine ⟨hall, ?_⟩
      obtain ⟨G, hG, hp⟩ := List.any_eq_true.mp hb
      refine ⟨G, hG, fun li hli hne => ?_⟩
      have := List.all_eq_true.mp hp li hli
      simp only [Bool.or_eq_true, decide_eq_true_eq, List.contains_iff_mem] at this
      exact this.resolve_left hne
    · simp only [hb, Bool.false_eq_true, if_false]
      constructor
      · intro h; exact absurd h (by decide)
      · rintro ⟨_, G, hG, hp⟩
        exfalso
        apply hb
        refine List.any_eq_true.mpr ⟨G, hG, List.all_eq_true.mpr fun li hli => ?_⟩
        simp only [Bool.or_eq_true, decide_eq_true_eq, List.contains_iff_mem]
        by_cases h0 : li.1 = 0
        · exact Or.inl h0
        · exact Or.inr (hp li hli h0)
  · simp only [hin, Bool.not_false, if_true]
    constructor
    · intro h; exact absurd h (by decide)
    · rintro ⟨hall, _⟩
      exact absurd (by simpa using hall) hin

/-- a point strictly inside the simplex (all `λ > 0`) of a triangulation in which no hull facet contains all the
vertices of the simplex is `inside`: a fill value there is a plain violation, never the known finding -/
theorem hullLoc_inside_of_pos (lam : List K) (ids : List Nat) (facets : List (List Nat))
    (hpos : ∀ l ∈ lam, 0 < l) (hf : ∀ G ∈ facets, ∃ li ∈ List.zip lam ids, li.2 ∉ G) :
    hullLoc lam ids facets = Loc.inside := by
  have hnb : hullLoc lam ids facets ≠ Loc.boundary := by
    rw [Ne, hullLoc_boundary_iff]
    rintro ⟨_, G, hG, hp⟩
    obtain ⟨li, hli, hn⟩ := hf G hG
    exact hn (hp li hli (ne_of_gt (hpos li.1 (List.of_mem_zip hli).1)))
  have hin : (lam.all fun l => decide (0 ≤ l)) = true := by
    simp only [List.all_eq_true, decide_eq_true_eq]; exact fun l hl => le_of_lt (hpos l hl)
  unfold hullLoc inSimplex at hnb ⊢
  simp only [hin, Bool.not_true, Bool.false_eq_true, if_false] at hnb ⊢
  by_cases hb : (facets.any fun G => (List.zip lam ids).all fun li => decide (li.1 = 0) || G.contains li.2) = true
  · rw [if_pos hb] at hnb; exact absurd rfl hnb
  · rw [if_neg hb]

/-- …and a point that `baryN` puts on the facet opposite vertex `i` (`λ_i = 0`) **is** a combination of the other
`d` vertices with the remaining weights (which still add up to one): it lies on that facet's plane; with all
`λ ≥ 0` it lies in the facet itself. -/
theorem baryN_zero_on_facet (verts : List (List K)) (p lam : List K) (i : Nat)
    (h : baryN verts p = some lam) (hi : lam[i]? = some 0) :
    (lam.eraseIdx i).sum = 1 ∧ wsum p.length (lam.eraseIdx i) (verts.eraseIdx i) = p := by
  obtain ⟨h1, h2, h3, h4⟩ := baryN_sound verts p lam h
  exact ⟨by rw [sum_eraseIdx_zero lam i hi, h3], by rw [wsum_eraseIdx_zero p.length lam verts i hi h2 h1, h4]⟩

/-- the hypotheses are satisfiable, and the executed functions compute: a tetrahedron (d = 3), its vertex, a point on a
hull facet, a point inside, a point outside; a degenerate simplex is refused -/
example : simplexDet [[(0 : Rat), 0, 0], [2, 0, 0], [0, 4, 0], [0, 0, 8]] ≠ 0 ∧
    simplexDet [[(0 : Rat)], [3]] ≠ 0 ∧ simplexDet [[(0 : Rat), 0], [1, 0], [0, 1]] ≠ 0 := by
  refine ⟨?_, ?_, ?_⟩ <;> decide +kernel

example : baryN [[(0 : Rat), 0, 0], [2, 0, 0], [0, 4, 0], [0, 0, 8]] [1 / 4, 1 / 2, 2] = some [1 / 2, 1 / 8, 1 / 8, 1 / 4] ∧
    linearSimplex [[(0 : Rat), 0, 0], [2, 0, 0], [0, 4, 0], [0, 0, 8]] [1, 2, 3, 4] [1 / 4, 1 / 2, 2] = some (17 / 8) ∧
    hullLoc ([1 / 2, 1 / 8, 1 / 8, 1 / 4] : List Rat) [5, 6, 7, 8] [[5, 6, 7], [6, 7, 8]] = Loc.inside ∧
    (baryN [[(0 : Rat), 0, 0], [2, 0, 0], [0, 4, 0], [0, 0, 8]] [1, 2, 0]).map (hullLoc · [5, 6, 7, 8] [[5, 6, 8], [5, 7, 8]]) = some Loc.inside ∧
    (baryN [[(0 : Rat), 0, 0], [2, 0, 0], [0, 4, 0], [0, 0, 8]] [1, 2, 0]).map (hullLoc · [5, 6, 7, 8] [[5, 6, 8], [7, 6, 9]]) = some Loc.boundary ∧
    (baryN [[(0 : Rat), 0, 0], [2, 0, 0], [0, 4, 0], [0, 0, 8]] [2, 0, 0]).map (hullLoc · [5, 6, 7, 8] [[1, 2, 6]]) = some Loc.boundary ∧
    (baryN [[(0 : Rat), 0, 0], [2, 0, 0], [0, 4, 0], [0, 0, 8]] [3, 0, 0]).map (hullLoc · [5, 6, 7, 8] [[5, 6, 7]]) = some Loc.outside ∧
    baryN [[(0 : Rat), 0], [1, 1], [2, 2]] [1, 0] = none := by
  refine ⟨?_, ?_, ?_, ?_, ?_, ?_, ?_, ?_⟩ <;> decide +kernel

/-- `hpos`, `hf` of `hullLoc_inside_of_pos` -/
example : (∀ l ∈ ([1 / 2, 1 / 4, 1 / 4] : List Rat), 0 < l) ∧
    ∀ G ∈ [[1, 2], [2, 7]], ∃ li ∈ List.zip ([1 / 2, 1 / 4, 1 / 4] : List Rat) [1, 2, 3], li.2 ∉ G := by
  constructor
  · decide +kernel
  · intro G hG
    simp only [List.mem_cons, List.not_mem_nil, or_false] at hG
    rcases hG with rfl | rfl
    · exact ⟨(1 / 4, 3), by decide +kernel, by decide⟩
    · exact ⟨(1 / 2, 1), by decide +kernel, by decide⟩

example : ∃ lam : List Rat, baryN [[(0 : Rat), 0], [1, 0], [0, 1]] [1 / 2, 1 / 2] = some lam ∧ lam[0]? = some 0 :=
  ⟨[0, 1 / 2, 1 / 2], by decide +kernel, by decide +kernel⟩

/-! ## nearest neighbour -/

/-- **Nearest neighbour returns a minimiser of the squared distance** (scattered points, any
dimension). -/
theorem nearest_returns_closest (pts : List (List K)) (p : List K) (i : Nat)
    (h : nearestUnstructuredIdx pts p = some i) :
    ∃ hi : i < pts.length, ∀ q ∈ pts, dist2 pts[i] p ≤ dist2 q p := by
  unfold nearestUnstructuredIdx at h
  cases hr : argminFrom p 0 pts with
  | none => rw [hr] at h; simp at h
  | some r =>
    obtain ⟨j, d⟩ := r
    rw [hr] at h
    simp only [Option.map_some, Option.some.injEq] at h
    subst h
    obtain ⟨⟨k, hk, hlt, hd⟩, hmin⟩ := argminFrom_spec p pts 0 j d hr
    simp only [Nat.zero_add] at hk
    subst hk
    exact ⟨hlt, fun q hq => by rw [hd]; exact hmin q hq⟩

/-- and it is defined whenever there is at least one sample point -/
theorem nearest_defined (pts : List (List K)) (p : List K) (h : pts ≠ []) :
    ∃ i, nearestUnstructuredIdx pts p = some i := by
  cases pts with
  | nil => exact absurd rfl h
  | cons q pts =>
    unfold nearestUnstructuredIdx
    simp only [argminFrom]
    cases argminFrom p (0 + 1) pts with
    | none => exact ⟨0, rfl⟩
    | some r =>
      obtain ⟨j, d⟩ := r
      by_cases hle : dist2 q p ≤ d <;> simp [hle]

/-- **The set the driver prints is exactly the set of closest samples**: `minimisers` (executed by
the op `near-uns`, compared with what SciPy's k-d tree returns) contains `i` iff `pts[i]` is at
minimal squared distance from `p`. -/
theorem mem_minimisers (pts : List (List K)) (p : List K) (i : Nat) :
    i ∈ minimisers pts p ↔ ∃ hi : i < pts.length, ∀ q ∈ pts, dist2 pts[i] p ≤ dist2 q p := by
  unfold minimisers
  cases hr : argminFrom p 0 pts with
  | none =>
    have hnil : pts = [] := by
      cases pts with
      | nil => rfl
      | cons q' pts' =>
        simp only [argminFrom] at hr
        split at hr <;> (try split at hr) <;> simp at hr
    subst hnil
    simp
  | some r =>
    obtain ⟨j, d⟩ := r
    obtain ⟨⟨k, _, hk, hd⟩, hmin⟩ := argminFrom_spec p pts 0 j d hr
    simp only [List.mem_filter, List.mem_range, beq_iff_eq]
    constructor
    · rintro ⟨hi, he⟩
      refine ⟨hi, fun q hq => ?_⟩
      have : pts.getD i [] = pts[i] := by simp [List.getD_eq_getElem?_getD, List.getElem?_eq_getElem hi]
      rw [this] at he
      rw [he]; exact hmin q hq
    · rintro ⟨hi, hall⟩
      refine ⟨hi, ?_⟩
      have : pts.getD i [] = pts[i] := by simp [List.getD_eq_getElem?_getD, List.getElem?_eq_getElem hi]
      rw [this]
      apply le_antisymm
      · rw [← hd]; exact hall _ (List.getElem_mem hk)
      · exact hmin _ (List.getElem_mem hi)

/-- the index `nearestUnstructured` uses is one of them (the first) -/
theorem nearestUnstructuredIdx_mem_minimisers (pts : List (List K)) (p : List K) (i : Nat)
    (h : nearestUnstructuredIdx pts p = some i) : i ∈ minimisers pts p :=
  (mem_minimisers pts p i).mpr (nearest_returns_closest pts p i h)

/-- **value level**: what `nearestUnstructured` returns (executed by `near-uns`, printed after
`first`) is the sample value of a closest point -/
theorem nearestUnstructured_value (pts : List (List K)) (vals : List K) (p : List K) (v : K)
    (h : nearestUnstructured pts vals p = some v) :
    ∃ i, i ∈ minimisers pts p ∧ vals[i]? = some v ∧
      ∃ hi : i < pts.length, ∀ q ∈ pts, dist2 pts[i] p ≤ dist2 q p := by
  unfold nearestUnstructured at h
  cases hi : nearestUnstructuredIdx pts p with
  | none => rw [hi] at h; simp at h
  | some i =>
    rw [hi] at h
    exact ⟨i, nearestUnstructuredIdx_mem_minimisers pts p i hi, h, nearest_returns_closest pts p i hi⟩

/-- and it is defined as soon as there is a sample point and one value per point -/
theorem nearestUnstructured_defined (pts : List (List K)) (vals : List K) (p : List K)
    (h : pts ≠ []) (hl : vals.length = pts.length) : ∃ v, nearestUnstructured pts vals p = some v := by
  obtain ⟨i, hi⟩ := nearest_defined pts p h
  obtain ⟨hlt, _⟩ := nearest_returns_closest pts p i hi
  exact ⟨vals[i]'(by omega), by simp [nearestUnstructured, hi]⟩

/-- nearest neighbour along one *ascending* axis: the knot picked is a closest knot -/
theorem nearestAxis_returns_closest_ascending : ∀ (knots : List K) (x : K) (i : Nat), StrictInc knots →
    nearestAxis knots x = some i →
    ∃ h : i < knots.length, ∀ y ∈ knots, (knots[i] - x) * (knots[i] - x) ≤ (y - x) * (y - x) := by
  intro knots
  induction knots with
  | nil => intro x i _ h; simp [nearestAxis] at h
  | cons a knots ih =>
    intro x i hs h
    match knots, hs, h with
    | [], _, h => simp [nearestAxis] at h
    | b :: rest, hs, h =>
      have hab : a < b := hs.1
      rw [nearestAxis_inc_cons hab] at h
      by_cases hc : a ≤ x ∧ x ≤ b
      · have hc' : (decide (a ≤ x) && decide (x ≤ b)) = true := by simp [hc.1, hc.2]
        simp only [hc', if_true] at h
        by_cases hm : (x - a) + (x - a) ≤ b - a
        · simp only [hm, if_true, Option.some.injEq] at h
          subst h
          refine ⟨by simp, ?_⟩
          intro y hy
          simp only [List.getElem_cons_zero]
          have e : (a - x) * (a - x) = (x - a) * (x - a) := by ring
          rw [e]
          rcases List.mem_cons.mp hy with rfl | hy
          · exact le_of_eq e.symm
          · have hby : b ≤ y := by
              rcases List.mem_cons.mp hy with rfl | hy'
              · exact le_refl _
              · exact le_of_lt (knot_gt b rest hs.2 y hy')
            exact mul_self_le_mul_self (by linarith [hc.1]) (by linarith)
        · simp only [hm, if_false, Option.some.injEq] at h
          subst h
          refine ⟨by simp, ?_⟩
          intro y hy
          simp only [List.getElem_cons_succ, List.getElem_cons_zero]
          push Not at hm
          rcases List.mem_cons.mp hy with rfl | hy
          · have e : (y - x) * (y - x) = (x - y) * (x - y) := by ring
            rw [e]
            exact mul_self_le_mul_self (by linarith [hc.2]) (by linarith)
          · have hby : b ≤ y := by
              rcases List.mem_cons.mp hy with rfl | hy'
              · exact le_refl _
              · exact le_of_lt (knot_gt b rest hs.2 y hy')
            exact mul_self_le_mul_self (by linarith [hc.2]) (by linarith)
      · have hc' : (decide (a ≤ x) && decide (x ≤ b)) = false := by
          simp only [Bool.and_eq_false_iff, decide_eq_false_iff_not]; tauto
        simp only [hc', Bool.false_eq_true, if_false] at h
        cases hr : nearestAxis (b :: rest) x with
        | none => rw [hr] at h; simp at h
        | some j =>
          rw [hr] at h
          simp only [Option.map_some, Option.some.injEq] at h
          subst h
          obtain ⟨hj, hmin⟩ := ih x j hs.2 hr
          have hbx : b ≤ x := nearestAxis_ge_head rest b x j hs.2 hr
          refine ⟨by simpa using hj, ?_⟩
          intro y hy
          simp only [List.getElem_cons_succ]
          rcases List.mem_cons.mp hy with rfl | hy
          · have h1 := hmin b (by simp)
            have e : (y - x) * (y - x) = (x - y) * (x - y) := by ring
            have e2 : (b - x) * (b - x) = (x - b) * (x - b) := by ring
            rw [e]
            refine le_trans h1 ?_
            rw [e2]
            exact mul_self_le_mul_self (by linarith) (by linarith)
          · exact hmin y hy

/-- nearest neighbour along one *descending* axis (SciPy flips it; ties go to the smaller
coordinate): the knot picked is a closest knot -/
theorem nearestAxis_returns_closest_descending : ∀ (knots : List K) (x : K) (i : Nat), StrictDec knots →
    nearestAxis knots x = some i →
    ∃ h : i < knots.length, ∀ y ∈ knots, (knots[i] - x) * (knots[i] - x) ≤ (y - x) * (y - x) := by
  intro knots
  induction knots with
  | nil => intro x i _ h; simp [nearestAxis] at h
  | cons a knots ih =>
    intro x i hs h
    match knots, hs, h with
    | [], _, h => simp [nearestAxis] at h
    | b :: rest, hs, h =>
      have hab : b < a := hs.1
      rw [nearestAxis_dec_cons hab] at h
      by_cases hc : x ≤ a ∧ b ≤ x
      · have hc' : (decide (x ≤ a) && decide (b ≤ x)) = true := by simp [hc.1, hc.2]
        simp only [hc', if_true] at h
        by_cases hm : (x - b) + (x - b) ≤ a - b
        · -- closer to (or tie with) `b`: index 1
          simp only [hm, if_true, Option.some.injEq] at h
          subst h
          refine ⟨by simp, ?_⟩
          intro y hy
          simp only [List.getElem_cons_succ, List.getElem_cons_zero]
          have e : (b - x) * (b - x) = (x - b) * (x - b) := by ring
          rw [e]
          rcases List.mem_cons.mp hy with rfl | hy
          · exact mul_self_le_mul_self (by linarith [hc.2]) (by linarith)
          · have hyb : y ≤ b := by
              rcases List.mem_cons.mp hy with rfl | hy'
              · exact le_refl _
              · exact le_of_lt (knot_lt b rest hs.2 y hy')
            have e2 : (y - x) * (y - x) = (x - y) * (x - y) := by ring
            rw [e2]
            exact mul_self_le_mul_self (by linarith [hc.2]) (by linarith)
        · simp only [hm, if_false, Option.some.injEq] at h
          subst h
          refine ⟨by simp, ?_⟩
          intro y hy
          simp only [List.getElem_cons_zero]
          push Not at hm
          rcases List.mem_cons.mp hy with rfl | hy
          · exact le_refl _
          · have hyb : y ≤ b := by
              rcases List.mem_cons.mp hy with rfl | hy'
              · exact le_refl _
              · exact le_of_lt (knot_lt b rest hs.2 y hy')
            have e2 : (y - x) * (y - x) = (x - y) * (x - y) := by ring
            rw [e2]
            exact mul_self_le_mul_self (by linarith [hc.1]) (by linarith)
      · have hc' : (decide (x ≤ a) && decide (b ≤ x)) = false := by
          simp only [Bool.and_eq_false_iff, decide_eq_false_iff_not]; tauto
        simp only [hc', Bool.false_eq_true, if_false] at h
        cases hr : nearestAxis (b :: rest) x with
        | none => rw [hr] at h; simp at h
        | some j =>
          rw [hr] at h
          simp only [Option.map_some, Option.some.injEq] at h
          subst h
          obtain ⟨hj, hmin⟩ := ih x j hs.2 hr
          have hxb : x ≤ b := nearestAxis_le_head rest b x j hs.2 hr
          refine ⟨by simpa using hj, ?_⟩
          intro y hy
          simp only [List.getElem_cons_succ]
          rcases List.mem_cons.mp hy with rfl | hy
          · have h1 := hmin b (by simp)
            refine le_trans h1 ?_
            exact mul_self_le_mul_self (by linarith) (by linarith)
          · exact hmin y hy

/-- **Nearest neighbour on separated grids, one axis** (ascending or descending): the knot picked
is a closest knot. -/
theorem nearestAxis_returns_closest (knots : List K) (x : K) (i : Nat) (hs : StrictMono knots)
    (h : nearestAxis knots x = some i) :
    ∃ h : i < knots.length, ∀ y ∈ knots, (knots[i] - x) * (knots[i] - x) ≤ (y - x) * (y - x) := by
  rcases hs with hs | hs
  · exact nearestAxis_returns_closest_ascending knots x i hs h
  · exact nearestAxis_returns_closest_descending knots x i hs h

/-- **Nearest neighbour on separated grids, any dimension**: the grid point assembled from the
per-axis choices is at minimal squared distance among *all* grid points. -/
theorem nearest_separated_returns_closest : ∀ (axes : List (List K)) (p : List K) (idx : List Nat),
    (∀ ax ∈ axes, StrictMono ax) → nearestIdx axes p = some idx →
    ∀ q ∈ tensorPts axes, dist2 (pointAt axes idx) p ≤ dist2 q p := by
  intro axes
  induction axes with
  | nil =>
    intro p idx _ h q hq
    cases p with
    | nil => simp [nearestIdx] at h; subst h; simp [tensorPts] at hq; subst hq; simp [pointAt]
    | cons x p => simp [nearestIdx] at h
  | cons ax rest ih =>
    intro p idx hs h q hq
    cases p with
    | nil => simp [nearestIdx] at h
    | cons x p =>
      simp only [nearestIdx] at h
      cases h1 : nearestAxis ax x with
      | none => rw [h1] at h; simp at h
      | some i =>
        cases h2 : nearestIdx rest p with
        | none => rw [h1, h2] at h; simp at h
        | some idx' =>
          rw [h1, h2] at h
          simp only [Option.some.injEq] at h
          subst h
          obtain ⟨hi, hmin⟩ := nearestAxis_returns_closest ax x i (hs ax (by simp)) h1
          simp only [tensorPts, List.mem_flatMap, List.mem_map] at hq
          obtain ⟨t, ht, q', hq', rfl⟩ := hq
          have := ih p idx' (fun a ha => hs a (by simp [ha])) h2 q' hq'
          simp only [pointAt, dist2_cons]
          have hg : ax.getD i 0 = ax[i] := by simp [List.getD_eq_getElem?_getD, List.getElem?_eq_getElem hi]
          rw [hg]
          exact add_le_add (hmin t ht) this

/-- **Definedness companion** of `nearest_separated_returns_closest`: inside the sampled domain (per-axis knots
strictly monotone in either direction, at least two of them) the per-axis search succeeds on every axis -/
theorem nearestIdx_defined : ∀ (axes : List (List K)) (p : List K),
    (∀ ax ∈ axes, 2 ≤ ax.length ∧ StrictMono ax) → InDomain axes p → ∃ idx, nearestIdx axes p = some idx := by
  intro axes
  induction axes with
  | nil =>
    intro p _ hin
    cases p with
    | nil => exact ⟨[], rfl⟩
    | cons x p => simp [InDomain] at hin
  | cons ax rest ih =>
    intro p hax hin
    cases p with
    | nil => simp [InDomain] at hin
    | cons x p =>
      obtain ⟨h1, h2⟩ := hin
      obtain ⟨i, hi⟩ := nearestAxis_defined ax x (hax ax (by simp)).1 (hax ax (by simp)).2 h1
      obtain ⟨idx, hidx⟩ := ih p (fun a ha => hax a (by simp [ha])) h2
      exact ⟨i :: idx, by simp [nearestIdx, hi, hidx]⟩

/-- **Nearest neighbour on separated grids returns the value at a closest grid point**: whenever the
interpolator built from the samples `f q` (`q` running over the grid in hcipy order) returns a value at `p`, that
value is `f q` for a grid point `q` at minimal distance from `p` among all grid points. -/
theorem nearestSeparated_value (sep : List (List K)) (f : List K → K) (p : List K) (v : K)
    (hs : ∀ ax ∈ sep, StrictMono ax) (h : nearestSeparated sep ((gridPts sep).map f) p = some v) :
    ∃ q ∈ gridPts sep, v = f q ∧ ∀ q' ∈ gridPts sep, dist2 q p ≤ dist2 q' p := by
  unfold nearestSeparated at h
  cases hi : nearestIdx sep.reverse p.reverse with
  | none => simp [hi] at h
  | some idx =>
    rw [hi] at h
    simp only at h
    obtain ⟨hok, hlen⟩ := nearestIdx_ok sep.reverse p.reverse idx hi
    have hget := tensorPts_getElem?_ravel sep.reverse idx hok
    simp only [gridPts, List.map_map, List.getElem?_map, hget, Option.map_some, Function.comp,
      Option.some.injEq] at h
    refine ⟨(pointAt sep.reverse idx).reverse, ?_, h.symm, ?_⟩
    · exact List.mem_map.mpr ⟨_, pointAt_mem _ _ hok, rfl⟩
    · intro q' hq'
      obtain ⟨t, ht, rfl⟩ := List.mem_map.mp hq'
      have hmin := nearest_separated_returns_closest sep.reverse p.reverse idx
        (fun ax ha => hs ax (List.mem_reverse.mp ha)) hi t ht
      have hl1 : (pointAt sep.reverse idx).length = p.reverse.length := by
        rw [tensorPts_length _ _ (pointAt_mem _ _ hok), hlen]
      have hl2 : t.length = p.reverse.length := by rw [tensorPts_length _ _ ht, hlen]
      have e1 := dist2_reverse (pointAt sep.reverse idx) p.reverse hl1
      have e2 := dist2_reverse t p.reverse hl2
      rw [List.reverse_reverse] at e1 e2
      rw [e1, e2]
      exact hmin

/-- … and it does return a value at every point of the sampled domain -/
theorem nearestSeparated_defined (sep : List (List K)) (f : List K → K) (p : List K)
    (hax : ∀ ax ∈ sep, 2 ≤ ax.length ∧ StrictMono ax) (hin : InDomain sep.reverse p.reverse) :
    ∃ v, nearestSeparated sep ((gridPts sep).map f) p = some v := by
  obtain ⟨idx, hi⟩ := nearestIdx_defined sep.reverse p.reverse (fun ax ha => hax ax (List.mem_reverse.mp ha)) hin
  obtain ⟨hok, _⟩ := nearestIdx_ok sep.reverse p.reverse idx hi
  have hget := tensorPts_getElem?_ravel sep.reverse idx hok
  exact ⟨f (pointAt sep.reverse idx).reverse, by
    simp only [nearestSeparated, hi, gridPts, List.map_map, List.getElem?_map, hget, Option.map_some, Function.comp]⟩

/-! ## binning -/

/-- **`statistic='sum'` conserves the total**, any shape, any factor. -/
theorem bin_sum_conserved (s : Nat) (dims : List Nat) (v : List K) (h : v.length = fineSize s dims) :
    (binND s dims v).sum = v.sum :=
  binND_sum s dims v h

/-- **`statistic='mean'` conserves the mean** (regular grids). -/
theorem bin_mean_conserved (s : Nat) (dims : List Nat) (v : List K) (h : v.length = fineSize s dims) :
    (binMean s dims v).sum / (size dims : K) = v.sum / (fineSize s dims : K) := by
  have : (binMean s dims v).sum = (binND s dims v).sum / ((s ^ dims.length : Nat) : K) := by
    simp only [binMean, div_eq_mul_inv]
    rw [List.sum_map_mul_right]
    simp
  rw [this, binND_sum s dims v h, fineSize_eq]
  push_cast
  rw [div_div, mul_comm]

/-- **Weighted mean on non-regular grids conserves the weighted total**: with the binned
weights `W = bin(w)` all non-zero, `Σ_bins mean_k · W_k = Σ v·w`. -/
theorem bin_weighted_mean_conserved (s : Nat) (dims : List Nat) (v w : List K)
    (hv : v.length = fineSize s dims) (hw : w.length = fineSize s dims)
    (hpos : ∀ x ∈ binND s dims w, x ≠ 0) :
    (List.zipWith (· * ·) (binWMean s dims v w) (binND s dims w)).sum
      = (List.zipWith (· * ·) v w).sum := by
  have key : ∀ (N D : List K), (∀ x ∈ D, x ≠ 0) → N.length = D.length →
      List.zipWith (· * ·) (List.zipWith (· / ·) N D) D = N := by
    intro N
    induction N with
    | nil => intro D _ _; simp
    | cons n N ih =>
      intro D hD hl
      cases D with
      | nil => simp at hl
      | cons d D =>
        simp only [List.length_cons, Nat.add_right_cancel_iff] at hl
        have hd : d ≠ 0 := hD d (by simp)
        simp only [List.zipWith_cons_cons, ih D (fun x hx => hD x (by simp [hx])) hl]
        congr 1
        field_simp
  have hvw : (List.zipWith (· * ·) v w).length = fineSize s dims := by simp [hv, hw]
  unfold binWMean
  rw [key _ _ hpos (by rw [binND_length _ _ _ hvw, binND_length _ _ _ hw]), binND_sum _ _ _ hvw]

/-- `hpos` is satisfiable (weights `[1,2,1,3]`, factor 2: binned weights `[3,4]`); without it the
model divides by zero silently: `binWMean 2 [1] [3,5] [1,-1] = [0]` -/
example : (∀ x ∈ binND 2 [2] ([1, 2, 1, 3] : List Rat), x ≠ 0) ∧
    binWMean 2 [1] ([3, 5] : List Rat) [1, -1] = [0] := by
  constructor <;> decide +kernel

/-- **Per-axis factors** (`subsample_field(field, np.array([sx, sy]))`, D180; executed by the driver
op `bins`): `statistic='sum'` conserves the total for any list of factors. -/
theorem bins_sum_conserved (ss dims : List Nat) (hl : ss.length = dims.length) (v : List K)
    (h : v.length = fineSizes ss dims) : (binNDs ss dims v).sum = v.sum :=
  binNDs_sum ss dims hl v h

/-- per-axis factors, `statistic='mean'`: the mean is conserved -/
theorem bins_mean_conserved (ss dims : List Nat) (hl : ss.length = dims.length) (v : List K)
    (h : v.length = fineSizes ss dims) :
    (binMeans ss dims v).sum / (size dims : K) = v.sum / (fineSizes ss dims : K) := by
  have : (binMeans ss dims v).sum = (binNDs ss dims v).sum / ((ss.foldr (· * ·) 1 : Nat) : K) := by
    simp only [binMeans, div_eq_mul_inv]
    rw [List.sum_map_mul_right]
    simp
  rw [this, binNDs_sum ss dims hl v h, fineSizes_eq ss dims hl]
  push_cast
  rw [div_div, mul_comm]

/-- per-axis factors on a non-regular grid (driver op `binws`): the weighted mean conserves the weighted total,
for weights of any size (the only hypothesis on the weights is that no bin has total weight zero: there is no
threshold below which weights count as equal — the seeded `np.allclose` shortcut violates this at small units). -/
theorem bins_weighted_mean_conserved (ss dims : List Nat) (hl : ss.length = dims.length) (v w : List K)
    (hv : v.length = fineSizes ss dims) (hw : w.length = fineSizes ss dims)
    (hpos : ∀ x ∈ binNDs ss dims w, x ≠ 0) :
    (List.zipWith (· * ·) (binWMeans ss dims v w) (binNDs ss dims w)).sum
      = (List.zipWith (· * ·) v w).sum := by
  have hvw : (List.zipWith (· * ·) v w).length = fineSizes ss dims := by simp [hv, hw]
  unfold binWMeans
  rw [zipWith_div_mul_cancel _ _ hpos (by rw [binNDs_length _ _ hl _ hvw, binNDs_length _ _ hl _ hw]),
    binNDs_sum _ _ hl _ hvw]

example : ([2, 1] : List Nat).length = ([1, 2] : List Nat).length ∧
    (∀ x ∈ binNDs [2, 1] [1, 2] ([1, 2, 1, 3] : List Rat), x ≠ 0) := by
  constructor <;> decide +kernel

/-- **The weighted mean does not depend on the unit of the coordinates**: multiplying all weights by a common factor
`c ≠ 0` (pixel areas in m² instead of in units of (10 µm)²: `c = S^d`) leaves every binned value unchanged — for
weights of any size, every shape, every per-axis factor.  (The seeded `np.allclose(weights, weights[0])` shortcut,
whose absolute tolerance makes the result depend on `c`, contradicts this theorem.) -/
theorem bins_weighted_mean_unit_invariant (ss dims : List Nat) (v w : List K) (c : K) (hc : c ≠ 0) :
    binWMeans ss dims v (w.map (c * ·)) = binWMeans ss dims v w := by
  unfold binWMeans
  rw [zipWith_mul_smul, binNDs_smul, binNDs_smul, zipWith_div_smul c hc]

example : binWMeans [2] [2] ([1, 2, 3, 5] : List Rat) ([1, 3, 1, 1].map ((1 / 1024 : Rat) * ·)) = [7 / 4, 4] := by
  decide +kernel

/-- the binned field has one value per coarse pixel -/
theorem bins_length (ss dims : List Nat) (hl : ss.length = dims.length) (v : List K)
    (h : v.length = fineSizes ss dims) : (binNDs ss dims v).length = size dims :=
  binNDs_length ss dims hl v h

/-- a scalar factor is the per-axis list with that factor repeated (what `np.ones(ndim) * s` makes of it):
the two driver ops `bin` and `bins` run the same function there -/
theorem bins_uniform_eq_bin (s : Nat) (dims : List Nat) (v : List K) :
    binNDs (dims.map fun _ => s) dims v = binND s dims v ∧
    binMeans (dims.map fun _ => s) dims v = binMean s dims v := by
  refine ⟨binNDs_replicate s dims v, ?_⟩
  have hp : (dims.map fun _ => s).foldr (· * ·) 1 = s ^ dims.length := by
    induction dims with
    | nil => rfl
    | cons n rest ih => simp only [List.map_cons, List.foldr_cons, List.length_cons, pow_succ, ih, mul_comm]
  unfold binMeans binMean
  rw [binNDs_replicate, hp]

example : ([2, 3] : List Nat).length = ([3, 2] : List Nat).length ∧
    ([1, 2, 3, 4, 5, 6, 7, 8, 9, 10, 11, 12, 13, 14, 15, 16, 17, 18, 19, 20, 21, 22, 23, 24, 25, 26, 27, 28, 29, 30, 31, 32, 33, 34, 35, 36] : List Rat).length
      = fineSizes [2, 3] [3, 2] := by
  decide

/-- **The index map of binning** (what "conserves" does not say: *which* fine samples a coarse pixel adds up).
Pixel `c` (multi-index, slowest axis first) of the binned array is the sum of the fine samples over the box
`c·s + r`, `r_k < s_k`: `boxSums` is the closed form `Σ_{r_0<s_0} Σ_{r_1<s_1} … v[flatIdx fine (c·s + r)]`
(Model/Binning.lean; itself run by the driver op `binpix` and compared with the pixel the real code returns).
A `binNDs` that permuted or mis-grouped pixels would violate this theorem. -/
theorem bins_pixel (dims ss c : List Nat) (hl : ss.length = dims.length) (hc : InBounds dims c) (v : List K)
    (h : v.length = fineSizes ss dims) :
    (binNDs ss dims v).getD (flatIdx dims c) 0 = boxSums dims ss c (fun f => v.getD f 0) :=
  binNDs_getD dims ss c hl hc v h

/-- the same for one common factor `s` -/
theorem bin_pixel (s : Nat) (dims c : List Nat) (hc : InBounds dims c) (v : List K)
    (h : v.length = fineSize s dims) :
    (binND s dims v).getD (flatIdx dims c) 0 = boxSums dims (dims.map fun _ => s) c (fun f => v.getD f 0) :=
  binND_getD s dims c hc v h

/-- two dimensions written out: pixel `(cy, cx)` of the `ny × nx` image is
`Σ_{ry<sy} Σ_{rx<sx} v[(cy·sy + ry)·(nx·sx) + (cx·sx + rx)]` -/
theorem bins_pixel_2d (ny nx sy sx cy cx : Nat) (hy : cy < ny) (hx : cx < nx) (v : List K)
    (h : v.length = ny * sy * (nx * sx)) :
    (binNDs [sy, sx] [ny, nx] v).getD (cy * nx + cx) 0 =
      ((List.range sy).map fun ry => ((List.range sx).map fun rx =>
        v.getD ((cy * sy + ry) * (nx * sx) + (cx * sx + rx)) 0).sum).sum := by
  have := bins_pixel [ny, nx] [sy, sx] [cy, cx] rfl ⟨hy, hx, trivial⟩ v (by simp [fineSizes, h])
  simpa [flatIdx, boxSums, size, fineSizes] using this

example : InBounds [2, 3] [1, 2] ∧ ¬ InBounds [2, 3] [1, 3] := by decide

/-- **Tensor components are binned independently**: binning the stacked components equals
stacking the binned components. -/
theorem bin_tensor_independent (s : Nat) (dims : List Nat) (comps : List (List K))
    (h : ∀ c ∈ comps, c.length = fineSize s dims) :
    binTensor s dims comps.length comps.flatten = (comps.map (binND s dims)).flatten := by
  unfold binTensor
  rw [chunks_flatten_eq _ _ h, List.flatMap_def]

/-- **Tensor components are binned independently — about the reshape the code performs.**  `binTensorL` is the
code's single `reshape` to `tensor_shape + (n_1, s_1, …)` followed by one reduction over the `s` axes (the tensor
axes are unbinned leading axes of the same array; driver op `bintl`).  Binning the stacked components that way
equals stacking the separately binned components, for every tensor shape and per-axis factors.  (The theorem
`bin_tensor_independent` above is about `binTensor`, which is component-wise by definition.) -/
theorem bin_tensor_reshape_independent (ss dims tshape : List Nat) (comps : List (List K))
    (hn : comps.length = size tshape) (h : ∀ c ∈ comps, c.length = fineSizes ss dims) :
    binTensorL ss dims tshape comps.flatten = (comps.map (binNDs ss dims)).flatten := by
  have hlen : comps.flatten.length = size tshape * fineSizes ss dims := by
    rw [List.length_flatten, List.map_congr_left (g := fun _ => fineSizes ss dims) h]
    simp [hn]
  rw [binTensorL_eq ss dims tshape _ hlen, ← hn, chunks_flatten_eq _ _ h, List.flatMap_def]

/-- the same for one common factor and for `statistic='mean'` (regular grids) -/
theorem bin_tensor_reshape_independent_uniform (s : Nat) (dims tshape : List Nat) (comps : List (List K))
    (hn : comps.length = size tshape) (h : ∀ c ∈ comps, c.length = fineSize s dims) :
    binTensorL (dims.map fun _ => s) dims tshape comps.flatten = (comps.map (binND s dims)).flatten ∧
    (binTensorL (dims.map fun _ => s) dims tshape comps.flatten).map (· / ((s ^ dims.length : Nat) : K))
      = (comps.map (binMean s dims)).flatten := by
  have h' : ∀ c ∈ comps, c.length = fineSizes (dims.map fun _ => s) dims := by
    intro c hc; rw [fineSizes_replicate]; exact h c hc
  have e := bin_tensor_reshape_independent (dims.map fun _ => s) dims tshape comps hn h'
  have e2 : comps.map (binNDs (dims.map fun _ => s) dims) = comps.map (binND s dims) :=
    List.map_congr_left fun c _ => binNDs_replicate s dims c
  rw [e, e2]
  refine ⟨rfl, ?_⟩
  rw [List.map_flatten, List.map_map]
  rfl

example : ([[1, 2, 3, 4], [5, 6, 7, 8]] : List (List Rat)).length = size [2] ∧
    binTensorL [2] [2] [2] ([1, 2, 3, 4, 5, 6, 7, 8] : List Rat) = [3, 7, 11, 15] := by
  constructor <;> decide +kernel

/-! ## supersampling -/

/-- **Supersampled evaluation of an affine function equals its direct evaluation** whenever
the dither vectors add up to zero (in particular for symmetric dithers), for any point, any
per-point cell widths `δ`, any dimension. -/
theorem supersampled_affine_exact [CharZero K] (D : Nat) (c0 : K) (c x δ : List K)
    (ds : List (List K)) (hc : c.length = D) (hx : x.length = D) (hδ : δ.length = D)
    (hds : ds ≠ []) (hz : ZeroMean D ds) :
    superMean (affine c0 c) ds x δ = affine c0 c x := by
  obtain ⟨hlen, hsum⟩ := hz
  have hn : (ds.length : K) ≠ 0 := by
    have : ds.length ≠ 0 := by simpa using hds
    exact_mod_cast this
  have h1 : ∀ d ∈ ds, affine c0 c (dithered x δ d)
      = affine c0 c x + dot (List.zipWith (· * ·) c δ) d := by
    intro d hd
    have hdl := hlen d hd
    simp only [affine, dithered]
    rw [dot_zipWith_add c x _ (by rw [hx, hc]) (by simp [hdl, hδ, hc]), dot_zipWith_mul]
    ring
  unfold superMean
  rw [List.map_congr_left h1]
  have h2 : (ds.map fun d => affine c0 c x + dot (List.zipWith (· * ·) c δ) d).sum
      = ds.length * affine c0 c x + (ds.map (dot (List.zipWith (· * ·) c δ))).sum := by
    clear h1 hsum hlen hn hds
    induction ds with
    | nil => simp
    | cons d ds ih => simp only [List.map_cons, List.sum_cons, ih, List.length_cons]; push_cast; ring
  rw [h2, sum_dot_vsum _ D (by simp [hc, hδ]) ds hlen, hsum, dot_vzero, add_zero,
    mul_div_cancel_left₀ _ hn]

/-- the dithers `make_uniform_grid(n, 1)` along one axis add up to zero -/
theorem dithers1_sum_zero [CharZero K] (n : Nat) (hn : 0 < n) : (dithers1 n : List K).sum = 0 := by
  have hn' : (n : K) ≠ 0 := by exact_mod_cast (Nat.pos_iff_ne_zero.mp hn)
  unfold dithers1
  rw [sum_map_affine_form (List.range n) (fun j => ((2 * j + 1 : ℕ) : K)) ((2 * n : ℕ) : K)
    (((1 : ℕ) : K) / ((2 : ℕ) : K)), sum_odd]
  simp only [List.length_range]
  push_cast
  field_simp
  ring

/-! ### the dither lists themselves (`make_uniform_grid(oversampling, 1)`): length, count, symmetry, range -/

/-- one dither per sub-pixel along an axis -/
theorem dithers1_length (n : Nat) : (dithers1 n : List K).length = n := by simp [dithers1]

/-- **the number of dithered evaluations is `Π n_k`** — the divisor `len(dithers)` of `statistic='mean'` and the
factor by which `'sum'` exceeds the mean, for every per-axis oversampling -/
theorem dithers_count (ns : List Nat) :
    (tensorPts (ns.map dithers1) : List (List K)).length = ns.foldr (· * ·) 1 := by
  rw [tensorPts_len, List.map_map]
  have : (List.length ∘ (dithers1 : Nat → List K)) = id := by
    funext n; simp [dithers1_length]
  rw [this, List.map_id]; rfl

/-- the `j`-th dither along an axis oversampled `n` times -/
theorem dithers1_getElem? (n j : Nat) (hj : j < n) :
    (dithers1 n : List K)[j]? = some (((2 * j + 1 : Nat) : K) / ((2 * n : Nat) : K) - ((1 : Nat) : K) / ((2 : Nat) : K)) := by
  simp [dithers1, List.getElem?_map, List.getElem?_range hj]

/-- **the dither offsets are symmetric**: the `j`-th from the left is minus the `j`-th from the right, for every
oversampling factor (so they add up to zero, `dithers1_sum_zero`, and an odd factor has the offset 0 in the middle) -/
theorem dithers1_symmetric [CharZero K] (n j : Nat) (hj : j < n) (d : K) (hd : (dithers1 n : List K)[j]? = some d) :
    (dithers1 n : List K)[n - 1 - j]? = some (-d) := by
  rw [dithers1_getElem? n j hj] at hd
  rw [dithers1_getElem? n (n - 1 - j) (by omega)]
  simp only [Option.some.injEq] at hd ⊢
  subst hd
  have hn : ((2 * n : Nat) : K) ≠ 0 := by
    have : 2 * n ≠ 0 := by omega
    exact_mod_cast this
  have hsum : ((2 * (n - 1 - j) + 1 : Nat) : K) + ((2 * j + 1 : Nat) : K) = ((2 * n : Nat) : K) := by
    have : 2 * (n - 1 - j) + 1 + (2 * j + 1) = 2 * n := by omega
    exact_mod_cast this
  have h2 : (((2 : Nat) : K)) ≠ 0 := by norm_num
  field_simp
  have := hsum
  push_cast at this ⊢
  linarith

/-- **every dither stays inside its pixel**: `-1/2 < d < 1/2` -/
theorem dithers1_range (n : Nat) (d : K) (hd : d ∈ (dithers1 n : List K)) : -(1 / 2 : K) < d ∧ d < 1 / 2 := by
  simp only [dithers1, List.mem_map, List.mem_range] at hd
  obtain ⟨j, hj, rfl⟩ := hd
  have hn : (0 : K) < ((2 * n : Nat) : K) := by
    have : 0 < 2 * n := by omega
    exact_mod_cast this
  have h1 : (0 : K) < ((2 * j + 1 : Nat) : K) / ((2 * n : Nat) : K) := div_pos (by exact_mod_cast Nat.succ_pos _) hn
  have h2 : ((2 * j + 1 : Nat) : K) / ((2 * n : Nat) : K) < 1 := by
    rw [div_lt_one hn]
    have : 2 * j + 1 < 2 * n := by omega
    exact_mod_cast this
  constructor <;> push_cast at h1 h2 ⊢ <;> linarith

example : (dithers1 3 : List Rat) = [-1 / 3, 0, 1 / 3] ∧ (dithers1 2 : List Rat) = [-1 / 4, 1 / 4] ∧
    (tensorPts ([2, 3].map dithers1) : List (List Rat)).length = 6 := by
  refine ⟨?_, ?_, ?_⟩ <;> decide +kernel

/-- **`make_supersampled_grid` puts its points exactly at the dithered positions**: along every axis of a regular
grid the `dim·n` fine coordinates are, pixel by pixel, the coarse coordinate `zero + i·delta` plus `delta` times the
dither offsets `dithers1 n` — for every oversampling factor `n > 0`.  (So evaluating a generator on the supersampled
grid and binning it back is the same set of evaluations as the dithered sub-grids of `evaluate_supersampled`.) -/
theorem superAxis_eq_dithered [CharZero K] (zero delta : K) (dim n : Nat) (hn : 0 < n) :
    superAxis zero delta dim n =
      (List.range dim).flatMap fun (i : Nat) => (dithers1 n : List K).map fun d => (zero + (i : K) * delta) + d * delta := by
  have hn' : (n : K) ≠ 0 := by exact_mod_cast (Nat.pos_iff_ne_zero.mp hn)
  have key : ∀ i : Nat, ((List.range n).map fun j => i * n + j).map (fun (k : Nat) =>
        (zero - delta / ((2 : Nat) : K) + delta / (n : K) / ((2 : Nat) : K)) + (k : K) * (delta / (n : K)))
      = (dithers1 n : List K).map fun d => (zero + (i : K) * delta) + d * delta := by
    intro i
    unfold dithers1
    rw [List.map_map, List.map_map]
    apply List.map_congr_left
    intro j _
    simp only [Function.comp]
    push_cast
    field_simp
    ring
  unfold superAxis
  rw [range_mul_eq_flatMap, List.map_flatMap]
  simp only [key]

/-- the supersampled axis has `dim·n` points, and the mean of the `n` sub-pixel coordinates of a pixel is the pixel's
own coordinate (binning the supersampled grid gives the grid back) -/
theorem superAxis_length (zero delta : K) (dim n : Nat) : (superAxis zero delta dim n).length = dim * n := by
  simp [superAxis]

example : superAxis (0 : Rat) 1 2 2 = [-1 / 4, 1 / 4, 3 / 4, 5 / 4] ∧
    superAxis (1 : Rat) (-3) 1 3 = [2, 1, 0] := by
  constructor <;> decide +kernel

/-- hcipy's dither set — the tensor product of the per-axis uniform dithers, any oversampling
factors — has zero mean -/
theorem uniform_dithers_zero_mean [CharZero K] (ns : List Nat) (h : ∀ n ∈ ns, 0 < n) :
    ZeroMean ns.length (tensorPts (ns.map dithers1) : List (List K)) := by
  constructor
  · intro d hd
    have := tensorPts_length (ns.map dithers1 : List (List K)) d hd
    simpa using this
  · have := vsum_tensorPts_zero (ns.map dithers1 : List (List K)) (by
      intro ax hax
      obtain ⟨n, hn, rfl⟩ := List.mem_map.mp hax
      exact dithers1_sum_zero n (h n hn))
    simpa using this

/-- **Supersampled evaluation with hcipy's own dithers is exact on affine functions**: every
dimension, every per-axis oversampling factor, every point and cell widths. -/
theorem supersampled_affine_exact_uniform [CharZero K] (ns : List Nat) (h : ∀ n ∈ ns, 0 < n)
    (c0 : K) (c x δ : List K) (hc : c.length = ns.length) (hx : x.length = ns.length)
    (hδ : δ.length = ns.length) :
    superMean (affine c0 c) (tensorPts (ns.map dithers1)) x δ = affine c0 c x := by
  apply supersampled_affine_exact ns.length c0 c x δ _ hc hx hδ _ (uniform_dithers_zero_mean ns h)
  -- the dither set is not empty
  have key : ∀ ns : List Nat, (∀ n ∈ ns, 0 < n) → (tensorPts (ns.map dithers1) : List (List K)) ≠ [] := by
    intro ns
    induction ns with
    | nil => intro _; simp [tensorPts]
    | cons n ns ih =>
      intro hn
      have hpos : 0 < n := hn n (by simp)
      have hr := ih (fun m hm => hn m (by simp [hm]))
      obtain ⟨q, hq⟩ := List.exists_mem_of_ne_nil _ hr
      have hd : (dithers1 n : List K) ≠ [] := by
        unfold dithers1
        intro he
        have : (List.range n).length = 0 := by
          have := congrArg List.length he
          simpa using this
        simp at this; omega
      obtain ⟨t, ht⟩ := List.exists_mem_of_ne_nil _ hd
      intro he
      have : (t :: q) ∈ tensorPts ((n :: ns).map dithers1 : List (List K)) := by
        simp only [List.map_cons, tensorPts, List.mem_flatMap, List.mem_map]
        exact ⟨t, ht, q, hq, rfl⟩
      rw [he] at this
      simp at this
  exact key ns h

/-- **`evaluate_supersampled` of an affine generator** (the executable model, separated grid
`sep`, per-axis oversampling `ns`): every output sample is the generator evaluated at the grid
point itself — the cell widths `δ` drop out. -/
theorem evalSupersampled_affine_exact [CharZero K] (sep : List (List K)) (ns : List Nat)
    (h : ∀ n ∈ ns, 0 < n) (c0 : K) (c : List K) (hc : c.length = ns.length)
    (hs : sep.length = ns.length) :
    evalSupersampled (affine c0 c) sep ns =
      (gridPts (sep.map fun ax => List.zip ax (deltas ax))).map fun pt => affine c0 c (pt.map Prod.fst) := by
  unfold evalSupersampled
  apply List.map_congr_left
  intro pt hpt
  have hl := gridPts_length _ pt hpt
  simp only [List.length_map] at hl
  exact supersampled_affine_exact_uniform ns h c0 c _ _ hc (by simp [hl, hs]) (by simp [hl, hs])

/-- **…in the form of the property**: the result is the generator evaluated on the points of the
grid itself, in hcipy order (`deltas_length`: one cell width per point). -/
theorem evalSupersampled_affine_eq_direct [CharZero K] (sep : List (List K)) (ns : List Nat)
    (h : ∀ n ∈ ns, 0 < n) (c0 : K) (c : List K) (hc : c.length = ns.length)
    (hs : sep.length = ns.length) (h2 : ∀ ax ∈ sep, 2 ≤ ax.length) :
    evalSupersampled (affine c0 c) sep ns = (gridPts sep).map (affine c0 c) := by
  rw [evalSupersampled_affine_exact sep ns h c0 c hc hs, ← gridPts_zip_deltas sep h2, List.map_map]
  rfl

/-- the same about the generator the driver op `ss` executes (`poly` with zero quadratic part) -/
theorem evalSupersampled_poly_zero_eq_direct [CharZero K] (sep : List (List K)) (ns : List Nat)
    (h : ∀ n ∈ ns, 0 < n) (c0 : K) (c : List K) (hc : c.length = ns.length)
    (hs : sep.length = ns.length) (h2 : ∀ ax ∈ sep, 2 ≤ ax.length) (n : Nat) :
    evalSupersampled (poly c0 c (List.replicate n 0)) sep ns = (gridPts sep).map (affine c0 c) := by
  rw [poly_zero]; exact evalSupersampled_affine_eq_direct sep ns h c0 c hc hs h2

/-! ## Old: the unrepaired tree (documentation of D11 / D12, not evidence: /repo is repaired and the
harness never sends `old`) -/

/-- D11: with the axes handed over un-reversed, the affine field `1 + 2x + 3y` on
`x = [0,1,2]`, `y = [0,1,3]` is not reproduced at `(3/2, 2)` (12½ instead of 10), and a
non-square grid is refused altogether. -/
theorem Old_linearSeparated_wrong :
    linearSeparatedOld false [[0, 1, 2], [0, 1, 3]] [1, 3, 5, 4, 6, 8, 10, 12, 14] [(3 / 2 : Rat), 2]
      = some (25 / 2) ∧
    linearSeparated false [[0, 1, 2], [0, 1, 3]] [1, 3, 5, 4, 6, 8, 10, 12, 14] [(3 / 2 : Rat), 2]
      = some 10 ∧
    linearSeparatedOld false [[0, 1, 2, 4], [0, 1, 3]] [1, 3, 5, 9, 4, 6, 8, 12, 10, 12, 14, 18] [(1 : Rat), 1]
      = none := by
  refine ⟨?_, ?_, ?_⟩ <;> decide +kernel

/-- D12: the unrepaired unstructured nearest interpolator returns the `k`-th *source* sample
for the `k`-th evaluation point, which is not the closest sample. -/
theorem Old_nearestUnstructured_wrong :
    nearestUnstructuredOld [[0, 0], [1, 0], [0, 1]] [(10 : Rat), 20, 30] 0 [1, 0] = some 10 ∧
    nearestUnstructured [[0, 0], [1, 0], [0, 1]] [(10 : Rat), 20, 30] [1, 0] = some 20 := by
  constructor <;> decide +kernel

/-! ## non-vacuity of the hypotheses -/

example : StrictInc ([0, 1, 3] : List Rat) ∧ StrictDec ([2, -1] : List Rat) ∧
    InDomain [[0, 1, 3], [(2 : Rat), -1]] [2, 0] := by
  refine ⟨⟨by norm_num, by norm_num, trivial⟩, ⟨by norm_num, trivial⟩,
    ⟨0, 3, rfl, rfl, Or.inl ⟨by norm_num, by norm_num⟩⟩,
    ⟨2, -1, rfl, rfl, Or.inr ⟨by norm_num, by norm_num⟩⟩, trivial⟩

/-- mixed axis directions, concretely: `1 + 2x + 3y` on `x = [0,1,2,4]` ascending, `y = [3,1,0]`
descending, linear and nearest -/
example :
    linearSeparated false [[0, 1, 2, 4], [3, 1, 0]] (sampleAffine [[3, 1, 0], [0, 1, 2, 4]] 1 [3, 2]) [(3 / 2 : Rat), 2]
      = some 10 ∧
    nearestSeparated [[0, 1, 2, 4], [3, 1, 0]] (sampleAffine [[3, 1, 0], [0, 1, 2, 4]] 1 [3, 2]) [(3 / 2 : Rat), 2]
      = some 6 := by
  constructor <;> decide +kernel

example : ZeroMean 2 (tensorPts [dithers1 2, dithers1 3] : List (List Rat)) := by
  constructor
  · decide +kernel
  · decide +kernel

example : evalSupersampled (affine (1 : Rat) [2, 3]) [[0, 1, 2, 4], [0, 1, 3]] [2, 3]
    = (gridPts [[0, 1, 2, 4], [0, 1, 3]]).map (affine 1 [2, 3]) := by decide +kernel

/-! ### round 6: the dithered sub-grids keep the coordinate system (seeded class C18-11) -/

/-- **Sub-grids keep the coordinate system**: every grid `evaluate_supersampled` hands to the generator (driver op
`subgrids`, compared with the class and the coordinates of the grids the real generator receives) has the class of
the grid that is supersampled — a polar grid is never relabelled Cartesian — for every per-axis oversampling. -/
theorem subGrids_keep_system (g : SGrid K) (ns : List Nat) : ∀ s ∈ subGrids g ns, s.sys = g.sys := by
  intro s hs
  simp only [subGrids, List.mem_map] at hs
  obtain ⟨d, _, rfl⟩ := hs
  rfl

/-- the `k`-th axis of the sub-grid for the dither `d` is the `k`-th axis of the grid shifted by `d_k` times the local
cell widths (`deltas`), the same `x + d·δ` the value model `evalSupersampled` evaluates at (`dithered`) -/
theorem ditherGrid_axis (g : SGrid K) (d : List K) (k : Nat) (ax : List K) (dk : K)
    (hax : g.sep[k]? = some ax) (hd : d[k]? = some dk) :
    (ditherGrid g d).sep[k]? = some (List.zipWith (fun x w => x + dk * w) ax (deltas ax)) := by
  simp [ditherGrid, List.getElem?_zipWith, hax, hd]

example : ∃ (g : SGrid ℚ) (d : List ℚ) (ax : List ℚ) (dk : ℚ), g.sep[0]? = some ax ∧ d[0]? = some dk :=
  ⟨⟨.polar, [[1, 2], [0, 1]]⟩, [1/4, 0], [1, 2], 1/4, rfl, rfl⟩

end HcipyVerif.Interp
