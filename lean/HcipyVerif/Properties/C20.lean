import HcipyVerif.Lemmas.Scheduler

/-!
# C20 — Time evolution fires each scheduled callback once, in order, at its time

All theorems are about `HcipyVerif.Scheduler.loop` / `evolveUntil`, the model of
`DynamicOpticalSystem.evolve_until`, for **every** queue, horizon, callback behaviour `kids`
and fuel; the model is tied to the code by the C20 correspondence (harness/props/c20.py).

Hypotheses used (each has a satisfiability `example` at the end of the file):
* `Inv s`   — the queue is what `add_callback` builds (sorted, counters unique and below the
              next counter) and nothing is scheduled before the current clock;
* `WF kids` — a callback schedules further callbacks no earlier than its own time.
-/
set_option linter.unusedSimpArgs false
set_option linter.unusedVariables false

namespace HcipyVerif.Scheduler

/-- **Invariant preservation, tiling of the elapsed time, and the final clock.**
`intervals_tile`: the integration intervals add up to exactly the clock advance;
`clock_end`: the clock ends within the coalescing threshold below `T`;
the queue left behind holds only entries at or beyond the horizon. -/
theorem loop_clock {kids : Entry → List (Rat × Nat)} (hk : WF kids) (T : Rat) (fuel : Nat) (s : Sys)
    (hi : Inv s) (hT : s.t ≤ T) (hok : (loop kids T fuel s).status = .ok) :
    Inv (loop kids T fuel s).s ∧
    sumDt (loop kids T fuel s).trace = (loop kids T fuel s).s.t - s.t ∧
    (loop kids T fuel s).s.t ≤ T ∧ T - (loop kids T fuel s).s.t ≤ eps ∧
    (∀ q ∈ (loop kids T fuel s).s.queue, T ≤ q.time) := by
  induction fuel generalizing s with
  | zero => simp [loop] at hok
  | succ fuel ih =>
    match hq : s.queue with
    | [] =>
      rw [loop_stop (Or.inl hq)]
      have hl := advance_lag s T hT
      refine ⟨⟨?_, ?_, ?_⟩, advance_sumDt _ _, hl.1, hl.2, ?_⟩ <;>
        simp [advance_queue, hq, Sorted]
    | e :: rest =>
      by_cases ht : e.time < T
      · simp only [loop_cons_status hq ht, loop_cons_s hq ht, loop_cons_trace hq ht] at hok ⊢
        obtain ⟨hi', h1, h2, h3⟩ := next_inv hk hi hq
        have := ih (next kids s e rest) hi' (le_trans h1 (le_of_lt ht)) hok
        obtain ⟨g1, g2, g3, g4, g5⟩ := this
        refine ⟨g1, ?_, g3, g4, g5⟩
        rw [sumDt_append]; simp only [sumDt]; rw [g2, advance_sumDt]
        simp only [next, addAll_t]
        ring
      · rw [loop_stop (Or.inr ⟨e, rest, hq, ht⟩)]
        have hl := advance_lag s T hT
        refine ⟨⟨?_, ?_, ?_⟩, advance_sumDt _ _, hl.1, hl.2, ?_⟩
        · rw [advance_queue]; exact hi.sorted
        · rw [advance_queue, advance_ctr]; exact hi.ctr
        · rw [advance_queue]; intro q hq'
          have hs := hi.sorted; rw [hq] at hs
          unfold Sorted at hs; rw [List.pairwise_cons] at hs
          rw [hq] at hq'
          have : e.time ≤ q.time := by
            rcases List.mem_cons.mp hq' with rfl | h
            · exact le_refl _
            · exact Entry.time_le_of_lt (hs.1 q h)
          push Not at ht
          exact le_trans hl.1 (le_trans ht this)
        · rw [advance_queue]; intro q hq'
          have hs := hi.sorted; rw [hq] at hs
          unfold Sorted at hs; rw [List.pairwise_cons] at hs
          rw [hq] at hq'
          push Not at ht
          rcases List.mem_cons.mp hq' with rfl | h
          · exact ht
          · exact le_trans ht (Entry.time_le_of_lt (hs.1 q h))

/-- **The clock when a callback runs**: every executed callback was scheduled strictly before
the horizon and runs with the clock at most `eps` behind its time (never ahead of it). -/
theorem clock_at_callback {kids : Entry → List (Rat × Nat)} (hk : WF kids) (T : Rat) (fuel : Nat)
    (s : Sys) (hi : Inv s) :
    ∀ e clk, Event.fire e clk ∈ (loop kids T fuel s).trace →
      clk ≤ e.time ∧ e.time - clk ≤ eps ∧ e.time < T := by
  induction fuel generalizing s with
  | zero => simp [loop]
  | succ fuel ih =>
    match hq : s.queue with
    | [] => rw [loop_stop (Or.inl hq)]; intro e' clk h; unfold advance at h; split at h <;> simp at h
    | e :: rest =>
      by_cases ht : e.time < T
      · simp only [loop_cons_status hq ht, loop_cons_s hq ht, loop_cons_trace hq ht]
        obtain ⟨hi', h1, h2, h3⟩ := next_inv hk hi hq
        intro e' clk h
        simp only [List.mem_append, List.mem_cons] at h
        rcases h with h | h | h
        · unfold advance at h; split at h <;> simp at h
        · injection h with e1 e2
          subst e1 e2
          simp only [next, addAll_t] at h1 h2
          exact ⟨h1, h2, ht⟩
        · exact ih _ hi' e' clk h
      · rw [loop_stop (Or.inr ⟨e, rest, hq, ht⟩)]
        intro e' clk h; unfold advance at h; split at h <;> simp at h

theorem fired_lower_bound {kids : Entry → List (Rat × Nat)} (hk : WF kids) (T : Rat) (fuel : Nat)
    (s : Sys) (hi : Inv s) (b : Entry) (hb : Below b s) :
    ∀ f ∈ fired (loop kids T fuel s).trace, b.lt f := by
  induction fuel generalizing s with
  | zero => simp [loop, fired]
  | succ fuel ih =>
    match hq : s.queue with
    | [] => rw [loop_stop (Or.inl hq)]; simp [advance_fired]
    | e :: rest =>
      by_cases ht : e.time < T
      · simp only [loop_cons_status hq ht, loop_cons_s hq ht, loop_cons_trace hq ht]
        simp only [fired_append, advance_fired, fired, List.nil_append, List.mem_cons]
        obtain ⟨hi', -⟩ := next_inv hk hi hq
        have hbe : b.lt e := hb.1 e (by simp [hq])
        rintro f (rfl | hf)
        · exact hbe
        · refine ih _ hi' (below_next hk hq ⟨fun q hq' => hb.1 q (by simp [hq, hq']), hb.2,
            Entry.time_le_of_lt hbe⟩) f hf
      · rw [loop_stop (Or.inr ⟨e, rest, hq, ht⟩)]; simp [advance_fired]

/-- **Order**: the executed callbacks are strictly increasing in `(time, insertion number)`:
non-decreasing time, ties in insertion order — and therefore no callback runs twice. -/
theorem fired_sorted {kids : Entry → List (Rat × Nat)} (hk : WF kids) (T : Rat) (fuel : Nat)
    (s : Sys) (hi : Inv s) : Sorted (fired (loop kids T fuel s).trace) := by
  induction fuel generalizing s with
  | zero => simp [loop, fired, Sorted]
  | succ fuel ih =>
    match hq : s.queue with
    | [] => rw [loop_stop (Or.inl hq)]; simp [advance_fired, Sorted]
    | e :: rest =>
      by_cases ht : e.time < T
      · simp only [loop_cons_status hq ht, loop_cons_s hq ht, loop_cons_trace hq ht]
        simp only [fired_append, advance_fired, fired, List.nil_append]
        obtain ⟨hi', -⟩ := next_inv hk hi hq
        have hs := hi.sorted; rw [hq] at hs
        unfold Sorted at hs ⊢; rw [List.pairwise_cons] at hs ⊢
        refine ⟨?_, ih _ hi'⟩
        exact fired_lower_bound hk T fuel _ hi' e
          (below_next hk hq ⟨hs.1, hi.ctr e (by simp [hq]), le_refl _⟩)
      · rw [loop_stop (Or.inr ⟨e, rest, hq, ht⟩)]; simp [advance_fired, Sorted]

theorem fired_nodup {kids : Entry → List (Rat × Nat)} (hk : WF kids) (T : Rat) (fuel : Nat)
    (s : Sys) (hi : Inv s) : (fired (loop kids T fuel s).trace).Nodup := by
  have := fired_sorted hk T fuel s hi
  unfold Sorted at this
  exact List.Pairwise.imp (R := Entry.lt) (fun {a b} (h : a.lt b) (hab : a = b) => by subst hab; exact Entry.lt_irrefl _ h) this

/-- **Exactly once, part 1 (nothing is lost)**: every queued entry due before the horizon is
executed; every queued entry due at or after the horizon is still queued afterwards. -/
theorem queued_fired_or_pending {kids : Entry → List (Rat × Nat)} (hk : WF kids) (T : Rat)
    (fuel : Nat) (s : Sys) (hi : Inv s) (hok : (loop kids T fuel s).status = .ok) :
    ∀ q ∈ s.queue, (q.time < T → q ∈ fired (loop kids T fuel s).trace) ∧
      (T ≤ q.time → q ∈ (loop kids T fuel s).s.queue) := by
  induction fuel generalizing s with
  | zero => simp [loop] at hok
  | succ fuel ih =>
    match hq : s.queue with
    | [] => simp
    | e :: rest =>
      have hs := hi.sorted; rw [hq] at hs
      unfold Sorted at hs; rw [List.pairwise_cons] at hs
      by_cases ht : e.time < T
      · simp only [loop_cons_status hq ht, loop_cons_s hq ht, loop_cons_trace hq ht] at hok ⊢
        obtain ⟨hi', -⟩ := next_inv hk hi hq
        have IH := ih _ hi' hok
        simp only [fired_append, advance_fired, fired, List.nil_append, List.mem_cons]
        intro q hq'
        rcases hq' with rfl | hq'
        · exact ⟨fun _ => Or.inl rfl, fun h => absurd ht (not_lt.mpr h)⟩
        · have hm : q ∈ (next kids s q rest).queue → True := fun _ => trivial
          have hmem : q ∈ (next kids s e rest).queue :=
            mem_addAll_of_mem (by rw [advance_queue]; exact hq')
          exact ⟨fun h => Or.inr ((IH q hmem).1 h), fun h => (IH q hmem).2 h⟩
      · rw [loop_stop (Or.inr ⟨e, rest, hq, ht⟩)]
        push Not at ht
        intro q hq'
        have hle : e.time ≤ q.time := by
          rcases List.mem_cons.mp hq' with rfl | h
          · exact le_refl _
          · exact Entry.time_le_of_lt (hs.1 q h)
        refine ⟨fun h => absurd (lt_of_le_of_lt (le_trans ht hle) h) (lt_irrefl _), fun _ => ?_⟩
        simp only [advance_queue, hq]; exact hq'

/-- **Exactly once, part 2 (callbacks may schedule callbacks)**: a callback scheduled *by an
executed callback* for a time before the horizon is executed too. -/
theorem kids_fired {kids : Entry → List (Rat × Nat)} (hk : WF kids) (T : Rat)
    (fuel : Nat) (s : Sys) (hi : Inv s) (hok : (loop kids T fuel s).status = .ok) :
    ∀ e ∈ fired (loop kids T fuel s).trace, ∀ c ∈ kids e, c.1 < T →
      ∃ f ∈ fired (loop kids T fuel s).trace, f.time = c.1 ∧ f.id = c.2 ∧ e.lt f := by
  induction fuel generalizing s with
  | zero => simp [loop] at hok
  | succ fuel ih =>
    match hq : s.queue with
    | [] => rw [loop_stop (Or.inl hq)]; simp [advance_fired]
    | e :: rest =>
      by_cases ht : e.time < T
      · simp only [loop_cons_status hq ht, loop_cons_s hq ht, loop_cons_trace hq ht] at hok ⊢
        obtain ⟨hi', -⟩ := next_inv hk hi hq
        have IH := ih _ hi' hok
        have hs := hi.sorted; rw [hq] at hs
        unfold Sorted at hs; rw [List.pairwise_cons] at hs
        simp only [fired_append, advance_fired, fired, List.nil_append, List.mem_cons]
        rintro e' (rfl | he') c hc hcT
        · -- the child was inserted into the queue the loop continues with
          obtain ⟨q, hqm, h1, h2, h3⟩ :=
            mem_addAll_of_kid (s := (advance { s with queue := rest } (e'.time - s.t)).1) hc
          have hf := (queued_fired_or_pending hk T fuel _ hi' hok q hqm).1 (by rw [h1]; exact hcT)
          refine ⟨q, Or.inr hf, h1, h2, ?_⟩
          exact fired_lower_bound hk T fuel _ hi' e'
            (below_next hk hq ⟨hs.1, hi.ctr e' (by simp [hq]), le_refl _⟩) q hf
        · obtain ⟨f, hf, h1, h2, h3⟩ := IH e' he' c hc hcT
          exact ⟨f, Or.inr hf, h1, h2, h3⟩
      · rw [loop_stop (Or.inr ⟨e, rest, hq, ht⟩)]; simp [advance_fired]

/-- **Exactly once, part 3 (nothing is invented)**: whatever is executed was queued at the start
or was scheduled by an executed callback. -/
theorem fired_origin {kids : Entry → List (Rat × Nat)} (T : Rat) (fuel : Nat) (s : Sys) :
    ∀ f ∈ fired (loop kids T fuel s).trace,
      f ∈ s.queue ∨ ∃ e ∈ fired (loop kids T fuel s).trace, (f.time, f.id) ∈ kids e := by
  induction fuel generalizing s with
  | zero => simp [loop, fired]
  | succ fuel ih =>
    match hq : s.queue with
    | [] => rw [loop_stop (Or.inl hq)]; simp [advance_fired]
    | e :: rest =>
      by_cases ht : e.time < T
      · simp only [loop_cons_status hq ht, loop_cons_s hq ht, loop_cons_trace hq ht]
        simp only [fired_append, advance_fired, fired, List.nil_append, List.mem_cons]
        rintro f (rfl | hf)
        · left; left; rfl
        · rcases ih _ f hf with h | ⟨e', he', h⟩
          · rcases mem_addAll h with h | ⟨-, h⟩
            · rw [advance_queue] at h; left; right; exact h
            · right; exact ⟨e, Or.inl rfl, h⟩
          · right; exact ⟨e', Or.inr he', h⟩
      · rw [loop_stop (Or.inr ⟨e, rest, hq, ht⟩)]; simp [advance_fired]

/-- **Moving backwards is refused**, and the state is left untouched. -/
theorem backwards_refused (kids : Entry → List (Rat × Nat)) (fuel : Nat) (s : Sys) (T : Rat)
    (h : T < s.t) : (evolveUntil kids fuel s T).status = .backwards ∧
      (evolveUntil kids fuel s T).trace = [] := by
  simp [evolveUntil, h]

/-- **No callbacks queued**: the evolution still succeeds and is a single integration (or none,
below the threshold) — for every positive fuel. -/
theorem empty_queue_ok (kids : Entry → List (Rat × Nat)) (fuel : Nat) (s : Sys) (T : Rat)
    (hq : s.queue = []) (hT : s.t ≤ T) :
    (evolveUntil kids (fuel + 1) s T).status = .ok ∧
    (evolveUntil kids (fuel + 1) s T).s.t ≤ T ∧ T - (evolveUntil kids (fuel + 1) s T).s.t ≤ eps := by
  have : ¬ T < s.t := not_lt.mpr hT
  simp only [evolveUntil, this, if_false, loop_stop (Or.inl hq)]
  exact ⟨trivial, advance_lag s T hT⟩

/-- The code before the repair raised on an empty queue (kept as a regression witness). -/
theorem empty_queue_raised_before_fix (kids : Entry → List (Rat × Nat)) (fuel : Nat) (T : Rat)
    (hT : 0 ≤ T) : (evolveUntilOld kids (fuel + 1) init T).status = .emptyQueue := by
  have : ¬ T < 0 := not_lt.mpr hT
  simp [evolveUntilOld, loopOld, init, this]

/-- **Termination**: if callbacks schedule nothing, `queue.length + 1` iterations suffice. -/
theorem terminates_without_reinsertion (T : Rat) (s : Sys) :
    ∀ fuel, s.queue.length < fuel → (loop (fun _ => []) T fuel s).status = .ok := by
  intro fuel
  induction fuel generalizing s with
  | zero => intro h; omega
  | succ fuel ih =>
    intro h
    match hq : s.queue with
    | [] => rw [loop_stop (Or.inl hq)]
    | e :: rest =>
      by_cases ht : e.time < T
      · simp only [loop_cons_status hq ht, loop_cons_s hq ht, loop_cons_trace hq ht]
        apply ih
        simp only [next, addAll, advance_queue]
        rw [hq] at h; simpa using h
      · rw [loop_stop (Or.inr ⟨e, rest, hq, ht⟩)]

/-- The whole statement for `evolve_until` from a state built by `add_callback`s. -/
theorem evolveUntil_spec {kids : Entry → List (Rat × Nat)} (hk : WF kids) (T : Rat) (fuel : Nat)
    (s : Sys) (hi : Inv s) (hT : s.t ≤ T) (hok : (evolveUntil kids fuel s T).status = .ok) :
    let r := evolveUntil kids fuel s T
    Inv r.s ∧ sumDt r.trace = r.s.t - s.t ∧ r.s.t ≤ T ∧ T - r.s.t ≤ eps ∧
    (∀ q ∈ r.s.queue, T ≤ q.time) ∧ Sorted (fired r.trace) ∧
    (∀ e clk, Event.fire e clk ∈ r.trace → clk ≤ e.time ∧ e.time - clk ≤ eps ∧ e.time < T) ∧
    (∀ q ∈ s.queue, (q.time < T → q ∈ fired r.trace) ∧ (T ≤ q.time → q ∈ r.s.queue)) := by
  have hn : ¬ T < s.t := not_lt.mpr hT
  simp only [evolveUntil, hn, if_false] at hok ⊢
  obtain ⟨h1, h2, h3, h4, h5⟩ := loop_clock hk T fuel s hi hT hok
  exact ⟨h1, h2, h3, h4, h5, fired_sorted hk T fuel s hi, clock_at_callback hk T fuel s hi,
    queued_fired_or_pending hk T fuel s hi hok⟩

/-! ### Non-vacuity: a schedule with ties and a self-re-inserting callback meets the hypotheses
and runs to completion. -/

/-- callback 7 re-inserts itself one time unit later; every other callback schedules nothing -/
def demoKids : Entry → List (Rat × Nat) := fun e => if e.id = 7 then [(e.time + 1, 7)] else []

def demoSys : Sys := addAll init [(1, 7), (1, 3), (1/2, 4), (5, 9)]

example : WF demoKids := by
  intro e c hc
  unfold demoKids at hc
  split at hc
  · simp at hc; rw [hc]; simp
  · simp at hc

example : Inv demoSys :=
  inv_addAll inv_init _ (by intro c hc; simp at hc; rcases hc with rfl | rfl | rfl | rfl <;> simp [init])

example : (evolveUntil demoKids 10 demoSys 3).status = .ok ∧
    (fired (evolveUntil demoKids 10 demoSys 3).trace).map (fun e => (e.time, e.id)) =
      [(1/2, 4), (1, 7), (1, 3), (2, 7)] := by decide +kernel

end HcipyVerif.Scheduler
