import HcipyVerif.Lemmas.Scheduler
import HcipyVerif.Lemmas.SchedulerCount
import HcipyVerif.Lemmas.SchedulerTile
import HcipyVerif.Lemmas.SchedulerTerm
import HcipyVerif.Lemmas.SchedulerHist
import HcipyVerif.Lemmas.SchedulerStrong
import HcipyVerif.Lemmas.SchedulerClock
import HcipyVerif.Lemmas.SchedulerRef

/-!
# C20 — Time evolution fires each scheduled callback once, in order, at its time

All theorems are about `HcipyVerif.Scheduler.loop` / `evolveUntil` (one call) and `runOps` (a whole
history of `add_callback` / `evolve_until` calls), the model of `DynamicOpticalSystem`, for **every**
queue, horizon, callback behaviour `kids`, fuel and history; the model is tied to the code by the
C20 correspondence (harness/props/c20.py drives exactly such histories through Driver/C20.lean).

Clause of the property → theorems
* *order, ties in insertion order*: `fired_sorted`, `fired_nodup`; across `evolve_until`
  boundaries `history_inv` (`.sorted`), with `history_order_needs_horizon` showing its hypothesis
  cannot be weakened to "not before the clock".
* *exactly once* — membership form: `queued_fired_or_pending`, `kids_fired`, `fired_origin`;
  counting form: `conservation_perm` (executed ++ queued is a permutation of initial ++ spawned),
  `conservation_count`, `conservation_ctr`, `evolveUntil_conservation` (all hypothesis-free),
  `exactly_once_count` (multiplicity exactly 1 / still queued); whole histories:
  `history_conservation`, `history_origin`, `history_exactly_once`.
* *clock equals the callback's time up to coalescing*: `clock_at_callback`, `history_inv` (`.clock`).
* *callbacks may schedule callbacks / re-insert themselves; termination*: `kids_fired`,
  `terminates_without_reinsertion`, `terminates_of_weight` (general potential argument),
  `terminates_if_progress` (children ≥ δ later, at most B of them; explicit fuel),
  `terminates_if_progress_single` (B = 1: fuel > Σ ⌈(T - time)/δ⌉), `terminates_if_progress_bound`,
  `evolveUntil_terminates_if_progress`.
* *intervals tile the elapsed time without gaps or overlap*: `loop_clock` (sum of dt),
  `trace_consistent`, `intervals_tile` (first starts at the initial clock, last ends at the final
  clock, consecutive abut, each > eps, every instant covered exactly once),
  `callbacks_at_boundaries`, `tiling_reaches_target`, `evolveUntil_tiling`; whole histories: `history_conservation`.
* *the clock ends at T*: `loop_clock`, `evolveUntil_spec`, `history_inv` (`.t_le`, `.lag`); exactly:
  `final_clock_exact`, `final_clock_eq_target_iff`, `final_clock_below_target_possible`,
  `loop_clock_end_any`, `clock_lag_any`.
* *backwards is refused*: `backwards_refused`, `forwards_not_refused`, `history_backwards_noop`.
* *whether or not callbacks remain queued*: `empty_queue_ok`, `empty_queue_exact`.

Round 4 (sections at the end of the file): fuel independence (`loop_fuel_mono`, `runOps_fuel_mono`,
`runOps_fuel_irrelevant`); exactly once for every history, only `InvQ` (`history_invQ`,
`history_call_exactly_once`, `history_evolve_exactly_once`); divergence and necessity of `WF`
(`diverges_zero_delay_reinsertion`, `order_needs_wf`); termination of histories
(`history_terminates_if_progress`); the threshold as a double (`eps_decimal_bridge`);
callbacks that read the clock — `loopC`/`stepOpC`/`runOpsC` are runs of `loop`/`stepOp`/`runOps`
(`loopC_exists_kids`, `loopC_transfer`, `loopC_eq_loop_table`, `runOpsC_eq_runOps`); the hypotheses
decided by the driver (`addsFromB_spec`, `noFuelOutB_spec`, `sortedB_spec`).

Round 5 (sections at the end of the file): times are stored by value — the reference machine
`stepG`/`runG` over World = system + caller cells (`stored_by_value`, `mutation_irrelevant`,
`Bad.byReference_counterexample`); a callback that raises and a caller that resumes
(`interrupted_resume`, `evolveUntil_interrupted_resume`, `interrupted_entry_lost`); totality with an
explicit fuel for progressing systems (`evolve_total_of_progress`, `evolve_total_of_progress_single`,
`evolveUntil_spec_total`: the fuel-parameterised statement for the real unbounded loop).

Hypotheses used (each has a satisfiability `example` at the end of the file):
* `Inv s`   — the queue is what `add_callback` builds (sorted, counters unique and below the
              next counter) and nothing is scheduled before the current clock;
* `WF kids` — a callback schedules further callbacks no earlier than its own time;
* progress  — `∀ e c ∈ kids e, e.time + δ ≤ c.1` with `0 < δ`, and `(kids e).length ≤ B`;
* `AddsFrom (·.hz) kids fuel ops` — every `add_callback` of a history is for a time not before the
              largest target an accepted `evolve_until` was given so far (`(·.s.t)`: the clock);
* `NoFuelOut kids fuel ops` — every `evolve_until` of the history returns;
* `InvQ s`  — `Inv` without "nothing before the clock": reached by every history (`history_invQ`).
-/
set_option linter.unusedSimpArgs false
set_option linter.unusedVariables false

namespace HcipyVerif.Scheduler

/-- **Invariant preservation, tiling of the elapsed time, and the final clock.**
the integration intervals add up to exactly the clock advance (see `intervals_tile` for the
explicit tiling); the clock ends within the coalescing threshold below `T`;
the queue left behind holds only entries at or beyond the horizon. -/
theorem loop_clock {kids : Entry → List (Rat × Nat)} (hk : WF kids) (T : Rat) (fuel : Nat) (s : Sys)
    (hi : Inv s) (hT : s.t ≤ T) (hok : (loop kids T fuel s).status = .ok) :
    Inv (loop kids T fuel s).s ∧
    sumDt (loop kids T fuel s).trace = (loop kids T fuel s).s.t - s.t ∧
    (loop kids T fuel s).s.t ≤ T ∧ T - (loop kids T fuel s).s.t ≤ eps ∧
    (∀ q ∈ (loop kids T fuel s).s.queue, T ≤ q.time) := by
  induction fuel generalizing s with
  | zero => simp [loop] at hok
  | succ fuel ih =>
    match hq : s.queue with
    | [] =>
      rw [loop_stop (Or.inl hq)]
      have hl := advance_lag s T hT
      refine ⟨⟨?_, ?_, ?_⟩, advance_sumDt _ _, hl.1, hl.2, ?_⟩ <;>
        simp [advance_queue, hq, Sorted]
    | e :: rest =>
      by_cases ht : e.time < T
      · simp only [loop_cons_status hq ht, loop_cons_s hq ht, loop_cons_trace hq ht] at hok ⊢
        obtain ⟨hi', h1, h2, h3⟩ := next_inv hk hi hq
        have := ih (next kids s e rest) hi' (le_trans h1 (le_of_lt ht)) hok
        obtain ⟨g1, g2, g3, g4, g5⟩ := this
        refine ⟨g1, ?_, g3, g4, g5⟩
        rw [sumDt_append]; simp only [sumDt]; rw [g2, advance_sumDt]
        simp only [next, addAll_t]
        ring
      · rw [loop_stop (Or.inr ⟨e, rest, hq, ht⟩)]
        have hl := advance_lag s T hT
        refine ⟨⟨?_, ?_, ?_⟩, advance_sumDt _ _, hl.1, hl.2, ?_⟩
        · rw [advance_queue]; exact hi.sorted
        · rw [advance_queue, advance_ctr]; exact hi.ctr
        · rw [advance_queue]; intro q hq'
          have hs := hi.sorted; rw [hq] at hs
          unfold Sorted at hs; rw [List.pairwise_cons] at hs
          rw [hq] at hq'
          have : e.time ≤ q.time := by
            rcases List.mem_cons.mp hq' with rfl | h
            · exact le_refl _
            · exact Entry.time_le_of_lt (hs.1 q h)
          push Not at ht
          exact le_trans hl.1 (le_trans ht this)
        · rw [advance_queue]; intro q hq'
          have hs := hi.sorted; rw [hq] at hs
          unfold Sorted at hs; rw [List.pairwise_cons] at hs
          rw [hq] at hq'
          push Not at ht
          rcases List.mem_cons.mp hq' with rfl | h
          · exact ht
          · exact le_trans ht (Entry.time_le_of_lt (hs.1 q h))

/-- **The clock when a callback runs**: every executed callback was scheduled strictly before
the horizon and runs with the clock at most `eps` behind its time (never ahead of it). -/
theorem clock_at_callback {kids : Entry → List (Rat × Nat)} (hk : WF kids) (T : Rat) (fuel : Nat)
    (s : Sys) (hi : Inv s) :
    ∀ e clk, Event.fire e clk ∈ (loop kids T fuel s).trace →
      clk ≤ e.time ∧ e.time - clk ≤ eps ∧ e.time < T := by
  induction fuel generalizing s with
  | zero => simp [loop]
  | succ fuel ih =>
    match hq : s.queue with
    | [] => rw [loop_stop (Or.inl hq)]; intro e' clk h; unfold advance at h; split at h <;> simp at h
    | e :: rest =>
      by_cases ht : e.time < T
      · simp only [loop_cons_status hq ht, loop_cons_s hq ht, loop_cons_trace hq ht]
        obtain ⟨hi', h1, h2, h3⟩ := next_inv hk hi hq
        intro e' clk h
        simp only [List.mem_append, List.mem_cons] at h
        rcases h with h | h | h
        · unfold advance at h; split at h <;> simp at h
        · injection h with e1 e2
          subst e1 e2
          simp only [next, addAll_t] at h1 h2
          exact ⟨h1, h2, ht⟩
        · exact ih _ hi' e' clk h
      · rw [loop_stop (Or.inr ⟨e, rest, hq, ht⟩)]
        intro e' clk h; unfold advance at h; split at h <;> simp at h

theorem fired_lower_bound {kids : Entry → List (Rat × Nat)} (hk : WF kids) (T : Rat) (fuel : Nat)
    (s : Sys) (hi : InvQ s) (b : Entry) (hb : Below b s) :
    ∀ f ∈ fired (loop kids T fuel s).trace, b.lt f := by
  induction fuel generalizing s with
  | zero => simp [loop, fired]
  | succ fuel ih =>
    match hq : s.queue with
    | [] => rw [loop_stop (Or.inl hq)]; simp [advance_fired]
    | e :: rest =>
      by_cases ht : e.time < T
      · simp only [loop_cons_status hq ht, loop_cons_s hq ht, loop_cons_trace hq ht]
        simp only [fired_append, advance_fired, fired, List.nil_append, List.mem_cons]
        have hi' := next_invQ (kids := kids) hi hq
        have hbe : b.lt e := hb.1 e (by simp [hq])
        rintro f (rfl | hf)
        · exact hbe
        · refine ih _ hi' (below_next hk hq ⟨fun q hq' => hb.1 q (by simp [hq, hq']), hb.2,
            Entry.time_le_of_lt hbe⟩) f hf
      · rw [loop_stop (Or.inr ⟨e, rest, hq, ht⟩)]; simp [advance_fired]

/-- **Order**: the executed callbacks are strictly increasing in `(time, insertion number)`:
non-decreasing time, ties in insertion order — and therefore no callback runs twice.  Needs only
the queue invariant `InvQ` (every history reaches it, `history_invQ`: entries may lie in the past)
and `WF` (which is necessary: `order_needs_wf`). -/
theorem fired_sorted {kids : Entry → List (Rat × Nat)} (hk : WF kids) (T : Rat) (fuel : Nat)
    (s : Sys) (hi : InvQ s) : Sorted (fired (loop kids T fuel s).trace) := by
  induction fuel generalizing s with
  | zero => simp [loop, fired, Sorted]
  | succ fuel ih =>
    match hq : s.queue with
    | [] => rw [loop_stop (Or.inl hq)]; simp [advance_fired, Sorted]
    | e :: rest =>
      by_cases ht : e.time < T
      · simp only [loop_cons_status hq ht, loop_cons_s hq ht, loop_cons_trace hq ht]
        simp only [fired_append, advance_fired, fired, List.nil_append]
        have hi' := next_invQ (kids := kids) hi hq
        have hs := hi.sorted; rw [hq] at hs
        unfold Sorted at hs ⊢; rw [List.pairwise_cons] at hs ⊢
        refine ⟨?_, ih _ hi'⟩
        exact fired_lower_bound hk T fuel _ hi' e
          (below_next hk hq ⟨hs.1, hi.ctr e (by simp [hq]), le_refl _⟩)
      · rw [loop_stop (Or.inr ⟨e, rest, hq, ht⟩)]; simp [advance_fired, Sorted]

/-- **No callback runs twice** — whatever the callbacks schedule (no `WF`), from any state a history
can reach (`InvQ`), whatever the status. -/
theorem fired_nodup (kids : Entry → List (Rat × Nat)) (T : Rat) (fuel : Nat)
    (s : Sys) (hi : InvQ s) : (fired (loop kids T fuel s).trace).Nodup := by
  have hnd : (fired (loop kids T fuel s).trace ++ (loop kids T fuel s).s.queue).Nodup :=
    (loop_perm kids T fuel s).nodup_iff.mpr (nodup_queue_spawnedQ hi _)
  exact (List.nodup_append.mp hnd).1

/-- **Exactly once, part 1 (nothing is lost)**: every queued entry due before the horizon is
executed; every queued entry due at or after the horizon is still queued afterwards.  Hypotheses:
only the queue invariant `InvQ` (which every history reaches, `history_invQ`) and that the call
returns — no `WF`, nothing about entries lying in the past, nothing about the clock. -/
theorem queued_fired_or_pending (kids : Entry → List (Rat × Nat)) (T : Rat)
    (fuel : Nat) (s : Sys) (hi : InvQ s) (hok : (loop kids T fuel s).status = .ok) :
    ∀ q ∈ s.queue, (q.time < T → q ∈ fired (loop kids T fuel s).trace) ∧
      (T ≤ q.time → q ∈ (loop kids T fuel s).s.queue) := by
  induction fuel generalizing s with
  | zero => simp [loop] at hok
  | succ fuel ih =>
    match hq : s.queue with
    | [] => simp
    | e :: rest =>
      have hs := hi.sorted; rw [hq] at hs
      unfold Sorted at hs; rw [List.pairwise_cons] at hs
      by_cases ht : e.time < T
      · simp only [loop_cons_status hq ht, loop_cons_s hq ht, loop_cons_trace hq ht] at hok ⊢
        have hi' := next_invQ (kids := kids) hi hq
        have IH := ih _ hi' hok
        simp only [fired_append, advance_fired, fired, List.nil_append, List.mem_cons]
        intro q hq'
        rcases hq' with rfl | hq'
        · exact ⟨fun _ => Or.inl rfl, fun h => absurd ht (not_lt.mpr h)⟩
        · have hmem : q ∈ (next kids s e rest).queue :=
            mem_addAll_of_mem (by rw [advance_queue]; exact hq')
          exact ⟨fun h => Or.inr ((IH q hmem).1 h), fun h => (IH q hmem).2 h⟩
      · rw [loop_stop (Or.inr ⟨e, rest, hq, ht⟩)]
        push Not at ht
        intro q hq'
        have hle : e.time ≤ q.time := by
          rcases List.mem_cons.mp hq' with rfl | h
          · exact le_refl _
          · exact Entry.time_le_of_lt (hs.1 q h)
        refine ⟨fun h => absurd (lt_of_le_of_lt (le_trans ht hle) h) (lt_irrefl _), fun _ => ?_⟩
        simp only [advance_queue, hq]; exact hq'

/-- **Exactly once, part 2 (callbacks may schedule callbacks)**: a callback scheduled *by an
executed callback* for a time before the horizon — be it earlier than the parent's own time — is
executed too, later in the run than its parent (`[e, f]` is a sublist of the executed list) and
with a later insertion number.  Hypotheses: `InvQ` and that the call returns. -/
theorem kids_fired (kids : Entry → List (Rat × Nat)) (T : Rat)
    (fuel : Nat) (s : Sys) (hi : InvQ s) (hok : (loop kids T fuel s).status = .ok) :
    ∀ e ∈ fired (loop kids T fuel s).trace, ∀ c ∈ kids e, c.1 < T →
      ∃ f ∈ fired (loop kids T fuel s).trace, f.time = c.1 ∧ f.id = c.2 ∧ e.ctr < f.ctr ∧
        [e, f].Sublist (fired (loop kids T fuel s).trace) := by
  induction fuel generalizing s with
  | zero => simp [loop] at hok
  | succ fuel ih =>
    match hq : s.queue with
    | [] => rw [loop_stop (Or.inl hq)]; simp [advance_fired]
    | e :: rest =>
      by_cases ht : e.time < T
      · simp only [loop_cons_status hq ht, loop_cons_s hq ht, loop_cons_trace hq ht] at hok ⊢
        have hi' := next_invQ (kids := kids) hi hq
        have IH := ih _ hi' hok
        simp only [fired_append, advance_fired, fired, List.nil_append, List.mem_cons]
        rintro e' (rfl | he') c hc hcT
        · -- the child was inserted into the queue the loop continues with
          obtain ⟨q, hqm, h1, h2, h3⟩ :=
            mem_addAll_of_kid (s := (advance { s with queue := rest } (e'.time - s.t)).1) hc
          have hf := (queued_fired_or_pending kids T fuel _ hi' hok q hqm).1 (by rw [h1]; exact hcT)
          refine ⟨q, Or.inr hf, h1, h2, ?_, ?_⟩
          · rw [advance_ctr] at h3
            have := hi.ctr e' (by simp [hq])
            simp only at h3
            omega
          · exact List.Sublist.cons_cons _ (List.singleton_sublist.mpr hf)
        · obtain ⟨f, hf, h1, h2, h3, h4⟩ := IH e' he' c hc hcT
          exact ⟨f, Or.inr hf, h1, h2, h3, List.Sublist.cons _ h4⟩
      · rw [loop_stop (Or.inr ⟨e, rest, hq, ht⟩)]; simp [advance_fired]

/-- With `WF` (children not before their parent's time) the child also comes after its parent in
the `(time, counter)` order. -/
theorem kids_fired_later {kids : Entry → List (Rat × Nat)} (hk : WF kids) (T : Rat)
    (fuel : Nat) (s : Sys) (hi : InvQ s) (hok : (loop kids T fuel s).status = .ok) :
    ∀ e ∈ fired (loop kids T fuel s).trace, ∀ c ∈ kids e, c.1 < T →
      ∃ f ∈ fired (loop kids T fuel s).trace, f.time = c.1 ∧ f.id = c.2 ∧ e.lt f := by
  intro e he c hc hcT
  obtain ⟨f, hf, h1, h2, h3, -⟩ := kids_fired kids T fuel s hi hok e he c hc hcT
  refine ⟨f, hf, h1, h2, ?_⟩
  have := hk e c hc
  rcases lt_or_eq_of_le this with h | h
  · left; rw [h1]; exact h
  · right; exact ⟨by rw [h1]; exact h, h3⟩

/-- **Exactly once, part 3 (nothing is invented)**: whatever is executed was queued at the start
or was scheduled by an executed callback. -/
theorem fired_origin {kids : Entry → List (Rat × Nat)} (T : Rat) (fuel : Nat) (s : Sys) :
    ∀ f ∈ fired (loop kids T fuel s).trace,
      f ∈ s.queue ∨ ∃ e ∈ fired (loop kids T fuel s).trace, (f.time, f.id) ∈ kids e := by
  induction fuel generalizing s with
  | zero => simp [loop, fired]
  | succ fuel ih =>
    match hq : s.queue with
    | [] => rw [loop_stop (Or.inl hq)]; simp [advance_fired]
    | e :: rest =>
      by_cases ht : e.time < T
      · simp only [loop_cons_status hq ht, loop_cons_s hq ht, loop_cons_trace hq ht]
        simp only [fired_append, advance_fired, fired, List.nil_append, List.mem_cons]
        rintro f (rfl | hf)
        · left; left; rfl
        · rcases ih _ f hf with h | ⟨e', he', h⟩
          · rcases mem_addAll h with h | ⟨-, h⟩
            · rw [advance_queue] at h; left; right; exact h
            · right; exact ⟨e, Or.inl rfl, h⟩
          · right; exact ⟨e', Or.inr he', h⟩
      · rw [loop_stop (Or.inr ⟨e, rest, hq, ht⟩)]; simp [advance_fired]

/-- **Moving backwards is refused**, nothing is integrated or executed, and the state (clock,
queue, counter) is left untouched. -/
theorem backwards_refused (kids : Entry → List (Rat × Nat)) (fuel : Nat) (s : Sys) (T : Rat)
    (h : T < s.t) : (evolveUntil kids fuel s T).status = .backwards ∧
      (evolveUntil kids fuel s T).trace = [] ∧ (evolveUntil kids fuel s T).s = s := by
  simp [evolveUntil, h]

/-- … and conversely a call that is not backwards is never refused. -/
theorem forwards_not_refused (kids : Entry → List (Rat × Nat)) (fuel : Nat) (s : Sys) (T : Rat)
    (h : s.t ≤ T) : (evolveUntil kids fuel s T).status ≠ .backwards := by
  simp only [evolveUntil, not_lt.mpr h, if_false]
  rcases loop_status kids T fuel s with h' | h' <;> rw [h'] <;> decide

/-- **No callbacks queued**: the evolution still succeeds and is a single integration (or none,
below the threshold) — for every positive fuel. -/
theorem empty_queue_ok (kids : Entry → List (Rat × Nat)) (fuel : Nat) (s : Sys) (T : Rat)
    (hq : s.queue = []) (hT : s.t ≤ T) :
    (evolveUntil kids (fuel + 1) s T).status = .ok ∧
    (evolveUntil kids (fuel + 1) s T).s.t ≤ T ∧ T - (evolveUntil kids (fuel + 1) s T).s.t ≤ eps := by
  have : ¬ T < s.t := not_lt.mpr hT
  simp only [evolveUntil, this, if_false, loop_stop (Or.inl hq)]
  exact ⟨trivial, advance_lag s T hT⟩

/-- **Termination**: if callbacks schedule nothing, `queue.length + 1` iterations suffice. -/
theorem terminates_without_reinsertion (T : Rat) (s : Sys) :
    ∀ fuel, s.queue.length < fuel → (loop (fun _ => []) T fuel s).status = .ok := by
  intro fuel
  induction fuel generalizing s with
  | zero => intro h; omega
  | succ fuel ih =>
    intro h
    match hq : s.queue with
    | [] => rw [loop_stop (Or.inl hq)]
    | e :: rest =>
      by_cases ht : e.time < T
      · simp only [loop_cons_status hq ht, loop_cons_s hq ht, loop_cons_trace hq ht]
        apply ih
        simp only [next, addAll, advance_queue]
        rw [hq] at h; simpa using h
      · rw [loop_stop (Or.inr ⟨e, rest, hq, ht⟩)]

/-- The whole statement for `evolve_until` from a state built by `add_callback`s. -/
theorem evolveUntil_spec {kids : Entry → List (Rat × Nat)} (hk : WF kids) (T : Rat) (fuel : Nat)
    (s : Sys) (hi : Inv s) (hT : s.t ≤ T) (hok : (evolveUntil kids fuel s T).status = .ok) :
    let r := evolveUntil kids fuel s T
    Inv r.s ∧ sumDt r.trace = r.s.t - s.t ∧ r.s.t ≤ T ∧ T - r.s.t ≤ eps ∧
    (∀ q ∈ r.s.queue, T ≤ q.time) ∧ Sorted (fired r.trace) ∧
    (∀ e clk, Event.fire e clk ∈ r.trace → clk ≤ e.time ∧ e.time - clk ≤ eps ∧ e.time < T) ∧
    (∀ q ∈ s.queue, (q.time < T → q ∈ fired r.trace) ∧ (T ≤ q.time → q ∈ r.s.queue)) := by
  have hn : ¬ T < s.t := not_lt.mpr hT
  simp only [evolveUntil, hn, if_false] at hok ⊢
  obtain ⟨h1, h2, h3, h4, h5⟩ := loop_clock hk T fuel s hi hT hok
  exact ⟨h1, h2, h3, h4, h5, fired_sorted hk T fuel s hi.toQ, clock_at_callback hk T fuel s hi,
    queued_fired_or_pending kids T fuel s hi.toQ hok⟩

/-! ### Conservation: "exactly once" as counting -/

/-- **Conservation as a permutation** (no hypothesis: any queue, callbacks, fuel, status).  The
executed callbacks together with the queue left behind are a rearrangement of the initial queue
together with `spawned`, the entries the executed callbacks created (with the counters the model
hands out).  Nothing is duplicated, dropped or invented. -/
theorem conservation_perm (kids : Entry → List (Rat × Nat)) (T : Rat) (fuel : Nat) (s : Sys) :
    (fired (loop kids T fuel s).trace ++ (loop kids T fuel s).s.queue).Perm
      (s.queue ++ spawned kids s.ctr (fired (loop kids T fuel s).trace)) :=
  loop_perm kids T fuel s

/-- **Conservation as counting**: #executed + #still queued = #initially queued + #children
scheduled by the executed callbacks (no hypothesis, any status). -/
theorem conservation_count (kids : Entry → List (Rat × Nat)) (T : Rat) (fuel : Nat) (s : Sys) :
    (fired (loop kids T fuel s).trace).length + (loop kids T fuel s).s.queue.length =
      s.queue.length + ((fired (loop kids T fuel s).trace).map (fun e => (kids e).length)).sum := by
  have := (loop_perm kids T fuel s).length_eq
  simpa [spawned_length, nKids] using this

/-- The insertion counter advances by exactly the number of children scheduled (no hypothesis). -/
theorem conservation_ctr (kids : Entry → List (Rat × Nat)) (T : Rat) (fuel : Nat) (s : Sys) :
    (loop kids T fuel s).s.ctr =
      s.ctr + ((fired (loop kids T fuel s).trace).map (fun e => (kids e).length)).sum :=
  loop_ctr kids T fuel s

/-- The same three statements for `evolve_until` itself, whatever its status (a refused backwards
call executes nothing and leaves queue and counter alone). -/
theorem evolveUntil_conservation (kids : Entry → List (Rat × Nat)) (fuel : Nat) (s : Sys) (T : Rat) :
    let r := evolveUntil kids fuel s T
    (fired r.trace ++ r.s.queue).Perm (s.queue ++ spawned kids s.ctr (fired r.trace)) ∧
    (fired r.trace).length + r.s.queue.length =
      s.queue.length + ((fired r.trace).map (fun e => (kids e).length)).sum ∧
    r.s.ctr = s.ctr + ((fired r.trace).map (fun e => (kids e).length)).sum := by
  by_cases h : T < s.t
  · simp [evolveUntil, h, fired, spawned]
  · simp only [evolveUntil, h, if_false]
    exact ⟨conservation_perm kids T fuel s, conservation_count kids T fuel s,
      conservation_ctr kids T fuel s⟩

/-- **Exactly once, as multiplicities.**  Of all entries that ever existed during the evolution
(queued at the start or created by an executed callback), each one due before the horizon was
executed with multiplicity exactly one and is no longer queued; each one due at or after the
horizon is still queued and was not executed.  Hypotheses: only `InvQ` (reached by every history,
`history_invQ`) and that the call returns — `WF`, "nothing queued in the past" and `s.t ≤ T` are
not needed. -/
theorem exactly_once_count (kids : Entry → List (Rat × Nat)) (T : Rat) (fuel : Nat)
    (s : Sys) (hi : InvQ s) (hok : (loop kids T fuel s).status = .ok) :
    ∀ c ∈ s.queue ++ spawned kids s.ctr (fired (loop kids T fuel s).trace),
      (c.time < T → (fired (loop kids T fuel s).trace).count c = 1 ∧ c ∉ (loop kids T fuel s).s.queue) ∧
      (T ≤ c.time → c ∈ (loop kids T fuel s).s.queue ∧ (fired (loop kids T fuel s).trace).count c = 0) := by
  intro c hc
  have hp := loop_perm kids T fuel s
  have hnd : (fired (loop kids T fuel s).trace ++ (loop kids T fuel s).s.queue).Nodup :=
    hp.nodup_iff.mpr (nodup_queue_spawnedQ hi _)
  have hmem := hp.mem_iff.mpr hc
  have hq := loop_queue_ge kids T fuel s hi hok
  have hf := fired_lt_horizon kids T fuel s
  rw [List.nodup_append] at hnd
  constructor
  · intro hlt
    have hnq : c ∉ (loop kids T fuel s).s.queue := fun h => absurd (hq c h) (not_le.mpr hlt)
    have : c ∈ fired (loop kids T fuel s).trace := by
      rcases List.mem_append.mp hmem with h | h
      · exact h
      · exact absurd h hnq
    refine ⟨?_, hnq⟩
    rw [hnd.1.count, if_pos this]
  · intro hge
    have hnf : c ∉ fired (loop kids T fuel s).trace := fun h => absurd (hf c h) (not_lt.mpr hge)
    refine ⟨?_, List.count_eq_zero.mpr hnf⟩
    rcases List.mem_append.mp hmem with h | h
    · exact absurd h hnf
    · exact h

/-! ### Termination with progress: callbacks that re-insert themselves -/

/-- **Termination from a weight** (the general principle).  If each callback due before the horizon
schedules children whose total weight is strictly below its own, then every fuel above the weight of
the queue suffices.  No invariant needed. -/
theorem terminates_of_weight {kids : Entry → List (Rat × Nat)} {T : Rat} (w : Entry → Nat)
    (hw : ∀ e c, e.time < T → potential w (mkEntries c (kids e)) < w e) (s : Sys) :
    ∀ fuel, potential w s.queue < fuel → (loop kids T fuel s).status = .ok :=
  fun fuel => loop_terminates_of_weight w hw fuel s

/-- **Termination with progress.**  If every callback due before the horizon schedules its children
at least `δ > 0` later than itself, and at most `B` of them, the loop ends normally for every fuel
above the potential `Σ_{q queued} (1 + B + … + B^(n_q - 1))`, `n_q = ⌈(T - q.time)/δ⌉` as a natural
number (`0` at or beyond the horizon): an executed callback of level `n ≥ 1` is replaced by at most
`B` callbacks of level at most `n - 1`. -/
theorem terminates_if_progress {kids : Entry → List (Rat × Nat)} {δ T : Rat} {B : Nat} (hδ : 0 < δ)
    (hprog : ∀ e, e.time < T → ∀ c ∈ kids e, e.time + δ ≤ c.1)
    (hB : ∀ e, e.time < T → (kids e).length ≤ B) (s : Sys) :
    ∀ fuel, (s.queue.map (fun q => geom B ⌈(T - q.time) / δ⌉₊)).sum < fuel →
      (loop kids T fuel s).status = .ok :=
  fun fuel => loop_terminates_of_weight (fun q => geom B (level δ T q.time))
    (progress_weight hδ hprog hB) fuel s

/-- **Self-re-insertion** (`B = 1`): each callback schedules at most one child, at least `δ` later.
Then `Σ_{q queued} ⌈(T - q.time)/δ⌉ + 1` iterations suffice. -/
theorem terminates_if_progress_single {kids : Entry → List (Rat × Nat)} {δ T : Rat} (hδ : 0 < δ)
    (hprog : ∀ e, e.time < T → ∀ c ∈ kids e, e.time + δ ≤ c.1)
    (h1 : ∀ e, e.time < T → (kids e).length ≤ 1) (s : Sys) :
    ∀ fuel, (s.queue.map (fun q => ⌈(T - q.time) / δ⌉₊)).sum < fuel →
      (loop kids T fuel s).status = .ok := by
  intro fuel hf
  apply terminates_if_progress hδ hprog h1 s fuel
  simpa only [geom_one] using hf

/-- A bound that does not look into the queue: with the invariant (nothing queued before the clock)
`queue.length · (1 + B + … + B^(n-1))`, `n = ⌈(T - t)/δ⌉`, is enough fuel. -/
theorem terminates_if_progress_bound {kids : Entry → List (Rat × Nat)} {δ T : Rat} {B : Nat}
    (hδ : 0 < δ) (hprog : ∀ e, e.time < T → ∀ c ∈ kids e, e.time + δ ≤ c.1)
    (hB : ∀ e, e.time < T → (kids e).length ≤ B) (s : Sys) (hi : Inv s) :
    ∀ fuel, s.queue.length * geom B ⌈(T - s.t) / δ⌉₊ < fuel → (loop kids T fuel s).status = .ok := by
  intro fuel hf
  apply terminates_if_progress hδ hprog hB s fuel
  refine lt_of_le_of_lt ?_ hf
  apply potential_le_length_mul (fun q => geom B ⌈(T - q.time) / δ⌉₊)
  intro q hq
  apply geom_mono
  apply Nat.ceil_mono
  exact div_le_div_of_nonneg_right (by have := hi.future q hq; linarith) (le_of_lt hδ)

/-- `evolve_until` returns normally under the progress hypothesis. -/
theorem evolveUntil_terminates_if_progress {kids : Entry → List (Rat × Nat)} {δ T : Rat} {B : Nat}
    (hδ : 0 < δ) (hprog : ∀ e, e.time < T → ∀ c ∈ kids e, e.time + δ ≤ c.1)
    (hB : ∀ e, e.time < T → (kids e).length ≤ B) (s : Sys) (hT : s.t ≤ T) :
    ∀ fuel, (s.queue.map (fun q => geom B ⌈(T - q.time) / δ⌉₊)).sum < fuel →
      (evolveUntil kids fuel s T).status = .ok := by
  intro fuel hf
  simp only [evolveUntil, not_lt.mpr hT, if_false]
  exact terminates_if_progress hδ hprog hB s fuel hf

/-! ### Tiling: the integration intervals, explicitly -/

/-- **The trace is clock-consistent** (no hypothesis, any status): replaying it from the initial
clock, every integration is longer than `eps`, every callback saw exactly the running clock, and
the replay ends at the final clock. -/
theorem trace_consistent (kids : Entry → List (Rat × Nat)) (T : Rat) (fuel : Nat) (s : Sys) :
    Consistent s.t (loop kids T fuel s).trace (loop kids T fuel s).s.t :=
  loop_consistent kids T fuel s

/-- **The integration intervals tile the elapsed time** — spelled out.  With
`l = intervals s.t trace` (interval `k` is `(start, end)`):
the first starts at the initial clock, the last ends at the final clock (no interval at all iff
the clock did not move), consecutive intervals abut, each is longer than `eps`, and every instant
of `[initial clock, final clock)` lies in exactly one interval `[start, end)` while an instant
outside lies in none (no gap, no overlap).  No hypothesis, any status. -/
theorem intervals_tile (kids : Entry → List (Rat × Nat)) (T : Rat) (fuel : Nat) (s : Sys) :
    let r := loop kids T fuel s
    let l := intervals s.t r.trace
    (∀ p ∈ l.head?, p.1 = s.t) ∧ (∀ p ∈ l.getLast?, p.2 = r.s.t) ∧ (l = [] → r.s.t = s.t) ∧
    (∀ i (hi : i + 1 < l.length), (l[i]'(by omega)).2 = (l[i + 1]).1) ∧
    (∀ p ∈ l, eps < p.2 - p.1) ∧
    (∀ τ, l.countP (fun p => decide (p.1 ≤ τ ∧ τ < p.2)) = if s.t ≤ τ ∧ τ < r.s.t then 1 else 0) := by
  intro r l
  have h : Tiles s.t r.s.t l := (loop_consistent kids T fuel s).tiles
  refine ⟨h.head, h.last, ?_, h.abut, h.long, h.cover_once⟩
  intro hl; rw [hl] at h; exact h.symm

/-- **Callbacks run at interval boundaries**: for every callback occurrence in the trace, the clock
it saw is the initial clock plus everything integrated before it, and the intervals before it tile
exactly `[initial clock, that clock]`. -/
theorem callbacks_at_boundaries (kids : Entry → List (Rat × Nat)) (T : Rat) (fuel : Nat) (s : Sys)
    (pre post : List Event) (e : Entry) (clk : Rat)
    (hs : (loop kids T fuel s).trace = pre ++ Event.fire e clk :: post) :
    clk = s.t + sumDt pre ∧ Tiles s.t clk (intervals s.t pre) ∧
    intervals s.t (loop kids T fuel s).trace = intervals s.t pre ++ intervals clk post := by
  have h := loop_consistent kids T fuel s
  have hc := h.fire_clock hs
  rw [hs] at h
  refine ⟨hc, ?_, ?_⟩
  · rw [hc]; exact h.split.1.tiles
  · rw [hs, intervals_append, hc]; rfl

/-- With status ok the tiling reaches the target up to the threshold: the union of the intervals is
`[s.t, t')` with `T - eps ≤ t' ≤ T`. -/
theorem tiling_reaches_target {kids : Entry → List (Rat × Nat)} (hk : WF kids) (T : Rat) (fuel : Nat)
    (s : Sys) (hi : Inv s) (hT : s.t ≤ T) (hok : (loop kids T fuel s).status = .ok) :
    Tiles s.t (loop kids T fuel s).s.t (intervals s.t (loop kids T fuel s).trace) ∧
    (loop kids T fuel s).s.t ≤ T ∧ T - (loop kids T fuel s).s.t ≤ eps := by
  obtain ⟨-, -, h3, h4, -⟩ := loop_clock hk T fuel s hi hT hok
  exact ⟨(loop_consistent kids T fuel s).tiles, h3, h4⟩

/-- The tiling statements for `evolve_until` itself, whatever its status (a refused backwards call
integrates nothing and leaves the clock alone). -/
theorem evolveUntil_tiling (kids : Entry → List (Rat × Nat)) (fuel : Nat) (s : Sys) (T : Rat) :
    let r := evolveUntil kids fuel s T
    Consistent s.t r.trace r.s.t ∧ Tiles s.t r.s.t (intervals s.t r.trace) ∧
    sumDt r.trace = r.s.t - s.t := by
  intro r
  have h : Consistent s.t r.trace r.s.t := by
    by_cases hT : T < s.t
    · simp only [r, evolveUntil, hT, if_true]; rfl
    · simp only [r, evolveUntil, hT, if_false]; exact loop_consistent kids T fuel s
  refine ⟨h, h.tiles, ?_⟩
  have := h.end_eq
  linarith

/-! ### Histories: repeated `evolve_until` with `add_callback` in between -/

/-- **A refused backwards call is a no-op on the whole history.** -/
theorem history_backwards_noop (kids : Entry → List (Rat × Nat)) (fuel : Nat) (h : Hist) (T : Rat)
    (hT : T < h.s.t) : stepOp kids fuel h (.evolve T) = h ∧
      (evolveUntil kids fuel h.s T).status = .backwards :=
  ⟨stepOp_backwards kids fuel h T hT, (backwards_refused kids fuel h.s T hT).1⟩

/-- **History-level conservation, counters and tiling** — for *every* list of interface calls, no
hypothesis.  After running `ops` from the fresh system:
executed + queued is a rearrangement of everything ever created; the created entries carry the
counters `0 … ctr-1` in creation order (so no two share one); nothing ran twice and nothing that ran
is still queued; and the concatenated event trace of all evolutions is clock-consistent from time
`0` to the current clock, so its intervals tile `[0, clock)`. -/
theorem history_conservation (kids : Entry → List (Rat × Nat)) (fuel : Nat) (ops : List Op) :
    let H := runOps kids fuel hinit ops
    (fired H.trace ++ H.s.queue).Perm H.created ∧
    H.created.map (·.ctr) = List.range H.s.ctr ∧
    (fired H.trace ++ H.s.queue).Nodup ∧
    Consistent 0 H.trace H.s.t ∧ Tiles 0 H.s.t (intervals 0 H.trace) := by
  intro H
  have hc := hcons_run kids fuel ops
  exact ⟨hc.perm, hc.ctrs, hc.nodup, hc.tiles, hc.tiles.tiles⟩

/-- **Where the created entries come from**: each stems from an `add_callback` of the history or is a
child of an executed callback; each `add_callback` of the history and each child of an executed
callback has its entry. -/
theorem history_origin (kids : Entry → List (Rat × Nat)) (fuel : Nat) (ops : List Op) :
    let H := runOps kids fuel hinit ops
    (∀ c ∈ H.created, Op.add c.time c.id ∈ ops ∨ ∃ e ∈ fired H.trace, (c.time, c.id) ∈ kids e) ∧
    (∀ t id, Op.add t id ∈ ops → ∃ c ∈ H.created, c.time = t ∧ c.id = id) ∧
    (∀ e ∈ fired H.trace, ∀ k ∈ kids e, ∃ c ∈ H.created, c.time = k.1 ∧ c.id = k.2) := by
  intro H
  have h := horigin_run kids fuel ops
  exact ⟨h.sound, h.adds, h.kids⟩

/-- one `add_callback` not before the time evolved to preserves the history invariant -/
theorem history_step_add {kids : Entry → List (Rat × Nat)} {fuel : Nat} {h : Hist} (hi : HInv h)
    (t : Rat) (id : Nat) (ht : h.hz ≤ t) : HInv (stepOp kids fuel h (.add t id)) := by
  rw [stepOp_add]
  refine ⟨inv_addCallback hi.inv t id (le_trans hi.t_le ht), hi.t_le, hi.lag, ?_, hi.sorted, ?_,
    hi.clock⟩
  · intro q hq
    rcases mem_insert.mp hq with rfl | hq
    · exact ht
    · exact hi.pending q hq
  · intro f hf
    have := hi.below f hf
    exact ⟨this.1, by simp only [addCallback]; omega⟩

/-- one `evolve_until` (any target: backwards is refused, a target inside the stretch already
covered does nothing, a later target evolves) preserves the history invariant -/
theorem history_step_evolve {kids : Entry → List (Rat × Nat)} (hk : WF kids) {fuel : Nat} {h : Hist}
    (hi : HInv h) (T : Rat) (hf : (evolveUntil kids fuel h.s T).status ≠ .outOfFuel) :
    HInv (stepOp kids fuel h (.evolve T)) := by
  by_cases hT : T < h.s.t
  · rw [stepOp_backwards kids fuel h T hT]; exact hi
  · have hT' : h.s.t ≤ T := not_lt.mp hT
    have hok : (loop kids T fuel h.s).status = .ok := by
      simp only [evolveUntil, hT, if_false] at hf
      rcases loop_status kids T fuel h.s with h' | h'
      · exact h'
      · exact absurd h' hf
    rw [stepOp_forward kids fuel h T hT]
    by_cases hz : h.hz < T
    · obtain ⟨g1, g2, g3, g4, g5⟩ := loop_clock hk T fuel h.s hi.inv hT' hok
      simp only [hz, if_true]
      have hbelow : ∀ f ∈ fired h.trace, Below f h.s := fun f hf =>
        ⟨fun q hq => Or.inl (lt_of_lt_of_le (hi.below f hf).1 (hi.pending q hq)), (hi.below f hf).2⟩
      refine ⟨g1, g3, g4, g5, ?_, ?_, ?_⟩
      · simp only [fired_append]
        unfold Sorted
        rw [List.pairwise_append]
        exact ⟨hi.sorted, fired_sorted hk T fuel h.s hi.inv.toQ, fun f hf g hg =>
          fired_lower_bound hk T fuel h.s hi.inv.toQ f (hbelow f hf) g hg⟩
      · intro f hf
        simp only [fired_append, List.mem_append] at hf
        rcases hf with hf | hf
        · have := hi.below f hf
          exact ⟨lt_trans this.1 hz, by rw [loop_ctr]; omega⟩
        · obtain ⟨clk, hclk⟩ := mem_fired.mp hf
          exact ⟨(clock_at_callback hk T fuel h.s hi.inv f clk hclk).2.2,
            fired_ctr_lt kids T fuel h.s hi.inv.ctr f hf⟩
      · intro e clk hm
        rcases List.mem_append.mp hm with hm | hm
        · exact hi.clock e clk hm
        · have := clock_at_callback hk T fuel h.s hi.inv e clk hm
          exact ⟨this.1, this.2.1⟩
    · have hz' : T ≤ h.hz := not_lt.mp hz
      cases fuel with
      | zero => simp [loop] at hok
      | succ n =>
        rw [loop_idle kids T n h.s (fun q hq => le_trans hz' (hi.pending q hq))
          (by have := hi.lag; linarith)]
        simp only [hz, if_false, fired, spawned, List.append_nil]
        exact hi

/-- **The history theorem.**  Run any list of interface calls from the fresh system, where every
`add_callback` is for a time not before the time the system has already been evolved to
(`AddsFrom (·.hz)`; backwards `evolve_until` calls may occur anywhere — they are refused and change
nothing) and every `evolve_until` returns (`NoFuelOut`).  Then, with `hz` the largest accepted target:
the queue invariant holds; the clock is within `eps` below `hz`; every queued entry is due at or after
`hz`; the callbacks executed *over all evolutions, concatenated,* ran in strict `(time, counter)`
order — non-decreasing time, ties in insertion order, across `evolve_until` boundaries; each was due
strictly before `hz`; each ran with the clock at most `eps` behind its time. -/
theorem history_inv {kids : Entry → List (Rat × Nat)} (hk : WF kids) (fuel : Nat) (ops : List Op)
    (ha : AddsFrom (·.hz) kids fuel ops) (hf : NoFuelOut kids fuel ops) :
    HInv (runOps kids fuel hinit ops) := by
  induction ops using List.reverseRecOn with
  | nil => exact hinv_init
  | append_singleton ops op ih =>
    rw [runOps_snoc]
    cases op with
    | add t id =>
      obtain ⟨ha1, ha2⟩ := addsFrom_snoc_add.mp ha
      exact history_step_add (ih ha1 (noFuelOut_snoc_add.mp hf)) t id ha2
    | evolve T =>
      obtain ⟨hf1, hf2⟩ := noFuelOut_snoc_evolve.mp hf
      exact history_step_evolve hk (ih (addsFrom_snoc_evolve.mp ha) hf1) T hf2

/-- **Exactly once over a whole history.**  Under the hypotheses of `history_inv`, of all entries
ever created (by `add_callback` calls or by executed callbacks): each one due before the final
target `hz` has been executed with multiplicity exactly one over all evolutions and is not queued;
each one due at or after `hz` is queued and has not been executed. -/
theorem history_exactly_once {kids : Entry → List (Rat × Nat)} (hk : WF kids) (fuel : Nat)
    (ops : List Op) (ha : AddsFrom (·.hz) kids fuel ops) (hf : NoFuelOut kids fuel ops) :
    let H := runOps kids fuel hinit ops
    ∀ c ∈ H.created,
      (c.time < H.hz → (fired H.trace).count c = 1 ∧ c ∉ H.s.queue) ∧
      (H.hz ≤ c.time → c ∈ H.s.queue ∧ (fired H.trace).count c = 0) := by
  intro H c hc
  have hi : HInv H := history_inv hk fuel ops ha hf
  have hcons : HCons H := hcons_run kids fuel ops
  have hmem := hcons.perm.mem_iff.mpr hc
  have hnd := hcons.nodup
  rw [List.nodup_append] at hnd
  constructor
  · intro hlt
    have hnq : c ∉ H.s.queue := fun h => absurd (hi.pending c h) (not_le.mpr hlt)
    have : c ∈ fired H.trace := by
      rcases List.mem_append.mp hmem with h | h
      · exact h
      · exact absurd h hnq
    exact ⟨by rw [hnd.1.count, if_pos this], hnq⟩
  · intro hge
    have hnf : c ∉ fired H.trace := fun h => absurd (hi.below c h).1 (not_lt.mpr hge)
    refine ⟨?_, List.count_eq_zero.mpr hnf⟩
    rcases List.mem_append.mp hmem with h | h
    · exact absurd h hnf
    · exact h

/-- Under the weaker hypothesis that every `add_callback` is merely not before the *clock*, and with
no assumption on the fuel, the queue invariant still holds after every history (so every single
`evolve_until` of it enjoys `evolveUntil_spec`). -/
theorem history_inv_weak {kids : Entry → List (Rat × Nat)} (hk : WF kids) (fuel : Nat) (ops : List Op)
    (ha : AddsFrom (·.s.t) kids fuel ops) : Inv (runOps kids fuel hinit ops).s := by
  induction ops using List.reverseRecOn with
  | nil => exact inv_init
  | append_singleton ops op ih =>
    rw [runOps_snoc]
    cases op with
    | add t id =>
      obtain ⟨ha1, ha2⟩ := addsFrom_snoc_add.mp ha
      exact inv_addCallback (ih ha1) t id ha2
    | evolve T =>
      have hi := ih (addsFrom_snoc_evolve.mp ha)
      by_cases hT : T < (runOps kids fuel hinit ops).s.t
      · rw [stepOp_backwards kids fuel _ T hT]; exact hi
      · rw [stepOp_forward kids fuel _ T hT]
        exact loop_inv hk T fuel _ hi (not_lt.mp hT)

/-- callbacks that schedule nothing -/
def noKids : Entry → List (Rat × Nat) := fun _ => []

/-- two callbacks just below time 1, evolve to 1, then a third callback between the resting clock
and 1, evolve on -/
def sliverOps : List Op :=
  [Op.add (1 - 5/10000000) 0, Op.add (1 - 2/10000000) 1, Op.evolve 1, Op.add (1 - 4/10000000) 2,
   Op.evolve 2]

/-- The stronger hypothesis of `history_inv` is needed for the order *across* evolutions: because
of the coalescing the clock may rest up to `eps` below the target reached, and an `add_callback`
for an instant in that sliver is "not in the past" by the clock yet runs, in the next evolution,
after a callback with a later time has already run.  (Within each single evolution the order
holds regardless: `fired_sorted`.) -/
theorem history_order_needs_horizon :
    (runOps noKids 10 hinit (sliverOps.take 3)).s.t ≤ 1 - 4/10000000 ∧
    1 - 4/10000000 < (runOps noKids 10 hinit (sliverOps.take 3)).hz ∧
    (fired (runOps noKids 10 hinit sliverOps).trace).map (·.id) = [0, 1, 2] ∧
    ¬ Sorted (fired (runOps noKids 10 hinit sliverOps).trace) := by
  unfold Sorted
  decide +kernel

/-! ### Non-vacuity: a schedule with ties and a self-re-inserting callback meets the hypotheses
and runs to completion. -/

/-- callback 7 re-inserts itself one time unit later; every other callback schedules nothing -/
def demoKids : Entry → List (Rat × Nat) := fun e => if e.id = 7 then [(e.time + 1, 7)] else []

def demoSys : Sys := addAll init [(1, 7), (1, 3), (1/2, 4), (5, 9)]

example : WF demoKids := by
  intro e c hc
  unfold demoKids at hc
  split at hc
  · simp at hc; rw [hc]; simp
  · simp at hc

example : Inv demoSys :=
  inv_addAll inv_init _ (by intro c hc; simp at hc; rcases hc with rfl | rfl | rfl | rfl <;> simp [init])

example : (evolveUntil demoKids 10 demoSys 3).status = .ok ∧
    (fired (evolveUntil demoKids 10 demoSys 3).trace).map (fun e => (e.time, e.id)) =
      [(1/2, 4), (1, 7), (1, 3), (2, 7)] := by decide +kernel

/-- the progress hypothesis of `terminates_if_progress_single` holds for the self-re-inserting
`demoKids` with `δ = 1` (for every horizon) … -/
example (T : Rat) : (∀ e, e.time < T → ∀ c ∈ demoKids e, e.time + 1 ≤ c.1) ∧
    (∀ e, e.time < T → (demoKids e).length ≤ 1) := by
  constructor
  · intro e _ c hc
    unfold demoKids at hc
    split at hc
    · simp at hc; rw [hc]
    · simp at hc
  · intro e _
    unfold demoKids
    split <;> simp

/-- … the potential of `demoSys` for the horizon `3` is `⌈2⌉ + ⌈2⌉ + ⌈5/2⌉ + 0 = 7`, so the theorem
guarantees that 8 iterations suffice (the run above needs 5). -/
example : (loop demoKids 3 8 demoSys).status = .ok := by
  apply terminates_if_progress_single (δ := 1) (by norm_num)
  · intro e _ c hc
    unfold demoKids at hc
    split at hc
    · simp at hc; rw [hc]
    · simp at hc
  · intro e _
    unfold demoKids
    split <;> simp
  · have : demoSys.queue = [⟨1/2, 2, 4⟩, ⟨1, 0, 7⟩, ⟨1, 1, 3⟩, ⟨5, 3, 9⟩] := by decide +kernel
    rw [this]
    have h1 : ⌈(5 / 2 : Rat)⌉₊ = 3 := by rw [Nat.ceil_eq_iff (by norm_num)]; norm_num
    have h2 : ⌈(-2 : Rat)⌉₊ = 0 := by rw [Nat.ceil_eq_zero]; norm_num
    norm_num [h1, h2]

/-- a history with ties, a self-re-inserting callback, a zero-length evolution, a refused backwards
call, an `add_callback` between evolutions and a target inside the stretch already covered -/
def demoOps : List Op :=
  [] ++ [Op.add 1 7] ++ [Op.add 1 3] ++ [Op.add (1/2) 4] ++ [Op.evolve 0] ++ [Op.evolve (3/2)] ++
    [Op.add 2 3] ++ [Op.evolve 1] ++ [Op.add (3/2) 5] ++ [Op.evolve (3/2)] ++ [Op.evolve 3]

/-- the hypotheses of `history_inv` hold for `demoOps` -/
example : AddsFrom (·.hz) demoKids 20 demoOps ∧ NoFuelOut demoKids 20 demoOps := by
  unfold demoOps
  simp only [addsFrom_snoc_add, addsFrom_snoc_evolve, addsFrom_nil, noFuelOut_snoc_add,
    noFuelOut_snoc_evolve, noFuelOut_nil, true_and]
  decide +kernel

/-- … and its outcome: the callbacks executed over the four accepted evolutions, in order -/
example : (fired (runOps demoKids 20 hinit demoOps).trace).map (fun e => (e.time, e.ctr, e.id)) =
      [(1/2, 2, 4), (1, 0, 7), (1, 1, 3), (3/2, 5, 5), (2, 3, 7), (2, 4, 3)] ∧
    (runOps demoKids 20 hinit demoOps).hz = 3 ∧
    (runOps demoKids 20 hinit demoOps).s.queue.map (fun e => (e.time, e.ctr, e.id)) = [(3, 6, 7)] := by
  decide +kernel

/-! ### Round 4 — fuel independence -/

/-- **Fuel independence.**  Once the fuel suffices (status ok), any larger fuel gives the very same
run: status, final state and trace.  So every theorem with the hypothesis `status = ok` is a
statement about *the* result of the call, not about a fuel-indexed family. -/
theorem loop_fuel_mono (kids : Entry → List (Rat × Nat)) (T : Rat) (f : Nat) (s : Sys)
    (hok : (loop kids T f s).status = .ok) : ∀ k, loop kids T (f + k) s = loop kids T f s :=
  loop_fuel_mono' kids T f s hok

/-- the same for `evolve_until` (a refused call does not look at the fuel at all) -/
theorem evolveUntil_fuel_mono (kids : Entry → List (Rat × Nat)) (f : Nat) (s : Sys) (T : Rat)
    (hf : (evolveUntil kids f s T).status ≠ .outOfFuel) :
    ∀ k, evolveUntil kids (f + k) s T = evolveUntil kids f s T :=
  evolveUntil_fuel_mono' kids f s T hf

/-- **Fuel independence for histories**: if every `evolve_until` of a history returns with fuel `f`,
then with any larger fuel the history is the same, step for step, and still every call returns. -/
theorem runOps_fuel_mono (kids : Entry → List (Rat × Nat)) (f : Nat) (ops : List Op)
    (hf : NoFuelOut kids f ops) :
    ∀ k, runOps kids (f + k) hinit ops = runOps kids f hinit ops ∧ NoFuelOut kids (f + k) ops :=
  runOps_fuel_mono' kids f ops hf

/-- … hence any two sufficient fuels give the same history (the harness's `FUEL = 100000` is as good
as any other sufficient value). -/
theorem runOps_fuel_irrelevant (kids : Entry → List (Rat × Nat)) (f g : Nat) (ops : List Op)
    (hf : NoFuelOut kids f ops) (hg : NoFuelOut kids g ops) :
    runOps kids f hinit ops = runOps kids g hinit ops := by
  rcases Nat.le_total f g with h | h
  · obtain ⟨k, rfl⟩ := Nat.exists_eq_add_of_le h
    exact ((runOps_fuel_mono kids f ops hf k).1).symm
  · obtain ⟨k, rfl⟩ := Nat.exists_eq_add_of_le h
    exact (runOps_fuel_mono kids g ops hg k).1

/-! ### Round 4 — exactly once for *every* history (adds in the past, children in the past) -/

/-- **Every** history of interface calls leaves a state with the queue invariant `InvQ` — no
assumption on the times given to `add_callback`, on what callbacks schedule, or on the fuel. -/
theorem history_invQ (kids : Entry → List (Rat × Nat)) (fuel : Nat) (ops : List Op) :
    InvQ (runOps kids fuel hinit ops).s :=
  history_invQ' kids fuel ops

/-- **Per-call exactly once after any history.**  Whatever happened before (callbacks added for
instants already passed, callbacks scheduling into the past, refused calls), an `evolve_until(T)`
that returns executes each entry that is queued or gets created during the call and is due before
`T` exactly once, and leaves exactly the others queued. -/
theorem history_call_exactly_once (kids : Entry → List (Rat × Nat)) (fuel : Nat) (ops : List Op)
    (T : Rat) (hok : (loop kids T fuel (runOps kids fuel hinit ops).s).status = .ok) :
    let s := (runOps kids fuel hinit ops).s
    ∀ c ∈ s.queue ++ spawned kids s.ctr (fired (loop kids T fuel s).trace),
      (c.time < T → (fired (loop kids T fuel s).trace).count c = 1 ∧ c ∉ (loop kids T fuel s).s.queue) ∧
      (T ≤ c.time → c ∈ (loop kids T fuel s).s.queue ∧ (fired (loop kids T fuel s).trace).count c = 0) :=
  exactly_once_count kids T fuel _ (history_invQ kids fuel ops) hok

/-- **Whole-history exactly once without `AddsFrom`/`WF`.**  After any history that ends with an
accepted `evolve_until(T)` which returns: of all entries ever created, each one due before `T` has
been executed exactly once over all evolutions and is not queued; whatever is queued is due at or
after `T` and has never run; and every created entry is either executed once or queued once
(never both, never neither). -/
theorem history_evolve_exactly_once (kids : Entry → List (Rat × Nat)) (fuel : Nat) (ops : List Op)
    (T : Rat) (hok : (evolveUntil kids fuel (runOps kids fuel hinit ops).s T).status = .ok) :
    let H := runOps kids fuel hinit (ops ++ [Op.evolve T])
    ∀ c ∈ H.created,
      (c.time < T → (fired H.trace).count c = 1 ∧ c ∉ H.s.queue) ∧
      (c ∈ H.s.queue → T ≤ c.time ∧ (fired H.trace).count c = 0) ∧
      (fired H.trace).count c + H.s.queue.count c = 1 := by
  intro H c hc
  have hcons : HCons H := hcons_run kids fuel _
  have hT : ¬ T < (runOps kids fuel hinit ops).s.t := by
    intro h
    rw [(backwards_refused kids fuel _ T h).1] at hok
    cases hok
  have hok' : (loop kids T fuel (runOps kids fuel hinit ops).s).status = .ok := by
    simpa only [evolveUntil, hT, if_false] using hok
  have hq : ∀ q ∈ H.s.queue, T ≤ q.time := by
    have := loop_queue_ge kids T fuel _ (history_invQ kids fuel ops) hok'
    simpa only [H, runOps_snoc, stepOp_forward kids fuel _ T hT] using this
  have hmem := hcons.perm.mem_iff.mpr hc
  have hsum : (fired H.trace).count c + H.s.queue.count c = 1 := by
    rw [← List.count_append]
    rw [hcons.nodup.count, if_pos hmem]
  refine ⟨?_, ?_, hsum⟩
  · intro hlt
    have hnq : c ∉ H.s.queue := fun h => absurd (hq c h) (not_le.mpr hlt)
    have := List.count_eq_zero.mpr hnq
    exact ⟨by omega, hnq⟩
  · intro hcq
    have := List.count_pos_iff.mpr hcq
    exact ⟨hq c hcq, by omega⟩

/-! ### Round 4 — divergence: `status = ok` is essential, and so is `WF` -/

/-- **A zero-delay self-re-insertion never returns**: with the callback behaviour `selfNow`
("schedule yourself again for this very instant") a single callback due before the horizon
exhausts *every* fuel, executing exactly `fuel` callbacks — the model's account of the real loop
spinning forever (replayed on the real code with a callback that raises after N executions). -/
theorem diverges_zero_delay_reinsertion :
    ∀ fuel, (loop selfNow 2 fuel (addCallback init 1 0)).status = .outOfFuel ∧
      (fired (loop selfNow 2 fuel (addCallback init 1 0)).trace).length = fuel :=
  fun fuel => selfNow_diverges 2 fuel _ ⟨1, 0, 0⟩ (by simp [addCallback, init, insert]) (by norm_num)

/-- the same from any state whose queue holds one callback due before the horizon -/
theorem diverges_zero_delay_reinsertion_general (T : Rat) (fuel : Nat) (s : Sys) (e : Entry)
    (hq : s.queue = [e]) (ht : e.time < T) : (loop selfNow T fuel s).status = .outOfFuel :=
  (selfNow_diverges T fuel s e hq ht).1

/-- … although `selfNow` and the start state satisfy every other hypothesis used in this file
(`WF`, `Inv`): the hypothesis "the call returns" of the `hok` theorems cannot be dropped, and no
fuel makes `NoFuelOut` true for the two-call history `add_callback(1, f); evolve_until(2)`. -/
theorem selfNow_meets_other_hypotheses :
    WF selfNow ∧ Inv (addCallback init 1 0) ∧
      ¬ ∃ fuel, NoFuelOut selfNow fuel [Op.add 1 0, Op.evolve 2] := by
  refine ⟨?_, inv_addCallback inv_init 1 0 (by simp [init]), ?_⟩
  · intro e c hc; simp [selfNow] at hc; rw [hc]
  · rintro ⟨fuel, h⟩
    have := h [Op.add 1 0] 2 [] rfl
    apply this
    have hs : (runOps selfNow fuel hinit [Op.add 1 0]).s = addCallback init 1 0 := rfl
    rw [hs]
    have hT : ¬ (2 : Rat) < (addCallback init 1 0).t := by simp [addCallback, init]
    simp only [evolveUntil, hT, if_false]
    exact (diverges_zero_delay_reinsertion fuel).1

/-- callback 0 schedules callback 1 half a time unit *before* its own time -/
def pastKid : Entry → List (Rat × Nat) := fun e => if e.id = 0 then [(e.time - 1/2, 1)] else []

/-- **`WF` is necessary** for the order clause and for the clock clause: with `pastKid` (all other
hypotheses hold, the call returns) the child runs after its parent although it is due earlier, so
the executed list is not in time order, and it runs with the clock *ahead* of its time.  (Exactly
once still holds: `kids_fired`, `exactly_once_count` do not need `WF`.) -/
theorem order_needs_wf :
    Inv (addCallback init 1 0) ∧ ¬ WF pastKid ∧
    (loop pastKid 2 5 (addCallback init 1 0)).status = .ok ∧
    (fired (loop pastKid 2 5 (addCallback init 1 0)).trace).map (fun e => (e.time, e.id)) =
      [(1, 0), (1/2, 1)] ∧
    ¬ Sorted (fired (loop pastKid 2 5 (addCallback init 1 0)).trace) ∧
    Event.fire ⟨1/2, 1, 1⟩ 1 ∈ (loop pastKid 2 5 (addCallback init 1 0)).trace := by
  refine ⟨inv_addCallback inv_init 1 0 (by simp [init]), ?_, ?_⟩
  · intro h
    have := h ⟨1, 0, 0⟩ (1/2, 1) (by decide +kernel)
    norm_num at this
  · unfold Sorted
    decide +kernel

/-! ### Round 4 — `NoFuelOut` discharged: histories of progressing callbacks terminate -/

/-- **Termination of whole histories.**  If every callback schedules its children at least `δ > 0`
later than itself and at most `B` of them, then for every history some fuel makes every
`evolve_until` return (`NoFuelOut`, the hypothesis of `history_inv` / `history_exactly_once`), and
from that fuel on the history does not depend on the fuel. -/
theorem history_terminates_if_progress {kids : Entry → List (Rat × Nat)} {δ : Rat} {B : Nat}
    (hδ : 0 < δ) (hprog : ∀ e, ∀ c ∈ kids e, e.time + δ ≤ c.1) (hB : ∀ e, (kids e).length ≤ B)
    (ops : List Op) :
    ∃ fuel, NoFuelOut kids fuel ops ∧
      ∀ k, runOps kids (fuel + k) hinit ops = runOps kids fuel hinit ops ∧
        NoFuelOut kids (fuel + k) ops := by
  obtain ⟨fuel, hf⟩ := exists_fuel_of_each kids (fun s T =>
    ⟨_, terminates_if_progress hδ (fun e _ => hprog e) (fun e _ => hB e) s _ (Nat.lt_succ_self _)⟩) ops
  exact ⟨fuel, hf, runOps_fuel_mono kids fuel ops hf⟩

/-- the same from any criterion that makes each single evolution return (e.g. a weight,
`terminates_of_weight`, which covers zero-delay scheduling along a DAG of callback ids) -/
theorem history_terminates_of_each (kids : Entry → List (Rat × Nat))
    (hterm : ∀ (s : Sys) (T : Rat), ∃ f, (loop kids T f s).status = .ok) (ops : List Op) :
    ∃ fuel, NoFuelOut kids fuel ops :=
  exists_fuel_of_each kids hterm ops

/-- progress implies `WF`, so under progress and `AddsFrom` the history theorem needs no fuel
hypothesis: some fuel yields `HInv`. -/
theorem history_inv_of_progress {kids : Entry → List (Rat × Nat)} {δ : Rat} {B : Nat}
    (hδ : 0 < δ) (hprog : ∀ e, ∀ c ∈ kids e, e.time + δ ≤ c.1) (hB : ∀ e, (kids e).length ≤ B)
    (ops : List Op) (ha : ∀ fuel, AddsFrom (·.hz) kids fuel ops) :
    ∃ fuel, HInv (runOps kids fuel hinit ops) := by
  obtain ⟨fuel, hf, -⟩ := history_terminates_if_progress hδ hprog hB ops
  have hk : WF kids := fun e c hc => by have := hprog e c hc; linarith
  exact ⟨fuel, history_inv hk fuel ops (ha fuel) hf⟩

/-- `demoKids` progresses (δ = 1, B = 1) at every callback, so `history_terminates_if_progress`
applies to every history of it -/
example (ops : List Op) : ∃ fuel, NoFuelOut demoKids fuel ops :=
  (history_terminates_if_progress (δ := 1) (B := 1) (by norm_num)
    (by intro e c hc; unfold demoKids at hc; split at hc <;> simp at hc; rw [hc])
    (by intro e; unfold demoKids; split <;> simp) ops).imp fun _ h => h.1

/-! ### Round 4 — the final clock, exactly -/

/-- **The final clock, exactly** (no hypothesis beyond "the call returns").  Let `c` be the clock
shown to the last callback of the run (the initial clock if none ran).  The evolution ends with
the clock at `T` when the remaining stretch `T - c` exceeds the threshold, and at `c` otherwise
(the stretch is coalesced away: "the clock ends at T" holds only up to `eps`). -/
theorem final_clock_exact (kids : Entry → List (Rat × Nat)) (T : Rat) (fuel : Nat) (s : Sys)
    (hok : (loop kids T fuel s).status = .ok) :
    (loop kids T fuel s).s.t =
      if eps < T - lastFireClock s.t (loop kids T fuel s).trace then T
      else lastFireClock s.t (loop kids T fuel s).trace :=
  loop_final_clock kids T fuel s hok

/-- the clock ends exactly at `T` iff the last stretch is longer than the threshold or empty -/
theorem final_clock_eq_target_iff (kids : Entry → List (Rat × Nat)) (T : Rat) (fuel : Nat) (s : Sys)
    (hok : (loop kids T fuel s).status = .ok) :
    (loop kids T fuel s).s.t = T ↔
      (eps < T - lastFireClock s.t (loop kids T fuel s).trace ∨
        lastFireClock s.t (loop kids T fuel s).trace = T) := by
  rw [loop_final_clock kids T fuel s hok]
  by_cases h : eps < T - lastFireClock s.t (loop kids T fuel s).trace
  · simp [h]
  · simp [h]

/-- `eps < T - t_last → r.s.t = T` -/
theorem final_clock_eq_target (kids : Entry → List (Rat × Nat)) (T : Rat) (fuel : Nat) (s : Sys)
    (hok : (loop kids T fuel s).status = .ok)
    (h : eps < T - lastFireClock s.t (loop kids T fuel s).trace) : (loop kids T fuel s).s.t = T :=
  (final_clock_eq_target_iff kids T fuel s hok).mpr (Or.inl h)

/-- with nothing queued, a target more than `eps` ahead is reached exactly -/
theorem empty_queue_exact (kids : Entry → List (Rat × Nat)) (fuel : Nat) (s : Sys) (T : Rat)
    (hq : s.queue = []) (hT : eps < T - s.t) : (evolveUntil kids (fuel + 1) s T).s.t = T := by
  have : ¬ T < s.t := by
    have := eps_pos
    intro h; linarith
  simp only [evolveUntil, this, if_false, loop_stop (Or.inl hq)]
  unfold advance
  rw [if_pos hT]; simp

/-- **The clock can end strictly below the target**: `evolve_until(5·10⁻⁷)` on the fresh system
returns normally and leaves the clock at `0` (the literal clause "the clock ends at T" is false;
what holds is `loop_clock_end_any`/`final_clock_exact`). -/
theorem final_clock_below_target_possible :
    ∃ T, (evolveUntil noKids 1 init T).status = .ok ∧ (evolveUntil noKids 1 init T).s.t < T :=
  ⟨1/2000000, by decide +kernel⟩

/-- the clock never passes the target and, when the call returns, ends within `eps` below it — for
any queue and any callbacks (entries and children may lie in the past); only `s.t ≤ T` is used -/
theorem loop_clock_end_any (kids : Entry → List (Rat × Nat)) (T : Rat) (fuel : Nat) (s : Sys)
    (hT : s.t ≤ T) : (loop kids T fuel s).s.t ≤ T ∧
      ((loop kids T fuel s).status = .ok → T - (loop kids T fuel s).s.t ≤ eps) :=
  loop_clock_end kids T fuel s hT

/-- **Clock lag, hypothesis-free half**: every executed callback was due strictly before the horizon
and ran with the clock at most `eps` *behind* its time — for any queue and any callbacks.  (That
the clock is never *ahead* of the callback's time is the half that needs `Inv` and `WF`:
`clock_at_callback`, `order_needs_wf`.) -/
theorem clock_lag_any (kids : Entry → List (Rat × Nat)) (T : Rat) (fuel : Nat) (s : Sys) :
    ∀ e clk, Event.fire e clk ∈ (loop kids T fuel s).trace → e.time - clk ≤ eps ∧ e.time < T := by
  induction fuel generalizing s with
  | zero => simp [loop]
  | succ fuel ih =>
    match hq : s.queue with
    | [] => rw [loop_stop (Or.inl hq)]; intro e' clk h; unfold advance at h; split at h <;> simp at h
    | e :: rest =>
      by_cases ht : e.time < T
      · simp only [loop_cons_trace hq ht]
        intro e' clk h
        simp only [List.mem_append, List.mem_cons] at h
        rcases h with h | h | h
        · unfold advance at h; split at h <;> simp at h
        · injection h with e1 e2
          subst e1 e2
          refine ⟨?_, ht⟩
          unfold advance; split
          · have := eps_pos; simp; linarith
          · rename_i h'; simp at h' ⊢; exact h'
        · exact ih _ e' clk h
      · rw [loop_stop (Or.inr ⟨e, rest, hq, ht⟩)]
        intro e' clk h; unfold advance at h; split at h <;> simp at h

/-! ### Round 4 — the threshold as a double; the `sorted` flag of the driver -/

/-- **Float bridge for the threshold.**  `eps` is the exact value of the double `1e-6`
(`4722366482869645 · 2⁻⁷²`, below `10⁻⁶`); no double lies strictly between the two, so for every
double `dt` the code's test `dt > 1e-6` is the test against the decimal `10⁻⁶` of the property
text. -/
theorem eps_decimal_bridge (x : Rat) (hx : IsDouble x) : eps < x ↔ 1 / 1000000 < x := by
  constructor
  swap
  · intro h; exact lt_trans eps_lt_decimal h
  intro h
  obtain ⟨m, k, hm, rfl⟩ := hx
  have h2pos : (0 : Rat) < (2 : Rat) ^ k := zpow_pos (by norm_num) k
  have hmpos : 0 < m := by
    by_contra hneg
    push Not at hneg
    have : (m : Rat) * (2 : Rat) ^ k ≤ 0 :=
      mul_nonpos_of_nonpos_of_nonneg (by exact_mod_cast hneg) (le_of_lt h2pos)
    have := eps_pos
    linarith
  obtain ⟨n, rfl⟩ : ∃ n : Nat, m = n := ⟨m.toNat, by omega⟩
  have hn : n < 2 ^ 53 := by simpa using hm
  by_cases hk : -72 ≤ k
  · obtain ⟨j, rfl⟩ : ∃ j : Nat, k = (j : Int) + (-72) := ⟨(k + 72).toNat, by omega⟩
    rw [zpow_add₀ (by norm_num : (2 : Rat) ≠ 0), zpow_natCast] at h ⊢
    have hN : ((n : Int) : Rat) * ((2 : Rat) ^ j * (2 : Rat) ^ (-72 : Int)) =
        ((n * 2 ^ j : Nat) : Rat) / 4722366482869645213696 := by
      push_cast; norm_num; ring
    rw [hN] at h ⊢
    have h1 : (4722366482869645 : Rat) < ((n * 2 ^ j : Nat) : Rat) := by
      unfold eps at h
      rw [div_lt_div_iff_of_pos_right (by norm_num)] at h
      exact h
    have h2 : 4722366482869645 < n * 2 ^ j := by exact_mod_cast h1
    have h3 : (4722366482869646 : Rat) ≤ ((n * 2 ^ j : Nat) : Rat) := by exact_mod_cast h2
    rw [lt_div_iff₀ (by norm_num)]
    have h4 : (1 : Rat) / 1000000 * 4722366482869645213696 < 4722366482869646 := by norm_num
    linarith
  · exfalso
    push Not at hk
    have hk' : k ≤ -73 := by omega
    have h1 : (2 : Rat) ^ k ≤ (2 : Rat) ^ (-73 : Int) := zpow_le_zpow_right₀ (by norm_num) hk'
    have h2 : ((n : Int) : Rat) < 2 ^ 53 := by exact_mod_cast hn
    have h3 : ((n : Int) : Rat) * (2 : Rat) ^ k < 2 ^ 53 * (2 : Rat) ^ (-73 : Int) :=
      lt_of_le_of_lt (mul_le_mul_of_nonneg_left h1 (by positivity))
        (mul_lt_mul_of_pos_right h2 (by positivity))
    have h4 : (2 : Rat) ^ 53 * (2 : Rat) ^ (-73 : Int) < eps := by unfold eps; norm_num
    linarith

/-- the threshold is itself a double (mantissa `4722366482869645 < 2^53`, exponent `-72`) -/
example : IsDouble eps := ⟨4722366482869645, -72, by norm_num, by unfold eps; norm_num⟩

/-- … so `advance` integrates a double `dt` exactly when `dt` exceeds the decimal `10⁻⁶` -/
theorem advance_decimal_bridge (s : Sys) (dt : Rat) (hd : IsDouble dt) :
    advance s dt = if dt > 1 / 1000000 then ({ s with t := s.t + dt }, [Event.integrate dt])
      else (s, []) := by
  unfold advance
  by_cases h : dt > eps
  · rw [if_pos h, if_pos ((eps_decimal_bridge dt hd).mp h)]
  · rw [if_neg h, if_neg (fun h' => h ((eps_decimal_bridge dt hd).mpr h'))]

/-- the flag `sorted=` printed by the driver op `hist` (and compared with the real code's executed
sequence) decides the `Sorted` of `fired_sorted` / `history_inv` -/
theorem sortedB_spec (l : List Entry) : sortedB l = true ↔ Sorted l := sortedB_iff l

/-! ### Round 4 — callbacks that read the clock (`add_callback(self.t + period, …)`, the docstring idiom)

The clock a callback sees may rest up to `eps` below the callback's own time, so what a
clock-reading callback schedules is not a function of its queue entry: `loopC` / `evolveUntilC` /
`stepOpC` / `runOpsC` hand the clock to the callbacks (`kidsC clock e`).  The driver runs these on
every history and compares them with the real code; the theorems below say that each such run IS a
run of `loop` / `evolveUntil` / `runOps` — the objects of all theorems above — for an entry-only
`kids` (the table of what each executed callback scheduled, `tableKids (fireTable …)`, which the
driver also executes and checks: `same=`, `replay=`).  So every theorem above that holds for all
`kids` holds of histories with clock-reading callbacks (`loopC_transfer`). -/

/-- callbacks that ignore the clock: `loopC` is `loop` -/
theorem loopC_const (kids : Entry → List (Rat × Nat)) (T : Rat) (fuel : Nat) (s : Sys) :
    loopC (fun _ => kids) T fuel s = loop kids T fuel s := loopC_const' kids T fuel s

/-- An entry-only `kids` that agrees with the clock-reading callbacks on every callback the run
executes, at the clock it saw, produces the very same run (status, state, trace). -/
theorem loopC_eq_loop_of_agree (kidsC : Rat → Entry → List (Rat × Nat)) (kids : Entry → List (Rat × Nat))
    (T : Rat) (fuel : Nat) (s : Sys)
    (h : ∀ e clk, Event.fire e clk ∈ (loopC kidsC T fuel s).trace → kids e = kidsC clk e) :
    loop kids T fuel s = loopC kidsC T fuel s := loopC_eq_loop_of_agree' kidsC kids T fuel s h

/-- **Every run with clock-reading callbacks is a run of `loop`** for some entry-only `kids`, from
any state a history can reach (`InvQ`: no callback is executed twice, so "what it scheduled at the
clock it saw" is a function of the entry). -/
theorem loopC_exists_kids (kidsC : Rat → Entry → List (Rat × Nat)) (T : Rat) (fuel : Nat) (s : Sys)
    (hi : InvQ s) : ∃ kids : Entry → List (Rat × Nat), loop kids T fuel s = loopC kidsC T fuel s :=
  loopC_exists_kids' kidsC T fuel s hi

/-- **Transfer**: whatever holds of the runs of `loop` for all entry-only `kids` holds of the run
with clock-reading callbacks. -/
theorem loopC_transfer (kidsC : Rat → Entry → List (Rat × Nat)) (T : Rat) (fuel : Nat) (s : Sys)
    (hi : InvQ s) (P : Run → Prop) (hP : ∀ kids, P (loop kids T fuel s)) : P (loopC kidsC T fuel s) := by
  obtain ⟨K, hK⟩ := loopC_exists_kids' kidsC T fuel s hi
  rw [← hK]; exact hP K

/-- exactly once (nothing is lost, nothing runs twice) with clock-reading callbacks — by transfer -/
theorem clockC_exactly_once (kidsC : Rat → Entry → List (Rat × Nat)) (T : Rat) (fuel : Nat) (s : Sys)
    (hi : InvQ s) (hok : (loopC kidsC T fuel s).status = .ok) :
    (fired (loopC kidsC T fuel s).trace).Nodup ∧
    ∀ q ∈ s.queue, (q.time < T → q ∈ fired (loopC kidsC T fuel s).trace) ∧
      (T ≤ q.time → q ∈ (loopC kidsC T fuel s).s.queue) := by
  revert hok
  apply loopC_transfer kidsC T fuel s hi
    (fun r => r.status = .ok → (fired r.trace).Nodup ∧
      ∀ q ∈ s.queue, (q.time < T → q ∈ fired r.trace) ∧ (T ≤ q.time → q ∈ r.s.queue))
  intro K hok
  exact ⟨fired_nodup K T fuel s hi, queued_fired_or_pending K T fuel s hi hok⟩

/-- the final clock, exactly, and the clock lag at every callback, with clock-reading callbacks -/
theorem clockC_final_clock (kidsC : Rat → Entry → List (Rat × Nat)) (T : Rat) (fuel : Nat) (s : Sys)
    (hi : InvQ s) (hok : (loopC kidsC T fuel s).status = .ok) :
    (loopC kidsC T fuel s).s.t =
      if eps < T - lastFireClock s.t (loopC kidsC T fuel s).trace then T
      else lastFireClock s.t (loopC kidsC T fuel s).trace := by
  revert hok
  apply loopC_transfer kidsC T fuel s hi
    (fun r => r.status = .ok → r.s.t = if eps < T - lastFireClock s.t r.trace then T else lastFireClock s.t r.trace)
  intro K hok
  exact final_clock_exact K T fuel s hok

/-- **Replay by table** (what the driver executes and prints as `same=`): the table of what each
executed callback scheduled — preceded by any rows `pre` of callbacks this run does not execute —
read as entry-only callbacks makes `loop` reproduce the run. -/
theorem loopC_eq_loop_table (kidsC : Rat → Entry → List (Rat × Nat)) (T : Rat) (fuel : Nat) (s : Sys)
    (hi : InvQ s) (pre : List (Entry × List (Rat × Nat)))
    (hpre : ∀ p ∈ pre, p.1 ∉ fired (loopC kidsC T fuel s).trace) :
    loop (tableKids (pre ++ fireTable kidsC (loopC kidsC T fuel s).trace)) T fuel s =
      loopC kidsC T fuel s := loopC_eq_loop_table' kidsC T fuel s hi pre hpre

theorem evolveUntilC_eq_evolveUntil_table (kidsC : Rat → Entry → List (Rat × Nat)) (fuel : Nat) (s : Sys)
    (T : Rat) (hi : InvQ s) :
    evolveUntil (tableKids (fireTable kidsC (evolveUntilC kidsC fuel s T).trace)) fuel s T =
      evolveUntilC kidsC fuel s T := by
  have := evolveUntilC_eq_table' kidsC fuel s T hi [] (by simp)
  simpa using this

/-- every history with clock-reading callbacks keeps the invariant `InvC`: the queue invariant, and
the callbacks in the table have been executed (not queued, counter used up) -/
theorem history_invC (kidsC : Rat → Entry → List (Rat × Nat)) (fuel : Nat) (ops : List Op) :
    InvC (runOpsC kidsC fuel hinitC ops) :=
  (runOpsC_eq_runOps' kidsC fuel ops hinitC invC_init).2.2

/-- **One call in a history**: `stepOpC` (run by the driver) advances the history by `stepOp` with
the table; state and trace are those of the run with clock-reading callbacks. -/
theorem stepOpC_evolve_run (kidsC : Rat → Entry → List (Rat × Nat)) (fuel : Nat) (ops : List Op) (T : Rat) :
    (stepOpC kidsC fuel (runOpsC kidsC fuel hinitC ops) (.evolve T)).h.s =
      (evolveUntilC kidsC fuel (runOpsC kidsC fuel hinitC ops).h.s T).s ∧
    (stepOpC kidsC fuel (runOpsC kidsC fuel hinitC ops) (.evolve T)).h.trace =
      (runOpsC kidsC fuel hinitC ops).h.trace ++
        (evolveUntilC kidsC fuel (runOpsC kidsC fuel hinitC ops).h.s T).trace :=
  stepOpC_evolve' kidsC fuel _ (history_invC kidsC fuel ops) T

/-- **Whole histories** (what the driver checks as `replay=`): the history produced with
clock-reading callbacks is the history `runOps` produces with ONE entry-only `kids` — the final
table.  Hence `history_invQ`, `history_conservation`, `history_origin`,
`history_call_exactly_once`, `history_evolve_exactly_once`, `runOps_fuel_mono` (all: for every
`kids`) are statements about `(runOpsC kidsC fuel hinitC ops).h`. -/
theorem runOpsC_eq_runOps (kidsC : Rat → Entry → List (Rat × Nat)) (fuel : Nat) (ops : List Op) :
    runOps (tableKids (runOpsC kidsC fuel hinitC ops).tbl) fuel hinit ops =
      (runOpsC kidsC fuel hinitC ops).h :=
  (runOpsC_eq_runOps' kidsC fuel ops hinitC invC_init).2.1

/-- **Reading the clock matters** (so `loopC` is not `loop` in disguise): two callbacks half a
threshold apart, each re-inserting itself a quarter later.  Relative to the clock both children land
at `5/4` (the second callback ran with the clock resting at `1`); relative to their own times at `5/4`
and `5/4 + eps/2`.  The harness's directed `clockrel` histories are of this shape. -/
theorem clock_reading_differs :
    ((loopC everyQuarterOfClock (9/8) 3 twoClose).s.queue.map (·.time) = [5/4, 5/4]) ∧
    ((loop everyQuarter (9/8) 3 twoClose).s.queue.map (·.time) = [5/4, 5/4 + eps / 2]) := by
  decide +kernel

/-! ### Round 4 — the hypotheses of the history theorems are decided by the driver -/

/-- the flags `addsfrom_hz=` / `addsfrom_t=` printed by the driver op `hist` (and compared with the
harness's own classification of the real history) decide the hypothesis `AddsFrom` of
`history_inv` / `history_inv_weak` / `history_exactly_once` -/
theorem addsFromB_spec (f : Hist → Rat) (kids : Entry → List (Rat × Nat)) (fuel : Nat) (ops : List Op) :
    addsFromB f kids fuel hinit ops = true ↔ AddsFrom f kids fuel ops := addsFromB_iff f kids fuel ops

/-- the flag `nofuelout=` decides the hypothesis `NoFuelOut` -/
theorem noFuelOutB_spec (kids : Entry → List (Rat × Nat)) (fuel : Nat) (ops : List Op) :
    noFuelOutB kids fuel hinit ops = true ↔ NoFuelOut kids fuel ops := noFuelOutB_iff kids fuel ops

/-! ### Round 5 — time arguments are stored by value (World = system + the caller's mutable cells)

`stepG`/`runG` (Model/SchedulerRef.lean) run a *caller program*: calls that hand over values or
references to caller-owned cells, and in-place mutations of those cells in between.  Under the
policy `copy` (the code: `copy.copy(t)` in `add_callback`, `self.t = copy.copy(t_next)`) the history
is the value-level history `resolve` — every call with the value its argument had at that moment —
so a later mutation of a cell that is not handed over again changes nothing.  Under `alias`
(`Bad.byReference`, the code without the copies) it does. -/

/-- **Times are stored by value.**  Whatever the caller does to its cells between the calls, the
history of the system under the `copy` policy is `runOps` on the value-level history `resolve`, and
no queue entry aliases a cell. -/
theorem stored_by_value (kids : Entry → List (Rat × Nat)) (fuel : Nat) (ops : List ROp) :
    ∀ w : World, w.refs = [] →
      (runG .copy kids fuel w ops).h = runOps kids fuel w.h (resolve w.cells ops) ∧
      (runG .copy kids fuel w ops).refs = [] := by
  induction ops with
  | nil => intro w hw; exact ⟨rfl, hw⟩
  | cons op ops ih =>
    intro w hw
    have hr : (stepG .copy kids fuel w op).refs = [] := by rw [stepG_copy_refs, hw]
    have := ih (stepG .copy kids fuel w op) hr
    have hh := stepG_copy_h kids fuel w hw op
    simp only [runG, List.foldl_cons] at this ⊢
    rw [this.1, hh]
    refine ⟨?_, this.2⟩
    cases op with
    | add a id => simp only [resolve, runOps, List.foldl_cons]; rfl
    | evolve a => simp only [resolve, runOps, List.foldl_cons]; rfl
    | mutate c x => simp only [resolve]; rfl

/-- **The run is independent of later mutations of caller cells**: overwriting a cell that no later
call hands over leaves the whole history (clock, queue, trace, created entries) as it would have
been without the mutation — in particular after `add_callback(arr, f)` the caller may go on using
`arr`. -/
theorem mutation_irrelevant (kids : Entry → List (Rat × Nat)) (fuel : Nat) (w : World)
    (hw : w.refs = []) (c : Nat) (x : Rat) (ops : List ROp)
    (hr : ∀ op ∈ ops, op.reads c = false) :
    (runG .copy kids fuel (stepG .copy kids fuel w (.mutate c x)) ops).h =
      (runG .copy kids fuel w ops).h := by
  rw [(stored_by_value kids fuel ops w hw).1,
    (stored_by_value kids fuel ops (stepG .copy kids fuel w (.mutate c x)) hw).1]
  show runOps kids fuel w.h (resolve (setCell w.cells c x) ops) = _
  rw [resolve_congr c ops (setCell w.cells c x) w.cells ?_ hr]
  intro j hj
  simp [setCell, hj]

example : winit.refs = [] := rfl
example : ∀ op ∈ [ROp.add (.ref 1) 3, ROp.mutate 0 7, ROp.evolve (.val 2)], op.reads 0 = false := by
  decide

/-- the caller program `arr[...] = 1; add_callback(arr, f7); arr[...] = 5; evolve_until(2)` -/
def aliasOps : List ROp := [.mutate 0 1, .add (.ref 0) 7, .mutate 0 5, .evolve (.val 2)]

/-- **`Bad.byReference`: storing the reference is not storing the value.**  On `aliasOps` the code
as it is (`copy`) runs the callback at time 1; the by-reference scheduler never runs it before the
target 2 (its queued time moved to 5 with the caller's array), and leaves it queued at time 5. -/
theorem Bad.byReference_counterexample :
    fired (runG .copy noKids 5 winit aliasOps).h.trace = [⟨1, 0, 7⟩] ∧
    (runG .copy noKids 5 winit aliasOps).h.s.queue = [] ∧
    fired (Bad.byReference noKids 5 winit aliasOps).h.trace = [] ∧
    (Bad.byReference noKids 5 winit aliasOps).h.s.queue = [⟨5, 0, 7⟩] := by
  decide +kernel

/-! ### Round 5 — exceptions raised by a callback, and resuming

`evolve_until` pops the due entry *before* it calls the callback (`heapq.heappop` in the loop head),
and has already bridged the interval to it.  A callback that raises after its work therefore leaves
the system exactly in the state `loop` is in when its fuel runs out at that callback: the entry is
gone from the queue (it is *not* retried), the clock stands at (within `eps` below) its time, the
children it scheduled are queued.  The harness replays this with a callback that raises after the
N-th execution against the model on fuel N. -/

/-- **Interrupted and resumed = uninterrupted.**  If the `n`-th callback raises (fuel `n` runs out)
and the caller calls `evolve_until(T)` again, the two traces concatenated, the final state and the
status are those of the uninterrupted run: nothing is lost, nothing runs twice. -/
theorem interrupted_resume (kids : Entry → List (Rat × Nat)) (T : Rat) (n m : Nat) (s : Sys)
    (h : (loop kids T n s).status = .outOfFuel) :
    loop kids T (n + m) s =
      { loop kids T m (loop kids T n s).s with
        trace := (loop kids T n s).trace ++ (loop kids T m (loop kids T n s).s).trace } :=
  loop_split' kids T n m s h

/-- the same for the public call: after the interruption the clock is not beyond `T`, so the second
`evolve_until(T)` is accepted and completes the run -/
theorem evolveUntil_interrupted_resume (kids : Entry → List (Rat × Nat)) (T : Rat) (n m : Nat) (s : Sys)
    (hT : s.t ≤ T) (h : (evolveUntil kids n s T).status = .outOfFuel) :
    evolveUntil kids (n + m) s T =
      { evolveUntil kids m (evolveUntil kids n s T).s T with
        trace := (evolveUntil kids n s T).trace ++ (evolveUntil kids m (evolveUntil kids n s T).s T).trace } := by
  have hn : ¬ T < s.t := not_lt.mpr hT
  simp only [evolveUntil, hn, if_false] at h ⊢
  have h2 : ¬ T < (loop kids T n s).s.t := not_lt.mpr (loop_clock_end_any kids T n s hT).1
  simp only [h2, if_false]
  exact loop_split' kids T n m s h

/-- **The entry whose callback raised is lost, not retried**: every callback executed before the
interruption (the raising one is the last of them) is absent from the queue left behind, and exactly
`n` callbacks were executed. -/
theorem interrupted_entry_lost (kids : Entry → List (Rat × Nat)) (T : Rat) (n : Nat) (s : Sys)
    (hi : InvQ s) (h : (loop kids T n s).status = .outOfFuel) :
    (fired (loop kids T n s).trace).length = n ∧
    ∀ e ∈ fired (loop kids T n s).trace, e ∉ (loop kids T n s).s.queue := by
  refine ⟨fired_length_eq_fuel kids T n s h, ?_⟩
  intro e he hq
  have hnd : (fired (loop kids T n s).trace ++ (loop kids T n s).s.queue).Nodup :=
    (loop_perm kids T n s).nodup_iff.mpr (nodup_queue_spawnedQ hi _)
  exact (List.nodup_append.mp hnd).2.2 e he e hq rfl

example : (loop selfNow 2 3 (addCallback init 1 0)).status = .outOfFuel :=
  (diverges_zero_delay_reinsertion 3).1

example : (addCallback init 1 0).t ≤ 2 ∧ (evolveUntil selfNow 3 (addCallback init 1 0) 2).status = .outOfFuel ∧
    InvQ (addCallback init 1 0) :=
  ⟨by decide +kernel, by decide +kernel, (inv_addCallback inv_init 1 0 (by simp [init])).toQ⟩

/-! #### … and a callback that raises *before* doing anything (`loopX`, the executed definition) -/

/-- without raising callbacks `loopX` is `loop` -/
theorem loopX_no_raise (kids : Entry → List (Rat × Nat)) (T : Rat) (fuel : Nat) (s : Sys) :
    loopX kids (fun _ => false) T fuel s = ⟨loop kids T fuel s, none⟩ :=
  loopX_no_raise' kids T fuel s

/-- **The state after an exception, exactly.**  If the callback of entry `e` raises, the run up to
there (status, clock, queue, counter, trace) is the run of `loop` whose fuel runs out at that
callback, with the callback of `e` scheduling nothing; `e` is an entry that raises.  Hence every
hypothesis-free theorem of this file (conservation, exactly-once, tiling, clock lag) holds of the
interrupted run, and `interrupted_resume` / `interrupted_entry_lost` apply to it. -/
theorem raise_eq_fuel_out (kids : Entry → List (Rat × Nat)) (raises : Entry → Bool) (T : Rat)
    (fuel : Nat) (s : Sys) (e : Entry) (h : (loopX kids raises T fuel s).raisedAt = some e) :
    raises e = true ∧
    (loopX kids raises T fuel s).run =
      loop (kidsExcept kids e) T (fired (loopX kids raises T fuel s).run.trace).length s :=
  ⟨loopX_raisedAt_raises kids raises T fuel s e h, loopX_raise_eq_loop' kids raises T fuel s e h⟩

/-- **The entry whose callback raised is lost, the clock stands at its stop**: it is the last callback
in the trace, it is not in the queue left behind, and no other executed callback is. -/
theorem raise_entry_lost (kids : Entry → List (Rat × Nat)) (raises : Entry → Bool) (T : Rat)
    (fuel : Nat) (s : Sys) (hi : InvQ s) (e : Entry)
    (h : (loopX kids raises T fuel s).raisedAt = some e) :
    (loopX kids raises T fuel s).run.status = .outOfFuel ∧
    (∀ x ∈ fired (loopX kids raises T fuel s).run.trace, x ∉ (loopX kids raises T fuel s).run.s.queue) := by
  have hb := (raise_eq_fuel_out kids raises T fuel s e h).2
  have hst : (loopX kids raises T fuel s).run.status = .outOfFuel := by
    clear hb
    induction fuel generalizing s with
    | zero => simp [loopX]
    | succ fuel ih =>
      match hq : s.queue with
      | [] => simp [loopX, hq] at h
      | x :: rest =>
        by_cases ht : x.time < T
        · by_cases hr : raises x = true
          · simp only [loopX, hq, ht, if_true, hr]
          · simp only [loopX, hq, ht, if_true, hr, Bool.false_eq_true, if_false] at h ⊢
            have hi' : InvQ (addAll (advance { s with queue := rest } (x.time - s.t)).1 (kids x)) :=
              (next_invQ hi hq : InvQ (next kids s x rest))
            exact ih _ hi' h
        · simp [loopX, hq, ht] at h
  refine ⟨hst, ?_⟩
  have hst' := hst
  rw [hb] at hst'
  rw [hb]
  exact (interrupted_entry_lost (kidsExcept kids e) T _ s hi hst').2

example : (loopX noKids (fun e => e.ctr == 0) 2 5 (addCallback init 1 0)).raisedAt = some ⟨1, 0, 0⟩ := by
  decide +kernel

/-! ### Round 5 — the termination criterion the code has, with an explicit fuel

If every callback due before the target schedules its children at least `δ > 0` after its own time
(at most `B` of them), `evolve_until(T)` returns, and the model's fuel is immaterial: an explicit
number `N` of iterations suffices, every fuel `≥ N` gives the very same run, and fewer than `N`
callbacks are executed.  So for such systems the fuel-parameterised theorems of this file are
statements about the real unbounded `while` loop (`evolveUntil_spec_total`). -/

/-- **Totality under progress.**  `N = |queue| · (1 + B + … + B^(n-1)) + 1`, `n = ⌈(T - t)/δ⌉`. -/
theorem evolve_total_of_progress {kids : Entry → List (Rat × Nat)} {δ T : Rat} {B : Nat}
    (hδ : 0 < δ) (hprog : ∀ e, e.time < T → ∀ c ∈ kids e, e.time + δ ≤ c.1)
    (hB : ∀ e, e.time < T → (kids e).length ≤ B) (s : Sys) (hi : Inv s) (hT : s.t ≤ T) :
    (evolveUntil kids (s.queue.length * geom B ⌈(T - s.t) / δ⌉₊ + 1) s T).status = .ok ∧
    (∀ fuel, s.queue.length * geom B ⌈(T - s.t) / δ⌉₊ + 1 ≤ fuel →
      evolveUntil kids fuel s T =
        evolveUntil kids (s.queue.length * geom B ⌈(T - s.t) / δ⌉₊ + 1) s T) ∧
    (fired (evolveUntil kids (s.queue.length * geom B ⌈(T - s.t) / δ⌉₊ + 1) s T).trace).length
      ≤ s.queue.length * geom B ⌈(T - s.t) / δ⌉₊ := by
  have hok : (evolveUntil kids (s.queue.length * geom B ⌈(T - s.t) / δ⌉₊ + 1) s T).status = .ok := by
    have hn : ¬ T < s.t := not_lt.mpr hT
    simp only [evolveUntil, hn, if_false]
    exact terminates_if_progress_bound hδ hprog hB s hi _ (Nat.lt_succ_self _)
  refine ⟨hok, ?_, ?_⟩
  · intro fuel hf
    obtain ⟨k, rfl⟩ := Nat.exists_eq_add_of_le hf
    exact evolveUntil_fuel_mono kids _ s T (by rw [hok]; decide) k
  · have hn : ¬ T < s.t := not_lt.mpr hT
    simp only [evolveUntil, hn, if_false] at hok ⊢
    exact Nat.lt_succ_iff.mp (fired_length_lt_fuel kids T _ s hok)

/-- **Self-re-insertion** (`B = 1`, the docstring's periodic callback): within
`|queue| · ⌈(T - t)/δ⌉` callbacks (+ 1 iteration for the final stretch) the call returns. -/
theorem evolve_total_of_progress_single {kids : Entry → List (Rat × Nat)} {δ T : Rat}
    (hδ : 0 < δ) (hprog : ∀ e, e.time < T → ∀ c ∈ kids e, e.time + δ ≤ c.1)
    (h1 : ∀ e, e.time < T → (kids e).length ≤ 1) (s : Sys) (hi : Inv s) (hT : s.t ≤ T) :
    ∀ fuel, s.queue.length * ⌈(T - s.t) / δ⌉₊ + 1 ≤ fuel →
      (evolveUntil kids fuel s T).status = .ok ∧
      (fired (evolveUntil kids fuel s T).trace).length ≤ s.queue.length * ⌈(T - s.t) / δ⌉₊ := by
  intro fuel hf
  have := evolve_total_of_progress hδ hprog h1 s hi hT
  simp only [geom_one] at this
  rw [this.2.1 fuel hf]
  exact ⟨this.1, this.2.2⟩

/-- **The whole statement for the real, unbounded loop** of a progressing system: no fuel and no
"the call returns" hypothesis — `evolveUntil_spec` for every sufficient fuel, all giving one run. -/
theorem evolveUntil_spec_total {kids : Entry → List (Rat × Nat)} {δ T : Rat} {B : Nat} (hk : WF kids)
    (hδ : 0 < δ) (hprog : ∀ e, e.time < T → ∀ c ∈ kids e, e.time + δ ≤ c.1)
    (hB : ∀ e, e.time < T → (kids e).length ≤ B) (s : Sys) (hi : Inv s) (hT : s.t ≤ T) :
    ∀ fuel, s.queue.length * geom B ⌈(T - s.t) / δ⌉₊ + 1 ≤ fuel →
      let r := evolveUntil kids fuel s T
      r.status = .ok ∧
      Inv r.s ∧ sumDt r.trace = r.s.t - s.t ∧ r.s.t ≤ T ∧ T - r.s.t ≤ eps ∧
      (∀ q ∈ r.s.queue, T ≤ q.time) ∧ Sorted (fired r.trace) ∧
      (∀ e clk, Event.fire e clk ∈ r.trace → clk ≤ e.time ∧ e.time - clk ≤ eps ∧ e.time < T) ∧
      (∀ q ∈ s.queue, (q.time < T → q ∈ fired r.trace) ∧ (T ≤ q.time → q ∈ r.s.queue)) := by
  intro fuel hf
  have h := evolve_total_of_progress hδ hprog hB s hi hT
  have hok : (evolveUntil kids fuel s T).status = .ok := by rw [h.2.1 fuel hf]; exact h.1
  exact ⟨hok, evolveUntil_spec hk T fuel s hi hT hok⟩

example : WF demoKids ∧ (0 : Rat) < 1 ∧ (∀ e, e.time < (3 : Rat) → ∀ c ∈ demoKids e, e.time + 1 ≤ c.1) ∧
    (∀ e, e.time < (3 : Rat) → (demoKids e).length ≤ 1) ∧ Inv demoSys ∧ demoSys.t ≤ 3 := by
  refine ⟨?_, by norm_num, ?_, ?_, ?_, by decide +kernel⟩
  · intro e c hc; unfold demoKids at hc; split at hc <;> simp at hc; rw [hc]; simp
  · intro e _ c hc; unfold demoKids at hc; split at hc <;> simp at hc; rw [hc]
  · intro e _; unfold demoKids; split <;> simp
  · exact inv_addAll inv_init _ (by decide +kernel)

/-! ### Re-entrancy: a callback that calls `evolve_until` itself (round 6)

`loopR` / `evolveUntilR` (Model/SchedulerRef.lean) is the loop with callbacks whose body is "schedule
`pre`, call `evolve_until(T2)`, schedule `post`"; the driver op `evolver` executes it against the real
object driven by re-entering callbacks.  The statement of C20 quantifies over callbacks that *schedule*
further callbacks; a callback that *evolves* the system is outside that quantifier.  What the code
does with it: tiling and the lower clock bound survive unconditionally, "the clock ends at T" holds
exactly when no nested target exceeds the outer one, and fails otherwise. -/

/-- **Bridge**: with callbacks that never re-enter, the re-entrant loop is `loop` — the object of
every theorem above — as a function. -/
theorem reentrant_plain_is_loop (kids : Entry → List (Rat × Nat)) (fuel : Nat) (s : Sys) (T : Rat) :
    evolveUntilR (plainBody kids) fuel s T = evolveUntil kids fuel s T := by
  unfold evolveUntilR evolveUntil; rw [loopR_plain']

/-- **Tiling survives re-entrancy**: for every callback behaviour (nested targets of any size, at any
depth), fuel and status, the intervals integrated by the outer call and all nested calls together add
up to the movement of the clock. -/
theorem reentrant_tiling (acts : Entry → Body) (fuel : Nat) (s : Sys) (T : Rat) :
    sumDt (evolveUntilR acts fuel s T).trace = (evolveUntilR acts fuel s T).s.t - s.t := by
  unfold evolveUntilR; split
  · simp [sumDt]
  · exact loopR_tiles' acts T fuel s

/-- **The clock ends at T when no callback evolves beyond T**: a call that returns leaves the clock in
`[T - eps, T]` provided every nested target is at most the outer target (the lower bound needs no
hypothesis at all). -/
theorem reentrant_clock_end (acts : Entry → Body) (fuel : Nat) (s : Sys) (T : Rat)
    (hB : ∀ e T2, (acts e).nested = some T2 → T2 ≤ T)
    (hok : (evolveUntilR acts fuel s T).status = .ok) :
    T - eps ≤ (evolveUntilR acts fuel s T).s.t ∧ (evolveUntilR acts fuel s T).s.t ≤ T := by
  unfold evolveUntilR at hok ⊢
  by_cases hT : T < s.t
  · simp [hT] at hok
  · simp only [hT, if_false] at hok ⊢
    exact ⟨loopR_clock_ge' acts T fuel s hok, loopR_clock_le' acts T hB T fuel s (le_refl _) (not_lt.mp hT)⟩

/-- the lower half without any hypothesis on the nested targets -/
theorem reentrant_clock_end_lower (acts : Entry → Body) (fuel : Nat) (s : Sys) (T : Rat)
    (hok : (evolveUntilR acts fuel s T).status = .ok) : T - eps ≤ (evolveUntilR acts fuel s T).s.t := by
  unfold evolveUntilR at hok ⊢
  by_cases hT : T < s.t
  · simp [hT] at hok
  · simp only [hT, if_false] at hok ⊢
    exact loopR_clock_ge' acts T fuel s hok

/-- the callback with id 0 calls `evolve_until(3)`; nobody else re-enters -/
def reentDemo (e : Entry) : Body := if e.id = 0 then ⟨[], some 3, []⟩ else ⟨[], none, []⟩

example : (∀ e T2, (reentDemo e).nested = some T2 → T2 ≤ (3 : Rat)) ∧
    (evolveUntilR reentDemo 10 (addCallback init 1 0) 3).status = .ok := by
  refine ⟨?_, by decide +kernel⟩
  intro e T2 h; unfold reentDemo at h; split at h <;> simp at h; rw [← h]

/-- **A nested call to a later target breaks "the clock ends at T"** (and runs callbacks that are not
due before T): `add_callback(1, f)` with `f` calling `evolve_until(3)`, `add_callback(5/2, g)`,
`evolve_until(9/4)` returns normally with the clock at 3 and `g` executed.  Observed on the real
code (harness style `reent`); the hypothesis of `reentrant_clock_end` cannot be dropped. -/
theorem reentrant_later_target_overshoots :
    (evolveUntilR reentDemo 10 (addCallback (addCallback init 1 0) (5/2) 1) (9/4)).status = .ok ∧
    (evolveUntilR reentDemo 10 (addCallback (addCallback init 1 0) (5/2) 1) (9/4)).s.t = 3 ∧
    fired (evolveUntilR reentDemo 10 (addCallback (addCallback init 1 0) (5/2) 1) (9/4)).trace =
      [⟨1, 0, 0⟩, ⟨5/2, 1, 1⟩] := by
  decide +kernel

/-! ### Raising at once with clock-relative children (round 6) -/

/-- **Bridge**: with callbacks that do not look at the clock, `loopXC` is `loopX` (the object of
`raise_eq_fuel_out`, `raise_entry_lost`). -/
theorem loopXC_entry_only (kids : Entry → List (Rat × Nat)) (raises : Entry → Bool) (T : Rat)
    (fuel : Nat) (s : Sys) : loopXC (fun _ => kids) raises T fuel s = loopX kids raises T fuel s :=
  loopXC_entry_only' kids raises T fuel s

/-- **The state after an exception, exactly, for callbacks that read the clock** (`self.t + period`):
the run up to the raising entry `e` is the `loopC` run whose fuel runs out at that callback, with the
callback of `e` scheduling nothing.  `loopC` runs are `loop` runs (`loopC_eq_loop_table`), so every
hypothesis-free theorem of this file and the `clockC_*` theorems hold of the interrupted run. -/
theorem raise_eq_fuel_out_clock (kidsC : Rat → Entry → List (Rat × Nat)) (raises : Entry → Bool) (T : Rat)
    (fuel : Nat) (s : Sys) (e : Entry) (h : (loopXC kidsC raises T fuel s).raisedAt = some e) :
    raises e = true ∧
    (loopXC kidsC raises T fuel s).run =
      loopC (kidsExceptC kidsC e) T (fired (loopXC kidsC raises T fuel s).run.trace).length s :=
  ⟨loopXC_raisedAt_raises kidsC raises T fuel s e h, loopXC_raise_eq_loopC' kidsC raises T fuel s e h⟩

example : (loopXC (fun clk _ => [(clk + 1, 0)]) (fun e => e.ctr == 1) 5 10
    (addCallback init 1 0)).raisedAt = some ⟨2, 1, 0⟩ := by decide +kernel

/-! ### Termination of the zero-delay DAG class with a concrete weight (round 6) -/

/-- **Callbacks that schedule only callbacks of strictly larger id terminate, whatever the delays**
(zero, below the coalescing window, negative): if every callback due before the horizon schedules at
most `B` children, all with ids above its own and below `N`, the loop returns for every fuel above
`Σ_{q queued} (B+1)^(N - q.id)` — the concrete weight `dagWeight` for `terminates_of_weight`.  This is
the class the harness generates for same-instant children (styles ties/coalesce/mixed/negkids). -/
theorem terminates_if_dag {kids : Entry → List (Rat × Nat)} {T : Rat} {B N : Nat}
    (hB : ∀ e, e.time < T → (kids e).length ≤ B)
    (hdag : ∀ e, e.time < T → ∀ c ∈ kids e, e.id < c.2 ∧ c.2 < N) (s : Sys) :
    ∀ fuel, potential (dagWeight B N) s.queue < fuel → (loop kids T fuel s).status = .ok :=
  terminates_of_weight (dagWeight B N) (dag_weight hB hdag) s

/-- id 0 schedules id 1 for the same instant and id 2 half a unit *earlier*; nobody else schedules -/
def dagDemo (e : Entry) : List (Rat × Nat) := if e.id = 0 then [(e.time, 1), (e.time - 1/2, 2)] else []

example : (∀ e, e.time < (3 : Rat) → (dagDemo e).length ≤ 2) ∧
    (∀ e, e.time < (3 : Rat) → ∀ c ∈ dagDemo e, e.id < c.2 ∧ c.2 < 3) := by
  constructor
  · intro e _; unfold dagDemo; split <;> simp
  · intro e _ c hc; unfold dagDemo at hc; split at hc
    · simp at hc; rcases hc with rfl | rfl <;> simp <;> omega
    · simp at hc

/-! ### Scheduling in batches (session 4) -/

/-- **Scheduling a list of callbacks in two batches is scheduling it in one**: a sequence of
`add_callback` calls has no hidden state besides the queue and the running counter, so any split of
the sequence reaches the same system (same heap content, same counters, same clock).  Unbounded in
both batches. -/
theorem addAll_append (s : Sys) (l₁ l₂ : List (Rat × Nat)) :
    addAll s (l₁ ++ l₂) = addAll (addAll s l₁) l₂ := by
  induction l₁ generalizing s with
  | nil => rfl
  | cons c cs ih => obtain ⟨a, b⟩ := c; simp only [List.cons_append, addAll]; exact ih _

/-- **A history of `add_callback` calls is the batch insertion**: the system reached by a history
consisting only of `add` operations is `addAll` of their arguments — the interface path (`stepOp`,
what the harness drives call by call) and the batch path (`addAll`, what a running callback does
with its children) are the same state transformer; no trace is produced and the horizon is kept. -/
theorem runOps_adds_eq_addAll (kids : Entry → List (Rat × Nat)) (fuel : Nat) (h : Hist)
    (l : List (Rat × Nat)) :
    (runOps kids fuel h (l.map fun c => Op.add c.1 c.2)).s = addAll h.s l ∧
    (runOps kids fuel h (l.map fun c => Op.add c.1 c.2)).trace = h.trace ∧
    (runOps kids fuel h (l.map fun c => Op.add c.1 c.2)).hz = h.hz := by
  induction l generalizing h with
  | nil => exact ⟨rfl, rfl, rfl⟩
  | cons c cs ih =>
    obtain ⟨a, b⟩ := c
    simp only [List.map_cons, runOps, List.foldl_cons]
    have := ih (stepOp kids fuel h (Op.add a b))
    simpa only [runOps, stepOp, addAll] using this

example : (addAll init ([(1, 7), (1, 3)] ++ [(1/2, 4), (5, 9)])).queue.length = 4 := by decide +kernel

end HcipyVerif.Scheduler
